/-
  WS.Model.App — `WebSocketApp.run_forever` (websocket/_app.py:235-586) with the built-in
  dispatchers (websocket/_dispatcher.py) and the keepalive thread, as pure total functions over an
  explicit state record, a *world script* and a *callback plan*; the result is the ordered,
  time-stamped trace of everything observable.  Control flow follows DESIGN Appendix B function by
  function: `teardown`, `setSock`, `read`, `check`, `closed`, `handleDisconnect`, `_callback`,
  `_get_close_args`, `Dispatcher.read`, `SSLDispatcher.read/select`, `DispatcherBase.reconnect`,
  `WebSocketApp.close`, `_start_ping_thread/_stop_ping_thread/_send_ping`, and of `_core.py` what the
  app uses: `WebSocket.close` (close handshake wait), `shutdown`, `send_close`, `ping`.
  Python's try/except/finally is an explicit result type `R` (no monad stack).

  Assumed interface to the layers below (another group's models: FrameBuffer / RecvLoop / Conn).
  `recv_data_frame(True)` consumes the next *already parsed* server event of the connection:
    message op p frag | ping p | pong p | close body | eof | reset | protoError | payloadError | part
  * `message`: a complete data message, op ∈ {1,2}, text payloads are well-formed UTF-8 (C04/C06);
    `frag` = it was sent in ≥ 2 frames (then the *last frame's* opcode is 0);
  * `ping p` (|p| < 126): the pong reply is written before the event is returned (C07);
  * `close body` (legal body, C05): a close frame 1000 is written first and `connected := False`;
  * `eof`: CLOSED is raised after the transport has been released (`_core._recv`);
  * `reset`: the OS error propagates, the transport stays, later writes fail;
  * `protoError` / `payloadError`: PROTO / PAYLOAD is raised, nothing is written;
  * `partial`: a non-final first fragment — the call blocks in `recv` (no select, no `check`) until
    the next event arrives and then continues with it.
  An event has arrived when its arrival time ≤ now; the parser holds no bytes beyond the current
  frame (C03), so readiness of the transport = "the next event has arrived"; on a TLS transport the
  rest of a decrypted segment (`burst`) is visible through `pending()` only.
  Handshakes take no virtual time.  Time unit: tick = 1/1024 s (`tps`).

  Threads: main and the ping thread are atomic between blocking points (baton semantics of
  harness/simsched.py).  When both wake at the same tick the next entry of the schedule decides
  (`true` = ping thread first; exhausted = main first).
-/
import WS.Base.Bytes
import WS.Gen.Tables
namespace WS.Model.App
open WS

/-- ticks per second -/
def tps : Nat := 1024

/-! ### vocabulary -/

inductive Cb where
  | onOpen | onReconnect | onMessage | onData | onError | onClose | onPing | onPong
  deriving DecidableEq, Repr, Inhabited

def Cb.all : List Cb := [.onOpen, .onReconnect, .onMessage, .onData, .onError, .onClose, .onPing, .onPong]

def Cb.idx : Cb → Nat
  | .onOpen => 0 | .onReconnect => 1 | .onMessage => 2 | .onData => 3
  | .onError => 4 | .onClose => 5 | .onPing => 6 | .onPong => 7

def Cb.name : Cb → String
  | .onOpen => "on_open" | .onReconnect => "on_reconnect" | .onMessage => "on_message"
  | .onData => "on_data" | .onError => "on_error" | .onClose => "on_close"
  | .onPing => "on_ping" | .onPong => "on_pong"

/-- what a user callback does at one invocation -/
inductive Act where
  | ok | raise | close | ki
  deriving DecidableEq, Repr, Inhabited

/-- exceptions as the app sees them (canonical classes of DESIGN §3.2 plus app-level ones). -/
inductive AExn where
  | closed | proto | payload | timeout | transport | badstatus (n : Nat) | wsgeneric
  | attrError                       -- AttributeError: 'NoneType' object has no attribute 'sock'
  | user (cb : Cb) (k : Nat)        -- the exception raised by the k-th invocation of callback cb
  | ki                              -- KeyboardInterrupt
  | frame (body : Bytes)            -- not an exception: the ABNF close frame handed to on_error (F2)
  | other (k : String)              -- anything else observed on the real side (never produced by the model)
  deriving DecidableEq, Repr, Inhabited

inductive Arg where
  | none | int (n : Nat) | str (utf8 : Bytes) | bytes (b : Bytes) | bool (b : Bool) | exn (e : AExn)
  deriving DecidableEq, Repr, Inhabited

/-- trace events -/
inductive Ev where
  | cb (c : Cb) (args : List Arg)
  | dial (i : Nat)                  -- connection attempt on the i-th socket (successful or not)
  | sleep (d : Nat)
  | wrote (op : Nat) (p : Bytes)    -- a client frame reached the peer
  | sockClosed (i : Nat)            -- transport i closed
  | sockDropped (i : Nat)           -- last reference to the still-open transport i dropped
  | pingStart | pingStop            -- ping thread started / exited
  | returned (b : Bool)             -- run_forever returned b
  | raisedOut (e : AExn)            -- run_forever raised
  | closeCall                       -- observer marker (real runs only): another thread calls app.close()
  | blocked                         -- cut at the horizon (the run does not end by itself)
  | outOfFuel
  deriving DecidableEq, Repr, Inhabited

abbrev Trace := List (Nat × Ev)

/-- server events (already parsed; see the header) -/
inductive SrvEv where
  | message (op : Nat) (p : Bytes) (frag : Bool)
  | ping (p : Bytes) | pong (p : Bytes) | close (body : Bytes)
  | eof | reset | protoError | payloadError | part
  deriving DecidableEq, Repr, Inhabited

/-- `dt` ticks after the previous event of the connection (the first: after establishment);
    `burst`: in the same (TLS) segment as the previous event. -/
structure TEv where
  dt : Nat
  burst : Bool
  ev : SrvEv
  deriving DecidableEq, Repr, Inhabited

inductive Dial where
  | refused | rejected (st : Nat) | established (evs : List TEv)
  deriving DecidableEq, Repr, Inhabited

/-- configuration of one `run_forever` call on one app object -/
structure Cfg where
  has : Cb → Bool                   -- which callbacks are set
  plan : Cb → List Act              -- per callback, per invocation (exhausted = ok)
  iv : Int                          -- ping_interval (ticks)
  to : Option Int                   -- ping_timeout (ticks) or None
  payload : Bytes                   -- ping_payload
  reconnect : Nat                   -- ticks; 0 = off
  ssl : Bool                        -- wss:// (SSLDispatcher)
  horizon : Nat                     -- virtual time at which a run that does not end is cut
  fuel : Nat                        -- bound on loop iterations of the model (never reached in use)

/-- what callback `cb` does at its `k`-th invocation -/
def Cfg.act (c : Cfg) (cb : Cb) (k : Nat) : Act := (c.plan cb).getD k .ok

/-- the `WebSocket` object held in `app.sock` -/
structure WSock where
  idx : Nat
  connected : Bool
  isOpen : Bool                     -- `ws.sock is not None` (transport not released)
  dead : Bool                       -- peer reset: writes fail
  deriving DecidableEq, Repr, Inhabited

structure PingTh where
  wake : Nat                        -- tick at which its current `stop_ping.wait(iv)` times out
  first : Bool                      -- still in the first wait
  deriving DecidableEq, Repr, Inhabited

structure St where
  now : Nat := 0
  keepRunning : Bool := false
  sock : Option WSock := none
  hasErrored : Bool := false
  hasDoneTeardown : Bool := false
  ping : Option PingTh := none
  lastPing : Nat := 0
  lastPong : Nat := 0
  calls : Cb → Nat := fun _ => 0    -- invocations so far (observer state)
  dials : List Dial := []           -- outcomes of the dials still to come
  nextIdx : Nat := 0
  evs : List TEv := []              -- events of the current connection not yet consumed
  arr : Nat := 0                    -- arrival time of the last consumed event (or establishment)
  sched : List Bool := []
  trace : Trace := []

/-- result of a Python call: normal, exception, or the model was cut (horizon / fuel). -/
inductive R (α : Type) where
  | ok (a : α) | exc (e : AExn) | halt
  deriving Repr

def St.emit (s : St) (e : Ev) : St := { s with trace := s.trace ++ [(s.now, e)] }

def secs (n : Nat) : Nat := n * tps

/-! ### the ping thread and the passage of time -/

/-- can a frame be written on `app.sock` right now? (`WebSocket.send` on a released or reset
    transport raises; every caller below swallows that) -/
def St.writable (s : St) : Bool :=
  match s.sock with
  | some w => w.isOpen && !w.dead
  | none => false

/-- `if self.last_pong_tm >= self.last_ping_tm: self.last_ping_tm = time.time()` — the new value of `last_ping_tm` when a
    ping is sent: an unanswered ping keeps its stamp (generated fact; the pinned commit stamped every ping). -/
def pingStamp (s : St) : Nat :=
  if Gen.appPingStampWhenAnswered && decide (s.lastPong < s.lastPing) then s.lastPing else s.now

/-- `if self.last_pong_tm < self.last_ping_tm: self.last_pong_tm = time.time()` — the new value of `last_pong_tm` when a
    pong is read: only the answer to the outstanding ping is timed (generated fact; the pinned commit stamped every pong). -/
def pongStamp (s : St) : Nat :=
  if Gen.appPongStampWhenOutstanding && !decide (s.lastPong < s.lastPing) then s.lastPong else s.now

/-- one timed wake of `_send_ping` (`stop_ping.wait(iv)` returned False). -/
def pingFire (c : Cfg) (s : St) (p : PingTh) : St :=
  let s := { s with now := max s.now p.wake }
  if !s.keepRunning then ({ s with ping := none }).emit .pingStop
  else if p.first then { s with ping := some { wake := p.wake + c.iv.toNat, first := false } }
  else
    let s := match s.sock with
      | some _ =>
        let s := { s with lastPing := pingStamp s }
        if s.writable then s.emit (.wrote Gen.opcodePing c.payload) else s
      | none => s
    { s with ping := some { wake := p.wake + c.iv.toNat, first := false } }

/-- main sleeps/blocks until tick `t`: the ping thread's wakes before `t` happen first, a wake at
    exactly `t` is ordered by the schedule. -/
def advance (c : Cfg) : Nat → St → Nat → St
  | 0, s, t => { s with now := max s.now t }
  | n + 1, s, t =>
    match s.ping with
    | none => { s with now := max s.now t }
    | some p =>
      if p.wake < t then advance c n (pingFire c s p) t
      else if p.wake = t then
        match s.sched with
        | true :: rest => advance c n (pingFire c { s with sched := rest } p) t
        | false :: rest => { s with sched := rest, now := max s.now t }
        | [] => { s with now := max s.now t }
      else { s with now := max s.now t }

/-- block until tick `t` (≥ now).  Beyond the horizon the run is cut. -/
def waitUntil (c : Cfg) (s : St) (t : Nat) : St × Bool :=
  if t > c.horizon then ((advance c (c.horizon + 2) { s with sched := [] } (c.horizon + 1)).emit .blocked, false)
  else (advance c (t + 2) s t, true)

def stopPing (s : St) : St :=
  let s := match s.ping with
    | some _ => ({ s with ping := none }).emit .pingStop
    | none => s
  { s with lastPing := 0, lastPong := 0 }

def startPing (c : Cfg) (s : St) : St :=
  ({ s with lastPing := 0, lastPong := 0, ping := some { wake := s.now + c.iv.toNat, first := true } }).emit .pingStart

/-! ### the WebSocket object (what the app uses of `_core.py`) -/

/-- arrival time of the next event of the current connection -/
def St.nextAt (s : St) : Option Nat :=
  match s.evs with
  | [] => none
  | e :: _ => some (s.arr + e.dt)

def closeTransport (s : St) : St :=
  match s.sock with
  | some w => if w.isOpen then ({ s with sock := some { w with isOpen := false, connected := false } }).emit (.sockClosed w.idx)
              else { s with sock := some { w with connected := false } }
  | none => s

/-- the wait for the peer's close frame inside `WebSocket.close`:
    `while time.time() - start < timeout: try recv_frame … except: break` with socket timeout 3 s.
    Every frame other than close is skipped (no pong is sent from here). -/
def closeWait (c : Cfg) (start : Nat) : List TEv → St → St × Bool
  | [], s =>
    if s.now - start < secs Gen.closeTimeoutDefault then
      let (s, ok) := waitUntil c s (s.now + secs Gen.closeTimeoutDefault)
      (s, ok)
    else (s, true)
  | e :: rest, s =>
    if s.now - start < secs Gen.closeTimeoutDefault then
      let at_ := s.arr + e.dt
      if at_ ≤ s.now + secs Gen.closeTimeoutDefault then
        let (s, ok) := waitUntil c s at_
        if !ok then (s, false) else
        let s := { s with evs := rest, arr := at_ }
        match e.ev with
        | .close _ => (s, true)
        | .eof => (closeTransport s, true)
        | .reset => ({ s with sock := s.sock.map fun (w : WSock) => { w with dead := true } }, true)
        | .protoError => (s, true)
        | _ => closeWait c start rest s
      else
        let (s, ok) := waitUntil c s (s.now + secs Gen.closeTimeoutDefault)
        (s, ok)
    else (s, true)

/-- `WebSocket.close()` -/
def wsClose (c : Cfg) (s : St) : St × Bool :=
  match s.sock with
  | none => (s, true)
  | some w =>
    if !w.connected then (s, true) else
    let s := { s with sock := some { w with connected := false } }
    if s.writable then
      let s := s.emit (.wrote Gen.opcodeClose (beN 2 Gen.statusNormal))
      let (s, ok) := closeWait c s.now s.evs s
      if !ok then (s, false) else (closeTransport s, true)
    else (closeTransport s, true)

/-- `self.sock = None` -/
def dropSock (s : St) : St :=
  match s.sock with
  | some w => if w.isOpen then ({ s with sock := none }).emit (.sockDropped w.idx) else { s with sock := none }
  | none => s

/-- `if self.sock: self.sock.close(**kwargs); self.sock = None` -/
def closeSock (c : Cfg) (s : St) : St × Bool :=
  match s.sock with
  | none => (s, true)
  | some _ =>
    let (s, ok) := wsClose c s
    if !ok then (s, false) else (dropSock s, true)

/-- `WebSocketApp.close()` -/
def appClose (c : Cfg) (s : St) : St × Bool := closeSock c { s with keepRunning := false }

/-! ### callbacks -/

def bump (f : Cb → Nat) (cb : Cb) : Cb → Nat := fun x => if x = cb then f x + 1 else f x

/-- the user function itself: log the invocation, then do what the plan says. -/
def rawCall (c : Cfg) (s : St) (cb : Cb) (args : List Arg) : St × R Unit :=
  let k := s.calls cb
  let s := ({ s with calls := bump s.calls cb }).emit (.cb cb args)
  match c.act cb k with
  | .ok => (s, .ok ())
  | .raise => (s, .exc (.user cb k))
  | .ki => (s, .exc .ki)
  | .close =>
    let (s, ok) := appClose c s
    if ok then (s, .ok ()) else (s, .halt)

/-- `_callback(cb, *args)`: `Exception` → on_error (called directly; its own exception propagates);
    KeyboardInterrupt is not an `Exception` and propagates. -/
def callback (c : Cfg) (s : St) (cb : Cb) (args : List Arg) : St × R Unit :=
  if !c.has cb then (s, .ok ()) else
  match rawCall c s cb args with
  | (s, .exc .ki) => (s, .exc .ki)
  | (s, .exc e) => if c.has .onError then rawCall c s .onError [.exn e] else (s, .ok ())
  | r => r

/-! ### teardown, handleDisconnect -/

/-- `_get_close_args` -/
def closeArgs (c : Cfg) (frame : Option Bytes) : List Arg :=
  if !c.has .onClose then [.none, .none] else
  match frame with
  | none => [.none, .none]
  | some body =>
    if body.length ≥ 2 then [.int (unbe (body.take 2)), .str (body.drop 2)] else [.none, .none]

def teardown (c : Cfg) (s : St) (frame : Option Bytes) : St × R Unit :=
  if Gen.appTeardownGuard && s.hasDoneTeardown then (s, .ok ()) else
  let s := { s with hasDoneTeardown := true }
  let s := if Gen.appTeardownStopsPing then stopPing s else s
  let s := { s with keepRunning := false }
  let (s, ok) := wsClose c s
  if !ok then (s, .halt) else
  let s := dropSock s
  callback c s .onClose (closeArgs c frame)

/-- the part of handleDisconnect after the error has been reported:
    KeyboardInterrupt/SystemExit → teardown and re-raise; reconnect on → nothing (the caller dials again);
    otherwise teardown. -/
def afterReport (c : Cfg) (s : St) (e : AExn) : St × R Unit :=
  if e = .ki then
    match teardown c s none with
    | (s, .ok ()) => (s, .exc .ki)
    | r => r
  else if c.reconnect ≠ 0 then (s, .ok ())
  else teardown c s none

/-- handleDisconnect once it is established that the run is still wanted (or the exception is a KeyboardInterrupt). -/
def handleDisconnectBody (c : Cfg) (s : St) (e : AExn) (rc : Bool) : St × R Unit :=
  let s := if Gen.appDisconnectSetsErrored then { s with hasErrored := true } else s
  let s := if Gen.appDisconnectStopsPing then stopPing s else s
  let (s, r) := if !rc then callback c s .onError [.exn e] else (s, .ok ())
  match r with
  | .exc e' => (s, .exc e')
  | .halt => (s, .halt)
  | .ok () => afterReport c s e

def handleDisconnect (c : Cfg) (s : St) (e : AExn) (rc : Bool) : St × R Unit :=
  -- `if not self.keep_running and not isinstance(e, (KeyboardInterrupt, SystemExit)): teardown(); return` — the
  -- application has closed the connection: what the loop trips over on its way out is not an error of the run
  if Gen.appCloseGuard && !s.keepRunning && e != .ki then teardown c s none else handleDisconnectBody c s e rc

/-! ### read, check -/

def dataArg (op : Nat) (p : Bytes) : Arg := if op = Gen.opcodeText then .str p else .bytes p

/-- the two callbacks of a complete message -/
def deliverMessage (c : Cfg) (s : St) (op : Nat) (p : Bytes) (frag : Bool) : St × R Unit :=
  let opArg := if Gen.appOnDataMsgOpcode then op else (if frag then Gen.opcodeCont else op)
  let first := if Gen.appDataBeforeMessage then (Cb.onData, [dataArg op p, .int opArg, .bool true])
               else (Cb.onMessage, [dataArg op p])
  let second := if Gen.appDataBeforeMessage then (Cb.onMessage, [dataArg op p])
                else (Cb.onData, [dataArg op p, .int opArg, .bool true])
  match callback c s first.1 first.2 with
  | (s, .ok ()) => callback c s second.1 second.2
  | r => r

/-- the value `read()` returns after a step that returned normally: `v` -/
def asRead (v : Bool) (x : St × R Unit) : St × R Bool :=
  match x with
  | (s, .ok ()) => (s, .ok v)
  | (s, .exc e) => (s, .exc e)
  | (s, .halt) => (s, .halt)

/-- `recv_data_frame(True)` has consumed the complete event `ev`: the routing of `read()`.
    Result: `ok true` = read() returned True, `ok false` = it returned a falsy value.
    (`part` is handled by the caller — it is not a complete event; the branch here is never reached.) -/
def handleEv (c : Cfg) (s : St) : SrvEv → St × R Bool
  | .part => (s, .halt)
  | .message op p frag => asRead true (deliverMessage c s op p frag)
  | .ping p =>
    let s := if s.writable then s.emit (.wrote Gen.opcodePong p) else s
    asRead true (callback c s .onPing [.bytes p])
  | .pong p =>
    let s := { s with lastPong := pongStamp s }
    asRead true (callback c s .onPong [.bytes p])
  | .close body =>
    -- recv_data_frame: send_close() (connected := False, close 1000 written), then routing
    let s := { s with sock := s.sock.map fun (w : WSock) => { w with connected := false } }
    let s := if s.writable then s.emit (.wrote Gen.opcodeClose (beN 2 Gen.statusNormal)) else s
    asRead false (if Gen.appCloseFrameToTeardown then teardown c s (some body)
                  else handleDisconnect c s (.frame body) (c.reconnect ≠ 0))
  | .eof => (closeTransport s, .exc .closed)
  | .reset => ({ s with sock := s.sock.map fun (w : WSock) => { w with dead := true } }, .exc .transport)
  | .protoError => (s, .exc .proto)
  | .payloadError => (s, .exc .payload)

/-- `recv_data_frame(True)` + the routing of `read()`: wait for the head event (it has arrived when
    `read()` is called from the dispatcher; after a `part` the call blocks in `recv` for the next one). -/
def readEvents (c : Cfg) : List TEv → St → St × R Bool
  | [], s =>
    -- nothing will ever arrive: blocked in recv for ever
    let (s, _) := waitUntil c s (c.horizon + 1)
    (s, .halt)
  | e :: rest, s =>
    let at_ := s.arr + e.dt
    let (s, ok) := if at_ ≤ s.now then (s, true) else waitUntil c s at_
    if !ok then (s, .halt) else
    let s := { s with evs := rest, arr := at_ }
    match e.ev with
    | .part => readEvents c rest s
    | ev => handleEv c s ev

/-- `read()` -/
def read (c : Cfg) (s : St) : St × R Bool :=
  if !s.keepRunning then asRead false (teardown c s none)
  else
    match s.sock with
    | none => (s, .exc .attrError)          -- `self.sock.recv_data_frame` on None
    | some _ => readEvents c s.evs s

/-- `check()`: the three comparisons and the truthiness guards -/
def checkFails (c : Cfg) (s : St) : Bool :=
  match c.to with
  | none => false
  | some to =>
    to ≠ 0 && s.lastPing ≠ 0 &&
    decide ((s.now : Int) - s.lastPing > to) &&
    (decide ((s.lastPong : Int) - s.lastPing < 0) || decide ((s.lastPong : Int) - s.lastPing > to))

/-! ### the dispatchers -/

/-- timeout handed to `select`: `ping_timeout or 10` -/
def selectTimeout (c : Cfg) : Nat :=
  match c.to with
  | some t => if t = 0 then secs Gen.dispatcherDefaultTimeout else t.toNat
  | none => secs Gen.dispatcherDefaultTimeout

/-- has the next event arrived? -/
def St.arrived (s : St) : Bool :=
  match s.nextAt with
  | some t => decide (t ≤ s.now)
  | none => false

/-- `sock.pending()` of a TLS transport: the rest of the segment already decrypted -/
def St.pendingTls (c : Cfg) (s : St) : Bool :=
  c.ssl && s.arrived && (match s.evs with | e :: _ => e.burst | [] => false)

/-- what the OS selector sees: raw segments only -/
def St.rawReadable (c : Cfg) (s : St) : Bool :=
  s.arrived && !(c.ssl && (match s.evs with | e :: _ => e.burst | [] => false))

/-- `sel.select(timeout)` (Dispatcher) / `SSLDispatcher.select`: returns whether the socket is
    reported readable; `none` = cut at the horizon. -/
def select (c : Cfg) (s : St) : St × Option Bool :=
  if c.ssl && s.pendingTls c then (s, some true)
  else if s.rawReadable c then (s, some true)
  else
    let dl := s.now + selectTimeout c
    let wake := match s.nextAt with
      | some t => if t ≤ dl then max t s.now else dl
      | none => dl
    let (s, ok) := waitUntil c s wake
    if !ok then (s, none) else (s, some (s.rawReadable c || s.pendingTls c))

/-- what the loop does with the value of `read()`: an exception propagates, a falsy value breaks the
    loop, otherwise `check()` and the next iteration `k`. -/
def afterRead (c : Cfg) (k : St → St × R Unit) (x : St × R Bool) : St × R Unit :=
  match x with
  | (s, .exc e) => (s, .exc e)
  | (s, .halt) => (s, .halt)
  | (s, .ok false) => (s, .ok ())
  | (s, .ok true) => if checkFails c s then (s, .exc .timeout) else k s

/-- `Dispatcher.read` / `SSLDispatcher.read`: `while app.keep_running: if select: if not read(): break; check()` -/
def dispLoop (c : Cfg) : Nat → St → St × R Unit
  | 0, s => (s.emit .outOfFuel, .halt)
  | n + 1, s =>
    if !s.keepRunning then (s, .ok ()) else
    -- `self.app.sock.sock` (SSLDispatcher.select) needs app.sock
    if c.ssl && s.sock.isNone then (s, .exc .attrError) else
    match select c s with
    | (s, none) => (s, .halt)
    | (s, some ready) => afterRead c (dispLoop c n) (if ready then read c s else (s, .ok true))

/-! ### setSock, run_forever -/

/-- `self.sock.connect(...)`: the next dial outcome -/
def connect (s : St) : St × R Unit :=
  let i := s.nextIdx
  let (oc, rest) := match s.dials with
    | [] => (Dial.refused, [])
    | d :: ds => (d, ds)
  let s := ({ s with dials := rest, nextIdx := i + 1 }).emit (.dial i)
  match oc with
  | .refused =>
    -- `_open_socket`: the socket is created, `connect` fails, the socket is closed
    (({ s with sock := some { idx := i, connected := false, isOpen := false, dead := false } }).emit (.sockClosed i),
     .exc .transport)
  | .rejected st =>
    (({ s with sock := some { idx := i, connected := false, isOpen := false, dead := false } }).emit (.sockClosed i),
     .exc (.badstatus st))
  | .established evs =>
    ({ s with sock := some { idx := i, connected := true, isOpen := true, dead := false }, evs := evs, arr := s.now },
     .ok ())

/-- `if reconnecting and self.sock: self.sock.shutdown()` -/
def release (s : St) (rc : Bool) : St :=
  if rc then (match s.sock with | some _ => closeTransport s | none => s) else s

/-- the opening callback: on_reconnect for a re-established connection when it is set, else on_open -/
def openCb (c : Cfg) (rc : Bool) : Cb := if rc && c.has .onReconnect then .onReconnect else .onOpen

/-- `except … as e: handleDisconnect(e, reconnecting)` around the dispatcher loop -/
def afterLoop (c : Cfg) (rc : Bool) (x : St × R Unit) : St × R Unit :=
  match x with
  | (s, .exc e) => handleDisconnect c s e rc
  | r => r

/-- after the opening callback: `dispatcher.read(self.sock.sock, read, check)` -/
def afterOpen (c : Cfg) (rc : Bool) (x : St × R Unit) : St × R Unit :=
  match x with
  | (s, .exc e) => handleDisconnect c s e rc
  | (s, .halt) => (s, .halt)
  | (s, .ok ()) =>
    match s.sock with
    | none => handleDisconnect c s .attrError rc       -- `self.sock.sock` after close() in on_open (F13)
    | some _ => afterLoop c rc (dispLoop c c.fuel s)

/-- after `self.sock.connect(...)`: ping thread, opening callback -/
def afterConnect (c : Cfg) (rc : Bool) (x : St × R Unit) : St × R Unit :=
  match x with
  | (s, .exc e) => handleDisconnect c s e rc
  | (s, .halt) => (s, .halt)
  | (s, .ok ()) => afterOpen c rc (callback c (if c.iv ≠ 0 then startPing c s else s) (openCb c rc) [])

def setSock (c : Cfg) (s : St) (rc : Bool) : St × R Unit := afterConnect c rc (connect (release s rc))

/-- after `reconnector(reconnecting=True)` returned: the next round `k` of the reconnect loop -/
def rlNext (k : St → St × R Unit) (x : St × R Unit) : St × R Unit :=
  match x with
  | (s, .ok ()) => k s
  | r => r

/-- the reconnect loop of run_forever: `while self.keep_running: sleep(reconnect); setSock(True)` -/
def reconnectLoop (c : Cfg) : Nat → St → St × R Unit
  | 0, s => (s.emit .outOfFuel, .halt)
  | n + 1, s =>
    if !s.keepRunning then (s, .ok ()) else
    let s := s.emit (.sleep c.reconnect)
    let (s, ok) := waitUntil c s (s.now + c.reconnect)
    if !ok then (s, .halt) else rlNext (reconnectLoop c n) (setSock c s true)

/-- `setSock` as the code has it since F18's repair: `if reconnecting and not self.keep_running: teardown(); return` first
    (generated fact `appReconnectGuard`). -/
def setSockG (c : Cfg) (s : St) (rc : Bool) : St × R Unit :=
  if Gen.appReconnectGuard && rc && !s.keepRunning then teardown c s none else setSock c s rc

/-- the reconnect loop over the guarded `setSock`.  In this model nothing changes `keep_running` between the test at the head
    of the loop and the call (there is no second thread here), so the guard is never taken: `C15b.reconnectLoopG_eq`. -/
def reconnectLoopG (c : Cfg) : Nat → St → St × R Unit
  | 0, s => (s.emit .outOfFuel, .halt)
  | n + 1, s =>
    if !s.keepRunning then (s, .ok ()) else
    let s := s.emit (.sleep c.reconnect)
    let (s, ok) := waitUntil c s (s.now + c.reconnect)
    if !ok then (s, .halt) else rlNext (reconnectLoopG c n) (setSockG c s true)

/-- the argument validation of run_forever (before anything is touched) -/
def argsAccepted (iv : Int) (to : Option Int) : Bool :=
  !(match to with | some t => decide (t ≤ 0) | none => false) &&
  !(decide (iv < 0)) &&
  !(match to with | some t => t ≠ 0 && iv ≠ 0 && decide (iv ≤ t) | none => false)

/-- the `try` block of run_forever: `setSock()`, then the reconnect loop of the built-in dispatcher -/
def firstStage (c : Cfg) (s : St) : St × R Unit :=
  match setSock c s false with
  | (s, .ok ()) => if c.reconnect ≠ 0 then reconnectLoop c c.fuel s else (s, .ok ())
  | r => r

/-- `except (KeyboardInterrupt, Exception): teardown()` and `finally: teardown()` -/
def afterBody (c : Cfg) (x : St × R Unit) : St × R Unit :=
  match x with
  | (s, .halt) => (s, .halt)
  | (s, .exc _) =>
    match teardown c s none with
    | (s, .ok ()) => if Gen.appFinallyTeardown then teardown c s none else (s, .ok ())
    | (s, .exc e) =>
      match (if Gen.appFinallyTeardown then teardown c s none else (s, .ok ())) with
      | (s, .ok ()) => (s, .exc e)
      | r => r
    | r => r
  | (s, .ok ()) => if Gen.appFinallyTeardown then teardown c s none else (s, .ok ())

/-- the try / except / finally of run_forever after the prologue -/
def runBody (c : Cfg) (s : St) : St × R Unit := afterBody c (firstStage c s)

/-- how a call of run_forever ended -/
inductive Outcome where
  | returned (b : Bool) | raised (e : AExn) | cut
  deriving DecidableEq, Repr

/-- the assignments at the start of run_forever (after the validation) -/
def prologue (s : St) : St :=
  { s with hasDoneTeardown := false, keepRunning := true,
           hasErrored := if Gen.appResetsHasErrored then false else s.hasErrored }

def runForeverO (c : Cfg) (s : St) : St × Outcome :=
  if !argsAccepted c.iv c.to then (s.emit (.raisedOut .wsgeneric), .raised .wsgeneric)
  else if s.sock.isSome then (s.emit (.raisedOut .wsgeneric), .raised .wsgeneric)
  else
    match runBody c (prologue s) with
    | (s, .ok ()) => (s.emit (.returned s.hasErrored), .returned s.hasErrored)
    | (s, .exc e) => (s.emit (.raisedOut e), .raised e)
    | (s, .halt) => (s, .cut)

def runForever (c : Cfg) (s : St) : St := (runForeverO c s).1

/-- several runs on the same object, one world (list of dial outcomes) per run. -/
def runMany (c : Cfg) : List (List Dial) → St → St
  | [], s => s
  | w :: ws, s => runMany c ws (runForever c { s with dials := w })

/-- several runs on the same object, each with its own keepalive settings (`run_forever(ping_interval=…, ping_timeout=…)`
    are per-call arguments). -/
def runManyK (c : Cfg) : List ((Int × Option Int) × List Dial) → St → St
  | [], s => s
  | ((iv, to), w) :: ws, s => runManyK c ws (runForever { c with iv := iv, to := to } { s with dials := w })

end WS.Model.App
