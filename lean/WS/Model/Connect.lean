/-
  WS.Model.Connect — mirrors `_http.connect` (websocket/_http.py:126-160), `_tunnel` (:317-342)
  and `WebSocket.connect` (websocket/_core.py:258-283): first dial outside the `try`, first
  handshake, the `for _ in range(redirect_limit)` loop (`headers["location"]`, close, re-dial,
  handshake), `connected = True` after the loop, the `except:` clean-up.

  The world answers each `_http.connect` call (numbered 0, 1, …): address resolution / TCP
  connect outcome, the peer's script, the outcome of the TLS handshake, the `os.urandom(16)`
  draw and what the cookie jar holds for the host.  `parse_url`, the proxy decision (C18, C19)
  and the digest function are parameters.  Every transport-level action is logged.
  No Mathlib.
-/
import WS.Model.Handshake
import WS.Model.Tls
namespace WS.Model.Connect
open WS WS.PyH2 WS.H2 WS.Model.Http WS.Model.Handshake

/-- outcome of `get_proxy_info` for an HTTP proxy: tunnel or not, credentials. -/
structure ProxyDec where
  tunnel : Bool := false
  auth : Option (Str × Option Str) := none
  deriving Repr, DecidableEq, Inhabited

structure Env where
  acceptOf : Str → Str
  parseUrl : Str → Except HExn UrlParts
  proxy : UrlParts → ProxyDec
  sslopt : SslOpt
  tlsEnv : TlsEnv

/-- the world's answer to one `_http.connect` call. -/
structure Dial where
  addr : Except HExn Unit := .ok ()   -- getaddrinfo / empty list / `_open_socket`
  sock : Sock := ⟨[], .eof, none⟩     -- the peer's script (proxy reply first when tunnelled)
  wrap : Except HExn Unit := .ok ()   -- `context.wrap_socket` (certificate checks are OpenSSL's)
  rand : Bytes := []                  -- `os.urandom(Gen.keyRandomBytes)` of the handshake
  jar : Str := []                     -- `CookieJar.get(host)`
  deriving Repr, DecidableEq, Inhabited

/-- `_tunnel(sock, host, port, auth)` -/
def tunnel (s : Sock) (host : Str) (port : Nat) (auth : Option (Str × Option Str)) :
    Except HExn Unit × Sock × List IoEv :=
  let hp := host ++ ':' :: natRepr port
  let authLine : Str :=
    match auth with
    | some (user, pw) =>
      if user.isEmpty then [] else
      let authStr := match truthy pw with
        | some p => user ++ ':' :: p
        | none => user
      "Proxy-Authorization: Basic ".toList ++ Base64.encode (encodeUtf8 authStr) ++ "\r\n".toList
    | none => []
  let hdr := "CONNECT ".toList ++ hp ++ " HTTP/1.1\r\n".toList ++ "Host: ".toList ++ hp
             ++ "\r\n".toList ++ authLine ++ "\r\n".toList
  let req := encodeUtf8 hdr
  match send s req with
  | (.error e, s1) => (.error e, s1, [.write req])
  | (.ok _, s1) =>
    match readHeaders s1 with
    | (.error _, s2, k) => (.error .proxy, s2, .write req :: List.replicate k (.recv Gen.h2HeadRecvSize))
    | (.ok h, s2, k) =>
      let io := IoEv.write req :: List.replicate k (.recv Gen.h2HeadRecvSize)
      if h.status = some (Int.ofNat Gen.tunnelOkStatus) then (.ok (), s2, io)
      else (.error .proxy, s2, io)

/-- `if need_tunnel: sock = _tunnel(sock, hostname, port, auth)` -/
def tunnelStep (pd : ProxyDec) (d : Dial) (i : Nat) (u : UrlParts) : Except HExn Unit × Sock × List Ev :=
  if pd.tunnel then
    match tunnel d.sock u.host u.port pd.auth with
    | (r, s, io) => (r, s, io.map (Ev.plain i))
  else (.ok (), d.sock, [])

/-- `_http.connect(url, options, proxy, socket)` (HTTP proxy or none; SOCKS is not modelled). -/
def httpConnect (env : Env) (d : Dial) (i : Nat) (url : Str) (userSock : Option Sock) :
    Except HExn (Sock × UrlParts) × List Ev :=
  match env.parseUrl url with
  | .error e => (.error e, [])
  | .ok u =>
    match userSock with
    | some s => (.ok (s, u), [.adopt i u])
    | none =>
      match d.addr with
      | .error e => (.error e, [])
      | .ok _ =>
        match tunnelStep (env.proxy u) d i u with
        | (.error e, _, ev1) => (.error e, .dial i u :: ev1 ++ [.close i])
        | (.ok _, s1, ev1) =>
          if u.secure then
            match Tls.sslSocket env.sslopt env.tlsEnv u.host with
            | .error e => (.error e, .dial i u :: ev1 ++ [.close i])
            | .ok p =>
              match d.wrap with
              | .error e => (.error e, .dial i u :: ev1 ++ [.wrap i p false, .close i])
              | .ok _ => (.ok (s1, u), .dial i u :: ev1 ++ [.wrap i p true])
          else (.ok (s1, u), .dial i u :: ev1)

/-- the fields of the `WebSocket` object that `connect` touches. -/
structure Obj where
  connected : Bool := false
  sock : Option Nat := none          -- which transport `self.sock` is
  resp : Option HsResp := none       -- `self.handshake_response`
  deriving Repr, DecidableEq, Inhabited

structure Out where
  res : Except HExn Unit
  obj : Obj
  trace : List Ev
  dials : Nat                        -- number of `_http.connect` calls made
  deriving Repr, DecidableEq

/-- one handshake on transport `i`, events tagged. -/
def hs (env : Env) (d : Dial) (i : Nat) (s : Sock) (url : Str) (u : UrlParts) (o : Opts) :
    Except HExn HsResp × Sock × List Ev :=
  match handshake env.acceptOf s url u o d.rand d.jar with
  | (r, s', io) => (r, s', io.map (Ev.io i))

/-- the `except:` clause: `if self.sock: self.sock.close(); self.sock = None; raise` -/
def cleanup (e : HExn) (obj : Obj) (trace : List Ev) (dials : Nat) : Out :=
  match obj.sock with
  | some i => ⟨.error e, { obj with sock := none }, trace ++ [.close i], dials⟩
  | none => ⟨.error e, obj, trace, dials⟩

/-- `url = self.handshake_response.headers["location"]` (F8: KeyError on the pinned code; the
    repaired code uses `.get` and raises WebSocketException on a missing / empty value) followed, in
    the repaired code, by `try: parse_url(url) except ValueError: raise WebSocketException`. -/
def redirectTarget (env : Env) (r : HsResp) : Except HExn Str :=
  let loc : Except HExn Str :=
    if Gen.h2LocationGuard then
      match dictGetTruthy r.headers "location".toList with
      | some l => .ok l
      | none => .error .wsgeneric
    else match dictGet r.headers "location".toList with
      | some l => .ok l
      | none => .error (.internal "KeyError")
  match loc with
  | .error e => .error e
  | .ok url =>
    if Gen.h2LocationParseGuard then
      match env.parseUrl url with
      | .error .valueError => .error .wsgeneric
      | _ => .ok url
    else .ok url

/-- `for _ in range(limit)` with the body of the redirect loop.
    `n` = iterations left, `i` = number of `_http.connect` calls so far, `cur` = `self.sock`. -/
def redirectLoop (env : Env) (world : Nat → Dial) (o : Opts) :
    Nat → Nat → Nat → HsResp → Obj → List Ev → Out
  | 0, i, _, r, obj, tr =>
    -- after the loop
    if Gen.h2RedirectFinalCheck ∧ statusIn (some r.status) Gen.redirectStatuses then
      cleanup (.badstatus (some r.status)) obj tr i
    else ⟨.ok (), { obj with connected := true }, tr, i⟩
  | n + 1, i, cur, r, obj, tr =>
    if statusIn (some r.status) Gen.redirectStatuses then
      match redirectTarget env r with
      | .error e => cleanup e obj tr i
      | .ok url =>
        let tr1 := tr ++ [.close cur]                       -- self.sock.close()
        match httpConnect env (world i) i url none with
        | (.error e, ev) => cleanup e obj (tr1 ++ ev) (i + 1)
        | (.ok (s, u), ev) =>
          let obj1 := { obj with sock := some i }
          match hs env (world i) i s url u o with
          | (.error e, _, ev2) => cleanup e obj1 (tr1 ++ ev ++ ev2) (i + 1)
          | (.ok r', _, ev2) =>
            redirectLoop env world o n (i + 1) i r' { obj1 with resp := some r' } (tr1 ++ ev ++ ev2)
    else redirectLoop env world o n i cur r obj tr

/-- `WebSocket.connect(url, **options)` on an object in state `obj`. -/
def connect (env : Env) (world : Nat → Dial) (url : Str) (o : Opts) (limit : Option Nat)
    (userSock : Option Sock) (obj : Obj) : Out :=
  match httpConnect env (world 0) 0 url userSock with
  | (.error e, ev) => ⟨.error e, obj, ev, 1⟩             -- outside the `try`
  | (.ok (s, u), ev) =>
    let obj1 := { obj with sock := some 0 }
    match hs env (world 0) 0 s url u o with
    | (.error e, _, ev2) => cleanup e obj1 (ev ++ ev2) 1
    | (.ok r, _, ev2) =>
      redirectLoop env world o (limit.getD Gen.redirectLimitDefault) 1 0 r
        { obj1 with resp := some r } (ev ++ ev2)

end WS.Model.Connect
