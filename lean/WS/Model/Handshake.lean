/-
  WS.Model.Handshake — mirrors websocket/_handshake.py:
    `_pack_hostname`, `_get_handshake_headers` (:83-138), `_create_sec_websocket_key` (:201-203),
    `_get_resp_headers` (:141-158), `_validate` (:167-198), `handshake` (:57-73).
  Same branches and truthiness quirks (`options.get("host")` falsy on "", `"origin" in options
  and … is not None`, `not options.get("header") or "Sec-WebSocket-Key" not in options["header"]`,
  `filter(None, [server_cookie, client_cookie])`, …).  The digest function `acceptOf`
  (`base64(sha1(key ++ GUID))`) is a parameter.  Shape facts `Gen.h2…` (harness/extract_h2.py)
  select between the pinned and the repaired forms (F7, F15, F8).
  No Mathlib.
-/
import WS.Base.H2Types
import WS.Base.Base64
import WS.Model.Http
namespace WS.Model.Handshake
open WS WS.PyH2 WS.H2 WS.Model.Http

/-- `_pack_hostname` -/
def packHostname (host : Str) : Str :=
  if hasChar ':' host then '[' :: host ++ [']'] else host

/-- `_create_sec_websocket_key` given the `os.urandom(16)` draw. -/
def createKey (rand : Bytes) : Str := strip (Base64.encode rand)

def truthy (o : Option Str) : Option Str :=
  match o with
  | some s => if s.isEmpty then none else some s
  | none => none

/-- `options.get("header")` is truthy -/
def headerTruthy : HeaderOpt → Bool
  | .absent => false
  | .list l => !l.isEmpty
  | .dict d => !d.isEmpty

/-- `name in options["header"]` -/
def headerHas (h : HeaderOpt) (name : Str) : Bool :=
  match h with
  | .absent => false
  | .list l => l.contains name
  | .dict d => d.any (fun kv => kv.1 = name)

/-- `options["header"][name]`: a list cannot be indexed by a string. -/
def headerIndex (h : HeaderOpt) (name : Str) : Except HExn Str :=
  match h with
  | .dict d =>
    match d.find? (fun kv => kv.1 = name) with
    | some (_, some v) => .ok v
    | some (_, none) => .ok "None".toList          -- rendered by the later f-string
    | none => .error (.internal "KeyError")
  | _ => .error (.internal "TypeError")

/-- the `header` option as lines. -/
def customLines : HeaderOpt → List Str
  | .absent => []
  | .list l => l
  | .dict d => d.filterMap (fun kv => match kv.2 with
      | some v => some (kv.1 ++ ": ".toList ++ v)
      | none => none)

/-! `_get_handshake_headers`, block by block -/

/-- `hostport` -/
def hostport (host : Str) (port : Nat) : Str :=
  if port = 80 ∨ port = 443 then packHostname host
  else packHostname host ++ ':' :: natRepr port

/-- `Host:` line: `options.get("host")` if truthy, else `hostport` -/
def hostLine (host : Str) (port : Nat) (o : Opts) : Str :=
  match truthy o.host with
  | some h => "Host: ".toList ++ h
  | none => "Host: ".toList ++ hostport host port

/-- the `Origin` block (`scheme` = the URL text before its first ":") -/
def originSeg (scheme host : Str) (port : Nat) (o : Opts) : List Str :=
  if o.suppressOrigin then []
  else match o.origin with
    | some og => ["Origin: ".toList ++ og]
    | none =>
      if scheme = "wss".toList then ["Origin: https://".toList ++ hostport host port]
      else ["Origin: http://".toList ++ hostport host port]

/-- the `Sec-WebSocket-Key` block: the line (unless given manually) and the key in force -/
def keySeg (o : Opts) (rand : Bytes) : Except HExn (List Str × Str) :=
  let key0 := createKey rand
  if !headerTruthy o.header || !headerHas o.header "Sec-WebSocket-Key".toList then
    .ok (["Sec-WebSocket-Key: ".toList ++ key0], key0)
  else match headerIndex o.header "Sec-WebSocket-Key".toList with
    | .ok k => .ok ([], k)
    | .error e => .error e

def versionSeg (o : Opts) : List Str :=
  if !headerTruthy o.header || !headerHas o.header "Sec-WebSocket-Version".toList then
    ["Sec-WebSocket-Version: ".toList ++ natRepr Gen.wsVersion]
  else []

/-- the `connection` option (F15: the pinned code appended the bare value) -/
def connLine (o : Opts) : Str :=
  match truthy o.connection with
  | none => "Connection: Upgrade".toList
  | some c => if Gen.h2ConnectionNamed then "Connection: ".toList ++ c else c

def subSeg (o : Opts) : List Str :=
  if o.subprotocols.isEmpty then []
  else ["Sec-WebSocket-Protocol: ".toList ++ join [','] o.subprotocols]

def customSeg (o : Opts) : List Str := if headerTruthy o.header then customLines o.header else []

/-- `"; ".join(filter(None, [server_cookie, client_cookie]))` -/
def cookieSeg (o : Opts) (jar : Str) : List Str :=
  let cookies := [jar, o.cookie.getD []].filter (fun s => !s.isEmpty)
  let cookie := join "; ".toList cookies
  if cookie.isEmpty then [] else ["Cookie: ".toList ++ cookie]

/-- `_get_handshake_headers(resource, url, host, port, options)` with the random draw and the
    jar's answer made explicit. Returns the lines and the key the response is checked against. -/
def getHandshakeHeaders (resource url host : Str) (port : Nat) (o : Opts) (rand : Bytes)
    (jar : Str) : Except HExn (List Str × Str) :=
  let head := ["GET ".toList ++ resource ++ " HTTP/1.1".toList, "Upgrade: websocket".toList]
  -- scheme, url = url.split(":", 1)
  match splitN ':' 1 url with
  | [scheme, _] =>
    match keySeg o rand with
    | .error e => .error e
    | .ok (keyLines, key) =>
      .ok (head ++ [hostLine host port o] ++ originSeg scheme host port o ++ keyLines ++ versionSeg o
            ++ [connLine o] ++ subSeg o ++ customSeg o ++ cookieSeg o jar ++ [[], []], key)
  | _ => .error .valueError

/-- the request text: `"\r\n".join(headers)` -/
def requestText (lines : List Str) : Str := join "\r\n".toList lines

/-! ### response side -/

/-- raw `sock.recv(n)` of the error body (not `_socket.recv`): a timeout or reset surfaces as the
    transport's own exception; end of stream is an empty read. -/
def rawRecv (s : Sock) (n : Nat) : Except HExn Unit × Sock :=
  if n = 0 then (.ok (), s) else
  match s.inp with
  | [] => (if s.tail = .eof then .ok () else .error .transport, s)
  | .byte _ :: r => (.ok (), { s with inp := r })      -- (up to n bytes; what is left is never read)
  | .timeout :: r => (.error .transport, { s with inp := r })
  | .reset :: _ => (.error .transport, { s with inp := [], tail := .eof })

def statusIn (st : Option Int) (l : List Nat) : Bool :=
  match st with
  | some n => l.any (fun x => Int.ofNat x = n)
  | none => false

/-- `_get_resp_headers(sock)` -/
def getRespHeaders (s : Sock) : Except HExn (Int × Dict) × Sock × List IoEv :=
  match readHeaders s with
  | (.error e, s', k) => (.error e, s', List.replicate k (.recv Gen.h2HeadRecvSize))
  | (.ok h, s', k) =>
    let reads := List.replicate k (IoEv.recv Gen.h2HeadRecvSize)
    match h.status with
    | some st =>
      if statusIn (some st) Gen.successStatuses then (.ok (st, h.headers), s', reads)
      else badStatus h s' reads
    | none => badStatus h s' reads
where
  badStatus (h : Head) (s' : Sock) (reads : List IoEv) : Except HExn (Int × Dict) × Sock × List IoEv :=
    match dictGetTruthy h.headers "content-length".toList with
    | none => (.error (.badstatus h.status), s', reads)
    | some cl =>
      match pyInt cl with
      | none =>
        if Gen.h2ContentLengthGuard then (.error (.badstatus h.status), s', reads)
        else (.error .valueError, s', reads)
      | some n =>
        if n < 0 then
          if Gen.h2ContentLengthGuard then (.error (.badstatus h.status), s', reads)
          else (.error .valueError, s', reads)   -- socket.recv(-n): ValueError "negative buffersize in recv"
        else
          let size := if Gen.h2BodyReadCap = 0 then n.toNat else min n.toNat Gen.h2BodyReadCap
          match rawRecv s' size with
          | (.ok _, s'') => (.error (.badstatus h.status), s'', reads ++ [.recv size])
          | (.error e, s'') => (.error e, s'', reads ++ [.recv size])

/-- the loop over `_HEADERS_TO_CHECK` -/
def checkHeaders : List (List String) → Dict → Bool
  | [], _ => true
  | [k, v] :: rest, d =>
    match dictGetTruthy d k.toList with
    | none => false
    | some r =>
      if ((splitAll ',' r).map (fun x => lower (strip x))).contains v.toList then checkHeaders rest d
      else false
  | _ :: rest, d => checkHeaders rest d

/-- `_validate(headers, key, subprotocols)` → `(success, subproto)` -/
def validate (acceptOf : Str → Str) (headers : Dict) (key : Str) (subprotocols : List Str) :
    Bool × Option Str :=
  if !checkHeaders Gen.headersToCheck headers then (false, none) else
  let sub : Except Unit (Option Str) :=
    if subprotocols.isEmpty then .ok none
    else match dictGetTruthy headers "sec-websocket-protocol".toList with
      | none => .error ()
      | some sp =>
        if (subprotocols.map lower).contains (lower sp) then .ok (some (lower sp)) else .error ()
  match sub with
  | .error _ => (false, none)
  | .ok subproto =>
    match dictGetTruthy headers "sec-websocket-accept".toList with
    | none => (false, none)
    | some result =>
      let ok :=
        if Gen.h2AcceptCaseFold then lower (acceptOf key) = lower result
        else acceptOf key = result
      if ok then (true, subproto) else (false, none)

structure HsResp where
  status : Int
  headers : Dict
  subprotocol : Option Str
  key : Str            -- ghost: the key of the request this response answered
  deriving Repr, DecidableEq, Inhabited

/-- `_socket.send(sock, data)`: one `sock.send`, its return value is not looked at. -/
def send (s : Sock) (_data : Bytes) : Except HExn Unit × Sock :=
  match s.sendsLeft with
  | some 0 => (.error .transport, s)
  | some (k + 1) => (.ok (), { s with sendsLeft := some k })
  | none => (.ok (), s)

/-- `handshake(sock, url, hostname, port, resource, **options)` -/
def handshake (acceptOf : Str → Str) (s : Sock) (url : Str) (u : UrlParts) (o : Opts)
    (rand : Bytes) (jar : Str) : Except HExn HsResp × Sock × List IoEv :=
  match getHandshakeHeaders u.resource url u.host u.port o rand jar with
  | .error e => (.error e, s, [])
  | .ok (lines, key) =>
    let req := encodeUtf8 (requestText lines)
    match send s req with
    | (.error e, s1) => (.error e, s1, [.write req])
    | (.ok _, s1) =>
      match getRespHeaders s1 with
      | (.error e, s2, io) => (.error e, s2, .write req :: io)
      | (.ok (status, hdrs), s2, io) =>
        if statusIn (some status) Gen.redirectStatuses then
          (.ok ⟨status, hdrs, none, key⟩, s2, .write req :: io)
        else
          match validate acceptOf hdrs key o.subprotocols with
          | (true, sub) => (.ok ⟨status, hdrs, sub, key⟩, s2, .write req :: io)
          | (false, _) => (.error .wsgeneric, s2, .write req :: io)

end WS.Model.Handshake
