/-
  WS.Model.Http — mirrors `_socket.recv` / `recv_line` / `send` (websocket/_socket.py) over a
  scripted byte transport and `read_headers` (websocket/_http.py:345-374).

  Every Python partial operation is an explicit exception point:
    `status_info[1]`            → IndexError            (unless Gen.h2StatusGuard)
    `int(status_info[1])`       → ValueError            (unless Gen.h2StatusGuard)
    `line.decode("utf-8")`      → UnicodeDecodeError    (unless Gen.h2DecodeGuard)
  The `Gen.h2…` shape facts are read from the source by harness/extract_h2.py, so the model
  follows the pinned and the repaired code alike (DESIGN §7 F8).
  No Mathlib.
-/
import WS.Base.PyH2
import WS.Gen.Tables
namespace WS.Model.Http
open WS WS.PyH2

/-- exceptions of the handshake side (DESIGN §3.2 enum; the bad-status exception carries
    whatever `status` was: `None`, or any integer `int()` produced). -/
inductive HExn where
  | closed | timeout | transport | wsgeneric | proxy | address | valueError
  | badstatus (s : Option Int)
  | internal (k : String)
  deriving Repr, DecidableEq, Inhabited

def HExn.toStr : HExn → String
  | .closed => "CLOSED" | .timeout => "TIMEOUT" | .transport => "TRANSPORT"
  | .wsgeneric => "WSGENERIC" | .proxy => "PROXY" | .address => "ADDRESS"
  | .valueError => "VALUEERROR"
  | .badstatus none => "BADSTATUS(None)"
  | .badstatus (some n) => s!"BADSTATUS({n})"
  | .internal k => s!"INTERNAL({k})"

/-- C17's reading: Python-level failures that are not part of the documented hierarchy.
    (`ValueError` counts in the head phase: nothing there documents it.) -/
def HExn.isInternal : HExn → Bool
  | .internal _ => true
  | .valueError => true
  | _ => false

def HExn.toExn : HExn → Exn
  | .closed => .closed | .timeout => .timeout | .transport => .transport
  | .wsgeneric => .wsgeneric | .proxy => .proxy | .address => .address
  | .valueError => .valueError
  | .badstatus s => .badstatus (match s with | some n => n.toNat | none => 0)
  | .internal k => .internal k

/-! ### transport -/

/-- one scripted event of the peer, at byte granularity (the head phase reads one byte per
    call, so chunk boundaries are invisible to it). -/
inductive HEv where
  | byte (b : UInt8) | timeout | reset
  deriving Repr, DecidableEq, Inhabited

/-- what `recv` does once the script is exhausted. -/
inductive Tail where
  | eof | timeout
  deriving Repr, DecidableEq, Inhabited

structure Sock where
  inp : List HEv
  tail : Tail
  sendsLeft : Option Nat := none      -- `some k`: the (k+1)-th `send` from now fails (EPIPE)
  deriving Repr, DecidableEq, Inhabited

/-- `_socket.recv(sock, 1)`: one byte, or TIMEOUT (socket.timeout), CLOSED (empty read),
    TRANSPORT (ECONNRESET propagates as OSError). -/
def recv1 (s : Sock) : Except HExn UInt8 × Sock :=
  match s.inp with
  | [] => (.error (if s.tail = .eof then .closed else .timeout), s)
  | .byte b :: r => (.ok b, { s with inp := r })
  | .timeout :: r => (.error .timeout, { s with inp := r })
  | .reset :: _ => (.error .transport, { s with inp := [], tail := .eof })

/-- `recv_line`: bytes up to and including the first LF.  Returns the line (or the exception),
    the remaining transport and the number of `recv(sock, 1)` calls made. -/
def recvLineAux : List HEv → Tail → Bytes → Nat → Except HExn Bytes × (List HEv × Tail) × Nat
  | [], tail, _, n => (.error (if tail = .eof then .closed else .timeout), ([], tail), n + 1)
  | .byte b :: r, tail, acc, n =>
    if b = 10 then (.ok (acc.reverse ++ [b]), (r, tail), n + 1)
    else recvLineAux r tail (b :: acc) (n + 1)
  | .timeout :: r, tail, _, n => (.error .timeout, (r, tail), n + 1)
  | .reset :: _, _, _, n => (.error .transport, ([], .eof), n + 1)

def recvLine (s : Sock) : Except HExn Bytes × Sock × Nat :=
  match recvLineAux s.inp s.tail [] 0 with
  | (r, (inp, tail), n) => (r, { s with inp := inp, tail := tail }, n)

/-! ### read_headers -/

structure Head where
  status : Option Int        -- `None` until a status line was parsed
  msg : Option Str           -- status_message
  headers : Dict             -- lower-cased names
  deriving Repr, DecidableEq, Inhabited

def Head.empty : Head := ⟨none, none, []⟩

/-- `not status` (None or 0). -/
def statusFalsy : Option Int → Bool
  | none => true
  | some n => n == 0

inductive Step where
  | done | cont (h : Head) | raise (e : HExn)
  deriving Repr, DecidableEq

/-- body of the `while True` loop for one received line. -/
def headerStep (h : Head) (raw : Bytes) : Step :=
  match decodeUtf8 raw with
  | none => .raise (if Gen.h2DecodeGuard then .wsgeneric else .internal "UnicodeDecodeError")
  | some l =>
    let line := strip l
    if line.isEmpty then .done
    else if statusFalsy h.status then
      match splitN ' ' 2 line with
      | _ :: s1 :: rest =>
        match pyInt s1 with
        | none => .raise (if Gen.h2StatusGuard then .wsgeneric else .valueError)
        | some n =>
          .cont { h with status := some n,
                         msg := match rest with | m :: _ => some m | [] => h.msg }
      | _ => .raise (if Gen.h2StatusGuard then .wsgeneric else .internal "IndexError")
    else
      match splitN ':' 1 line with
      | [k, v] =>
        let key := lower k
        if key = "set-cookie".toList then
          match dictGetTruthy h.headers key with
          | some old => .cont { h with headers := dictSet h.headers key (old ++ "; ".toList ++ strip v) }
          | none => .cont { h with headers := dictSet h.headers key (strip v) }
        else .cont { h with headers := dictSet h.headers key (strip v) }
      | _ => .raise .wsgeneric

/-- the loop of `read_headers`; `fuel` bounds the number of lines (each line consumes at least
    one transport event, see `readHeaders`). -/
def readLoop : Nat → Sock → Head → Nat → Except HExn Head × Sock × Nat
  | 0, s, _, n => (.error (.internal "fuel"), s, n)
  | fuel + 1, s, h, n =>
    match recvLine s with
    | (.error e, s', k) => (.error e, s', n + k)
    | (.ok raw, s', k) =>
      match headerStep h raw with
      | .done => (.ok h, s', n + k)
      | .raise e => (.error e, s', n + k)
      | .cont h' => readLoop fuel s' h' (n + k)

/-- `read_headers(sock)` → `(status, headers, status_message)`, the rest of the transport, and
    the number of one-byte reads. -/
def readHeaders (s : Sock) : Except HExn Head × Sock × Nat :=
  readLoop (s.inp.length + 1) s Head.empty 0

end WS.Model.Http
