/-
  WS.Model.Threads — small-step interleaving semantics of concurrent `WebSocket.send_frame`
  calls on one connection (_core.py:331-343).  A thread's program is

      data = frame.format()            -- outside the lock (already done when the schedule starts)
      with self.lock:                  -- step "acquire": enabled only when the lock is free
          while data:                  -- step "write": one transport send accepting 1..len bytes
              l = self._send(data); data = data[l:]
                                       -- step "release" when data is empty

  A schedule is a list of thread ids; a step of a thread that is blocked (lock held by another
  thread) or finished consumes its schedule entry and changes nothing.  Whether the write loop is
  lexically inside `with self.lock` is the generated fact `Gen.sendLoopUnderLock`; when it is not,
  threads write without taking the lock.
-/
import WS.Base.Bytes
import WS.Gen.Tables
namespace WS.Model.Threads
open WS

inductive Pc where
  | start                       -- formatted, about to acquire
  | writing (rest : Bytes)      -- inside the loop, `rest` still to be written
  | done
  deriving Repr, DecidableEq, Inhabited

structure St where
  pc : Nat → Pc
  holder : Option Nat
  wire : Bytes
  order : List Nat              -- threads in the order they completed
  k : Nat                       -- number of transport writes so far (indexes the short-write pattern)

def upd (f : Nat → Pc) (i : Nat) (v : Pc) : Nat → Pc := fun j => if j = i then v else f j

@[simp] theorem upd_same (f : Nat → Pc) (i : Nat) (v : Pc) : upd f i v i = v := by simp [upd]
@[simp] theorem upd_other (f : Nat → Pc) (i j : Nat) (v : Pc) (h : j ≠ i) : upd f i v j = f j := by simp [upd, h]

/-- how many bytes the transport accepts of `n` offered on the `k`-th write: between 1 and `n`. -/
def clip (acc : Nat → Nat) (k n : Nat) : Nat := max 1 (min n (acc k))

def init (_frames : Nat → Bytes) : St :=
  { pc := fun _ => .start, holder := none, wire := [], order := [], k := 0 }

/-- one step of thread `i`. -/
def step (locked : Bool) (frames : Nat → Bytes) (acc : Nat → Nat) (s : St) (i : Nat) : St :=
  match s.pc i with
  | .start =>
    if locked then
      match s.holder with
      | none => { s with holder := some i, pc := upd s.pc i (.writing (frames i)) }
      | some _ => s                                       -- blocked
    else { s with pc := upd s.pc i (.writing (frames i)) }
  | .writing rest =>
    if rest.isEmpty then
      { s with pc := upd s.pc i .done, holder := if locked then none else s.holder, order := s.order ++ [i] }
    else
      let l := clip acc s.k rest.length
      { s with wire := s.wire ++ rest.take l, pc := upd s.pc i (.writing (rest.drop l)), k := s.k + 1 }
  | .done => s

def run (locked : Bool) (frames : Nat → Bytes) (acc : Nat → Nat) (s : St) (sched : List Nat) : St :=
  sched.foldl (step locked frames acc) s

end WS.Model.Threads
