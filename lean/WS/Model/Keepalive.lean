/-
  WS.Model.Keepalive — the keepalive machinery of `WebSocketApp` in isolation, in integer virtual time
  (tick = 1/1024 s): the ping thread `_send_ping` (`_app.py:220-230`), the reading loop
  `Dispatcher.read` with `select(ping_timeout)` (`_dispatcher.py:43-58`), `read()`'s
  `last_pong_tm := now` on a pong (`_app.py:436`) and `check()` (`_app.py:450-471`), plus the argument
  validation of `run_forever` (`_app.py:311-316`, shared with Model.App.argsAccepted).

  One established connection at tick 0 that stays up; the peer's traffic is a list of arrivals
  (absolute, non-decreasing ticks; `pong` or `data`).  The ping thread waits `iv` twice before its first
  ping, so pings are due at 2·iv, 3·iv, …; it writes `last_ping_tm := now` *before* sending — when the previous ping has
  been answered (`last_pong_tm >= last_ping_tm`); a pong is timed (`last_pong_tm := now`) when it answers an outstanding ping.
  The main loop blocks in `select(to)` until the next arrival or `now + to`, whichever is earlier;
  one arrival is processed per iteration; `check()` runs after every iteration.
  When a ping is due at exactly the tick at which the main loop wakes, the schedule decides who runs
  first (`true` = ping thread).  The run is cut at `horizon`.

  This is the same control flow as Model.App.dispLoop / advance / pingFire / checkFails restricted to a
  connection that stays up with callbacks that do nothing; both are tied to the real code by the
  correspondence runs of C16 (`m-keepalive` and `m-app` against the real run_forever).
-/
import WS.Base.Bytes
import WS.Gen.Tables
namespace WS.Model.Keepalive

inductive Kind where
  | pong | data
  deriving DecidableEq, Repr, Inhabited

structure St where
  now : Nat := 0
  lastPing : Nat := 0
  lastPong : Nat := 0
  wake : Nat                       -- tick at which the ping thread's current wait times out
  first : Bool := true             -- it is still in its first wait (no ping at that wake)
  arr : List (Nat × Kind)          -- arrivals not yet processed (absolute ticks)
  sched : List Bool := []
  pings : List Nat := []           -- ticks at which pings were sent (oldest first)
  deriving Repr

/-- one timed wake of the ping thread: after the first wait nothing is sent; afterwards
    `self.last_ping_tm = time.time(); self.sock.ping(payload)`; then it waits again -/
def fire (iv : Nat) (s : St) : St :=
  if s.first then { s with first := false, wake := s.wake + iv }
  else
    -- `if self.last_pong_tm >= self.last_ping_tm: self.last_ping_tm = time.time()` — an unanswered ping keeps its stamp
    -- (generated fact `appPingStampWhenAnswered`; the pinned commit stamped every ping)
    let lp := if Gen.appPingStampWhenAnswered && decide (s.lastPong < s.lastPing) then s.lastPing else s.wake
    { s with lastPing := lp, pings := s.pings ++ [s.wake], wake := s.wake + iv }

/-- the main loop sleeps until tick `t`: pings due before `t` are sent, one due at `t` is ordered by the schedule -/
def advance (iv : Nat) : Nat → St → Nat → St
  | 0, s, _ => s
  | n + 1, s, t =>
    if s.wake < t then advance iv n (fire iv s) t
    else if s.wake = t then
      match s.sched with
      | true :: rest => fire iv { s with sched := rest }
      | false :: rest => { s with sched := rest }
      | [] => s
    else s

/-- `check()` with `ping_timeout = to ≠ 0` -/
def checkFails (to : Nat) (s : St) : Bool :=
  s.lastPing ≠ 0 && decide (s.now - s.lastPing > to) &&
  (decide (s.lastPong < s.lastPing) || decide (s.lastPong - s.lastPing > to))

/-- tick at which `select(to)` returns -/
def target (to : Nat) (s : St) : Nat :=
  match s.arr with
  | (a, _) :: _ => if a ≤ s.now + to then max a s.now else s.now + to
  | [] => s.now + to

/-- is the next arrival already there? (then `select` returns at once: no blocking, no scheduling point) -/
def ready (s : St) : Bool :=
  match s.arr with
  | (a, _) :: _ => decide (a ≤ s.now)
  | [] => false

/-- `read()` of the arrival at the head -/
def consume (s : St) : St :=
  match s.arr with
  | (a, k) :: rest =>
    if a ≤ s.now then
      match k with
      | .pong =>
        -- `if self.last_pong_tm < self.last_ping_tm: self.last_pong_tm = time.time()` — only the answer to the outstanding
        -- ping is timed (generated fact `appPongStampWhenOutstanding`; the pinned commit stamped every pong)
        { s with arr := rest,
                 lastPong := if Gen.appPongStampWhenOutstanding && !decide (s.lastPong < s.lastPing) then s.lastPong else s.now }
      | .data => { s with arr := rest }
    else s
  | [] => s

/-- one iteration of `Dispatcher.read`: select (blocking unless data is there), read one arrival if there
    is one (`check()` is applied by the caller) -/
def iter (iv to : Nat) (s : St) : St :=
  if ready s then consume s
  else
    let t := target to s
    let s := advance iv (t + 2) s t
    consume { s with now := t }

/-- the loop: `some r` = ping/pong timeout reported at tick r; `none` = cut at the horizon (or out of fuel) -/
def loop (iv to horizon : Nat) : Nat → St → St × Option Nat
  | 0, s => (s, none)
  | n + 1, s =>
    if !ready s && target to s > horizon then
      (advance iv (horizon + 2) { s with sched := [] } (horizon + 1), none)
    else
      let s := iter iv to s
      if checkFails to s then (s, some s.now) else loop iv to horizon n s

def init (iv : Nat) (arr : List (Nat × Kind)) (sched : List Bool) : St :=
  { wake := iv, arr := arr, sched := sched }

/-- (ticks of the pings sent, tick of the report) -/
def run (iv to horizon fuel : Nat) (arr : List (Nat × Kind)) (sched : List Bool) : List Nat × Option Nat :=
  let r := loop iv to horizon fuel (init iv arr sched)
  (r.1.pings, r.2)

/-- absolute arrival ticks from gaps -/
def absolute : Nat → List (Nat × Kind) → List (Nat × Kind)
  | _, [] => []
  | t, (d, k) :: rest => (t + d, k) :: absolute (t + d) rest

end WS.Model.Keepalive
