/-
  WS.Model.NoProxy — mirrors websocket/_url.py `_is_ip_address`, `_is_subnet_address`,
  `_is_address_in_network`, `_is_no_proxy_host` (function by function, after the repairs
  `fix: no_proxy … label boundary` and `fix: … /32`).  Constants from WS.Gen.

  Trusted base of this file: `socket.inet_aton` is modelled on the inputs `Py.inetModelled`
  only (canonical dotted quads accepted, certainly-refused strings refused); `int()` on ASCII
  digit strings only; `os.environ` is an association list.  Outside that the driver answers
  `unmodelled` and the case is judged by the oracle alone.
-/
import WS.Base.Bytes
import WS.Base.Py
import WS.Gen.Tables
namespace WS.Model.NoProxy
open WS WS.Py

abbrev Env := List (String × Str)

/-- `os.environ.get(k, default)` -/
def envGetD (env : Env) (k : String) (dflt : Str) : Str := (env.lookup k).getD dflt

/-- `_is_ip_address`: `inet_aton` succeeded. -/
def isIpAddress (addr : Str) : Bool := (inetAton addr).isSome

/-- the chained comparison `0 <= n < 32` / `0 <= n <= 32` as written in the source. -/
def maskInRange (n : Nat) : Bool :=
  if Gen.subnetMaskStrict then n < Gen.subnetMaskBound else n ≤ Gen.subnetMaskBound

/-- `_is_subnet_address`: unpacking `split("/")` into two names and `int()` raise ValueError,
    caught → False. -/
def isSubnetAddress (hostname : Str) : Bool :=
  match splitOn '/' hostname with
  | [addr, netmask] =>
    isIpAddress addr &&
      (match pyInt netmask with
       | some n => maskInRange n
       | none => false)
  | _ => false

/-- `_is_address_in_network`; its own failure points are kept (it is only ever called under
    the guards of `_is_no_proxy_host`, which the theorems show never reach them). -/
def isAddressInNetwork (ip net : Str) : Except Exn Bool :=
  match inetAton ip with
  | none => .error .transport                          -- OSError from inet_aton
  | some ipaddr =>
    match splitOn '/' net with
    | [netaddr, netmask] =>
      match inetAton netaddr with
      | none => .error .transport
      | some netaddr =>
        match pyInt netmask with
        | none => .error .valueError
        | some m =>
          if m > 32 then .error .valueError            -- negative shift count
          else
            let mask := (0xFFFFFFFF <<< (32 - m)) &&& 0xFFFFFFFF
            .ok (ipaddr &&& mask == netaddr)
    | _ => .error .valueError

/-- the `if not no_proxy:` block: the effective list. -/
def effectiveList (noProxy : List Str) (env : Env) : List Str :=
  let np :=
    if noProxy.isEmpty then
      let v := removeChar ' ' (envGetD env "no_proxy" (envGetD env "NO_PROXY" []))
      if !v.isEmpty then splitOn ',' v else noProxy
    else noProxy
  np    -- the second `if not no_proxy: no_proxy = []` only normalises None

/-- body of `_is_no_proxy_host` once the list is known. -/
def isNoProxyHostL (hostname : Str) (noProxy : List Str) : Except Exn Bool :=
  if noProxy.contains ['*'] then .ok true
  else if noProxy.contains hostname then .ok true
  else if isIpAddress hostname then do
    let rs ← (noProxy.filter isSubnetAddress).mapM (isAddressInNetwork hostname)
    .ok (rs.any id)
  else
    .ok ((noProxy.filter (fun d => ['.'].isPrefixOf d)).any fun domain =>
      let endDomain := lstripChar '.' domain
      -- repaired: `hostname == endDomain or hostname.endswith("." + endDomain)`;
      -- before:   `hostname.endswith(endDomain)`            (generated shape fact)
      if Gen.noProxyLabelBoundary then hostname == endDomain || ('.' :: endDomain).isSuffixOf hostname
      else endDomain.isSuffixOf hostname)

/-- `_is_no_proxy_host(hostname, no_proxy)` -/
def isNoProxyHost (hostname : Str) (noProxy : List Str) (env : Env) : Except Exn Bool :=
  isNoProxyHostL hostname (effectiveList noProxy env)

end WS.Model.NoProxy
