/-
  WS.Model.Utf8 — mirrors websocket/_utils.py `_decode`, `_validate_utf8`, `validate_utf8`
  (pure-Python branch; wsaccel is absent).  The table, the accept/reject codes and the
  shape of the final `return` are generated constants (WS.Gen).
-/
import WS.Base.Bytes
import WS.Gen.Tables
namespace WS.Model

/-- `_decode`: only the state component matters for validation
    (`codep` is computed by the code but never read by `_validate_utf8`). -/
def utf8Decode (state : Nat) (ch : UInt8) : Nat :=
  let tp := Gen.utf8d.getD ch.toNat 0
  Gen.utf8d.getD (256 + state + tp) 0

/-- the `for` loop of `_validate_utf8`: `none` = returned False inside the loop,
    `some s` = fell out of the loop in state `s`. -/
def utf8Loop : Nat → Bytes → Option Nat
  | s, [] => some s
  | s, b :: rest =>
    let s' := utf8Decode s b
    if s' == Gen.utf8Reject then none else utf8Loop s' rest

/-- `_validate_utf8` / `validate_utf8`.  The statement after the loop is either
    `return True` (Gen.utf8FinalCheck = false) or `return state == _UTF8_ACCEPT`. -/
def validateUtf8 (bs : Bytes) : Bool :=
  match utf8Loop Gen.utf8Accept bs with
  | none => false
  | some s => if Gen.utf8FinalCheck then s == Gen.utf8Accept else true

end WS.Model
