/-
  WS.Model.Readers — small-step interleaving semantics of concurrent `WebSocket.recv()` calls on one
  connection (_core.py:382-402, recv_data_frame :439-471, continuous_frame _abnf.py:428-453).
  A reader task's program is

      with self.readlock:                      -- step "acquire": enabled only when the lock is free
          while True:
              frame = self.recv_frame()        -- step "read": takes the next frame off the stream (one frame is
                                               --   atomic: `frame_buffer.lock`; its decoding is C02/C03's subject)
              if data frame:                   -- step "handle":
                  self.cont_frame.add(frame)   --   shared reassembly state `cont_data`
                  if frame.fin: return self.cont_frame.extract(frame)   -- deliver, leave the `with` block
              elif ping/pong: continue         --   (the pong written is C07's subject)

  The stream is the list of frames the server sent (already decoded).  A schedule is a list of task
  ids; a step of a task that is blocked (lock held by another task, or nothing left to read) or finished
  consumes its schedule entry and changes nothing.  Whether `recv()` takes `readlock` around `recv_data` is
  the generated fact `Gen.recvUnderReadlock`; when it does not, tasks read without taking the lock.
-/
import WS.Model.Frame
import WS.Gen.Tables
namespace WS.Model.Readers
open WS WS.Model

inductive Pc where
  | start                      -- about to acquire
  | reading                    -- inside the loop, about to call recv_frame
  | got (f : Frame)            -- holds a frame, about to handle it
  | done
  deriving Repr, DecidableEq, Inhabited

structure St where
  pc : Nat → Pc
  holder : Option Nat
  stream : List Frame                       -- frames not yet taken from the transport
  cont : Option (Nat × Bytes)               -- `continuous_frame.cont_data` (shared by all tasks)
  delivered : List (Nat × Nat × Bytes)      -- (task, opcode, payload) in completion order

def upd (f : Nat → Pc) (i : Nat) (v : Pc) : Nat → Pc := fun j => if j = i then v else f j

@[simp] theorem upd_same (f : Nat → Pc) (i : Nat) (v : Pc) : upd f i v i = v := by simp [upd]
@[simp] theorem upd_other (f : Nat → Pc) (i j : Nat) (v : Pc) (h : j ≠ i) : upd f i v j = f j := by simp [upd, h]

def init (stream : List Frame) : St :=
  { pc := fun _ => .start, holder := none, stream := stream, cont := none, delivered := [] }

/-- `continuous_frame.add`: append to the message in progress, or start one with this frame's opcode. -/
def contAdd (cont : Option (Nat × Bytes)) (f : Frame) : Nat × Bytes :=
  match cont with
  | some (op, d) => (op, d ++ f.data)
  | none => (f.opcode, f.data)

/-- one step of task `i`. -/
def step (locked : Bool) (s : St) (i : Nat) : St :=
  match s.pc i with
  | .start =>
    if locked then
      match s.holder with
      | none => { s with holder := some i, pc := upd s.pc i .reading }
      | some _ => s                                       -- blocked on the lock
    else { s with pc := upd s.pc i .reading }
  | .reading =>
    match s.stream with
    | [] => s                                             -- blocked in the transport read
    | f :: rest => { s with stream := rest, pc := upd s.pc i (.got f) }
  | .got f =>
    if f.opcode == Gen.opcodePing || f.opcode == Gen.opcodePong then { s with pc := upd s.pc i .reading }
    else
      let m := contAdd s.cont f
      if f.fin != 0 then
        { s with cont := none, delivered := s.delivered ++ [(i, m.1, m.2)], pc := upd s.pc i .done,
                 holder := if locked then none else s.holder }
      else { s with cont := some m, pc := upd s.pc i .reading }
  | .done => s

def run (locked : Bool) (s : St) (sched : List Nat) : St :=
  sched.foldl (step locked) s

end WS.Model.Readers
