/-
  WS.Model.Url — mirrors websocket/_url.py `parse_url` and the part of
  `urllib.parse.urlsplit` / `SplitResult.{hostname,port,username,password}` it reaches
  (CPython 3.12), after the repairs `fix: parse_url keeps ";params"` (urlsplit instead of
  urlparse) and `fix: parse_url requires "//"`.

  Trusted base of this file.  `urlsplit` is modelled on the ASCII alphabet
      letters digits  - . _ ~ : / ? # [ ] @ ! $ & ' ( ) * + , ; = %
  only: no C0/space stripping, no tab/CR/LF removal, no NFKC check, `str.isdigit`/`lower` on
  ASCII.  `_check_bracketed_host` (ipaddress / IPvFuture syntax) is a *parameter* `v6ok` of
  the model: every theorem holds for every such recogniser; the driver instantiates it with
  `Model.Url.bracketOk` and the correspondence run compares that with CPython.  The earliest
  of the delimiters `/?#` (`_splitnetloc`'s minimum over three `find`s) is `takeWhile`.
  Outside the alphabet the driver answers `unmodelled`.
-/
import WS.Base.Bytes
import WS.Base.NetTypes
import WS.Gen.Tables
namespace WS.Model.Url
open WS WS.Py
open WS.Net (Target)

structure Split where
  scheme : Str
  netloc : Str
  path : Str
  query : Str
  fragment : Str
  deriving DecidableEq, Repr

/-- `scheme_chars` -/
def schemeChar (c : Char) : Bool := isAlphaC c || isDigitC c || c == '+' || c == '-' || c == '.'

def isDelim (c : Char) : Bool := c == '/' || c == '?' || c == '#'

/-- the two bracket tests of `urlsplit` on the netloc: False = ValueError
    ("Invalid IPv6 URL", or `_check_bracketed_host` raised). -/
def bracketsOk (v6ok : Str → Bool) (netloc : Str) : Bool :=
  let ob := netloc.contains '['
  let cb := netloc.contains ']'
  if (ob && !cb) || (cb && !ob) then false
  else if ob && cb then v6ok (partition ']' (partition '[' netloc).2.2).1
  else true

/-- `url.split(c, 1)` guarded by `c in url`: (before, after) or (url, ""). -/
def cut (c : Char) (url : Str) : Str × Str :=
  match partition c url with
  | (a, true, b) => (a, b)
  | (a, false, _) => (a, [])

/-- `urlsplit(url, scheme)`; `v6ok` = `_check_bracketed_host` does not raise. -/
def urlsplit (v6ok : Str → Bool) (url scheme : Str) : Except Exn Split :=
  -- i = url.find(':'); if i > 0 and url[0].isalpha() and all scheme chars: split the scheme off
  let (scheme, url) :=
    match partition ':' url with
    | (pre, true, post) =>
      match pre with
      | c0 :: _ => if isAlphaC c0 && pre.all schemeChar then (lower pre, post) else (scheme, url)
      | [] => (scheme, url)
    | _ => (scheme, url)
  -- if url[:2] == '//': netloc, url = _splitnetloc(url, 2); bracket checks
  let step : Except Exn (Str × Str) :=
    match url with
    | '/' :: '/' :: body =>
      let netloc := body.takeWhile (fun c => !isDelim c)
      let rest := body.dropWhile (fun c => !isDelim c)
      if bracketsOk v6ok netloc then .ok (netloc, rest) else .error .valueError
    | _ => .ok ([], url)
  match step with
  | .error e => .error e
  | .ok (netloc, url) =>
    let (url, fragment) := cut '#' url        -- if '#' in url: url, fragment = url.split('#', 1)
    let (url, query) := cut '?' url           -- if '?' in url: url, query = url.split('?', 1)
    .ok ⟨scheme, netloc, url, query, fragment⟩

/-- `_splitparams(url)[0]` as `urlparse` applies it when ";" occurs in the path (scheme "http"
    is in `uses_params`): cut the last path segment at its first ";". -/
def splitParams (path : Str) : Str :=
  if !path.contains ';' then path
  else if path.contains '/' then
    let (before, _, lastSeg) := rpartition '/' path
    if lastSeg.contains ';' then before ++ '/' :: lastSeg.takeWhile (· != ';') else path
  else path.takeWhile (· != ';')

/-- `urlparse(url, scheme)`: `urlsplit` followed by the `;params` split of the path. -/
def urlparse (v6ok : Str → Bool) (url scheme : Str) : Except Exn Split :=
  match urlsplit v6ok url scheme with
  | .error e => .error e
  | .ok r => .ok { r with path := splitParams r.path }

/-- `_hostinfo` after the user-info has been removed. -/
def hostinfoOf (hi : Str) : Str × Option Str :=
  let (_, haveBr, bracketed) := partition '[' hi
  let (hostname, port) :=
    if haveBr then
      let (h, _, p) := partition ']' bracketed
      (h, (partition ':' p).2.2)
    else
      let (h, _, p) := partition ':' hi
      (h, p)
  (hostname, if port.isEmpty then none else some port)

/-- `_hostinfo` → (hostname text, port text or None) -/
def hostinfo (netloc : Str) : Str × Option Str :=
  hostinfoOf (rpartition '@' netloc).2.2

/-- `.hostname`: None when empty; lower-cased up to a `%` (zone id kept as is). -/
def hostname (netloc : Str) : Option Str :=
  let h := (hostinfo netloc).1
  if h.isEmpty then none
  else
    let (a, pct, zone) := partition '%' h
    some (lower a ++ (if pct then ['%'] else []) ++ zone)

/-- `.port`: ValueError when not all ASCII digits or out of 0…65535. -/
def port (netloc : Str) : Except Exn (Option Nat) :=
  match (hostinfo netloc).2 with
  | none => .ok none
  | some p =>
    if p.all isDigitC then
      let n := digitsVal p
      if n ≤ 65535 then .ok (some n) else .error .valueError
    else .error .valueError

/-- `_userinfo` → (username, password), each possibly None. -/
def userinfo (netloc : Str) : Option Str × Option Str :=
  match rpartition '@' netloc with
  | (ui, true, _) =>
    match partition ':' ui with
    | (u, true, p) => (some u, some p)
    | (u, false, _) => (some u, none)
  | _ => (none, none)

/-- `parse_url(url)` -/
def parseUrl (v6ok : Str → Bool) (url : Str) : Except Exn Target :=
  if !url.contains ':' then .error .valueError                    -- "url is invalid"
  else
    match split1 ':' url with
    | (_, none) => .error (.internal "ValueError-unpack")            -- unreachable: ':' in url
    | (scheme, some rest) =>
      -- repaired code: `if not url.startswith("//"): raise ValueError`, then `urlsplit`;
      -- before: no such test, `urlparse`                          (generated shape facts)
      if Gen.parseUrlRequiresSlashes && !("//".toList).isPrefixOf rest then .error .valueError
      else
        match (if Gen.parseUrlUsesUrlsplit then urlsplit v6ok rest "http".toList
               else urlparse v6ok rest "http".toList) with
        | .error e => .error e
        | .ok parsed =>
          match hostname parsed.netloc with
          | none => .error .valueError                               -- "hostname is invalid"
          | some host =>
            match port parsed.netloc with
            | .error e => .error e
            | .ok p =>
              let port0 := match p with          -- port = 0; if parsed.port: port = parsed.port
                | some n => n
                | none => 0
              let fin (secure : Bool) (dflt : Nat) : Except Exn Target :=
                let port1 := if port0 == 0 then dflt else port0
                let r0 := if parsed.path.isEmpty then ['/'] else parsed.path
                let r1 := if parsed.query.isEmpty then r0 else r0 ++ '?' :: parsed.query
                .ok ⟨host, port1, r1, secure⟩
              if scheme == "ws".toList then fin false Gen.defaultPortWs
              else if scheme == "wss".toList then fin true Gen.defaultPortWss
              else .error .valueError                                -- "scheme … is invalid"

/-! ### the bracketed-host recogniser used by the driver (not used by any theorem)

  `ipaddress.ip_address` for IPv6 text (RFC 4291 §2.2 forms, optional `%zone`), refusing IPv4;
  `v<hex>+.<anything>+` for IPvFuture. -/

def hexGroup (g : Str) : Bool := g != [] && g.length ≤ 4 && g.all isHexC

/-- the groups of one side of `::` (or of the whole address), the last of which may be a
    dotted quad counting for two. returns the number of 16-bit groups or none. -/
def v6Groups (parts : List Str) (allowV4Last : Bool) : Option Nat :=
  match parts with
  | [] => some 0
  | _ =>
    let lastP := parts.getLast!
    let initP := parts.dropLast
    if initP.all hexGroup then
      if hexGroup lastP then some parts.length
      else if allowV4Last && (inetAton lastP).isSome then some (initP.length + 2)
      else none
    else none

/-- split at the first "::" -/
def splitDoubleColon : Str → Option (Str × Str)
  | [] => none
  | ':' :: ':' :: rest => some ([], rest)
  | c :: rest => (splitDoubleColon rest).map fun (a, b) => (c :: a, b)

def v6Text (s : Str) : Bool :=
  match splitDoubleColon s with
  | none =>
    match v6Groups (splitOn ':' s) true with
    | some n => n == 8
    | none => false
  | some (a, b) =>
    -- a second "::" or a stray leading/trailing ":" is refused
    if (splitDoubleColon b).isSome then false
    else
      let pa := if a.isEmpty then [] else splitOn ':' a
      let pb := if b.isEmpty then [] else splitOn ':' b
      match v6Groups pa false, v6Groups pb true with
      | some n, some m => n + m ≤ 7
      | _, _ => false

def bracketOk (s : Str) : Bool :=
  match s with
  | 'v' :: rest =>
    let (h, dot, tail) := partition '.' rest
    h != [] && h.all isHexC && dot && tail != []
  | _ =>
    let (addr, pct, zone) := partition '%' s
    v6Text addr && (!pct || (zone != [] && !zone.contains '%'))

end WS.Model.Url
