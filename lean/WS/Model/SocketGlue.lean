/-
  WS.Model.SocketGlue — `_socket.recv(sock, bufsize)` and `_socket.send(sock, data)`: the two functions every byte the
  library reads or writes goes through.  They turn what the transport object does (return bytes, return b"", raise
  TimeoutError / SSLWantReadError / EAGAIN / an SSLError / another OSError) into what the rest of the library sees.

  One call makes at most two calls on the transport, with a `select` in between; a world is therefore
  (first outcome, is the transport ready when `select` returns?, second outcome).  The functions are total over that
  product, which is finite once payloads are abstracted to {empty, non-empty}: the correspondence check enumerates it.
-/
import WS.Base.Bytes
namespace WS.Model.Glue
open WS

/-- what one `sock.recv(bufsize)` on the transport object does. -/
inductive RawR where
  | data (bs : Bytes)          -- returns bytes (`[]` = end of stream)
  | timeoutErr                 -- raises TimeoutError (socket.timeout is the same class)
  | wantRead                   -- raises ssl.SSLWantReadError
  | again                      -- raises OSError(EAGAIN / EWOULDBLOCK) (BlockingIOError)
  | sslErr (timedOut : Bool)   -- raises ssl.SSLError; `timedOut` = its message contains "timed out"
  | osErr                      -- raises any other OSError (reset, EBADF, …)
  deriving Repr, DecidableEq

/-- what the library-level call ends with. `own r` = the transport's own exception `r`, passed through unchanged. -/
inductive Out (α : Type) where
  | ok (v : α)
  | timeout                    -- WebSocketTimeoutException
  | closed                     -- WebSocketConnectionClosedException
  | own (r : RawR)
  deriving Repr, DecidableEq

/-- the handlers around the read in `recv`: `except TimeoutError`, `except socket.timeout`, `except SSLError` (re-raised
    unless its message is a str containing "timed out": SSLWantReadError's first argument is an int). -/
def recvHandler : RawR → Out (Option Bytes)
  | .data bs => .ok (some bs)
  | .timeoutErr => .timeout
  | .sslErr true => .timeout
  | r => .own r

/-- the inner `_recv()`: one read; on SSLWantReadError or EAGAIN wait for readability for the socket's timeout and
    read once more; when `select` comes back empty the function falls off its end and returns None. -/
def recvInner (r1 : RawR) (ready : Bool) (r2 : RawR) : Out (Option Bytes) :=
  match r1 with
  | .wantRead | .again => if ready then recvHandler r2 else .ok none
  | r => recvHandler r

/-- the end of `recv`: `if not bytes_: raise WebSocketConnectionClosedException` — b"" (end of stream) and None alike. -/
def recvPost : Out (Option Bytes) → Out Bytes
  | .ok (some (b :: bs)) => .ok (b :: bs)
  | .ok _ => .closed
  | .timeout => .timeout
  | .closed => .closed
  | .own r => .own r

/-- `_socket.recv(sock, bufsize)` on a live socket object; `nonblocking` = `sock.gettimeout() == 0`. -/
def recv (nonblocking : Bool) (r1 : RawR) (ready : Bool) (r2 : RawR) : Out Bytes :=
  recvPost (if nonblocking then recvHandler r1 else recvInner r1 ready r2)

/-- what one `sock.send(data)` on the transport object does. -/
inductive RawS where
  | accepted (n : Nat)         -- returns n
  | timeoutErr                 -- raises socket.timeout / TimeoutError
  | sslEof                     -- raises ssl.SSLEOFError
  | wantWrite                  -- raises ssl.SSLWantWriteError
  | again                      -- raises OSError(EAGAIN / EWOULDBLOCK)
  | noCode (timedOut : Bool)   -- raises an OSError without an errno (one argument); `timedOut`: the message says "timed out"
  | osErr                      -- raises another OSError with an errno (its first argument is the int, so no message test applies)
  deriving Repr, DecidableEq

inductive OutS where
  | ok (n : Option Nat)        -- bytes accepted; `none` = the wait for writability expired (the caller's loop tries again)
  | timeout
  | closed
  | own (r : RawS)
  deriving Repr, DecidableEq

/-- the handlers around the write in `send`: `except socket.timeout`, then `except Exception` re-raising unless the
    message is a str containing "timed out". -/
def sendHandler : RawS → OutS
  | .accepted n => .ok (some n)
  | .timeoutErr => .timeout
  | .noCode true => .timeout
  | r => .own r

/-- the inner `_send()`. -/
def sendInner (r1 : RawS) (ready : Bool) (r2 : RawS) : OutS :=
  match r1 with
  | .sslEof => .closed               -- mapped inside `_send`; the outer `except Exception` re-raises it (no "timed out")
  | .wantWrite | .again => if ready then sendHandler r2 else .ok none   -- (the second write sits outside the inner `try`)
  | r => sendHandler r

/-- `_socket.send(sock, data)` on a live socket object. -/
def send (nonblocking : Bool) (r1 : RawS) (ready : Bool) (r2 : RawS) : OutS :=
  if nonblocking then sendHandler r1 else sendInner r1 ready r2

end WS.Model.Glue
