/-
  WS.Model.ThreadsProg — threads that each send a SEQUENCE of frames on one connection (`send`, `send_binary`, `ping`, the
  pong a receiving thread writes for every ping it reads, `close`: all go through `send_frame`).  Generalises
  WS.Model.Threads (one frame per thread).  A thread's program is

      for frame in program:
          data = frame.format()        -- `ready`: formatted, about to acquire
          with self.lock:              -- step "acquire": enabled only when the lock is free
              while data: l = self._send(data); data = data[l:]     -- steps "write"
                                       -- step "release" when data is empty → `released`
                                       -- step from `released`: format the next frame (→ `ready`) or finish (→ `done`)

  The granularity is that of harness/baton.py: one step per yield point (acquire, every transport send, release, and the
  point right after the release).  A step of a thread that is blocked or finished consumes its schedule entry and changes
  nothing.
-/
import WS.Base.Bytes
import WS.Gen.Tables
namespace WS.Model.ThreadsProg
open WS

inductive Pc where
  | ready
  | writing (rest : Bytes)
  | released
  | done
  deriving Repr, DecidableEq, Inhabited

structure St where
  pc : Nat → Pc
  left : Nat → List Bytes       -- frames not yet completed; the head is the one being written / to be written next
  holder : Option Nat
  wire : Bytes
  order : List Nat              -- thread ids, one entry per completed frame, in completion order
  k : Nat

def upd {α : Type} (f : Nat → α) (i : Nat) (v : α) : Nat → α := fun j => if j = i then v else f j

@[simp] theorem upd_same {α : Type} (f : Nat → α) (i : Nat) (v : α) : upd f i v i = v := by simp [upd]
@[simp] theorem upd_other {α : Type} (f : Nat → α) (i j : Nat) (v : α) (h : j ≠ i) : upd f i v j = f j := by simp [upd, h]

def clip (acc : Nat → Nat) (k n : Nat) : Nat := max 1 (min n (acc k))

def init (prog : Nat → List Bytes) : St :=
  { pc := fun i => if (prog i).isEmpty then .done else .ready, left := prog, holder := none, wire := [], order := [], k := 0 }

def step (locked : Bool) (acc : Nat → Nat) (s : St) (i : Nat) : St :=
  match s.pc i with
  | .ready =>
    match s.left i with
    | [] => s
    | f :: _ =>
      if locked then
        match s.holder with
        | none => { s with holder := some i, pc := upd s.pc i (.writing f) }
        | some _ => s                                     -- blocked
      else { s with pc := upd s.pc i (.writing f) }
  | .writing rest =>
    if rest.isEmpty then
      { s with pc := upd s.pc i .released, left := upd s.left i (s.left i).tail,
               holder := if locked then none else s.holder, order := s.order ++ [i] }
    else
      let l := clip acc s.k rest.length
      { s with wire := s.wire ++ rest.take l, pc := upd s.pc i (.writing (rest.drop l)), k := s.k + 1 }
  | .released => { s with pc := upd s.pc i (if (s.left i).isEmpty then .done else .ready) }
  | .done => s

def run (locked : Bool) (acc : Nat → Nat) (s : St) (sched : List Nat) : St :=
  sched.foldl (step locked acc) s

/-- the serial execution named by a completion order: each entry takes the NEXT unsent frame of that thread. -/
def consume (st : (Nat → List Bytes) × List Bytes) (i : Nat) : (Nat → List Bytes) × List Bytes :=
  match st.1 i with
  | [] => st
  | f :: fs => (upd st.1 i fs, st.2 ++ [f])

/-- (what every thread still has to send, the frames sent so far in order) after the completions `order`. -/
def played (prog : Nat → List Bytes) (order : List Nat) : (Nat → List Bytes) × List Bytes :=
  order.foldl consume (prog, [])

end WS.Model.ThreadsProg
