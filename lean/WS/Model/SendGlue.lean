/-
  WS.Model.SendGlue — the write loop of `WebSocket.send_frame` over the REAL transport glue:

      while data:
          l = self._send(data)        # _socket.send(self.sock, data)
          data = data[l:]             # l is None when the wait for writability expired: data[None:] is data

  Each turn of the loop is one `_socket.send` call, i.e. one world of `Model.Glue.send` (first outcome, ready?, second
  outcome).  `worlds` lists what the transport will do, call by call; the loop is cut when the list is exhausted (a
  transport that reports would-block for ever keeps the real loop turning for ever).
-/
import WS.Model.SocketGlue
namespace WS.Model.SendGlue
open WS WS.Model.Glue

structure World where
  r1 : RawS
  ready : Bool
  r2 : RawS
  deriving Repr, DecidableEq

inductive LoopOut where
  | done                       -- `while data` ended: everything was accepted
  | raised (o : OutS)          -- the call raised (TIMEOUT, CLOSED or the transport's own exception)
  | cut                        -- the scripted worlds are exhausted with data still to write
  deriving Repr, DecidableEq

/-- the loop; `wire` = what the transport has accepted so far (it accepts a prefix of what it is handed). -/
def sendLoop (nb : Bool) : List World → Bytes → Bytes → LoopOut × Bytes
  | _, [], wire => (.done, wire)
  | [], _ :: _, wire => (.cut, wire)
  | w :: ws, b :: bs, wire =>
    match send nb w.r1 w.ready w.r2 with
    | .ok (some n) => sendLoop nb ws ((b :: bs).drop n) (wire ++ (b :: bs).take n)
    | .ok none => sendLoop nb ws (b :: bs) wire
    | o => (.raised o, wire)

/-- number of `_socket.send` calls the loop makes -/
def calls (nb : Bool) : List World → Bytes → Nat
  | _, [] => 0
  | [], _ :: _ => 0
  | w :: ws, b :: bs =>
    match send nb w.r1 w.ready w.r2 with
    | .ok (some n) => 1 + calls nb ws ((b :: bs).drop n)
    | .ok none => 1 + calls nb ws (b :: bs)
    | _ => 1

end WS.Model.SendGlue
