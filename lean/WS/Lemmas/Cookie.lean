/-
  WS.Lemmas.Cookie — order facts for `sorted`, dict facts, and the refinement invariant
  between the jar (nested dicts, in-place update) and the Spec's store (latest wins).
-/
import WS.Lemmas.Py
import WS.Spec.CookieSpec
import WS.Model.Cookie
namespace WS.Lemmas.Cookie
open WS WS.Py
open WS.Model.Cookie

/-! ### A. the order used by `sorted` -/

theorem strLe_eq : Model.Cookie.strLe = Spec.Cookie.strLe := by
  funext a b
  induction a generalizing b with
  | nil => cases b <;> rfl
  | cons x xs ih => cases b with
    | nil => rfl
    | cons y ys => simp [Model.Cookie.strLe, Spec.Cookie.strLe, ih]

theorem strLe_refl (a : Str) : strLe a a = true := by
  induction a with
  | nil => rfl
  | cons x xs ih => simp [strLe, ih]

theorem strLe_total (a b : Str) : (strLe a b || strLe b a) = true := by
  induction a generalizing b with
  | nil => simp [strLe]
  | cons x xs ih => cases b with
    | nil => simp [strLe]
    | cons y ys =>
      have := ih ys
      simp only [strLe, Bool.or_eq_true, Bool.and_eq_true, decide_eq_true_eq, beq_iff_eq] at this ⊢
      by_cases h1 : x.toNat < y.toNat
      · simp [h1]
      · by_cases h2 : y.toNat < x.toNat
        · simp [h2]
        · have : x.toNat = y.toNat := by omega
          rcases ‹strLe xs ys = true ∨ strLe ys xs = true› with h | h
          · left; right; exact ⟨this, h⟩
          · right; right; exact ⟨this.symm, h⟩

theorem strLe_trans (a b c : Str) (h1 : strLe a b = true) (h2 : strLe b c = true) : strLe a c = true := by
  induction a generalizing b c with
  | nil => simp [strLe]
  | cons x xs ih =>
    cases b with
    | nil => simp [strLe] at h1
    | cons y ys =>
      cases c with
      | nil => simp [strLe] at h2
      | cons z zs =>
        simp only [strLe, Bool.or_eq_true, Bool.and_eq_true, decide_eq_true_eq, beq_iff_eq] at h1 h2 ⊢
        rcases h1 with h1 | ⟨e1, h1⟩ <;> rcases h2 with h2 | ⟨e2, h2⟩
        · left; omega
        · left; omega
        · left; omega
        · right; exact ⟨by omega, ih ys zs h1 h2⟩

theorem strLe_antisymm (a b : Str) (h1 : strLe a b = true) (h2 : strLe b a = true) : a = b := by
  induction a generalizing b with
  | nil => cases b with
    | nil => rfl
    | cons y ys => simp [strLe] at h2
  | cons x xs ih => cases b with
    | nil => simp [strLe] at h1
    | cons y ys =>
      simp only [strLe, Bool.or_eq_true, Bool.and_eq_true, decide_eq_true_eq, beq_iff_eq] at h1 h2
      have hxy : x.toNat = y.toNat := by
        rcases h1 with h1 | ⟨e1, _⟩ <;> rcases h2 with h2 | ⟨e2, _⟩ <;> omega
      have hx : x = y := Char.toNat_inj.mp hxy
      subst hx
      rcases h1 with h1 | ⟨_, h1⟩
      · omega
      · rcases h2 with h2 | ⟨_, h2⟩
        · omega
        · rw [ih ys h1 h2]

theorem pairLe_total (a b : Str × Str) : (pairLe a b || pairLe b a) = true := by
  unfold pairLe
  by_cases h : a.1 = b.1
  · simp [h, strLe_total]
  · have h' : ¬ b.1 = a.1 := fun e => h e.symm
    simp [h, h', strLe_total]

theorem pairLe_trans (a b c : Str × Str) (h1 : pairLe a b = true) (h2 : pairLe b c = true) :
    pairLe a c = true := by
  unfold pairLe at *
  by_cases hab : a.1 = b.1
  · rw [if_pos hab] at h1
    by_cases hbc : b.1 = c.1
    · rw [if_pos hbc] at h2
      rw [if_pos (hab.trans hbc)]
      exact strLe_trans _ _ _ h1 h2
    · rw [if_neg hbc] at h2
      rw [if_neg (fun e => hbc (hab.symm.trans e)), hab]
      exact h2
  · rw [if_neg hab] at h1
    by_cases hbc : b.1 = c.1
    · rw [if_pos hbc] at h2
      rw [if_neg (fun e => hab (e.trans hbc.symm)), ← hbc]
      exact h1
    · rw [if_neg hbc] at h2
      by_cases hac : a.1 = c.1
      · exfalso
        rw [← hac] at h2
        exact hab (strLe_antisymm _ _ h1 h2)
      · rw [if_neg hac]
        exact strLe_trans _ _ _ h1 h2

theorem pairLe_name (a b : Str × Str) (h : pairLe a b = true) : Spec.Cookie.strLe a.1 b.1 = true := by
  rw [← strLe_eq]
  unfold pairLe at h
  by_cases hab : a.1 = b.1
  · rw [hab]; exact strLe_refl _
  · simpa [hab] using h

/-! ### B. association lists -/

theorem lookup_cons_ite {κ β : Type} [BEq κ] [LawfulBEq κ] [DecidableEq κ] (k0 k' : κ) (v0 : β) (r : List (κ × β)) :
    ((k0, v0) :: r).lookup k' = if k' = k0 then some v0 else r.lookup k' := by
  by_cases h : k' = k0
  · subst h; simp
  · have : (k' == k0) = false := by simpa using h
    simp [List.lookup_cons, this, h]

section Dict
variable {β : Type}

theorem dictGet_dictSet (d : List (Str × β)) (k k' : Str) (v : β) :
    dictGet (dictSet d k v) k' = if k' = k then some v else dictGet d k' := by
  unfold dictGet
  induction d with
  | nil => simp [dictSet, lookup_cons_ite]
  | cons e r ih =>
    obtain ⟨k0, v0⟩ := e
    simp only [dictSet]
    by_cases h0 : k0 = k
    · subst h0
      simp only [if_true, lookup_cons_ite]
      by_cases h1 : k' = k0 <;> simp [h1]
    · simp only [h0, if_false, lookup_cons_ite, ih]
      by_cases h1 : k' = k
      · subst h1
        have : ¬ k' = k0 := fun e => h0 e.symm
        simp [this]
      · simp [h1]

theorem keys_dictSet (d : List (Str × β)) (k : Str) (v : β) :
    (dictSet d k v).map Prod.fst =
      if k ∈ d.map Prod.fst then d.map Prod.fst else d.map Prod.fst ++ [k] := by
  induction d with
  | nil => simp [dictSet]
  | cons e r ih =>
    obtain ⟨k0, v0⟩ := e
    simp only [dictSet]
    by_cases h0 : k0 = k
    · subst h0; simp
    · have h0' : ¬ k = k0 := fun e => h0 e.symm
      simp only [h0, if_false, List.map_cons, ih, List.mem_cons, h0', false_or]
      split <;> simp

theorem nodup_keys_dictSet (d : List (Str × β)) (k : Str) (v : β)
    (h : (d.map Prod.fst).Nodup) : ((dictSet d k v).map Prod.fst).Nodup := by
  rw [keys_dictSet]
  split
  · exact h
  · next hk =>
    rw [List.nodup_append]
    refine ⟨h, by simp, ?_⟩
    intro a ha b hb
    simp only [List.mem_singleton] at hb
    subst hb
    exact fun e => hk (e ▸ ha)

theorem mem_dictSet (d : List (Str × β)) (k : Str) (v : β) (e : Str × β)
    (h : e ∈ dictSet d k v) : e = (k, v) ∨ e ∈ d := by
  induction d with
  | nil => simp [dictSet] at h; exact Or.inl h
  | cons e0 r ih =>
    obtain ⟨k0, v0⟩ := e0
    simp only [dictSet] at h
    by_cases h0 : k0 = k
    · simp only [h0, if_true, List.mem_cons] at h
      rcases h with h | h
      · exact Or.inl h
      · exact Or.inr (by simp [h])
    · simp only [h0, if_false, List.mem_cons] at h
      rcases h with h | h
      · exact Or.inr (by simp [h])
      · rcases ih h with h | h
        · exact Or.inl h
        · exact Or.inr (by simp [h])

end Dict

theorem mem_iff_lookup {κ β : Type} [BEq κ] [LawfulBEq κ] [DecidableEq κ] (l : List (κ × β)) (k : κ) (v : β)
    (h : (l.map Prod.fst).Nodup) : (k, v) ∈ l ↔ l.lookup k = some v := by
  induction l with
  | nil => simp
  | cons e r ih =>
    obtain ⟨k0, v0⟩ := e
    simp only [List.map_cons, List.nodup_cons] at h
    simp only [List.mem_cons, Prod.mk.injEq, lookup_cons_ite, ih h.2]
    by_cases hk : k = k0
    · subst hk
      have hn : r.lookup k = none := by
        rw [List.lookup_eq_none_iff]
        intro p hp
        have : p.1 ∈ r.map Prod.fst := List.mem_map.mpr ⟨p, hp, rfl⟩
        simp only [bne_iff_ne, ne_eq]
        intro e; exact h.1 (e ▸ this)
      simp [hn, eq_comm]
    · simp [hk]

/-- the value a left fold of single assignments leaves for `k`: the last one. -/
def lastVal : List (Str × Str) → Str → Option Str
  | [], _ => none
  | (n, v) :: r, k => (lastVal r k).or (if k = n then some v else none)

/-- any map-like structure with the get/set law: folding assignments = last value wins. -/
theorem fold_get {M : Type} (get : M → Str → Option Str) (set : M → Str → Str → M)
    (law : ∀ m k v k', get (set m k v) k' = if k' = k then some v else get m k')
    (pairs : List (Str × Str)) (m0 : M) (k' : Str) :
    get (pairs.foldl (fun m nv => set m nv.1 nv.2) m0) k' = (lastVal pairs k').or (get m0 k') := by
  induction pairs generalizing m0 with
  | nil => simp [lastVal]
  | cons e r ih =>
    obtain ⟨n, v⟩ := e
    simp only [List.foldl_cons, ih, law, lastVal]
    cases lastVal r k' <;> by_cases h : k' = n <;> simp [h]

theorem lastVal_eq_lookup (l : List (Str × Str)) (k : Str) (h : (l.map Prod.fst).Nodup) :
    lastVal l k = l.lookup k := by
  induction l with
  | nil => rfl
  | cons e r ih =>
    obtain ⟨n, v⟩ := e
    simp only [List.map_cons, List.nodup_cons] at h
    simp only [lastVal, ih h.2, lookup_cons_ite]
    by_cases hk : k = n
    · subst hk
      have hn : r.lookup k = none := by
        rw [List.lookup_eq_none_iff]
        intro p hp
        have : p.1 ∈ r.map Prod.fst := List.mem_map.mpr ⟨p, hp, rfl⟩
        simp only [bne_iff_ne, ne_eq]
        intro e; exact h.1 (e ▸ this)
      simp [hn]
    · simp [hk]

/-! ### C. the Spec's store -/

open _root_.WS.Spec.Cookie (Store put record storeOf key covers covering Response)

theorem lookup_filter_ne (s : Store) (k k' : Str × Str) :
    (s.filter (fun e => e.1 != k)).lookup k' = if k' = k then none else s.lookup k' := by
  induction s with
  | nil => simp
  | cons e r ih =>
    obtain ⟨k0, v0⟩ := e
    by_cases h0 : k0 = k
    · subst h0
      simp only [List.filter_cons, bne_self_eq_false, Bool.false_eq_true, if_false, ih, lookup_cons_ite]
      by_cases h1 : k' = k0 <;> simp [h1]
    · have : (k0 != k) = true := by simpa using h0
      simp only [List.filter_cons, this, if_true, lookup_cons_ite, ih]
      by_cases h1 : k' = k
      · subst h1
        have : ¬ k' = k0 := fun e => h0 e.symm
        simp [this]
      · simp [h1]

theorem lookup_put (s : Store) (k k' : Str × Str) (v : Str) :
    (put s k v).lookup k' = if k' = k then some v else s.lookup k' := by
  unfold put
  rw [List.lookup_append, lookup_filter_ne]
  by_cases h : k' = k
  · subst h; simp
  · have : (k' == k) = false := by simpa using h
    simp [h, List.lookup_cons, this]

theorem nodup_put (s : Store) (k : Str × Str) (v : Str) (h : (s.map Prod.fst).Nodup) :
    ((put s k v).map Prod.fst).Nodup := by
  unfold put
  rw [List.map_append, List.nodup_append]
  refine ⟨?_, by simp, ?_⟩
  · exact List.Nodup.sublist (List.Sublist.map _ List.filter_sublist) h
  · intro a ha b hb
    simp only [List.map_cons, List.map_nil, List.mem_singleton] at hb
    subst hb
    obtain ⟨e, he, rfl⟩ := List.mem_map.mp ha
    have := (List.mem_filter.mp he).2
    simpa using this

theorem key_eq (d : Str) : key d = lower (dotted d) := by
  unfold key dotted
  cases d with
  | nil => simp [List.isPrefixOf]
  | cons c cs =>
    by_cases h : c = '.'
    · subst h; simp [List.isPrefixOf]
    · have : (['.'].isPrefixOf (c :: cs)) = false := by simp [List.isPrefixOf, Ne.symm h]
      rw [this]
      split
      · next heq => cases heq; exact absurd rfl h
      · rfl

theorem lookup_fold_put_other (pairs : List (Str × Str)) (kd d' n' : Str) (hne : d' ≠ kd) (s : Store) :
    (pairs.foldl (fun s nv => put s (kd, nv.1) nv.2) s).lookup (d', n') = s.lookup (d', n') := by
  induction pairs generalizing s with
  | nil => rfl
  | cons e r ih =>
    simp only [List.foldl_cons, ih, lookup_put]
    have : ¬ (d', n') = (kd, e.1) := fun h => hne (Prod.mk.inj h).1
    simp [this]

theorem nodup_fold_put (pairs : List (Str × Str)) (kd : Str) (s : Store) (h : (s.map Prod.fst).Nodup) :
    ((pairs.foldl (fun s nv => put s (kd, nv.1) nv.2) s).map Prod.fst).Nodup := by
  induction pairs generalizing s with
  | nil => exact h
  | cons e r ih => exact ih _ (nodup_put _ _ _ h)

/-- what recording a response that names a Domain does to every look-up. -/
theorem lookup_record (s : Store) (pairs : List (Str × Str)) (d : Str) (hd : d.isEmpty = false)
    (d' n' : Str) :
    (record s ⟨pairs, some d⟩).lookup (d', n') =
      if d' = key d then (lastVal pairs n').or (s.lookup (key d, n')) else s.lookup (d', n') := by
  unfold record
  simp only [hd, Bool.false_eq_true, if_false]
  by_cases h : d' = key d
  · subst h
    simp only [if_true]
    exact fold_get (fun s n => s.lookup (key d, n)) (fun s n v => put s (key d, n) v)
      (fun m k v k' => by
        simp only [lookup_put, Prod.mk.injEq, true_and]) pairs s n'
  · simp only [h, if_false]
    exact lookup_fold_put_other pairs (key d) d' n' h s

/-! ### D. the jar -/

def lookupM (jar : Jar) (d n : Str) : Option Str := (dictGet jar d).bind fun c => dictGet c n

structure JarOK (jar : Jar) : Prop where
  keys : (jar.map Prod.fst).Nodup
  inner : ∀ d c, (d, c) ∈ jar → (c.map Prod.fst).Nodup
  dots : ∀ d c, (d, c) ∈ jar → ∃ n, d = '.' :: n

theorem jarOK_nil : JarOK [] := ⟨by simp, by simp, by simp⟩

theorem nodup_keys_fold (pairs : List (Str × Str)) (c : Cookie) (h : (c.map Prod.fst).Nodup) :
    ((pairs.foldl (fun c nv => dictSet c nv.1 nv.2) c).map Prod.fst).Nodup := by
  induction pairs generalizing c with
  | nil => exact h
  | cons e r ih => exact ih _ (nodup_keys_dictSet _ _ _ h)

theorem cookieOf_eq (ms : List Morsel) :
    cookieOf ms = (ms.map fun m => (m.name, m.value)).foldl (fun c nv => dictSet c nv.1 nv.2) [] := by
  unfold cookieOf
  rw [List.foldl_map]

theorem nodup_cookieOf (ms : List Morsel) : ((cookieOf ms).map Prod.fst).Nodup := by
  rw [cookieOf_eq]; exact nodup_keys_fold _ _ (by simp)

theorem dictGet_cookieOf (ms : List Morsel) (n : Str) :
    dictGet (cookieOf ms) n = lastVal (ms.map fun m => (m.name, m.value)) n := by
  rw [cookieOf_eq]
  have := fold_get (M := Cookie) dictGet dictSet (fun m k v k' => dictGet_dictSet m k k' v) (ms.map fun m => (m.name, m.value)) [] n
  rw [this]
  simp [dictGet]

theorem lower_dotted (d : Str) : ∃ n, lower (dotted d) = '.' :: n := by
  unfold dotted
  cases d with
  | nil => exact ⟨[], by simp [List.isPrefixOf, lower, lowerC, isUpperC]⟩
  | cons c cs =>
    by_cases h : c = '.'
    · subst h
      exact ⟨lower cs, by simp [List.isPrefixOf, lower, lowerC, isUpperC]⟩
    · have : (['.'].isPrefixOf (c :: cs)) = false := by simp [List.isPrefixOf, Ne.symm h]
      rw [this]
      exact ⟨lower (c :: cs), by simp [lower, lowerC, isUpperC]⟩

/-- generated facts (T): `add` lower-cases the domain before the look-up, `get` sorts pairs. -/
theorem cookie_shape : Gen.cookieLookupLowered = true ∧ Gen.cookieSortsPairs = true := by decide

theorem addStep_spec (all : Cookie) (hall : (all.map Prod.fst).Nodup) (jar : Jar) (m : Morsel)
    (hm : m.domain.isEmpty = false) (hj : JarOK jar) :
    JarOK (addStep all jar m) ∧
    ∀ d' n', lookupM (addStep all jar m) d' n' =
      if d' = lower (dotted m.domain) then (dictGet all n').or (lookupM jar d' n')
      else lookupM jar d' n' := by
  unfold addStep
  simp only [hm, Bool.false_eq_true, if_false, cookie_shape.1, if_true]
  generalize hkd : lower (dotted m.domain) = kd
  -- the cookie found under the key
  have hcookie : ∃ cookie : Cookie,
      getOrNew jar kd = cookie ∧ (cookie.map Prod.fst).Nodup ∧
      ∀ n', dictGet cookie n' = lookupM jar kd n' := by
    unfold lookupM getOrNew
    cases hg : dictGet jar kd with
    | none => exact ⟨[], rfl, by simp, by simp [dictGet]⟩
    | some c =>
      have hmem : (kd, c) ∈ jar := (mem_iff_lookup jar kd c hj.keys).mpr hg
      by_cases hc : c.isEmpty = true
      · have : c = [] := by simpa using hc
        subst this
        exact ⟨[], by simp, by simp, by simp [dictGet]⟩
      · exact ⟨c, by simp [hc], hj.inner kd c hmem, by simp⟩
  obtain ⟨cookie, hce, hcn, hcl⟩ := hcookie
  rw [hce]
  refine ⟨⟨nodup_keys_dictSet _ _ _ hj.keys, ?_, ?_⟩, ?_⟩
  · intro d c hdc
    rcases mem_dictSet _ _ _ _ hdc with h | h
    · cases h
      exact nodup_keys_fold _ _ hcn
    · exact hj.inner d c h
  · intro d c hdc
    rcases mem_dictSet _ _ _ _ hdc with h | h
    · cases h
      rw [← hkd]; exact lower_dotted _
    · exact hj.dots d c h
  · intro d' n'
    unfold lookupM
    rw [dictGet_dictSet]
    by_cases h : d' = kd
    · subst h
      simp only [if_true, Option.bind_some]
      unfold update
      rw [fold_get (M := Cookie) dictGet dictSet (fun m k v k' => dictGet_dictSet m k k' v) all cookie n',
        lastVal_eq_lookup all n' hall, hcl]
      rfl
    · simp [h]

theorem or_or_self {α : Type} (a b : Option α) : a.or (a.or b) = a.or b := by
  cases a <;> simp

/-- folding `addStep` over morsels that all name the domain `d`. -/
theorem foldl_addStep (all : Cookie) (hall : (all.map Prod.fst).Nodup) (d : Str)
    (hd : d.isEmpty = false) (L : List Morsel) (hL : ∀ m ∈ L, m.domain = d) (jar : Jar)
    (hj : JarOK jar) :
    JarOK (L.foldl (addStep all) jar) ∧
    ∀ d' n', lookupM (L.foldl (addStep all) jar) d' n' =
      if L = [] then lookupM jar d' n'
      else if d' = lower (dotted d) then (dictGet all n').or (lookupM jar d' n')
      else lookupM jar d' n' := by
  induction L generalizing jar with
  | nil => exact ⟨hj, by simp⟩
  | cons m r ih =>
    have hmd : m.domain = d := hL m (by simp)
    have hm : m.domain.isEmpty = false := by rw [hmd]; exact hd
    obtain ⟨hj1, hl1⟩ := addStep_spec all hall jar m hm hj
    obtain ⟨hj2, hl2⟩ := ih (fun x hx => hL x (by simp [hx])) (addStep all jar m) hj1
    refine ⟨hj2, ?_⟩
    intro d' n'
    simp only [List.foldl_cons, hl2, hl1, hmd, List.cons_ne_nil, if_false]
    by_cases hr : r = []
    · simp [hr]
    · simp only [hr, if_false]
      by_cases h : d' = lower (dotted d)
      · simp [h, or_or_self]
      · simp [h]

/-- `add` on a response whose cookies all carry the Domain `d`. -/
theorem add_spec (jar : Jar) (hj : JarOK jar) (pairs : List (Str × Str)) (d : Str)
    (hd : d.isEmpty = false) :
    JarOK (add jar (morselsOf pairs (some d))) ∧
    ∀ d' n', lookupM (add jar (morselsOf pairs (some d))) d' n' =
      if d' = lower (dotted d) then (lastVal pairs n').or (lookupM jar d' n')
      else lookupM jar d' n' := by
  unfold add
  have hL : ∀ m ∈ morselsOf pairs (some d), m.domain = d := by
    intro m hm
    unfold morselsOf at hm
    obtain ⟨nv, _, rfl⟩ := List.mem_map.mp hm
    rfl
  obtain ⟨h1, h2⟩ := foldl_addStep (cookieOf (morselsOf pairs (some d))) (nodup_cookieOf _) d hd
    (morselsOf pairs (some d)) hL jar hj
  refine ⟨h1, ?_⟩
  intro d' n'
  rw [h2, dictGet_cookieOf]
  have hmap : ((morselsOf pairs (some d)).map fun m => (m.name, m.value)) = pairs := by
    unfold morselsOf
    rw [List.map_map]
    have : ((fun m : Morsel => (m.name, m.value)) ∘ fun nv : Str × Str => (⟨nv.1, nv.2, d⟩ : Morsel)) = id := by
      funext nv; rfl
    simp only [Option.getD_some]
    rw [this, List.map_id]
  rw [hmap]
  by_cases hp : pairs = []
  · subst hp
    simp [morselsOf, lastVal]
  · have : morselsOf pairs (some d) ≠ [] := by
      unfold morselsOf; simpa using hp
    simp [this]

/-- a response without a Domain (or with an empty one) leaves the jar untouched. -/
theorem add_no_domain (jar : Jar) (pairs : List (Str × Str)) (dom : Option Str)
    (h : (dom.getD []).isEmpty = true) : add jar (morselsOf pairs dom) = jar := by
  unfold add
  generalize cookieOf (morselsOf pairs dom) = all
  unfold morselsOf
  induction pairs generalizing jar with
  | nil => rfl
  | cons e r ih =>
    simp only [List.map_cons, List.foldl_cons, addStep, h, if_true]
    exact ih jar

/-! ### E. refinement: jar ⊑ store -/

structure Rel (jar : Jar) (store : Store) : Prop where
  ok : JarOK jar
  snodup : (store.map Prod.fst).Nodup
  agree : ∀ d n, lookupM jar d n = store.lookup (d, n)

theorem rel_nil : Rel [] [] := ⟨jarOK_nil, by simp, by simp [lookupM, dictGet]⟩

theorem record_nodup (s : Store) (r : Response) (h : (s.map Prod.fst).Nodup) :
    ((record s r).map Prod.fst).Nodup := by
  unfold record
  split
  · exact h
  · split
    · exact h
    · exact nodup_fold_put _ _ _ h

theorem rel_step (jar : Jar) (store : Store) (h : Rel jar store) (r : Response) :
    Rel (add jar (morselsOf r.cookies r.domain)) (record store r) := by
  obtain ⟨pairs, dom⟩ := r
  by_cases hd : (dom.getD []).isEmpty = true
  · -- no Domain named: nothing changes on either side
    simp only
    rw [add_no_domain jar pairs dom hd]
    have : record store ⟨pairs, dom⟩ = store := by
      unfold record
      cases dom with
      | none => rfl
      | some d => simp only [Option.getD_some] at hd; simp [hd]
    rw [this]; exact h
  · cases dom with
    | none => simp at hd
    | some d =>
      have hd' : d.isEmpty = false := by simpa using hd
      obtain ⟨hj, hl⟩ := add_spec jar h.ok pairs d hd'
      refine ⟨hj, record_nodup _ _ h.snodup, ?_⟩
      intro d' n'
      simp only
      rw [hl, lookup_record store pairs d hd', key_eq]
      simp only [h.agree]
      by_cases hk : d' = lower (dotted d)
      · subst hk; simp
      · simp [hk]

theorem rel_hist (hist : List Response) (jar : Jar) (store : Store) (h : Rel jar store) :
    Rel (hist.foldl (fun jar r => add jar (morselsOf r.cookies r.domain)) jar)
      (hist.foldl record store) := by
  induction hist generalizing jar store with
  | nil => exact h
  | cons r rs ih => exact ih _ _ (rel_step jar store h r)

/-! ### F. from agreeing look-ups to a permutation of the covering entries -/

def tag (d : Str) (nv : Str × Str) : (Str × Str) × Str := ((d, nv.1), nv.2)

def triplesJ (jar : Jar) : List ((Str × Str) × Str) := jar.flatMap fun dc => dc.2.map (tag dc.1)

theorem mem_triplesJ (jar : Jar) (d n v : Str) :
    ((d, n), v) ∈ triplesJ jar ↔ ∃ c, (d, c) ∈ jar ∧ (n, v) ∈ c := by
  unfold triplesJ
  simp only [List.mem_flatMap, List.mem_map, tag, Prod.mk.injEq]
  constructor
  · rintro ⟨⟨d0, c⟩, hdc, ⟨n0, v0⟩, hnv, ⟨rfl, rfl⟩, rfl⟩
    exact ⟨c, hdc, hnv⟩
  · rintro ⟨c, hdc, hnv⟩
    exact ⟨(d, c), hdc, (n, v), hnv, ⟨rfl, rfl⟩, rfl⟩

theorem mem_triplesJ_iff (jar : Jar) (hj : JarOK jar) (d n v : Str) :
    ((d, n), v) ∈ triplesJ jar ↔ lookupM jar d n = some v := by
  rw [mem_triplesJ]
  unfold lookupM
  constructor
  · rintro ⟨c, hdc, hnv⟩
    have h1 := (mem_iff_lookup jar d c hj.keys).mp hdc
    have h2 := (mem_iff_lookup c n v (hj.inner d c hdc)).mp hnv
    simp [dictGet, h1, h2]
  · intro h
    cases hg : dictGet jar d with
    | none => simp [hg] at h
    | some c =>
      simp only [hg, Option.bind_some] at h
      have hdc := (mem_iff_lookup jar d c hj.keys).mpr hg
      exact ⟨c, hdc, (mem_iff_lookup c n v (hj.inner d c hdc)).mpr h⟩

theorem nodup_of_keys {κ β : Type} (l : List (κ × β)) (h : (l.map Prod.fst).Nodup) : l.Nodup := by
  unfold List.Nodup at *
  rw [List.pairwise_map] at h
  exact h.imp fun hab e => hab (by rw [e])

theorem nodup_triplesJ (jar : Jar) (hj : JarOK jar) : (triplesJ jar).Nodup := by
  obtain ⟨hk, hi, hdots⟩ := hj
  clear hdots
  unfold triplesJ
  induction jar with
  | nil => simp
  | cons dc r ih =>
    obtain ⟨d, c⟩ := dc
    simp only [List.map_cons, List.nodup_cons] at hk
    simp only [List.flatMap_cons]
    rw [List.nodup_append]
    refine ⟨?_, ih hk.2 (fun d' c' h => hi d' c' (by simp [h])), ?_⟩
    · have hc := hi d c (by simp)
      unfold List.Nodup at *
      rw [List.pairwise_map] at hc ⊢
      exact hc.imp fun hab e => hab (by simp only [tag, Prod.mk.injEq] at e; exact e.1.2)
    · intro a ha b hb
      simp only [List.mem_map] at ha
      obtain ⟨nv, _, rfl⟩ := ha
      simp only [List.mem_flatMap, List.mem_map] at hb
      obtain ⟨⟨d2, c2⟩, hdc2, nv2, _, rfl⟩ := hb
      simp only [tag, ne_eq, Prod.mk.injEq, not_and]
      intro hdd
      exfalso
      have : d2 ∈ r.map Prod.fst := List.mem_map.mpr ⟨(d2, c2), hdc2, rfl⟩
      exact hk.1 (hdd.1 ▸ this)

/-- jar and store hold the same entries. -/
theorem triples_perm (jar : Jar) (store : Store) (h : Rel jar store) : (triplesJ jar).Perm store := by
  rw [List.perm_ext_iff_of_nodup (nodup_triplesJ jar h.ok) (nodup_of_keys store h.snodup)]
  rintro ⟨⟨d, n⟩, v⟩
  rw [mem_triplesJ_iff jar h.ok, mem_iff_lookup store (d, n) v h.snodup, h.agree]

/-- the model's coverage test is the Spec's on dotted keys. -/
theorem covers_eq (n host : Str) :
    (('.' :: n).isSuffixOf (lower host) || lower host == ('.' :: n).drop 1) = covers ('.' :: n) host := by
  unfold covers Spec.Cookie.labels
  simp only [List.drop_succ_cons, List.drop_zero]
  rw [WS.Lemmas.Py.isSuffixOf_splitOn_eq, Bool.or_comm]

theorem flatten_filter_nonempty {α : Type} (L : List (List α)) :
    (L.filter (fun c => !c.isEmpty)).flatten = L.flatten := by
  induction L with
  | nil => rfl
  | cons c r ih =>
    cases c with
    | nil => simp [ih]
    | cons x xs => simp [ih]

theorem filter_tag (c : Cookie) (d host : Str) :
    ((c.map (tag d)).filter fun e => covers e.1.1 host) =
      if covers d host then c.map (tag d) else [] := by
  induction c with
  | nil => simp
  | cons x xs ihc =>
    simp only [List.map_cons, List.filter_cons, tag] at ihc ⊢
    by_cases hc : covers d host = true
    · simp only [hc, if_true] at ihc ⊢; rw [ihc]
    · simp only [hc, Bool.false_eq_true, if_false] at ihc ⊢; exact ihc

/-- what `get` collects = the covering entries of the jar's triples. -/
theorem collected_eq (jar : Jar) (hj : JarOK jar) (host : Str) :
    collected jar host =
      ((triplesJ jar).filter fun e => covers e.1.1 host).map fun e => (e.1.2, e.2) := by
  unfold collected
  simp only [flatten_filter_nonempty]
  have hd := hj.dots
  clear hj
  unfold triplesJ
  induction jar with
  | nil => rfl
  | cons dc r ih =>
    obtain ⟨d, c⟩ := dc
    obtain ⟨n, rfl⟩ := hd d c (by simp)
    have ih' := ih (fun d' c' h => hd d' c' (by simp [h]))
    simp only [List.filter_cons, covers_eq, List.flatMap_cons, List.filter_append, List.map_append]
    rw [filter_tag]
    by_cases hc : covers ('.' :: n) host = true
    · simp only [hc, if_true, List.map_cons, List.flatten_cons, ih']
      congr 1
      rw [List.map_map]
      have : ((fun e : (Str × Str) × Str => (e.1.2, e.2)) ∘ tag ('.' :: n)) = id := by
        funext nv; rfl
      rw [this, List.map_id]
    · simp only [hc, Bool.false_eq_true, if_false, List.map_nil, List.nil_append, ih']

/-- **refinement**: what `get` collects is a permutation of the Spec's covering entries. -/
theorem collected_perm (jar : Jar) (store : Store) (h : Rel jar store) (host : Str) :
    (collected jar host).Perm (covering store host) := by
  rw [collected_eq jar h.ok]
  unfold covering
  exact ((triples_perm jar store h).filter _).map _

/-! ### G. histories -/

/-- a history as the model sees it (parsed, canonical rendering). -/
def parsed (hist : List Response) : List (List (Str × Str) × Option Str) :=
  hist.map fun r => (r.cookies, r.domain)

theorem jarOf_parsed (hist : List Response) :
    jarOf (parsed hist) = hist.foldl (fun jar r => add jar (morselsOf r.cookies r.domain)) [] := by
  unfold jarOf parsed
  rw [List.foldl_map]

/-- evaluation helper (`mergeSort` is by well-founded recursion, so `decide` goes through the
    already-sorted case). -/
theorem getPairs_of_sorted (jar : Jar) (host : Str) (L : List (Str × Str))
    (hne : host.isEmpty = false) (hc : collected jar host = L)
    (hs : L.Pairwise fun a b => pairLe a b = true) : getPairs jar host = L := by
  unfold getPairs
  rw [hne, hc]
  exact List.mergeSort_of_pairwise hs

end WS.Lemmas.Cookie
