/-
  WS.Lemmas.Url — partition / rpartition facts and the stage lemmas of C18_parse.
-/
import WS.Lemmas.Py
import WS.Spec.Rfc3986
import WS.Model.Url
import WS.Model.OpenSocket
namespace WS.Lemmas.Url
open WS WS.Py WS.Net

/-! ### partition -/

theorem partition_nil (c : Char) : partition c [] = ([], false, []) := by simp [partition]

theorem partition_cons_eq (c : Char) (xs : Str) : partition c (c :: xs) = ([], true, xs) := by
  simp [partition]

theorem partition_cons_ne {c x : Char} (h : x ≠ c) (xs : Str) :
    partition c (x :: xs) = (x :: (partition c xs).1, (partition c xs).2.1, (partition c xs).2.2) := by
  simp only [partition, List.takeWhile_cons, List.dropWhile_cons, bne_iff_ne, ne_eq, h,
    not_false_eq_true, if_true]
  cases List.dropWhile (fun x => x != c) xs <;> rfl

/-- `partition` finds the first occurrence. -/
theorem partition_spec (c : Char) (s : Str) :
    (∃ a b, s = a ++ c :: b ∧ c ∉ a ∧ partition c s = (a, true, b)) ∨
    (c ∉ s ∧ partition c s = (s, false, [])) := by
  induction s with
  | nil => right; simp [partition_nil]
  | cons x xs ih =>
    by_cases hx : x = c
    · subst hx; left; exact ⟨[], xs, rfl, by simp, partition_cons_eq x xs⟩
    · rcases ih with ⟨a, b, hs, hna, hp⟩ | ⟨hn, hp⟩
      · left
        refine ⟨x :: a, b, by simp [hs], ?_, ?_⟩
        · simp [hna, Ne.symm hx]
        · rw [partition_cons_ne hx, hp]
      · right
        refine ⟨by simp [hn, Ne.symm hx], ?_⟩
        rw [partition_cons_ne hx, hp]

theorem partition_append {c : Char} {a : Str} (b : Str) (h : c ∉ a) :
    partition c (a ++ c :: b) = (a, true, b) := by
  induction a with
  | nil => exact partition_cons_eq c b
  | cons x xs ih =>
    have hx : x ≠ c := fun e => h (by simp [e])
    have hxs : c ∉ xs := fun e => h (by simp [e])
    rw [List.cons_append, partition_cons_ne hx, ih hxs]

theorem partition_notin {c : Char} {s : Str} (h : c ∉ s) : partition c s = (s, false, []) := by
  rcases partition_spec c s with ⟨a, b, hs, _, _⟩ | ⟨_, hp⟩
  · exact absurd (by simp [hs]) h
  · exact hp

theorem partition_fst (c : Char) (s : Str) : (partition c s).1 = s.takeWhile (· != c) := by
  unfold partition; cases List.dropWhile (fun x => x != c) s <;> rfl

theorem partition_found (c : Char) (s : Str) : (partition c s).2.1 = s.contains c := by
  rcases partition_spec c s with ⟨a, b, hs, _, hp⟩ | ⟨hn, hp⟩
  · rw [hp, hs]; simp
  · rw [hp]; simp [hn]

theorem partition_after (c : Char) (s : Str) :
    (partition c s).2.2 = (s.dropWhile (· != c)).drop 1 := by
  unfold partition; cases List.dropWhile (fun x => x != c) s <;> rfl

/-- `cut` in terms of takeWhile / dropWhile. -/
theorem cut_eq (c : Char) (s : Str) :
    Model.Url.cut c s = (s.takeWhile (· != c), (s.dropWhile (· != c)).drop 1) := by
  unfold Model.Url.cut partition
  cases List.dropWhile (fun x => x != c) s <;> rfl

/-! ### rpartition -/

theorem rpartition_spec (c : Char) (s : Str) :
    (∃ a b, s = a ++ c :: b ∧ c ∉ b ∧ rpartition c s = (a, true, b)) ∨
    (c ∉ s ∧ rpartition c s = ([], false, s)) := by
  unfold rpartition
  rcases partition_spec c s.reverse with ⟨a, b, hs, hna, hp⟩ | ⟨hn, hp⟩
  · left
    refine ⟨b.reverse, a.reverse, ?_, by simpa using hna, by simp [hp]⟩
    have := congrArg List.reverse hs
    simpa using this
  · right
    exact ⟨by simpa using hn, by simp [hp]⟩

theorem rpartition_append {c : Char} (a : Str) {b : Str} (h : c ∉ b) :
    rpartition c (a ++ c :: b) = (a, true, b) := by
  unfold rpartition
  have : (a ++ c :: b).reverse = b.reverse ++ c :: a.reverse := by simp
  rw [this, partition_append _ (by simpa using h)]
  simp

theorem rpartition_notin {c : Char} {s : Str} (h : c ∉ s) : rpartition c s = ([], false, s) := by
  rcases rpartition_spec c s with ⟨a, b, hs, _, _⟩ | ⟨_, hp⟩
  · exact absurd (by simp [hs]) h
  · exact hp

/-! ### `split1` when the separator occurs -/

theorem split1_of_mem {c : Char} {s : Str} (h : c ∈ s) :
    split1 c s = (s.takeWhile (· != c), some ((s.dropWhile (· != c)).drop 1)) := by
  unfold split1
  have h1 := partition_fst c s
  have h2 := partition_found c s
  have h3 := partition_after c s
  rcases hp : partition c s with ⟨a, f, b⟩
  rw [hp] at h1 h2 h3
  simp at h1 h2 h3
  subst h1 h3
  simp [h] at h2
  subst h2
  simp

/-! ### the model of `parse_url`, staged -/

open Model.Url in
/-- what `parse_url` computes from the authority and what follows it, the scheme being known. -/
def parseHier (v6ok : Str → Bool) (secure : Bool) (dflt : Nat) (auth tail : Str) : Except Exn Target :=
  if bracketsOk v6ok auth then
    match hostname auth with
    | none => .error .valueError
    | some host =>
      match port auth with
      | .error e => .error e
      | .ok p =>
        let port0 := match p with
          | some n => n
          | none => 0
        let port1 := if port0 == 0 then dflt else port0
        let bf := tail.takeWhile (· != '#')
        let path := bf.takeWhile (· != '?')
        let query := (bf.dropWhile (· != '?')).drop 1
        let r0 := if path.isEmpty then ['/'] else path
        let r1 := if query.isEmpty then r0 else r0 ++ '?' :: query
        .ok ⟨host, port1, r1, secure⟩
  else .error .valueError

open Model.Url in
theorem urlsplit_slashes (v6ok : Str → Bool) (body dflt : Str) :
    urlsplit v6ok ('/' :: '/' :: body) dflt =
      if bracketsOk v6ok (body.takeWhile (fun c => !isDelim c)) then
        .ok ⟨dflt, body.takeWhile (fun c => !isDelim c),
          ((body.dropWhile (fun c => !isDelim c)).takeWhile (· != '#')).takeWhile (· != '?'),
          (((body.dropWhile (fun c => !isDelim c)).takeWhile (· != '#')).dropWhile (· != '?')).drop 1,
          ((body.dropWhile (fun c => !isDelim c)).dropWhile (· != '#')).drop 1⟩
      else .error .valueError := by
  unfold urlsplit
  have hne : ('/' : Char) ≠ ':' := by decide
  rw [partition_cons_ne hne, partition_cons_ne hne]
  have hal : isAlphaC '/' = false := by decide
  rcases (partition ':' body) with ⟨a, f, b⟩
  by_cases hb : bracketsOk v6ok (body.takeWhile (fun c => !isDelim c)) = true <;>
    cases f <;> simp [hal, hb, cut_eq]

theorem port_error (netloc : Str) (e : Exn) (h : Model.Url.port netloc = .error e) : e = .valueError := by
  unfold Model.Url.port at h
  split at h
  · cases h
  · split at h
    · dsimp only at h
      split at h <;> cases h; rfl
    · cases h; rfl

/-- every failure of `parse_url` is a ValueError. -/
theorem parseHier_error (v6ok : Str → Bool) (secure : Bool) (dflt : Nat) (auth tail : Str) (e : Exn)
    (h : parseHier v6ok secure dflt auth tail = .error e) : e = .valueError := by
  unfold parseHier at h
  split at h
  · split at h
    · cases h; rfl
    · split at h
      · next e' he => cases h; exact port_error _ _ he
      · cases h
  · cases h; rfl

/-- generated facts (T): `parse_url` tests for "//" and uses `urlsplit` (false of a tree that
    still calls `urlparse` or lacks the test). -/
theorem url_shape : Gen.parseUrlRequiresSlashes = true ∧ Gen.parseUrlUsesUrlsplit = true := by decide

/-- `parse_url` on `scheme://…`: the staged form. -/
theorem parseUrl_hier (v6ok : Str → Bool) (u body : Str) (hc : ':' ∈ u)
    (hr : (u.dropWhile (· != ':')).drop 1 = '/' :: '/' :: body) :
    Model.Url.parseUrl v6ok u =
      if u.takeWhile (· != ':') == "ws".toList then
        parseHier v6ok false Gen.defaultPortWs (body.takeWhile (fun c => !Model.Url.isDelim c))
          (body.dropWhile (fun c => !Model.Url.isDelim c))
      else if u.takeWhile (· != ':') == "wss".toList then
        parseHier v6ok true Gen.defaultPortWss (body.takeWhile (fun c => !Model.Url.isDelim c))
          (body.dropWhile (fun c => !Model.Url.isDelim c))
      else .error .valueError := by
  unfold Model.Url.parseUrl
  rw [url_shape.1, url_shape.2]
  have hcon : u.contains ':' = true := by simpa using hc
  simp only [hcon, Bool.not_true, Bool.false_eq_true, if_false, split1_of_mem hc, hr,
    urlsplit_slashes, Bool.true_and, if_true]
  have hpre : ("//".toList).isPrefixOf ('/' :: '/' :: body) = true := by simp [List.isPrefixOf]
  simp only [hpre, Bool.not_true, Bool.false_eq_true, if_false]
  unfold parseHier
  by_cases hb : Model.Url.bracketsOk v6ok (body.takeWhile (fun c => !Model.Url.isDelim c)) = true
  · simp only [hb, if_true]
    cases hh : Model.Url.hostname (body.takeWhile (fun c => !Model.Url.isDelim c)) with
    | none => simp
    | some host =>
      cases hp : Model.Url.port (body.takeWhile (fun c => !Model.Url.isDelim c)) with
      | error e =>
        have := port_error _ _ hp; subst this
        simp
      | ok p =>
        by_cases h1 : (u.takeWhile (· != ':') == "ws".toList) = true
        · simp only [h1, if_true]; rfl
        · by_cases h2 : (u.takeWhile (· != ':') == "wss".toList) = true
          · simp only [h1, h2, if_true, if_false, Bool.false_eq_true]; rfl
          · simp only [h1, h2, if_false, Bool.false_eq_true]
  · simp [hb]

/-! ### the authority: Spec grammar ⇒ what `_hostinfo` / `hostname` / `port` compute -/

open Spec.Url

theorem not_mem_of_all {P : Char → Bool} {s : Str} {c : Char} (h : s.all P = true) (hc : P c = false) :
    c ∉ s := by
  intro hm
  have := List.all_eq_true.mp h c hm
  rw [hc] at this
  cases this

/-- a port text that is not `bad` is empty or all digits with value 1…65535. -/
theorem portOf_good {p : Str} (h : portOf p ≠ .bad) :
    (p = [] ∧ portOf p = .absent) ∨
    (p ≠ [] ∧ p.all isDigitC = true ∧ 1 ≤ digitsVal p ∧ digitsVal p ≤ 65535 ∧
      portOf p = .value (digitsVal p)) := by
  unfold portOf at h ⊢
  by_cases h0 : p = []
  · left; simp [h0]
  · right
    simp only [h0, if_false] at h ⊢
    by_cases h1 : p.all isDigitC = true
    · simp only [h1, if_true] at h ⊢
      by_cases h2 : 1 ≤ digitsVal p ∧ digitsVal p ≤ 65535
      · exact ⟨h0, trivial, h2.1, h2.2, by simp [h2]⟩
      · simp [h2] at h
    · simp [h1] at h

theorem digits_no {p : Str} {c : Char} (h : p.all isDigitC = true) (hc : isDigitC c = false) : c ∉ p :=
  not_mem_of_all h hc

/-- the natural-number view of a port verdict, as `.port` returns it. -/
def pvNat : PortV → Option Nat
  | .value n => some n
  | _ => none

open Model.Url in
/-- result of `_hostinfo` on the text after the user-info, under the Spec's host grammar. -/
theorem hostinfoOf_spec (v6ok : Str → Bool) (hp host : Str) (pv : PortV)
    (h : hostPort v6ok hp = some (host, pv)) (hpv : pv ≠ .bad) :
    ∃ (htxt ptxt : Str),
      hostinfoOf hp = (htxt, if ptxt.isEmpty then none else some ptxt) ∧
      htxt ≠ [] ∧ '%' ∉ htxt ∧ host = lower htxt ∧ pv = portOf ptxt ∧
      ((hp.contains '[' = false ∧ hp.contains ']' = false) ∨
       (∃ r, hp = '[' :: r ∧ htxt = r.takeWhile (· != ']') ∧ hp.contains ']' = true ∧ v6ok htxt = true)) := by
  unfold hostPort at h
  split at h
  · -- bracketed
    next r =>
    dsimp only at h
    split at h
    · next after hd =>
      split at h
      · next hok =>
        simp only [Bool.and_eq_true, bne_iff_ne, ne_eq] at hok
        obtain ⟨⟨hne, hlit⟩, hv6⟩ := hok
        have hpart1 : partition '[' ('[' :: r) = ([], true, r) := partition_cons_eq _ _
        have hfst := partition_fst ']' r
        have hafter := partition_after ']' r
        rw [hd] at hafter
        have hbr : ('[' :: r).contains ']' = true := by
          have : ']' ∈ r := by
            have := List.takeWhile_append_dropWhile (p := (· != ']')) (l := r)
            rw [hd] at this
            rw [← this]; simp
          simp [this]
        split at h
        · -- after = []
          simp only [Option.some.injEq, Prod.mk.injEq] at h
          refine ⟨r.takeWhile (· != ']'), [], ?_, hne, not_mem_of_all hlit (by decide), h.1.symm,
            by simp [h.2.symm, portOf], Or.inr ⟨r, rfl, rfl, hbr, hv6⟩⟩
          unfold hostinfoOf
          rw [hpart1]
          simp [hfst, hafter, partition_nil]
        · next p =>
          simp only [Option.some.injEq, Prod.mk.injEq] at h
          refine ⟨r.takeWhile (· != ']'), p, ?_, hne, not_mem_of_all hlit (by decide), h.1.symm,
            h.2.symm, Or.inr ⟨r, rfl, rfl, hbr, hv6⟩⟩
          unfold hostinfoOf
          rw [hpart1]
          simp [hfst, hafter, partition_cons_eq]
        · cases h
      · cases h
    · cases h
  · -- plain name
    next hnb =>
    dsimp only at h
    rcases rpartition_spec ':' hp with ⟨a, b, hs, hnb', hrp⟩ | ⟨hn, hrp⟩
    · rw [hrp] at h
      simp only [if_true] at h
      split at h
      · next hok =>
        simp only [Bool.and_eq_true, bne_iff_ne, ne_eq] at hok
        simp only [Option.some.injEq, Prod.mk.injEq] at h
        obtain ⟨hne, hreg⟩ := hok
        have hpv' : portOf b ≠ .bad := by rw [h.2]; exact hpv
        have hca : ':' ∉ a := not_mem_of_all hreg (by decide)
        have hb1 : ∀ c, isDigitC c = false → c ∉ b := by
          intro c hc
          rcases portOf_good hpv' with ⟨rfl, _⟩ | ⟨_, hd, _⟩
          · simp
          · exact digits_no hd hc
        have hnob : hp.contains '[' = false ∧ hp.contains ']' = false := by
          subst hs
          have h1 : '[' ∉ a := not_mem_of_all hreg (by decide)
          have h2 : ']' ∉ a := not_mem_of_all hreg (by decide)
          have h3 := hb1 '[' (by decide)
          have h4 := hb1 ']' (by decide)
          simp [h1, h2, h3, h4]
        refine ⟨a, b, ?_, hne, not_mem_of_all hreg (by decide), h.1.symm, h.2.symm, Or.inl hnob⟩
        unfold hostinfoOf
        have : '[' ∉ hp := by simpa using hnob.1
        rw [partition_notin this]
        subst hs
        simp [partition_append b hca]
      · cases h
    · rw [hrp] at h
      simp only [Bool.false_eq_true, if_false] at h
      split at h
      · next hok =>
        simp only [Bool.and_eq_true, bne_iff_ne, ne_eq] at hok
        simp only [Option.some.injEq, Prod.mk.injEq] at h
        obtain ⟨hne, hreg⟩ := hok
        have hnob : hp.contains '[' = false ∧ hp.contains ']' = false := by
          have h1 : '[' ∉ hp := not_mem_of_all hreg (by decide)
          have h2 : ']' ∉ hp := not_mem_of_all hreg (by decide)
          simp [h1, h2]
        refine ⟨hp, [], ?_, hne, not_mem_of_all hreg (by decide), h.1.symm, by simp [h.2.symm, portOf],
          Or.inl hnob⟩
        unfold hostinfoOf
        have : '[' ∉ hp := by simpa using hnob.1
        rw [partition_notin this]
        simp [partition_notin hn]
      · cases h

open Model.Url in
/-- the whole authority: brackets pass, `hostname` and `port` are what the Spec reads. -/
theorem authority_spec (v6ok : Str → Bool) (auth host : Str) (pv : PortV)
    (hui : (rpartition '@' auth).2.1 = true → (rpartition '@' auth).1.all userinfoChar = true)
    (h : hostPort v6ok (rpartition '@' auth).2.2 = some (host, pv)) (hpv : pv ≠ .bad) :
    bracketsOk v6ok auth = true ∧ hostname auth = some host ∧ port auth = .ok (pvNat pv) ∧
      (∀ n, pv = .value n → 1 ≤ n) := by
  obtain ⟨htxt, ptxt, hinfo, hne, hpct, hhost, hpvq, hbr⟩ := hostinfoOf_spec v6ok _ host pv h hpv
  have hgood := portOf_good (hpvq ▸ hpv)
  refine ⟨?_, ?_, ?_, ?_⟩
  · -- brackets
    unfold bracketsOk
    rcases rpartition_spec '@' auth with ⟨ui, hp, hs, _, hrp⟩ | ⟨hn, hrp⟩
    · rw [hrp] at hui hbr
      have huc := hui rfl
      simp only at huc hbr
      have hu1 : '[' ∉ ui := not_mem_of_all huc (by decide)
      have hu2 : ']' ∉ ui := not_mem_of_all huc (by decide)
      rcases hbr with ⟨h1, h2⟩ | ⟨r, hr, hht, hcb, hv⟩
      · have h1' : '[' ∉ hp := by simpa using h1
        have h2' : ']' ∉ hp := by simpa using h2
        subst hs
        simp [hu1, hu2, h1', h2']
      · subst hs hr
        have hcb' : ']' ∈ r := by simpa using hcb
        have hpa : partition '[' (ui ++ '@' :: '[' :: r) = (ui ++ ['@'], true, r) := by
          have : ui ++ '@' :: '[' :: r = (ui ++ ['@']) ++ '[' :: r := by simp
          rw [this]
          exact partition_append r (by simp [hu1])
        simp [hpa, hcb', partition_fst, ← hht, hv]
    · rw [hrp] at hbr
      simp only at hbr
      rcases hbr with ⟨h1, h2⟩ | ⟨r, hr, hht, hcb, hv⟩
      · have h1' : '[' ∉ auth := by simpa using h1
        have h2' : ']' ∉ auth := by simpa using h2
        simp [h1', h2']
      · subst hr
        have hcb' : ']' ∈ r := by simpa using hcb
        simp [partition_cons_eq, hcb', partition_fst, ← hht, hv]
  · unfold hostname hostinfo
    rw [hinfo]
    have : htxt.isEmpty = false := by cases htxt <;> simp_all
    simp [this, partition_notin hpct, hhost]
  · unfold port hostinfo
    rw [hinfo]
    rcases hgood with ⟨rfl, hab⟩ | ⟨hn0, hd, h1, h2, hval⟩
    · simp [hpvq, hab, pvNat]
    · have : ptxt.isEmpty = false := by cases ptxt <;> simp_all
      simp [this, hd, h2, hpvq, hval, pvNat]
  · intro n hn
    rcases hgood with ⟨_, hab⟩ | ⟨_, _, h1, _, hval⟩
    · rw [hpvq, hab] at hn; cases hn
    · rw [hpvq, hval] at hn; cases hn; exact h1

theorem defaults : Gen.defaultPortWs = 80 ∧ Gen.defaultPortWss = 443 := by decide

/-- a URL the Spec accepts: the staged model returns the Spec's target. -/
theorem hier_target (v6ok : Str → Bool) (secure : Bool) (auth tail : Str) (t : Target)
    (h : classifyHier v6ok secure auth tail = .target t) :
    parseHier v6ok secure (if secure then 443 else 80) auth tail = .ok t := by
  unfold classifyHier at h
  rcases hrp : rpartition '@' auth with ⟨ui, hasAt, hp⟩
  rw [hrp] at h
  dsimp only at h
  split at h
  · cases h
  split at h
  · cases h
  next hnh hui =>
  split at h
  · cases h
  · cases h
  next host pv hnb hhp =>
  split at h
  · next hchars =>
    have hpvb : pv ≠ .bad := fun e => hnb e
    have hui' : (rpartition '@' auth).2.1 = true → (rpartition '@' auth).1.all userinfoChar = true := by
      rw [hrp]; intro hat
      simp only at hat
      simp only [hat, Bool.true_and, Bool.not_eq_true', Bool.not_eq_false] at hui
      simpa using hui
    have hhp' : hostPort v6ok (rpartition '@' auth).2.2 = some (host, pv) := by rw [hrp]; exact hhp
    obtain ⟨hb, hh, hpo, hpos⟩ := authority_spec v6ok auth host pv hui' hhp' hpvb
    unfold parseHier
    simp only [hb, if_true, hh, hpo]
    simp only [Verdict.target.injEq] at h
    rw [← h]
    congr 1
    cases pv with
    | value n =>
      have := hpos n rfl
      have hn0 : (n == 0) = false := by simp; omega
      simp [pvNat, hn0, Spec.Url.resource]
    | absent => simp [pvNat, Spec.Url.resource]
    | bad => exact absurd rfl hpvb
  · cases h

open Model.Url in
/-- an authority without a host: `hostname` is None, whatever else holds. -/
theorem hier_refuse (v6ok : Str → Bool) (secure : Bool) (dflt : Nat) (auth tail : Str)
    (h : classifyHier v6ok secure auth tail = .refuse) :
    parseHier v6ok secure dflt auth tail = .error .valueError := by
  unfold classifyHier at h
  rcases hrp : rpartition '@' auth with ⟨ui, hasAt, hp⟩
  rw [hrp] at h
  dsimp only at h
  have hnone : hostname auth = none := by
    split at h
    · next hc =>
      unfold hostname hostinfo
      rw [hrp]
      simp only [Bool.or_eq_true, Bool.and_eq_true, beq_iff_eq] at hc
      rcases hc with he | ⟨hh, hd⟩
      · have : hp = [] := by simpa using he
        subst this
        simp [hostinfoOf, partition_nil]
      · cases hp with
        | nil => simp at hh
        | cons c ds =>
          simp only [List.head?_cons, Option.some.injEq] at hh
          subst hh
          have hd' : ds.all isDigitC = true := by simpa using hd
          have : '[' ∉ (':' :: ds) := by
            have := digits_no hd' (c := '[') (by decide)
            simp [this]
          simp [hostinfoOf, partition_notin this, partition_cons_eq]
    · split at h
      · cases h
      · split at h
        · cases h
        · cases h
        · split at h <;> cases h
  unfold parseHier
  split
  · simp [hnone]
  · rfl

theorem isDelim_eq : Spec.Url.isDelim = Model.Url.isDelim := by
  funext c; rfl

theorem prefix_slashes (rest : Str) (h : ∀ body, rest = '/' :: '/' :: body → False) :
    ("//".toList).isPrefixOf rest = false := by
  match rest with
  | [] => rfl
  | [c] => simp [List.isPrefixOf]
  | c :: d :: body =>
    by_cases hc : c = '/'
    · by_cases hd : d = '/'
      · subst hc hd; exact absurd rfl (h body)
      · simp [List.isPrefixOf, Ne.symm hd]
    · simp [List.isPrefixOf, Ne.symm hc]

theorem parseUrl_noslashes (v6ok : Str → Bool) (u : Str)
    (h : ("//".toList).isPrefixOf ((u.dropWhile (· != ':')).drop 1) = false) :
    Model.Url.parseUrl v6ok u = .error .valueError := by
  unfold Model.Url.parseUrl
  rw [url_shape.1]
  by_cases hc : ':' ∈ u
  · have hcon : u.contains ':' = true := by simpa using hc
    simp only [hcon, Bool.not_true, Bool.false_eq_true, if_false, split1_of_mem hc, h,
      Bool.not_false, if_true, Bool.true_and]
  · have hcon : u.contains ':' = false := by simpa using hc
    simp only [hcon, Bool.not_false, if_true]

end WS.Lemmas.Url
