/-
  WS.Lemmas.Url — partition / rpartition facts and the stage lemmas of C18_parse.
-/
import WS.Lemmas.Py
import WS.Spec.Rfc3986
import WS.Model.Url
import WS.Model.OpenSocket
namespace WS.Lemmas.Url
open WS WS.Py

end WS.Lemmas.Url
