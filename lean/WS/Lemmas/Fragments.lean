/-
  WS.Lemmas.Fragments — the receive loop with per-fragment delivery (`fire_cont_frame=True`):
  a run of control frames is absorbed (pongs written), then ONE data frame is returned as it is.
-/
import WS.Lemmas.Loop
namespace WS.Lemmas.Fragments
open WS WS.Model WS.Spec WS.Lemmas.RecvStrict WS.Lemmas.Frame WS.Lemmas.Parser WS.Lemmas.Stream WS.Lemmas.ShortWrites WS.Lemmas.Loop

/-- the key source after the pongs owed for `fs` have been written: one key per ping. -/
def keysAfter : List Bytes → List Frame → List Bytes
  | keys, [] => keys
  | keys, f :: rest => if f.opcode = 9 then keysAfter keys.tail rest else keysAfter keys rest

theorem pongsWire_append (a b : List Frame) : ∀ keys, pongsWire keys (a ++ b) = pongsWire keys a ++ pongsWire (keysAfter keys a) b := by
  induction a with
  | nil => intro keys; simp [pongsWire, keysAfter]
  | cons f rest ih =>
    intro keys
    simp only [List.cons_append, pongsWire, keysAfter]
    split
    · rw [ih, List.append_assoc]
    · rw [ih]

theorem keysAfter_append (a b : List Frame) : ∀ keys, keysAfter keys (a ++ b) = keysAfter (keysAfter keys a) b := by
  induction a with
  | nil => intro keys; simp [keysAfter]
  | cons f rest ih =>
    intro keys
    simp only [List.cons_append, keysAfter]
    split <;> rw [ih]

/-- **control prefix** — any run of pings (≤ 125 bytes) and pongs in front of the loop is absorbed: the loop
    continues from a state with the same reassembly fields, the pongs on the wire, the keys consumed. -/
theorem ctrl_prefix (cs : List Frame) (hc : ∀ f ∈ cs, isPing f ∨ isPong f) :
    ∀ (c : Conn) (wsc wsr : List WireFrame) (tail : Bytes) (fuel : Nat),
      Ready c → wsc.map frameOfWire = cs → (∀ w ∈ wsc, validate (frameOfWire w) c.skipUtf8 = none) →
      DecodesTo (pending c) (wsc ++ wsr) tail →
      ∃ c2, Conn.recvDataFrameLoop (fuel + cs.length) c false = Conn.recvDataFrameLoop fuel c2 false ∧
        Ready c2 ∧ DecodesTo (pending c2) wsr tail ∧ c2.fireCont = c.fireCont ∧ c2.contData = c.contData ∧
        c2.recving = c.recving ∧ c2.skipUtf8 = c.skipUtf8 ∧ c2.connected = c.connected ∧
        c2.sock.wire = c.sock.wire ++ pongsWire c.keys cs ∧ c2.keys = keysAfter c.keys cs := by
  obtain ⟨k0, k1, k2, k8, k9, k10, kmax⟩ := consts9
  induction cs with
  | nil =>
    intro c wsc wsr tail fuel hr hmap _ hd
    have : wsc = [] := by simpa using hmap
    subst this
    exact ⟨c, rfl, hr, hd, rfl, rfl, rfl, rfl, rfl, by simp [pongsWire], rfl⟩
  | cons f rest ih =>
    intro c wsc wsr tail fuel hr hmap hval hd
    cases wsc with
    | nil => simp at hmap
    | cons w ws' =>
      simp only [List.map_cons, List.cons.injEq] at hmap
      obtain ⟨hwf, hmap'⟩ := hmap
      obtain ⟨c1, e1, r1, d1, s1⟩ := step_recv c hr w (ws' ++ wsr) tail hd (hval w List.mem_cons_self)
      rw [hwf] at e1
      have hskip1 : c1.skipUtf8 = c.skipUtf8 := s1.2.2.2.1
      rcases hc f List.mem_cons_self with hp | hp
      · obtain ⟨hop, hfin, hlen⟩ := hp
        have hop16 : Gen.opcodePong ∈ Gen.opcodes := by decide
        obtain ⟨wp, c2, hfmt, e2, hwire2, hw2, sr2⟩ := send_ok c1 f.data Gen.opcodePong r1.writable hop16 (by omega)
        have hkeys2 := send_keys c1 f.data Gen.opcodePong wp hfmt
        rw [e2] at hkeys2
        simp only [] at hkeys2
        have hskip2 : c2.skipUtf8 = c.skipUtf8 := by rw [sr2.2.2.2.2.2.2.2.2.1, hskip1]
        obtain ⟨c', e', r', d', fc', cd', rc', sk', cn', wire', keys'⟩ := ih (fun g hg => hc g (List.mem_cons_of_mem _ hg))
          c2 ws' wsr tail fuel (ready_of_send r1 sr2 hw2) hmap'
          (by intro x hx; rw [hskip2]; exact hval x (List.mem_cons_of_mem _ hx))
          (by rw [pending_sameRecv sr2]; exact d1)
        refine ⟨c', ?_, r', d', ?_, ?_, ?_, by rw [sk', hskip2], ?_, ?_, ?_⟩
        · rw [List.length_cons, ← Nat.add_assoc]
          conv => lhs; unfold Conn.recvDataFrameLoop
          simp only [e1, hop, k0, k1, k2, k8, k9, k10, kmax]
          simp only [show ((9 : Nat) == 1) = false by decide, show ((9 : Nat) == 2) = false by decide,
            show ((9 : Nat) == 0) = false by decide, show ((9 : Nat) == 8) = false by decide,
            show ((9 : Nat) == 9) = true by decide, Bool.or_false, Bool.false_eq_true, if_false, if_true]
          have hl : f.data.length < 126 := by omega
          simp only [hl, if_true]
          unfold Conn.pong
          rw [e2]
          simp only []
          exact e'
        · rw [fc', sr2.2.2.2.2.2.2.2.1, s1.2.2.1]
        · rw [cd', sr2.2.2.2.2.2.1, s1.1]
        · rw [rc', sr2.2.2.2.2.2.2.1, s1.2.1]
        · rw [cn', sr2.2.2.2.2.2.2.2.2.2.1, s1.2.2.2.2.2.2.1]
        · rw [wire', hwire2, wire_sameLoop s1, hkeys2, s1.2.2.2.2.1]
          simp only [pongsWire, hop, if_true]
          rw [← s1.2.2.2.2.1, hfmt, List.append_assoc]
        · rw [keys', hkeys2, s1.2.2.2.2.1]
          simp [keysAfter, hop]
      · have hop : f.opcode = 10 := hp
        obtain ⟨c', e', r', d', fc', cd', rc', sk', cn', wire', keys'⟩ := ih (fun g hg => hc g (List.mem_cons_of_mem _ hg))
          c1 ws' wsr tail fuel r1 hmap'
          (by intro x hx; rw [hskip1]; exact hval x (List.mem_cons_of_mem _ hx)) d1
        refine ⟨c', ?_, r', d', by rw [fc', s1.2.2.1], by rw [cd', s1.1], by rw [rc', s1.2.1], by rw [sk', hskip1],
          by rw [cn', s1.2.2.2.2.2.2.1], ?_, ?_⟩
        · rw [List.length_cons, ← Nat.add_assoc]
          conv => lhs; unfold Conn.recvDataFrameLoop
          simp only [e1, hop, k0, k1, k2, k8, k9, k10, kmax]
          simp only [show ((10 : Nat) == 1) = false by decide, show ((10 : Nat) == 2) = false by decide,
            show ((10 : Nat) == 0) = false by decide, show ((10 : Nat) == 8) = false by decide,
            show ((10 : Nat) == 9) = false by decide, show ((10 : Nat) == 10) = true by decide,
            Bool.or_false, Bool.false_eq_true, if_false, if_true]
          exact e'
        · rw [wire', wire_sameLoop s1, s1.2.2.2.2.1]
          simp [pongsWire, hop]
        · rw [keys', s1.2.2.2.2.1]
          simp [keysAfter, hop]

/-! ## one fragment -/

/-- Spec: the in-message flag after a data frame. -/
def nextSt (st : Option Nat) (f : Frame) : Option Nat :=
  if f.fin = 1 then none else match st with | none => some f.opcode | some op => some op

/-- Spec: a data frame that is legal in the sequencing state `st` (RFC 6455 §5.4). -/
def FragOk (st : Option Nat) (f : Frame) : Prop :=
  (f.fin = 0 ∨ f.fin = 1) ∧ match st with | none => f.opcode = 1 ∨ f.opcode = 2 | some _ => f.opcode = 0

/-- state between calls with per-fragment delivery on: nothing is accumulated. -/
def FragInv (c : Conn) (st : Option Nat) : Prop :=
  c.fireCont = true ∧ c.contData = none ∧ c.recving = st ∧ (∀ op, st = some op → op = 1 ∨ op = 2)

theorem fragment_call (cs : List Frame) (hc : ∀ f ∈ cs, isPing f ∨ isPong f) (f : Frame) (st : Option Nat)
    (hf : FragOk st f) (c : Conn) (ws : List WireFrame) (tail : Bytes)
    (hr : Ready c) (hinv : FragInv c st) (hmap : ws.map frameOfWire = cs ++ [f])
    (hval : ∀ w ∈ ws, validate (frameOfWire w) c.skipUtf8 = none) (hd : DecodesTo (pending c) ws tail) :
    ∃ c', c.recvDataFrame false = (.ok (f.opcode, f), c') ∧ Ready c' ∧ pending c' = tail ∧
      FragInv c' (nextSt st f) ∧ c'.skipUtf8 = c.skipUtf8 ∧
      c'.sock.wire = c.sock.wire ++ pongsWire c.keys cs ∧ c'.keys = keysAfter c.keys cs := by
  obtain ⟨k0, k1, k2, k8, k9, k10, kmax⟩ := consts9
  obtain ⟨wsc, wsr, hws, hm1, hm2⟩ := List.map_eq_append_iff.mp hmap
  subst hws
  have hfu := WS.Lemmas.Loop.decodesTo_len hd
  have hsz := bytesOf_le_size c.sock.inp
  have hlen : (wsc ++ wsr).length = cs.length + 1 := by
    have := congrArg List.length hmap
    simpa using this
  obtain ⟨extra, hextra⟩ : ∃ extra, c.sock.size + c.buf.length + 2 = (extra + 1) + cs.length := by
    refine ⟨c.sock.size + c.buf.length + 2 - cs.length - 1, ?_⟩
    simp [pending] at hfu
    simp at hlen
    unfold Sock.size at *
    omega
  obtain ⟨c2, e2, r2, d2, fc2, cd2, rc2, sk2, _, wire2, keys2⟩ := ctrl_prefix cs hc c wsc wsr tail (extra + 1) hr hm1
    (fun w hw => hval w (List.mem_append_left _ hw)) hd
  obtain ⟨hfc, hcd, hrc, hstv⟩ := hinv
  cases wsr with
  | nil => simp at hm2
  | cons w wr =>
    simp only [List.map_cons, List.cons.injEq, List.map_eq_nil_iff] at hm2
    obtain ⟨hwf, hwr⟩ := hm2
    subst hwr
    obtain ⟨c1, e1, r1, d1, s1⟩ := step_recv c2 r2 w [] tail d2
      (by rw [sk2]; exact hval w (List.mem_append_right _ List.mem_cons_self))
    rw [hwf] at e1
    have hp1 : pending c1 = tail := by cases d1; rfl
    have hfc1 : c1.fireCont = true := by rw [s1.2.2.1, fc2]; exact hfc
    have hcd1 : c1.contData = none := by rw [s1.1, cd2]; exact hcd
    have hrc1 : c1.recving = st := by rw [s1.2.1, rc2]; exact hrc
    have hsb := contAdd_same c1 f
    have hsb2 := contExtract_same (c1.contAdd f) f
    obtain ⟨hfin, hopf⟩ := hf
    have hisdata : (f.opcode == Gen.opcodeText || f.opcode == Gen.opcodeBinary || f.opcode == Gen.opcodeCont) = true := by
      cases st with
      | none => rcases hopf with h | h <;> simp [h, k0, k1, k2]
      | some op => simp only [] at hopf; simp [hopf, k0, k1, k2]
    have hcv : c1.contValidate f = none := by
      unfold Conn.contValidate
      cases st with
      | none => rcases hopf with h | h <;> simp [hrc1, h, k0, k1, k2]
      | some op =>
        simp only [] at hopf
        rcases hstv op rfl with h | h <;> simp [hrc1, h, hopf, k0, k1, k2]
    have hcdA : (c1.contAdd f).contData = some (f.opcode, f.data) := by
      unfold Conn.contAdd
      simp only [hcd1]
      split <;> split <;> rfl
    have hrcA : (c1.contAdd f).recving = nextSt st f := by
      unfold Conn.contAdd nextSt
      simp only [hcd1]
      cases st with
      | none =>
        rcases hopf with h | h <;> rcases hfin with g | g <;> simp [h, g, k1, k2]
      | some op =>
        simp only [] at hopf
        rcases hfin with g | g <;> simp [hopf, g, k1, k2, hrc1]
    refine ⟨((c1.contAdd f).contExtract f).2, ?_, ready_sameButCont hsb2 (ready_sameButCont hsb r1),
      by rw [pending_sameButCont hsb2, pending_sameButCont hsb, hp1], ?_,
      by rw [hsb2.2.2.2.2.2.2.2.1, hsb.2.2.2.2.2.2.2.1, s1.2.2.2.1, sk2], ?_, ?_⟩
    · unfold Conn.recvDataFrame
      rw [hextra, e2]
      unfold Conn.recvDataFrameLoop
      simp only [e1, hisdata, if_true, hcv, hsb.2.2.2.2.2.2.2.2.1, hfc1, Bool.or_true]
      unfold Conn.contExtract
      simp only [hcdA, hsb.2.2.2.2.2.2.2.2.1, hfc1, Bool.not_true, Bool.false_and, Bool.false_eq_true, if_false]
    · refine ⟨by rw [hsb2.2.2.2.2.2.2.2.2.1, hsb.2.2.2.2.2.2.2.2.1]; exact hfc1, ?_, ?_, ?_⟩
      · unfold Conn.contExtract
        simp only [hcdA]
        split <;> rfl
      · have : ((c1.contAdd f).contExtract f).2.recving = (c1.contAdd f).recving := by
          unfold Conn.contExtract
          simp only [hcdA]
          split <;> rfl
        rw [this, hrcA]
      · intro op hop
        unfold nextSt at hop
        split at hop
        · cases hop
        · cases st with
          | none =>
            simp only [Option.some.injEq] at hop
            rw [← hop]; exact hopf
          | some o =>
            simp only [Option.some.injEq] at hop
            rw [← hop]; exact hstv o rfl
    · rw [hsb2.1, hsb.1, wire_sameLoop s1, wire2]
    · rw [hsb2.2.2.2.2.2.2.1, hsb.2.2.2.2.2.2.1, s1.2.2.2.2.1, keys2]

end WS.Lemmas.Fragments
