/-
  WS.Lemmas.HeadBoundary — the HTTP head reader consumes exactly the head: a prefix of the byte stream that ends
  with the line feed of the first blank line, one byte per transport read, and nothing of what follows.
-/
import WS.Lemmas.Http
namespace WS.Lemmas.HeadBoundary
open WS WS.PyH2 WS.H2 WS.Model.Http

/-- `recv_line` returning a line has taken exactly the bytes of that line: a run of byte events ending with LF (the
    first LF), one read per byte, nothing else touched. -/
theorem recvLineAux_ok (inp : List HEv) : ∀ (tail : Tail) (acc : Bytes) (n : Nat) (l : Bytes) (rest : List HEv × Tail) (k : Nat),
    recvLineAux inp tail acc n = (.ok l, rest, k) →
    ∃ bs : Bytes, inp = bs.map .byte ++ rest.1 ∧ l = acc.reverse ++ bs ∧ k = n + bs.length ∧ rest.2 = tail ∧
      bs.getLast? = some 10 ∧ (10 : UInt8) ∉ bs.dropLast := by
  induction inp with
  | nil => intro tail acc n l rest k h; simp only [recvLineAux] at h; cases h
  | cons ev r ih =>
    intro tail acc n l rest k h
    cases ev with
    | byte b =>
      simp only [recvLineAux] at h
      split at h
      · rename_i hb
        cases h
        exact ⟨[b], by simp, by simp, by simp, rfl, by simp [hb], by simp⟩
      · rename_i hb
        obtain ⟨bs, h1, h2, h3, h4, h5, h6⟩ := ih _ _ _ _ _ _ h
        refine ⟨b :: bs, by simp [h1], by simp [h2], by simp [h3]; omega, h4, ?_, ?_⟩
        · cases bs with
          | nil => simp at h5
          | cons x xs => simpa using h5
        · cases bs with
          | nil => simp at h5
          | cons x xs =>
            simp only [List.dropLast_cons₂, List.mem_cons, not_or]
            exact ⟨fun hh => hb hh.symm, h6⟩
    | timeout => simp only [recvLineAux] at h; cases h
    | reset => simp only [recvLineAux] at h; cases h

/-- the whole loop: on success the transport has lost exactly a byte prefix `pre`, read one byte at a time; `pre` ends
    with LF; and the last line read is the one that ended the head (it strips to nothing). -/
theorem readLoop_ok (fuel : Nat) : ∀ (s : Sock) (h : Head) (n : Nat) (h' : Head) (s' : Sock) (k : Nat),
    readLoop fuel s h n = (.ok h', s', k) →
    ∃ pre : Bytes, s.inp = pre.map .byte ++ s'.inp ∧ k = n + pre.length ∧ s'.tail = s.tail ∧ s'.sendsLeft = s.sendsLeft ∧
      pre.getLast? = some 10 := by
  induction fuel with
  | zero => intro s h n h' s' k hr; simp only [readLoop] at hr; cases hr
  | succ f ih =>
    intro s h n h' s' k hr
    simp only [readLoop] at hr
    cases hl : recvLine s with
    | mk r rest =>
      obtain ⟨s1, k1⟩ := rest
      rw [hl] at hr
      cases r with
      | error e => simp only [] at hr; cases hr
      | ok raw =>
        simp only [] at hr
        -- what recv_line took
        unfold recvLine at hl
        cases hq : recvLineAux s.inp s.tail [] 0 with
        | mk r2 rest2 =>
          obtain ⟨it, k2⟩ := rest2
          obtain ⟨inp2, tail2⟩ := it
          rw [hq] at hl
          simp only [Prod.mk.injEq] at hl
          obtain ⟨e1, e2, e3⟩ := hl
          subst e1
          obtain ⟨bs, b1, b2, b3, b4, b5, _⟩ := recvLineAux_ok s.inp s.tail [] 0 raw (inp2, tail2) k2 hq
          simp only [] at b1 b4
          have hs1inp : s1.inp = inp2 := by rw [← e2]
          have hs1tail : s1.tail = s.tail := by rw [← e2]; exact b4
          have hs1sl : s1.sendsLeft = s.sendsLeft := by rw [← e2]
          cases hstep : headerStep h raw with
          | done =>
            rw [hstep] at hr
            simp only [Prod.mk.injEq, Except.ok.injEq] at hr
            obtain ⟨_, e4, e5⟩ := hr
            subst e4
            refine ⟨bs, by rw [hs1inp]; exact b1, by rw [← e5, ← e3, b3]; omega, hs1tail, hs1sl, b5⟩
          | raise e => rw [hstep] at hr; simp only [] at hr; cases hr
          | cont hd =>
            rw [hstep] at hr
            simp only [] at hr
            obtain ⟨pre, p1, p2, p3, p4, p5⟩ := ih s1 hd (n + k1) h' s' k hr
            refine ⟨bs ++ pre, ?_, ?_, by rw [p3, hs1tail], by rw [p4, hs1sl], ?_⟩
            · rw [b1, ← hs1inp, p1]; simp
            · rw [p2, ← e3, b3]; simp; omega
            · cases pre with
              | nil => simp at p5
              | cons x xs => simp [List.getLast?_append, p5]

end WS.Lemmas.HeadBoundary
