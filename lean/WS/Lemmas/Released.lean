/-
  WS.Lemmas.Released — once `self.sock is None`, no operation touches a transport:
  every receive/send path leaves the socket record (script, bytes written, call counter)
  exactly as it was, and the object stays released.
-/
import WS.Model.Conn
namespace WS.Lemmas.Released
open WS WS.Model

/-- "nothing of the transport was touched and the object is still released". -/
def Rel (c c' : Conn) : Prop := c'.sock = c.sock ∧ c'.hasSock = false

theorem sockRecv_released (c : Conn) (n : Nat) (h : c.hasSock = false) : c.sockRecv n = (.error .closed, c) := by
  simp [Conn.sockRecv, h]

theorem sockSend_released (c : Conn) (d : Bytes) (h : c.hasSock = false) : c.sockSend d = (.error .closed, c) := by
  simp [Conn.sockSend, h]

theorem recvStrictLoop_released (fuel : Nat) (c : Conn) (n : Nat) (h : c.hasSock = false) :
    Rel c (Conn.recvStrictLoop fuel c n).2 ∧
    ((Conn.recvStrictLoop fuel c n).1 = none ∨ (Conn.recvStrictLoop fuel c n).1 = some .closed ∨
     (Conn.recvStrictLoop fuel c n).1 = some (.internal "OutOfFuel")) := by
  cases fuel with
  | zero => simp [Conn.recvStrictLoop, Rel, h]
  | succ f =>
    unfold Conn.recvStrictLoop
    by_cases hb : c.buf.length ≥ n
    · simp [hb, Rel, h]
    · simp [hb, sockRecv_released c _ h, Rel, h]

theorem recvStrict_released (c : Conn) (n : Nat) (h : c.hasSock = false) :
    Rel c (c.recvStrict n).2 := by
  unfold Conn.recvStrict
  have := (recvStrictLoop_released (c.sock.size + 1) c n h).1
  generalize Conn.recvStrictLoop (c.sock.size + 1) c n = r at this
  obtain ⟨e, c'⟩ := r
  cases e with
  | none => simpa [Rel] using this
  | some e => simpa [Rel] using this

theorem Rel.trans {a b c : Conn} (h1 : Rel a b) (h2 : Rel b c) : Rel a c := by
  unfold Rel at *; exact ⟨h2.1.trans h1.1, h2.2⟩

theorem recvHeader_released (c : Conn) (h : c.hasSock = false) : Rel c c.recvHeader.2 := by
  unfold Conn.recvHeader
  have := recvStrict_released c 2 h
  generalize c.recvStrict 2 = r at this
  obtain ⟨e, c'⟩ := r
  cases e <;> simpa [Rel] using this

theorem recvLength_released (c : Conn) (hd : Hdr) (h : c.hasSock = false) : Rel c (c.recvLength hd).2 := by
  unfold Conn.recvLength
  simp only []
  split
  · have := recvStrict_released c 2 h
    generalize c.recvStrict 2 = r at this
    obtain ⟨e, c'⟩ := r
    cases e <;> simpa [Rel] using this
  · split
    · have := recvStrict_released c 8 h
      generalize c.recvStrict 8 = r at this
      obtain ⟨e, c'⟩ := r
      cases e <;> simpa [Rel] using this
    · simp [Rel, h]

theorem recvMask_released (c : Conn) (hd : Hdr) (h : c.hasSock = false) : Rel c (c.recvMask hd).2 := by
  unfold Conn.recvMask
  split
  · have := recvStrict_released c 4 h
    generalize c.recvStrict 4 = r at this
    obtain ⟨e, c'⟩ := r
    cases e <;> simpa [Rel] using this
  · simp [Rel, h]

theorem recvFrame_released (c : Conn) (h : c.hasSock = false) : Rel c c.recvFrame.2 := by
  unfold Conn.recvFrame
  -- stage 1
  have s1 : Rel c (if c.hdr.isNone then c.recvHeader else (none, c)).2 := by
    split
    · exact recvHeader_released c h
    · simp [Rel, h]
  generalize (if c.hdr.isNone then c.recvHeader else (none, c)) = r1 at s1
  obtain ⟨e1, c1⟩ := r1
  simp only []
  cases e1 with
  | some e => simpa using s1
  | none =>
    simp only []
    cases hh : c1.hdr with
    | none => simpa using s1
    | some hd =>
      simp only []
      have h1 : c1.hasSock = false := s1.2
      have s2 : Rel c1 (if c1.len.isNone then c1.recvLength hd else (none, c1)).2 := by
        split
        · exact recvLength_released c1 hd h1
        · simp [Rel, h1]
      generalize (if c1.len.isNone then c1.recvLength hd else (none, c1)) = r2 at s2
      obtain ⟨e2, c2⟩ := r2
      simp only []
      cases e2 with
      | some e => exact Rel.trans s1 (by simpa using s2)
      | none =>
        simp only []
        have h2 : c2.hasSock = false := s2.2
        have s3 : Rel c2 (if c2.maskv.isNone then c2.recvMask hd else (none, c2)).2 := by
          split
          · exact recvMask_released c2 hd h2
          · simp [Rel, h2]
        generalize (if c2.maskv.isNone then c2.recvMask hd else (none, c2)) = r3 at s3
        obtain ⟨e3, c3⟩ := r3
        simp only []
        cases e3 with
        | some e => exact Rel.trans s1 (Rel.trans s2 (by simpa using s3))
        | none =>
          simp only []
          have h3 : c3.hasSock = false := s3.2
          have s4 := recvStrict_released c3 (c2.len.getD 0) h3
          generalize c3.recvStrict (c2.len.getD 0) = r4 at s4
          obtain ⟨e4, c4⟩ := r4
          have s123 := Rel.trans s1 (Rel.trans s2 s3)
          cases e4 with
          | error e => exact Rel.trans s123 (by simpa using s4)
          | ok payload =>
            simp only []
            have : Rel c { c4 with hdr := none, len := none, maskv := none } := by
              have := Rel.trans s123 s4
              simpa [Rel] using this
            split <;> simpa using this

theorem sendLoop_released (fuel : Nat) (c : Conn) (d : Bytes) (h : c.hasSock = false) :
    Rel c (Conn.sendLoop fuel c d).2 := by
  cases fuel with
  | zero => simp [Conn.sendLoop, Rel, h]
  | succ f =>
    unfold Conn.sendLoop
    by_cases hd : d.isEmpty
    · simp [hd, Rel, h]
    · simp [hd, sockSend_released c d h, Rel, h]

theorem sendFrame_released (c : Conn) (f : Frame) (h : c.hasSock = false) : Rel c (c.sendFrame f).2 := by
  unfold Conn.sendFrame
  simp only []
  split
  · simp [Rel, h]
  · rename_i data _
    split
    · rename_i e c' heq
      have := sendLoop_released (data.length + 1) (if f.mask != 0 then { c with keys := c.keys.tail, keyDraws := c.keyDraws + 1 } else c) data
        (by split <;> simp [h])
      rw [heq] at this
      have hb : Rel c (if f.mask != 0 then { c with keys := c.keys.tail, keyDraws := c.keyDraws + 1 } else c) := by
        split <;> simp [Rel, h]
      exact Rel.trans hb this
    · rename_i c' heq
      have := sendLoop_released (data.length + 1) (if f.mask != 0 then { c with keys := c.keys.tail, keyDraws := c.keyDraws + 1 } else c) data
        (by split <;> simp [h])
      rw [heq] at this
      have hb : Rel c (if f.mask != 0 then { c with keys := c.keys.tail, keyDraws := c.keyDraws + 1 } else c) := by
        split <;> simp [Rel, h]
      exact Rel.trans hb this

/-- sending anything non-empty-framed on a released object raises CLOSED (when the frame formats). -/
theorem send_released_closed (c : Conn) (p : Bytes) (op : Nat) (h : c.hasSock = false)
    (hfmt : ∀ key, ∃ w, format (createFrame p op) key = .ok w ∧ w ≠ []) :
    (c.send p op).1 = .error .closed := by
  unfold Conn.send Conn.sendFrame
  simp only []
  obtain ⟨w, hw, hne⟩ := hfmt (c.keys.headD [0, 0, 0, 0])
  rw [hw]
  simp only []
  have hm : (createFrame p op).mask = 1 := rfl
  simp only [hm]
  have hnil : w.isEmpty = false := by
    cases w with
    | nil => exact absurd rfl hne
    | cons a b => rfl
  simp [Conn.sendLoop, hnil, Conn.sockSend, h]

theorem sendClose_released (c : Conn) (s : Int) (r : Bytes) (h : c.hasSock = false) : Rel c (c.sendClose s r).2 := by
  unfold Conn.sendClose
  split
  · simp [Rel, h]
  · have := sendFrame_released { c with connected := false } (createFrame (beN 2 s.toNat ++ r) Gen.opcodeClose) (by simpa using h)
    simpa [Rel, Conn.send] using this

theorem contExtract_sock (c : Conn) (f : Frame) : (c.contExtract f).2.sock = c.sock ∧ (c.contExtract f).2.hasSock = c.hasSock := by
  unfold Conn.contExtract
  split
  · simp
  · simp only []
    split <;> simp

theorem contAdd_sock (c : Conn) (f : Frame) : (c.contAdd f).sock = c.sock ∧ (c.contAdd f).hasSock = c.hasSock := by
  unfold Conn.contAdd
  simp only []
  split <;> split <;> (try split) <;> simp

theorem recvDataFrameLoop_released (fuel : Nat) (cf : Bool) : ∀ c : Conn, c.hasSock = false →
    Rel c (Conn.recvDataFrameLoop fuel c cf).2 := by
  induction fuel with
  | zero => intro c h; simp [Conn.recvDataFrameLoop, Rel, h]
  | succ n ih =>
    intro c h
    unfold Conn.recvDataFrameLoop
    have s1 := recvFrame_released c h
    generalize c.recvFrame = r1 at s1
    obtain ⟨e1, c1⟩ := r1
    have h1 : c1.hasSock = false := s1.2
    cases e1 with
    | error e => simpa using s1
    | ok f =>
      simp only []
      split
      · -- data frame
        split
        · simpa using s1
        · have ha := contAdd_sock c1 f
          have hA : Rel c (c1.contAdd f) := ⟨ha.1.trans s1.1, ha.2.trans h1⟩
          split
          · have he := contExtract_sock (c1.contAdd f) f
            exact ⟨he.1.trans hA.1, he.2.trans hA.2⟩
          · exact Rel.trans hA (ih _ hA.2)
      · split
        · -- close
          split
          · simpa using s1
          · have := sendClose_released ({ c1 with ownCloses := c1.ownCloses + 1 } : Conn) ((Gen.statusNormal : Nat) : Int) [] (by simpa using h1)
            generalize ({ c1 with ownCloses := c1.ownCloses + 1 } : Conn).sendClose ((Gen.statusNormal : Nat) : Int) [] = r at this
            obtain ⟨e, c2⟩ := r
            have hb : Rel c1 ({ c1 with ownCloses := c1.ownCloses + 1 } : Conn) := ⟨rfl, by simpa using h1⟩
            cases e <;> exact Rel.trans s1 (Rel.trans hb (by simpa using this))
        · split
          · -- ping
            split
            · have := sendFrame_released c1 (createFrame f.data Gen.opcodePong) h1
              unfold Conn.pong Conn.send
              generalize c1.sendFrame (createFrame f.data Gen.opcodePong) = r at this
              obtain ⟨e, c2⟩ := r
              cases e with
              | error e => exact Rel.trans s1 (by simpa using this)
              | ok v =>
                simp only []
                split
                · exact Rel.trans s1 (by simpa using this)
                · have h2 : Rel c c2 := Rel.trans s1 (by simpa using this)
                  exact Rel.trans h2 (ih _ h2.2)
            · simpa using s1
          · split
            · split
              · simpa using s1
              · exact Rel.trans s1 (ih _ h1)
            · exact Rel.trans s1 (ih _ h1)

end WS.Lemmas.Released
