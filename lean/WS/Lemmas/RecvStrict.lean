/-
  WS.Lemmas.RecvStrict — `frame_buffer.recv_strict` over an arbitrary chunking of the byte stream:
  with at least `n` bytes pending it returns exactly the next `n` bytes and removes exactly those,
  whatever the chunk boundaries; every size it asks of the transport is at most the cap; the fuel
  the model passes is always enough (each iteration consumes at least one byte).
-/
import WS.Model.Conn
namespace WS.Lemmas.RecvStrict
open WS WS.Model

/-- a transport made of non-empty byte chunks only (no timeout, no end of stream yet). -/
def Chunks (inp : List TEv) : Prop := ∀ e ∈ inp, ∃ bs, e = TEv.chunk bs ∧ bs ≠ []

/-- the bytes a transport will deliver. -/
def bytesOf : List TEv → Bytes
  | [] => []
  | .chunk bs :: rest => bs ++ bytesOf rest
  | _ :: rest => bytesOf rest

/-- everything not yet handed to the parser's caller: buffered + still in the transport. -/
def pending (c : Conn) : Bytes := c.buf ++ bytesOf c.sock.inp

/-- an open socket on a connection that still holds it. -/
def Live (c : Conn) : Prop := c.hasSock = true ∧ c.sock.closed = false

/-- what `recv_strict` and the socket read leave alone. -/
def SameRest (c c' : Conn) : Prop :=
  c'.hdr = c.hdr ∧ c'.len = c.len ∧ c'.maskv = c.maskv ∧ c'.contData = c.contData ∧ c'.recving = c.recving ∧
  c'.fireCont = c.fireCont ∧ c'.skipUtf8 = c.skipUtf8 ∧ c'.keys = c.keys ∧ c'.keyDraws = c.keyDraws ∧
  c'.connected = c.connected ∧ c'.sock.sent = c.sock.sent ∧ c'.sock.tail = c.sock.tail ∧
  c'.sock.accepts = c.sock.accepts ∧ c'.sock.accI = c.sock.accI ∧ c'.sock.sendFailAt = c.sock.sendFailAt ∧
  c'.sock.sendCalls = c.sock.sendCalls ∧ c'.sock.timeoutMs = c.sock.timeoutMs ∧ c'.sock.clock = c.sock.clock

theorem SameRest.rfl' (c : Conn) : SameRest c c := by simp [SameRest]

theorem SameRest.trans {a b c : Conn} (h1 : SameRest a b) (h2 : SameRest b c) : SameRest a c := by
  unfold SameRest at *
  obtain ⟨a1, a2, a3, a4, a5, a6, a7, a8, a9, a10, a11, a12, a13, a14, a15, a16, a17, a18⟩ := h1
  obtain ⟨b1, b2, b3, b4, b5, b6, b7, b8, b9, b10, b11, b12, b13, b14, b15, b16, b17, b18⟩ := h2
  refine ⟨?_, ?_, ?_, ?_, ?_, ?_, ?_, ?_, ?_, ?_, ?_, ?_, ?_, ?_, ?_, ?_, ?_, ?_⟩ <;> simp [*]

theorem chunks_tail {e : TEv} {rest : List TEv} (h : Chunks (e :: rest)) : Chunks rest :=
  fun x hx => h x (List.mem_cons_of_mem _ hx)

/-- one socket read from a chunk transport: a non-empty prefix of the first chunk. -/
theorem sock_recv_chunk (fuel : Nat) (s : Sock) (n : Nat) (bs : Bytes) (rest : List TEv)
    (hinp : s.inp = .chunk bs :: rest) (hne : bs ≠ []) (hc : s.closed = false) (hn : 0 < n) :
    ∃ s', s.recv (fuel + 1) n = (.data (bs.take n), s') ∧ bs.take n ≠ [] ∧
      bytesOf s.inp = bs.take n ++ bytesOf s'.inp ∧
      (Chunks s.inp → Chunks s'.inp) ∧ s'.closed = false ∧
      s'.sent = s.sent ∧ s'.tail = s.tail ∧ s'.accepts = s.accepts ∧ s'.accI = s.accI ∧
      s'.sendFailAt = s.sendFailAt ∧ s'.sendCalls = s.sendCalls ∧ s'.timeoutMs = s.timeoutMs ∧ s'.clock = s.clock ∧
      s'.recvSizes = n :: s.recvSizes := by
  have hemp : bs.isEmpty = false := by
    cases bs with
    | nil => exact absurd rfl hne
    | cons a b => rfl
  have htake : bs.take n ≠ [] := by
    cases bs with
    | nil => exact absurd rfl hne
    | cons a b =>
      cases n with
      | zero => omega
      | succ k => simp
  unfold Sock.recv
  simp only [hc, hinp, hemp]
  refine ⟨_, rfl, htake, ?_, ?_, by simp [hc], by simp, by simp, by simp, by simp, by simp, by simp, by simp, by simp, by simp⟩
  · simp only [bytesOf]
    by_cases hd : (bs.drop n).isEmpty
    · have : bs.drop n = [] := by simpa using hd
      simp only [hd, if_true]
      have e : bs = bs.take n := by
        conv => lhs; rw [← List.take_append_drop n bs, this]
        simp
      rw [← e]
    · simp only [hd]
      simp only [Bool.false_eq_true, if_false, bytesOf]
      rw [← List.append_assoc, List.take_append_drop]
  · intro hch
    by_cases hd : (bs.drop n).isEmpty
    · simp only [hd, if_true]
      exact chunks_tail hch
    · simp only [hd]
      simp only [Bool.false_eq_true, if_false]
      intro x hx
      simp at hx
      rcases hx with hx | hx
      · exact ⟨bs.drop n, hx, by simpa using hd⟩
      · exact hch x (List.mem_cons_of_mem _ hx)

theorem bytesOf_nil_of_chunks_nil : bytesOf [] = [] := rfl

theorem conn_sockRecv_chunk (c : Conn) (n : Nat) (hl : Live c) (hch : Chunks c.sock.inp)
    (hne : bytesOf c.sock.inp ≠ []) (hn : 0 < n) :
    ∃ d c', c.sockRecv n = (.ok d, c') ∧ d ≠ [] ∧ d.length ≤ n ∧
      bytesOf c.sock.inp = d ++ bytesOf c'.sock.inp ∧ c'.buf = c.buf ∧ Live c' ∧ Chunks c'.sock.inp ∧
      SameRest c c' ∧ c'.sock.recvSizes = n :: c.sock.recvSizes := by
  obtain ⟨h1, h2⟩ := hl
  cases hinp : c.sock.inp with
  | nil => rw [hinp] at hne; exact absurd rfl hne
  | cons e rest =>
    obtain ⟨bs, he, hbs⟩ := hch e (by rw [hinp]; exact List.mem_cons_self)
    subst he
    obtain ⟨s', hr, hd, hb, hc', hcl, g1, g2, g3, g4, g5, g6, g7, g8, g9⟩ :=
      sock_recv_chunk (rest.length + 1) c.sock n bs rest hinp hbs h2 hn
    have hlen : c.sock.inp.length + 1 = rest.length + 1 + 1 := by rw [hinp]; simp
    unfold Conn.sockRecv
    simp only [h1, Bool.not_true, Bool.false_eq_true, if_false]
    rw [hlen, hr]
    refine ⟨bs.take n, _, rfl, hd, by simp [List.length_take]; omega, ?_, rfl, ⟨by simp, by simpa using hcl⟩, hc' hch, ?_, g9⟩
    · rw [← hinp]; exact hb
    · simp [SameRest, g1, g2, g3, g4, g5, g6, g7, g8]

theorem SameRest.buf_update (c : Conn) (b : Bytes) : SameRest c { c with buf := b } := by simp [SameRest]

/-- all sizes asked of the transport since `c` are at most the cap. -/
def SizesOk (c c' : Conn) : Prop := ∀ x ∈ c'.sock.recvSizes, x ∈ c.sock.recvSizes ∨ x ≤ Gen.recvCap

theorem SizesOk.rfl' (c : Conn) : SizesOk c c := fun x hx => Or.inl hx

theorem SizesOk.trans {a b c : Conn} (h1 : SizesOk a b) (h2 : SizesOk b c) : SizesOk a c := by
  intro x hx
  rcases h2 x hx with h | h
  · exact h1 x h
  · exact Or.inr h

theorem recvStrictLoop_avail (fuel : Nat) : ∀ (c : Conn) (n : Nat), Live c → Chunks c.sock.inp →
    n ≤ (pending c).length → (bytesOf c.sock.inp).length < fuel →
    ∃ c', Conn.recvStrictLoop fuel c n = (none, c') ∧ n ≤ c'.buf.length ∧ pending c' = pending c ∧
      Live c' ∧ Chunks c'.sock.inp ∧ SameRest c c' ∧ SizesOk c c' := by
  induction fuel with
  | zero => intro c n _ _ _ h; omega
  | succ f ih =>
    intro c n hl hch hav hfu
    unfold Conn.recvStrictLoop
    by_cases hb : c.buf.length ≥ n
    · simp only [hb, if_true]
      exact ⟨c, rfl, hb, rfl, hl, hch, SameRest.rfl' c, SizesOk.rfl' c⟩
    · simp only [hb, if_false]
      have hne : bytesOf c.sock.inp ≠ [] := by
        intro h0
        simp [pending, h0] at hav
        omega
      have hcap : 0 < Gen.recvCap := by decide
      have hpos : 0 < min Gen.recvCap (n - c.buf.length) := by omega
      obtain ⟨d, c1, hr, hd, hdl, hbytes, hbuf, hl1, hch1, hsr, hsz⟩ :=
        conn_sockRecv_chunk c (min Gen.recvCap (n - c.buf.length)) hl hch hne hpos
      simp only [hr]
      have hdpos : 0 < d.length := by
        cases d with
        | nil => exact absurd rfl hd
        | cons a b => simp
      have hlen : (bytesOf c.sock.inp).length = d.length + (bytesOf c1.sock.inp).length := by
        rw [hbytes]; simp
      have hpend : pending { c1 with buf := c1.buf ++ d } = pending c := by
        simp [pending, hbuf, hbytes]
      obtain ⟨c2, h2, hn2, hp2, hl2, hch2, hsr2, hsz2⟩ :=
        ih { c1 with buf := c1.buf ++ d } n (by simpa [Live] using hl1) (by simpa using hch1)
          (by rw [hpend]; exact hav) (by simp; omega)
      refine ⟨c2, h2, hn2, hp2.trans hpend, hl2, hch2, ?_, ?_⟩
      · exact SameRest.trans hsr (SameRest.trans (SameRest.buf_update c1 _) hsr2)
      · intro x hx
        rcases hsz2 x hx with h | h
        · simp only [] at h
          rw [hsz] at h
          simp at h
          rcases h with h | h
          · right; rw [h]; omega
          · left; exact h
        · right; exact h

theorem bytesOf_le_size (inp : List TEv) : (bytesOf inp).length ≤ (inp.map evSize).sum := by
  induction inp with
  | nil => simp [bytesOf]
  | cons e rest ih =>
    cases e <;> simp [bytesOf, evSize] <;> omega

/-- **recv_strict, bytes available** — on a live chunk transport holding at least `n` pending bytes,
    `recv_strict(n)` returns exactly the next `n` pending bytes and removes exactly those. -/
theorem recvStrict_avail (c : Conn) (n : Nat) (hl : Live c) (hch : Chunks c.sock.inp)
    (hav : n ≤ (pending c).length) :
    ∃ c', c.recvStrict n = (.ok ((pending c).take n), c') ∧ pending c' = (pending c).drop n ∧
      Live c' ∧ Chunks c'.sock.inp ∧ SameRest c c' ∧ SizesOk c c' := by
  have hfu : (bytesOf c.sock.inp).length < c.sock.size + 1 := by
    have := bytesOf_le_size c.sock.inp
    unfold Sock.size; omega
  obtain ⟨c1, h1, hn1, hp1, hl1, hch1, hsr1, hsz1⟩ := recvStrictLoop_avail _ c n hl hch hav hfu
  unfold Conn.recvStrict
  rw [h1]
  simp only []
  refine ⟨{ c1 with buf := c1.buf.drop n }, ?_, ?_, by simpa [Live] using hl1, by simpa using hch1, ?_, ?_⟩
  · rw [← hp1]
    simp [pending, List.take_append_of_le_length hn1]
  · rw [← hp1]
    simp [pending, List.drop_append_of_le_length hn1]
  · exact SameRest.trans hsr1 (SameRest.buf_update c1 _)
  · exact hsz1

end WS.Lemmas.RecvStrict
