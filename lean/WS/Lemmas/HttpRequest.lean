/-
  WS.Lemmas.HttpRequest — helper lemmas for C10: the Spec grammar reads back what
  `"\r\n".join(lines)` wrote.  Core Lean only.
-/
import WS.Spec.HttpRequest
import WS.Lemmas.Base64
import WS.Model.Handshake
namespace WS.Lemmas.HttpRequest
open WS WS.PyH2 WS.Spec.Http

theorem breakAt_append (sep : Char) (a b : Str) (h : sep ∉ a) :
    breakAt sep (a ++ sep :: b) = some (a, b) := by
  induction a with
  | nil => simp [breakAt]
  | cons c cs ih =>
    have hc : c ≠ sep := by intro e; apply h; simp [e]
    have hcs : sep ∉ cs := by intro e; apply h; simp [e]
    simp [breakAt, hc, ih hcs]

theorem trimOWS_space (v : Str) : trimOWS (' ' :: v) = trimOWS v := by
  simp [trimOWS, List.dropWhile, isOWS]

theorem isToken_no_colon {name : Str} (h : isToken name = true) : ':' ∉ name := by
  intro hm
  simp only [isToken, Bool.and_eq_true, List.all_eq_true] at h
  have := h.2 ':' hm
  revert this; decide

theorem parseHeaderLine_render (name v : Str) (hn : isToken name = true) (hv : noCRLF v = true) :
    parseHeaderLine (name ++ ": ".toList ++ v) = some (name, trimOWS v) := by
  have hb : breakAt ':' (name ++ ':' :: ' ' :: v) = some (name, ' ' :: v) :=
    breakAt_append ':' name (' ' :: v) (isToken_no_colon hn)
  have hv' : noCRLF (' ' :: v) = true := by
    simp only [noCRLF, List.all_cons, Bool.and_eq_true] at hv ⊢
    exact ⟨by decide, hv⟩
  have e : name ++ ": ".toList ++ v = name ++ ':' :: ' ' :: v := by simp
  rw [e]
  simp only [parseHeaderLine, hb, hn, hv', and_self, if_true, trimOWS_space]

theorem splitCRLF_noCR (l : Str) (h : '\r' ∉ l) : splitCRLF l = [l] := by
  fun_induction splitCRLF l with
  | case1 => rfl
  | case2 c => rfl
  | case3 c d rest hcd ih =>
    exfalso; apply h; simp [hcd.1]
  | case4 c d rest hcd f fs hs ih =>
    have h' : '\r' ∉ d :: rest := by intro e; apply h; simp [e]
    rw [ih h'] at hs
    simp at hs
    simp [hs.1, hs.2]
  | case5 c d rest hcd hs ih =>
    have h' : '\r' ∉ d :: rest := by intro e; apply h; simp [e]
    rw [ih h'] at hs
    simp at hs

theorem splitCRLF_append (l t : Str) (h : '\r' ∉ l) :
    splitCRLF (l ++ '\r' :: '\n' :: t) = l :: splitCRLF t := by
  induction l with
  | nil => simp [splitCRLF]
  | cons c cs ih =>
    have hc : c ≠ '\r' := by intro e; apply h; simp [e]
    have hcs : '\r' ∉ cs := by intro e; apply h; simp [e]
    have ih' := ih hcs
    cases hcs' : cs ++ '\r' :: '\n' :: t with
    | nil => simp at hcs'
    | cons d rest =>
      rw [hcs'] at ih'
      simp only [List.cons_append, hcs', splitCRLF, hc, false_and, if_false, ih']

theorem splitCRLF_join (ls : List Str) (h : ∀ l ∈ ls, '\r' ∉ l) (hne : ls ≠ []) :
    splitCRLF (join "\r\n".toList ls) = ls := by
  induction ls with
  | nil => exact absurd rfl hne
  | cons x rest ih =>
    cases rest with
    | nil => simp [join, splitCRLF_noCR x (h x (by simp))]
    | cons y r =>
      have hx := h x (by simp)
      have hr : ∀ l ∈ y :: r, '\r' ∉ l := fun l hl => h l (by simp [hl])
      have e : join "\r\n".toList (x :: y :: r) = x ++ '\r' :: '\n' :: join "\r\n".toList (y :: r) := by
        simp [join]
      rw [e, splitCRLF_append x _ hx, ih hr (by simp)]

theorem parseHeaderLines_append (a b : List Str) (x y : List (Str × Str))
    (ha : parseHeaderLines a = some x) (hb : parseHeaderLines b = some y) :
    parseHeaderLines (a ++ b) = some (x ++ y) := by
  induction a generalizing x with
  | nil => simp [parseHeaderLines] at ha; subst ha; simpa using hb
  | cons l ls ih =>
    simp only [parseHeaderLines] at ha
    cases h1 : parseHeaderLine l with
    | none => simp [h1] at ha
    | some hd =>
      cases h2 : parseHeaderLines ls with
      | none => simp [h1, h2] at ha
      | some tl =>
        simp [h1, h2] at ha
        subst ha
        simp [parseHeaderLines, h1, ih tl h2]

theorem parseHeaderLines_single (l : Str) (nv : Str × Str) (h : parseHeaderLine l = some nv) :
    parseHeaderLines [l] = some [nv] := by
  simp [parseHeaderLines, h]

end WS.Lemmas.HttpRequest

/-! ### cleanliness (no CR / LF) of the pieces the request is made of -/

namespace WS.Lemmas.HttpRequest
open WS WS.PyH2 WS.H2 WS.Spec.Http

theorem noCRLF_append (a b : Str) : noCRLF (a ++ b) = (noCRLF a && noCRLF b) := by
  simp [noCRLF, List.all_append]

theorem noCRLF_cons (c : Char) (a : Str) : noCRLF (c :: a) = ((c != '\r' && c != '\n') && noCRLF a) := by
  simp [noCRLF]

theorem noCR_of_noCRLF {s : Str} (h : noCRLF s = true) : '\r' ∉ s := by
  intro hm
  simp only [noCRLF, List.all_eq_true] at h
  have := h '\r' hm
  revert this; decide

theorem noCRLF_of_forall {s : Str} (h : ∀ c ∈ s, c ≠ '\r' ∧ c ≠ '\n') : noCRLF s = true := by
  simp only [noCRLF, List.all_eq_true, Bool.and_eq_true, bne_iff_ne]
  exact h

theorem noCRLF_natRepr (n : Nat) : noCRLF (natRepr n) = true := by
  apply noCRLF_of_forall
  intro c hc
  have hd : c.isDigit = true := by
    have : c ∈ Nat.toDigits 10 n := by
      simpa [natRepr, Nat.toList_repr] using hc
    exact Nat.isDigit_of_mem_toDigits (by decide) (by decide) this
  simp only [Char.isDigit, Bool.and_eq_true, decide_eq_true_eq] at hd
  constructor
  · intro e; subst e; revert hd; decide
  · intro e; subst e; revert hd; decide

theorem b64Char_clean : ∀ n, n < 64 → (Base64.b64Char n ≠ '\r' ∧ Base64.b64Char n ≠ '\n') ∧
    isPySpace (Base64.b64Char n) = false := by decide

theorem encode_chars (bs : Bytes) :
    ∀ c ∈ Base64.encode bs, (c ≠ '\r' ∧ c ≠ '\n') ∧ isPySpace c = false := by
  have hb := fun (a : UInt8) => a.toNat_lt
  fun_induction Base64.encode bs with
  | case1 => simp
  | case2 a =>
    have ha := hb a
    intro c hc
    simp only [List.mem_cons, List.mem_nil_iff, or_false] at hc
    rcases hc with rfl | rfl | rfl | rfl
    · exact b64Char_clean _ (by omega)
    · exact b64Char_clean _ (by omega)
    · decide
    · decide
  | case3 a b =>
    have ha := hb a
    have hb' := hb b
    intro c hc
    simp only [List.mem_cons, List.mem_nil_iff, or_false] at hc
    rcases hc with rfl | rfl | rfl | rfl
    · exact b64Char_clean _ (by omega)
    · exact b64Char_clean _ (by omega)
    · exact b64Char_clean _ (by omega)
    · decide
  | case4 a b c rest ih =>
    have ha := hb a
    have hb' := hb b
    have hc' := hb c
    intro x hx
    simp only [List.mem_cons] at hx
    rcases hx with rfl | rfl | rfl | rfl | hx
    · exact b64Char_clean _ (by omega)
    · exact b64Char_clean _ (by omega)
    · exact b64Char_clean _ (by omega)
    · exact b64Char_clean _ (by omega)
    · exact ih x hx

theorem noCRLF_encode (bs : Bytes) : noCRLF (Base64.encode bs) = true :=
  noCRLF_of_forall (fun c hc => (encode_chars bs c hc).1)

theorem stripBy_id (p : Char → Bool) (s : Str) (h : ∀ c ∈ s, p c = false) : stripBy p s = s := by
  have h1 : ∀ t : Str, (∀ c ∈ t, p c = false) → t.dropWhile p = t := by
    intro t ht
    cases t with
    | nil => rfl
    | cons c cs => simp [List.dropWhile, ht c (by simp)]
  unfold stripBy rstripBy
  rw [h1 s h, h1 s.reverse (by intro c hc; exact h c (by simpa using hc))]
  simp

theorem createKey_eq (rand : Bytes) : Model.Handshake.createKey rand = Base64.encode rand := by
  unfold Model.Handshake.createKey strip
  exact stripBy_id _ _ (fun c hc => (encode_chars rand c hc).2)

theorem noCRLF_join (sep : Str) (parts : List Str) (hs : noCRLF sep = true)
    (hp : ∀ x ∈ parts, noCRLF x = true) : noCRLF (join sep parts) = true := by
  induction parts with
  | nil => rfl
  | cons x rest ih =>
    cases rest with
    | nil => simpa [join] using hp x (by simp)
    | cons y r =>
      have := ih (fun z hz => hp z (by simp [hz]))
      simp only [join, noCRLF_append, hs, hp x (by simp), this, Bool.and_self]

theorem noCRLF_bracketed (h : Str) (hh : noCRLF h = true) : noCRLF (bracketed h) = true := by
  unfold bracketed
  split
  · simp only [noCRLF_cons, noCRLF_append, hh]; decide
  · exact hh

theorem noCRLF_hostPort (u : UrlParts) (hh : noCRLF u.host = true) : noCRLF (hostPort u) = true := by
  unfold hostPort
  split
  · exact noCRLF_bracketed _ hh
  · simp only [noCRLF_append, noCRLF_cons, noCRLF_bracketed _ hh, noCRLF_natRepr]; decide

theorem hostport_eq (u : UrlParts) : Model.Handshake.hostport u.host u.port = hostPort u := by
  unfold Model.Handshake.hostport hostPort Model.Handshake.packHostname bracketed hasChar
  rfl

end WS.Lemmas.HttpRequest

/-! ### segment by segment: the model's lines parse to the Spec's expected fields -/

namespace WS.Lemmas.HttpRequest
open WS WS.PyH2 WS.H2 WS.Spec.Http WS.Model.Handshake

/-- custom header entries that make sense: list entries are header lines, dict keys are tokens and
    do not override the key / version the library generates. -/
def cleanHeader : HeaderOpt → Prop
  | .absent => True
  | .list l => ∀ line ∈ l, noCRLF line = true ∧ (parseHeaderLine line).isSome = true
  | .dict d => ∀ kv ∈ d, isToken kv.1 = true ∧ (∀ v, kv.2 = some v → noCRLF v = true)
      ∧ kv.1 ≠ "Sec-WebSocket-Key".toList ∧ kv.1 ≠ "Sec-WebSocket-Version".toList

/-- "no CR/LF in any component" (DESIGN §6 C10). -/
structure Clean (u : UrlParts) (o : Opts) (jar : Str) : Prop where
  resource : isTarget u.resource = true
  host : noCRLF u.host = true
  optHost : ∀ h, o.host = some h → noCRLF h = true
  origin : ∀ x, o.origin = some x → noCRLF x = true
  connection : ∀ x, o.connection = some x → noCRLF x = true
  subs : ∀ s ∈ o.subprotocols, noCRLF s = true
  cookie : ∀ x, o.cookie = some x → noCRLF x = true
  jar : noCRLF jar = true
  header : cleanHeader o.header

/-- the lines parse to the (normalised) fields and contain no CR. -/
def SegOK (lines : List Str) (raw : List (Str × Str)) : Prop :=
  parseHeaderLines lines = some (raw.map norm) ∧ ∀ l ∈ lines, '\r' ∉ l

theorem SegOK.nil : SegOK [] [] := ⟨rfl, by simp⟩

theorem SegOK.append {a b : List Str} {x y : List (Str × Str)} (h1 : SegOK a x) (h2 : SegOK b y) :
    SegOK (a ++ b) (x ++ y) := by
  refine ⟨?_, ?_⟩
  · rw [List.map_append]; exact parseHeaderLines_append a b _ _ h1.1 h2.1
  · intro l hl
    rcases List.mem_append.mp hl with h | h
    · exact h1.2 l h
    · exact h2.2 l h

theorem noCR_token {n : Str} (h : isToken n = true) : '\r' ∉ n := by
  intro hm
  simp only [isToken, Bool.and_eq_true, List.all_eq_true] at h
  have := h.2 '\r' hm
  revert this; decide

theorem SegOK.single (pre n v : Str) (hpre : pre = n ++ ": ".toList) (hn : isToken n = true)
    (hv : noCRLF v = true) : SegOK [pre ++ v] [(n, v)] := by
  subst hpre
  refine ⟨?_, ?_⟩
  · simp only [List.map, norm]
    exact parseHeaderLines_single _ _ (parseHeaderLine_render n v hn hv)
  · intro l hl
    simp only [List.mem_singleton] at hl
    subst hl
    intro hm
    simp only [List.mem_append] at hm
    rcases hm with (hm | hm) | hm
    · exact noCR_token hn hm
    · revert hm; decide
    · exact noCR_of_noCRLF hv hm

theorem truthy_eq (o : Option Str) : Model.Handshake.truthy o = nonEmpty o := rfl

theorem noCRLF_getD (o : Option Str) (d : Str) (ho : ∀ x, o = some x → noCRLF x = true)
    (hd : noCRLF d = true) : noCRLF ((nonEmpty o).getD d) = true := by
  unfold nonEmpty
  cases o with
  | none => simpa using hd
  | some s =>
    by_cases he : s.isEmpty
    · simpa [he] using hd
    · simpa [he] using ho s rfl

theorem seg_host (u : UrlParts) (o : Opts) (jar : Str) (c : Clean u o jar) :
    SegOK ["Upgrade: websocket".toList, hostLine u.host u.port o]
      [("Upgrade".toList, "websocket".toList), ("Host".toList, (nonEmpty o.host).getD (hostPort u))] := by
  have h1 : SegOK ["Upgrade: websocket".toList] [("Upgrade".toList, "websocket".toList)] :=
    SegOK.single "Upgrade: ".toList "Upgrade".toList "websocket".toList (by decide) (by decide) (by decide)
  have hv := noCRLF_getD o.host (hostPort u) c.optHost (noCRLF_hostPort u c.host)
  have h2 : SegOK [hostLine u.host u.port o] [("Host".toList, (nonEmpty o.host).getD (hostPort u))] := by
    have e : hostLine u.host u.port o = "Host: ".toList ++ (nonEmpty o.host).getD (hostPort u) := by
      unfold hostLine
      rw [truthy_eq, hostport_eq]
      cases nonEmpty o.host <;> rfl
    rw [e]
    exact SegOK.single "Host: ".toList "Host".toList _ (by decide) (by decide) hv
  exact SegOK.append h1 h2

theorem seg_origin (u : UrlParts) (o : Opts) (jar : Str) (c : Clean u o jar) :
    SegOK (originSeg (if u.secure then "wss" else "ws").toList u.host u.port o)
      (if o.suppressOrigin then []
       else [("Origin".toList, match o.origin with
               | some og => og
               | none => (if u.secure then "https://" else "http://").toList ++ hostPort u)]) := by
  unfold originSeg
  by_cases hs : o.suppressOrigin
  · simp only [hs, if_true]; exact SegOK.nil
  · simp only [hs, Bool.false_eq_true, if_false]
    cases ho : o.origin with
    | some og =>
      exact SegOK.single "Origin: ".toList "Origin".toList og (by decide) (by decide) (c.origin og ho)
    | none =>
      have hp := noCRLF_hostPort u c.host
      cases hsec : u.secure
      · have e : ("ws".toList = "wss".toList) = False := by decide
        simp only [Bool.false_eq_true, if_false, e, hostport_eq]
        have : "Origin: http://".toList ++ hostPort u = "Origin: ".toList ++ ("http://".toList ++ hostPort u) := by
          simp
        rw [this]
        exact SegOK.single "Origin: ".toList "Origin".toList _ (by decide) (by decide)
          (by rw [noCRLF_append, hp]; decide)
      · simp only [if_true, hostport_eq]
        have : "Origin: https://".toList ++ hostPort u = "Origin: ".toList ++ ("https://".toList ++ hostPort u) := by
          simp
        rw [this]
        exact SegOK.single "Origin: ".toList "Origin".toList _ (by decide) (by decide)
          (by rw [noCRLF_append, hp]; decide)

theorem version_text : natRepr Gen.wsVersion = "13".toList := by decide

theorem conn_named : Gen.h2ConnectionNamed = true := by decide

theorem seg_conn (u : UrlParts) (o : Opts) (jar : Str) (c : Clean u o jar) :
    SegOK [connLine o] [("Connection".toList, (nonEmpty o.connection).getD "Upgrade".toList)] := by
  have hv := noCRLF_getD o.connection "Upgrade".toList c.connection (by decide)
  have e : connLine o = "Connection: ".toList ++ (nonEmpty o.connection).getD "Upgrade".toList := by
    unfold connLine
    rw [truthy_eq, conn_named]
    cases nonEmpty o.connection <;> rfl
  rw [e]
  exact SegOK.single "Connection: ".toList "Connection".toList _ (by decide) (by decide) hv

theorem seg_sub (u : UrlParts) (o : Opts) (jar : Str) (c : Clean u o jar) :
    SegOK (subSeg o)
      (if o.subprotocols.isEmpty then []
       else [("Sec-WebSocket-Protocol".toList, join [','] o.subprotocols)]) := by
  unfold subSeg
  by_cases h : o.subprotocols.isEmpty
  · simp only [h, if_true]; exact SegOK.nil
  · simp only [h, Bool.false_eq_true, if_false]
    exact SegOK.single "Sec-WebSocket-Protocol: ".toList "Sec-WebSocket-Protocol".toList _ (by decide)
      (by decide) (noCRLF_join _ _ (by decide) c.subs)

theorem customSeg_eq (o : Opts) : customSeg o = customLines o.header := by
  unfold customSeg headerTruthy customLines
  cases o.header with
  | absent => simp
  | list l => cases l <;> simp
  | dict d => cases d <;> simp

theorem seg_custom (h : HeaderOpt) (c : cleanHeader h) : SegOK (customLines h) (customHeaders h) := by
  cases h with
  | absent => exact SegOK.nil
  | list l =>
    simp only [customLines, customHeaders]
    induction l with
    | nil => exact SegOK.nil
    | cons x xs ih =>
      have hx := c x (by simp)
      have hxs : cleanHeader (.list xs) := fun y hy => c y (by simp [hy])
      have h1 : SegOK [x] [(breakAt ':' x).getD (x, [])] := by
        refine ⟨?_, ?_⟩
        · have hp := hx.2
          unfold parseHeaderLine at hp
          cases hb : breakAt ':' x with
          | none => simp [hb] at hp
          | some nv =>
            obtain ⟨n, v⟩ := nv
            simp only [hb] at hp
            by_cases hcond : isToken n = true ∧ noCRLF v = true
            · simp [parseHeaderLines, parseHeaderLine, hb, hcond, norm]
            · simp [hcond] at hp
        · intro l hl
          simp only [List.mem_singleton] at hl
          subst hl
          exact noCR_of_noCRLF hx.1
      exact SegOK.append (a := [x]) h1 (ih hxs)
  | dict d =>
    simp only [customLines, customHeaders]
    induction d with
    | nil => exact SegOK.nil
    | cons kv rest ih =>
      have hkv := c kv (by simp)
      have hrest : cleanHeader (.dict rest) := fun y hy => c y (by simp [hy])
      obtain ⟨k, v⟩ := kv
      cases v with
      | none => simpa [List.filterMap] using ih hrest
      | some v =>
        have h1 : SegOK [k ++ ": ".toList ++ v] [(k, v)] :=
          SegOK.single (k ++ ": ".toList) k v rfl hkv.1 (hkv.2.1 v rfl)
        have := SegOK.append h1 (ih hrest)
        simpa [List.filterMap] using this

theorem join_two_nonempty (sep a b : Str) (ha : a.isEmpty = false) :
    (join sep [a, b]).isEmpty = false := by
  cases a with
  | nil => simp at ha
  | cons c cs => simp [join]

theorem seg_cookie (u : UrlParts) (o : Opts) (jar : Str) (c : Clean u o jar) :
    SegOK (cookieSeg o jar)
      (if ([jar, o.cookie.getD []].filter (fun s => !s.isEmpty)).isEmpty then []
       else [("Cookie".toList, join "; ".toList ([jar, o.cookie.getD []].filter (fun s => !s.isEmpty)))]) := by
  have hck : noCRLF (o.cookie.getD []) = true := by
    cases h : o.cookie with
    | none => rfl
    | some x => simpa using c.cookie x h
  unfold cookieSeg
  generalize o.cookie.getD [] = ck at hck ⊢
  have hj := c.jar
  by_cases h1 : jar.isEmpty <;> by_cases h2 : ck.isEmpty
  · simp only [List.filter, h1, h2, Bool.not_true, join]
    exact SegOK.nil
  · simp only [Bool.not_eq_true] at h2
    simp only [List.filter, h1, h2, Bool.not_true, Bool.not_false, join, List.isEmpty_cons, Bool.false_eq_true, if_false]
    exact SegOK.single "Cookie: ".toList "Cookie".toList ck (by decide) (by decide) hck
  · simp only [Bool.not_eq_true] at h1
    simp only [List.filter, h1, h2, Bool.not_true, Bool.not_false, join, List.isEmpty_cons, Bool.false_eq_true, if_false]
    exact SegOK.single "Cookie: ".toList "Cookie".toList jar (by decide) (by decide) hj
  · simp only [Bool.not_eq_true] at h1 h2
    simp only [List.filter, h1, h2, Bool.not_false, join_two_nonempty _ _ _ h1, List.isEmpty_cons,
      Bool.false_eq_true, if_false]
    exact SegOK.single "Cookie: ".toList "Cookie".toList _ (by decide) (by decide)
      (noCRLF_join _ _ (by decide) (by intro x hx; simp at hx; rcases hx with rfl | rfl <;> assumption))

end WS.Lemmas.HttpRequest

/-! ### the key block, the request line, the whole request -/

namespace WS.Lemmas.HttpRequest
open WS WS.PyH2 WS.H2 WS.Spec.Http WS.Model.Handshake

theorem headerHas_key_false (h : HeaderOpt) (c : cleanHeader h) :
    headerHas h "Sec-WebSocket-Key".toList = false ∧ headerHas h "Sec-WebSocket-Version".toList = false := by
  cases h with
  | absent => simp [headerHas]
  | list l =>
    have k1 : parseHeaderLine "Sec-WebSocket-Key".toList = none := by decide
    have k2 : parseHeaderLine "Sec-WebSocket-Version".toList = none := by decide
    constructor
    · simp only [headerHas, List.contains_eq_mem, decide_eq_false_iff_not]
      intro hm
      have := (c _ hm).2
      rw [k1] at this; simp at this
    · simp only [headerHas, List.contains_eq_mem, decide_eq_false_iff_not]
      intro hm
      have := (c _ hm).2
      rw [k2] at this; simp at this
  | dict d =>
    constructor
    · simp only [headerHas, List.any_eq_false, decide_eq_true_eq]
      intro kv hkv; exact (c kv hkv).2.2.1
    · simp only [headerHas, List.any_eq_false, decide_eq_true_eq]
      intro kv hkv; exact (c kv hkv).2.2.2

theorem keySeg_eq (o : Opts) (rand : Bytes) (c : cleanHeader o.header) :
    keySeg o rand = .ok (["Sec-WebSocket-Key: ".toList ++ createKey rand], createKey rand) := by
  unfold keySeg
  simp only [(headerHas_key_false o.header c).1, Bool.not_false, Bool.or_true, if_true]

theorem versionSeg_eq (o : Opts) (c : cleanHeader o.header) :
    versionSeg o = ["Sec-WebSocket-Version: ".toList ++ "13".toList] := by
  unfold versionSeg
  simp only [(headerHas_key_false o.header c).2, Bool.not_false, Bool.or_true, if_true, version_text]

theorem target_chars {t : Str} (h : isTarget t = true) : ' ' ∉ t ∧ '\r' ∉ t := by
  simp only [isTarget, Bool.and_eq_true, List.all_eq_true] at h
  constructor
  · intro hm; have := h.2 ' ' hm; revert this; decide
  · intro hm; have := h.2 '\r' hm; revert this; decide

theorem parseRequestLine_render (t : Str) (h : isTarget t = true) :
    parseRequestLine ("GET ".toList ++ t ++ " HTTP/1.1".toList) = some t := by
  have hb : breakAt ' ' (t ++ ' ' :: "HTTP/1.1".toList) = some (t, "HTTP/1.1".toList) :=
    breakAt_append ' ' t _ (target_chars h).1
  have e : "GET ".toList ++ t ++ " HTTP/1.1".toList = 'G' :: 'E' :: 'T' :: ' ' :: (t ++ ' ' :: "HTTP/1.1".toList) := by
    simp
  rw [e]
  have hp : "GET ".toList.isPrefixOf ('G' :: 'E' :: 'T' :: ' ' :: (t ++ ' ' :: "HTTP/1.1".toList)) = true := by
    simp [List.isPrefixOf]
  simp only [parseRequestLine, hp, if_true, List.drop_succ_cons, List.drop_zero, hb, h, and_self]

/-- the header lines of the model, as the concatenation of its blocks -/
def headerLines (scheme : Str) (u : UrlParts) (o : Opts) (rand : Bytes) (jar : Str) : List Str :=
  ["Upgrade: websocket".toList, hostLine u.host u.port o] ++ originSeg scheme u.host u.port o
    ++ ["Sec-WebSocket-Key: ".toList ++ createKey rand,
        "Sec-WebSocket-Version: ".toList ++ "13".toList, connLine o]
    ++ subSeg o ++ customLines o.header ++ cookieSeg o jar

theorem headerLines_ok (u : UrlParts) (o : Opts) (rand : Bytes) (jar : Str) (c : Clean u o jar) :
    SegOK (headerLines (if u.secure then "wss" else "ws").toList u o rand jar) (expectedRaw u o rand jar) := by
  unfold headerLines expectedRaw
  have hk : SegOK ["Sec-WebSocket-Key: ".toList ++ createKey rand,
        "Sec-WebSocket-Version: ".toList ++ "13".toList, connLine o]
      [("Sec-WebSocket-Key".toList, Base64.encode rand), ("Sec-WebSocket-Version".toList, "13".toList),
       ("Connection".toList, (nonEmpty o.connection).getD "Upgrade".toList)] := by
    have a1 : SegOK ["Sec-WebSocket-Key: ".toList ++ createKey rand]
        [("Sec-WebSocket-Key".toList, Base64.encode rand)] := by
      rw [createKey_eq]
      exact SegOK.single "Sec-WebSocket-Key: ".toList "Sec-WebSocket-Key".toList _ (by decide) (by decide)
        (noCRLF_encode rand)
    have a2 : SegOK ["Sec-WebSocket-Version: ".toList ++ "13".toList]
        [("Sec-WebSocket-Version".toList, "13".toList)] :=
      SegOK.single "Sec-WebSocket-Version: ".toList "Sec-WebSocket-Version".toList _ (by decide) (by decide)
        (by decide)
    exact SegOK.append a1 (SegOK.append a2 (seg_conn u o jar c))
  exact SegOK.append (SegOK.append (SegOK.append (SegOK.append (SegOK.append (seg_host u o jar c)
    (seg_origin u o jar c)) hk) (seg_sub u o jar c)) (seg_custom o.header c.header)) (seg_cookie u o jar c)

theorem splitN_one (sep : Char) (a b : Str) (h : sep ∉ a) :
    splitN sep 1 (a ++ sep :: b) = [a, b] := by
  induction a with
  | nil => simp [splitN]
  | cons c cs ih =>
    have hc : c ≠ sep := by intro e; apply h; simp [e]
    have hcs : sep ∉ cs := by intro e; apply h; simp [e]
    simp [splitN, hc, ih hcs]

theorem model_lines_gen (scheme : Str) (hsch : ':' ∉ scheme) (u : UrlParts) (rest : Str) (o : Opts)
    (rand : Bytes) (jar : Str) (c : cleanHeader o.header) :
    getHandshakeHeaders u.resource (scheme ++ ':' :: rest) u.host u.port o rand jar
      = .ok (("GET ".toList ++ u.resource ++ " HTTP/1.1".toList) ::
              (headerLines scheme u o rand jar ++ [[], []]), createKey rand) := by
  unfold getHandshakeHeaders
  rw [splitN_one ':' scheme rest hsch]
  simp only [keySeg_eq o rand c, versionSeg_eq o c, customSeg_eq, headerLines,
    List.append_assoc, List.cons_append, List.nil_append]

theorem model_lines (u : UrlParts) (rest : Str) (o : Opts) (rand : Bytes) (jar : Str) (c : Clean u o jar) :
    getHandshakeHeaders u.resource ((if u.secure then "wss" else "ws").toList ++ ':' :: rest)
        u.host u.port o rand jar
      = .ok (("GET ".toList ++ u.resource ++ " HTTP/1.1".toList) ::
              (headerLines (if u.secure then "wss" else "ws").toList u o rand jar ++ [[], []]),
             createKey rand) :=
  model_lines_gen _ (by cases u.secure <;> decide) u rest o rand jar c.header

end WS.Lemmas.HttpRequest
