/-
  WS.Lemmas.KeepaliveNFP — no false positive: the invariant of the keepalive loop when the peer answers every ping
  within the timeout — whatever else it sends (data, further or unsolicited pongs).
-/
import WS.Lemmas.Keepalive
namespace WS.Lemmas.Keepalive
open WS.Model.Keepalive

abbrev Sorted (l : List (Nat × Kind)) : Prop := List.Pairwise (fun x y => x.1 ≤ y.1) l

theorem sorted_suffix {pre suf : List (Nat × Kind)} (h : Sorted (pre ++ suf)) : Sorted suf :=
  (List.pairwise_append.mp h).2.1

/-! ### what one sleep of the main loop does to the ping thread's fields -/

theorem fire_fields (iv : Nat) (s : St) :
    (fire iv s).arr = s.arr ∧ (fire iv s).lastPong = s.lastPong ∧ (fire iv s).now = s.now ∧
    (fire iv s).wake = s.wake + iv ∧ (fire iv s).first = false := by
  unfold fire; split <;> simp_all

theorem fire_sched (iv : Nat) (s : St) (r : List Bool) :
    (fire iv { s with sched := r }).lastPing = (fire iv s).lastPing := by
  unfold fire; split <;> rfl

/-- a sleep shorter than the interval lets at most one ping fall due: afterwards the state is the old one (no ping: the
    next one is due at or after the wake-up) or the one after exactly one `fire` (it was due at or before the wake-up). -/
theorem advance_rel (iv : Nat) (n : Nat) (s : St) (t : Nat) (hn : 2 ≤ n) (hlt : t < s.wake + iv) :
    (advance iv n s t).arr = s.arr ∧ (advance iv n s t).lastPong = s.lastPong ∧ (advance iv n s t).now = s.now ∧
    (((advance iv n s t).lastPing = s.lastPing ∧ (advance iv n s t).wake = s.wake ∧
        (advance iv n s t).first = s.first ∧ t ≤ s.wake) ∨
     ((advance iv n s t).lastPing = (fire iv s).lastPing ∧ (advance iv n s t).wake = s.wake + iv ∧
        (advance iv n s t).first = false ∧ s.wake ≤ t)) := by
  obtain ⟨m, rfl⟩ : ∃ m, n = m + 1 := ⟨n - 1, by omega⟩
  obtain ⟨f1, f2, f3, f4, f5⟩ := fire_fields iv s
  rw [advance]
  split
  · rename_i hw
    rw [advance_noop iv m (fire iv s) t (by rw [f4]; exact hlt)]
    exact ⟨f1, f2, f3, Or.inr ⟨rfl, f4, f5, by omega⟩⟩
  · split
    · rename_i hw
      split
      · rename_i rest hs
        obtain ⟨g1, g2, g3, g4, g5⟩ := fire_fields iv { s with sched := rest }
        exact ⟨g1, g2, g3, Or.inr ⟨fire_sched iv s rest, g4, g5, by omega⟩⟩
      · exact ⟨rfl, rfl, rfl, Or.inl ⟨rfl, rfl, rfl, by omega⟩⟩
      · exact ⟨rfl, rfl, rfl, Or.inl ⟨rfl, rfl, rfl, by omega⟩⟩
    · exact ⟨rfl, rfl, rfl, Or.inl ⟨rfl, rfl, rfl, by omega⟩⟩

/-- the peer answers every ping: sorted arrivals in which every ping (at `k·iv`, k ≥ 2) whose answer window lies before
    the horizon is followed by a pong within `to`. Nothing is assumed about the other arrivals. -/
structure Answering (iv to horizon : Nat) (arr0 : List (Nat × Kind)) : Prop where
  sorted : Sorted arr0
  answered : ∀ k, 2 ≤ k → k * iv + to < horizon → ∃ a, (a, Kind.pong) ∈ arr0 ∧ k * iv < a ∧ a ≤ k * iv + to

/-- invariant of the loop at iteration boundaries: either the last timed ping has been answered in time
    (`last_ping_tm ≤ last_pong_tm ≤ last_ping_tm + to`), or it is outstanding, its answer window is still open and its
    answer is among the arrivals to come. -/
structure AInv (iv to horizon : Nat) (arr0 : List (Nat × Kind)) (s : St) : Prop where
  pre : ∃ pre, arr0 = pre ++ s.arr ∧ ∀ x ∈ pre, x.1 ≤ s.now
  fut : ∀ x ∈ s.arr, s.now ≤ x.1
  pinv : PInv iv s
  due : s.now ≤ s.wake
  hz : s.now ≤ horizon
  qn : s.lastPong ≤ s.now
  st : (s.lastPing ≤ s.lastPong ∧ s.lastPong ≤ s.lastPing + to) ∨
       (s.lastPong < s.lastPing ∧ s.first = false ∧ s.wake = s.lastPing + iv ∧ s.lastPing ≤ s.now ∧
         s.now ≤ s.lastPing + to ∧
         (s.lastPing + to < horizon → ∃ a, (a, Kind.pong) ∈ s.arr ∧ s.lastPing < a ∧ a ≤ s.lastPing + to))

/-- **the check cannot fire** in a state satisfying the invariant -/
theorem ainv_good (iv to horizon : Nat) (arr0 : List (Nat × Kind)) (s : St) (h : AInv iv to horizon arr0 s) :
    checkFails to s = false := by
  unfold checkFails
  rcases h.st with ⟨h1, h2⟩ | ⟨_, _, _, _, h5, _⟩
  · have a : ¬ s.lastPong < s.lastPing := by omega
    have b : ¬ s.lastPong - s.lastPing > to := by omega
    simp [a, b]
  · have a : ¬ s.now - s.lastPing > to := by omega
    simp [a]

theorem pinv_same (iv : Nat) (s s' : St) (h : PInv iv s) (e1 : s'.first = s.first) (e2 : s'.pings = s.pings)
    (e3 : s'.wake = s.wake) (e4 : s'.lastPing = s.lastPing) : PInv iv s' :=
  ⟨fun hf => by rw [e2, e3, e4]; exact h.fst (e1 ▸ hf), fun hf => by rw [e2, e3, e4]; exact h.rest (e1 ▸ hf)⟩

/-- `consume` keeps the invariant (time does not move; a pong answers the outstanding ping, or is not timed) -/
theorem ainv_consume (iv to horizon : Nat) (arr0 : List (Nat × Kind)) (hs0 : Sorted arr0) (s : St)
    (h : AInv iv to horizon arr0 s) : AInv iv to horizon arr0 (consume s) := by
  obtain ⟨pre, hsplit, hpast⟩ := h.pre
  unfold consume
  cases harr : s.arr with
  | nil => exact h
  | cons x rest =>
    obtain ⟨a, k⟩ := x
    simp only []
    have hsuf : Sorted ((a, k) :: rest) := by
      have := hs0; rw [hsplit, harr] at this; exact sorted_suffix this
    have hrest : ∀ y ∈ rest, a ≤ y.1 := (List.pairwise_cons.mp hsuf).1
    have hnow : s.now ≤ a := h.fut (a, k) (by simp [harr])
    by_cases hd : a ≤ s.now
    · have han : a = s.now := by omega
      simp only [hd, ↓reduceIte]
      have hpre' : arr0 = (pre ++ [(a, k)]) ++ rest := by rw [hsplit, harr]; simp
      have hpast' : ∀ y ∈ pre ++ [(a, k)], y.1 ≤ s.now := by
        intro y hy
        rcases List.mem_append.mp hy with hh | hh
        · exact hpast y hh
        · simp at hh; subst hh; exact hd
      have hfut' : ∀ y ∈ rest, s.now ≤ y.1 := fun y hy => by have := hrest y hy; omega
      cases k with
      | pong =>
        simp only [gen_pongStamp, Bool.true_and]
        rcases h.st with ⟨h1, h2⟩ | ⟨h1, h2, h3, h4, h5, _⟩
        · -- the last timed ping is answered already: this pong is not timed
          have hn : ¬ s.lastPong < s.lastPing := by omega
          simp only [hn, decide_false, Bool.not_false, ↓reduceIte]
          exact ⟨⟨_, hpre', hpast'⟩, hfut', pinv_same iv s _ h.pinv rfl rfl rfl rfl, h.due, h.hz, h.qn, Or.inl ⟨h1, h2⟩⟩
        · -- the answer to the outstanding ping, inside its window
          simp only [h1, decide_true, Bool.not_true, Bool.false_eq_true, ↓reduceIte]
          exact ⟨⟨_, hpre', hpast'⟩, hfut', pinv_same iv s _ h.pinv rfl rfl rfl rfl, h.due, h.hz, Nat.le_refl _,
            Or.inl ⟨h4, h5⟩⟩
      | data =>
        refine ⟨⟨_, hpre', hpast'⟩, hfut', pinv_same iv s _ h.pinv rfl rfl rfl rfl, h.due, h.hz, h.qn, ?_⟩
        rcases h.st with hst | ⟨h1, h2, h3, h4, h5, h6⟩
        · exact Or.inl hst
        · refine Or.inr ⟨h1, h2, h3, h4, h5, fun hh => ?_⟩
          obtain ⟨b, hb, hb1, hb2⟩ := h6 hh
          rw [harr] at hb
          rcases List.mem_cons.mp hb with hc | hc
          · cases hc
          · exact ⟨b, hc, hb1, hb2⟩
    · simp only [hd, ↓reduceIte]
      exact h

/-- one iteration of the loop (not cut at the horizon) keeps the invariant -/
theorem ainv_iter (iv to horizon : Nat) (arr0 : List (Nat × Kind)) (hto : to < iv)
    (hr : Answering iv to horizon arr0) (s : St) (h : AInv iv to horizon arr0 s)
    (hcut : (!ready s && decide (target to s > horizon)) = false) :
    AInv iv to horizon arr0 (iter iv to s) := by
  have hs0 := hr.sorted
  have hdue := h.due
  have hqn := h.qn
  unfold iter
  by_cases hrd : ready s = true
  · simp only [hrd, ↓reduceIte]
    exact ainv_consume iv to horizon arr0 hs0 s h
  · have hr' : ready s = false := by simpa using hrd
    simp only [hr', Bool.false_eq_true, ↓reduceIte]
    have htz : target to s ≤ horizon := by
      simp only [hr', Bool.not_false, Bool.true_and, decide_eq_false_iff_not] at hcut; omega
    have htg := target_ge to s
    have htl := target_le to s
    obtain ⟨pre, hsplit, hpast⟩ := h.pre
    -- no remaining arrival lies before `t`: `t` is at most the head's time
    have hhead : ∀ y ∈ s.arr, target to s ≤ y.1 := by
      intro y hy
      unfold target
      cases harr : s.arr with
      | nil => rw [harr] at hy; simp at hy
      | cons x rest =>
        obtain ⟨a, k⟩ := x
        simp only []
        have hsuf : Sorted ((a, k) :: rest) := by
          have := hs0; rw [hsplit, harr] at this; exact sorted_suffix this
        have hay : a ≤ y.1 := by
          rw [harr] at hy
          rcases List.mem_cons.mp hy with rfl | hh
          · exact Nat.le_refl _
          · exact (List.pairwise_cons.mp hsuf).1 y hh
        have hna : s.now < a := by
          simp only [ready, harr, decide_eq_false_iff_not, Nat.not_le] at hr'; exact hr'
        split <;> omega
    obtain ⟨a1, a2, a3, acase⟩ := advance_rel iv (target to s + 2) s (target to s) (by omega)
      (by have := h.due; omega)
    have p1 := pinv_advance iv (target to s + 2) s (target to s) h.pinv
    generalize advance iv (target to s + 2) s (target to s) = s1 at a1 a2 a3 acase p1
    -- the state after sleeping until `t`
    have hmid : AInv iv to horizon arr0 { s1 with now := target to s } := by
      have hpre1 : ∃ pre, arr0 = pre ++ ({ s1 with now := target to s } : St).arr ∧
          ∀ x ∈ pre, x.1 ≤ ({ s1 with now := target to s } : St).now :=
        ⟨pre, by simp only []; rw [a1]; exact hsplit, fun y hy => by have := hpast y hy; simp only []; omega⟩
      have hfut1 : ∀ x ∈ ({ s1 with now := target to s } : St).arr, ({ s1 with now := target to s } : St).now ≤ x.1 := by
        intro y hy; simp only [] at hy ⊢; rw [a1] at hy; exact hhead y hy
      have hp1 : PInv iv { s1 with now := target to s } := ⟨p1.fst, p1.rest⟩
      have hq1 : ({ s1 with now := target to s } : St).lastPong ≤ ({ s1 with now := target to s } : St).now := by
        simp only []; rw [a2]; have := h.qn; omega
      rcases acase with ⟨b1, b2, b3, b4⟩ | ⟨b1, b2, b3, b4⟩
      · -- no ping fell due
        refine ⟨hpre1, hfut1, hp1, by simp only []; rw [b2]; exact b4, htz, hq1, ?_⟩
        simp only []
        rw [b1, a2, b2, b3, a1]
        rcases h.st with hst | ⟨h1, h2, h3, h4, h5, h6⟩
        · exact Or.inl hst
        · refine Or.inr ⟨h1, h2, h3, by omega, ?_, h6⟩
          -- the sleep ends at the answer's arrival at the latest (or at the horizon)
          by_cases hh : s.lastPing + to < horizon
          · obtain ⟨b, hb, _, hb2⟩ := h6 hh
            have := hhead _ hb; simp only [] at this; omega
          · omega
      · -- one ping fell due at `s.wake ≤ t`
        have hfl : (fire iv s).lastPing = (if s.first then s.lastPing else
            if s.lastPong < s.lastPing then s.lastPing else s.wake) := by
          unfold fire; split <;> simp
        by_cases hf : s.first = true
        · -- the silent first wait is over: nothing is stamped
          have hlp0 : s.lastPing = 0 := (h.pinv.fst hf).2.2
          refine ⟨hpre1, hfut1, hp1, by simp only []; rw [b2]; omega, htz, hq1, ?_⟩
          simp only []
          rw [b1, hfl, a2]
          simp only [hf, ↓reduceIte]
          rcases h.st with hst | ⟨_, h2, _⟩
          · exact Or.inl hst
          · rw [hf] at h2; cases h2
        · have hf' : s.first = false := by simpa using hf
          obtain ⟨hw, _, _, _⟩ := h.pinv.rest hf'
          rcases h.st with ⟨h1, h2⟩ | ⟨h1, h2, h3, h4, h5, h6⟩
          · -- the previous ping was answered: this one is stamped at its tick `w = k·iv`
            have hnl : ¬ s.lastPong < s.lastPing := by omega
            have hqw : s.lastPong ≤ s.wake := by have := h.qn; have := h.due; omega
            refine ⟨hpre1, hfut1, hp1, by simp only []; rw [b2]; omega, htz, hq1, ?_⟩
            simp only []
            rw [b1, hfl, a2, b2, b3, a1]
            simp only [hf', Bool.false_eq_true, ↓reduceIte, hnl]
            by_cases heq : s.lastPong = s.wake
            · exact Or.inl ⟨by omega, by omega⟩
            · refine Or.inr ⟨by omega, by first | rfl | trivial, by first | rfl | trivial, b4, by omega, fun hh => ?_⟩
              obtain ⟨a, hmem, ha1, ha2⟩ := hr.answered (s.pings.length + 2) (by omega) (by rw [← hw]; exact hh)
              rw [← hw] at ha1 ha2
              refine ⟨a, ?_, ha1, ha2⟩
              rw [hsplit] at hmem
              rcases List.mem_append.mp hmem with hh' | hh'
              · have := hpast _ hh'; simp only [] at this; have := h.due; omega
              · exact hh'
          · -- a ping cannot fall due while another one is outstanding: its window closes before the next tick
            exfalso
            have : target to s ≤ s.lastPing + to := by
              by_cases hh : s.lastPing + to < horizon
              · obtain ⟨b, hb, _, hb2⟩ := h6 hh
                have := hhead _ hb; simp only [] at this; omega
              · omega
            omega
    exact ainv_consume iv to horizon arr0 hs0 _ hmid

theorem ainv_init (iv to horizon : Nat) (arr0 : List (Nat × Kind)) (sched : List Bool) :
    AInv iv to horizon arr0 (init iv arr0 sched) :=
  ⟨⟨[], rfl, by simp⟩, fun _ _ => Nat.zero_le _, pinv_init iv arr0 sched, Nat.zero_le _, Nat.zero_le _, Nat.le_refl _,
    Or.inl ⟨Nat.le_refl _, Nat.zero_le _⟩⟩

/-- **no false positive** — a peer that answers every ping within the timeout is never reported, whatever else it sends,
    whatever the schedule, the horizon and the fuel -/
theorem loop_no_report (iv to horizon : Nat) (arr0 : List (Nat × Kind)) (hto : to < iv)
    (hr : Answering iv to horizon arr0) : ∀ (fuel : Nat) (s : St), AInv iv to horizon arr0 s →
    (loop iv to horizon fuel s).2 = none := by
  intro fuel
  induction fuel with
  | zero => intro s _; rfl
  | succ n ih =>
    intro s h
    rw [loop]
    split
    · rfl
    · rename_i hc
      have hcut : (!ready s && decide (target to s > horizon)) = false := by simpa using hc
      have h' := ainv_iter iv to horizon arr0 hto hr s h hcut
      simp only [ainv_good iv to horizon arr0 _ h', Bool.false_eq_true, ↓reduceIte]
      exact ih _ h'

end WS.Lemmas.Keepalive
