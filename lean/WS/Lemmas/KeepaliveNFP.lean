/-
  WS.Lemmas.KeepaliveNFP — no false positive: invariants of the keepalive loop when the peer answers every
  ping within the timeout and sends no other pongs.
-/
import WS.Lemmas.Keepalive
namespace WS.Lemmas.Keepalive
open WS.Model.Keepalive

/-- time of the last pong in a list of arrivals (0 if none) -/
def lastPongOf (acc : Nat) (l : List (Nat × Kind)) : Nat :=
  l.foldl (fun acc x => if x.2 = .pong then x.1 else acc) acc

theorem lastPongOf_snoc (acc : Nat) (l : List (Nat × Kind)) (x : Nat × Kind) :
    lastPongOf acc (l ++ [x]) = if x.2 = .pong then x.1 else lastPongOf acc l := by
  simp [lastPongOf, List.foldl_append]

abbrev Sorted (l : List (Nat × Kind)) : Prop := List.Pairwise (fun x y => x.1 ≤ y.1) l

theorem lastPongOf_ge_acc : ∀ (l : List (Nat × Kind)) (acc : Nat), Sorted l → (∀ y ∈ l, acc ≤ y.1) →
    acc ≤ lastPongOf acc l := by
  intro l
  induction l with
  | nil => intro acc _ _; exact Nat.le_refl _
  | cons x r ih =>
    intro acc hs hge
    have hs' := List.pairwise_cons.mp hs
    simp only [lastPongOf, List.foldl_cons]
    by_cases hp : x.2 = .pong
    · simp only [hp, ↓reduceIte]
      have := ih x.1 hs'.2 (fun y hy => hs'.1 y hy)
      have h1 := hge x (by simp)
      exact Nat.le_trans h1 this
    · simp only [hp, ↓reduceIte]
      exact ih acc hs'.2 (fun y hy => hge y (by simp [hy]))

/-- every pong in a sorted list is no later than the last one -/
theorem le_lastPongOf : ∀ (l : List (Nat × Kind)) (acc : Nat) (a : Nat), Sorted l → (a, Kind.pong) ∈ l →
    a ≤ lastPongOf acc l := by
  intro l
  induction l with
  | nil => intro acc a _ h; simp at h
  | cons x r ih =>
    intro acc a hs hm
    have hs' := List.pairwise_cons.mp hs
    simp only [lastPongOf, List.foldl_cons]
    rcases List.mem_cons.mp hm with rfl | hm'
    · simp only [↓reduceIte]
      exact lastPongOf_ge_acc r a hs'.2 (fun y hy => hs'.1 y hy)
    · exact ih _ a hs'.2 hm'

/-- the last pong is one of the list (or the initial value) -/
theorem lastPongOf_mem : ∀ (l : List (Nat × Kind)) (acc : Nat),
    lastPongOf acc l = acc ∨ (lastPongOf acc l, Kind.pong) ∈ l := by
  intro l
  induction l with
  | nil => intro acc; exact Or.inl rfl
  | cons x r ih =>
    intro acc
    simp only [lastPongOf, List.foldl_cons]
    by_cases hp : x.2 = .pong
    · simp only [hp, ↓reduceIte]
      rcases ih x.1 with h | h
      · right
        simp only [lastPongOf] at h
        rw [h]
        have : x = (x.1, Kind.pong) := by rw [← hp]
        rw [← this]; simp
      · exact Or.inr (List.mem_cons_of_mem _ h)
    · simp only [hp, ↓reduceIte]
      rcases ih acc with h | h
      · exact Or.inl h
      · exact Or.inr (List.mem_cons_of_mem _ h)

/-! ### what `advance` leaves alone, and how far it gets -/

theorem fire_fields (iv : Nat) (s : St) :
    (fire iv s).arr = s.arr ∧ (fire iv s).lastPong = s.lastPong ∧ (fire iv s).now = s.now ∧
    (fire iv s).wake = s.wake + iv := by
  unfold fire; split <;> simp

theorem advance_fields (iv : Nat) : ∀ (n : Nat) (s : St) (t : Nat),
    (advance iv n s t).arr = s.arr ∧ (advance iv n s t).lastPong = s.lastPong ∧ (advance iv n s t).now = s.now ∧
    s.wake ≤ (advance iv n s t).wake := by
  intro n
  induction n with
  | zero => intro s t; exact ⟨rfl, rfl, rfl, Nat.le_refl _⟩
  | succ m ih =>
    intro s t
    rw [advance]
    split
    · obtain ⟨a, b, c, d⟩ := ih (fire iv s) t
      obtain ⟨f1, f2, f3, f4⟩ := fire_fields iv s
      exact ⟨a.trans f1, b.trans f2, c.trans f3, by omega⟩
    · split
      · split
        · obtain ⟨f1, f2, f3, f4⟩ := fire_fields iv { s with sched := ‹_› }
          exact ⟨f1, f2, f3, by simp only [] at f4; omega⟩
        · exact ⟨rfl, rfl, rfl, Nat.le_refl _⟩
        · exact ⟨rfl, rfl, rfl, Nat.le_refl _⟩
      · exact ⟨rfl, rfl, rfl, Nat.le_refl _⟩

/-- with enough fuel every ping due before `t` is sent: afterwards the next wake is not before `t` -/
theorem advance_reaches (iv : Nat) (hiv : 0 < iv) : ∀ (n : Nat) (s : St) (t : Nat), t < s.wake + n →
    t ≤ (advance iv n s t).wake := by
  intro n
  induction n with
  | zero => intro s t h; rw [advance]; omega
  | succ m ih =>
    intro s t h
    rw [advance]
    split
    · have := ih (fire iv s) t (by rw [(fire_fields iv s).2.2.2]; omega)
      exact this
    · split
      · split
        · rw [(fire_fields iv _).2.2.2]; simp only []; omega
        · simp only []; omega
        · omega
      · omega

end WS.Lemmas.Keepalive

namespace WS.Lemmas.Keepalive
open WS.Model.Keepalive

/-- the peer's pongs are answers: each arrives within `to` after a ping tick `k·iv` (k ≥ 2) -- or before
    the first ping -- and every ping whose answer window lies before the horizon gets one -/
structure Responsive (iv to horizon : Nat) (arr0 : List (Nat × Kind)) : Prop where
  sorted : Sorted arr0
  answers : ∀ a, (a, Kind.pong) ∈ arr0 → a < 2 * iv ∨ ∃ k, 2 ≤ k ∧ k * iv < a ∧ a ≤ k * iv + to
  answered : ∀ k, 2 ≤ k → k * iv + to < horizon → ∃ a, (a, Kind.pong) ∈ arr0 ∧ k * iv < a ∧ a ≤ k * iv + to

/-- invariant of the loop at iteration boundaries -/
structure NInv (iv horizon : Nat) (arr0 : List (Nat × Kind)) (s : St) : Prop where
  pre : ∃ pre, arr0 = pre ++ s.arr ∧ (∀ x ∈ pre, x.1 ≤ s.now) ∧ s.lastPong = lastPongOf 0 pre
  fut : ∀ x ∈ s.arr, s.now ≤ x.1
  pinv : PInv iv s
  due : s.now ≤ s.wake
  hz : s.now ≤ horizon

theorem sorted_suffix {pre suf : List (Nat × Kind)} (h : Sorted (pre ++ suf)) : Sorted suf :=
  (List.pairwise_append.mp h).2.1

/-- **the check cannot fire** in a state satisfying the invariant when the peer is responsive -/
theorem ninv_good (iv to horizon : Nat) (arr0 : List (Nat × Kind)) (hto : to < iv)
    (hr : Responsive iv to horizon arr0) (s : St) (h : NInv iv horizon arr0 s) : checkFails to s = false := by
  unfold checkFails
  by_cases h0 : s.lastPing = 0
  · simp [h0]
  by_cases h1 : s.now - s.lastPing > to
  · -- the answer window of the last ping is over: its answer has been read, and nothing later
    have hnf : s.first = false := by
      cases hf : s.first with
      | false => rfl
      | true => exact absurd (h.pinv.fst hf).2.2 h0
    obtain ⟨hw, _, hlp⟩ := h.pinv.rest hnf
    have hlen : s.pings.length ≠ 0 := by
      intro hl; rw [hl] at hlp; simp at hlp; exact h0 hlp
    simp only [hlen, ↓reduceIte] at hlp
    -- T = k·iv
    have hT : s.lastPing = (s.pings.length + 1) * iv := by
      rw [hlp, hw]; rw [Nat.add_mul (s.pings.length + 1) 1]; omega
    have hk2 : 2 ≤ s.pings.length + 1 := by omega
    obtain ⟨pre, hsplit, hpast, hlq⟩ := h.pre
    have hwin : (s.pings.length + 1) * iv + to < horizon := by
      rw [← hT]; have := h.hz; omega
    obtain ⟨a, hmem, ha1, ha2⟩ := hr.answered (s.pings.length + 1) hk2 hwin
    rw [← hT] at ha1 ha2
    -- the answer is among the consumed arrivals
    have hin : (a, Kind.pong) ∈ pre := by
      rw [hsplit] at hmem
      rcases List.mem_append.mp hmem with hh | hh
      · exact hh
      · have := h.fut _ hh; simp only [] at this; omega
    have hsp : Sorted pre := by
      have := hr.sorted; rw [hsplit] at this; exact (List.pairwise_append.mp this).1
    have hb1 : a ≤ s.lastPong := by rw [hlq]; exact le_lastPongOf pre 0 a hsp hin
    -- and the last pong read is itself an answer to that same ping
    have hb2 : s.lastPong ≤ s.lastPing + to := by
      rcases lastPongOf_mem pre 0 with hz0 | hm
      · rw [← hlq] at hz0; omega
      · rw [← hlq] at hm
        have hbnow : s.lastPong ≤ s.now := hpast _ hm
        have hm0 : (s.lastPong, Kind.pong) ∈ arr0 := by rw [hsplit]; exact List.mem_append_left _ hm
        rcases hr.answers _ hm0 with hlt | ⟨k', hk', hc1, hc2⟩
        · have : 2 * iv ≤ s.lastPing := by rw [hT]; exact Nat.mul_le_mul_right iv hk2
          omega
        · -- k'·iv < lastPong ≤ now ≤ wake = T + iv  ⇒  k' ≤ k
          have hwk : s.wake = s.lastPing + iv := by rw [hlp]; have : iv ≤ s.wake := by rw [hw]; exact Nat.le_mul_of_pos_left iv (by omega)
                                                    omega
          have hlt : k' * iv < (s.pings.length + 1 + 1) * iv := by
            have : (s.pings.length + 1 + 1) * iv = s.lastPing + iv := by rw [hT, Nat.add_mul (s.pings.length + 1) 1]; omega
            rw [this]; have := h.due; omega
          have hkle : k' < s.pings.length + 1 + 1 := Nat.lt_of_mul_lt_mul_right hlt
          by_cases hke : k' = s.pings.length + 1
          · rw [hke, ← hT] at hc2; exact hc2
          · -- an answer to an older ping cannot come after the answer `a` to the last one
            have hk'' : k' + 1 ≤ s.pings.length + 1 := by omega
            have : (k' + 1) * iv ≤ (s.pings.length + 1) * iv := Nat.mul_le_mul_right iv hk''
            rw [Nat.add_mul k' 1] at this
            omega
    have hb0 : ¬ s.lastPong < s.lastPing := by omega
    have hb3 : ¬ s.lastPong - s.lastPing > to := by omega
    simp [hb0, hb3]
  · simp [h1]

end WS.Lemmas.Keepalive

namespace WS.Lemmas.Keepalive
open WS.Model.Keepalive

/-- `consume` keeps the invariant (time does not move; the head arrival, if due, joins the consumed ones) -/
theorem ninv_consume (iv horizon : Nat) (arr0 : List (Nat × Kind)) (hs0 : Sorted arr0) (s : St)
    (h : NInv iv horizon arr0 s) : NInv iv horizon arr0 (consume s) := by
  obtain ⟨pre, hsplit, hpast, hlq⟩ := h.pre
  unfold consume
  cases harr : s.arr with
  | nil => exact h
  | cons x rest =>
    obtain ⟨a, k⟩ := x
    simp only []
    have hsuf : Sorted ((a, k) :: rest) := by
      have := hs0; rw [hsplit, harr] at this; exact sorted_suffix this
    have hrest : ∀ y ∈ rest, a ≤ y.1 := (List.pairwise_cons.mp hsuf).1
    have hnow : s.now ≤ a := h.fut (a, k) (by simp [harr])
    by_cases hd : a ≤ s.now
    · have han : a = s.now := by omega
      simp only [hd, ↓reduceIte]
      have hpre' : arr0 = (pre ++ [(a, k)]) ++ rest := by rw [hsplit, harr]; simp
      have hpast' : ∀ y ∈ pre ++ [(a, k)], y.1 ≤ s.now := by
        intro y hy
        rcases List.mem_append.mp hy with hh | hh
        · exact hpast y hh
        · simp at hh; subst hh; exact hd
      have pinv' : ∀ s' : St, s'.first = s.first → s'.pings = s.pings → s'.wake = s.wake → s'.lastPing = s.lastPing →
          PInv iv s' := fun s' e1 e2 e3 e4 =>
        ⟨fun hf => by rw [e2, e3, e4]; exact h.pinv.fst (e1 ▸ hf), fun hf => by rw [e2, e3, e4]; exact h.pinv.rest (e1 ▸ hf)⟩
      cases k with
      | pong =>
        refine ⟨⟨pre ++ [(a, .pong)], hpre', hpast', ?_⟩, fun y hy => by have := hrest y hy; simp only []; omega,
          pinv' _ rfl rfl rfl rfl, h.due, h.hz⟩
        simp only [lastPongOf_snoc, ↓reduceIte]; exact han.symm
      | data =>
        refine ⟨⟨pre ++ [(a, .data)], hpre', hpast', ?_⟩, fun y hy => by have := hrest y hy; simp only []; omega,
          pinv' _ rfl rfl rfl rfl, h.due, h.hz⟩
        simp only [lastPongOf_snoc]; simpa using hlq
    · simp only [hd, ↓reduceIte]
      exact h

/-- one iteration of the loop (not cut at the horizon) keeps the invariant -/
theorem ninv_iter (iv to horizon : Nat) (arr0 : List (Nat × Kind)) (hiv : 0 < iv) (hs0 : Sorted arr0) (s : St)
    (h : NInv iv horizon arr0 s) (hcut : (!ready s && decide (target to s > horizon)) = false) :
    NInv iv horizon arr0 (iter iv to s) := by
  unfold iter
  by_cases hr : ready s = true
  · simp only [hr, ↓reduceIte]
    exact ninv_consume iv horizon arr0 hs0 s h
  · have hr' : ready s = false := by simpa using hr
    simp only [hr', Bool.false_eq_true, ↓reduceIte]
    have htz : target to s ≤ horizon := by
      simp only [hr', Bool.not_false, Bool.true_and, decide_eq_false_iff_not] at hcut; omega
    have htg := target_ge to s
    obtain ⟨a1, a2, a3, a4⟩ := advance_fields iv (target to s + 2) s (target to s)
    have hreach := advance_reaches iv hiv (target to s + 2) s (target to s) (by omega)
    obtain ⟨pre, hsplit, hpast, hlq⟩ := h.pre
    -- the state after sleeping until `t`
    have hmid : NInv iv horizon arr0 { advance iv (target to s + 2) s (target to s) with now := target to s } := by
      refine ⟨⟨pre, by simp only []; rw [a1]; exact hsplit, fun y hy => by have := hpast y hy; simp only []; omega,
        by simp only []; rw [a2]; exact hlq⟩, ?_, ?_, by simp only []; exact hreach, htz⟩
      · -- no remaining arrival lies before `t`: `t` is at most the head's time
        intro y hy
        simp only [] at hy ⊢
        rw [a1] at hy
        unfold target
        cases harr : s.arr with
        | nil => rw [harr] at hy; simp at hy
        | cons x rest =>
          obtain ⟨a, k⟩ := x
          simp only []
          have hsuf : Sorted ((a, k) :: rest) := by
            have := hs0; rw [hsplit, harr] at this; exact sorted_suffix this
          have hay : a ≤ y.1 := by
            rw [harr] at hy
            rcases List.mem_cons.mp hy with rfl | hh
            · exact Nat.le_refl _
            · exact (List.pairwise_cons.mp hsuf).1 y hh
          have hna : s.now < a := by
            simp only [ready, harr, decide_eq_false_iff_not, Nat.not_le] at hr'; exact hr'
          split <;> omega
      · have p := pinv_advance iv (target to s + 2) s (target to s) h.pinv
        exact ⟨p.fst, p.rest⟩
    exact ninv_consume iv horizon arr0 hs0 _ hmid

theorem ninv_init (iv horizon : Nat) (arr0 : List (Nat × Kind)) (sched : List Bool) :
    NInv iv horizon arr0 (init iv arr0 sched) :=
  ⟨⟨[], rfl, by simp, rfl⟩, fun _ _ => Nat.zero_le _, pinv_init iv arr0 sched, Nat.zero_le _, Nat.zero_le _⟩

/-- **no false positive** — a responsive peer is never reported, whatever the data traffic, the schedule,
    the horizon and the fuel -/
theorem loop_no_report (iv to horizon : Nat) (arr0 : List (Nat × Kind)) (hiv : 0 < iv) (hto : to < iv)
    (hr : Responsive iv to horizon arr0) : ∀ (fuel : Nat) (s : St), NInv iv horizon arr0 s →
    (loop iv to horizon fuel s).2 = none := by
  intro fuel
  induction fuel with
  | zero => intro s _; rfl
  | succ n ih =>
    intro s h
    rw [loop]
    split
    · rfl
    · rename_i hc
      have hcut : (!ready s && decide (target to s > horizon)) = false := by simpa using hc
      have h' := ninv_iter iv to horizon arr0 hiv hr.sorted s h hcut
      simp only [ninv_good iv to horizon arr0 hto hr _ h', Bool.false_eq_true, ↓reduceIte]
      exact ih _ h'

end WS.Lemmas.Keepalive
