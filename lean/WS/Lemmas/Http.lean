/-
  WS.Lemmas.Http — facts about the head-phase models that C17 needs (group H2 provides them, the
  C17 check states the property): with the repaired guards (`Gen.h2…Guard = true`, DESIGN §7 F8)
  `read_headers`, `_get_resp_headers` and `handshake` never end in a Python-level failure, whatever
  bytes, timeouts, resets or end of stream the peer produces; every size asked of the transport
  is 1 in the head and at most `Gen.h2BodyReadCap` for the error body; the line loop is defined by
  structural recursion on the script (progress) and the fuel of `read_headers` never runs out.
  Core Lean only.
-/
import WS.Model.Handshake
namespace WS.Lemmas.Http
open WS WS.PyH2 WS.H2 WS.Model.Http WS.Model.Handshake

/-- the repaired shape of the head-phase code (false of the pinned commit). -/
theorem guards :
    Gen.h2DecodeGuard = true ∧ Gen.h2StatusGuard = true ∧ Gen.h2ContentLengthGuard = true ∧
    Gen.h2LocationGuard = true ∧ Gen.h2BodyReadCap = 16384 ∧ Gen.h2HeadRecvSize = 1 := by decide

/-- the errors the transport layer and the documented hierarchy can produce in the head phase. -/
def Documented : HExn → Prop
  | .closed | .timeout | .transport | .wsgeneric | .badstatus _ | .proxy | .address => True
  | .valueError | .internal _ => False

theorem documented_not_internal {e : HExn} (h : Documented e) : e.isInternal = false := by
  cases e <;> first | rfl | exact absurd h id

theorem recvLineAux_err (inp : List HEv) (tail : Tail) (acc : Bytes) (n : Nat) (e : HExn)
    (rest : List HEv × Tail) (k : Nat) (h : recvLineAux inp tail acc n = (.error e, rest, k)) :
    Documented e := by
  induction inp generalizing acc n with
  | nil =>
    simp only [recvLineAux] at h
    cases h
    split <;> trivial
  | cons ev r ih =>
    cases ev with
    | byte b =>
      simp only [recvLineAux] at h
      split at h
      · cases h
      · exact ih _ _ h
    | timeout => simp only [recvLineAux] at h; cases h; trivial
    | reset => simp only [recvLineAux] at h; cases h; trivial

/-- `recv_line` consumes at least one scripted event when it returns a line, and never more than
    there are. -/
theorem recvLineAux_ok_len (inp : List HEv) (tail : Tail) (acc : Bytes) (n : Nat) (l : Bytes)
    (rest : List HEv × Tail) (k : Nat) (h : recvLineAux inp tail acc n = (.ok l, rest, k)) :
    rest.1.length < inp.length := by
  induction inp generalizing acc n with
  | nil => simp only [recvLineAux] at h; cases h
  | cons ev r ih =>
    cases ev with
    | byte b =>
      simp only [recvLineAux] at h
      split at h
      · cases h; simp
      · have := ih _ _ h; simp; omega
    | timeout => simp only [recvLineAux] at h; cases h
    | reset => simp only [recvLineAux] at h; cases h

theorem headerStep_raise (h : Head) (raw : Bytes) (e : HExn) (hs : headerStep h raw = .raise e) :
    e = .wsgeneric := by
  unfold headerStep at hs
  simp only [guards.1, guards.2.1, if_true] at hs
  cases hd : decodeUtf8 raw with
  | none => rw [hd] at hs; simp only at hs; cases hs; rfl
  | some l =>
    rw [hd] at hs
    simp only at hs
    by_cases he : (strip l).isEmpty = true
    · rw [if_pos he] at hs; cases hs
    · rw [if_neg he] at hs
      by_cases hf : statusFalsy h.status = true
      · rw [if_pos hf] at hs
        split at hs
        · split at hs
          · cases hs; rfl
          · cases hs
        · cases hs; rfl
      · rw [if_neg hf] at hs
        split at hs
        · split at hs
          · split at hs <;> cases hs
          · cases hs
        · cases hs; rfl

theorem readLoop_err (fuel : Nat) (s : Sock) (h : Head) (n : Nat) (e : HExn) (s' : Sock) (k : Nat)
    (hfuel : s.inp.length < fuel) (hr : readLoop fuel s h n = (.error e, s', k)) : Documented e := by
  induction fuel generalizing s h n with
  | zero => omega
  | succ fuel ih =>
    unfold readLoop at hr
    cases hl : recvLineAux s.inp s.tail [] 0 with
    | mk r rest =>
      obtain ⟨st, cnt⟩ := rest
      have hrl : recvLine s = (r, { s with inp := st.1, tail := st.2 }, cnt) := by
        unfold recvLine; rw [hl]
      rw [hrl] at hr
      cases r with
      | error e' =>
        simp only at hr
        cases hr
        exact recvLineAux_err _ _ _ _ _ _ _ hl
      | ok raw =>
        simp only at hr
        have hlen := recvLineAux_ok_len _ _ _ _ _ _ _ hl
        cases hstep : headerStep h raw with
        | done => rw [hstep] at hr; simp only at hr; cases hr
        | raise e' =>
          rw [hstep] at hr
          simp only at hr
          cases hr
          rw [headerStep_raise h raw _ hstep]
          trivial
        | cont h' =>
          rw [hstep] at hr
          simp only at hr
          exact ih _ _ _ (by simp only; omega) hr

/-- **`read_headers` never ends in an internal error** (nor out of fuel). -/
theorem readHeaders_err (s : Sock) (e : HExn) (s' : Sock) (k : Nat)
    (h : readHeaders s = (.error e, s', k)) : Documented e :=
  readLoop_err _ s Head.empty 0 e s' k (by omega) h

theorem rawRecv_err (s : Sock) (n : Nat) (e : HExn) (s' : Sock) (h : rawRecv s n = (.error e, s')) :
    e = .transport := by
  unfold rawRecv at h
  repeat' split at h
  all_goals first | (cases h; rfl) | cases h

/-- **`_get_resp_headers` never ends in an internal error**, and every size it asks of the transport
    is 1 (head) or at most the cap (error body) — whatever length the peer declared. -/
theorem getRespHeaders_err_sizes (s : Sock) :
    (∀ e s' io, getRespHeaders s = (.error e, s', io) → Documented e) ∧
    (∀ r s' io, getRespHeaders s = (r, s', io) → ∀ ev ∈ io, ∃ n, ev = IoEv.recv n ∧ n ≤ Gen.h2BodyReadCap) := by
  have hcap : Gen.h2BodyReadCap = 16384 := guards.2.2.2.2.1
  have hone : Gen.h2HeadRecvSize = 1 := guards.2.2.2.2.2
  have hrep : ∀ k, ∀ ev ∈ List.replicate k (IoEv.recv Gen.h2HeadRecvSize),
      ∃ n, ev = IoEv.recv n ∧ n ≤ Gen.h2BodyReadCap := by
    intro k ev hev
    refine ⟨Gen.h2HeadRecvSize, (List.mem_replicate.mp hev).2, ?_⟩
    rw [hone, hcap]; omega
  have hbad : ∀ (hd : Head) (s2 : Sock) (k : Nat) r s' io,
      getRespHeaders.badStatus hd s2 (List.replicate k (IoEv.recv Gen.h2HeadRecvSize)) = (r, s', io) →
      (∀ e, r = .error e → Documented e) ∧ (∀ ev ∈ io, ∃ n, ev = IoEv.recv n ∧ n ≤ Gen.h2BodyReadCap) := by
    intro hd s2 k r s' io hb
    unfold getRespHeaders.badStatus at hb
    rw [guards.2.2.1, hcap] at hb
    split at hb
    · cases hb; exact ⟨fun e he => by cases he; trivial, hrep k⟩
    · split at hb
      · simp only [if_true] at hb; cases hb; exact ⟨fun e he => by cases he; trivial, hrep k⟩
      · split at hb
        · simp only [if_true] at hb; cases hb; exact ⟨fun e he => by cases he; trivial, hrep k⟩
        · simp only at hb
          rename_i nn _ _
          have hsize : (if (16384 : Nat) = 0 then nn.toNat else min nn.toNat 16384) ≤ 16384 := by
            simp; omega
          generalize (if (16384 : Nat) = 0 then nn.toNat else min nn.toNat 16384) = size at hb hsize
          cases hrr : rawRecv s2 size with
          | mk rr s3 =>
            rw [hrr] at hb
            have hio : ∀ ev ∈ List.replicate k (IoEv.recv Gen.h2HeadRecvSize) ++ [IoEv.recv size],
                ∃ n, ev = IoEv.recv n ∧ n ≤ Gen.h2BodyReadCap := by
              intro ev hev
              rcases List.mem_append.mp hev with hev | hev
              · exact hrep k ev hev
              · simp at hev; exact ⟨size, hev, by rw [hcap]; exact hsize⟩
            cases rr with
            | ok _ => simp only at hb; cases hb; exact ⟨fun e he => by cases he; trivial, hio⟩
            | error e' =>
              simp only at hb; cases hb
              refine ⟨fun e he => ?_, hio⟩
              cases he
              rw [rawRecv_err _ _ _ _ hrr]; trivial
  constructor
  · intro e s' io h
    unfold getRespHeaders at h
    cases hr : readHeaders s with
    | mk r rest =>
      obtain ⟨s2, k⟩ := rest
      rw [hr] at h
      cases r with
      | error e' => simp only at h; cases h; exact readHeaders_err s _ _ _ hr
      | ok hd =>
        simp only at h
        cases hst : hd.status with
        | none => rw [hst] at h; exact (hbad hd s2 k _ _ _ h).1 e rfl
        | some st =>
          rw [hst] at h
          simp only at h
          split at h
          · cases h
          · exact (hbad hd s2 k _ _ _ h).1 e rfl
  · intro r s' io h
    unfold getRespHeaders at h
    cases hr : readHeaders s with
    | mk r0 rest =>
      obtain ⟨s2, k⟩ := rest
      rw [hr] at h
      cases r0 with
      | error e' => simp only at h; cases h; exact hrep k
      | ok hd =>
        simp only at h
        cases hst : hd.status with
        | none => rw [hst] at h; exact (hbad hd s2 k _ _ _ h).2
        | some st =>
          rw [hst] at h
          simp only at h
          split at h
          · cases h; exact hrep k
          · exact (hbad hd s2 k _ _ _ h).2

/-- **`handshake` never ends in an internal error** once the request could be built (building it
    fails only on the caller's own malformed options / URL, never on server bytes). -/
theorem handshake_err (acceptOf : Str → Str) (s : Sock) (url : Str) (u : UrlParts) (o : Opts)
    (rand : Bytes) (jar : Str) (lines : List Str) (key : Str)
    (hg : getHandshakeHeaders u.resource url u.host u.port o rand jar = .ok (lines, key))
    (e : HExn) (s' : Sock) (io : List IoEv)
    (h : handshake acceptOf s url u o rand jar = (.error e, s', io)) : Documented e := by
  unfold handshake at h
  rw [hg] at h
  simp only at h
  cases hsend : send s (encodeUtf8 (requestText lines)) with
  | mk r1 s1 =>
    rw [hsend] at h
    cases r1 with
    | error e1 =>
      simp only at h; cases h
      unfold send at hsend
      repeat' split at hsend
      all_goals first | (cases hsend; trivial) | cases hsend
    | ok _ =>
      simp only at h
      cases hresp : getRespHeaders s1 with
      | mk r3 rest3 =>
        obtain ⟨s3, io3⟩ := rest3
        rw [hresp] at h
        cases r3 with
        | error e3 => simp only at h; cases h; exact (getRespHeaders_err_sizes s1).1 _ _ _ hresp
        | ok sh =>
          obtain ⟨status, hdrs⟩ := sh
          simp only at h
          split at h
          · cases h
          · split at h
            · cases h
            · cases h; trivial

end WS.Lemmas.Http
