/-
  WS.Lemmas.AppInv — invariants of `run_forever` for ALL worlds, callback plans, schedules and settings:
  which functions can add callback events, how `has_done_teardown` / `keep_running` / `sock` /
  `has_errored` evolve.  Used by C14 (once-last, return value, clean) and C15 (stops).
-/
import WS.Lemmas.AppBasic
import WS.Spec.AppTrace
namespace WS.Lemmas.App
open WS WS.Model.App

/-- callback events of a trace (name and arguments) -/
def cbsOf (tr : Trace) : List (Cb × List Arg) :=
  tr.filterMap fun te => match te.2 with | .cb c a => some (c, a) | _ => none

def cbs (s : St) : List (Cb × List Arg) := cbsOf s.trace

theorem cbsOf_append (a b : Trace) : cbsOf (a ++ b) = cbsOf a ++ cbsOf b := by simp [cbsOf]

@[simp] theorem cbs_emit_cb (s : St) (c : Cb) (a : List Arg) : cbs (s.emit (.cb c a)) = cbs s ++ [(c, a)] := by
  simp [cbs, cbsOf, St.emit]

theorem cbs_emit_other (s : St) (e : Ev) (h : ∀ c a, e ≠ .cb c a) : cbs (s.emit e) = cbs s := by
  simp only [cbs, cbsOf, St.emit, List.filterMap_append, List.filterMap_cons, List.filterMap_nil]
  cases e <;> simp_all

/-- what the low-level functions (time, transport, ping thread) leave alone -/
structure Frame (s s' : St) : Prop where
  hdt : s'.hasDoneTeardown = s.hasDoneTeardown
  kr : s'.keepRunning = s.keepRunning
  he : s'.hasErrored = s.hasErrored
  cb : cbs s' = cbs s
  pn : s.ping = none → s'.ping = none
  sn : s.sock = none → s'.sock = none
  calls : s'.calls = s.calls

theorem Frame.refl (s : St) : Frame s s := ⟨rfl, rfl, rfl, rfl, id, id, rfl⟩

theorem Frame.trans {a b c : St} (h1 : Frame a b) (h2 : Frame b c) : Frame a c :=
  ⟨h2.hdt.trans h1.hdt, h2.kr.trans h1.kr, h2.he.trans h1.he, h2.cb.trans h1.cb,
   fun h => h2.pn (h1.pn h), fun h => h2.sn (h1.sn h), h2.calls.trans h1.calls⟩

theorem frame_emit (s : St) (e : Ev) (h : ∀ c a, e ≠ .cb c a) : Frame s (s.emit e) :=
  ⟨rfl, rfl, rfl, cbs_emit_other s e h, id, id, rfl⟩

/-- closes a `Frame` goal after the function has been unfolded -/
macro "frame_auto" : tactic =>
  `(tactic| (constructor <;> (try intro h) <;> (try simp only []) <;> (repeat' split) <;>
      simp_all [cbs, cbsOf, St.emit, St.writable]))

theorem frame_pingFire (c : Cfg) (s : St) (p : PingTh) (hp : s.ping = some p) : Frame s (pingFire c s p) := by
  unfold pingFire
  frame_auto

theorem frame_advance (c : Cfg) : ∀ (n : Nat) (s : St) (t : Nat), Frame s (advance c n s t) := by
  intro n
  induction n with
  | zero => intro s t; rw [advance]; frame_auto
  | succ m ih =>
    intro s t
    rw [advance]
    split
    · frame_auto
    · rename_i p hp
      split
      · exact (frame_pingFire c s p hp).trans (ih _ t)
      · split
        · split
          · rename_i rest hsc
            have f1 : Frame s { s with sched := rest } := by frame_auto
            exact f1.trans ((frame_pingFire c { s with sched := rest } p hp).trans (ih _ t))
          · frame_auto
          · frame_auto
        · frame_auto

theorem frame_waitUntil (c : Cfg) (s : St) (t : Nat) : Frame s (waitUntil c s t).1 := by
  unfold waitUntil
  split
  · have f1 : Frame s { s with sched := [] } := by frame_auto
    exact f1.trans ((frame_advance c _ _ _).trans (frame_emit _ _ (by intros; simp)))
  · exact frame_advance c _ _ _

theorem frame_stopPing (s : St) : Frame s (stopPing s) := by
  unfold stopPing
  frame_auto

theorem stopPing_ping (s : St) : (stopPing s).ping = none := by
  unfold stopPing
  cases hp : s.ping <;> simp [hp]

theorem frame_closeTransport (s : St) : Frame s (closeTransport s) := by
  unfold closeTransport
  frame_auto

theorem frame_dropSock (s : St) : Frame s (dropSock s) := by
  unfold dropSock
  frame_auto

theorem dropSock_sock (s : St) : (dropSock s).sock = none := by
  unfold dropSock
  cases hs : s.sock with
  | none => simp [hs]
  | some w => simp only []; split <;> rfl

end WS.Lemmas.App

namespace WS.Lemmas.App
open WS WS.Model.App

theorem frame_closeWait (c : Cfg) (start : Nat) : ∀ (evs : List TEv) (s : St), Frame s (closeWait c start evs s).1 := by
  intro evs
  induction evs with
  | nil =>
    intro s
    rw [closeWait]
    split
    · exact frame_waitUntil c s _
    · exact Frame.refl s
  | cons e rest ih =>
    intro s
    rw [closeWait]
    by_cases h1 : s.now - start < secs Gen.closeTimeoutDefault
    · simp only [h1, ↓reduceIte]
      by_cases h2 : s.arr + e.dt ≤ s.now + secs Gen.closeTimeoutDefault
      · simp only [h2, ↓reduceIte]
        have fw := frame_waitUntil c s (s.arr + e.dt)
        rcases hw : waitUntil c s (s.arr + e.dt) with ⟨s1, ok⟩
        rw [hw] at fw
        simp only [] at fw ⊢
        cases ok with
        | false => simpa using fw
        | true =>
          simp only [Bool.not_true, Bool.false_eq_true, ↓reduceIte]
          have f2 : Frame s1 { s1 with evs := rest, arr := s.arr + e.dt } := by frame_auto
          cases e.ev with
          | close b => exact fw.trans f2
          | eof => exact fw.trans (f2.trans (frame_closeTransport _))
          | reset =>
            refine fw.trans (f2.trans ?_)
            frame_auto
          | protoError => exact fw.trans f2
          | message op p f => exact fw.trans (f2.trans (ih _))
          | ping p => exact fw.trans (f2.trans (ih _))
          | pong p => exact fw.trans (f2.trans (ih _))
          | payloadError => exact fw.trans (f2.trans (ih _))
          | part => exact fw.trans (f2.trans (ih _))
      · simp only [h2, ↓reduceIte]
        exact frame_waitUntil c s _
    · simp only [h1, ↓reduceIte]
      exact Frame.refl s

theorem frame_wsClose (c : Cfg) (s : St) : Frame s (wsClose c s).1 := by
  unfold wsClose
  cases hs : s.sock with
  | none => exact Frame.refl s
  | some w =>
    simp only []
    split
    · exact Frame.refl s
    · have f1 : Frame s { s with sock := some { w with connected := false } } := by
        constructor <;> simp_all [cbs]
      split
      · have f2 := frame_emit { s with sock := some { w with connected := false } }
          (.wrote Gen.opcodeClose (beN 2 Gen.statusNormal)) (by intros; simp)
        have f3 := frame_closeWait c
          (({ s with sock := some { w with connected := false } } : St).emit (.wrote Gen.opcodeClose (beN 2 Gen.statusNormal))).now
          (({ s with sock := some { w with connected := false } } : St).emit (.wrote Gen.opcodeClose (beN 2 Gen.statusNormal))).evs
          (({ s with sock := some { w with connected := false } } : St).emit (.wrote Gen.opcodeClose (beN 2 Gen.statusNormal)))
        rcases hcw : closeWait c _ _ _ with ⟨s2, ok⟩
        rw [hcw] at f3
        simp only [] at f3 ⊢
        cases ok with
        | false => exact f1.trans (f2.trans f3)
        | true => exact f1.trans (f2.trans (f3.trans (frame_closeTransport _)))
      · exact f1.trans (frame_closeTransport _)

/-- `app.close()`: keep_running cleared; nothing else of the bookkeeping changes -/
structure CloseFrame (s s' : St) : Prop where
  hdt : s'.hasDoneTeardown = s.hasDoneTeardown
  kr : s'.keepRunning = false
  he : s'.hasErrored = s.hasErrored
  cb : cbs s' = cbs s
  pn : s.ping = none → s'.ping = none
  sn : s.sock = none → s'.sock = none
  calls : s'.calls = s.calls

theorem frame_closeSock (c : Cfg) (s : St) : Frame s (closeSock c s).1 := by
  unfold closeSock
  split
  · exact Frame.refl s
  · have f1 := frame_wsClose c s
    rcases hw : wsClose c s with ⟨s1, ok⟩
    rw [hw] at f1
    simp only [] at f1 ⊢
    cases ok with
    | false => simpa using f1
    | true => simpa using f1.trans (frame_dropSock s1)

theorem closeSock_sock (c : Cfg) (s : St) (h : (closeSock c s).2 = true) : (closeSock c s).1.sock = none := by
  unfold closeSock at h ⊢
  cases hs : s.sock with
  | none => simpa [hs] using hs
  | some w =>
    simp only [hs] at h ⊢
    generalize wsClose c s = x at h ⊢
    rcases x with ⟨s1, ok⟩
    cases ok <;> simp_all [dropSock_sock]

theorem appClose_frame (c : Cfg) (s : St) : CloseFrame s (appClose c s).1 := by
  unfold appClose
  have f := frame_closeSock c { s with keepRunning := false }
  exact ⟨f.hdt, f.kr, f.he, f.cb, f.pn, f.sn, f.calls⟩

/-- after a completed `app.close()` the socket reference is gone -/
theorem appClose_sock (c : Cfg) (s : St) (h : (appClose c s).2 = true) : (appClose c s).1.sock = none :=
  closeSock_sock c _ h

end WS.Lemmas.App

namespace WS.Lemmas.App
open WS WS.Model.App

/-- without a ping thread, zeroed `last_ping_tm` / `last_pong_tm` stay zeroed (time, transport, close) -/
def ZeroLP (s s' : St) : Prop :=
  s.ping = none → s.lastPing = 0 → s.lastPong = 0 → s'.ping = none ∧ s'.lastPing = 0 ∧ s'.lastPong = 0

theorem ZeroLP.refl (s : St) : ZeroLP s s := fun a b c => ⟨a, b, c⟩
theorem ZeroLP.trans {a b c : St} (h1 : ZeroLP a b) (h2 : ZeroLP b c) : ZeroLP a c := fun x y z =>
  let ⟨p, q, r⟩ := h1 x y z; h2 p q r

theorem zlp_id (s s' : St) (h1 : s'.ping = s.ping) (h2 : s'.lastPing = s.lastPing) (h3 : s'.lastPong = s.lastPong) :
    ZeroLP s s' := fun a b c => ⟨h1 ▸ a, h2 ▸ b, h3 ▸ c⟩

theorem zlp_advance (c : Cfg) (n : Nat) (s : St) (t : Nat) : ZeroLP s (advance c n s t) := by
  intro hp h1 h2
  cases n <;> simp [advance, hp, h1, h2]

theorem zlp_waitUntil (c : Cfg) (s : St) (t : Nat) : ZeroLP s (waitUntil c s t).1 := by
  intro hp h1 h2
  unfold waitUntil
  split
  · have := zlp_advance c (c.horizon + 2) { s with sched := [] } (c.horizon + 1) hp h1 h2
    simpa [St.emit] using this
  · exact zlp_advance c _ s t hp h1 h2

theorem zlp_closeTransport (s : St) : ZeroLP s (closeTransport s) := by
  intro hp h1 h2
  unfold closeTransport
  split
  · split <;> simp_all [St.emit]
  · exact ⟨hp, h1, h2⟩

theorem zlp_dropSock (s : St) : ZeroLP s (dropSock s) := by
  intro hp h1 h2
  unfold dropSock
  split
  · split <;> simp_all [St.emit]
  · exact ⟨hp, h1, h2⟩

theorem zlp_closeWait (c : Cfg) (start : Nat) : ∀ (evs : List TEv) (s : St), ZeroLP s (closeWait c start evs s).1 := by
  intro evs
  induction evs with
  | nil =>
    intro s
    rw [closeWait]
    split
    · exact zlp_waitUntil c s _
    · exact ZeroLP.refl s
  | cons e rest ih =>
    intro s
    rw [closeWait]
    by_cases h1 : s.now - start < secs Gen.closeTimeoutDefault
    · simp only [h1, ↓reduceIte]
      by_cases h2 : s.arr + e.dt ≤ s.now + secs Gen.closeTimeoutDefault
      · simp only [h2, ↓reduceIte]
        have fw := zlp_waitUntil c s (s.arr + e.dt)
        rcases hw : waitUntil c s (s.arr + e.dt) with ⟨s1, ok⟩
        rw [hw] at fw
        simp only [] at fw ⊢
        cases ok with
        | false => simpa using fw
        | true =>
          simp only [Bool.not_true, Bool.false_eq_true, ↓reduceIte]
          have f2 : ZeroLP s1 { s1 with evs := rest, arr := s.arr + e.dt } := zlp_id _ _ rfl rfl rfl
          cases e.ev with
          | close b => exact fw.trans f2
          | eof => exact fw.trans (f2.trans (zlp_closeTransport _))
          | reset => exact fw.trans (f2.trans (zlp_id _ _ rfl rfl rfl))
          | protoError => exact fw.trans f2
          | message op p f => exact fw.trans (f2.trans (ih _))
          | ping p => exact fw.trans (f2.trans (ih _))
          | pong p => exact fw.trans (f2.trans (ih _))
          | payloadError => exact fw.trans (f2.trans (ih _))
          | part => exact fw.trans (f2.trans (ih _))
      · simp only [h2, ↓reduceIte]
        exact zlp_waitUntil c s _
    · simp only [h1, ↓reduceIte]
      exact ZeroLP.refl s

theorem zlp_wsClose (c : Cfg) (s : St) : ZeroLP s (wsClose c s).1 := by
  unfold wsClose
  cases hs : s.sock with
  | none => exact ZeroLP.refl s
  | some w =>
    simp only []
    split
    · exact ZeroLP.refl s
    · have f1 : ZeroLP s { s with sock := some { w with connected := false } } := zlp_id _ _ rfl rfl rfl
      split
      · have f2 : ZeroLP { s with sock := some { w with connected := false } }
            (({ s with sock := some { w with connected := false } } : St).emit (.wrote Gen.opcodeClose (beN 2 Gen.statusNormal))) :=
          zlp_id _ _ rfl rfl rfl
        have f3 := zlp_closeWait c
          (({ s with sock := some { w with connected := false } } : St).emit (.wrote Gen.opcodeClose (beN 2 Gen.statusNormal))).now
          (({ s with sock := some { w with connected := false } } : St).emit (.wrote Gen.opcodeClose (beN 2 Gen.statusNormal))).evs
          (({ s with sock := some { w with connected := false } } : St).emit (.wrote Gen.opcodeClose (beN 2 Gen.statusNormal)))
        rcases hcw : closeWait c _ _ _ with ⟨s2, ok⟩
        rw [hcw] at f3
        simp only [] at f3 ⊢
        cases ok with
        | false => exact f1.trans (f2.trans f3)
        | true => exact f1.trans (f2.trans (f3.trans (zlp_closeTransport _)))
      · exact f1.trans (zlp_closeTransport _)

theorem zlp_closeSock (c : Cfg) (s : St) : ZeroLP s (closeSock c s).1 := by
  unfold closeSock
  split
  · exact ZeroLP.refl s
  · have f1 := zlp_wsClose c s
    rcases hw : wsClose c s with ⟨s1, ok⟩
    rw [hw] at f1
    simp only [] at f1 ⊢
    cases ok with
    | false => simpa using f1
    | true => simpa using f1.trans (zlp_dropSock s1)

theorem zlp_appClose (c : Cfg) (s : St) : ZeroLP s (appClose c s).1 := by
  unfold appClose
  exact (zlp_id s { s with keepRunning := false } rfl rfl rfl).trans (zlp_closeSock c _)

end WS.Lemmas.App
