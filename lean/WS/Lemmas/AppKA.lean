/-
  WS.Lemmas.AppKA — keepalive WITHOUT a ping timeout does not interfere with the run: project away the ping thread
  (its state, its stamps, its schedule, its trace events) and the run with `ping_interval = iv` IS the run with
  `ping_interval = 0`, function by function.  `P (f c s) = f c₀ (P s)`.
-/
import WS.Lemmas.AppBasic
namespace WS.Lemmas.App.KA
open WS WS.Model.App

/-- events of the keepalive machinery -/
def isKA : Ev → Bool
  | .pingStart => true
  | .pingStop => true
  | .wrote op _ => op == Gen.opcodePing
  | _ => false

def strip (tr : Trace) : Trace := tr.filter fun te => !isKA te.2

/-- the state with the ping thread projected away -/
def P (s : St) : St :=
  { s with ping := none, lastPing := 0, lastPong := 0, sched := [], trace := strip s.trace }

/-- the configuration with keepalive off -/
def off (c : Cfg) : Cfg := { c with iv := 0 }

def PR {α : Type} (x : St × α) : St × α := (P x.1, x.2)

@[simp] theorem PR_mk {α : Type} (s : St) (a : α) : PR (s, a) = (P s, a) := rfl

theorem strip_snoc (tr : Trace) (t : Nat) (e : Ev) :
    strip (tr ++ [(t, e)]) = if isKA e then strip tr else strip tr ++ [(t, e)] := by
  simp only [strip, List.filter_append, List.filter_cons, List.filter_nil]
  cases isKA e <;> simp

theorem strip_idem (tr : Trace) : strip (strip tr) = strip tr := by simp [strip]

theorem P_idem (s : St) : P (P s) = P s := by simp [P, strip_idem]

theorem P_emit_ka (s : St) (e : Ev) (h : isKA e = true) : P (s.emit e) = P s := by
  simp [P, St.emit, strip_snoc, h]

theorem P_emit (s : St) (e : Ev) (h : isKA e = false) : P (s.emit e) = (P s).emit e := by
  simp [P, St.emit, strip_snoc, h]

theorem ka_ping (p : Bytes) : isKA (.wrote Gen.opcodePing p) = true := by simp [isKA]
theorem ka_close (p : Bytes) : isKA (.wrote Gen.opcodeClose p) = false := by
  have : (Gen.opcodeClose == Gen.opcodePing) = false := by decide
  simp [isKA, this]
theorem ka_pong (p : Bytes) : isKA (.wrote Gen.opcodePong p) = false := by
  have : (Gen.opcodePong == Gen.opcodePing) = false := by decide
  simp [isKA, this]

/-- two states with the same projection -/
theorem P_congr {s s' : St} (h : s' = s) : P s' = P s := by rw [h]

theorem P_ext {x y : St} (h1 : x.now = y.now) (h2 : x.keepRunning = y.keepRunning) (h3 : x.sock = y.sock)
    (h4 : x.hasErrored = y.hasErrored) (h5 : x.hasDoneTeardown = y.hasDoneTeardown) (h6 : x.calls = y.calls)
    (h7 : x.dials = y.dials) (h8 : x.nextIdx = y.nextIdx) (h9 : x.evs = y.evs) (h10 : x.arr = y.arr)
    (h11 : strip x.trace = strip y.trace) : P x = P y := by
  simp only [P, h1, h2, h3, h4, h5, h6, h7, h8, h9, h10, h11]

@[simp] theorem isKA_ping (p : Bytes) : isKA (.wrote Gen.opcodePing p) = true := ka_ping p

/-- closes the field goals of `P_ext` after the function has been unfolded -/
macro "ka_fields" : tactic =>
  `(tactic| (all_goals (try simp only []) <;> (repeat' split) <;> simp_all [St.emit, strip_snoc, isKA]))

theorem P_pingFire (c : Cfg) (s : St) (p : PingTh) :
    P (pingFire c s p) = { P s with now := max s.now p.wake } := by
  show P (pingFire c s p) = P { s with now := max s.now p.wake }
  apply P_ext <;> unfold pingFire
  ka_fields

theorem pingFire_now (c : Cfg) (s : St) (p : PingTh) : (pingFire c s p).now = max s.now p.wake := by
  unfold pingFire
  simp only []
  split
  · rfl
  · split
    · rfl
    · cases hs : s.sock with
      | none => rfl
      | some w =>
        simp only []
        split <;> rfl

theorem P_advance (c : Cfg) : ∀ (n : Nat) (s : St) (t : Nat),
    P (advance c n s t) = { P s with now := max s.now t } := by
  intro n
  induction n with
  | zero => intro s t; rw [advance]; rfl
  | succ m ih =>
    intro s t
    rw [advance]
    split
    · rfl
    · rename_i p hp
      split
      · rename_i hlt
        rw [ih, P_pingFire, pingFire_now]
        have : max (max s.now p.wake) t = max s.now t := by omega
        simp only [this]
      · split
        · rename_i heq
          split
          · rw [ih, P_pingFire, pingFire_now]
            have : max (max s.now p.wake) t = max s.now t := by
              show max (max s.now p.wake) t = max s.now t
              omega
            simp only [this]
            rfl
          · rfl
          · rfl
        · rfl

theorem advance_none (c : Cfg) (n : Nat) (s : St) (t : Nat) (h : s.ping = none) :
    advance c n s t = { s with now := max s.now t } := by
  cases n <;> simp [advance, h]

theorem P_waitUntil (c : Cfg) (s : St) (t : Nat) : PR (waitUntil c s t) = waitUntil (off c) (P s) t := by
  unfold waitUntil
  show PR (if t > c.horizon then _ else _) = if t > c.horizon then _ else _
  by_cases h : t > c.horizon
  · simp only [h, ↓reduceIte, PR_mk]
    rw [P_emit _ _ rfl, P_advance, advance_none _ _ _ _ rfl]
    rfl
  · simp only [h, ↓reduceIte, PR_mk]
    rw [P_advance, advance_none _ _ _ _ rfl]
    rfl

theorem P_stopPing (s : St) : P (stopPing s) = P s := by
  apply P_ext <;> unfold stopPing
  ka_fields

theorem stopPing_P (s : St) : stopPing (P s) = P s := rfl

theorem P_startPing (c : Cfg) (s : St) : P (startPing c s) = P s := by
  apply P_ext <;> unfold startPing
  ka_fields

theorem P_closeTransport (s : St) : P (closeTransport s) = closeTransport (P s) := by
  unfold closeTransport
  show P (match s.sock with | some w => _ | none => s) = match s.sock with | some w => _ | none => P s
  cases s.sock with
  | none => rfl
  | some w =>
    simp only []
    by_cases h : w.isOpen = true
    · simp only [h, ↓reduceIte]; rw [P_emit _ _ rfl]; rfl
    · simp only [h]; rfl

theorem P_dropSock (s : St) : P (dropSock s) = dropSock (P s) := by
  unfold dropSock
  show P (match s.sock with | some w => _ | none => s) = match s.sock with | some w => _ | none => P s
  cases s.sock with
  | none => rfl
  | some w =>
    simp only []
    by_cases h : w.isOpen = true
    · simp only [h, ↓reduceIte]; rw [P_emit _ _ rfl]; rfl
    · simp only [h]; rfl

@[simp] theorem P_now (s : St) : (P s).now = s.now := rfl
@[simp] theorem P_keepRunning (s : St) : (P s).keepRunning = s.keepRunning := rfl
@[simp] theorem P_sock (s : St) : (P s).sock = s.sock := rfl
@[simp] theorem P_hasErrored (s : St) : (P s).hasErrored = s.hasErrored := rfl
@[simp] theorem P_hdt (s : St) : (P s).hasDoneTeardown = s.hasDoneTeardown := rfl
@[simp] theorem P_calls (s : St) : (P s).calls = s.calls := rfl
@[simp] theorem P_dials (s : St) : (P s).dials = s.dials := rfl
@[simp] theorem P_nextIdx (s : St) : (P s).nextIdx = s.nextIdx := rfl
@[simp] theorem P_evs (s : St) : (P s).evs = s.evs := rfl
@[simp] theorem P_arr (s : St) : (P s).arr = s.arr := rfl
@[simp] theorem P_writable (s : St) : (P s).writable = s.writable := rfl
@[simp] theorem off_horizon (c : Cfg) : (off c).horizon = c.horizon := rfl
@[simp] theorem off_has (c : Cfg) : (off c).has = c.has := rfl
@[simp] theorem off_plan (c : Cfg) : (off c).plan = c.plan := rfl
@[simp] theorem off_to (c : Cfg) : (off c).to = c.to := rfl
@[simp] theorem off_reconnect (c : Cfg) : (off c).reconnect = c.reconnect := rfl
@[simp] theorem off_ssl (c : Cfg) : (off c).ssl = c.ssl := rfl
@[simp] theorem off_fuel (c : Cfg) : (off c).fuel = c.fuel := rfl
@[simp] theorem off_act (c : Cfg) (cb : Cb) (k : Nat) : (off c).act cb k = c.act cb k := rfl

theorem P_closeWait (c : Cfg) (start : Nat) : ∀ (evs : List TEv) (s : St),
    PR (closeWait c start evs s) = closeWait (off c) start evs (P s) := by
  intro evs
  induction evs with
  | nil =>
    intro s
    rw [closeWait, closeWait]
    simp only [P_now]
    by_cases h : s.now - start < secs Gen.closeTimeoutDefault
    · simp only [h, ↓reduceIte]
      rw [← P_waitUntil]
    · simp only [h, ↓reduceIte]; rfl
  | cons e rest ih =>
    intro s
    rw [closeWait, closeWait]
    simp only [P_now, P_arr]
    by_cases h : s.now - start < secs Gen.closeTimeoutDefault
    · simp only [h, ↓reduceIte]
      by_cases h2 : s.arr + e.dt ≤ s.now + secs Gen.closeTimeoutDefault
      · simp only [h2, ↓reduceIte]
        rcases hx : waitUntil c s (s.arr + e.dt) with ⟨s1, ok⟩
        have hy : waitUntil (off c) (P s) (s.arr + e.dt) = (P s1, ok) := by rw [← P_waitUntil, hx]; rfl
        simp only [hy, PR_mk]
        cases ok with
        | false => rfl
        | true =>
          simp only [Bool.not_true, Bool.false_eq_true, ↓reduceIte]
          have hP : P { s1 with evs := rest, arr := s.arr + e.dt } = { P s1 with evs := rest, arr := s.arr + e.dt } := rfl
          cases hev : e.ev with
          | close b => simp only [PR_mk, hP]
          | eof => simp only [PR_mk, P_closeTransport, hP]
          | reset => simp only [PR_mk]; rfl
          | protoError => simp only [PR_mk, hP]
          | message op p f => simp only []; rw [ih, hP]
          | ping p => simp only []; rw [ih, hP]
          | pong p => simp only []; rw [ih, hP]
          | payloadError => simp only []; rw [ih, hP]
          | part => simp only []; rw [ih, hP]
      · simp only [h2, ↓reduceIte]
        rw [← P_waitUntil]
    · simp only [h, ↓reduceIte]; rfl

theorem P_wsClose (c : Cfg) (s : St) : PR (wsClose c s) = wsClose (off c) (P s) := by
  unfold wsClose
  simp only [P_sock]
  cases hs : s.sock with
  | none => rfl
  | some w =>
    simp only []
    by_cases hc : (!w.connected) = true
    · simp only [hc, ↓reduceIte]; rfl
    · simp only [hc, ↓reduceIte]
      have hP : P { s with sock := some { w with connected := false } } = { P s with sock := some { w with connected := false } } := rfl
      have hwr : ({ P s with sock := some { w with connected := false } } : St).writable =
          ({ s with sock := some { w with connected := false } } : St).writable := rfl
      rw [hwr]
      by_cases hw : ({ s with sock := some { w with connected := false } } : St).writable = true
      · simp only [hw, ↓reduceIte]
        have hE : P (({ s with sock := some { w with connected := false } } : St).emit (.wrote Gen.opcodeClose (beN 2 Gen.statusNormal)))
            = ({ P s with sock := some { w with connected := false } } : St).emit (.wrote Gen.opcodeClose (beN 2 Gen.statusNormal)) := by
          rw [P_emit _ _ (ka_close _)]; rfl
        rcases hx : closeWait c
            (({ s with sock := some { w with connected := false } } : St).emit (.wrote Gen.opcodeClose (beN 2 Gen.statusNormal))).now
            (({ s with sock := some { w with connected := false } } : St).emit (.wrote Gen.opcodeClose (beN 2 Gen.statusNormal))).evs
            (({ s with sock := some { w with connected := false } } : St).emit (.wrote Gen.opcodeClose (beN 2 Gen.statusNormal)))
          with ⟨s2, ok⟩
        have hy := P_closeWait c
            (({ s with sock := some { w with connected := false } } : St).emit (.wrote Gen.opcodeClose (beN 2 Gen.statusNormal))).now
            (({ s with sock := some { w with connected := false } } : St).emit (.wrote Gen.opcodeClose (beN 2 Gen.statusNormal))).evs
            (({ s with sock := some { w with connected := false } } : St).emit (.wrote Gen.opcodeClose (beN 2 Gen.statusNormal)))
        rw [hx, hE] at hy
        simp only [PR_mk] at hy
        have hy' : closeWait (off c)
            (({ P s with sock := some { w with connected := false } } : St).emit (.wrote Gen.opcodeClose (beN 2 Gen.statusNormal))).now
            (({ P s with sock := some { w with connected := false } } : St).emit (.wrote Gen.opcodeClose (beN 2 Gen.statusNormal))).evs
            (({ P s with sock := some { w with connected := false } } : St).emit (.wrote Gen.opcodeClose (beN 2 Gen.statusNormal)))
            = (P s2, ok) := hy.symm
        simp only [hy']
        cases ok with
        | false => rfl
        | true => simp only [Bool.not_true, Bool.false_eq_true, ↓reduceIte, PR_mk, P_closeTransport]
      · simp only [hw, Bool.false_eq_true, ↓reduceIte, PR_mk, P_closeTransport, hP]

theorem P_closeSock (c : Cfg) (s : St) : PR (closeSock c s) = closeSock (off c) (P s) := by
  unfold closeSock
  simp only [P_sock]
  cases hs : s.sock with
  | none => rfl
  | some w =>
    simp only []
    rcases hx : wsClose c s with ⟨s1, ok⟩
    have hy : wsClose (off c) (P s) = (P s1, ok) := by rw [← P_wsClose, hx]; rfl
    simp only [hy]
    cases ok with
    | false => rfl
    | true => simp only [Bool.not_true, Bool.false_eq_true, ↓reduceIte, PR_mk, P_dropSock]

theorem P_appClose (c : Cfg) (s : St) : PR (appClose c s) = appClose (off c) (P s) := by
  unfold appClose
  rw [P_closeSock]; rfl

theorem P_rawCall (c : Cfg) (s : St) (cb : Cb) (args : List Arg) :
    PR (rawCall c s cb args) = rawCall (off c) (P s) cb args := by
  unfold rawCall
  simp only [P_calls, off_act]
  have hE : P (({ s with calls := bump s.calls cb } : St).emit (.cb cb args)) =
      ({ P s with calls := bump s.calls cb } : St).emit (.cb cb args) := by
    rw [P_emit _ _ rfl]; rfl
  cases c.act cb (s.calls cb) with
  | ok => simp only [PR_mk, hE]
  | raise => simp only [PR_mk, hE]
  | ki => simp only [PR_mk, hE]
  | close =>
    simp only []
    rcases hx : appClose c (({ s with calls := bump s.calls cb } : St).emit (.cb cb args)) with ⟨s1, ok⟩
    have hy : appClose (off c) (({ P s with calls := bump s.calls cb } : St).emit (.cb cb args)) = (P s1, ok) := by
      rw [← hE, ← P_appClose, hx]; rfl
    simp only [hy]
    cases ok <;> rfl

theorem P_callback (c : Cfg) (s : St) (cb : Cb) (args : List Arg) :
    PR (callback c s cb args) = callback (off c) (P s) cb args := by
  unfold callback
  simp only [off_has]
  by_cases hh : (!c.has cb) = true
  · simp only [hh, ↓reduceIte]; rfl
  · simp only [hh, ↓reduceIte]
    rcases hx : rawCall c s cb args with ⟨s1, r⟩
    have hy : rawCall (off c) (P s) cb args = (P s1, r) := by rw [← P_rawCall, hx]; rfl
    simp only [hy]
    cases r with
    | ok u => rfl
    | halt => rfl
    | exc e =>
      cases e <;> simp only [Bool.false_eq_true, ↓reduceIte] <;>
        first
        | rfl
        | (by_cases ho : c.has .onError = true
           · simp only [ho, ↓reduceIte]; exact P_rawCall c s1 _ _
           · simp only [ho]; rfl)

theorem P_teardown (c : Cfg) (s : St) (frame : Option Bytes) :
    PR (teardown c s frame) = teardown (off c) (P s) frame := by
  unfold teardown
  simp only [P_hdt, gen_guard, gen_tdStops, Bool.true_and, ↓reduceIte]
  by_cases hd : s.hasDoneTeardown = true
  · simp only [hd, ↓reduceIte]; rfl
  · simp only [hd, Bool.false_eq_true, ↓reduceIte]
    have h1 : P ({ stopPing { s with hasDoneTeardown := true } with keepRunning := false } : St) =
        ({ stopPing { P s with hasDoneTeardown := true } with keepRunning := false } : St) := by
      have := P_stopPing { s with hasDoneTeardown := true }
      show ({ P (stopPing { s with hasDoneTeardown := true }) with keepRunning := false } : St) = _
      rw [this]; rfl
    rcases hx : wsClose c { stopPing { s with hasDoneTeardown := true } with keepRunning := false } with ⟨s2, ok⟩
    have hy : wsClose (off c) { stopPing { P s with hasDoneTeardown := true } with keepRunning := false } = (P s2, ok) := by
      rw [← h1, ← P_wsClose, hx]; rfl
    simp only [hy]
    cases ok with
    | false => rfl
    | true =>
      simp only [Bool.not_true, Bool.false_eq_true, ↓reduceIte]
      rw [← P_dropSock]
      exact P_callback c _ _ _

theorem P_afterReport (c : Cfg) (s : St) (e : AExn) : PR (afterReport c s e) = afterReport (off c) (P s) e := by
  unfold afterReport
  simp only [off_reconnect]
  rcases hx : teardown c s none with ⟨s1, r⟩
  have hy : teardown (off c) (P s) none = (P s1, r) := by rw [← P_teardown, hx]; rfl
  simp only [hy]
  by_cases he : e = .ki
  · simp only [he, ↓reduceIte]
    cases r with
    | ok u => cases u; rfl
    | exc x => rfl
    | halt => rfl
  · simp only [he, ↓reduceIte]
    by_cases hr : c.reconnect ≠ 0
    · rw [if_pos hr, if_pos hr]; rfl
    · rw [if_neg hr, if_neg hr]; rfl

theorem P_handleDisconnectBody (c : Cfg) (s : St) (e : AExn) (rc : Bool) :
    PR (handleDisconnectBody c s e rc) = handleDisconnectBody (off c) (P s) e rc := by
  unfold handleDisconnectBody
  simp only [gen_dcErr, gen_dcStops, ↓reduceIte]
  have h1 : P (stopPing { s with hasErrored := true }) = stopPing { P s with hasErrored := true } := by
    rw [P_stopPing]; rfl
  cases rc with
  | true =>
    simp only [Bool.not_true, Bool.false_eq_true, ↓reduceIte]
    rw [← h1]; exact P_afterReport c _ e
  | false =>
    simp only [Bool.not_false, ↓reduceIte]
    rcases hx : callback c (stopPing { s with hasErrored := true }) .onError [.exn e] with ⟨s2, r⟩
    have hy : callback (off c) (stopPing { P s with hasErrored := true }) .onError [.exn e] = (P s2, r) := by
      rw [← h1, ← P_callback, hx]; rfl
    simp only [hy]
    cases r with
    | exc x => rfl
    | halt => rfl
    | ok u => cases u; exact P_afterReport c s2 e

theorem P_handleDisconnect (c : Cfg) (s : St) (e : AExn) (rc : Bool) :
    PR (handleDisconnect c s e rc) = handleDisconnect (off c) (P s) e rc := by
  unfold handleDisconnect
  simp only [P_keepRunning]
  by_cases h : (Gen.appCloseGuard && !s.keepRunning && e != .ki) = true
  · simp only [h, ↓reduceIte]; exact P_teardown c s none
  · simp only [h, ↓reduceIte]; exact P_handleDisconnectBody c s e rc

theorem P_asRead (v : Bool) (x : St × R Unit) : PR (asRead v x) = asRead v (PR x) := by
  rcases x with ⟨s, r⟩
  cases r with
  | ok u => cases u; rfl
  | exc e => rfl
  | halt => rfl

theorem P_deliverMessage (c : Cfg) (s : St) (op : Nat) (p : Bytes) (frag : Bool) :
    PR (deliverMessage c s op p frag) = deliverMessage (off c) (P s) op p frag := by
  unfold deliverMessage
  simp only [gen_msgOpcode, gen_dataFirst, ↓reduceIte]
  rcases hx : callback c s .onData [dataArg op p, .int op, .bool true] with ⟨s1, r⟩
  have hy : callback (off c) (P s) .onData [dataArg op p, .int op, .bool true] = (P s1, r) := by
    rw [← P_callback, hx]; rfl
  simp only [hy]
  cases r with
  | ok u => cases u; exact P_callback c s1 _ _
  | exc e => rfl
  | halt => rfl

@[simp] theorem gen_pongStamp : Gen.appPongStampWhenOutstanding = true := by decide

theorem P_handleEv (c : Cfg) (s : St) (ev : SrvEv) : PR (handleEv c s ev) = handleEv (off c) (P s) ev := by
  cases ev with
  | part => rfl
  | message op p frag =>
    simp only [handleEv]; rw [P_asRead, P_deliverMessage]
  | ping p =>
    simp only [handleEv, P_writable]
    rw [P_asRead]
    by_cases hw : s.writable = true
    · simp only [hw, ↓reduceIte]; rw [P_callback, P_emit _ _ (ka_pong p)]
    · simp only [hw, Bool.false_eq_true, ↓reduceIte]; rw [P_callback]
  | pong p =>
    simp only [handleEv]
    rw [P_asRead, P_callback]
    have : ({ P s with lastPong := pongStamp (P s) } : St) = P s := by
      simp [pongStamp, P]
    rw [this]; rfl
  | close body =>
    simp only [handleEv, gen_closeToTeardown, ↓reduceIte]
    rw [P_asRead]
    have hP : P { s with sock := s.sock.map fun (w : WSock) => { w with connected := false } } =
        { P s with sock := s.sock.map fun (w : WSock) => { w with connected := false } } := rfl
    have hwr : ({ P s with sock := (P s).sock.map fun (w : WSock) => { w with connected := false } } : St).writable =
        ({ s with sock := s.sock.map fun (w : WSock) => { w with connected := false } } : St).writable := rfl
    rw [hwr]
    by_cases hw : ({ s with sock := s.sock.map fun (w : WSock) => { w with connected := false } } : St).writable = true
    · simp only [hw, ↓reduceIte]
      rw [P_teardown, P_emit _ _ (ka_close _)]; rfl
    · simp only [hw, Bool.false_eq_true, ↓reduceIte]
      rw [P_teardown]; rfl
  | eof => simp only [handleEv, PR_mk, P_closeTransport]
  | reset => rfl
  | protoError => rfl
  | payloadError => rfl

theorem P_readEvents (c : Cfg) : ∀ (evs : List TEv) (s : St),
    PR (readEvents c evs s) = readEvents (off c) evs (P s) := by
  intro evs
  induction evs with
  | nil =>
    intro s
    rw [readEvents, readEvents]
    simp only [off_horizon]
    rcases hx : waitUntil c s (c.horizon + 1) with ⟨s1, ok⟩
    have hy : waitUntil (off c) (P s) (c.horizon + 1) = (P s1, ok) := by rw [← P_waitUntil, hx]; rfl
    simp only [hy]; rfl
  | cons e rest ih =>
    intro s
    rw [readEvents, readEvents]
    simp only [P_now, P_arr]
    have key : ∀ (s1 : St) (ok : Bool),
        PR (if (!ok) = true then (s1, R.halt) else
            match e.ev with
            | .part => readEvents c rest { s1 with evs := rest, arr := s.arr + e.dt }
            | ev => handleEv c { s1 with evs := rest, arr := s.arr + e.dt } ev) =
        (if (!ok) = true then (P s1, R.halt) else
            match e.ev with
            | .part => readEvents (off c) rest { P s1 with evs := rest, arr := s.arr + e.dt }
            | ev => handleEv (off c) { P s1 with evs := rest, arr := s.arr + e.dt } ev) := by
      intro s1 ok
      cases ok with
      | false => rfl
      | true =>
        simp only [Bool.not_true, Bool.false_eq_true, ↓reduceIte]
        have hP : P { s1 with evs := rest, arr := s.arr + e.dt } = { P s1 with evs := rest, arr := s.arr + e.dt } := rfl
        cases e.ev with
        | part => simp only []; rw [ih, hP]
        | message op p f => simp only []; rw [P_handleEv, hP]
        | ping p => simp only []; rw [P_handleEv, hP]
        | pong p => simp only []; rw [P_handleEv, hP]
        | close b => simp only []; rw [P_handleEv, hP]
        | eof => simp only []; rw [P_handleEv, hP]
        | reset => simp only []; rw [P_handleEv, hP]
        | protoError => simp only []; rw [P_handleEv, hP]
        | payloadError => simp only []; rw [P_handleEv, hP]
    by_cases h : s.arr + e.dt ≤ s.now
    · simp only [h, ↓reduceIte]
      exact key s true
    · simp only [h, ↓reduceIte]
      rcases hx : waitUntil c s (s.arr + e.dt) with ⟨s1, ok⟩
      have hy : waitUntil (off c) (P s) (s.arr + e.dt) = (P s1, ok) := by rw [← P_waitUntil, hx]; rfl
      simp only [hy]
      exact key s1 ok

theorem P_read (c : Cfg) (s : St) : PR (Model.App.read c s) = Model.App.read (off c) (P s) := by
  unfold Model.App.read
  simp only [P_keepRunning, P_sock, P_evs]
  by_cases hk : (!s.keepRunning) = true
  · simp only [hk, ↓reduceIte]; rw [P_asRead, P_teardown]
  · simp only [hk, ↓reduceIte]
    cases hs : s.sock with
    | none => rfl
    | some w => simp only []; exact P_readEvents c s.evs s

def selWake (c : Cfg) (s : St) : Nat :=
  match s.nextAt with
  | some t => if t ≤ s.now + selectTimeout c then max t s.now else s.now + selectTimeout c
  | none => s.now + selectTimeout c

theorem select_eq (c : Cfg) (s : St) : select c s =
    if c.ssl && s.pendingTls c then (s, some true)
    else if s.rawReadable c then (s, some true)
    else match waitUntil c s (selWake c s) with
      | (s1, ok) => if !ok then (s1, none) else (s1, some (s1.rawReadable c || s1.pendingTls c)) := rfl

theorem P_select (c : Cfg) (s : St) : PR (select c s) = select (off c) (P s) := by
  rw [select_eq, select_eq]
  have e1 : (P s).pendingTls (off c) = s.pendingTls c := rfl
  have e2 : (P s).rawReadable (off c) = s.rawReadable c := rfl
  have e3 : selWake (off c) (P s) = selWake c s := rfl
  simp only [e1, e2, e3, off_ssl]
  by_cases h1 : (c.ssl && s.pendingTls c) = true
  · simp only [h1, ↓reduceIte]; rfl
  · simp only [h1, Bool.false_eq_true, ↓reduceIte]
    by_cases h2 : s.rawReadable c = true
    · simp only [h2, ↓reduceIte]; rfl
    · simp only [h2, Bool.false_eq_true, ↓reduceIte]
      rcases hx : waitUntil c s (selWake c s) with ⟨s1, ok⟩
      have hy : waitUntil (off c) (P s) (selWake c s) = (P s1, ok) := by rw [← P_waitUntil, hx]; rfl
      simp only [hy]
      cases ok with
      | false => rfl
      | true => rfl

theorem checkFails_none (c : Cfg) (s : St) (h : c.to = none) : checkFails c s = false := by
  simp [checkFails, h]

theorem P_afterRead (c : Cfg) (hto : c.to = none) (k k' : St → St × R Unit) (x : St × R Bool)
    (hk : ∀ s1, PR (k s1) = k' (P s1)) : PR (afterRead c k x) = afterRead (off c) k' (PR x) := by
  rcases x with ⟨s, r⟩
  unfold afterRead
  cases r with
  | exc e => rfl
  | halt => rfl
  | ok b =>
    cases b with
    | false => rfl
    | true =>
      simp only [PR_mk, checkFails_none c _ hto, checkFails_none (off c) _ hto, Bool.false_eq_true, ↓reduceIte]
      exact hk s

theorem P_dispLoop (c : Cfg) (hto : c.to = none) : ∀ (n : Nat) (s : St),
    PR (dispLoop c n s) = dispLoop (off c) n (P s) := by
  intro n
  induction n with
  | zero =>
    intro s
    rw [dispLoop, dispLoop]
    simp only [PR_mk, P_emit s .outOfFuel rfl]
  | succ m ih =>
    intro s
    rw [dispLoop, dispLoop]
    simp only [P_keepRunning, P_sock, off_ssl]
    by_cases hk : (!s.keepRunning) = true
    · simp only [hk, ↓reduceIte]; rfl
    · simp only [hk, Bool.false_eq_true, ↓reduceIte]
      by_cases h2 : (c.ssl && s.sock.isNone) = true
      · simp only [h2, ↓reduceIte]; rfl
      · simp only [h2, Bool.false_eq_true, ↓reduceIte]
        rcases hx : select c s with ⟨s1, rd⟩
        have hy : select (off c) (P s) = (P s1, rd) := by rw [← P_select, hx]; rfl
        simp only [hy]
        cases rd with
        | none => rfl
        | some ready =>
          simp only []
          rw [P_afterRead c hto (dispLoop c m) (dispLoop (off c) m) _ ih]
          cases ready with
          | true => simp only [↓reduceIte]; rw [P_read]
          | false => rfl

theorem P_connect (s : St) : PR (connect s) = connect (P s) := by
  unfold connect
  cases hdl : s.dials with
  | nil => simp [PR, P, St.emit, strip, isKA, hdl]
  | cons d ds => cases d <;> simp [PR, P, St.emit, strip, isKA, hdl]

theorem P_release (s : St) (rc : Bool) : P (release s rc) = release (P s) rc := by
  unfold release
  simp only [P_sock]
  cases rc with
  | false => rfl
  | true =>
    simp only [↓reduceIte]
    cases hs : s.sock with
    | none => rfl
    | some w => simp only []; exact P_closeTransport s

theorem P_afterLoop (c : Cfg) (rc : Bool) (x : St × R Unit) : PR (afterLoop c rc x) = afterLoop (off c) rc (PR x) := by
  rcases x with ⟨s, r⟩
  unfold afterLoop
  cases r with
  | halt => rfl
  | exc e => exact P_handleDisconnect c s e rc
  | ok u => rfl

theorem P_afterOpen (c : Cfg) (hto : c.to = none) (rc : Bool) (x : St × R Unit) :
    PR (afterOpen c rc x) = afterOpen (off c) rc (PR x) := by
  rcases x with ⟨s, r⟩
  unfold afterOpen
  cases r with
  | halt => rfl
  | exc e => exact P_handleDisconnect c s e rc
  | ok u =>
    cases u
    simp only [PR_mk, P_sock, off_fuel]
    cases hs : s.sock with
    | none => simp only []; exact P_handleDisconnect c s _ rc
    | some w => simp only []; rw [P_afterLoop, P_dispLoop c hto]

theorem P_afterConnect (c : Cfg) (hto : c.to = none) (rc : Bool) (x : St × R Unit) :
    PR (afterConnect c rc x) = afterConnect (off c) rc (PR x) := by
  rcases x with ⟨s, r⟩
  unfold afterConnect
  cases r with
  | halt => rfl
  | exc e => exact P_handleDisconnect c s e rc
  | ok u =>
    cases u
    have hoff : (off c).iv = 0 := rfl
    have hcb : openCb (off c) rc = openCb c rc := rfl
    simp only [PR_mk, hoff, ne_eq, not_true_eq_false, ↓reduceIte, hcb]
    rw [P_afterOpen c hto, P_callback]
    by_cases hiv : c.iv = 0
    · simp only [hiv, not_true_eq_false, ↓reduceIte]
    · simp only [hiv, not_false_eq_true, ↓reduceIte, P_startPing]

theorem P_setSock (c : Cfg) (hto : c.to = none) (s : St) (rc : Bool) :
    PR (setSock c s rc) = setSock (off c) (P s) rc := by
  unfold setSock
  rw [P_afterConnect c hto, P_connect, P_release]

theorem P_rlNext (k k' : St → St × R Unit) (x : St × R Unit) (hk : ∀ s1, PR (k s1) = k' (P s1)) :
    PR (rlNext k x) = rlNext k' (PR x) := by
  rcases x with ⟨s, r⟩
  unfold rlNext
  cases r with
  | halt => rfl
  | exc e => rfl
  | ok u => cases u; exact hk s

theorem P_reconnectLoop (c : Cfg) (hto : c.to = none) : ∀ (n : Nat) (s : St),
    PR (reconnectLoop c n s) = reconnectLoop (off c) n (P s) := by
  intro n
  induction n with
  | zero =>
    intro s
    rw [reconnectLoop, reconnectLoop]
    simp only [PR_mk, P_emit s .outOfFuel rfl]
  | succ m ih =>
    intro s
    rw [reconnectLoop, reconnectLoop]
    simp only [P_keepRunning, off_reconnect]
    by_cases hk : (!s.keepRunning) = true
    · simp only [hk, ↓reduceIte]; rfl
    · simp only [hk, Bool.false_eq_true, ↓reduceIte]
      have hE : (P s).emit (.sleep c.reconnect) = P (s.emit (.sleep c.reconnect)) := (P_emit s _ rfl).symm
      rcases hx : waitUntil c (s.emit (.sleep c.reconnect)) ((s.emit (.sleep c.reconnect)).now + c.reconnect) with ⟨s2, ok⟩
      have hy : waitUntil (off c) ((P s).emit (.sleep c.reconnect)) (((P s).emit (.sleep c.reconnect)).now + c.reconnect) = (P s2, ok) := by
        have hn : ((P s).emit (.sleep c.reconnect)).now = (s.emit (.sleep c.reconnect)).now := rfl
        rw [hn, hE, ← P_waitUntil, hx]; rfl
      simp only [hy]
      cases ok with
      | false => rfl
      | true =>
        simp only [Bool.not_true, Bool.false_eq_true, ↓reduceIte]
        rw [P_rlNext (reconnectLoop c m) (reconnectLoop (off c) m) _ ih, P_setSock c hto]

theorem P_firstStage (c : Cfg) (hto : c.to = none) (s : St) : PR (firstStage c s) = firstStage (off c) (P s) := by
  unfold firstStage
  simp only [off_fuel]
  rcases hx : setSock c s false with ⟨s1, r⟩
  have hy : setSock (off c) (P s) false = (P s1, r) := by rw [← P_setSock c hto, hx]; rfl
  simp only [hy]
  cases r with
  | halt => rfl
  | exc e => rfl
  | ok u =>
    cases u
    simp only []
    by_cases hr : c.reconnect ≠ 0
    · have hr' : (off c).reconnect ≠ 0 := hr
      rw [if_pos hr, if_pos hr']; exact P_reconnectLoop c hto c.fuel s1
    · have hr' : ¬ (off c).reconnect ≠ 0 := hr
      rw [if_neg hr, if_neg hr']; rfl

theorem P_afterBody (c : Cfg) (x : St × R Unit) : PR (afterBody c x) = afterBody (off c) (PR x) := by
  rcases x with ⟨s1, r1⟩
  unfold afterBody
  simp only [gen_finally, ↓reduceIte, PR_mk]
  cases r1 with
  | halt => rfl
  | ok u => cases u; exact P_teardown c s1 none
  | exc e =>
    simp only []
    rcases hx : teardown c s1 none with ⟨s2, r2⟩
    have hy : teardown (off c) (P s1) none = (P s2, r2) := by rw [← P_teardown, hx]; rfl
    simp only [hy]
    cases r2 with
    | halt => rfl
    | ok u => cases u; exact P_teardown c s2 none
    | exc e2 =>
      simp only []
      rcases hx2 : teardown c s2 none with ⟨s3, r3⟩
      have hy2 : teardown (off c) (P s2) none = (P s3, r3) := by rw [← P_teardown, hx2]; rfl
      simp only [hy2]
      cases r3 with
      | halt => rfl
      | ok u => cases u; rfl
      | exc e3 => rfl

theorem P_runBody (c : Cfg) (hto : c.to = none) (s : St) : PR (runBody c s) = runBody (off c) (P s) := by
  unfold runBody
  rw [P_afterBody, P_firstStage c hto]

theorem P_prologue (s : St) : P (prologue s) = prologue (P s) := rfl

/-- the whole call: with no ping timeout and a non-negative interval, `run_forever(ping_interval = iv)` projected is
    `run_forever(ping_interval = 0)` of the projected state — same outcome, same trace but for the keepalive events. -/
theorem P_runForeverO (c : Cfg) (hto : c.to = none) (hiv : 0 ≤ c.iv) (s : St) :
    PR (runForeverO c s) = runForeverO (off c) (P s) := by
  unfold runForeverO
  have ha : argsAccepted c.iv c.to = true := by simp [argsAccepted, hto]; omega
  have ha' : argsAccepted (off c).iv (off c).to = true := by
    have : (off c).iv = 0 := rfl
    simp [argsAccepted, hto, this]
  simp only [ha, ha', Bool.not_true, Bool.false_eq_true, ↓reduceIte, P_sock]
  by_cases hs : s.sock.isSome = true
  · simp only [hs, ↓reduceIte, PR_mk]
    rw [P_emit s _ rfl]
  · simp only [hs, Bool.false_eq_true, ↓reduceIte]
    rcases hx : runBody c (prologue s) with ⟨s1, r⟩
    have hy : runBody (off c) (prologue (P s)) = (P s1, r) := by
      rw [← P_prologue, ← P_runBody c hto, hx]; rfl
    simp only [hy]
    cases r with
    | halt => rfl
    | ok u => cases u; simp only [PR_mk, P_hasErrored]; rw [P_emit s1 _ rfl]
    | exc e => simp only [PR_mk]; rw [P_emit s1 _ rfl]

end WS.Lemmas.App.KA
