/-
  WS.Lemmas.AppBasic — helper lemmas about WS.Model.App: generated shape facts as simp lemmas,
  behaviour of `_callback` under a plan whose callbacks only return or raise.
-/
import WS.Model.App
namespace WS.Lemmas.App
open WS WS.Model.App

/-! ### generated shape facts (they hold of the repaired source; a regression breaks these proofs) -/

@[simp] theorem gen_closeToTeardown : Gen.appCloseFrameToTeardown = true := by decide
@[simp] theorem gen_msgOpcode : Gen.appOnDataMsgOpcode = true := by decide
@[simp] theorem gen_dataFirst : Gen.appDataBeforeMessage = true := by decide
@[simp] theorem gen_resets : Gen.appResetsHasErrored = true := by decide
@[simp] theorem gen_guard : Gen.appTeardownGuard = true := by decide
@[simp] theorem gen_tdStops : Gen.appTeardownStopsPing = true := by decide
@[simp] theorem gen_dcErr : Gen.appDisconnectSetsErrored = true := by decide
@[simp] theorem gen_dcStops : Gen.appDisconnectStopsPing = true := by decide
@[simp] theorem gen_finally : Gen.appFinallyTeardown = true := by decide
@[simp] theorem gen_onCloseLast : Gen.appOnCloseLast = true := by decide

/-! ### plans -/

/-- action of callback `cb` at its `k`-th invocation -/
abbrev act (c : Cfg) (cb : Cb) (k : Nat) : Act := c.act cb k

/-- callbacks only return or raise; on_error and on_close only return -/
def Quiet (c : Cfg) : Prop :=
  (∀ cb k, act c cb k = .ok ∨ act c cb k = .raise) ∧ (∀ k, act c .onError k = .ok) ∧ (∀ k, act c .onClose k = .ok)

@[simp] theorem emit_trace (s : St) (e : Ev) : (s.emit e).trace = s.trace ++ [(s.now, e)] := rfl
@[simp] theorem emit_now (s : St) (e : Ev) : (s.emit e).now = s.now := rfl
@[simp] theorem emit_keepRunning (s : St) (e : Ev) : (s.emit e).keepRunning = s.keepRunning := rfl
@[simp] theorem emit_sock (s : St) (e : Ev) : (s.emit e).sock = s.sock := rfl
@[simp] theorem emit_hasErrored (s : St) (e : Ev) : (s.emit e).hasErrored = s.hasErrored := rfl
@[simp] theorem emit_hdt (s : St) (e : Ev) : (s.emit e).hasDoneTeardown = s.hasDoneTeardown := rfl
@[simp] theorem emit_ping (s : St) (e : Ev) : (s.emit e).ping = s.ping := rfl
@[simp] theorem emit_lastPing (s : St) (e : Ev) : (s.emit e).lastPing = s.lastPing := rfl
@[simp] theorem emit_lastPong (s : St) (e : Ev) : (s.emit e).lastPong = s.lastPong := rfl
@[simp] theorem emit_calls (s : St) (e : Ev) : (s.emit e).calls = s.calls := rfl
@[simp] theorem emit_dials (s : St) (e : Ev) : (s.emit e).dials = s.dials := rfl
@[simp] theorem emit_nextIdx (s : St) (e : Ev) : (s.emit e).nextIdx = s.nextIdx := rfl
@[simp] theorem emit_evs (s : St) (e : Ev) : (s.emit e).evs = s.evs := rfl
@[simp] theorem emit_arr (s : St) (e : Ev) : (s.emit e).arr = s.arr := rfl
@[simp] theorem emit_sched (s : St) (e : Ev) : (s.emit e).sched = s.sched := rfl

/-- the trace entries one `_callback` adds under a quiet plan -/
def cbTrace (c : Cfg) (calls : Cb → Nat) (t : Nat) (cb : Cb) (args : List Arg) : Trace :=
  if !c.has cb then [] else
  (t, .cb cb args) ::
    (if act c cb (calls cb) = .raise && c.has .onError then [(t, .cb .onError [.exn (.user cb (calls cb))])] else [])

/-- the invocation counters after that `_callback` -/
def cbCalls (c : Cfg) (calls : Cb → Nat) (cb : Cb) : Cb → Nat :=
  if !c.has cb then calls else
  if act c cb (calls cb) = .raise && c.has .onError then bump (bump calls cb) .onError else bump calls cb

theorem rawCall_ok (c : Cfg) (s : St) (cb : Cb) (args : List Arg) (h : act c cb (s.calls cb) = .ok) :
    rawCall c s cb args = ({ s with calls := bump s.calls cb, trace := s.trace ++ [(s.now, .cb cb args)] }, .ok ()) := by
  unfold rawCall
  simp only [h, St.emit]

theorem rawCall_raise (c : Cfg) (s : St) (cb : Cb) (args : List Arg) (h : act c cb (s.calls cb) = .raise) :
    rawCall c s cb args =
      ({ s with calls := bump s.calls cb, trace := s.trace ++ [(s.now, .cb cb args)] }, .exc (.user cb (s.calls cb))) := by
  unfold rawCall
  simp only [h, St.emit]

theorem bump_other (f : Cb → Nat) (a b : Cb) (h : b ≠ a) : bump f a b = f b := by simp [bump, h]
theorem bump_self (f : Cb → Nat) (a : Cb) : bump f a a = f a + 1 := by simp [bump]

/-- `_callback` under a quiet plan: returns normally; only the counters and the trace change -/
theorem callback_quiet (c : Cfg) (hq : Quiet c) (s : St) (cb : Cb) (args : List Arg) :
    callback c s cb args =
      ({ s with calls := cbCalls c s.calls cb, trace := s.trace ++ cbTrace c s.calls s.now cb args }, .ok ()) := by
  unfold callback cbTrace cbCalls
  by_cases hh : c.has cb = true
  · simp only [hh, Bool.not_true, Bool.false_eq_true, ↓reduceIte]
    rcases hq.1 cb (s.calls cb) with h | h
    · rw [rawCall_ok c s cb args h]
      simp [h]
    · rw [rawCall_raise c s cb args h]
      by_cases he : c.has .onError = true
      · have hne : cb ≠ .onError := by
          intro hc; subst hc; have := hq.2.1 (s.calls .onError); rw [this] at h; cases h
        have hok : act c .onError ((bump s.calls cb) .onError) = .ok := hq.2.1 _
        simp only [he, ↓reduceIte, h, Bool.and_self]
        rw [rawCall_ok c _ .onError _ hok]
        simp
      · simp [he, h]
  · simp [hh]

/-- while the run is still wanted, handleDisconnect is its body. -/
theorem handleDisconnect_running (c : Cfg) (s : St) (e : AExn) (rc : Bool) (hk : s.keepRunning = true) :
    handleDisconnect c s e rc = handleDisconnectBody c s e rc := by
  simp [handleDisconnect, hk]

end WS.Lemmas.App
