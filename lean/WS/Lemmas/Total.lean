/-
  WS.Lemmas.Total — `recv_frame` on arbitrary bytes followed by end of stream or silence: a frame,
  or PROTO / CLOSED / TIMEOUT; never a Python-level failure, never out of fuel.
-/
import WS.Lemmas.Parser
namespace WS.Lemmas.Total
open WS WS.Model WS.Spec WS.Lemmas.RecvStrict WS.Lemmas.Frame WS.Lemmas.Parser

theorem chunks_bytes_nil {inp : List TEv} (hch : Chunks inp) (h : bytesOf inp = []) : inp = [] := by
  cases inp with
  | nil => rfl
  | cons e rest =>
    obtain ⟨bs, he, hne⟩ := hch e List.mem_cons_self
    subst he
    simp [bytesOf] at h
    exact absurd h.1 hne

/-- a read when the script is exhausted: end of stream or silence. -/
theorem conn_sockRecv_empty (c : Conn) (n : Nat) (hl : Live c) (hinp : c.sock.inp = []) :
    (c.sock.tail = .eof ∧ ∃ c', c.sockRecv n = (.error .closed, c') ∧ c'.hasSock = false ∧ c'.buf = c.buf) ∨
    (c.sock.tail = .timeout ∧ ∃ c', c.sockRecv n = (.error .timeout, c') ∧ Live c' ∧ c'.sock.inp = [] ∧ c'.buf = c.buf ∧
        c'.sock.tail = .timeout ∧ c'.hdr = c.hdr ∧ c'.len = c.len ∧ c'.maskv = c.maskv) := by
  obtain ⟨h1, h2⟩ := hl
  unfold Conn.sockRecv
  simp only [h1, Bool.not_true, Bool.false_eq_true, if_false, hinp, List.length_nil]
  unfold Sock.recv
  simp only [h2, hinp, Bool.false_eq_true, if_false]
  cases ht : c.sock.tail with
  | eof => left; simp [ht]
  | timeout => right; simp [ht, Live, h1, h2]

/-- outcome of `recv_strict` on arbitrary bytes followed by end of stream or silence: the next `n` bytes, or
    CLOSED / TIMEOUT when fewer than `n` are ever going to come. Never anything else. -/
theorem recvStrictLoop_short (fuel : Nat) : ∀ (c : Conn) (n : Nat), Live c → Chunks c.sock.inp →
    (pending c).length < n → (bytesOf c.sock.inp).length < fuel →
    (c.sock.tail = .eof ∧ ∃ c', Conn.recvStrictLoop fuel c n = (some .closed, c') ∧ c'.hasSock = false) ∨
    (c.sock.tail = .timeout ∧ ∃ c', Conn.recvStrictLoop fuel c n = (some .timeout, c') ∧ Live c' ∧
        c'.sock.inp = [] ∧ pending c' = pending c ∧ c'.sock.tail = .timeout ∧
        c'.hdr = c.hdr ∧ c'.len = c.len ∧ c'.maskv = c.maskv) := by
  induction fuel with
  | zero => intro c n _ _ _ h; omega
  | succ f ih =>
    intro c n hl hch hshort hfu
    have hb : ¬ c.buf.length ≥ n := by simp [pending] at hshort; omega
    unfold Conn.recvStrictLoop
    simp only [hb, if_false]
    by_cases hne : bytesOf c.sock.inp = []
    · have hinp := chunks_bytes_nil hch hne
      rcases conn_sockRecv_empty c (min Gen.recvCap (n - c.buf.length)) hl hinp with ⟨ht, c', e, hs, _⟩ | ⟨ht, c', e, hl', hi', hb', ht', x1, x2, x3⟩
      · left; exact ⟨ht, c', by simp [e], hs⟩
      · right
        refine ⟨ht, c', by simp [e], hl', hi', ?_, ht', x1, x2, x3⟩
        simp [pending, hb', hi', hinp]
    · have hcap : 0 < Gen.recvCap := by decide
      have hpos : 0 < min Gen.recvCap (n - c.buf.length) := by omega
      obtain ⟨d, c1, hr, hd, hdl, hbytes, hbuf, hl1, hch1, hsr, hsz⟩ :=
        conn_sockRecv_chunk c (min Gen.recvCap (n - c.buf.length)) hl hch hne hpos
      simp only [hr]
      have hdpos : 0 < d.length := by
        cases d with
        | nil => exact absurd rfl hd
        | cons a b => simp
      have hlen : (bytesOf c.sock.inp).length = d.length + (bytesOf c1.sock.inp).length := by
        rw [hbytes]; simp
      have hpend : pending { c1 with buf := c1.buf ++ d } = pending c := by
        simp [pending, hbuf, hbytes]
      have htail : c1.sock.tail = c.sock.tail := hsr.2.2.2.2.2.2.2.2.2.2.2.1
      rcases ih { c1 with buf := c1.buf ++ d } n (by simpa [Live] using hl1) (by simpa using hch1)
          (by rw [hpend]; exact hshort) (by simp; omega) with ⟨ht, c', e, hs⟩ | ⟨ht, c', e, hl', hi', hp', ht', x1, x2, x3⟩
      · left; exact ⟨by simpa [htail] using ht, c', e, hs⟩
      · right
        refine ⟨by simpa [htail] using ht, c', e, hl', hi', hp'.trans hpend, ht', ?_, ?_, ?_⟩
        · simpa [hsr.1] using x1
        · simpa [hsr.2.1] using x2
        · simpa [hsr.2.2.1] using x3

def Benign (e : Exn) : Prop := e = .proto ∨ e = .closed ∨ e = .timeout

theorem recvStrict_short (c : Conn) (n : Nat) (hl : Live c) (hch : Chunks c.sock.inp) (hs : (pending c).length < n) :
    ∃ e c', c.recvStrict n = (.error e, c') ∧ (e = .closed ∨ e = .timeout) := by
  have hfu : (bytesOf c.sock.inp).length < c.sock.size + 1 := by
    have := bytesOf_le_size c.sock.inp
    unfold Sock.size; omega
  unfold Conn.recvStrict
  rcases recvStrictLoop_short _ c n hl hch hs hfu with ⟨_, c', e, _⟩ | ⟨_, c', e, _⟩
  · exact ⟨.closed, c', by rw [e], Or.inl rfl⟩
  · exact ⟨.timeout, c', by rw [e], Or.inr rfl⟩

theorem validate_cases (f : Frame) (skip : Bool) : validate f skip = none ∨ validate f skip = some .proto := by
  unfold validate
  simp only []
  repeat' split
  all_goals first | exact Or.inl rfl | exact Or.inr rfl

theorem validate_benign (f : Frame) (skip : Bool) (e : Exn) (h : validate f skip = some e) : e = .proto := by
  rcases validate_cases f skip with h0 | h0
  · rw [h0] at h; cases h
  · rw [h0] at h; injection h with h; exact h.symm

/-- **no internal error, frame phase** — whatever bytes the server sends (any bytes, in any chunking),
    followed by end of stream or silence, one `recv_frame` call from a cleared parser either returns a frame
    or raises PROTO, CLOSED or TIMEOUT — never a Python-level failure, never "out of fuel" (it always
    makes progress or stops). -/
theorem recvFrame_benign (c : Conn) (hl : Live c) (hch : Chunks c.sock.inp) (hclr : Cleared c) :
    ∀ e, c.recvFrame.1 = .error e → Benign e := by
  intro e he
  obtain ⟨hh, hln, hmk⟩ := hclr
  -- stage 1
  by_cases h2 : 2 ≤ (pending c).length
  · cases hp : pending c with
    | nil => rw [hp] at h2; simp at h2
    | cons b0 t =>
      cases t with
      | nil => rw [hp] at h2; simp at h2
      | cons b1 r2 =>
        obtain ⟨c1, e1, c1h, c1l, c1m, p1, g1⟩ := recvHeader_avail c b0 b1 r2 hl hch hp
        have hc1len : c1.len.isNone = true := by simp [c1l, hln]
        -- stage 2: which length form, and is it available?
        have stage2 : (∃ extN L c2, c1.recvLength (hdrOf b0 b1) = (none, c2) ∧ c2.len = some L ∧ c2.maskv = c1.maskv ∧
              pending c2 = (pending c1).drop extN ∧ Good c1 c2) ∨
            (∃ e2 c2, c1.recvLength (hdrOf b0 b1) = (some e2, c2) ∧ (e2 = .closed ∨ e2 = .timeout)) := by
          by_cases a126 : b1.toNat % 128 = 126
          · by_cases hav : 2 ≤ (pending c1).length
            · obtain ⟨c2, x1, x2, _, x4, x5, x6⟩ := recvLength_avail c1 b0 b1 g1.live g1.chunks 2 _ (Or.inl ⟨a126, rfl, hav, rfl⟩)
              exact Or.inl ⟨2, _, c2, x1, x2, x4, x5, x6⟩
            · obtain ⟨e2, c2, x, y⟩ := recvStrict_short c1 2 g1.live g1.chunks (by omega)
              right
              refine ⟨e2, c2, ?_, y⟩
              have hlb : (hdrOf b0 b1).lenBits &&& 0x7F = b1.toNat % 128 := by
                simp only [hdrOf]; exact and7f _ (by omega)
              unfold Conn.recvLength
              simp only [hlb, a126, show ((126 : Nat) == 0x7E) = true by decide, if_true, x]
          · by_cases a127 : b1.toNat % 128 = 127
            · by_cases hav : 8 ≤ (pending c1).length
              · obtain ⟨c2, x1, x2, _, x4, x5, x6⟩ := recvLength_avail c1 b0 b1 g1.live g1.chunks 8 _ (Or.inr (Or.inl ⟨a127, rfl, hav, rfl⟩))
                exact Or.inl ⟨8, _, c2, x1, x2, x4, x5, x6⟩
              · obtain ⟨e2, c2, x, y⟩ := recvStrict_short c1 8 g1.live g1.chunks (by omega)
                right
                refine ⟨e2, c2, ?_, y⟩
                have hlb : (hdrOf b0 b1).lenBits &&& 0x7F = b1.toNat % 128 := by
                  simp only [hdrOf]; exact and7f _ (by omega)
                unfold Conn.recvLength
                simp only [hlb, a127, show ((127 : Nat) == 0x7E) = false by decide, show ((127 : Nat) == 0x7F) = true by decide,
                  Bool.false_eq_true, if_false, if_true, x]
            · obtain ⟨c2, x1, x2, _, x4, x5, x6⟩ := recvLength_avail c1 b0 b1 g1.live g1.chunks 0 _ (Or.inr (Or.inr ⟨a126, a127, rfl, rfl⟩))
              exact Or.inl ⟨0, _, c2, x1, x2, x4, x5, x6⟩
        unfold Conn.recvFrame at he
        simp only [hh, Option.isNone_none, if_true, e1, c1h, hc1len] at he
        rcases stage2 with ⟨extN, L, c2, e2, c2l, c2m, p2, g2⟩ | ⟨e2, c2, e2eq, hb⟩
        · have hc2msk : c2.maskv.isNone = true := by simp [c2m, c1m, hmk]
          simp only [e2, hc2msk, if_true] at he
          -- stage 3
          have stage3 : (∃ c3, c2.recvMask (hdrOf b0 b1) = (none, c3) ∧ c3.len = c2.len ∧ Live c3 ∧ Chunks c3.sock.inp) ∨
              (∃ e3 c3, c2.recvMask (hdrOf b0 b1) = (some e3, c3) ∧ (e3 = .closed ∨ e3 = .timeout)) := by
            rcases b1_div b1 with h0 | h1
            · obtain ⟨c3, x1, _, _, x4, _, x6⟩ := recvMask_avail c2 b0 b1 g2.live g2.chunks (Or.inr h0)
              exact Or.inl ⟨c3, x1, x4, x6.live, x6.chunks⟩
            · by_cases hav : 4 ≤ (pending c2).length
              · obtain ⟨c3, x1, _, _, x4, _, x6⟩ := recvMask_avail c2 b0 b1 g2.live g2.chunks (Or.inl ⟨h1, hav⟩)
                exact Or.inl ⟨c3, x1, x4, x6.live, x6.chunks⟩
              · obtain ⟨e3, c3, x, y⟩ := recvStrict_short c2 4 g2.live g2.chunks (by omega)
                right
                refine ⟨e3, c3, ?_, y⟩
                unfold Conn.recvMask
                simp only [hdrOf, h1, show ((1 : Nat) != 0) = true by decide, if_true, x]
          rcases stage3 with ⟨c3, e3, c3l, l3, ch3⟩ | ⟨e3, c3, e3eq, hb⟩
          · simp only [e3, c2l, Option.getD_some] at he
            -- stage 4
            by_cases hav : L ≤ (pending c3).length
            · obtain ⟨c4, e4, _⟩ := recvStrict_avail c3 L l3 ch3 hav
              simp only [e4] at he
              split at he
              · rename_i ev hv
                simp only [] at he
                injection he with he
                subst he
                exact Or.inl (validate_benign _ _ _ hv)
              · simp at he
            · obtain ⟨e4, c4, x, y⟩ := recvStrict_short c3 L l3 ch3 (by omega)
              simp only [x] at he
              injection he with he
              subst he
              rcases y with y | y
              · exact Or.inr (Or.inl y)
              · exact Or.inr (Or.inr y)
          · simp only [e3eq] at he
            injection he with he
            subst he
            rcases hb with y | y
            · exact Or.inr (Or.inl y)
            · exact Or.inr (Or.inr y)
        · simp only [e2eq] at he
          injection he with he
          subst he
          rcases hb with y | y
          · exact Or.inr (Or.inl y)
          · exact Or.inr (Or.inr y)
  · obtain ⟨e1, c1, x, y⟩ := recvStrict_short c 2 hl hch (by omega)
    unfold Conn.recvFrame at he
    simp only [hh, Option.isNone_none, if_true, Conn.recvHeader, x] at he
    injection he with he
    subst he
    rcases y with y | y
    · exact Or.inr (Or.inl y)
    · exact Or.inr (Or.inr y)

end WS.Lemmas.Total
