/-
  WS.Lemmas.Py — facts about the string helpers of WS.Base.Py (split / join / labels).
  The central one, `suffix_splitOn_iff`, is what "on a label boundary" means for
  `endswith`: the pieces of `n` are a suffix of the pieces of `h` exactly when `h = n` or
  `h` ends with the separator followed by `n`.
-/
import WS.Base.Py
namespace WS.Lemmas.Py
open WS.Py

theorem splitOn_ne_nil (c : Char) (s : Str) : splitOn c s ≠ [] := by
  cases s with
  | nil => simp [splitOn]
  | cons x xs =>
    simp only [splitOn]
    split
    · simp
    · cases h : splitOn c xs <;> simp [consHead]

theorem consHead_ne_nil (x : Char) (l : List Str) : consHead x l ≠ [] := by
  cases l <;> simp [consHead]

theorem consHead_append (x : Char) {l : List Str} (h : l ≠ []) (m : List Str) :
    consHead x (l ++ m) = consHead x l ++ m := by
  cases l with
  | nil => exact absurd rfl h
  | cons p ps => simp [consHead]

/-- splitting distributes over a separator occurrence. -/
theorem splitOn_append_sep (c : Char) (a b : Str) :
    splitOn c (a ++ c :: b) = splitOn c a ++ splitOn c b := by
  induction a with
  | nil => simp [splitOn]
  | cons x xs ih =>
    simp only [List.cons_append, splitOn]
    split
    · simp [ih]
    · rw [ih, consHead_append x (splitOn_ne_nil c xs)]

theorem joinWith_consHead (c x : Char) {l : List Str} (h : l ≠ []) :
    joinWith c (consHead x l) = x :: joinWith c l := by
  match l, h with
  | [p], _ => simp [consHead, joinWith]
  | p :: q :: r, _ => simp [consHead, joinWith]

theorem joinWith_nil_cons (c : Char) {l : List Str} (h : l ≠ []) :
    joinWith c ([] :: l) = c :: joinWith c l := by
  match l, h with
  | q :: r, _ => simp [joinWith]

/-- `c.join(s.split(c)) == s` -/
theorem joinWith_splitOn (c : Char) (s : Str) : joinWith c (splitOn c s) = s := by
  induction s with
  | nil => simp [splitOn, joinWith]
  | cons x xs ih =>
    simp only [splitOn]
    split
    · next h => rw [joinWith_nil_cons c (splitOn_ne_nil c xs), ih, h]
    · rw [joinWith_consHead c x (splitOn_ne_nil c xs), ih]

theorem joinWith_append (c : Char) {a b : List Str} (ha : a ≠ []) (hb : b ≠ []) :
    joinWith c (a ++ b) = joinWith c a ++ c :: joinWith c b := by
  induction a with
  | nil => exact absurd rfl ha
  | cons p ps ih =>
    cases ps with
    | nil =>
      match b, hb with
      | q :: r, _ => simp [joinWith]
    | cons p' ps' =>
      have := ih (by simp)
      simp only [List.cons_append, joinWith] at this ⊢
      rw [this]; simp

/-- **label boundary**: the pieces of `n` are a suffix of the pieces of `h` iff `h` is `n`
    or ends with separator ++ `n`. -/
theorem suffix_splitOn_iff (c : Char) (n h : Str) :
    splitOn c n <:+ splitOn c h ↔ (h = n ∨ (c :: n) <:+ h) := by
  constructor
  · rintro ⟨t, ht⟩
    have hj : joinWith c (t ++ splitOn c n) = h := by rw [ht, joinWith_splitOn]
    by_cases htn : t = []
    · left; subst htn; simpa [joinWith_splitOn] using hj.symm
    · right
      rw [joinWith_append c htn (splitOn_ne_nil c n), joinWith_splitOn] at hj
      exact ⟨joinWith c t, hj⟩
  · rintro (rfl | ⟨pre, hp⟩)
    · exact List.suffix_refl _
    · subst hp
      rw [splitOn_append_sep]
      exact List.suffix_append _ _

theorem isSuffixOf_splitOn_eq (c : Char) (n h : Str) :
    (splitOn c n).isSuffixOf (splitOn c h) = (h == n || (c :: n).isSuffixOf h) := by
  rw [Bool.eq_iff_iff]
  simp only [List.isSuffixOf_iff_suffix, Bool.or_eq_true, beq_iff_eq]
  exact suffix_splitOn_iff c n h

end WS.Lemmas.Py
