/-
  WS.Lemmas.CloseAnswered — the wait loop of `close()` against a peer whose answer is already there: it reads the
  frames that precede the peer's close frame, stops AT the close frame, and takes no time.
-/
import WS.Lemmas.CloseTime
namespace WS.Lemmas.CloseAnswered
open WS WS.Model WS.Spec WS.Lemmas.RecvStrict WS.Lemmas.Frame WS.Lemmas.Parser WS.Lemmas.Stream WS.Lemmas.ShortWrites WS.Lemmas.Loop

theorem closeWait_answered (fs : List WireFrame) : ∀ (c : Conn) (wc : WireFrame) (tail : Bytes) (t fuel : Nat),
    Ready c → DecodesTo (pending c) (fs ++ [wc]) tail →
    (∀ w ∈ fs ++ [wc], validate (frameOfWire w) c.skipUtf8 = none) →
    (∀ w ∈ fs, (frameOfWire w).opcode ≠ Gen.opcodeClose) → (frameOfWire wc).opcode = Gen.opcodeClose →
    0 < t → fs.length < fuel →
    ∃ c', Conn.closeWait fuel c c.sock.clock (some t) = c' ∧ pending c' = tail ∧ c'.sock.clock = c.sock.clock ∧
      Ready c' ∧ c'.sock.timeoutMs = c.sock.timeoutMs ∧ c'.sock.wire = c.sock.wire := by
  induction fs with
  | nil =>
    intro c wc tail t fuel hr hd hval _ hclose ht hfu
    cases fuel with
    | zero => omega
    | succ fu =>
      simp only [List.nil_append] at hd hval
      obtain ⟨c1, e1, r1, d1, s1⟩ := step_recv c hr wc [] tail hd (hval wc (by simp))
      have hp1 : pending c1 = tail := by cases d1; rfl
      refine ⟨c1, ?_, hp1, s1.2.2.2.2.2.2.2.2.2.2.2.2.2.2, r1, s1.2.2.2.2.2.2.2.2.2.2.2.2.2.1, wire_sameLoop s1⟩
      unfold Conn.closeWait
      simp only [Nat.sub_self, ht, decide_true, Bool.not_true, Bool.false_eq_true, if_false, e1, hclose]
      simp
  | cons w rest ih =>
    intro c wc tail t fuel hr hd hval hnc hclose ht hfu
    cases fuel with
    | zero => simp at hfu
    | succ fu =>
      simp only [List.cons_append] at hd hval
      obtain ⟨c1, e1, r1, d1, s1⟩ := step_recv c hr w (rest ++ [wc]) tail hd (hval w (by simp))
      have hclk : c1.sock.clock = c.sock.clock := s1.2.2.2.2.2.2.2.2.2.2.2.2.2.2
      have hskip : c1.skipUtf8 = c.skipUtf8 := s1.2.2.2.1
      obtain ⟨c', e', p', k', r', tm', w'⟩ := ih c1 wc tail t fu r1 d1
        (by intro x hx; rw [hskip]; exact hval x (List.mem_cons_of_mem _ hx))
        (fun x hx => hnc x (List.mem_cons_of_mem _ hx)) hclose ht (by simp at hfu; omega)
      refine ⟨c', ?_, p', by rw [k', hclk], r', by rw [tm', s1.2.2.2.2.2.2.2.2.2.2.2.2.2.1], ?_⟩
      · unfold Conn.closeWait
        have hne : ((frameOfWire w).opcode != Gen.opcodeClose) = true := by
          simpa using hnc w (by simp)
        simp only [Nat.sub_self, ht, decide_true, Bool.not_true, Bool.false_eq_true, if_false, e1, hne, if_true]
        rw [← hclk]; exact e'
      · rw [w', wire_sameLoop s1]

end WS.Lemmas.CloseAnswered
