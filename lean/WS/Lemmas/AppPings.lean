/-
  WS.Lemmas.AppPings — every ping frame the application model writes carries the configured payload: the invariant
  `PP` (all `wrote PING p` events of the trace have `p = c.payload`) through every function of `run_forever`.
-/
import WS.Lemmas.AppInv
namespace WS.Lemmas.App
open WS WS.Model.App

/-- the event is not a ping written with a payload other than the configured one -/
def okEv (c : Cfg) (e : Ev) : Prop := ∀ p, e = .wrote Gen.opcodePing p → p = c.payload

def PP (c : Cfg) (s : St) : Prop := ∀ te ∈ s.trace, okEv c te.2

theorem opcodes_distinct : Gen.opcodeClose ≠ Gen.opcodePing ∧ Gen.opcodePong ≠ Gen.opcodePing := by decide

theorem pp_emit {c : Cfg} {s : St} (e : Ev) (h : PP c s) (he : okEv c e) : PP c (s.emit e) := by
  intro te hte
  simp only [St.emit, List.mem_append, List.mem_singleton] at hte
  rcases hte with hte | hte
  · exact h te hte
  · subst hte; exact he

theorem pp_tr {c : Cfg} {s : St} (s' : St) (h : PP c s) (ht : s'.trace = s.trace) : PP c s' := by
  intro te hte; rw [ht] at hte; exact h te hte

theorem ok_cb (c : Cfg) (cb : Cb) (a : List Arg) : okEv c (.cb cb a) := by intro p h; cases h
theorem ok_sockClosed (c : Cfg) (i : Nat) : okEv c (.sockClosed i) := by intro p h; cases h
theorem ok_sockDropped (c : Cfg) (i : Nat) : okEv c (.sockDropped i) := by intro p h; cases h
theorem ok_pingStart (c : Cfg) : okEv c .pingStart := by intro p h; cases h
theorem ok_pingStop (c : Cfg) : okEv c .pingStop := by intro p h; cases h
theorem ok_blocked (c : Cfg) : okEv c .blocked := by intro p h; cases h
theorem ok_outOfFuel (c : Cfg) : okEv c .outOfFuel := by intro p h; cases h
theorem ok_dial (c : Cfg) (i : Nat) : okEv c (.dial i) := by intro p h; cases h
theorem ok_sleep (c : Cfg) (d : Nat) : okEv c (.sleep d) := by intro p h; cases h
theorem ok_returned (c : Cfg) (b : Bool) : okEv c (.returned b) := by intro p h; cases h
theorem ok_raisedOut (c : Cfg) (e : AExn) : okEv c (.raisedOut e) := by intro p h; cases h
theorem ok_ping (c : Cfg) : okEv c (.wrote Gen.opcodePing c.payload) := by
  intro p h; injection h with _ h2; exact h2.symm
theorem ok_close (c : Cfg) (b : Bytes) : okEv c (.wrote Gen.opcodeClose b) := by
  intro p h; injection h with h1 _; exact absurd h1 opcodes_distinct.1
theorem ok_pong (c : Cfg) (b : Bytes) : okEv c (.wrote Gen.opcodePong b) := by
  intro p h; injection h with h1 _; exact absurd h1 opcodes_distinct.2

theorem pp_mem {c : Cfg} {s : St} (s' : St) (h : PP c s)
    (ht : ∀ te ∈ s'.trace, te ∈ s.trace ∨ okEv c te.2) : PP c s' := by
  intro te hte
  rcases ht te hte with h1 | h1
  · exact h te h1
  · exact h1

theorem pp_pingFire (c : Cfg) (s : St) (p : PingTh) (h : PP c s) : PP c (pingFire c s p) := by
  refine pp_mem _ h ?_
  intro te hte
  unfold pingFire at hte
  simp only [] at hte
  split at hte
  · simp only [St.emit, List.mem_append, List.mem_singleton] at hte
    rcases hte with hte | hte
    · exact .inl hte
    · subst hte; exact .inr (ok_pingStop c)
  · split at hte
    · exact .inl hte
    · cases hs : s.sock with
      | none => simp only [hs] at hte; exact .inl hte
      | some w =>
        simp only [hs] at hte
        split at hte
        · simp only [St.emit, List.mem_append, List.mem_singleton] at hte
          rcases hte with hte | hte
          · exact .inl hte
          · subst hte; exact .inr (ok_ping c)
        · exact .inl hte

theorem pp_advance (c : Cfg) : ∀ (n : Nat) (s : St) (t : Nat), PP c s → PP c (advance c n s t) := by
  intro n
  induction n with
  | zero => intro s t h; rw [advance]; exact pp_tr _ h rfl
  | succ m ih =>
    intro s t h
    rw [advance]
    split
    · exact pp_tr _ h rfl
    · split
      · exact ih _ t (pp_pingFire c s _ h)
      · split
        · split
          · exact ih _ t (pp_pingFire c _ _ (pp_tr _ h rfl))
          · exact pp_tr _ h rfl
          · exact pp_tr _ h rfl
        · exact pp_tr _ h rfl

theorem pp_waitUntil (c : Cfg) (s : St) (t : Nat) (h : PP c s) : PP c (waitUntil c s t).1 := by
  unfold waitUntil
  split
  · exact pp_emit _ (pp_advance c _ _ _ (pp_tr _ h rfl)) (ok_blocked c)
  · exact pp_advance c _ s t h

theorem pp_stopPing (c : Cfg) (s : St) (h : PP c s) : PP c (stopPing s) := by
  unfold stopPing
  split
  · exact pp_tr _ (pp_emit _ (pp_tr _ h rfl) (ok_pingStop c)) rfl
  · exact pp_tr _ h rfl

theorem pp_startPing (c : Cfg) (s : St) (h : PP c s) : PP c (startPing c s) := by
  unfold startPing
  exact pp_emit _ (pp_tr _ h rfl) (ok_pingStart c)

theorem pp_closeTransport (c : Cfg) (s : St) (h : PP c s) : PP c (closeTransport s) := by
  unfold closeTransport
  split
  · split
    · exact pp_emit _ (pp_tr _ h rfl) (ok_sockClosed c _)
    · exact pp_tr _ h rfl
  · exact h

theorem pp_dropSock (c : Cfg) (s : St) (h : PP c s) : PP c (dropSock s) := by
  unfold dropSock
  split
  · split
    · exact pp_emit _ (pp_tr _ h rfl) (ok_sockDropped c _)
    · exact pp_tr _ h rfl
  · exact h

theorem pp_closeWait (c : Cfg) (start : Nat) : ∀ (evs : List TEv) (s : St), PP c s → PP c (closeWait c start evs s).1 := by
  intro evs
  induction evs with
  | nil =>
    intro s h
    unfold closeWait
    split
    · exact pp_waitUntil c s _ h
    · exact h
  | cons e rest ih =>
    intro s h
    unfold closeWait
    split
    · simp only []
      split
      · have hw := pp_waitUntil c s (s.arr + e.dt) h
        rcases hx : waitUntil c s (s.arr + e.dt) with ⟨s1, ok⟩
        rw [hx] at hw
        simp only [] at hw ⊢
        cases ok with
        | false => simpa using hw
        | true =>
          simp only [Bool.not_true, Bool.false_eq_true, ↓reduceIte]
          have h2 : PP c { s1 with evs := rest, arr := s.arr + e.dt } := pp_tr _ hw rfl
          split
          · exact h2
          · exact pp_closeTransport c _ h2
          · exact pp_tr _ h2 rfl
          · exact h2
          · exact ih _ h2
      · exact pp_waitUntil c s _ h
    · exact h

theorem pp_wsClose (c : Cfg) (s : St) (h : PP c s) : PP c (wsClose c s).1 := by
  unfold wsClose
  cases hs : s.sock with
  | none => exact h
  | some w =>
    simp only []
    split
    · exact h
    · split
      · have h1 : PP c (({ s with sock := some { w with connected := false } } : St).emit
            (.wrote Gen.opcodeClose (beN 2 Gen.statusNormal))) := pp_emit _ (pp_tr _ h rfl) (ok_close c _)
        have h2 := pp_closeWait c
          (({ s with sock := some { w with connected := false } } : St).emit (.wrote Gen.opcodeClose (beN 2 Gen.statusNormal))).now
          (({ s with sock := some { w with connected := false } } : St).emit (.wrote Gen.opcodeClose (beN 2 Gen.statusNormal))).evs
          _ h1
        rcases hcw : closeWait c _ _ _ with ⟨s2, ok⟩
        rw [hcw] at h2
        simp only [] at h2 ⊢
        cases ok with
        | false => exact h2
        | true => exact pp_closeTransport c _ h2
      · exact pp_closeTransport c _ (pp_tr _ h rfl)

theorem pp_closeSock (c : Cfg) (s : St) (h : PP c s) : PP c (closeSock c s).1 := by
  unfold closeSock
  split
  · exact h
  · have h1 := pp_wsClose c s h
    generalize wsClose c s = x at h1 ⊢
    obtain ⟨s1, ok⟩ := x
    cases ok with
    | false => simpa using h1
    | true => simpa using pp_dropSock c s1 h1

theorem pp_appClose (c : Cfg) (s : St) (h : PP c s) : PP c (appClose c s).1 := by
  unfold appClose
  exact pp_closeSock c _ (pp_tr _ h rfl)

theorem pp_rawCall (c : Cfg) (s : St) (cb : Cb) (args : List Arg) (h : PP c s) : PP c (rawCall c s cb args).1 := by
  have h1 : PP c (({ s with calls := bump s.calls cb } : St).emit (.cb cb args)) :=
    pp_emit _ (pp_tr _ h rfl) (ok_cb c cb args)
  unfold rawCall
  simp only []
  split
  · exact h1
  · exact h1
  · exact h1
  · have h2 := pp_appClose c _ h1
    generalize appClose c _ = x at h2 ⊢
    obtain ⟨s2, ok⟩ := x
    cases ok <;> simpa using h2

theorem pp_callback (c : Cfg) (s : St) (cb : Cb) (args : List Arg) (h : PP c s) : PP c (callback c s cb args).1 := by
  unfold callback
  split
  · exact h
  · have z1 := pp_rawCall c s cb args h
    split
    · rename_i s1 heq; rw [heq] at z1; exact z1
    · rename_i s1 e hne heq
      rw [heq] at z1
      split
      · exact pp_rawCall c s1 _ _ z1
      · exact z1
    · exact z1

theorem pp_teardown (c : Cfg) (s : St) (frame : Option Bytes) (h : PP c s) : PP c (teardown c s frame).1 := by
  unfold teardown
  split
  · exact h
  · simp only []
    have h1 : PP c (if Gen.appTeardownStopsPing = true then stopPing { s with hasDoneTeardown := true }
        else { s with hasDoneTeardown := true }) := by
      split
      · exact pp_stopPing c _ (pp_tr _ h rfl)
      · exact pp_tr _ h rfl
    generalize (if Gen.appTeardownStopsPing = true then stopPing { s with hasDoneTeardown := true }
        else { s with hasDoneTeardown := true }) = s1 at h1 ⊢
    have h2 := pp_wsClose c { s1 with keepRunning := false } (pp_tr _ h1 rfl)
    rcases hw : wsClose c { s1 with keepRunning := false } with ⟨s2, ok⟩
    rw [hw] at h2
    simp only [] at h2 ⊢
    cases ok with
    | false => simpa using h2
    | true =>
      simp only [Bool.not_true, Bool.false_eq_true, ↓reduceIte]
      exact pp_callback c _ _ _ (pp_dropSock c s2 h2)

theorem pp_afterReport (c : Cfg) (s : St) (e : AExn) (h : PP c s) : PP c (afterReport c s e).1 := by
  unfold afterReport
  have t1 := pp_teardown c s none h
  split
  · rcases hx : teardown c s none with ⟨s3, r3⟩
    rw [hx] at t1
    cases r3 with
    | ok u => exact t1
    | exc x => exact t1
    | halt => exact t1
  · split
    · exact h
    · exact t1

theorem pp_handleDisconnectBody (c : Cfg) (s : St) (e : AExn) (rc : Bool) (h : PP c s) :
    PP c (handleDisconnectBody c s e rc).1 := by
  unfold handleDisconnectBody
  simp only []
  have h1 : PP c (if Gen.appDisconnectSetsErrored = true then { s with hasErrored := true } else s) := by
    split
    · exact pp_tr _ h rfl
    · exact h
  generalize (if Gen.appDisconnectSetsErrored = true then { s with hasErrored := true } else s) = s0 at h1 ⊢
  have h2 : PP c (if Gen.appDisconnectStopsPing = true then stopPing s0 else s0) := by
    split
    · exact pp_stopPing c _ h1
    · exact h1
  generalize (if Gen.appDisconnectStopsPing = true then stopPing s0 else s0) = s1 at h2 ⊢
  cases rc with
  | true =>
    simp only [Bool.not_true, Bool.false_eq_true, ↓reduceIte]
    exact pp_afterReport c s1 e h2
  | false =>
    simp only [Bool.not_false, ↓reduceIte]
    have r2 := pp_callback c s1 .onError [.exn e] h2
    rcases hx : callback c s1 .onError [.exn e] with ⟨s2, r⟩
    rw [hx] at r2
    simp only [] at r2 ⊢
    cases r with
    | exc x => exact r2
    | halt => exact r2
    | ok u => cases u; exact pp_afterReport c s2 e r2

theorem pp_handleDisconnect (c : Cfg) (s : St) (e : AExn) (rc : Bool) (h : PP c s) :
    PP c (handleDisconnect c s e rc).1 := by
  unfold handleDisconnect
  split
  · exact pp_teardown c s none h
  · exact pp_handleDisconnectBody c s e rc h

theorem pp_asRead (v : Bool) (c : Cfg) (x : St × R Unit) (h : PP c x.1) : PP c (asRead v x).1 := by
  rcases x with ⟨s, r⟩
  cases r with
  | ok u => cases u; exact h
  | exc e => exact h
  | halt => exact h

theorem pp_deliver (c : Cfg) (s : St) (op : Nat) (p : Bytes) (frag : Bool) (h : PP c s) :
    PP c (deliverMessage c s op p frag).1 := by
  unfold deliverMessage
  simp only []
  generalize (if Gen.appDataBeforeMessage = true then _ else _ : Cb × List Arg) = first
  generalize (if Gen.appDataBeforeMessage = true then _ else _ : Cb × List Arg) = second
  have r1 := pp_callback c s first.1 first.2 h
  rcases hx : callback c s first.1 first.2 with ⟨s1, r⟩
  rw [hx] at r1
  cases r with
  | ok u => cases u; exact pp_callback c s1 _ _ r1
  | exc e => exact r1
  | halt => exact r1

theorem pp_handleEv (c : Cfg) (s : St) (ev : SrvEv) (h : PP c s) : PP c (handleEv c s ev).1 := by
  cases ev with
  | part => exact h
  | message op p frag => exact pp_asRead _ c _ (pp_deliver c s op p frag h)
  | ping p =>
    simp only [handleEv]
    refine pp_asRead _ c _ (pp_callback c _ _ _ ?_)
    split
    · exact pp_emit _ h (ok_pong c p)
    · exact h
  | pong p =>
    simp only [handleEv]
    exact pp_asRead _ c _ (pp_callback c _ _ _ (pp_tr _ h rfl))
  | close body =>
    simp only [handleEv]
    have h1 : PP c { s with sock := s.sock.map fun (w : WSock) => { w with connected := false } } := pp_tr _ h rfl
    have h2 : PP c (if ({ s with sock := s.sock.map fun (w : WSock) => { w with connected := false } } : St).writable = true
        then ({ s with sock := s.sock.map fun (w : WSock) => { w with connected := false } } : St).emit
          (.wrote Gen.opcodeClose (beN 2 Gen.statusNormal))
        else { s with sock := s.sock.map fun (w : WSock) => { w with connected := false } }) := by
      split
      · exact pp_emit _ h1 (ok_close c _)
      · exact h1
    refine pp_asRead _ c _ ?_
    split
    · exact pp_teardown c _ _ h2
    · exact pp_handleDisconnect c _ _ _ h2
  | eof => exact pp_closeTransport c s h
  | reset => exact pp_tr _ h rfl
  | protoError => exact h
  | payloadError => exact h

theorem pp_readEvents (c : Cfg) : ∀ (evs : List TEv) (s : St), PP c s → PP c (readEvents c evs s).1 := by
  intro evs
  induction evs with
  | nil =>
    intro s h
    rw [readEvents]
    exact pp_waitUntil c s _ h
  | cons e rest ih =>
    intro s h
    rw [readEvents]
    simp only []
    have fw : PP c (if s.arr + e.dt ≤ s.now then (s, true) else waitUntil c s (s.arr + e.dt)).1 := by
      split
      · exact h
      · exact pp_waitUntil c s _ h
    rcases hw : (if s.arr + e.dt ≤ s.now then (s, true) else waitUntil c s (s.arr + e.dt)) with ⟨s1, ok⟩
    rw [hw] at fw
    simp only [] at fw ⊢
    cases ok with
    | false => exact fw
    | true =>
      simp only [Bool.not_true, Bool.false_eq_true, ↓reduceIte]
      have h2 : PP c { s1 with evs := rest, arr := s.arr + e.dt } := pp_tr _ fw rfl
      split
      · exact ih _ h2
      · exact pp_handleEv c _ _ h2

theorem pp_read (c : Cfg) (s : St) (h : PP c s) : PP c (Model.App.read c s).1 := by
  unfold Model.App.read
  split
  · exact pp_asRead _ c _ (pp_teardown c s none h)
  · split
    · exact h
    · exact pp_readEvents c s.evs s h

theorem pp_afterRead (c : Cfg) (k : St → St × R Unit) (x : St × R Bool) (hx : PP c x.1)
    (hk : ∀ s1, PP c s1 → PP c (k s1).1) : PP c (afterRead c k x).1 := by
  rcases x with ⟨s, r⟩
  unfold afterRead
  cases r with
  | exc e => exact hx
  | halt => exact hx
  | ok b =>
    cases b with
    | false => exact hx
    | true =>
      simp only []
      split
      · exact hx
      · exact hk s hx

theorem pp_select (c : Cfg) (s : St) (h : PP c s) : PP c (select c s).1 := by
  unfold select
  split
  · exact h
  · split
    · exact h
    · simp only []
      generalize hw : waitUntil c s _ = x
      have f : PP c x.1 := by rw [← hw]; exact pp_waitUntil c s _ h
      rcases x with ⟨s1, ok⟩
      cases ok <;> simpa using f

theorem pp_dispLoop (c : Cfg) : ∀ (n : Nat) (s : St), PP c s → PP c (dispLoop c n s).1 := by
  intro n
  induction n with
  | zero =>
    intro s h
    exact pp_emit _ h (ok_outOfFuel c)
  | succ m ih =>
    intro s h
    rw [dispLoop]
    split
    · exact h
    · split
      · exact h
      · have rs := pp_select c s h
        rcases hsel : select c s with ⟨s1, rd⟩
        rw [hsel] at rs
        simp only [] at rs ⊢
        cases rd with
        | none => exact rs
        | some ready =>
          simp only []
          refine pp_afterRead c (dispLoop c m) _ ?_ ih
          cases ready with
          | true => simpa using pp_read c s1 rs
          | false => exact rs

theorem pp_connect (c : Cfg) (s : St) (h : PP c s) : PP c (connect s).1 := by
  unfold connect
  have h1 : ∀ rest, PP c (({ s with dials := rest, nextIdx := s.nextIdx + 1 } : St).emit (.dial s.nextIdx)) :=
    fun rest => pp_emit _ (pp_tr _ h rfl) (ok_dial c _)
  cases hdl : s.dials with
  | nil => exact pp_emit _ (pp_tr _ (h1 []) rfl) (ok_sockClosed c _)
  | cons d ds =>
    cases d with
    | refused => exact pp_emit _ (pp_tr _ (h1 ds) rfl) (ok_sockClosed c _)
    | rejected st => exact pp_emit _ (pp_tr _ (h1 ds) rfl) (ok_sockClosed c _)
    | established evs => exact pp_tr _ (h1 ds) rfl

theorem pp_release (c : Cfg) (s : St) (rc : Bool) (h : PP c s) : PP c (release s rc) := by
  unfold release
  split
  · split
    · exact pp_closeTransport c s h
    · exact h
  · exact h

theorem pp_afterLoop (c : Cfg) (rc : Bool) (x : St × R Unit) (h : PP c x.1) : PP c (afterLoop c rc x).1 := by
  rcases x with ⟨s, r⟩
  unfold afterLoop
  cases r with
  | halt => exact h
  | exc e => exact pp_handleDisconnect c s e rc h
  | ok u => exact h

theorem pp_afterOpen (c : Cfg) (rc : Bool) (x : St × R Unit) (h : PP c x.1) : PP c (afterOpen c rc x).1 := by
  rcases x with ⟨s, r⟩
  unfold afterOpen
  cases r with
  | halt => exact h
  | exc e => exact pp_handleDisconnect c s e rc h
  | ok u =>
    cases u
    simp only []
    split
    · exact pp_handleDisconnect c s _ rc h
    · exact pp_afterLoop c rc _ (pp_dispLoop c c.fuel s h)

theorem pp_afterConnect (c : Cfg) (rc : Bool) (x : St × R Unit) (h : PP c x.1) : PP c (afterConnect c rc x).1 := by
  rcases x with ⟨s, r⟩
  unfold afterConnect
  cases r with
  | halt => exact h
  | exc e => exact pp_handleDisconnect c s e rc h
  | ok u =>
    cases u
    simp only []
    refine pp_afterOpen c rc _ (pp_callback c _ _ _ ?_)
    split
    · exact pp_startPing c s h
    · exact h

theorem pp_setSock (c : Cfg) (s : St) (rc : Bool) (h : PP c s) : PP c (setSock c s rc).1 := by
  unfold setSock
  exact pp_afterConnect c rc _ (pp_connect c _ (pp_release c s rc h))

theorem pp_reconnectLoop (c : Cfg) : ∀ (n : Nat) (s : St), PP c s → PP c (reconnectLoop c n s).1 := by
  intro n
  induction n with
  | zero => intro s h; exact pp_emit _ h (ok_outOfFuel c)
  | succ m ih =>
    intro s h
    rw [reconnectLoop]
    split
    · exact h
    · simp only []
      have j1 : PP c (s.emit (.sleep c.reconnect)) := pp_emit _ h (ok_sleep c _)
      have r2 := pp_waitUntil c (s.emit (.sleep c.reconnect)) ((s.emit (.sleep c.reconnect)).now + c.reconnect) j1
      rcases hw : waitUntil c (s.emit (.sleep c.reconnect)) ((s.emit (.sleep c.reconnect)).now + c.reconnect) with ⟨s2, ok⟩
      rw [hw] at r2
      simp only [] at r2 ⊢
      cases ok with
      | false => exact r2
      | true =>
        simp only [Bool.not_true, Bool.false_eq_true, ↓reduceIte]
        have q1 := pp_setSock c s2 true r2
        rcases hss : setSock c s2 true with ⟨s3, r3⟩
        rw [hss] at q1
        unfold rlNext
        cases r3 with
        | halt => exact q1
        | exc e => exact q1
        | ok u => cases u; exact ih s3 q1

theorem pp_afterBody (c : Cfg) (x : St × R Unit) (h : PP c x.1) : PP c (afterBody c x).1 := by
  rcases x with ⟨s1, r1⟩
  unfold afterBody
  have t : ∀ s, PP c s → PP c (if Gen.appFinallyTeardown = true then teardown c s none else (s, .ok ())).1 := by
    intro s hs
    split
    · exact pp_teardown c s none hs
    · exact hs
  cases r1 with
  | halt => exact h
  | ok u => cases u; exact t s1 h
  | exc e =>
    simp only []
    have t1 := pp_teardown c s1 none h
    rcases hx : teardown c s1 none with ⟨s2, r2⟩
    rw [hx] at t1
    simp only [] at t1 ⊢
    cases r2 with
    | halt => exact t1
    | ok u => cases u; exact t s2 t1
    | exc e2 =>
      simp only []
      have t2 := t s2 t1
      rcases hy : (if Gen.appFinallyTeardown = true then teardown c s2 none else (s2, .ok ())) with ⟨s3, r3⟩
      rw [hy] at t2
      cases r3 with
      | halt => exact t2
      | ok u => cases u; exact t2
      | exc e3 => exact t2

theorem pp_runBody (c : Cfg) (s : St) (h : PP c s) : PP c (runBody c s).1 := by
  unfold runBody
  apply pp_afterBody
  unfold firstStage
  have q1 := pp_setSock c s false h
  rcases hss : setSock c s false with ⟨s1, r1⟩
  rw [hss] at q1
  simp only [] at q1 ⊢
  cases r1 with
  | halt => exact q1
  | exc e => exact q1
  | ok u =>
    cases u
    simp only []
    split
    · exact pp_reconnectLoop c c.fuel s1 q1
    · exact q1

theorem pp_runForever (c : Cfg) (s0 : St) (h : PP c s0) : PP c (runForever c s0) := by
  unfold runForever runForeverO
  split
  · exact pp_emit _ h (ok_raisedOut c _)
  · split
    · exact pp_emit _ h (ok_raisedOut c _)
    · have jb := pp_runBody c (prologue s0) (pp_tr _ h rfl)
      rcases hrb : runBody c (prologue s0) with ⟨s1, r1⟩
      rw [hrb] at jb
      simp only [] at jb ⊢
      cases r1 with
      | halt => exact jb
      | ok u => cases u; exact pp_emit _ jb (ok_returned c _)
      | exc e => exact pp_emit _ jb (ok_raisedOut c _)

theorem pp_runMany (c : Cfg) : ∀ (ws : List (List Dial)) (s : St), PP c s → PP c (runMany c ws s) := by
  intro ws
  induction ws with
  | nil => intro s h; exact h
  | cons w rest ih => intro s h; rw [runMany]; exact ih _ (pp_runForever c _ (pp_tr _ h rfl))

theorem pp_runManyK (c : Cfg) : ∀ (ws : List ((Int × Option Int) × List Dial)) (s : St), PP c s → PP c (runManyK c ws s) := by
  intro ws
  induction ws with
  | nil => intro s h; exact h
  | cons w rest ih =>
    intro s h
    obtain ⟨⟨iv, to⟩, d⟩ := w
    rw [runManyK]
    exact ih _ (pp_runForever { c with iv := iv, to := to } _ (pp_tr _ h rfl))

end WS.Lemmas.App
