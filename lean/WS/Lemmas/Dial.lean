/-
  WS.Lemmas.Dial — the loop invariant of `_open_socket` (generalisation of C18_dial over the
  address number and the `err` variable).
-/
import WS.Spec.Rfc3986
import WS.Model.OpenSocket
namespace WS.Lemmas.Dial
open WS WS.Py WS.Net
open WS.Model.OpenSocket

def toDial : Res → Spec.Url.DialResult
  | .ok i => .connected i
  | .raised o => .failed o
  | .internal _ => .failed (.other 0)

/-- the Spec's answer when the loop is entered at address number `i` with `err`. -/
def resFrom (i : Nat) (err : Option Outcome) (skipped rest : List Outcome) : Res :=
  match rest with
  | .accept :: _ => Res.ok (i + skipped.length)
  | o :: _ => .raised o
  | [] => match skipped.getLast? with
    | some o => .raised o
    | none => match err with
      | some e => .raised e
      | none => .internal "UnboundLocalError"

def evsFrom (timeout : Nat) (user : List String) (i : Nat) (tried : List Outcome) : List Ev :=
  ((tried.zipIdx i).map fun (o, j) => Spec.Url.block timeout Gen.defaultSockOpts user j o).flatten

/-- generalisation of `C18_dial` over the loop state (address number, `err`). -/
theorem openFrom_spec (timeout : Nat) (user : List String) (outs : List Outcome) :
    ∀ (i : Nat) (err : Option Outcome),
    openFrom timeout user i outs err =
      (resFrom i err (outs.takeWhile Outcome.skippable) (outs.dropWhile Outcome.skippable),
       evsFrom timeout user i
         (outs.takeWhile Outcome.skippable ++ (outs.dropWhile Outcome.skippable).take 1)) := by
  unfold evsFrom
  induction outs with
  | nil => intro i err; cases err <;> simp [openFrom, resFrom]
  | cons o os ih =>
    intro i err
    cases o with
    | accept => simp [openFrom, resFrom, Outcome.skippable, Spec.Url.block, setup, List.zipIdx_cons]
    | other c => simp [openFrom, resFrom, Outcome.skippable, Spec.Url.block, setup, List.zipIdx_cons]
    | refused =>
      simp only [openFrom, Outcome.skippable, if_true, ih (i + 1) (some .refused),
        List.takeWhile_cons, List.dropWhile_cons, List.cons_append, List.zipIdx_cons, List.map_cons,
        List.flatten_cons]
      refine Prod.ext ?_ ?_
      · simp only [resFrom]
        split
        · next h => simp; omega
        · next h => simp_all
        · next h =>
          cases hl : (List.takeWhile Outcome.skippable os).getLast? <;>
            simp [List.getLast?_cons, hl]
      · simp [Spec.Url.block, setup]
    | unreachable =>
      simp only [openFrom, Outcome.skippable, if_true, ih (i + 1) (some .unreachable),
        List.takeWhile_cons, List.dropWhile_cons, List.cons_append, List.zipIdx_cons, List.map_cons,
        List.flatten_cons]
      refine Prod.ext ?_ ?_
      · simp only [resFrom]
        split
        · next h => simp; omega
        · next h => simp_all
        · next h =>
          cases hl : (List.takeWhile Outcome.skippable os).getLast? <;>
            simp [List.getLast?_cons, hl]
      · simp [Spec.Url.block, setup]

end WS.Lemmas.Dial
