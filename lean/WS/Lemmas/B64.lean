/-
  WS.Lemmas.B64 — base64 round trip for all byte strings.
-/
import WS.Base.B64
namespace WS.Lemmas.B64
open WS.Py WS.B64

theorem dec_enc : ∀ n, n < 64 → dec (enc n) = some n := by decide +kernel

theorem enc_ne_pad : ∀ n, n < 64 → enc n ≠ '=' := by decide +kernel

theorem decode_cons4 (c1 c2 c3 c4 : Char) (rest : Str) (h3 : c3 ≠ '=') (h4 : c4 ≠ '=') :
    decode (c1 :: c2 :: c3 :: c4 :: rest) =
      match dec c1, dec c2, dec c3, dec c4, decode rest with
      | some i1, some i2, some i3, some i4, some r =>
        some (UInt8.ofNat (i1 * 4 + i2 / 16) :: UInt8.ofNat (i2 % 16 * 16 + i3 / 4)
          :: UInt8.ofNat (i3 % 4 * 64 + i4) :: r)
      | _, _, _, _, _ => none := by
  rw [decode]
  all_goals first | rfl | (intros; simp_all)

theorem byte_eq (a : UInt8) (n : Nat) (h : n = a.toNat) : UInt8.ofNat n = a := by
  subst h; exact UInt8.ofNat_toNat

/-- **round trip** -/
theorem decode_encode (bs : List UInt8) : decode (encode bs) = some bs := by
  fun_induction encode bs with
  | case1 => simp [decode]
  | case2 a =>
    have ha := a.toNat_lt
    simp only [decode, dec_enc _ (show a.toNat / 4 < 64 by omega),
      dec_enc _ (show a.toNat % 4 * 16 < 64 by omega)]
    congr 2
    exact byte_eq a _ (by omega)
  | case3 a b =>
    have ha := a.toNat_lt
    have hb := b.toNat_lt
    have e3 := enc_ne_pad _ (show b.toNat % 16 * 4 < 64 by omega)
    rw [decode]
    · simp only [dec_enc _ (show a.toNat / 4 < 64 by omega),
        dec_enc _ (show a.toNat % 4 * 16 + b.toNat / 16 < 64 by omega),
        dec_enc _ (show b.toNat % 16 * 4 < 64 by omega)]
      congr 2
      · exact byte_eq a _ (by omega)
      · congr 1; exact byte_eq b _ (by omega)
    all_goals first | rfl | (intros; simp_all)
  | case4 a b c rest ih =>
    have ha := a.toNat_lt
    have hb := b.toNat_lt
    have hc := c.toNat_lt
    rw [decode_cons4 _ _ _ _ _ (enc_ne_pad _ (show b.toNat % 16 * 4 + c.toNat / 64 < 64 by omega))
      (enc_ne_pad _ (show c.toNat % 64 < 64 by omega))]
    simp only [dec_enc _ (show a.toNat / 4 < 64 by omega),
      dec_enc _ (show a.toNat % 4 * 16 + b.toNat / 16 < 64 by omega),
      dec_enc _ (show b.toNat % 16 * 4 + c.toNat / 64 < 64 by omega),
      dec_enc _ (show c.toNat % 64 < 64 by omega), ih]
    congr 2
    · exact byte_eq a _ (by omega)
    · congr 1
      · exact byte_eq b _ (by omega)
      · congr 1; exact byte_eq c _ (by omega)

theorem enc_safe_lt : ∀ n, n < 64 → enc n ≠ '\r' ∧ enc n ≠ ' ' := by decide +kernel

theorem enc_safe (n : Nat) : enc n ≠ '\r' ∧ enc n ≠ ' ' := by
  by_cases h : n < 64
  · exact enc_safe_lt n h
  · have : alphabet.length = 64 := by decide
    have hn : alphabet[n]? = none := by
      rw [List.getElem?_eq_none_iff]; omega
    simp [enc, List.getD, hn]

/-- base64 text contains neither CR nor blank. -/
theorem encode_safe (bs : List UInt8) : ∀ c ∈ encode bs, c ≠ '\r' ∧ c ≠ ' ' := by
  fun_induction encode bs with
  | case1 => simp
  | case2 a =>
    intro c hc
    simp only [List.mem_cons, List.not_mem_nil, or_false] at hc
    rcases hc with rfl | rfl | rfl | rfl
    · exact enc_safe _
    · exact enc_safe _
    · decide
    · decide
  | case3 a b =>
    intro c hc
    simp only [List.mem_cons, List.not_mem_nil, or_false] at hc
    rcases hc with rfl | rfl | rfl | rfl
    · exact enc_safe _
    · exact enc_safe _
    · exact enc_safe _
    · decide
  | case4 a b c rest ih =>
    intro x hx
    simp only [List.mem_cons] at hx
    rcases hx with rfl | rfl | rfl | rfl | hx
    · exact enc_safe _
    · exact enc_safe _
    · exact enc_safe _
    · exact enc_safe _
    · exact ih x hx

end WS.Lemmas.B64
