/-
  WS.Lemmas.Parser — the staged parser `frame_buffer.recv_frame` refines the RFC decoder:
  from a cleared parser whose pending bytes (in any chunking) start with a complete frame, it returns
  the decoder's frame (or validate's protocol error for it) and consumes exactly that frame.
-/
import WS.Lemmas.RecvStrict
import WS.Lemmas.Frame
namespace WS.Lemmas.Parser
open WS WS.Model WS.Spec WS.Lemmas.RecvStrict WS.Lemmas.Frame

/-- the loop-level and send-side fields (everything the parser never touches). -/
def SameLoop (c c' : Conn) : Prop :=
  c'.contData = c.contData ∧ c'.recving = c.recving ∧
  c'.fireCont = c.fireCont ∧ c'.skipUtf8 = c.skipUtf8 ∧ c'.keys = c.keys ∧ c'.keyDraws = c.keyDraws ∧
  c'.connected = c.connected ∧ c'.sock.sent = c.sock.sent ∧ c'.sock.tail = c.sock.tail ∧
  c'.sock.accepts = c.sock.accepts ∧ c'.sock.accI = c.sock.accI ∧ c'.sock.sendFailAt = c.sock.sendFailAt ∧
  c'.sock.sendCalls = c.sock.sendCalls ∧ c'.sock.timeoutMs = c.sock.timeoutMs ∧ c'.sock.clock = c.sock.clock

theorem SameLoop.of_rest {c c' : Conn} (h : SameRest c c') : SameLoop c c' := by
  unfold SameRest at h; unfold SameLoop
  obtain ⟨_, _, _, a4, a5, a6, a7, a8, a9, a10, a11, a12, a13, a14, a15, a16, a17, a18⟩ := h
  exact ⟨a4, a5, a6, a7, a8, a9, a10, a11, a12, a13, a14, a15, a16, a17, a18⟩

theorem SameLoop.rfl' (c : Conn) : SameLoop c c := by simp [SameLoop]

theorem SameLoop.trans {a b c : Conn} (h1 : SameLoop a b) (h2 : SameLoop b c) : SameLoop a c := by
  unfold SameLoop at *
  obtain ⟨a4, a5, a6, a7, a8, a9, a10, a11, a12, a13, a14, a15, a16, a17, a18⟩ := h1
  obtain ⟨b4, b5, b6, b7, b8, b9, b10, b11, b12, b13, b14, b15, b16, b17, b18⟩ := h2
  refine ⟨?_, ?_, ?_, ?_, ?_, ?_, ?_, ?_, ?_, ?_, ?_, ?_, ?_, ?_, ?_⟩ <;> simp [*]

/-- bundle: the state after a parser step is still a live chunk transport, the loop/send side is
    untouched, and every size asked of the transport is within the cap. -/
structure Good (c c' : Conn) : Prop where
  live : Live c'
  chunks : Chunks c'.sock.inp
  same : SameLoop c c'
  sizes : SizesOk c c'

theorem Good.trans {a b c : Conn} (h1 : Good a b) (h2 : Good b c) : Good a c :=
  ⟨h2.live, h2.chunks, SameLoop.trans h1.same h2.same, SizesOk.trans h1.sizes h2.sizes⟩

/-- the code's shifts and masks on a header byte are the RFC's arithmetic. -/
theorem byte_bits : ∀ b, b < 256 →
    (b >>> 7 &&& 1 = b / 128) ∧ (b >>> 6 &&& 1 = b / 64 % 2) ∧ (b >>> 5 &&& 1 = b / 32 % 2) ∧
    (b >>> 4 &&& 1 = b / 16 % 2) ∧ (b &&& 0xF = b % 16) ∧ (b &&& 0x7F = b % 128) ∧
    ((b &&& 0x7F) &&& 0x7F = b % 128) := by
  decide +kernel

def hdrOf (b0 b1 : UInt8) : Hdr :=
  { fin := b0.toNat / 128, rsv1 := b0.toNat / 64 % 2, rsv2 := b0.toNat / 32 % 2, rsv3 := b0.toNat / 16 % 2,
    opcode := b0.toNat % 16, hasMask := b1.toNat / 128, lenBits := b1.toNat % 128 }

theorem recvHeader_avail (c : Conn) (b0 b1 : UInt8) (r2 : Bytes) (hl : Live c) (hch : Chunks c.sock.inp)
    (hp : pending c = b0 :: b1 :: r2) :
    ∃ c1, c.recvHeader = (none, c1) ∧ c1.hdr = some (hdrOf b0 b1) ∧ c1.len = c.len ∧ c1.maskv = c.maskv ∧
      pending c1 = r2 ∧ Good c c1 := by
  obtain ⟨c1, h1, hp1, hl1, hch1, hsr, hsz⟩ := recvStrict_avail c 2 hl hch (by rw [hp]; simp)
  unfold Conn.recvHeader
  rw [h1, hp]
  simp only [List.take]
  have hb0 := byte_bits b0.toNat b0.toNat_lt
  have hb1 := byte_bits b1.toNat b1.toNat_lt
  obtain ⟨x1, x2, x3, x4, x5, _, _⟩ := hb0
  obtain ⟨y1, _, _, _, _, y6, _⟩ := hb1
  refine ⟨_, rfl, ?_, hsr.2.1, hsr.2.2.1, ?_, ⟨by simpa [Live] using hl1, by simpa using hch1, ?_, hsz⟩⟩
  · simp [hdrOf, x1, x2, x3, x4, x5, y1, y6]
  · have : pending c1 = r2 := by rw [hp1, hp]; rfl
    simpa [pending] using this
  · have := SameLoop.of_rest hsr
    simpa [SameLoop] using this

theorem and7f : ∀ x, x < 128 → x &&& 0x7F = x := by decide +kernel

theorem recvLength_avail (c : Conn) (b0 b1 : UInt8) (hl : Live c) (hch : Chunks c.sock.inp)
    (extN L : Nat)
    (hcase : (b1.toNat % 128 = 126 ∧ extN = 2 ∧ 2 ≤ (pending c).length ∧ L = unbe ((pending c).take 2)) ∨
             (b1.toNat % 128 = 127 ∧ extN = 8 ∧ 8 ≤ (pending c).length ∧ L = unbe ((pending c).take 8)) ∨
             (b1.toNat % 128 ≠ 126 ∧ b1.toNat % 128 ≠ 127 ∧ extN = 0 ∧ L = b1.toNat % 128)) :
    ∃ c2, c.recvLength (hdrOf b0 b1) = (none, c2) ∧ c2.len = some L ∧ c2.hdr = c.hdr ∧ c2.maskv = c.maskv ∧
      pending c2 = (pending c).drop extN ∧ Good c c2 := by
  have hlb : (hdrOf b0 b1).lenBits &&& 0x7F = b1.toNat % 128 := by
    simp only [hdrOf]; exact and7f _ (by omega)
  unfold Conn.recvLength
  simp only [hlb]
  rcases hcase with ⟨h126, rfl, hav, rfl⟩ | ⟨h127, rfl, hav, rfl⟩ | ⟨n126, n127, rfl, rfl⟩
  · obtain ⟨c1, h1, hp1, hl1, hch1, hsr, hsz⟩ := recvStrict_avail c 2 hl hch hav
    simp only [h126]
    simp only [show ((126 : Nat) == 0x7E) = true by decide, if_true, h1]
    refine ⟨_, rfl, rfl, hsr.1, hsr.2.2.1, ?_, ⟨by simpa [Live] using hl1, by simpa using hch1, ?_, hsz⟩⟩
    · simpa [pending] using hp1
    · simpa [SameLoop] using SameLoop.of_rest hsr
  · obtain ⟨c1, h1, hp1, hl1, hch1, hsr, hsz⟩ := recvStrict_avail c 8 hl hch hav
    simp only [h127]
    simp only [show ((127 : Nat) == 0x7E) = false by decide, show ((127 : Nat) == 0x7F) = true by decide, if_true, h1]
    simp only [Bool.false_eq_true, if_false]
    refine ⟨_, rfl, rfl, hsr.1, hsr.2.2.1, ?_, ⟨by simpa [Live] using hl1, by simpa using hch1, ?_, hsz⟩⟩
    · simpa [pending] using hp1
    · simpa [SameLoop] using SameLoop.of_rest hsr
  · have e1 : (b1.toNat % 128 == 0x7E) = false := by simpa using n126
    have e2 : (b1.toNat % 128 == 0x7F) = false := by simpa using n127
    simp only [e1, e2, Bool.false_eq_true, if_false]
    refine ⟨_, rfl, rfl, rfl, rfl, by simp [pending], ⟨by simpa [Live] using hl, by simpa using hch, by simp [SameLoop], SizesOk.rfl' c⟩⟩

theorem recvMask_avail (c : Conn) (b0 b1 : UInt8) (hl : Live c) (hch : Chunks c.sock.inp)
    (hcase : (b1.toNat / 128 = 1 ∧ 4 ≤ (pending c).length) ∨ b1.toNat / 128 = 0) :
    ∃ c3, c.recvMask (hdrOf b0 b1) = (none, c3) ∧
      c3.maskv = some (if b1.toNat / 128 = 1 then (pending c).take 4 else []) ∧
      c3.hdr = c.hdr ∧ c3.len = c.len ∧
      pending c3 = (pending c).drop (if b1.toNat / 128 = 1 then 4 else 0) ∧ Good c c3 := by
  unfold Conn.recvMask
  simp only [hdrOf]
  rcases hcase with ⟨hm, hav⟩ | hm
  · obtain ⟨c1, h1, hp1, hl1, hch1, hsr, hsz⟩ := recvStrict_avail c 4 hl hch hav
    simp only [hm, show ((1 : Nat) != 0) = true by decide, if_true, h1]
    refine ⟨_, rfl, rfl, hsr.1, hsr.2.1, ?_, ⟨by simpa [Live] using hl1, by simpa using hch1, ?_, hsz⟩⟩
    · simpa [pending] using hp1
    · simpa [SameLoop] using SameLoop.of_rest hsr
  · simp only [hm, show ((0 : Nat) != 0) = false by decide, Bool.false_eq_true, if_false]
    refine ⟨_, rfl, by simp, rfl, rfl, by simp [pending], ⟨by simpa [Live] using hl, by simpa using hch, by simp [SameLoop], SizesOk.rfl' c⟩⟩

def frameOfWire (w : WireFrame) : Frame :=
  { fin := w.fin, rsv1 := w.rsv1, rsv2 := w.rsv2, rsv3 := w.rsv3, opcode := w.opcode,
    mask := if w.masked then 1 else 0, data := w.payload }

def Cleared (c : Conn) : Prop := c.hdr = none ∧ c.len = none ∧ c.maskv = none

/-- what `decodeLen` says about the stream when it yields a frame. -/
theorem decodeLen_frame (b0 : UInt8) (masked : Bool) (len7 : Nat) (r2 : Bytes) (w : WireFrame) (rest : Bytes)
    (h : decodeLen b0 masked len7 r2 = .frame w rest) :
    ∃ extN form L,
      ((len7 = 126 ∧ extN = 2 ∧ 2 ≤ r2.length ∧ L = unbe (r2.take 2) ∧ form = 16) ∨
       (len7 = 127 ∧ extN = 8 ∧ 8 ≤ r2.length ∧ L = unbe (r2.take 8) ∧ form = 64) ∨
       (len7 ≠ 126 ∧ len7 ≠ 127 ∧ extN = 0 ∧ L = len7 ∧ form = 7)) ∧
      decodePayload b0 masked form L (r2.drop extN) = .frame w rest := by
  unfold decodeLen at h
  by_cases h126 : len7 = 126
  · simp only [h126, if_true] at h
    by_cases hs : r2.length < 2
    · simp [hs] at h
    · simp only [hs, if_false] at h
      exact ⟨2, 16, _, Or.inl ⟨h126, rfl, by omega, rfl, rfl⟩, h⟩
  · simp only [h126, if_false] at h
    by_cases h127 : len7 = 127
    · simp only [h127, if_true] at h
      by_cases hs : r2.length < 8
      · simp [hs] at h
      · simp only [hs, if_false] at h
        exact ⟨8, 64, _, Or.inr (Or.inl ⟨h127, rfl, by omega, rfl, rfl⟩), h⟩
    · simp only [h127, if_false] at h
      exact ⟨0, 7, _, Or.inr (Or.inr ⟨h126, h127, rfl, rfl, rfl⟩), by simpa using h⟩

theorem decodePayload_frame (b0 : UInt8) (masked : Bool) (form L : Nat) (r : Bytes) (w : WireFrame) (rest : Bytes)
    (h : decodePayload b0 masked form L r = .frame w rest) :
    (if masked then 4 else 0) + L ≤ r.length ∧
    w = mkWire b0 masked (r.take (if masked then 4 else 0)) form
          (if masked then unmask (r.take 4) ((r.drop 4).take L) else r.take L) ∧
    rest = (r.drop (if masked then 4 else 0)).drop L := by
  unfold decodePayload at h
  simp only [] at h
  by_cases hs : r.length < (if masked = true then 4 else 0) + L
  · simp [hs] at h
  · simp only [hs, if_false] at h
    injection h with hw hr
    refine ⟨by omega, ?_, hr.symm⟩
    rw [← hw]
    cases masked <;> simp [mkWire]

theorem b1_div (b1 : UInt8) : b1.toNat / 128 = 0 ∨ b1.toNat / 128 = 1 := by
  have := b1.toNat_lt; omega

/-- **the parser refines the RFC decoder** — from a cleared parser on a live connection whose pending
    bytes (buffered + still in the transport, in ANY chunking) start with a complete frame, `recv_frame`
    yields exactly the frame the RFC decoder extracts (or the protocol error `validate` raises for it),
    consumes exactly that frame's bytes, and leaves the parser cleared. -/
theorem recvFrame_decodes (c : Conn) (hl : Live c) (hch : Chunks c.sock.inp) (hclr : Cleared c)
    (w : WireFrame) (rest : Bytes) (hdec : decode (pending c) = .frame w rest) :
    ∃ c', c.recvFrame = ((match validate (frameOfWire w) c.skipUtf8 with
                          | some e => .error e
                          | none => .ok (frameOfWire w)), c') ∧
      pending c' = rest ∧ Cleared c' ∧ Good c c' := by
  obtain ⟨hh, hln, hmk⟩ := hclr
  -- two header bytes are there
  cases hp : pending c with
  | nil => rw [hp] at hdec; simp [decode] at hdec
  | cons b0 t =>
    cases t with
    | nil => rw [hp] at hdec; simp [decode] at hdec
    | cons b1 r2 =>
      rw [hp] at hdec
      simp only [decode] at hdec
      obtain ⟨extN, form, L, hcase, hpay⟩ := decodeLen_frame _ _ _ _ _ _ hdec
      obtain ⟨hlenok, hw, hrest⟩ := decodePayload_frame _ _ _ _ _ _ _ hpay
      -- stage 1
      obtain ⟨c1, e1, c1h, c1l, c1m, p1, g1⟩ := recvHeader_avail c b0 b1 r2 hl hch hp
      -- stage 2
      have hcase2 : (b1.toNat % 128 = 126 ∧ extN = 2 ∧ 2 ≤ (pending c1).length ∧ L = unbe ((pending c1).take 2)) ∨
             (b1.toNat % 128 = 127 ∧ extN = 8 ∧ 8 ≤ (pending c1).length ∧ L = unbe ((pending c1).take 8)) ∨
             (b1.toNat % 128 ≠ 126 ∧ b1.toNat % 128 ≠ 127 ∧ extN = 0 ∧ L = b1.toNat % 128) := by
        rw [p1]
        rcases hcase with ⟨a, b, cc, d, _⟩ | ⟨a, b, cc, d, _⟩ | ⟨a, b, cc, d, _⟩
        · exact Or.inl ⟨a, b, cc, d⟩
        · exact Or.inr (Or.inl ⟨a, b, cc, d⟩)
        · exact Or.inr (Or.inr ⟨a, b, cc, d⟩)
      obtain ⟨c2, e2, c2l, c2h, c2m, p2, g2⟩ := recvLength_avail c1 b0 b1 g1.live g1.chunks extN L hcase2
      rw [p1] at p2
      -- stage 3
      have hmcase : (b1.toNat / 128 = 1 ∧ 4 ≤ (pending c2).length) ∨ b1.toNat / 128 = 0 := by
        rcases b1_div b1 with h0 | h1
        · exact Or.inr h0
        · left
          refine ⟨h1, ?_⟩
          rw [p2]
          have : (b1.toNat / 128 == 1) = true := by simp [h1]
          simp only [this, if_true] at hlenok
          omega
      obtain ⟨c3, e3, c3m, c3h, c3l, p3, g3⟩ := recvMask_avail c2 b0 b1 g2.live g2.chunks hmcase
      rw [p2] at p3 c3m
      -- stage 4
      have hav4 : L ≤ (pending c3).length := by
        rw [p3]
        rcases b1_div b1 with h0 | h1
        · have : (b1.toNat / 128 == 1) = false := by simp [h0]
          simp only [this, Bool.false_eq_true, if_false, List.length_drop] at hlenok
          simp only [h0, show ¬ ((0 : Nat) = 1) by omega, if_false, List.length_drop, List.drop_zero]
          omega
        · have : (b1.toNat / 128 == 1) = true := by simp [h1]
          simp only [this, if_true, List.length_drop] at hlenok
          simp only [h1, if_true, List.length_drop]
          omega
      obtain ⟨c4, e4, p4, l4, ch4, sr4, sz4⟩ := recvStrict_avail c3 L g3.live g3.chunks hav4
      -- assemble
      have hc1hdr : c1.hdr.isNone = false := by simp [c1h]
      have hc1len : c1.len.isNone = true := by simp [c1l, hln]
      have hc2msk : c2.maskv.isNone = true := by simp [c2m, c1m, hmk]
      unfold Conn.recvFrame
      simp only [hh, Option.isNone_none, if_true, e1, c1h, hc1len, e2, hc2msk, e3, c2l, Option.getD_some, e4, c3m]
      refine ⟨{ c4 with hdr := none, len := none, maskv := none }, ?_, ?_, ⟨rfl, rfl, rfl⟩, ?_⟩
      · -- the frame and the validation outcome
        have hskip : c4.skipUtf8 = c.skipUtf8 := by
          rw [sr4.2.2.2.2.2.2.1, g3.same.2.2.2.1, g2.same.2.2.2.1, g1.same.2.2.2.1]
        have hframe : ({ fin := (hdrOf b0 b1).fin, rsv1 := (hdrOf b0 b1).rsv1, rsv2 := (hdrOf b0 b1).rsv2,
                         rsv3 := (hdrOf b0 b1).rsv3, opcode := (hdrOf b0 b1).opcode, mask := (hdrOf b0 b1).hasMask,
                         data := if ((hdrOf b0 b1).hasMask != 0) = true then
                                   mask (if b1.toNat / 128 = 1 then List.take 4 (List.drop extN r2) else [])
                                     (List.take L (pending c3))
                                 else List.take L (pending c3) } : Frame) = frameOfWire w := by
          rw [hw, p3]
          rcases b1_div b1 with h0 | h1
          · have hm : (b1.toNat / 128 == 1) = false := by simp [h0]
            simp [frameOfWire, mkWire, hdrOf, h0, hm]
          · have hm : (b1.toNat / 128 == 1) = true := by simp [h1]
            have hk : (List.take 4 (List.drop extN r2)).length = 4 := by
              simp only [hm, if_true, List.length_drop] at hlenok
              simp only [List.length_take, List.length_drop]; omega
            simp [frameOfWire, mkWire, hdrOf, h1, hm, mask_eq_unmask _ _ hk]
        simp only [hskip] at *
        rw [hframe]
        cases validate (frameOfWire w) c.skipUtf8 <;> rfl
      · have : pending c4 = rest := by
          rw [p4, p3, hrest]
          rcases b1_div b1 with h0 | h1
          · have hm : (b1.toNat / 128 == 1) = false := by simp [h0]
            simp [h0, hm]
          · have hm : (b1.toNat / 128 == 1) = true := by simp [h1]
            simp [h1, hm]
        simpa [pending] using this
      · have g4 : Good c3 c4 := ⟨l4, ch4, SameLoop.of_rest sr4, sz4⟩
        have g := Good.trans g1 (Good.trans g2 (Good.trans g3 g4))
        exact ⟨by simpa [Live] using g.live, by simpa using g.chunks, by simpa [SameLoop] using g.same, g.sizes⟩

end WS.Lemmas.Parser
