/-
  WS.Lemmas.AppLost — reconnection after an ESTABLISHED connection is lost (built-in dispatcher loop, quiet plan,
  keepalive off).  A connection that carried legal traffic and then ended by end of stream, reset, protocol or
  payload error is, with a reconnect interval set, followed by `sleep r` and the next attempt exactly `r` after
  the loss; a transport the loss left open is released before that attempt's dial; any mix of failed attempts and
  lost connections is worked through until a connection is closed by the server.
-/
import WS.Lemmas.AppReconn
namespace WS.Lemmas.App
open WS WS.Model.App
open WS.Spec.AppTrace (cbOnly expectedDeliveries reportTrace)

/-- the ways an established connection is lost (everything terminating but the server's close frame) -/
def isLoss : SrvEv → Bool
  | .eof | .reset | .protoError | .payloadError => true
  | _ => false

/-- the exception `read()` raises for a loss -/
def lossExn : SrvEv → AExn
  | .reset => .transport
  | .protoError => .proto
  | .payloadError => .payload
  | _ => .closed

/-- what the loss leaves of the `WebSocket` object: end of stream releases the transport (`_core._recv`), a reset leaves
    it unusable but open, a refused frame leaves it as it is -/
def lossSock (ev : SrvEv) (w : WSock) : WSock :=
  match ev with
  | .eof => { w with isOpen := false, connected := false }
  | .reset => { w with dead := true }
  | _ => w

theorem loss_term {ev : SrvEv} (h : isLoss ev = true) : isTerm ev = true := by
  cases ev <;> simp_all [isLoss, isTerm]

theorem lossExn_ne_ki (ev : SrvEv) : lossExn ev ≠ .ki := by
  cases ev <;> simp [lossExn]

/-- `read()` at a loss event: the exception, and what happened to the transport -/
theorem loss_result (c : Cfg) (s : St) (te : TEv) (w : WSock)
    (sk : s.sock = some w) (wo : w.isOpen = true) (arrived : s.arr + te.dt ≤ s.now) (hl : isLoss te.ev = true) :
    fin (readEvents c [te] s) =
      ({ s with sock := some (lossSock te.ev w), evs := [], arr := s.arr + te.dt,
                trace := s.trace ++ (if te.ev = .eof then [(s.now, .sockClosed w.idx)] else []) },
       .exc (lossExn te.ev)) := by
  cases hk : te.ev with
  | message op p f => simp [hk, isLoss] at hl
  | ping p => simp [hk, isLoss] at hl
  | pong p => simp [hk, isLoss] at hl
  | part => simp [hk, isLoss] at hl
  | close b => simp [hk, isLoss] at hl
  | eof =>
    simp [readEvents, handleEv, fin, arrived, hk, sk, closeTransport, wo, lossSock, lossExn, St.emit]
  | reset =>
    simp [readEvents, handleEv, fin, arrived, hk, sk, lossSock, lossExn]
  | protoError =>
    simp [readEvents, handleEv, fin, arrived, hk, sk, lossSock, lossExn]
  | payloadError =>
    simp [readEvents, handleEv, fin, arrived, hk, sk, lossSock, lossExn]

/-- handleDisconnect with a reconnect interval set, while the run is wanted: the error is recorded, reported only for the
    first connection of the run (`if not reconnecting`), and the caller goes on to dial again -/
theorem disconnect_reconnect (c : Cfg) (hq : Quiet c) (hr : c.reconnect ≠ 0) (s : St) (e : AExn) (rc : Bool)
    (kr : s.keepRunning = true) (pg : s.ping = none) (hki : e ≠ .ki) :
    handleDisconnect c s e rc =
      ({ s with hasErrored := true, lastPing := 0, lastPong := 0,
                calls := if rc then s.calls else cbCalls c s.calls .onError,
                trace := s.trace ++ (if rc then [] else cbTrace c s.calls s.now .onError [.exn e]) }, .ok ()) := by
  rw [handleDisconnect_running c s e rc kr]
  cases rc with
  | true =>
    simp [handleDisconnectBody, gen_dcErr, gen_dcStops, stopPing, pg, afterReport, hki, hr]
  | false =>
    simp [handleDisconnectBody, gen_dcErr, gen_dcStops, stopPing, pg, afterReport, hki, hr, callback_quiet c hq]

/-- the state in which `setSock` returns after a connection entered in `s3` carried `legal` and was lost by `te` -/
def lostState (c : Cfg) (s3 : St) (legal : List TEv) (te : TEv) (rc : Bool) (idx : Nat) : St :=
  let sT : St := { runLegal c s3 legal with now := endTime s3.arr (legal ++ [te]) }
  { sT with hasErrored := true, lastPing := 0, lastPong := 0,
            sock := some (lossSock te.ev { idx := idx, connected := true, isOpen := true, dead := false }),
            evs := [], arr := sT.arr + te.dt,
            calls := if rc then sT.calls else cbCalls c sT.calls .onError,
            trace := (sT.trace ++ (if te.ev = .eof then [(sT.now, .sockClosed idx)] else [])) ++
              (if rc then [] else cbTrace c sT.calls sT.now .onError [.exn (lossExn te.ev)]) }

/-- a successful attempt whose connection is then lost, reconnect interval set: `setSock` returns normally -/
theorem attempt_lost (c : Cfg) (hq : Quiet c) (hT : 0 < selectTimeout c) (hiv : c.iv = 0) (hr : c.reconnect ≠ 0)
    (s : St) (rc : Bool) (legal : List TEv) (te : TEv) (ds : List Dial)
    (hd : s.dials = .established (legal ++ [te]) :: ds)
    (hs : s.sock = none ∨ ∃ w, s.sock = some w ∧ w.isOpen = false)
    (kr : s.keepRunning = true) (pg : s.ping = none) (lp : s.lastPing = 0)
    (hleg : ∀ e ∈ legal, isLegal e.ev = true) (hl : isLoss te.ev = true)
    (hfuel : need0 (selectTimeout c) (legal ++ [te]) + 1 ≤ c.fuel)
    (hz : endTime s.now (legal ++ [te]) ≤ c.horizon) :
    setSock c s rc = (lostState c (enterR c s rc (legal ++ [te]) ds) legal te rc s.nextIdx, .ok ()) := by
  rw [setSock_est c hq hiv s rc (legal ++ [te]) ds hd hs]
  have hu3 : Up (enterR c s rc (legal ++ [te]) ds) := ⟨kr, ⟨_, rfl, rfl, rfl, rfl⟩, pg, lp⟩
  obtain ⟨hlp, hat⟩ := loop_conn c hq hT (enterR c s rc (legal ++ [te]) ds) legal te c.fuel hu3 rfl rfl hleg
    (loss_term hl) hfuel hz
  rw [hlp]
  have hu2 := runLegal_up c legal _ hu3
  have hsk : (runLegal c (enterR c s rc (legal ++ [te]) ds) legal).sock =
      some { idx := s.nextIdx, connected := true, isOpen := true, dead := false } := by
    rw [runLegal_sock]; rfl
  rw [loss_result c _ te _ (by simpa using hsk) rfl (by simp only []; omega) hl]
  simp only [afterLoop]
  rw [disconnect_reconnect c hq hr _ _ rc (by simpa using hu2.kr) (by simpa using hu2.pg) (lossExn_ne_ki _)]
  rfl

/-! ### the reconnect loop from a state whose previous transport may still be open -/

/-- waiting to reconnect: loop running, no ping thread, some `WebSocket` object left from the previous attempt (its
    transport released or not) -/
structure Waiting (s : St) : Prop where
  kr : s.keepRunning = true
  pg : s.ping = none
  hdt : s.hasDoneTeardown = false
  lp : s.lastPing = 0
  he : s.hasErrored = true
  sk : ∃ w, s.sock = some w

/-- index of the transport still open, if any -/
def openIdx (s : St) : Option Nat :=
  match s.sock with
  | some w => if w.isOpen then some w.idx else none
  | none => none

/-- the interval slept and `if reconnecting and self.sock: self.sock.shutdown()` done -/
def preStep (r : Nat) (s : St) : St := release (sleepStep r s) true

theorem release_idem (s : St) : release (release s true) true = release s true := by
  unfold release
  simp only [↓reduceIte]
  cases hs : s.sock with
  | none => simp [hs]
  | some w =>
    by_cases ho : w.isOpen = true
    · simp [closeTransport, hs, ho, St.emit]
    · have ho' : w.isOpen = false := by simpa using ho
      simp [closeTransport, hs, ho']

theorem setSock_release (c : Cfg) (s : St) : setSock c s true = setSock c (release s true) true := by
  unfold setSock; rw [release_idem]

/-- what the release adds to the network skeleton -/
def relTrace (t : Nat) : Option Nat → Trace
  | some j => [(t, .sockClosed j)]
  | none => []

theorem preStep_spec (r : Nat) (s : St) (h : Waiting s) :
    Retrying (preStep r s) ∧ (preStep r s).now = s.now + r ∧ (preStep r s).nextIdx = s.nextIdx ∧
    (preStep r s).dials = s.dials ∧ (preStep r s).hasErrored = true ∧
    netOnly (preStep r s).trace = netOnly s.trace ++ [(s.now, .sleep r)] ++ relTrace (s.now + r) (openIdx s) ∧
    cbOnly (preStep r s).trace = cbOnly s.trace ∧ (preStep r s).calls = s.calls := by
  obtain ⟨w, hs⟩ := h.sk
  by_cases ho : w.isOpen = true
  · have e : preStep r s =
        { s with now := s.now + r, sock := some { w with isOpen := false, connected := false },
                 trace := s.trace ++ [(s.now, .sleep r)] ++ [(s.now + r, .sockClosed w.idx)] } := by
      simp [preStep, release, sleepStep, closeTransport, hs, ho, St.emit]
    rw [e]
    refine ⟨⟨h.kr, h.pg, h.hdt, h.lp, ⟨_, rfl, rfl⟩⟩, rfl, rfl, rfl, h.he, ?_, ?_, rfl⟩
    · simp [netOnly_append, openIdx, hs, ho, relTrace, netOnly]
    · simp [cbOnly]
  · have ho' : w.isOpen = false := by simpa using ho
    have e : preStep r s =
        { s with now := s.now + r, sock := some { w with connected := false },
                 trace := s.trace ++ [(s.now, .sleep r)] } := by
      simp [preStep, release, sleepStep, closeTransport, hs, ho']
    rw [e]
    refine ⟨⟨h.kr, h.pg, h.hdt, h.lp, ⟨_, rfl, ho'⟩⟩, rfl, rfl, rfl, h.he, ?_, ?_, rfl⟩
    · simp [netOnly_append, openIdx, hs, ho', relTrace, netOnly]
    · simp [cbOnly]

/-- one iteration of the reconnect loop up to the call of setSock(True), previous transport open or not -/
theorem rl_stepW (c : Cfg) (n : Nat) (s : St) (h : Waiting s) (hz : s.now + c.reconnect ≤ c.horizon) :
    reconnectLoop c (n + 1) s = rlNext (reconnectLoop c n) (setSock c (preStep c.reconnect s) true) := by
  rw [rl_step c n s h.kr h.pg hz, setSock_release]
  rfl

/-! ### attempts that do not end the run -/

/-- an attempt after which the client must try again: a dial that fails, or a connection that is established, carries
    legal traffic and is lost -/
inductive Att where
  | fail (d : Dial)
  | lost (legal : List TEv) (te : TEv)

def Att.toDial : Att → Dial
  | .fail d => d
  | .lost legal te => .established (legal ++ [te])

def Att.Ok : Att → Prop
  | .fail d => isFail d = true
  | .lost legal te => (∀ e ∈ legal, isLegal e.ev = true) ∧ isLoss te.ev = true

/-- dispatcher-loop iterations the attempt needs -/
def Att.fuel (T : Nat) : Att → Nat
  | .fail _ => 0
  | .lost legal te => need0 T (legal ++ [te]) + 1

/-- the tick at which the attempt dialled at `t` is over -/
def attEnd (t : Nat) : Att → Nat
  | .fail _ => t
  | .lost legal te => endTime t (legal ++ [te])

/-- the transport the attempt leaves open -/
def attOpen (i : Nat) : Att → Option Nat
  | .fail _ => none
  | .lost _ te => if te.ev = .eof then none else some i

/-- the release the attempt itself performs (a failed dial closes its socket at once, end of stream releases it) -/
def attClose (t i : Nat) : Att → Trace
  | .fail _ => [(t, .sockClosed i)]
  | .lost legal te => if te.ev = .eof then [(endTime t (legal ++ [te]), .sockClosed i)] else []

theorem attEnd_ge (t : Nat) (a : Att) : t ≤ attEnd t a := by
  cases a with
  | fail d => simp [attEnd]
  | lost legal te => exact endTime_ge t _

theorem runLegal_nextIdx (c : Cfg) : ∀ (l : List TEv) (s : St), (runLegal c s l).nextIdx = s.nextIdx := by
  intro l; induction l with
  | nil => intro s; rfl
  | cons e r ih =>
    intro s; simp only [runLegal, List.foldl_cons] at ih ⊢; rw [ih]
    unfold applyLegal; cases e.ev <;> rfl

theorem runLegal_dials (c : Cfg) : ∀ (l : List TEv) (s : St), (runLegal c s l).dials = s.dials := by
  intro l; induction l with
  | nil => intro s; rfl
  | cons e r ih =>
    intro s; simp only [runLegal, List.foldl_cons] at ih ⊢; rw [ih]
    unfold applyLegal; cases e.ev <;> rfl

/-- the callbacks of an attempt that does not end the run, dialled at `t` with invocation counters `calls`, and the counters
    afterwards.  First attempt of a run (`rc = false`): the failure / loss is reported to on_error; a re-attempt reports
    nothing (`if not reconnecting`).  An established connection: the opening callback (on_reconnect for a re-established
    connection when set, else on_open), then the Spec's report of the expected deliveries at their arrival times. -/
def attCb (c : Cfg) (rc : Bool) (calls : Cb → Nat) (t : Nat) : Att → Trace × (Cb → Nat)
  | .fail d => if rc then ([], calls) else (cbTrace c calls t .onError [.exn (dialExn d)], cbCalls c calls .onError)
  | .lost legal te =>
    let c1 := cbCalls c calls (openCb c rc)
    let del := expectedDeliveries c.has t legal
    let c2 := specCalls c.has c.plan c1 del
    (cbTrace c calls t (openCb c rc) [] ++ reportTrace c.has c.plan c1 del ++
       (if rc then [] else cbTrace c c2 (endTime t (legal ++ [te])) .onError [.exn (lossExn te.ev)]),
     if rc then c2 else cbCalls c c2 .onError)

theorem lostState_cb (c : Cfg) (s : St) (rc : Bool) (legal : List TEv) (te : TEv) (ds : List Dial) (idx : Nat)
    (hleg : ∀ e ∈ legal, isLegal e.ev = true) :
    cbOnly (lostState c (enterR c s rc (legal ++ [te]) ds) legal te rc idx).trace =
      cbOnly s.trace ++ (attCb c rc s.calls s.now (.lost legal te)).1 ∧
    (lostState c (enterR c s rc (legal ++ [te]) ds) legal te rc idx).calls =
      (attCb c rc s.calls s.now (.lost legal te)).2 := by
  obtain ⟨h1, h2, _, _⟩ := runLegal_spec c legal (enterR c s rc (legal ++ [te]) ds) hleg rfl
  have e0 : cbOnly (enterR c s rc (legal ++ [te]) ds).trace =
      cbOnly s.trace ++ cbTrace c s.calls s.now (openCb c rc) [] := by
    simp only [enterR, cbOnly_append, cbOnly_cbTrace]; simp [cbOnly]
  have e1 : (enterR c s rc (legal ++ [te]) ds).calls = cbCalls c s.calls (openCb c rc) := rfl
  have e2 : (enterR c s rc (legal ++ [te]) ds).arr = s.now := rfl
  have e3 : ∀ t, cbOnly (if te.ev = SrvEv.eof then [(t, Ev.sockClosed idx)] else []) = [] := by
    intro t; split <;> simp [cbOnly]
  cases rc with
  | true =>
    refine ⟨?_, ?_⟩
    · simp only [lostState, attCb, cbOnly_append, h1, e0, e1, e2, e3, ↓reduceIte, List.append_nil, List.append_assoc]
    · simp only [lostState, attCb, h2, e1, e2, ↓reduceIte]
  | false =>
    refine ⟨?_, ?_⟩
    · simp only [lostState, attCb, cbOnly_append, cbOnly_cbTrace, h1, h2, e0, e1, e2, e3, Bool.false_eq_true, ↓reduceIte,
        List.append_assoc, List.nil_append]
    · simp only [lostState, attCb, h2, e1, e2, Bool.false_eq_true, ↓reduceIte]

/-- what the attempt (setSock after the sleep) does, from a state whose previous transport has been released -/
theorem retry_attempt (c : Cfg) (hq : Quiet c) (hT : 0 < selectTimeout c) (hiv : c.iv = 0) (hr : c.reconnect ≠ 0)
    (s : St) (a : Att) (ds : List Dial) (h : Retrying s) (he : s.hasErrored = true)
    (hd : s.dials = a.toDial :: ds) (ha : a.Ok)
    (hfuel : a.fuel (selectTimeout c) ≤ c.fuel) (hz : attEnd s.now a ≤ c.horizon) :
    ∃ s', setSock c s true = (s', .ok ()) ∧ Waiting s' ∧ s'.dials = ds ∧ s'.nextIdx = s.nextIdx + 1 ∧
      s'.now = attEnd s.now a ∧ openIdx s' = attOpen s.nextIdx a ∧
      netOnly s'.trace = netOnly s.trace ++ [(s.now, .dial s.nextIdx)] ++ attClose s.now s.nextIdx a ∧
      cbOnly s'.trace = cbOnly s.trace ++ (attCb c true s.calls s.now a).1 ∧ s'.calls = (attCb c true s.calls s.now a).2 := by
  obtain ⟨w, hs, hw⟩ := h.sk
  cases a with
  | fail d =>
    refine ⟨_, later_fail c hr s w d ds hs hw h.pg hd ha h.kr, ⟨h.kr, h.pg, h.hdt, rfl, rfl, ⟨_, rfl⟩⟩, rfl, rfl, rfl, ?_, ?_, ?_, rfl⟩
    · simp [openIdx, attOpen]
    · simp [netOnly_append, attClose, netOnly]
    · simp [attCb, cbOnly_append, cbOnly]
  | lost legal te =>
    obtain ⟨hleg, hl⟩ := ha
    have hu3 : Up (enterR c s true (legal ++ [te]) ds) := ⟨h.kr, ⟨_, rfl, rfl, rfl, rfl⟩, h.pg, h.lp⟩
    have hu2 := runLegal_up c legal _ hu3
    obtain ⟨cb1, cb2⟩ := lostState_cb c s true legal te ds s.nextIdx hleg
    refine ⟨_, attempt_lost c hq hT hiv hr s true legal te ds hd (Or.inr ⟨w, hs, hw⟩) h.kr h.pg h.lp hleg hl hfuel hz,
      ⟨by simpa [lostState] using hu2.kr, by simpa [lostState] using hu2.pg, ?_, rfl, rfl, ⟨_, rfl⟩⟩, ?_, ?_, rfl, ?_, ?_, cb1, cb2⟩
    · simp only [lostState]; rw [runLegal_hdt]; exact h.hdt
    · simp only [lostState]; rw [runLegal_dials]; rfl
    · simp only [lostState]; rw [runLegal_nextIdx]; rfl
    · simp only [openIdx, lostState, attOpen, lossSock]
      cases hk : te.ev <;> simp [hk, isLoss] at hl ⊢
    · simp only [lostState, netOnly_append, runLegal_net, attClose, enterR, netOnly_cbTrace, if_true, List.append_nil]
      by_cases hk : te.ev = .eof
      · simp [hk, netOnly]
      · simp [hk, netOnly]

/-- one whole round of the reconnect loop for an attempt that does not end the run -/
theorem rl_round (c : Cfg) (hq : Quiet c) (hT : 0 < selectTimeout c) (hiv : c.iv = 0) (hr : c.reconnect ≠ 0)
    (n : Nat) (s : St) (a : Att) (ds : List Dial) (h : Waiting s)
    (hd : s.dials = a.toDial :: ds) (ha : a.Ok)
    (hfuel : a.fuel (selectTimeout c) ≤ c.fuel) (hz : attEnd (s.now + c.reconnect) a ≤ c.horizon) :
    ∃ s', reconnectLoop c (n + 1) s = reconnectLoop c n s' ∧ Waiting s' ∧ s'.dials = ds ∧ s'.nextIdx = s.nextIdx + 1 ∧
      s'.now = attEnd (s.now + c.reconnect) a ∧ openIdx s' = attOpen s.nextIdx a ∧
      netOnly s'.trace = netOnly s.trace ++ [(s.now, .sleep c.reconnect)] ++ relTrace (s.now + c.reconnect) (openIdx s) ++
        [(s.now + c.reconnect, .dial s.nextIdx)] ++ attClose (s.now + c.reconnect) s.nextIdx a ∧
      cbOnly s'.trace = cbOnly s.trace ++ (attCb c true s.calls (s.now + c.reconnect) a).1 ∧
      s'.calls = (attCb c true s.calls (s.now + c.reconnect) a).2 := by
  obtain ⟨p1, p2, p3, p4, p5, p6, p7, p8⟩ := preStep_spec c.reconnect s h
  have hz1 : s.now + c.reconnect ≤ c.horizon := Nat.le_trans (attEnd_ge _ a) hz
  obtain ⟨s', e1, e2, e3, e4, e5, e6, e7, e8, e9⟩ := retry_attempt c hq hT hiv hr (preStep c.reconnect s) a ds p1 p5
    (by rw [p4]; exact hd) ha hfuel (by rw [p2]; exact hz)
  refine ⟨s', ?_, e2, e3, by rw [e4, p3], by rw [e5, p2], by rw [e6, p3], ?_, by rw [e8, p7, p8, p2], by rw [e9, p8, p2]⟩
  · rw [rl_stepW c n s h hz1, e1]; rfl
  · rw [e7, p6, p2, p3]

/-! ### any mix of failed attempts and lost connections, then a connection the server closes -/

/-- tick at which the last of the attempts `as` is over, the first of them being preceded by a sleep that starts at `t` -/
def attsEnd (r : Nat) : Nat → List Att → Nat
  | t, [] => t
  | t, a :: as => attsEnd r (attEnd (t + r) a) as

/-- the transport left open after the attempts -/
def attsOpen : Nat → Option Nat → List Att → Option Nat
  | _, o, [] => o
  | i, _, a :: as => attsOpen (i + 1) (attOpen i a) as

/-- the network skeleton of the retries: per attempt `sleep r`, release of what the previous connection left open, the dial
    exactly `r` after the previous attempt was over, and the release the attempt itself performs -/
def attsTrace (r : Nat) : Nat → Nat → Option Nat → List Att → Trace
  | _, _, _, [] => []
  | t, i, o, a :: as =>
    [(t, .sleep r)] ++ relTrace (t + r) o ++ [(t + r, .dial i)] ++ attClose (t + r) i a ++
      attsTrace r (attEnd (t + r) a) (i + 1) (attOpen i a) as

theorem attsEnd_ge (r : Nat) : ∀ (as : List Att) (t : Nat), t ≤ attsEnd r t as := by
  intro as
  induction as with
  | nil => intro t; simp [attsEnd]
  | cons a l ih =>
    intro t
    simp only [attsEnd]
    have := ih (attEnd (t + r) a)
    have := attEnd_ge (t + r) a
    omega

/-- the callbacks of the last connection of the run (re-established at `t`, legal traffic, closed by the server): opening
    callback, the Spec's report of the deliveries, on_close with the close frame's code and reason -/
def finalCb (c : Cfg) (calls : Cb → Nat) (t : Nat) (legal : List TEv) (te : TEv) (body : Bytes) : Trace :=
  let c1 := cbCalls c calls (openCb c true)
  let del := expectedDeliveries c.has t legal
  cbTrace c calls t (openCb c true) [] ++ reportTrace c.has c.plan c1 del ++
    cbTrace c (specCalls c.has c.plan c1 del) (endTime t (legal ++ [te])) .onClose (closeArgs c (some body))

/-- the last round: the attempt whose connection the server closes (previous transport open or not) -/
theorem rl_final (c : Cfg) (hq : Quiet c) (hT : 0 < selectTimeout c) (hiv : c.iv = 0) (n : Nat) (s : St)
    (legal : List TEv) (te : TEv) (body : Bytes) (h : Waiting s)
    (hd : s.dials = [.established (legal ++ [te])])
    (hleg : ∀ e ∈ legal, isLegal e.ev = true) (hk : te.ev = .close body)
    (hfuel : need0 (selectTimeout c) (legal ++ [te]) + 1 ≤ c.fuel)
    (hz : endTime (s.now + c.reconnect) (legal ++ [te]) ≤ c.horizon) :
    ∃ sF, reconnectLoop c (n + 2) s = (sF, .ok ()) ∧ sF.hasDoneTeardown = true ∧ sF.hasErrored = true ∧
      sF.sock = none ∧ sF.ping = none ∧ sF.keepRunning = false ∧
      sF.now = endTime (s.now + c.reconnect) (legal ++ [te]) ∧
      netOnly sF.trace = netOnly s.trace ++ [(s.now, .sleep c.reconnect)] ++ relTrace (s.now + c.reconnect) (openIdx s) ++
        [(s.now + c.reconnect, .dial s.nextIdx),
         (endTime (s.now + c.reconnect) (legal ++ [te]), .sockDropped s.nextIdx)] ∧
      cbOnly sF.trace = cbOnly s.trace ++ finalCb c s.calls (s.now + c.reconnect) legal te body := by
  obtain ⟨p1, p2, p3, p4, p5, p6, p7, p8⟩ := preStep_spec c.reconnect s h
  have hz1 : s.now + c.reconnect ≤ c.horizon := Nat.le_trans (endTime_ge _ _) hz
  obtain ⟨w, hs, hw⟩ := p1.sk
  have hac := attempt_close c hq hT hiv (preStep c.reconnect s) true legal te body [] (by rw [p4]; exact hd)
    (Or.inr ⟨w, hs, hw⟩) p1.kr p1.pg p1.hdt p1.lp hleg hk hfuel (by rw [p2]; exact hz)
  refine ⟨closeState c (enterR c (preStep c.reconnect s) true (legal ++ [te]) []) legal te body (preStep c.reconnect s).nextIdx,
    ?_, rfl, ?_, rfl, ?_, rfl, ?_, ?_, ?_⟩
  · rw [rl_stepW c (n + 1) s h hz1, hac]
    simp only [rlNext]
    rw [rl_stopped c n _ rfl]
  · simp only [closeState]; rw [runLegal_he]; exact p5
  · have hu3 : Up (enterR c (preStep c.reconnect s) true (legal ++ [te]) []) :=
      ⟨p1.kr, ⟨_, rfl, rfl, rfl, rfl⟩, p1.pg, p1.lp⟩
    have hu2 := runLegal_up c legal _ hu3
    simpa [closeState] using hu2.pg
  · simp only [closeState, enterR]; rw [p2]
  · simp only [closeState, netOnly_append, runLegal_net, netOnly_cbTrace, enterR, List.append_nil, p6, p2, p3]
    simp [netOnly, List.append_assoc]
  · obtain ⟨h1, h2, _, _⟩ := runLegal_spec c legal (enterR c (preStep c.reconnect s) true (legal ++ [te]) []) hleg rfl
    have e0 : cbOnly (enterR c (preStep c.reconnect s) true (legal ++ [te]) []).trace =
        cbOnly s.trace ++ cbTrace c s.calls (s.now + c.reconnect) (openCb c true) [] := by
      simp only [enterR, cbOnly_append, cbOnly_cbTrace, p7, p8, p2]; simp [cbOnly]
    have e1 : (enterR c (preStep c.reconnect s) true (legal ++ [te]) []).calls = cbCalls c s.calls (openCb c true) := by
      simp only [enterR, p8]
    have e2 : (enterR c (preStep c.reconnect s) true (legal ++ [te]) []).arr = s.now + c.reconnect := by
      simp only [enterR, p2]
    simp only [closeState, finalCb, cbOnly_append, cbOnly_cbTrace, h1, h2, e0, e1, e2, List.append_assoc]
    simp [cbOnly]

/-- the callbacks of the retries `as` (the first of them preceded by a sleep that starts at `t`), and the counters afterwards -/
def attsCb (c : Cfg) (r : Nat) : (Cb → Nat) → Nat → List Att → Trace × (Cb → Nat)
  | calls, _, [] => ([], calls)
  | calls, t, a :: as =>
    ((attCb c true calls (t + r) a).1 ++ (attsCb c r (attCb c true calls (t + r) a).2 (attEnd (t + r) a) as).1,
     (attsCb c r (attCb c true calls (t + r) a).2 (attEnd (t + r) a) as).2)

/-- **retry until a connection is closed by the server**, over any mix of failed attempts and lost connections -/
theorem rl_mixed (c : Cfg) (hq : Quiet c) (hT : 0 < selectTimeout c) (hiv : c.iv = 0) (hr : c.reconnect ≠ 0)
    (legal : List TEv) (te : TEv) (body : Bytes)
    (hleg : ∀ e ∈ legal, isLegal e.ev = true) (hk : te.ev = .close body)
    (hfuel : need0 (selectTimeout c) (legal ++ [te]) + 1 ≤ c.fuel) :
    ∀ (as : List Att) (s : St) (n : Nat), Waiting s →
      s.dials = as.map Att.toDial ++ [.established (legal ++ [te])] → (∀ a ∈ as, a.Ok) →
      (∀ a ∈ as, a.fuel (selectTimeout c) ≤ c.fuel) → as.length + 2 ≤ n →
      endTime (attsEnd c.reconnect s.now as + c.reconnect) (legal ++ [te]) ≤ c.horizon →
      ∃ sF, reconnectLoop c n s = (sF, .ok ()) ∧ sF.hasDoneTeardown = true ∧ sF.hasErrored = true ∧
        sF.sock = none ∧ sF.ping = none ∧ sF.keepRunning = false ∧
        sF.now = endTime (attsEnd c.reconnect s.now as + c.reconnect) (legal ++ [te]) ∧
        netOnly sF.trace = netOnly s.trace ++ attsTrace c.reconnect s.now s.nextIdx (openIdx s) as ++
          [(attsEnd c.reconnect s.now as, .sleep c.reconnect)] ++
          relTrace (attsEnd c.reconnect s.now as + c.reconnect) (attsOpen s.nextIdx (openIdx s) as) ++
          [(attsEnd c.reconnect s.now as + c.reconnect, .dial (s.nextIdx + as.length)),
           (endTime (attsEnd c.reconnect s.now as + c.reconnect) (legal ++ [te]), .sockDropped (s.nextIdx + as.length))] ∧
        cbOnly sF.trace = cbOnly s.trace ++ (attsCb c c.reconnect s.calls s.now as).1 ++
          finalCb c (attsCb c c.reconnect s.calls s.now as).2 (attsEnd c.reconnect s.now as + c.reconnect) legal te body := by
  intro as
  induction as with
  | nil =>
    intro s n h hd _ _ hn hz
    obtain ⟨m, rfl⟩ : ∃ m, n = m + 2 := ⟨n - 2, by simp at hn; omega⟩
    obtain ⟨sF, f1, f2, f3, f4, f5, f6, f7, f8, f9⟩ := rl_final c hq hT hiv m s legal te body h (by simpa using hd) hleg hk hfuel
      (by simpa [attsEnd] using hz)
    exact ⟨sF, f1, f2, f3, f4, f5, f6, by simpa [attsEnd] using f7, by simpa [attsEnd, attsTrace, attsOpen] using f8,
      by simpa [attsEnd, attsCb] using f9⟩
  | cons a l ih =>
    intro s n h hd hok hfl hn hz
    obtain ⟨m, rfl⟩ : ∃ m, n = m + 1 := ⟨n - 1, by simp at hn; omega⟩
    simp only [attsEnd] at hz
    have hz1 : attEnd (s.now + c.reconnect) a ≤ c.horizon := by
      have := attsEnd_ge c.reconnect l (attEnd (s.now + c.reconnect) a)
      have := endTime_ge (attsEnd c.reconnect (attEnd (s.now + c.reconnect) a) l + c.reconnect) (legal ++ [te])
      omega
    obtain ⟨s', e1, e2, e3, e4, e5, e6, e7, e8, e9⟩ := rl_round c hq hT hiv hr m s a (l.map Att.toDial ++ [.established (legal ++ [te])])
      h (by simpa using hd) (hok a (by simp)) (hfl a (by simp)) hz1
    obtain ⟨sF, f1, f2, f3, f4, f5, f6, f7, f8, f9⟩ := ih s' m e2 e3 (fun x hx => hok x (by simp [hx]))
      (fun x hx => hfl x (by simp [hx])) (by simp at hn ⊢; omega) (by rw [e5]; exact hz)
    refine ⟨sF, by rw [e1, f1], f2, f3, f4, f5, f6, ?_, ?_, ?_⟩
    · rw [f7, e5]; simp only [attsEnd]
    · rw [f8, e7, e4, e5, e6]
      simp only [attsTrace, attsEnd, attsOpen, List.length_cons, List.append_assoc]
      have : s.nextIdx + 1 + l.length = s.nextIdx + (l.length + 1) := by omega
      rw [this]
    · rw [f9, e8, e9, e5]
      simp only [attsCb, attsEnd, List.append_assoc]

/-- the first attempt of a run (no `WebSocket` object yet, `reconnecting=False`) when it does not end the run -/
theorem first_attempt (c : Cfg) (hq : Quiet c) (hT : 0 < selectTimeout c) (hiv : c.iv = 0) (hr : c.reconnect ≠ 0)
    (s0 : St) (a : Att) (ds : List Dial) (hs0 : s0.sock = none) (hp0 : s0.ping = none) (hl0 : s0.lastPing = 0)
    (hd : s0.dials = a.toDial :: ds) (ha : a.Ok)
    (hfuel : a.fuel (selectTimeout c) ≤ c.fuel) (hz : attEnd s0.now a ≤ c.horizon) :
    ∃ s', setSock c (prologue s0) false = (s', .ok ()) ∧ Waiting s' ∧ s'.dials = ds ∧ s'.nextIdx = s0.nextIdx + 1 ∧
      s'.now = attEnd s0.now a ∧ openIdx s' = attOpen s0.nextIdx a ∧
      netOnly s'.trace = netOnly s0.trace ++ [(s0.now, .dial s0.nextIdx)] ++ attClose s0.now s0.nextIdx a ∧
      cbOnly s'.trace = cbOnly s0.trace ++ (attCb c false s0.calls s0.now a).1 ∧
      s'.calls = (attCb c false s0.calls s0.now a).2 := by
  cases a with
  | fail d =>
    refine ⟨_, first_fail c hq hr (prologue s0) d ds (by simpa [prologue] using hs0) (by simpa [prologue] using hp0)
      (by simpa [prologue, Att.toDial] using hd) ha (by simp [prologue]),
      ⟨rfl, by simpa [firstFail, prologue] using hp0, rfl, rfl, rfl, ⟨_, rfl⟩⟩, rfl, rfl, rfl, ?_, ?_, ?_, ?_⟩
    · simp [openIdx, attOpen, firstFail]
    · simp only [firstFail, prologue, netOnly_append, netOnly_cbTrace, attClose, List.append_nil]
      simp [netOnly]
    · simp only [firstFail, prologue, attCb, cbOnly_append, cbOnly_cbTrace, Bool.false_eq_true, ↓reduceIte]
      simp [cbOnly]
    · simp [firstFail, prologue, attCb]
  | lost legal te =>
    obtain ⟨hleg, hl⟩ := ha
    have kr : (prologue s0).keepRunning = true := rfl
    have pg : (prologue s0).ping = none := by simpa [prologue] using hp0
    have lp : (prologue s0).lastPing = 0 := by simpa [prologue] using hl0
    have hu3 : Up (enterR c (prologue s0) false (legal ++ [te]) ds) := ⟨kr, ⟨_, rfl, rfl, rfl, rfl⟩, pg, lp⟩
    have hu2 := runLegal_up c legal _ hu3
    obtain ⟨cb1, cb2⟩ := lostState_cb c (prologue s0) false legal te ds (prologue s0).nextIdx hleg
    refine ⟨_, attempt_lost c hq hT hiv hr (prologue s0) false legal te ds (by simpa [prologue, Att.toDial] using hd)
      (Or.inl (by simpa [prologue] using hs0)) kr pg lp hleg hl hfuel (by simpa [prologue, attEnd] using hz),
      ⟨by simpa [lostState] using hu2.kr, by simpa [lostState] using hu2.pg, ?_, rfl, rfl, ⟨_, rfl⟩⟩, ?_, ?_, rfl, ?_, ?_,
      by simpa [prologue] using cb1, by simpa [prologue] using cb2⟩
    · simp only [lostState]; rw [runLegal_hdt]; rfl
    · simp only [lostState]; rw [runLegal_dials]; rfl
    · simp only [lostState]; rw [runLegal_nextIdx]; rfl
    · simp only [openIdx, lostState, attOpen, lossSock]
      cases hk : te.ev <;> simp [hk, isLoss, prologue] at hl ⊢
    · simp only [lostState, netOnly_append, runLegal_net, attClose, enterR, netOnly_cbTrace, List.append_nil,
        Bool.false_eq_true, ↓reduceIte]
      by_cases hk : te.ev = .eof
      · simp [hk, netOnly, prologue]
      · simp [hk, netOnly, prologue]

/-! ### the closed form as one executable function (driver op `s-c15-resumes`: applied to the REAL runs) -/

/-- a dial outcome read as an attempt that does not end the run, if it is one: a failure, or a connection whose events are
    legal traffic followed by one loss -/
def attOf : Dial → Option Att
  | .refused => some (.fail .refused)
  | .rejected st => some (.fail (.rejected st))
  | .established evs =>
    match evs.getLast? with
    | some te => if isLoss te.ev && evs.dropLast.all (fun e => isLegal e.ev) then some (.lost evs.dropLast te) else none
    | none => none

/-- the network skeleton `C15_resumes` states, for a world `a :: as` then `established final` starting at tick 0 on a fresh
    object (socket indices from 0); `sockDropped` left out (the real run observes it through garbage collection only) -/
def resumesSkeleton (r : Nat) (a : Att) (as : List Att) (final : List TEv) : Trace :=
  let t1 := attEnd 0 a
  let o1 := attOpen 0 a
  let tK := attsEnd r t1 as
  let iK := 1 + as.length
  [(0, .dial 0)] ++ attClose 0 0 a ++ attsTrace r t1 1 o1 as ++
    [(tK, .sleep r)] ++ relTrace (tK + r) (attsOpen 1 o1 as) ++
    [(tK + r, .dial iK), (endTime (tK + r) final, .returned true)]

/-- a whole world in the shape of `C15_resumes` (at least one non-final attempt; the last connection carries legal traffic
    and is closed by the server): its skeleton; `none` when the world has another shape -/
def attsOf : List Dial → Option (List Att)
  | [] => some []
  | d :: ds =>
    match attOf d, attsOf ds with
    | some a, some as => some (a :: as)
    | _, _ => none

def resumesOfWorld (r : Nat) (w : List Dial) : Option Trace :=
  match w.getLast?, attsOf w.dropLast with
  | some (.established final), some (a :: as) =>
    match final.getLast? with
    | some te =>
      (match te.ev with
       | .close _ => if final.dropLast.all (fun e => isLegal e.ev) then some (resumesSkeleton r a as final) else none
       | _ => none)
    | none => none
  | _, _ => none

/-! ### what `resumesOfWorld` recognises is exactly a world in the shape of `C15_resumes` -/

theorem dropLast_append_of_getLast? {α : Type} (l : List α) (x : α) (h : l.getLast? = some x) : l = l.dropLast ++ [x] := by
  induction l with
  | nil => simp at h
  | cons a t ih =>
    cases t with
    | nil => simp at h; simp [h]
    | cons b t' =>
      have : (b :: t').getLast? = some x := by simpa [List.getLast?_cons_cons] using h
      have := ih this
      simp only [List.dropLast_cons₂, List.cons_append]
      rw [← this]

theorem attOf_sound (d : Dial) (a : Att) (h : attOf d = some a) : a.Ok ∧ a.toDial = d := by
  cases d with
  | refused => simp [attOf] at h; subst h; simp [Att.Ok, Att.toDial, isFail]
  | rejected st => simp [attOf] at h; subst h; simp [Att.Ok, Att.toDial, isFail]
  | established evs =>
    simp only [attOf] at h
    cases hl : evs.getLast? with
    | none => simp [hl] at h
    | some te =>
      simp only [hl] at h
      by_cases hc : (isLoss te.ev && evs.dropLast.all (fun e => isLegal e.ev)) = true
      · simp only [hc, ↓reduceIte, Option.some.injEq] at h
        subst h
        simp only [Bool.and_eq_true, List.all_eq_true] at hc
        refine ⟨⟨hc.2, hc.1⟩, ?_⟩
        simp only [Att.toDial]
        rw [← dropLast_append_of_getLast? evs te hl]
      · simp [hc] at h

theorem attsOf_sound : ∀ (ds : List Dial) (as : List Att), attsOf ds = some as →
    (∀ x ∈ as, x.Ok) ∧ as.map Att.toDial = ds := by
  intro ds
  induction ds with
  | nil => intro as h; simp [attsOf] at h; subst h; simp
  | cons d l ih =>
    intro as h
    simp only [attsOf] at h
    cases h1 : attOf d with
    | none => simp [h1] at h
    | some a =>
      cases h2 : attsOf l with
      | none => simp [h1, h2] at h
      | some as' =>
        simp only [h1, h2, Option.some.injEq] at h
        subst h
        obtain ⟨o1, o2⟩ := attOf_sound d a h1
        obtain ⟨i1, i2⟩ := ih as' h2
        refine ⟨?_, by simp [o2, i2]⟩
        intro x hx
        rcases List.mem_cons.mp hx with rfl | hx
        · exact o1
        · exact i1 x hx

/-- **resumesOfWorld_sound** — whenever the driver op answers with a skeleton (not `n/a`), the world IS one of the worlds
    `C15c.C15_resumes` quantifies over, and the answer is the theorem's closed form for it. -/
theorem resumesOfWorld_sound (r : Nat) (w : List Dial) (tr : Trace) (h : resumesOfWorld r w = some tr) :
    ∃ a as legal te body, w = (a :: as).map Att.toDial ++ [.established (legal ++ [te])] ∧ (∀ x ∈ a :: as, x.Ok) ∧
      (∀ e ∈ legal, isLegal e.ev = true) ∧ te.ev = .close body ∧ tr = resumesSkeleton r a as (legal ++ [te]) := by
  unfold resumesOfWorld at h
  cases hl : w.getLast? with
  | none => simp [hl] at h
  | some d =>
    cases d with
    | refused => simp [hl] at h
    | rejected st => simp [hl] at h
    | established final =>
      cases ha : attsOf w.dropLast with
      | none => simp [hl, ha] at h
      | some atts =>
        cases atts with
        | nil => simp [hl, ha] at h
        | cons a as =>
          simp only [hl, ha] at h
          cases hf : final.getLast? with
          | none => simp [hf] at h
          | some te =>
            simp only [hf] at h
            cases hk : te.ev with
            | close body =>
              simp only [hk] at h
              by_cases hc : (final.dropLast.all fun e => isLegal e.ev) = true
              · simp only [hc, ↓reduceIte, Option.some.injEq] at h
                obtain ⟨o1, o2⟩ := attsOf_sound w.dropLast (a :: as) ha
                have hw := dropLast_append_of_getLast? w _ hl
                have hfin := dropLast_append_of_getLast? final te hf
                refine ⟨a, as, final.dropLast, te, body, ?_, o1, ?_, hk, ?_⟩
                · rw [o2, ← hfin]; exact hw
                · simpa [List.all_eq_true] using hc
                · rw [← hfin]; exact h.symm
              · simp [hc] at h
            | message op p f => simp [hk] at h
            | ping p => simp [hk] at h
            | pong p => simp [hk] at h
            | eof => simp [hk] at h
            | reset => simp [hk] at h
            | protoError => simp [hk] at h
            | payloadError => simp [hk] at h
            | part => simp [hk] at h

end WS.Lemmas.App
