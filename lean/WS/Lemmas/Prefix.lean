/-
  WS.Lemmas.Prefix — the receive loop over a PREFIX of a message (non-final fragments with pings/pongs between them),
  per-fragment delivery off: the loop absorbs it (answers the pings, accumulates the payloads) and goes on; if nothing
  else has arrived it raises TIMEOUT with everything it has accumulated kept.
-/
import WS.Lemmas.Fragments
import WS.Lemmas.CloseTime
namespace WS.Lemmas.Prefix
open WS WS.Model WS.Spec WS.Lemmas.RecvStrict WS.Lemmas.Frame WS.Lemmas.Parser WS.Lemmas.Stream WS.Lemmas.ShortWrites WS.Lemmas.Loop
open WS.Lemmas.Fragments WS.Lemmas.CloseTime

/-- a prefix of a message: pings (≤ 125 bytes), pongs, a non-final first fragment (when none has been seen), non-final
    continuation fragments; `Pre st fs st'`: from sequencing state `st` the frames `fs` lead to `st'`. -/
inductive Pre : Option Nat → List Frame → Option Nat → Prop
  | nil {st} : Pre st [] st
  | ping {st st' f rest} : isPing f → Pre st rest st' → Pre st (f :: rest) st'
  | pong {st st' f rest} : isPong f → Pre st rest st' → Pre st (f :: rest) st'
  | firstMore {st' f rest} : (f.opcode = 1 ∨ f.opcode = 2) → f.fin = 0 → Pre (some f.opcode) rest st' → Pre none (f :: rest) st'
  | contMore {op st' f rest} : f.opcode = 0 → f.fin = 0 → Pre (some op) rest st' → Pre (some op) (f :: rest) st'

/-- a prefix followed by the rest of the message is a message. -/
theorem Pre.append {st st' : Option Nat} {pre suf : List Frame} (h : Pre st pre st') (hs : MsgFrames st' suf) :
    MsgFrames st (pre ++ suf) := by
  induction h with
  | nil => simpa using hs
  | ping hp _ ih => exact .ping hp (ih hs)
  | pong hp _ ih => exact .pong hp (ih hs)
  | firstMore ho hf _ ih => exact .firstMore ho hf (ih hs)
  | contMore ho hf _ ih => exact .contMore ho hf (ih hs)

theorem msgPayload_append (a b : List Frame) : msgPayload (a ++ b) = msgPayload a ++ msgPayload b := by
  induction a with
  | nil => simp [msgPayload]
  | cons f rest ih =>
    simp only [List.cons_append, msgPayload]
    split
    · exact ih
    · rw [ih, List.append_assoc]

/-- **prefix reduction** — the loop over a message prefix continues from a state that has answered its pings and
    accumulated its payloads. -/
theorem more_prefix (pre : List Frame) (st st' : Option Nat) (hp : Pre st pre st') :
    ∀ (c : Conn) (acc : Bytes) (wsp wsr : List WireFrame) (tail : Bytes) (fuel : Nat),
      Ready c → LoopInv c st acc → wsp.map frameOfWire = pre →
      (∀ w ∈ wsp, validate (frameOfWire w) c.skipUtf8 = none) →
      DecodesTo (pending c) (wsp ++ wsr) tail →
      ∃ c2, Conn.recvDataFrameLoop (fuel + pre.length) c false = Conn.recvDataFrameLoop fuel c2 false ∧
        Ready c2 ∧ DecodesTo (pending c2) wsr tail ∧ LoopInv c2 st' (acc ++ msgPayload pre) ∧
        c2.skipUtf8 = c.skipUtf8 ∧ c2.sock.wire = c.sock.wire ++ pongsWire c.keys pre ∧ c2.keys = keysAfter c.keys pre ∧
        c2.sock.tail = c.sock.tail := by
  obtain ⟨k0, k1, k2, k8, k9, k10, kmax⟩ := consts9
  induction hp with
  | nil =>
    intro c acc wsp wsr tail fuel hr hinv hmap _ hd
    have : wsp = [] := by simpa using hmap
    subst this
    exact ⟨c, rfl, hr, hd, by simpa [msgPayload] using hinv, rfl, by simp [pongsWire], rfl, rfl⟩
  | @ping st st' f rest hpg _ ih =>
    intro c acc wsp wsr tail fuel hr hinv hmap hval hd
    cases wsp with
    | nil => simp at hmap
    | cons w ws' =>
      simp only [List.map_cons, List.cons.injEq] at hmap
      obtain ⟨hwf, hmap'⟩ := hmap
      obtain ⟨hop, hfin, hlen⟩ := hpg
      obtain ⟨c1, e1, r1, d1, s1⟩ := step_recv c hr w (ws' ++ wsr) tail hd (hval w List.mem_cons_self)
      rw [hwf] at e1
      have hop16 : Gen.opcodePong ∈ Gen.opcodes := by decide
      obtain ⟨wp, c2, hfmt, e2, hwire2, hw2, sr2⟩ := send_ok c1 f.data Gen.opcodePong r1.writable hop16 (by omega)
      have hkeys2 := send_keys c1 f.data Gen.opcodePong wp hfmt
      rw [e2] at hkeys2
      simp only [] at hkeys2
      have hskip1 : c1.skipUtf8 = c.skipUtf8 := s1.2.2.2.1
      have hskip2 : c2.skipUtf8 = c.skipUtf8 := by rw [sr2.2.2.2.2.2.2.2.2.1, hskip1]
      obtain ⟨c', e', r', d', inv', sk', wire', keys', tl'⟩ := ih c2 acc ws' wsr tail fuel (ready_of_send r1 sr2 hw2)
        (loopInv_sameRecv sr2 (loopInv_sameLoop s1 hinv)) hmap'
        (by intro x hx; rw [hskip2]; exact hval x (List.mem_cons_of_mem _ hx))
        (by rw [pending_sameRecv sr2]; exact d1)
      refine ⟨c', ?_, r', d', ?_, by rw [sk', hskip2], ?_, ?_, ?_⟩
      · rw [List.length_cons, ← Nat.add_assoc]
        conv => lhs; unfold Conn.recvDataFrameLoop
        simp only [e1, hop, k0, k1, k2, k8, k9, k10, kmax]
        simp only [show ((9 : Nat) == 1) = false by decide, show ((9 : Nat) == 2) = false by decide,
          show ((9 : Nat) == 0) = false by decide, show ((9 : Nat) == 8) = false by decide,
          show ((9 : Nat) == 9) = true by decide, Bool.or_false, Bool.false_eq_true, if_false, if_true]
        have hl : f.data.length < 126 := by omega
        simp only [hl, if_true]
        unfold Conn.pong
        rw [e2]
        simp only []
        exact e'
      · simpa [msgPayload, hop] using inv'
      · rw [wire', hwire2, wire_sameLoop s1, hkeys2, s1.2.2.2.2.1]
        simp only [pongsWire, hop, if_true]
        rw [← s1.2.2.2.2.1, hfmt, List.append_assoc]
      · rw [keys', hkeys2, s1.2.2.2.2.1]
        simp [keysAfter, hop]
      · rw [tl', sr2.2.2.2.2.2.2.2.2.2.2.2.2.1, s1.2.2.2.2.2.2.2.2.1]
  | @pong st st' f rest hpg _ ih =>
    intro c acc wsp wsr tail fuel hr hinv hmap hval hd
    cases wsp with
    | nil => simp at hmap
    | cons w ws' =>
      simp only [List.map_cons, List.cons.injEq] at hmap
      obtain ⟨hwf, hmap'⟩ := hmap
      have hop : f.opcode = 10 := hpg
      obtain ⟨c1, e1, r1, d1, s1⟩ := step_recv c hr w (ws' ++ wsr) tail hd (hval w List.mem_cons_self)
      rw [hwf] at e1
      have hskip1 : c1.skipUtf8 = c.skipUtf8 := s1.2.2.2.1
      obtain ⟨c', e', r', d', inv', sk', wire', keys', tl'⟩ := ih c1 acc ws' wsr tail fuel r1 (loopInv_sameLoop s1 hinv) hmap'
        (by intro x hx; rw [hskip1]; exact hval x (List.mem_cons_of_mem _ hx)) d1
      refine ⟨c', ?_, r', d', ?_, by rw [sk', hskip1], ?_, ?_, by rw [tl', s1.2.2.2.2.2.2.2.2.1]⟩
      · rw [List.length_cons, ← Nat.add_assoc]
        conv => lhs; unfold Conn.recvDataFrameLoop
        simp only [e1, hop, k0, k1, k2, k8, k9, k10, kmax]
        simp only [show ((10 : Nat) == 1) = false by decide, show ((10 : Nat) == 2) = false by decide,
          show ((10 : Nat) == 0) = false by decide, show ((10 : Nat) == 8) = false by decide,
          show ((10 : Nat) == 9) = false by decide, show ((10 : Nat) == 10) = true by decide,
          Bool.or_false, Bool.false_eq_true, if_false, if_true]
        exact e'
      · simpa [msgPayload, hop] using inv'
      · rw [wire', wire_sameLoop s1, s1.2.2.2.2.1]
        simp [pongsWire, hop]
      · rw [keys', s1.2.2.2.2.1]
        simp [keysAfter, hop]
  | @firstMore st' f rest hop hfin _ ih =>
    intro c acc wsp wsr tail fuel hr hinv hmap hval hd
    cases wsp with
    | nil => simp at hmap
    | cons w ws' =>
      simp only [List.map_cons, List.cons.injEq] at hmap
      obtain ⟨hwf, hmap'⟩ := hmap
      obtain ⟨c1, e1, r1, d1, s1⟩ := step_recv c hr w (ws' ++ wsr) tail hd (hval w List.mem_cons_self)
      rw [hwf] at e1
      have hskip1 : c1.skipUtf8 = c.skipUtf8 := s1.2.2.2.1
      obtain ⟨hfc, hcd, hrc, hacc⟩ := loopInv_sameLoop s1 hinv
      subst hacc
      have hsb := contAdd_same c1 f
      have hinv2 : LoopInv (c1.contAdd f) (some f.opcode) f.data := by
        refine ⟨by rw [hsb.2.2.2.2.2.2.2.2.1]; exact hfc, ?_⟩
        unfold Conn.contAdd
        rcases hop with h1 | h2
        · simp [hcd, h1, hfin, k1, k2]
        · simp [hcd, h2, hfin, k1, k2]
      obtain ⟨c', e', r', d', inv', sk', wire', keys', tl'⟩ := ih (c1.contAdd f) f.data ws' wsr tail fuel (ready_sameButCont hsb r1) hinv2 hmap'
        (by intro x hx; rw [hsb.2.2.2.2.2.2.2.1, hskip1]; exact hval x (List.mem_cons_of_mem _ hx))
        (by rw [pending_sameButCont hsb]; exact d1)
      have hn9 : ¬ (f.opcode = 9 ∨ f.opcode = 10) := by rcases hop with h | h <;> omega
      refine ⟨c', ?_, r', d', ?_, by rw [sk', hsb.2.2.2.2.2.2.2.1, hskip1], ?_, ?_, by rw [tl', hsb.1, s1.2.2.2.2.2.2.2.2.1]⟩
      · rw [List.length_cons, ← Nat.add_assoc]
        conv => lhs; unfold Conn.recvDataFrameLoop
        simp only [e1]
        have hisdata : (f.opcode == Gen.opcodeText || f.opcode == Gen.opcodeBinary || f.opcode == Gen.opcodeCont) = true := by
          rcases hop with h | h <;> simp [h, k0, k1, k2]
        have hcv : c1.contValidate f = none := by
          unfold Conn.contValidate
          rcases hop with h | h <;> simp [hrc, h, k0, k1, k2]
        simp only [hisdata, if_true, hcv, hfin, hsb.2.2.2.2.2.2.2.2.1, hfc]
        simp only [show ((0 : Nat) != 0) = false by decide, Bool.or_false, Bool.false_eq_true, if_false]
        exact e'
      · simpa [msgPayload, hn9] using inv'
      · rw [wire', hsb.1, wire_sameLoop s1, hsb.2.2.2.2.2.2.1, s1.2.2.2.2.1]
        have : ¬ f.opcode = 9 := by omega
        simp [pongsWire, this]
      · rw [keys', hsb.2.2.2.2.2.2.1, s1.2.2.2.2.1]
        have : ¬ f.opcode = 9 := by omega
        simp [keysAfter, this]
  | @contMore op st' f rest hop hfin _ ih =>
    intro c acc wsp wsr tail fuel hr hinv hmap hval hd
    cases wsp with
    | nil => simp at hmap
    | cons w ws' =>
      simp only [List.map_cons, List.cons.injEq] at hmap
      obtain ⟨hwf, hmap'⟩ := hmap
      obtain ⟨c1, e1, r1, d1, s1⟩ := step_recv c hr w (ws' ++ wsr) tail hd (hval w List.mem_cons_self)
      rw [hwf] at e1
      have hskip1 : c1.skipUtf8 = c.skipUtf8 := s1.2.2.2.1
      obtain ⟨hfc, hcd, hrc, hopv⟩ := loopInv_sameLoop s1 hinv
      have hsb := contAdd_same c1 f
      have hinv2 : LoopInv (c1.contAdd f) (some op) (acc ++ f.data) := by
        refine ⟨by rw [hsb.2.2.2.2.2.2.2.2.1]; exact hfc, ?_⟩
        unfold Conn.contAdd
        simp [hcd, hfin, hrc, hopv]
      obtain ⟨c', e', r', d', inv', sk', wire', keys', tl'⟩ := ih (c1.contAdd f) (acc ++ f.data) ws' wsr tail fuel (ready_sameButCont hsb r1) hinv2 hmap'
        (by intro x hx; rw [hsb.2.2.2.2.2.2.2.1, hskip1]; exact hval x (List.mem_cons_of_mem _ hx))
        (by rw [pending_sameButCont hsb]; exact d1)
      have hn9 : ¬ (f.opcode = 9 ∨ f.opcode = 10) := by omega
      refine ⟨c', ?_, r', d', ?_, by rw [sk', hsb.2.2.2.2.2.2.2.1, hskip1], ?_, ?_, by rw [tl', hsb.1, s1.2.2.2.2.2.2.2.2.1]⟩
      · rw [List.length_cons, ← Nat.add_assoc]
        conv => lhs; unfold Conn.recvDataFrameLoop
        simp only [e1]
        have hisdata : (f.opcode == Gen.opcodeText || f.opcode == Gen.opcodeBinary || f.opcode == Gen.opcodeCont) = true := by
          simp [hop, k0, k1, k2]
        have hcv : c1.contValidate f = none := by
          unfold Conn.contValidate
          rcases hopv with h | h <;> simp [hrc, h, hop, k0, k1, k2]
        simp only [hisdata, if_true, hcv, hfin, hsb.2.2.2.2.2.2.2.2.1, hfc]
        simp only [show ((0 : Nat) != 0) = false by decide, Bool.or_false, Bool.false_eq_true, if_false]
        exact e'
      · simpa [msgPayload, hn9, List.append_assoc] using inv'
      · rw [wire', hsb.1, wire_sameLoop s1, hsb.2.2.2.2.2.2.1, s1.2.2.2.2.1]
        have : ¬ f.opcode = 9 := by omega
        simp [pongsWire, this]
      · rw [keys', hsb.2.2.2.2.2.2.1, s1.2.2.2.2.1]
        have : ¬ f.opcode = 9 := by omega
        simp [keysAfter, this]

end WS.Lemmas.Prefix
