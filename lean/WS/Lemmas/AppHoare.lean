/-
  WS.Lemmas.AppHoare — pre/post lemmas for the functions of `run_forever` that can call user callbacks,
  for ALL worlds, plans, schedules and settings.  Two phases: before teardown (`has_done_teardown = False`)
  and after it (`Qst`: teardown done, loop stopped, socket reference and ping thread gone).
-/
import WS.Lemmas.AppInv
namespace WS.Lemmas.App
open WS WS.Model.App

/-- the on_close handler does not fail (it returns, possibly after calling close()) -/
def CloseOk (c : Cfg) : Prop := ∀ k, c.act .onClose k = .ok ∨ c.act .onClose k = .close

/-- an on_error handler is set and does not fail -/
def ErrOk (c : Cfg) : Prop := c.has .onError = true ∧ ∀ k, c.act .onError k = .ok ∨ c.act .onError k = .close

/-- an error of the run is reported (not a user callback's exception) -/
def isErr : Cb × List Arg → Bool
  | (.onError, [.exn e]) => !(Spec.AppTrace.AExn.isUser e)
  | _ => false

def errsIn (l : List (Cb × List Arg)) : Bool := l.any isErr
def closesIn (l : List (Cb × List Arg)) : Nat := l.countP fun x => x.1 == .onClose

@[simp] theorem errsIn_append (a b : List (Cb × List Arg)) : errsIn (a ++ b) = (errsIn a || errsIn b) := by
  simp [errsIn]
@[simp] theorem closesIn_append (a b : List (Cb × List Arg)) : closesIn (a ++ b) = closesIn a + closesIn b := by
  simp [closesIn]
@[simp] theorem errsIn_nil : errsIn [] = false := rfl
@[simp] theorem closesIn_nil : closesIn [] = 0 := rfl

def _root_.WS.Model.App.R.isHalt {α : Type} : R α → Bool
  | .halt => true
  | _ => false

def _root_.WS.Model.App.R.exn? {α : Type} : R α → Option AExn
  | .exc e => some e
  | _ => none

/-- after teardown: `has_done_teardown`, loop stopped, no socket reference, no ping thread -/
structure Qst (s : St) : Prop where
  hdt : s.hasDoneTeardown = true
  kr : s.keepRunning = false
  sk : s.sock = none
  pg : s.ping = none
  lp : s.lastPing = 0
  lq : s.lastPong = 0

/-- what every callback-calling function preserves -/
structure Mono (s s' : St) : Prop where
  hdt : s'.hasDoneTeardown = s.hasDoneTeardown
  he : s'.hasErrored = s.hasErrored
  kr : s'.keepRunning = true → s.keepRunning = true
  pn : s.ping = none → s'.ping = none
  sn : s.sock = none → s'.sock = none

theorem Mono.refl (s : St) : Mono s s := ⟨rfl, rfl, id, id, id⟩
theorem Mono.trans {a b c : St} (h1 : Mono a b) (h2 : Mono b c) : Mono a c :=
  ⟨h2.hdt.trans h1.hdt, h2.he.trans h1.he, fun h => h1.kr (h2.kr h), fun h => h2.pn (h1.pn h), fun h => h2.sn (h1.sn h)⟩
theorem Frame.mono {a b : St} (h : Frame a b) : Mono a b :=
  ⟨h.hdt, h.he, fun x => by rw [h.kr] at x; exact x, h.pn, h.sn⟩
theorem CloseFrame.mono {a b : St} (h : CloseFrame a b) : Mono a b :=
  ⟨h.hdt, h.he, fun x => by rw [h.kr] at x; exact absurd x (by simp), h.pn, h.sn⟩

theorem rawCall_ki (c : Cfg) (s : St) (cb : Cb) (args : List Arg) (h : c.act cb (s.calls cb) = .ki) :
    rawCall c s cb args =
      ({ s with calls := bump s.calls cb, trace := s.trace ++ [(s.now, .cb cb args)] }, .exc .ki) := by
  unfold rawCall
  simp only [h, St.emit]

theorem rawCall_close (c : Cfg) (s : St) (cb : Cb) (args : List Arg) (h : c.act cb (s.calls cb) = .close) :
    rawCall c s cb args =
      ((appClose c { s with calls := bump s.calls cb, trace := s.trace ++ [(s.now, .cb cb args)] }).1,
       if (appClose c { s with calls := bump s.calls cb, trace := s.trace ++ [(s.now, .cb cb args)] }).2
       then .ok () else .halt) := by
  unfold rawCall
  simp only [h, St.emit]
  split <;> simp_all

/-- the user function itself -/
theorem rawCall_spec (c : Cfg) (s : St) (cb : Cb) (args : List Arg) :
    Mono s (rawCall c s cb args).1 ∧ cbs (rawCall c s cb args).1 = cbs s ++ [(cb, args)] ∧
    (∀ e, (rawCall c s cb args).2 = .exc e → (e = .user cb (s.calls cb) ∧ c.act cb (s.calls cb) = .raise) ∨ e = .ki) ∧
    ((c.act cb (s.calls cb) = .ok ∨ c.act cb (s.calls cb) = .close) → ∀ e, (rawCall c s cb args).2 ≠ .exc e) := by
  have hm : Mono s { s with calls := bump s.calls cb, trace := s.trace ++ [(s.now, .cb cb args)] } :=
    ⟨rfl, rfl, id, id, id⟩
  have hc : cbs { s with calls := bump s.calls cb, trace := s.trace ++ [(s.now, .cb cb args)] } = cbs s ++ [(cb, args)] := by
    simp [cbs, cbsOf]
  cases ha : c.act cb (s.calls cb) with
  | ok => rw [rawCall_ok c s cb args ha]; exact ⟨hm, hc, by simp, by simp⟩
  | raise => rw [rawCall_raise c s cb args ha]; exact ⟨hm, hc, by simp, by simp⟩
  | ki => rw [rawCall_ki c s cb args ha]; exact ⟨hm, hc, by simp, by simp⟩
  | close =>
    rw [rawCall_close c s cb args ha]
    have f := appClose_frame c { s with calls := bump s.calls cb, trace := s.trace ++ [(s.now, .cb cb args)] }
    refine ⟨hm.trans f.mono, by rw [f.cb, hc], ?_, ?_⟩
    · intro e; split <;> simp
    · intro _ e; split <;> simp

/-- `_callback`: what it adds to the callback trace and what it can return -/
theorem callback_spec (c : Cfg) (s : St) (cb : Cb) (args : List Arg) :
    Mono s (callback c s cb args).1 ∧
    (∃ rep, (rep = [] ∨ ∃ k, rep = [(Cb.onError, [Arg.exn (.user cb k)])]) ∧
       cbs (callback c s cb args).1 = cbs s ++ (if c.has cb then (cb, args) :: rep else []) ∧
       ((c.act cb (s.calls cb) = .ok ∨ c.act cb (s.calls cb) = .close) → rep = [])) ∧
    (∀ e, (callback c s cb args).2 = .exc e → e = .ki ∨ (∃ k, e = .user .onError k ∧ c.act .onError k = .raise)) ∧
    ((c.act cb (s.calls cb) = .ok ∨ c.act cb (s.calls cb) = .close) → ∀ e, (callback c s cb args).2 ≠ .exc e) := by
  unfold callback
  by_cases hh : c.has cb = true
  · simp only [hh, Bool.not_true, Bool.false_eq_true, ↓reduceIte]
    obtain ⟨m1, c1, e1, o1⟩ := rawCall_spec c s cb args
    rcases hx : rawCall c s cb args with ⟨s1, r1⟩
    rw [hx] at m1 c1 e1 o1
    simp only [] at m1 c1 e1 o1
    cases r1 with
    | ok u => exact ⟨m1, ⟨[], Or.inl rfl, by simpa using c1, fun _ => rfl⟩, by simp, by simp⟩
    | halt => exact ⟨m1, ⟨[], Or.inl rfl, by simpa using c1, fun _ => rfl⟩, by simp, by simp⟩
    | exc e =>
      rcases e1 e rfl with ⟨rfl, hact⟩ | rfl
      · -- the callback raised: report to on_error
        by_cases he : c.has .onError = true
        · simp only [he, ↓reduceIte]
          obtain ⟨m2, c2, e2, o2⟩ := rawCall_spec c s1 .onError [.exn (.user cb (s.calls cb))]
          refine ⟨m1.trans m2, ⟨[(.onError, [.exn (.user cb (s.calls cb))])], Or.inr ⟨_, rfl⟩, ?_, ?_⟩, ?_, ?_⟩
          · rw [c2, c1]; simp
          · intro h; rcases h with h | h <;> rw [h] at hact <;> cases hact
          · intro e he2
            rcases e2 e he2 with ⟨rfl, ha⟩ | rfl
            · exact Or.inr ⟨_, rfl, ha⟩
            · exact Or.inl rfl
          · intro h; rcases h with h | h <;> rw [h] at hact <;> cases hact
        · simp only [he, Bool.false_eq_true, ↓reduceIte]
          refine ⟨m1, ⟨[], Or.inl rfl, by simpa using c1, fun _ => rfl⟩, by simp, by simp⟩
      · refine ⟨m1, ⟨[], Or.inl rfl, by simpa using c1, fun _ => rfl⟩, by simp, ?_⟩
        intro h; exact absurd rfl (o1 h .ki)
  · simp only [hh, Bool.not_false, ↓reduceIte]
    exact ⟨Mono.refl s, ⟨[], Or.inl rfl, by simp, fun _ => rfl⟩, by simp, by simp⟩

end WS.Lemmas.App

namespace WS.Lemmas.App
open WS WS.Model.App

theorem zlp_rawCall (c : Cfg) (s : St) (cb : Cb) (args : List Arg) : ZeroLP s (rawCall c s cb args).1 := by
  cases ha : c.act cb (s.calls cb) with
  | ok => rw [rawCall_ok c s cb args ha]; exact zlp_id _ _ rfl rfl rfl
  | raise => rw [rawCall_raise c s cb args ha]; exact zlp_id _ _ rfl rfl rfl
  | ki => rw [rawCall_ki c s cb args ha]; exact zlp_id _ _ rfl rfl rfl
  | close =>
    rw [rawCall_close c s cb args ha]
    exact (zlp_id s { s with calls := bump s.calls cb, trace := s.trace ++ [(s.now, .cb cb args)] } rfl rfl rfl).trans
      (zlp_appClose c _)

theorem zlp_callback (c : Cfg) (s : St) (cb : Cb) (args : List Arg) : ZeroLP s (callback c s cb args).1 := by
  unfold callback
  split
  · exact ZeroLP.refl s
  · have z1 := zlp_rawCall c s cb args
    split
    · rename_i s1 heq; rw [heq] at z1; exact z1
    · rename_i s1 e hne heq
      rw [heq] at z1
      split
      · exact z1.trans (zlp_rawCall c s1 _ _)
      · exact z1
    · exact z1

def onCloseEv (c : Cfg) (a : List Arg) : List (Cb × List Arg) := if c.has .onClose then [(Cb.onClose, a)] else []

abbrev isUser (e : AExn) : Bool := Spec.AppTrace.AExn.isUser e

/-- postcondition of a callback-calling function entered before teardown (`has_done_teardown = False`):
    it appended the callback events `δ`; `has_errored` is linked to the error reports in `δ`; either
    teardown has still not happened (no on_close in `δ`) or it has completed (`Qst`) and the last
    callback event is on_close. -/
def Post (c : Cfg) (s s' : St) (ex : Option AExn) (strict : Prop) (extraStay : Prop) : Prop :=
  ∃ δ, cbs s' = cbs s ++ δ ∧
    (ErrOk c → s'.hasErrored = (s.hasErrored || errsIn δ) ∧ ∀ e, ex = some e → isUser e = false) ∧
    ((s'.hasDoneTeardown = false ∧ closesIn δ = 0 ∧ extraStay) ∨
     (Qst s' ∧ (∃ δ1 a, δ = δ1 ++ onCloseEv c a ∧ closesIn δ1 = 0) ∧ strict))

theorem closesIn_onCloseEv (c : Cfg) (a : List Arg) (h : c.has .onClose = true) : closesIn (onCloseEv c a) = 1 := by
  simp [onCloseEv, h, closesIn]

theorem errsIn_onCloseEv (c : Cfg) (a : List Arg) : errsIn (onCloseEv c a) = false := by
  unfold onCloseEv; split <;> simp [errsIn, isErr]

/-- teardown entered for the first time: stops the ping thread, closes, drops the socket, calls on_close last -/
theorem teardown_P (c : Cfg) (hco : CloseOk c) (s : St) (frame : Option Bytes) (hp : s.hasDoneTeardown = false) :
    (teardown c s frame).2.isHalt = true ∨
    (Qst (teardown c s frame).1 ∧ (teardown c s frame).2 = .ok () ∧
      (teardown c s frame).1.hasErrored = s.hasErrored ∧
      ∃ a, cbs (teardown c s frame).1 = cbs s ++ onCloseEv c a) := by
  unfold teardown
  simp only [gen_guard, hp, Bool.and_false, Bool.false_eq_true, ↓reduceIte, gen_tdStops]
  have f0 : Frame s { s with hasDoneTeardown := true } → False ∨ True := fun _ => Or.inr trivial
  have f1 := frame_stopPing { s with hasDoneTeardown := true }
  have p1 := stopPing_ping { s with hasDoneTeardown := true }
  have hz1 : (stopPing { s with hasDoneTeardown := true }).ping = none ∧
      (stopPing { s with hasDoneTeardown := true }).lastPing = 0 ∧
      (stopPing { s with hasDoneTeardown := true }).lastPong = 0 := by
    unfold stopPing
    cases hpp : s.ping <;> simp [hpp, St.emit]
  generalize stopPing { s with hasDoneTeardown := true } = s1 at f1 p1 hz1 ⊢
  have f2 := frame_wsClose c { s1 with keepRunning := false }
  rcases hw : wsClose c { s1 with keepRunning := false } with ⟨s2, ok⟩
  rw [hw] at f2
  simp only [] at f2 ⊢
  cases ok with
  | false => left; rfl
  | true =>
    simp only [Bool.not_true, Bool.false_eq_true, ↓reduceIte]
    have f3 := frame_dropSock s2
    have k3 := dropSock_sock s2
    obtain ⟨m4, ⟨rep, _, c4, hrep⟩, _, o4⟩ := callback_spec c (dropSock s2) .onClose (closeArgs c frame)
    have hok := hco ((dropSock s2).calls .onClose)
    have hrep' := hrep hok
    subst hrep'
    rcases hx : callback c (dropSock s2) .onClose (closeArgs c frame) with ⟨s4, r4⟩
    rw [hx] at m4 c4 o4
    simp only [] at m4 c4 o4
    cases r4 with
    | halt => left; rfl
    | exc e => exact absurd rfl (o4 hok e)
    | ok u =>
      right
      cases u
      have z1 : s1.ping = none ∧ s1.lastPing = 0 ∧ s1.lastPong = 0 := hz1
      have z2 := zlp_wsClose c { s1 with keepRunning := false } z1.1 z1.2.1 z1.2.2
      rw [hw] at z2
      have z3 := zlp_dropSock s2 z2.1 z2.2.1 z2.2.2
      have z4 := zlp_callback c (dropSock s2) .onClose (closeArgs c frame) z3.1 z3.2.1 z3.2.2
      rw [hx] at z4
      refine ⟨⟨?_, ?_, ?_, z4.1, z4.2.1, z4.2.2⟩, rfl, ?_, ⟨closeArgs c frame, ?_⟩⟩
      · rw [m4.hdt, f3.hdt, f2.hdt]; simp only []; rw [f1.hdt]
      · cases hk : s4.keepRunning with
        | false => rfl
        | true => have := m4.kr hk; rw [f3.kr, f2.kr] at this; simp at this
      · exact m4.sn k3
      · rw [m4.he, f3.he, f2.he]; simp only []; rw [f1.he]
      · rw [c4, f3.cb, f2.cb]
        have : cbs ({ s1 with keepRunning := false } : St) = cbs s1 := rfl
        rw [this, f1.cb]
        rfl

theorem teardown_Q (c : Cfg) (s : St) (frame : Option Bytes) (h : s.hasDoneTeardown = true) :
    teardown c s frame = (s, .ok ()) := by
  unfold teardown
  simp [h]

end WS.Lemmas.App

namespace WS.Lemmas.App
open WS WS.Model.App

/-- reporting an error to on_error -/
theorem report_spec (c : Cfg) (s : St) (e : AExn) :
    Mono s (callback c s .onError [.exn e]).1 ∧
    ∃ δ, cbs (callback c s .onError [.exn e]).1 = cbs s ++ δ ∧ closesIn δ = 0 ∧
      (ErrOk c → errsIn δ = !isUser e ∧ ∀ e', (callback c s .onError [.exn e]).2 ≠ .exc e') := by
  obtain ⟨m, ⟨rep, hrep, hc, hr0⟩, _, ho⟩ := callback_spec c s .onError [.exn e]
  refine ⟨m, _, hc, ?_, ?_⟩
  · split
    · rcases hrep with rfl | ⟨k, rfl⟩ <;> simp [closesIn]
    · rfl
  · intro heo
    have hok := heo.2 (s.calls .onError)
    have := hr0 hok
    subst this
    simp only [heo.1, ↓reduceIte]
    exact ⟨by simp [errsIn, isErr, isUser], ho hok⟩

theorem handleDisconnect_P (c : Cfg) (hco : CloseOk c) (s : St) (e : AExn) (rc : Bool)
    (hp : s.hasDoneTeardown = false)
    (hpre : ErrOk c → (rc = true → s.hasErrored = true) ∧ isUser e = false) :
    (handleDisconnect c s e rc).2.isHalt = true ∨
    Post c s (handleDisconnect c s e rc).1 (handleDisconnect c s e rc).2.exn? True
      ((handleDisconnect c s e rc).1.hasErrored = true) := by
  unfold handleDisconnect
  by_cases hg : (Gen.appCloseGuard && !s.keepRunning && e != .ki) = true
  · -- the application has closed: straight to teardown, nothing reported
    simp only [hg, ↓reduceIte]
    rcases teardown_P c hco s none hp with td | ⟨q, rok, hhe, a, hca⟩
    · left; exact td
    · right
      refine ⟨onCloseEv c a, hca, ?_, Or.inr ⟨q, ⟨[], a, by simp, rfl⟩, trivial⟩⟩
      intro _
      refine ⟨by rw [hhe, errsIn_onCloseEv]; simp, by rw [rok]; simp [R.exn?]⟩
  simp only [hg, Bool.false_eq_true, ↓reduceIte]
  unfold handleDisconnectBody
  simp only [gen_dcErr, gen_dcStops, ↓reduceIte]
  have f1 := frame_stopPing { s with hasErrored := true }
  generalize stopPing { s with hasErrored := true } = s1 at f1 ⊢
  have h1 : s1.hasDoneTeardown = false := by rw [f1.hdt]; exact hp
  have he1 : s1.hasErrored = true := by rw [f1.he]
  have hc1 : cbs s1 = cbs s := f1.cb
  -- the error report (or none when reconnecting)
  have key : ∀ (s2 : St) (δ : List (Cb × List Arg)), Mono s1 s2 → cbs s2 = cbs s ++ δ → closesIn δ = 0 →
      (ErrOk c → (s.hasErrored || errsIn δ) = true) →
      ((afterReport c s2 e).2.isHalt = true ∨
       Post c s (afterReport c s2 e).1 (afterReport c s2 e).2.exn? True ((afterReport c s2 e).1.hasErrored = true)) := by
    intro s2 δ m2 hc2 hcl herr
    have h2 : s2.hasDoneTeardown = false := by rw [m2.hdt]; exact h1
    have he2 : s2.hasErrored = true := by rw [m2.he]; exact he1
    have td := teardown_P c hco s2 none h2
    unfold afterReport
    by_cases hki : e = .ki
    · simp only [hki, ↓reduceIte]
      rcases td with td | ⟨q, rok, hhe, a, hca⟩
      · left
        rcases hx : teardown c s2 none with ⟨s3, r3⟩
        rw [hx] at td
        cases r3 <;> simp_all [R.isHalt]
      · right
        rcases hx : teardown c s2 none with ⟨s3, r3⟩
        rw [hx] at q rok hhe hca
        simp only [] at q rok hhe hca
        subst rok
        refine ⟨δ ++ onCloseEv c a, by rw [hca, hc2, List.append_assoc], ?_, Or.inr ⟨q, ⟨δ, a, rfl, hcl⟩, trivial⟩⟩
        intro heo
        refine ⟨?_, by simp [R.exn?, isUser, Spec.AppTrace.AExn.isUser]⟩
        simp only [errsIn_append, errsIn_onCloseEv, Bool.or_false]
        rw [hhe, he2, herr heo]
    · simp only [hki, ↓reduceIte]
      by_cases hr : c.reconnect = 0
      · simp only [hr, ne_eq, not_true_eq_false, ↓reduceIte]
        rcases td with td | ⟨q, rok, hhe, a, hca⟩
        · left; exact td
        · right
          refine ⟨δ ++ onCloseEv c a, by rw [hca, hc2, List.append_assoc], ?_, Or.inr ⟨q, ⟨δ, a, rfl, hcl⟩, trivial⟩⟩
          intro heo
          refine ⟨?_, by rw [rok]; simp [R.exn?]⟩
          simp only [errsIn_append, errsIn_onCloseEv, Bool.or_false]
          rw [hhe, he2, herr heo]
      · simp only [ne_eq, hr, not_false_eq_true, ↓reduceIte]
        right
        refine ⟨δ, hc2, ?_, Or.inl ⟨h2, hcl, he2⟩⟩
        intro heo
        exact ⟨by rw [he2, herr heo], by simp [R.exn?]⟩
  cases rc with
  | true =>
    simp only [Bool.not_true, Bool.false_eq_true, ↓reduceIte]
    exact key s1 [] (Mono.refl s1) (by simpa using hc1) rfl (fun heo => by simp [(hpre heo).1 rfl])
  | false =>
    simp only [Bool.not_false, ↓reduceIte]
    obtain ⟨m, δ, hc, hcl, herr⟩ := report_spec c s1 e
    rcases hx : callback c s1 .onError [.exn e] with ⟨s2, r2⟩
    rw [hx] at m hc herr
    simp only [] at m hc herr
    cases r2 with
    | halt => left; rfl
    | exc e' =>
      right
      refine ⟨δ, by rw [hc, hc1], ?_, Or.inl ⟨by rw [m.hdt]; exact h1, hcl, by rw [m.he]; exact he1⟩⟩
      intro heo
      exact absurd rfl ((herr heo).2 e')
    | ok u =>
      cases u
      exact key s2 δ m (by rw [hc, hc1]) hcl (fun heo => by
        rw [(herr heo).1, (hpre heo).2]; simp)

end WS.Lemmas.App

namespace WS.Lemmas.App
open WS WS.Model.App

/-- `Post` seen from an earlier state that differs only by a low-level step -/
theorem Post.of_frame {c : Cfg} {s s0 s' : St} {ex : Option AExn} {st es : Prop}
    (f : Frame s s0) (h : Post c s0 s' ex st es) : Post c s s' ex st es := by
  obtain ⟨δ, hc, hl, ho⟩ := h
  exact ⟨δ, by rw [hc, f.cb], fun heo => by rw [← f.he]; exact hl heo, ho⟩

/-- a step that stays before teardown, followed by any outcome -/
theorem Post.trans_stay {c : Cfg} {s s1 s' : St} {ex : Option AExn} {st es : Prop}
    (δ1 : List (Cb × List Arg)) (hc1 : cbs s1 = cbs s ++ δ1) (hcl : closesIn δ1 = 0)
    (hl1 : ErrOk c → s1.hasErrored = (s.hasErrored || errsIn δ1))
    (h : Post c s1 s' ex st es) : Post c s s' ex st es := by
  obtain ⟨δ, hc, hl, ho⟩ := h
  refine ⟨δ1 ++ δ, by rw [hc, hc1, List.append_assoc], ?_, ?_⟩
  · intro heo
    obtain ⟨a, b⟩ := hl heo
    exact ⟨by rw [a, hl1 heo, errsIn_append, Bool.or_assoc], b⟩
  · rcases ho with ⟨a, b, d⟩ | ⟨q, ⟨δ2, ar, he, hcl2⟩, d⟩
    · exact Or.inl ⟨a, by rw [closesIn_append, hcl, b], d⟩
    · exact Or.inr ⟨q, ⟨δ1 ++ δ2, ar, by rw [he, List.append_assoc], by rw [closesIn_append, hcl, hcl2]⟩, d⟩

/-- a callback other than on_close / on_error: no on_close event, no error report -/
theorem plain_cb_spec (c : Cfg) (s : St) (cb : Cb) (args : List Arg) (h1 : cb ≠ .onClose) (h2 : cb ≠ .onError) :
    Mono s (callback c s cb args).1 ∧
    (∃ δ, cbs (callback c s cb args).1 = cbs s ++ δ ∧ closesIn δ = 0 ∧ errsIn δ = false) ∧
    (ErrOk c → ∀ e, (callback c s cb args).2 = .exc e → e = .ki) := by
  obtain ⟨m, ⟨rep, hrep, hc, _⟩, he, _⟩ := callback_spec c s cb args
  refine ⟨m, ⟨_, hc, ?_, ?_⟩, ?_⟩
  · split
    · rcases hrep with rfl | ⟨k, rfl⟩ <;> simp [closesIn, h1]
    · rfl
  · split
    · rcases hrep with rfl | ⟨k, rfl⟩ <;> cases cb <;> simp_all [errsIn, isErr, isUser, Spec.AppTrace.AExn.isUser]
    · rfl
  · intro heo e hr
    rcases he e hr with rfl | ⟨k, rfl, ha⟩
    · rfl
    · rcases heo.2 k with h | h <;> rw [h] at ha <;> cases ha

/-- Post of a single plain callback followed by returning its result (mapped) -/
theorem post_plain (c : Cfg) (s : St) (cb : Cb) (args : List Arg) (h1 : cb ≠ .onClose) (h2 : cb ≠ .onError)
    (hp : s.hasDoneTeardown = false) (st es : Prop) (hes : es) :
    Post c s (callback c s cb args).1 (callback c s cb args).2.exn? st es := by
  obtain ⟨m, ⟨δ, hc, hcl, her⟩, hex⟩ := plain_cb_spec c s cb args h1 h2
  refine ⟨δ, hc, ?_, Or.inl ⟨?_, hcl, hes⟩⟩
  · intro heo
    refine ⟨by rw [m.he, her]; simp, ?_⟩
    intro e he
    rcases hr : (callback c s cb args).2 with u | e' | _ <;> rw [hr] at he <;> simp [R.exn?] at he
    subst he
    rw [hex heo e' hr]; rfl
  · rw [m.hdt]; exact hp

end WS.Lemmas.App

namespace WS.Lemmas.App
open WS WS.Model.App

@[simp] theorem asRead_fst (v : Bool) (x : St × R Unit) : (asRead v x).1 = x.1 := by
  rcases x with ⟨s, r⟩; cases r <;> rfl
@[simp] theorem asRead_exn (v : Bool) (x : St × R Unit) : (asRead v x).2.exn? = x.2.exn? := by
  rcases x with ⟨s, r⟩; cases r <;> rfl
@[simp] theorem asRead_halt (v : Bool) (x : St × R Unit) : (asRead v x).2.isHalt = x.2.isHalt := by
  rcases x with ⟨s, r⟩; cases r <;> rfl
theorem asRead_ok (v b : Bool) (x : St × R Unit) : (asRead v x).2 = .ok b ↔ (x.2 = .ok () ∧ b = v) := by
  rcases x with ⟨s, r⟩
  cases r with
  | ok u => cases u; simp [asRead, eq_comm]
  | exc e => simp [asRead]
  | halt => simp [asRead]

/-- what `read()` can produce, entered before teardown:
    in the "teardown done" case it returned a falsy value; otherwise it did not. -/
abbrev ReadPost (c : Cfg) (s : St) (x : St × R Bool) : Prop :=
  x.2.isHalt = true ∨ Post c s x.1 x.2.exn? (x.2 = .ok false) (x.2 ≠ .ok false)

theorem deliver_P (c : Cfg) (s : St) (op : Nat) (p : Bytes) (frag : Bool) (hp : s.hasDoneTeardown = false) :
    ReadPost c s (asRead true (deliverMessage c s op p frag)) := by
  unfold deliverMessage
  simp only [gen_msgOpcode, gen_dataFirst, ↓reduceIte]
  obtain ⟨m1, ⟨δ1, hc1, hcl1, her1⟩, hex1⟩ := plain_cb_spec c s .onData [dataArg op p, .int op, .bool true] (by simp) (by simp)
  rcases hx : callback c s .onData [dataArg op p, .int op, .bool true] with ⟨s1, r1⟩
  rw [hx] at m1 hc1 hex1
  simp only [] at m1 hc1 hex1 ⊢
  cases r1 with
  | halt => left; rfl
  | exc e =>
    right
    refine ⟨δ1, by simpa using hc1, ?_, Or.inl ⟨by simp [m1.hdt, hp], hcl1, by simp [asRead]⟩⟩
    intro heo
    refine ⟨by simp [m1.he, her1], ?_⟩
    intro e' he'
    simp [asRead, R.exn?] at he'
    subst he'
    rw [hex1 heo e rfl]; rfl
  | ok u =>
    cases u
    have h1 : s1.hasDoneTeardown = false := by rw [m1.hdt]; exact hp
    have post := post_plain c s1 .onMessage [dataArg op p] (by simp) (by simp) h1
      ((asRead true (callback c s1 .onMessage [dataArg op p])).2 = .ok false)
      ((asRead true (callback c s1 .onMessage [dataArg op p])).2 ≠ .ok false)
      (by intro h; rw [asRead_ok] at h; simp at h)
    by_cases hh : (callback c s1 .onMessage [dataArg op p]).2.isHalt = true
    · left; simpa using hh
    · right
      have := Post.trans_stay (c := c) (s := s) δ1 hc1 hcl1 (fun _ => by rw [m1.he, her1]; simp) post
      simpa using this

end WS.Lemmas.App

namespace WS.Lemmas.App
open WS WS.Model.App

/-- an exception raised by the layers below (never a user exception): stays before teardown -/
theorem post_exc (c : Cfg) (s s' : St) (f : Frame s s') (e : AExn) (hu : isUser e = false)
    (hp : s.hasDoneTeardown = false) : ReadPost c s (s', .exc e) := by
  right
  refine ⟨[], by simpa using f.cb, ?_, Or.inl ⟨by simp [f.hdt, hp], rfl, by simp⟩⟩
  intro _
  exact ⟨by simp [f.he], by intro e' he'; simp [R.exn?] at he'; subst he'; exact hu⟩

theorem ReadPost.of_frame {c : Cfg} {s s0 : St} {x : St × R Bool} (f : Frame s s0) (h : ReadPost c s0 x) :
    ReadPost c s x := by
  rcases h with h | h
  · exact Or.inl h
  · exact Or.inr (Post.of_frame f h)

theorem handleEv_P (c : Cfg) (hco : CloseOk c) (s : St) (ev : SrvEv) (hp : s.hasDoneTeardown = false) :
    ReadPost c s (handleEv c s ev) := by
  cases ev with
  | part => left; rfl
  | message op p frag => exact deliver_P c s op p frag hp
  | ping p =>
    simp only [handleEv]
    have f3 : Frame s (if s.writable then s.emit (.wrote Gen.opcodePong p) else s) := by
      split
      · exact frame_emit _ _ (by intros; simp)
      · exact Frame.refl s
    generalize (if s.writable then s.emit (.wrote Gen.opcodePong p) else s) = s3 at f3 ⊢
    have h3 : s3.hasDoneTeardown = false := by rw [f3.hdt]; exact hp
    have post := post_plain c s3 .onPing [.bytes p] (by simp) (by simp) h3
      ((asRead true (callback c s3 .onPing [.bytes p])).2 = .ok false)
      ((asRead true (callback c s3 .onPing [.bytes p])).2 ≠ .ok false)
      (by intro h; rw [asRead_ok] at h; simp at h)
    by_cases hh : (callback c s3 .onPing [.bytes p]).2.isHalt = true
    · left; simpa using hh
    · right; exact Post.of_frame f3 (by simpa using post)
  | pong p =>
    simp only [handleEv]
    generalize pongStamp s = q
    have f3 : Frame s { s with lastPong := q } := by constructor <;> simp_all [cbs]
    generalize ({ s with lastPong := q } : St) = s3 at f3 ⊢
    have h3 : s3.hasDoneTeardown = false := by rw [f3.hdt]; exact hp
    have post := post_plain c s3 .onPong [.bytes p] (by simp) (by simp) h3
      ((asRead true (callback c s3 .onPong [.bytes p])).2 = .ok false)
      ((asRead true (callback c s3 .onPong [.bytes p])).2 ≠ .ok false)
      (by intro h; rw [asRead_ok] at h; simp at h)
    by_cases hh : (callback c s3 .onPong [.bytes p]).2.isHalt = true
    · left; simpa using hh
    · right; exact Post.of_frame f3 (by simpa using post)
  | close body =>
    simp only [handleEv, gen_closeToTeardown, ↓reduceIte]
    have f3 : Frame s { s with sock := s.sock.map fun (w : WSock) => { w with connected := false } } := by
      constructor <;> simp_all [cbs]
    generalize ({ s with sock := s.sock.map fun (w : WSock) => { w with connected := false } } : St) = s3 at f3 ⊢
    have f4 : Frame s3 (if s3.writable then s3.emit (.wrote Gen.opcodeClose (beN 2 Gen.statusNormal)) else s3) := by
      split
      · exact frame_emit _ _ (by intros; simp)
      · exact Frame.refl s3
    generalize (if s3.writable then s3.emit (.wrote Gen.opcodeClose (beN 2 Gen.statusNormal)) else s3) = s4 at f4 ⊢
    have h4 : s4.hasDoneTeardown = false := by rw [f4.hdt, f3.hdt]; exact hp
    rcases teardown_P c hco s4 (some body) h4 with td | ⟨q, rok, hhe, a, hca⟩
    · left; simpa using td
    · right
      refine Post.of_frame (f3.trans f4) ⟨onCloseEv c a, by simpa using hca, ?_, Or.inr ⟨by simpa using q, ⟨[], a, rfl, rfl⟩, ?_⟩⟩
      · intro _
        exact ⟨by simp [hhe, errsIn_onCloseEv], by rw [asRead_exn, rok]; simp [R.exn?]⟩
      · rw [asRead_ok]; exact ⟨rok, rfl⟩
  | eof => exact post_exc c s _ (frame_closeTransport s) .closed rfl hp
  | reset => exact post_exc c s _ (by constructor <;> simp_all [cbs]) .transport rfl hp
  | protoError => exact post_exc c s _ (Frame.refl s) .proto rfl hp
  | payloadError => exact post_exc c s _ (Frame.refl s) .payload rfl hp

theorem readEvents_P (c : Cfg) (hco : CloseOk c) : ∀ (evs : List TEv) (s : St), s.hasDoneTeardown = false →
    ReadPost c s (readEvents c evs s) := by
  intro evs
  induction evs with
  | nil =>
    intro s hp
    left
    simp [readEvents, R.isHalt]
  | cons e rest ih =>
    intro s hp
    rw [readEvents]
    simp only []
    -- the wait for the arrival
    have fw : Frame s (if s.arr + e.dt ≤ s.now then (s, true) else waitUntil c s (s.arr + e.dt)).1 := by
      split
      · exact Frame.refl s
      · exact frame_waitUntil c s _
    rcases hw : (if s.arr + e.dt ≤ s.now then (s, true) else waitUntil c s (s.arr + e.dt)) with ⟨s1, ok⟩
    rw [hw] at fw
    simp only [] at fw ⊢
    cases ok with
    | false => left; rfl
    | true =>
      simp only [Bool.not_true, Bool.false_eq_true, ↓reduceIte]
      have f2 : Frame s { s1 with evs := rest, arr := s.arr + e.dt } :=
        fw.trans (by constructor <;> simp_all [cbs])
      have h2 : ({ s1 with evs := rest, arr := s.arr + e.dt } : St).hasDoneTeardown = false := by
        rw [f2.hdt]; exact hp
      split
      · exact (ih _ h2).of_frame f2
      · exact (handleEv_P c hco _ _ h2).of_frame f2

theorem read_P (c : Cfg) (hco : CloseOk c) (s : St) (hp : s.hasDoneTeardown = false) :
    ReadPost c s (Model.App.read c s) := by
  unfold Model.App.read
  split
  · rcases teardown_P c hco s none hp with td | ⟨q, rok, hhe, a, hca⟩
    · left; simpa using td
    · right
      refine ⟨onCloseEv c a, by simpa using hca, ?_, Or.inr ⟨by simpa using q, ⟨[], a, rfl, rfl⟩, ?_⟩⟩
      · intro _
        exact ⟨by simp [hhe, errsIn_onCloseEv], by rw [asRead_exn, rok]; simp [R.exn?]⟩
      · rw [asRead_ok]; exact ⟨rok, rfl⟩
  · split
    · exact post_exc c s s (Frame.refl s) .attrError rfl hp
    · exact readEvents_P c hco s.evs s hp

end WS.Lemmas.App

namespace WS.Lemmas.App
open WS WS.Model.App

/-- what the dispatcher loop can produce, entered before teardown: when it returns normally the loop
    condition is off (`keep_running = False`), with or without teardown having happened -/
abbrev LoopPost (c : Cfg) (s : St) (x : St × R Unit) : Prop :=
  x.2.isHalt = true ∨ Post c s x.1 x.2.exn? (x.2 = .ok ()) (x.2 = .ok () → x.1.keepRunning = false)

theorem LoopPost.of_frame {c : Cfg} {s s0 : St} {x : St × R Unit} (f : Frame s s0) (h : LoopPost c s0 x) :
    LoopPost c s x := by
  rcases h with h | h
  · exact Or.inl h
  · exact Or.inr (Post.of_frame f h)

theorem afterRead_P (c : Cfg) (k : St → St × R Unit) (s : St) (x : St × R Bool) (hx : ReadPost c s x)
    (hk : ∀ s1, s1.hasDoneTeardown = false → LoopPost c s1 (k s1)) : LoopPost c s (afterRead c k x) := by
  rcases x with ⟨s', r⟩
  rcases hx with hh | ⟨δ, hc, hl, ho⟩
  · left; cases r <;> simp_all [R.isHalt, afterRead]
  · simp only [] at hc hl ho
    cases r with
    | halt => left; rfl
    | exc e =>
      right
      refine ⟨δ, hc, fun heo => ⟨(hl heo).1, by simpa [afterRead, R.exn?] using (hl heo).2⟩, ?_⟩
      rcases ho with ⟨a, b, _⟩ | ⟨_, _, d⟩
      · exact Or.inl ⟨a, b, by simp [afterRead]⟩
      · cases d
    | ok b =>
      cases b with
      | false =>
        right
        refine ⟨δ, hc, fun heo => ⟨(hl heo).1, by simp [afterRead, R.exn?]⟩, ?_⟩
        rcases ho with ⟨_, _, d⟩ | ⟨q, dd, _⟩
        · exact absurd rfl d
        · exact Or.inr ⟨q, dd, rfl⟩
      | true =>
        rcases ho with ⟨a, b, _⟩ | ⟨_, _, d⟩
        · simp only [afterRead]
          split
          · right
            refine ⟨δ, hc, fun heo => ⟨(hl heo).1, by simp [R.exn?, isUser, Spec.AppTrace.AExn.isUser]⟩, Or.inl ⟨a, b, by simp⟩⟩
          · rcases hk s' a with hh | post
            · exact Or.inl hh
            · exact Or.inr (Post.trans_stay δ hc b (fun heo => (hl heo).1) post)
        · cases d

theorem frame_select (c : Cfg) (s : St) : Frame s (select c s).1 := by
  unfold select
  split
  · exact Frame.refl s
  · split
    · exact Frame.refl s
    · simp only []
      generalize hw : waitUntil c s _ = x
      have f : Frame s x.1 := by rw [← hw]; exact frame_waitUntil c s _
      rcases x with ⟨s1, ok⟩
      cases ok <;> simpa using f

theorem dispLoop_P (c : Cfg) (hco : CloseOk c) : ∀ (n : Nat) (s : St), s.hasDoneTeardown = false →
    LoopPost c s (dispLoop c n s) := by
  intro n
  induction n with
  | zero => intro s _; left; rfl
  | succ m ih =>
    intro s hp
    rw [dispLoop]
    split
    · -- loop condition off
      right
      rename_i hk
      refine ⟨[], by simp, fun _ => ⟨by simp, by simp [R.exn?]⟩, Or.inl ⟨hp, rfl, fun _ => by simpa using hk⟩⟩
    · split
      · right
        exact ⟨[], by simp, fun _ => ⟨by simp, by simp [R.exn?, isUser, Spec.AppTrace.AExn.isUser]⟩,
          Or.inl ⟨hp, rfl, by simp⟩⟩
      · have fs := frame_select c s
        rcases hsel : select c s with ⟨s1, rd⟩
        rw [hsel] at fs
        simp only [] at fs ⊢
        have h1 : s1.hasDoneTeardown = false := by rw [fs.hdt]; exact hp
        cases rd with
        | none => left; rfl
        | some ready =>
          simp only []
          refine LoopPost.of_frame fs (afterRead_P c (dispLoop c m) s1 _ ?_ ih)
          cases ready with
          | true => simpa using read_P c hco s1 h1
          | false =>
            right
            exact ⟨[], by simp, fun _ => ⟨by simp, by simp [R.exn?]⟩, Or.inl ⟨h1, rfl, by simp⟩⟩

end WS.Lemmas.App

namespace WS.Lemmas.App
open WS WS.Model.App

theorem Post.of_eq {c : Cfg} {s s0 s' : St} {ex : Option AExn} {st es : Prop}
    (hcb : cbs s0 = cbs s) (hhe : s0.hasErrored = s.hasErrored) (h : Post c s0 s' ex st es) : Post c s s' ex st es := by
  obtain ⟨δ, hc, hl, ho⟩ := h
  exact ⟨δ, by rw [hc, hcb], fun heo => by rw [← hhe]; exact hl heo, ho⟩

theorem Post.weaken {c : Cfg} {s s' : St} {ex : Option AExn} {st es st' es' : Prop}
    (h : Post c s s' ex st es) (h1 : st → st') (h2 : es → es') : Post c s s' ex st' es' := by
  obtain ⟨δ, hc, hl, ho⟩ := h
  refine ⟨δ, hc, hl, ?_⟩
  rcases ho with ⟨a, b, d⟩ | ⟨q, dd, d⟩
  · exact Or.inl ⟨a, b, h2 d⟩
  · exact Or.inr ⟨q, dd, h1 d⟩

/-- `connect`: a dial; the bookkeeping of callbacks / teardown / errors is untouched -/
theorem connect_spec (s : St) :
    (connect s).1.hasDoneTeardown = s.hasDoneTeardown ∧ (connect s).1.hasErrored = s.hasErrored ∧
    (connect s).1.keepRunning = s.keepRunning ∧ cbs (connect s).1 = cbs s ∧ (connect s).1.ping = s.ping ∧
    (∀ e, (connect s).2 = .exc e → isUser e = false) ∧ (connect s).2.isHalt = false ∧
    ((connect s).2 = .ok () → (connect s).1.sock.isSome = true) := by
  unfold connect
  cases s.dials with
  | nil => simp [cbs, cbsOf, St.emit, R.isHalt, isUser, Spec.AppTrace.AExn.isUser]
  | cons d ds =>
    cases d <;> simp [cbs, cbsOf, St.emit, R.isHalt, isUser, Spec.AppTrace.AExn.isUser]

theorem startPing_spec (c : Cfg) (s : St) :
    (startPing c s).hasDoneTeardown = s.hasDoneTeardown ∧ (startPing c s).hasErrored = s.hasErrored ∧
    (startPing c s).keepRunning = s.keepRunning ∧ cbs (startPing c s) = cbs s ∧ (startPing c s).sock = s.sock := by
  simp [startPing, cbs, cbsOf, St.emit]

/-- what `setSock` can produce, entered before teardown -/
abbrev SockPost (c : Cfg) (s : St) (x : St × R Unit) : Prop :=
  x.2.isHalt = true ∨
  Post c s x.1 x.2.exn? True (x.2 = .ok () → x.1.keepRunning = true → x.1.hasErrored = true)

theorem hd_to_sock {c : Cfg} {s : St} {x : St × R Unit}
    (h : x.2.isHalt = true ∨ Post c s x.1 x.2.exn? True (x.1.hasErrored = true)) : SockPost c s x := by
  rcases h with h | h
  · exact Or.inl h
  · exact Or.inr (h.weaken id (fun he _ _ => he))

theorem setSock_P (c : Cfg) (hco : CloseOk c) (s : St) (rc : Bool) (hp : s.hasDoneTeardown = false)
    (hpre : ErrOk c → rc = true → s.hasErrored = true) : SockPost c s (setSock c s rc) := by
  unfold setSock
  -- release of the previous transport
  have f0 : Frame s (release s rc) := by
    unfold release
    split
    · split
      · exact frame_closeTransport s
      · exact Frame.refl s
    · exact Frame.refl s
  generalize release s rc = s0 at f0 ⊢
  obtain ⟨k1, k2, k3, k4, k5, k6, k7, k8⟩ := connect_spec s0
  rcases hcn : connect s0 with ⟨s1, r1⟩
  rw [hcn] at k1 k2 k3 k4 k5 k6 k7 k8
  simp only [] at k1 k2 k3 k4 k5 k6 k7 k8
  have h1 : s1.hasDoneTeardown = false := by rw [k1, f0.hdt]; exact hp
  have hcb1 : cbs s1 = cbs s := by rw [k4, f0.cb]
  have hhe1 : s1.hasErrored = s.hasErrored := by rw [k2, f0.he]
  -- handleDisconnect from a state that differs from s by callback events δ (no on_close, errors linked)
  have viaHD : ∀ (s2 : St) (e : AExn) (δ : List (Cb × List Arg)), s2.hasDoneTeardown = false →
      cbs s2 = cbs s ++ δ → closesIn δ = 0 → (ErrOk c → s2.hasErrored = (s.hasErrored || errsIn δ)) →
      (ErrOk c → isUser e = false) → SockPost c s (handleDisconnect c s2 e rc) := by
    intro s2 e δ h2 hc2 hcl2 hl2 hu
    have := handleDisconnect_P c hco s2 e rc h2 (fun heo => ⟨fun hr => by
      rw [hl2 heo, hpre heo hr]; simp, hu heo⟩)
    rcases hd_to_sock this with hh | post
    · exact Or.inl hh
    · exact Or.inr (Post.trans_stay δ hc2 hcl2 hl2 post)
  unfold afterConnect
  cases r1 with
  | halt => simp [R.isHalt] at k7
  | exc e =>
    exact viaHD s1 e [] h1 (by simpa using hcb1) rfl (fun _ => by simpa using hhe1) (fun _ => k6 e rfl)
  | ok u =>
    cases u
    try simp only []
    obtain ⟨p1, p2, p3, p4, p5⟩ := startPing_spec c s1
    have f2h : (if c.iv ≠ 0 then startPing c s1 else s1).hasDoneTeardown = false := by
      split
      · rw [p1]; exact h1
      · exact h1
    have f2c : cbs (if c.iv ≠ 0 then startPing c s1 else s1) = cbs s := by
      split
      · rw [p4]; exact hcb1
      · exact hcb1
    have f2e : (if c.iv ≠ 0 then startPing c s1 else s1).hasErrored = s.hasErrored := by
      split
      · rw [p2]; exact hhe1
      · exact hhe1
    generalize (if c.iv ≠ 0 then startPing c s1 else s1) = s2 at f2h f2c f2e ⊢
    have hne : openCb c rc ≠ .onClose ∧ openCb c rc ≠ .onError := by
      unfold openCb; split <;> simp
    generalize openCb c rc = cb0 at hne ⊢
    obtain ⟨m3, ⟨δ3, hc3, hcl3, her3⟩, hex3⟩ := plain_cb_spec c s2 cb0 [] hne.1 hne.2
    rcases hx : callback c s2 cb0 [] with ⟨s3, r3⟩
    rw [hx] at m3 hc3 hex3
    simp only [] at m3 hc3 hex3
    have h3 : s3.hasDoneTeardown = false := by rw [m3.hdt]; exact f2h
    have hc3' : cbs s3 = cbs s ++ δ3 := by rw [hc3, f2c]
    have hl3 : ErrOk c → s3.hasErrored = (s.hasErrored || errsIn δ3) := fun _ => by rw [m3.he, f2e, her3]; simp
    unfold afterOpen
    cases r3 with
    | halt => left; rfl
    | exc e => exact viaHD s3 e δ3 h3 hc3' hcl3 hl3 (fun heo => by rw [hex3 heo e rfl]; rfl)
    | ok u =>
      cases u
      try simp only []
      cases hs3 : s3.sock with
      | none => exact viaHD s3 .attrError δ3 h3 hc3' hcl3 hl3 (fun _ => rfl)
      | some w =>
        try simp only []
        unfold afterLoop
        rcases dispLoop_P c hco c.fuel s3 h3 with hh | post
        · left
          rcases hd : dispLoop c c.fuel s3 with ⟨s4, r4⟩
          rw [hd] at hh
          cases r4 with
          | halt => rfl
          | ok u => simp [R.isHalt] at hh
          | exc e => simp [R.isHalt] at hh
        · rcases hd : dispLoop c c.fuel s3 with ⟨s4, r4⟩
          rw [hd] at post
          simp only [] at post ⊢
          cases r4 with
          | halt => left; rfl
          | ok u =>
            cases u
            right
            exact Post.trans_stay δ3 hc3' hcl3 hl3
              (post.weaken (fun _ => trivial) (fun h hk hkr => by rw [h hk] at hkr; cases hkr))
          | exc e =>
            obtain ⟨δ4, hc4, hl4, ho4⟩ := post
            rcases ho4 with ⟨a4, b4, _⟩ | ⟨_, _, d⟩
            · exact viaHD s4 e (δ3 ++ δ4) a4 (by rw [hc4, hc3', List.append_assoc])
                (by rw [closesIn_append, hcl3, b4])
                (fun heo => by rw [(hl4 heo).1, hl3 heo, errsIn_append, Bool.or_assoc])
                (fun heo => (hl4 heo).2 e rfl)
            · cases d

end WS.Lemmas.App

namespace WS.Lemmas.App
open WS WS.Model.App

abbrev RLPost (c : Cfg) (s : St) (x : St × R Unit) : Prop :=
  x.2.isHalt = true ∨ Post c s x.1 x.2.exn? True True

theorem reconnectLoop_Q (c : Cfg) (n : Nat) (s : St) (h : s.keepRunning = false) :
    reconnectLoop c (n + 1) s = (s, .ok ()) := by
  rw [reconnectLoop]; simp [h]

theorem reconnectLoop_P (c : Cfg) (hco : CloseOk c) : ∀ (n : Nat) (s : St), s.hasDoneTeardown = false →
    (ErrOk c → s.keepRunning = true → s.hasErrored = true) → RLPost c s (reconnectLoop c n s) := by
  intro n
  induction n with
  | zero => intro s _ _; left; rfl
  | succ m ih =>
    intro s hp hpre
    rw [reconnectLoop]
    by_cases hk : s.keepRunning = true
    · simp only [hk, Bool.not_true, Bool.false_eq_true, ↓reduceIte]
      have f1 := frame_emit s (.sleep c.reconnect) (by intros; simp)
      have f2 := frame_waitUntil c (s.emit (.sleep c.reconnect)) ((s.emit (.sleep c.reconnect)).now + c.reconnect)
      rcases hw : waitUntil c (s.emit (.sleep c.reconnect)) ((s.emit (.sleep c.reconnect)).now + c.reconnect) with ⟨s2, ok⟩
      rw [hw] at f2
      try simp only [] at f2 ⊢
      cases ok with
      | false => left; rfl
      | true =>
        simp only [Bool.not_true, Bool.false_eq_true, ↓reduceIte]
        have f := f1.trans f2
        have h2 : s2.hasDoneTeardown = false := by rw [f.hdt]; exact hp
        have sp := setSock_P c hco s2 true h2 (fun heo _ => by rw [f.he]; exact hpre heo hk)
        rcases hss : setSock c s2 true with ⟨s3, r3⟩
        rw [hss] at sp
        unfold rlNext
        try simp only [] at sp ⊢
        rcases sp with hh | post
        · left
          cases r3 with
          | halt => rfl
          | ok u => simp [R.isHalt] at hh
          | exc e => simp [R.isHalt] at hh
        · cases r3 with
          | halt => left; rfl
          | exc e => right; exact Post.of_frame f (post.weaken id (fun _ => trivial))
          | ok u =>
            cases u
            try simp only []
            obtain ⟨δ, hc, hl, ho⟩ := post
            rcases ho with ⟨a, b, d⟩ | ⟨q, dd, _⟩
            · -- still before teardown: next round
              rcases ih s3 a (fun heo hk3 => d rfl hk3) with hh | post2
              · exact Or.inl hh
              · exact Or.inr (Post.of_frame f (Post.trans_stay δ hc b (fun heo => (hl heo).1) post2))
            · -- teardown done inside setSock: the loop condition is off
              cases m with
              | zero => left; rfl
              | succ k =>
                rw [reconnectLoop_Q c k s3 q.kr]
                right
                exact Post.of_frame f ⟨δ, hc, fun heo => ⟨(hl heo).1, by simp [R.exn?]⟩, Or.inr ⟨q, dd, trivial⟩⟩
    · simp only [hk, Bool.not_false, ↓reduceIte]
      right
      exact ⟨[], by simp, fun _ => ⟨by simp, by simp [R.exn?]⟩, Or.inl ⟨hp, rfl, trivial⟩⟩

theorem firstStage_P (c : Cfg) (hco : CloseOk c) (s : St) (hp : s.hasDoneTeardown = false) :
    RLPost c s (firstStage c s) := by
  unfold firstStage
  have sp := setSock_P c hco s false hp (fun _ h => by cases h)
  rcases hss : setSock c s false with ⟨s1, r1⟩
  rw [hss] at sp
  try simp only [] at sp ⊢
  rcases sp with hh | post
  · left
    cases r1 with
    | halt => rfl
    | ok u => simp [R.isHalt] at hh
    | exc e => simp [R.isHalt] at hh
  · cases r1 with
    | halt => left; rfl
    | exc e => right; exact post.weaken id (fun _ => trivial)
    | ok u =>
      cases u
      try simp only []
      split
      · obtain ⟨δ, hc, hl, ho⟩ := post
        rcases ho with ⟨a, b, d⟩ | ⟨q, dd, _⟩
        · rcases reconnectLoop_P c hco c.fuel s1 a (fun heo hk => d rfl hk) with hh | post2
          · exact Or.inl hh
          · exact Or.inr (Post.trans_stay δ hc b (fun heo => (hl heo).1) post2)
        · cases hf : c.fuel with
          | zero => left; rfl
          | succ k =>
            rw [reconnectLoop_Q c k s1 q.kr]
            right
            exact ⟨δ, hc, fun heo => ⟨(hl heo).1, by simp [R.exn?]⟩, Or.inr ⟨q, dd, trivial⟩⟩
      · right; exact post.weaken id (fun _ => trivial)

/-- **the whole body of run_forever** (try / except / finally), entered with `has_done_teardown = False`:
    unless the model is cut, it ends after teardown (`Qst`), having appended callback events
    `δ1 ++ [on_close …]` with no on_close in `δ1`, and `has_errored` says whether `δ1` holds an error report. -/
theorem runBody_spec (c : Cfg) (hco : CloseOk c) (s : St) (hp : s.hasDoneTeardown = false)
    (hpre : ErrOk c → s.hasErrored = false) :
    (runBody c s).2.isHalt = true ∨
    (Qst (runBody c s).1 ∧ (runBody c s).2 = .ok () ∧
      ∃ δ1 a, cbs (runBody c s).1 = cbs s ++ δ1 ++ onCloseEv c a ∧ closesIn δ1 = 0 ∧
        (ErrOk c → (runBody c s).1.hasErrored = errsIn δ1)) := by
  unfold runBody
  have stage := firstStage_P c hco s hp
  rcases hfs : firstStage c s with ⟨s1, r1⟩
  rw [hfs] at stage
  try simp only [] at stage
  unfold afterBody
  simp only [gen_finally, ↓reduceIte]
  rcases stage with hh | ⟨δ, hc, hl, ho⟩
  · left
    cases r1 with
    | halt => rfl
    | ok u => simp [R.isHalt] at hh
    | exc e => simp [R.isHalt] at hh
  · -- teardown (in the except clause and/or in finally)
    have fin : (teardown c s1 none).2.isHalt = true ∨
        (Qst (teardown c s1 none).1 ∧ (teardown c s1 none).2 = .ok () ∧
          ∃ δ1 a, cbs (teardown c s1 none).1 = cbs s ++ δ1 ++ onCloseEv c a ∧ closesIn δ1 = 0 ∧
            (ErrOk c → (teardown c s1 none).1.hasErrored = errsIn δ1)) := by
      rcases ho with ⟨a, b, _⟩ | ⟨q, ⟨δ1, ar, he, hcl⟩, _⟩
      · rcases teardown_P c hco s1 none a with td | ⟨q, rok, hhe, ar, hca⟩
        · exact Or.inl td
        · right
          refine ⟨q, rok, δ, ar, by rw [hca, hc], b, fun heo => ?_⟩
          rw [hhe, (hl heo).1, hpre heo]; simp
      · right
        rw [teardown_Q c s1 none q.hdt]
        refine ⟨q, rfl, δ1, ar, by rw [hc, he, List.append_assoc], hcl, fun heo => ?_⟩
        rw [(hl heo).1, hpre heo, he]; simp [errsIn_onCloseEv]
    cases r1 with
    | halt => left; rfl
    | ok u => cases u; exact fin
    | exc e =>
      try simp only []
      rcases fin with td | ⟨q, rok, rest⟩
      · left
        rcases hx : teardown c s1 none with ⟨s2, r2⟩
        rw [hx] at td
        cases r2 with
        | halt => rfl
        | ok u => simp [R.isHalt] at td
        | exc e => simp [R.isHalt] at td
      · right
        rcases hx : teardown c s1 none with ⟨s2, r2⟩
        rw [hx] at q rok rest
        try simp only [] at q rok rest
        subst rok
        try simp only []
        rw [teardown_Q c s2 none q.hdt]
        exact ⟨q, rfl, rest⟩

end WS.Lemmas.App

namespace WS.Lemmas.App
open WS WS.Model.App

/-- what a run that returned looks like (from `runBody_spec`) -/
theorem returned_spec (c : Cfg) (hco : CloseOk c) (s0 : St) (b : Bool)
    (h : (runForeverO c s0).2 = .returned b) :
    Qst ((runBody c (prologue s0)).1) ∧
    (runForever c s0).trace = (runBody c (prologue s0)).1.trace ++ [((runBody c (prologue s0)).1.now, .returned b)] ∧
    b = (runBody c (prologue s0)).1.hasErrored ∧
    ∃ δ1 a, cbs (runBody c (prologue s0)).1 = cbs s0 ++ δ1 ++ onCloseEv c a ∧ closesIn δ1 = 0 ∧
      (ErrOk c → (runBody c (prologue s0)).1.hasErrored = errsIn δ1) := by
  unfold runForever
  unfold runForeverO at h ⊢
  split at h
  · simp at h
  · split at h
    · simp at h
    · rename_i h1 h2
      simp only [h1, h2, ↓reduceIte] at h ⊢
      have sp := runBody_spec c hco (prologue s0) rfl (fun _ => by simp [prologue])
      rcases hx : runBody c (prologue s0) with ⟨s1, r1⟩
      rw [hx] at sp h
      cases r1 with
      | halt => simp at h
      | exc e => simp at h
      | ok u =>
        cases u
        simp only [Outcome.returned.injEq] at h
        rcases sp with sp | ⟨q, _, δ1, a, hc, hcl, hl⟩
        · simp [R.isHalt] at sp
        · exact ⟨q, by simp [St.emit, h], h.symm, δ1, a, hc, hcl, hl⟩


theorem returned_clean (c : Cfg) (hco : CloseOk c) (s0 : St) (b : Bool) (h : (runForeverO c s0).2 = .returned b) :
    (runForever c s0).sock = none ∧ (runForever c s0).ping = none ∧ (runForever c s0).keepRunning = false ∧
    (runForever c s0).lastPing = 0 ∧ (runForever c s0).lastPong = 0 := by
  obtain ⟨q, _, _, _⟩ := returned_spec c hco s0 b h
  have hs : runForever c s0 = ((runBody c (prologue s0)).1).emit (.returned (runBody c (prologue s0)).1.hasErrored) := by
    unfold runForever
    unfold runForeverO at h ⊢
    split at h
    · simp at h
    · split at h
      · simp at h
      · rename_i h1 h2
        simp only [h1, h2, ↓reduceIte] at h ⊢
        rcases hx : runBody c (prologue s0) with ⟨s1, r1⟩
        rw [hx] at h
        cases r1 with
        | halt => simp at h
        | exc e => simp at h
        | ok u => rfl
  rw [hs]
  exact ⟨q.sk, q.pg, q.kr, q.lp, q.lq⟩


end WS.Lemmas.App
