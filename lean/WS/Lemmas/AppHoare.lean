/-
  WS.Lemmas.AppHoare — pre/post lemmas for the functions of `run_forever` that can call user callbacks,
  for ALL worlds, plans, schedules and settings.  Two phases: before teardown (`has_done_teardown = False`)
  and after it (`Qst`: teardown done, loop stopped, socket reference and ping thread gone).
-/
import WS.Lemmas.AppInv
namespace WS.Lemmas.App
open WS WS.Model.App

/-- the on_close handler does not fail (it returns, possibly after calling close()) -/
def CloseOk (c : Cfg) : Prop := ∀ k, c.act .onClose k = .ok ∨ c.act .onClose k = .close

/-- an on_error handler is set and does not fail -/
def ErrOk (c : Cfg) : Prop := c.has .onError = true ∧ ∀ k, c.act .onError k = .ok ∨ c.act .onError k = .close

/-- an error of the run is reported (not a user callback's exception) -/
def isErr : Cb × List Arg → Bool
  | (.onError, [.exn e]) => !(Spec.AppTrace.AExn.isUser e)
  | _ => false

def errsIn (l : List (Cb × List Arg)) : Bool := l.any isErr
def closesIn (l : List (Cb × List Arg)) : Nat := l.countP fun x => x.1 == .onClose

@[simp] theorem errsIn_append (a b : List (Cb × List Arg)) : errsIn (a ++ b) = (errsIn a || errsIn b) := by
  simp [errsIn]
@[simp] theorem closesIn_append (a b : List (Cb × List Arg)) : closesIn (a ++ b) = closesIn a + closesIn b := by
  simp [closesIn]
@[simp] theorem errsIn_nil : errsIn [] = false := rfl
@[simp] theorem closesIn_nil : closesIn [] = 0 := rfl

def _root_.WS.Model.App.R.isHalt {α : Type} : R α → Bool
  | .halt => true
  | _ => false

def _root_.WS.Model.App.R.exn? {α : Type} : R α → Option AExn
  | .exc e => some e
  | _ => none

/-- after teardown: `has_done_teardown`, loop stopped, no socket reference, no ping thread -/
structure Qst (s : St) : Prop where
  hdt : s.hasDoneTeardown = true
  kr : s.keepRunning = false
  sk : s.sock = none
  pg : s.ping = none

/-- what every callback-calling function preserves -/
structure Mono (s s' : St) : Prop where
  hdt : s'.hasDoneTeardown = s.hasDoneTeardown
  he : s'.hasErrored = s.hasErrored
  kr : s'.keepRunning = true → s.keepRunning = true
  pn : s.ping = none → s'.ping = none
  sn : s.sock = none → s'.sock = none

theorem Mono.refl (s : St) : Mono s s := ⟨rfl, rfl, id, id, id⟩
theorem Mono.trans {a b c : St} (h1 : Mono a b) (h2 : Mono b c) : Mono a c :=
  ⟨h2.hdt.trans h1.hdt, h2.he.trans h1.he, fun h => h1.kr (h2.kr h), fun h => h2.pn (h1.pn h), fun h => h2.sn (h1.sn h)⟩
theorem Frame.mono {a b : St} (h : Frame a b) : Mono a b :=
  ⟨h.hdt, h.he, fun x => by rw [h.kr] at x; exact x, h.pn, h.sn⟩
theorem CloseFrame.mono {a b : St} (h : CloseFrame a b) : Mono a b :=
  ⟨h.hdt, h.he, fun x => by rw [h.kr] at x; exact absurd x (by simp), h.pn, h.sn⟩

theorem rawCall_ki (c : Cfg) (s : St) (cb : Cb) (args : List Arg) (h : c.act cb (s.calls cb) = .ki) :
    rawCall c s cb args =
      ({ s with calls := bump s.calls cb, trace := s.trace ++ [(s.now, .cb cb args)] }, .exc .ki) := by
  unfold rawCall
  simp only [h, St.emit]

theorem rawCall_close (c : Cfg) (s : St) (cb : Cb) (args : List Arg) (h : c.act cb (s.calls cb) = .close) :
    rawCall c s cb args =
      ((appClose c { s with calls := bump s.calls cb, trace := s.trace ++ [(s.now, .cb cb args)] }).1,
       if (appClose c { s with calls := bump s.calls cb, trace := s.trace ++ [(s.now, .cb cb args)] }).2
       then .ok () else .halt) := by
  unfold rawCall
  simp only [h, St.emit]
  split <;> simp_all

/-- the user function itself -/
theorem rawCall_spec (c : Cfg) (s : St) (cb : Cb) (args : List Arg) :
    Mono s (rawCall c s cb args).1 ∧ cbs (rawCall c s cb args).1 = cbs s ++ [(cb, args)] ∧
    (∀ e, (rawCall c s cb args).2 = .exc e → (e = .user cb (s.calls cb) ∧ c.act cb (s.calls cb) = .raise) ∨ e = .ki) ∧
    ((c.act cb (s.calls cb) = .ok ∨ c.act cb (s.calls cb) = .close) → ∀ e, (rawCall c s cb args).2 ≠ .exc e) := by
  have hm : Mono s { s with calls := bump s.calls cb, trace := s.trace ++ [(s.now, .cb cb args)] } :=
    ⟨rfl, rfl, id, id, id⟩
  have hc : cbs { s with calls := bump s.calls cb, trace := s.trace ++ [(s.now, .cb cb args)] } = cbs s ++ [(cb, args)] := by
    simp [cbs, cbsOf]
  cases ha : c.act cb (s.calls cb) with
  | ok => rw [rawCall_ok c s cb args ha]; exact ⟨hm, hc, by simp, by simp⟩
  | raise => rw [rawCall_raise c s cb args ha]; exact ⟨hm, hc, by simp, by simp⟩
  | ki => rw [rawCall_ki c s cb args ha]; exact ⟨hm, hc, by simp, by simp⟩
  | close =>
    rw [rawCall_close c s cb args ha]
    have f := appClose_frame c { s with calls := bump s.calls cb, trace := s.trace ++ [(s.now, .cb cb args)] }
    refine ⟨hm.trans f.mono, by rw [f.cb, hc], ?_, ?_⟩
    · intro e; split <;> simp
    · intro _ e; split <;> simp

/-- `_callback`: what it adds to the callback trace and what it can return -/
theorem callback_spec (c : Cfg) (s : St) (cb : Cb) (args : List Arg) :
    Mono s (callback c s cb args).1 ∧
    (∃ rep, (rep = [] ∨ ∃ k, rep = [(Cb.onError, [Arg.exn (.user cb k)])]) ∧
       cbs (callback c s cb args).1 = cbs s ++ (if c.has cb then (cb, args) :: rep else []) ∧
       ((c.act cb (s.calls cb) = .ok ∨ c.act cb (s.calls cb) = .close) → rep = [])) ∧
    (∀ e, (callback c s cb args).2 = .exc e → e = .ki ∨ (∃ k, e = .user .onError k ∧ c.act .onError k = .raise)) ∧
    ((c.act cb (s.calls cb) = .ok ∨ c.act cb (s.calls cb) = .close) → ∀ e, (callback c s cb args).2 ≠ .exc e) := by
  unfold callback
  by_cases hh : c.has cb = true
  · simp only [hh, Bool.not_true, Bool.false_eq_true, ↓reduceIte]
    obtain ⟨m1, c1, e1, o1⟩ := rawCall_spec c s cb args
    rcases hx : rawCall c s cb args with ⟨s1, r1⟩
    rw [hx] at m1 c1 e1 o1
    simp only [] at m1 c1 e1 o1
    cases r1 with
    | ok u => exact ⟨m1, ⟨[], Or.inl rfl, by simpa using c1, fun _ => rfl⟩, by simp, by simp⟩
    | halt => exact ⟨m1, ⟨[], Or.inl rfl, by simpa using c1, fun _ => rfl⟩, by simp, by simp⟩
    | exc e =>
      rcases e1 e rfl with ⟨rfl, hact⟩ | rfl
      · -- the callback raised: report to on_error
        by_cases he : c.has .onError = true
        · simp only [he, ↓reduceIte]
          obtain ⟨m2, c2, e2, o2⟩ := rawCall_spec c s1 .onError [.exn (.user cb (s.calls cb))]
          refine ⟨m1.trans m2, ⟨[(.onError, [.exn (.user cb (s.calls cb))])], Or.inr ⟨_, rfl⟩, ?_, ?_⟩, ?_, ?_⟩
          · rw [c2, c1]; simp
          · intro h; rcases h with h | h <;> rw [h] at hact <;> cases hact
          · intro e he2
            rcases e2 e he2 with ⟨rfl, ha⟩ | rfl
            · exact Or.inr ⟨_, rfl, ha⟩
            · exact Or.inl rfl
          · intro h; rcases h with h | h <;> rw [h] at hact <;> cases hact
        · simp only [he, Bool.false_eq_true, ↓reduceIte]
          refine ⟨m1, ⟨[], Or.inl rfl, by simpa using c1, fun _ => rfl⟩, by simp, by simp⟩
      · refine ⟨m1, ⟨[], Or.inl rfl, by simpa using c1, fun _ => rfl⟩, by simp, ?_⟩
        intro h; exact absurd rfl (o1 h .ki)
  · simp only [hh, Bool.not_false, ↓reduceIte]
    exact ⟨Mono.refl s, ⟨[], Or.inl rfl, by simp, fun _ => rfl⟩, by simp, by simp⟩

end WS.Lemmas.App

namespace WS.Lemmas.App
open WS WS.Model.App

def onCloseEv (c : Cfg) (a : List Arg) : List (Cb × List Arg) := if c.has .onClose then [(Cb.onClose, a)] else []

abbrev isUser (e : AExn) : Bool := Spec.AppTrace.AExn.isUser e

/-- postcondition of a callback-calling function entered before teardown (`has_done_teardown = False`):
    it appended the callback events `δ`; `has_errored` is linked to the error reports in `δ`; either
    teardown has still not happened (no on_close in `δ`) or it has completed (`Qst`) and the last
    callback event is on_close. -/
def Post (c : Cfg) (s s' : St) (ex : Option AExn) (strict : Prop) (extraStay : Prop) : Prop :=
  ∃ δ, cbs s' = cbs s ++ δ ∧
    (ErrOk c → s'.hasErrored = (s.hasErrored || errsIn δ) ∧ ∀ e, ex = some e → isUser e = false) ∧
    ((s'.hasDoneTeardown = false ∧ closesIn δ = 0 ∧ extraStay) ∨
     (Qst s' ∧ (∃ δ1 a, δ = δ1 ++ onCloseEv c a ∧ closesIn δ1 = 0) ∧ strict))

theorem closesIn_onCloseEv (c : Cfg) (a : List Arg) (h : c.has .onClose = true) : closesIn (onCloseEv c a) = 1 := by
  simp [onCloseEv, h, closesIn]

theorem errsIn_onCloseEv (c : Cfg) (a : List Arg) : errsIn (onCloseEv c a) = false := by
  unfold onCloseEv; split <;> simp [errsIn, isErr]

/-- teardown entered for the first time: stops the ping thread, closes, drops the socket, calls on_close last -/
theorem teardown_P (c : Cfg) (hco : CloseOk c) (s : St) (frame : Option Bytes) (hp : s.hasDoneTeardown = false) :
    (teardown c s frame).2.isHalt = true ∨
    (Qst (teardown c s frame).1 ∧ (teardown c s frame).2 = .ok () ∧
      (teardown c s frame).1.hasErrored = s.hasErrored ∧
      ∃ a, cbs (teardown c s frame).1 = cbs s ++ onCloseEv c a) := by
  unfold teardown
  simp only [gen_guard, hp, Bool.and_false, Bool.false_eq_true, ↓reduceIte, gen_tdStops]
  have f0 : Frame s { s with hasDoneTeardown := true } → False ∨ True := fun _ => Or.inr trivial
  have f1 := frame_stopPing { s with hasDoneTeardown := true }
  have p1 := stopPing_ping { s with hasDoneTeardown := true }
  generalize stopPing { s with hasDoneTeardown := true } = s1 at f1 p1 ⊢
  have f2 := frame_wsClose c { s1 with keepRunning := false }
  rcases hw : wsClose c { s1 with keepRunning := false } with ⟨s2, ok⟩
  rw [hw] at f2
  simp only [] at f2 ⊢
  cases ok with
  | false => left; rfl
  | true =>
    simp only [Bool.not_true, Bool.false_eq_true, ↓reduceIte]
    have f3 := frame_dropSock s2
    have k3 := dropSock_sock s2
    obtain ⟨m4, ⟨rep, _, c4, hrep⟩, _, o4⟩ := callback_spec c (dropSock s2) .onClose (closeArgs c frame)
    have hok := hco ((dropSock s2).calls .onClose)
    have hrep' := hrep hok
    subst hrep'
    rcases hx : callback c (dropSock s2) .onClose (closeArgs c frame) with ⟨s4, r4⟩
    rw [hx] at m4 c4 o4
    simp only [] at m4 c4 o4
    cases r4 with
    | halt => left; rfl
    | exc e => exact absurd rfl (o4 hok e)
    | ok u =>
      right
      cases u
      refine ⟨⟨?_, ?_, ?_, ?_⟩, rfl, ?_, ⟨closeArgs c frame, ?_⟩⟩
      · rw [m4.hdt, f3.hdt, f2.hdt]; simp only []; rw [f1.hdt]
      · cases hk : s4.keepRunning with
        | false => rfl
        | true => have := m4.kr hk; rw [f3.kr, f2.kr] at this; simp at this
      · exact m4.sn k3
      · exact m4.pn (f3.pn (f2.pn (by simpa using p1)))
      · rw [m4.he, f3.he, f2.he]; simp only []; rw [f1.he]
      · rw [c4, f3.cb, f2.cb]
        have : cbs ({ s1 with keepRunning := false } : St) = cbs s1 := rfl
        rw [this, f1.cb]
        rfl

theorem teardown_Q (c : Cfg) (s : St) (frame : Option Bytes) (h : s.hasDoneTeardown = true) :
    teardown c s frame = (s, .ok ()) := by
  unfold teardown
  simp [h]

end WS.Lemmas.App

namespace WS.Lemmas.App
open WS WS.Model.App

/-- reporting an error to on_error -/
theorem report_spec (c : Cfg) (s : St) (e : AExn) :
    Mono s (callback c s .onError [.exn e]).1 ∧
    ∃ δ, cbs (callback c s .onError [.exn e]).1 = cbs s ++ δ ∧ closesIn δ = 0 ∧
      (ErrOk c → errsIn δ = !isUser e ∧ ∀ e', (callback c s .onError [.exn e]).2 ≠ .exc e') := by
  obtain ⟨m, ⟨rep, hrep, hc, hr0⟩, _, ho⟩ := callback_spec c s .onError [.exn e]
  refine ⟨m, _, hc, ?_, ?_⟩
  · split
    · rcases hrep with rfl | ⟨k, rfl⟩ <;> simp [closesIn]
    · rfl
  · intro heo
    have hok := heo.2 (s.calls .onError)
    have := hr0 hok
    subst this
    simp only [heo.1, ↓reduceIte]
    exact ⟨by simp [errsIn, isErr, isUser], ho hok⟩

theorem handleDisconnect_P (c : Cfg) (hco : CloseOk c) (s : St) (e : AExn) (rc : Bool)
    (hp : s.hasDoneTeardown = false)
    (hpre : ErrOk c → (rc = true → s.hasErrored = true) ∧ isUser e = false) :
    (handleDisconnect c s e rc).2.isHalt = true ∨
    Post c s (handleDisconnect c s e rc).1 (handleDisconnect c s e rc).2.exn? True
      ((handleDisconnect c s e rc).1.hasErrored = true) := by
  unfold handleDisconnect
  simp only [gen_dcErr, gen_dcStops, ↓reduceIte]
  have f1 := frame_stopPing { s with hasErrored := true }
  generalize stopPing { s with hasErrored := true } = s1 at f1 ⊢
  have h1 : s1.hasDoneTeardown = false := by rw [f1.hdt]; exact hp
  have he1 : s1.hasErrored = true := by rw [f1.he]
  have hc1 : cbs s1 = cbs s := f1.cb
  -- the error report (or none when reconnecting)
  have key : ∀ (s2 : St) (δ : List (Cb × List Arg)), Mono s1 s2 → cbs s2 = cbs s ++ δ → closesIn δ = 0 →
      (ErrOk c → (s.hasErrored || errsIn δ) = true) →
      ((afterReport c s2 e).2.isHalt = true ∨
       Post c s (afterReport c s2 e).1 (afterReport c s2 e).2.exn? True ((afterReport c s2 e).1.hasErrored = true)) := by
    intro s2 δ m2 hc2 hcl herr
    have h2 : s2.hasDoneTeardown = false := by rw [m2.hdt]; exact h1
    have he2 : s2.hasErrored = true := by rw [m2.he]; exact he1
    have td := teardown_P c hco s2 none h2
    unfold afterReport
    by_cases hki : e = .ki
    · simp only [hki, ↓reduceIte]
      rcases td with td | ⟨q, rok, hhe, a, hca⟩
      · left
        rcases hx : teardown c s2 none with ⟨s3, r3⟩
        rw [hx] at td
        cases r3 <;> simp_all [R.isHalt]
      · right
        rcases hx : teardown c s2 none with ⟨s3, r3⟩
        rw [hx] at q rok hhe hca
        simp only [] at q rok hhe hca
        subst rok
        refine ⟨δ ++ onCloseEv c a, by rw [hca, hc2, List.append_assoc], ?_, Or.inr ⟨q, ⟨δ, a, rfl, hcl⟩, trivial⟩⟩
        intro heo
        refine ⟨?_, by simp [R.exn?, isUser, Spec.AppTrace.AExn.isUser]⟩
        simp only [errsIn_append, errsIn_onCloseEv, Bool.or_false]
        rw [hhe, he2, herr heo]
    · simp only [hki, ↓reduceIte]
      by_cases hr : c.reconnect = 0
      · simp only [hr, ne_eq, not_true_eq_false, ↓reduceIte]
        rcases td with td | ⟨q, rok, hhe, a, hca⟩
        · left; exact td
        · right
          refine ⟨δ ++ onCloseEv c a, by rw [hca, hc2, List.append_assoc], ?_, Or.inr ⟨q, ⟨δ, a, rfl, hcl⟩, trivial⟩⟩
          intro heo
          refine ⟨?_, by rw [rok]; simp [R.exn?]⟩
          simp only [errsIn_append, errsIn_onCloseEv, Bool.or_false]
          rw [hhe, he2, herr heo]
      · simp only [ne_eq, hr, not_false_eq_true, ↓reduceIte]
        right
        refine ⟨δ, hc2, ?_, Or.inl ⟨h2, hcl, he2⟩⟩
        intro heo
        exact ⟨by rw [he2, herr heo], by simp [R.exn?]⟩
  cases rc with
  | true =>
    simp only [Bool.not_true, Bool.false_eq_true, ↓reduceIte]
    exact key s1 [] (Mono.refl s1) (by simpa using hc1) rfl (fun heo => by simp [(hpre heo).1 rfl])
  | false =>
    simp only [Bool.not_false, ↓reduceIte]
    obtain ⟨m, δ, hc, hcl, herr⟩ := report_spec c s1 e
    rcases hx : callback c s1 .onError [.exn e] with ⟨s2, r2⟩
    rw [hx] at m hc herr
    simp only [] at m hc herr
    cases r2 with
    | halt => left; rfl
    | exc e' =>
      right
      refine ⟨δ, by rw [hc, hc1], ?_, Or.inl ⟨by rw [m.hdt]; exact h1, hcl, by rw [m.he]; exact he1⟩⟩
      intro heo
      exact absurd rfl ((herr heo).2 e')
    | ok u =>
      cases u
      exact key s2 δ m (by rw [hc, hc1]) hcl (fun heo => by
        rw [(herr heo).1, (hpre heo).2]; simp)

end WS.Lemmas.App
