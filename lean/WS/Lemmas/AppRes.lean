/-
  WS.Lemmas.AppRes — resource accounting of `run_forever` for ALL worlds, plans, schedules and settings:
  at every point of the trace at most one transport is open and at most one ping thread is alive
  (Spec.AppTrace.resourcesBounded), and the counts agree with the state (`app.sock`, `ping_thread`).
-/
import WS.Lemmas.AppHoare
namespace WS.Lemmas.App
open WS WS.Model.App
open WS.Spec.AppTrace (live livePings resourcesBounded)

def openSock (s : St) : Bool := match s.sock with | some w => w.isOpen | none => false

def b2i (b : Bool) : Int := if b then 1 else 0

/-- effect of one event on the two counters -/
def dLive : Ev → Int
  | .dial _ => 1 | .sockClosed _ => -1 | .sockDropped _ => -1 | _ => 0
def dPing : Ev → Int
  | .pingStart => 1 | .pingStop => -1 | _ => 0

def liveFrom (n : Int) (tr : Trace) : Int :=
  tr.foldl (fun n te => match te.2 with
    | .dial _ => n + 1 | .sockClosed _ => n - 1 | .sockDropped _ => n - 1 | _ => n) n

def pingsFrom (n : Int) (tr : Trace) : Int :=
  tr.foldl (fun n te => match te.2 with | .pingStart => n + 1 | .pingStop => n - 1 | _ => n) n

theorem liveFrom_eq (tr : Trace) : ∀ n, liveFrom n tr = n + live tr := by
  induction tr with
  | nil => intro n; simp [liveFrom, live]
  | cons x rest ih =>
    intro n
    have h1 : liveFrom n (x :: rest) = liveFrom (n + dLive x.2) rest := by
      simp only [liveFrom, List.foldl_cons]
      cases x.2 <;> simp [dLive] <;> rfl
    have h2 : live (x :: rest) = liveFrom (0 + dLive x.2) rest := by
      have : live (x :: rest) = liveFrom 0 (x :: rest) := rfl
      rw [this]
      simp only [liveFrom, List.foldl_cons]
      cases x.2 <;> simp [dLive] <;> rfl
    rw [h1, h2, ih, ih]; omega

theorem pingsFrom_eq (tr : Trace) : ∀ n, pingsFrom n tr = n + livePings tr := by
  induction tr with
  | nil => intro n; simp [pingsFrom, livePings]
  | cons x rest ih =>
    intro n
    have h1 : pingsFrom n (x :: rest) = pingsFrom (n + dPing x.2) rest := by
      simp only [pingsFrom, List.foldl_cons]
      cases x.2 <;> simp [dPing] <;> rfl
    have h2 : livePings (x :: rest) = pingsFrom (0 + dPing x.2) rest := by
      have : livePings (x :: rest) = pingsFrom 0 (x :: rest) := rfl
      rw [this]
      simp only [pingsFrom, List.foldl_cons]
      cases x.2 <;> simp [dPing] <;> rfl
    rw [h1, h2, ih, ih]; omega

theorem live_cons (x : Nat × Ev) (rest : Trace) : live (x :: rest) = dLive x.2 + live rest := by
  have : live (x :: rest) = liveFrom 0 (x :: rest) := rfl
  rw [this]
  have h1 : liveFrom 0 (x :: rest) = liveFrom (0 + dLive x.2) rest := by
    simp only [liveFrom, List.foldl_cons]
    cases x.2 <;> simp [dLive] <;> rfl
  rw [h1, liveFrom_eq]; omega

theorem livePings_cons (x : Nat × Ev) (rest : Trace) : livePings (x :: rest) = dPing x.2 + livePings rest := by
  have : livePings (x :: rest) = pingsFrom 0 (x :: rest) := rfl
  rw [this]
  have h1 : pingsFrom 0 (x :: rest) = pingsFrom (0 + dPing x.2) rest := by
    simp only [pingsFrom, List.foldl_cons]
    cases x.2 <;> simp [dPing] <;> rfl
  rw [h1, pingsFrom_eq]; omega

theorem live_append (a b : Trace) : live (a ++ b) = live a + live b := by
  induction a with
  | nil => simp [live]
  | cons x r ih => rw [List.cons_append, live_cons, live_cons, ih]; omega

theorem livePings_append (a b : Trace) : livePings (a ++ b) = livePings a + livePings b := by
  induction a with
  | nil => simp [livePings]
  | cons x r ih => rw [List.cons_append, livePings_cons, livePings_cons, ih]; omega

theorem rb_cons (x : Nat × Ev) (rest : Trace) (l p : Int) :
    resourcesBounded (x :: rest) l p =
      (decide (l + dLive x.2 ≤ 1) && decide (p + dPing x.2 ≤ 1) && resourcesBounded rest (l + dLive x.2) (p + dPing x.2)) := by
  obtain ⟨t, e⟩ := x
  cases e <;> simp [resourcesBounded, dLive, dPing, Int.sub_eq_add_neg] <;>
    (first | rfl | (congr 1; congr 1 <;> exact decide_eq_decide.mpr Iff.rfl))

theorem rb_append (a b : Trace) : ∀ (l p : Int),
    resourcesBounded (a ++ b) l p = (resourcesBounded a l p && resourcesBounded b (l + live a) (p + livePings a)) := by
  induction a with
  | nil => intro l p; simp [resourcesBounded, live, livePings]
  | cons x r ih =>
    intro l p
    rw [List.cons_append, rb_cons, rb_cons, ih, live_cons, livePings_cons]
    have e1 : l + dLive x.2 + live r = l + (dLive x.2 + live r) := by omega
    have e2 : p + dPing x.2 + livePings r = p + (dPing x.2 + livePings r) := by omega
    rw [e1, e2]; simp only [Bool.and_assoc]

/-- the trace's resource counts agree with the state, and every prefix is within bounds -/
structure RI (s : St) : Prop where
  bnd : resourcesBounded s.trace 0 0 = true
  lv : live s.trace = b2i (openSock s)
  pg : livePings s.trace = b2i s.ping.isSome

/-- one more event, and a new state whose socket / ping-thread status matches the new counts -/
theorem ri_step (s s' : St) (t : Nat) (e : Ev) (h : RI s) (htr : s'.trace = s.trace ++ [(t, e)])
    (hl : b2i (openSock s') = b2i (openSock s) + dLive e) (hp : b2i s'.ping.isSome = b2i s.ping.isSome + dPing e) :
    RI s' := by
  refine ⟨?_, ?_, ?_⟩
  · rw [htr, rb_append, h.bnd, Bool.true_and, rb_cons]
    simp only [resourcesBounded, Bool.and_true, Int.zero_add]
    have a1 : live s.trace + dLive e ≤ 1 := by rw [h.lv, ← hl]; unfold b2i; split <;> omega
    have a2 : livePings s.trace + dPing e ≤ 1 := by rw [h.pg, ← hp]; unfold b2i; split <;> omega
    simp [a1, a2]
  · rw [htr, live_append, live_cons, h.lv, hl]; simp [live]
  · rw [htr, livePings_append, livePings_cons, h.pg, hp]; simp [livePings]

/-- a state change that neither touches the trace nor the resource status -/
theorem ri_same (s s' : St) (h : RI s) (htr : s'.trace = s.trace) (hl : openSock s' = openSock s)
    (hp : s'.ping.isSome = s.ping.isSome) : RI s' :=
  ⟨by rw [htr]; exact h.bnd, by rw [htr, hl]; exact h.lv, by rw [htr, hp]; exact h.pg⟩

/-- an event that is not about resources -/
theorem ri_emit (s : St) (e : Ev) (h : RI s) (h1 : dLive e = 0) (h2 : dPing e = 0) : RI (s.emit e) :=
  ri_step s (s.emit e) s.now e h rfl (by simp [openSock, h1]) (by simp [h2])

end WS.Lemmas.App

namespace WS.Lemmas.App
open WS WS.Model.App
open WS.Spec.AppTrace (live livePings resourcesBounded)

theorem ri_same' (s s' : St) (h : RI s) (htr : s'.trace = s.trace) (hs : s'.sock = s.sock)
    (hp : s'.ping.isSome = s.ping.isSome) : RI s' :=
  ri_same s s' h htr (by simp [openSock, hs]) hp

def Neutral (l : Trace) : Prop := ∀ x ∈ l, dLive x.2 = 0 ∧ dPing x.2 = 0

theorem neutral_live : ∀ (l : Trace), Neutral l → live l = 0 := by
  intro l
  induction l with
  | nil => intro _; rfl
  | cons x r ih =>
    intro hn
    rw [live_cons, (hn x (by simp)).1, ih (fun y hy => hn y (by simp [hy]))]; rfl

theorem neutral_pings : ∀ (l : Trace), Neutral l → livePings l = 0 := by
  intro l
  induction l with
  | nil => intro _; rfl
  | cons x r ih =>
    intro hn
    rw [livePings_cons, (hn x (by simp)).2, ih (fun y hy => hn y (by simp [hy]))]; rfl

theorem neutral_rb : ∀ (l : Trace), Neutral l → ∀ (l0 p0 : Int), l0 ≤ 1 → p0 ≤ 1 → resourcesBounded l l0 p0 = true := by
  intro l
  induction l with
  | nil => intros; rfl
  | cons x r ih =>
    intro hn l0 p0 h1 h2
    rw [rb_cons, (hn x (by simp)).1, (hn x (by simp)).2]
    simp only [Int.add_zero]
    rw [ih (fun y hy => hn y (by simp [hy])) l0 p0 h1 h2]
    simp [h1, h2]

/-- neutral events only, socket and ping-thread status unchanged -/
theorem ri_neutral (s s' : St) (l : Trace) (h : RI s) (htr : s'.trace = s.trace ++ l)
    (hn : Neutral l) (hs : s'.sock = s.sock) (hp : s'.ping.isSome = s.ping.isSome) : RI s' := by
  refine ⟨?_, ?_, ?_⟩
  · rw [htr, rb_append, h.bnd, Bool.true_and]
    apply neutral_rb l hn
    · rw [h.lv]; unfold b2i; split <;> omega
    · rw [h.pg]; unfold b2i; split <;> omega
  · rw [htr, live_append, neutral_live l hn, h.lv]; simp [openSock, hs]
  · rw [htr, livePings_append, neutral_pings l hn, h.pg, hp]; simp

theorem ri_pingFire (c : Cfg) (s : St) (p : PingTh) (hp : s.ping = some p) (h : RI s) : RI (pingFire c s p) := by
  unfold pingFire
  simp only []
  split
  · refine ri_step s _ (max s.now p.wake) .pingStop h rfl (by simp [openSock, dLive]) ?_
    simp [hp, b2i, dPing]
  · split
    · exact ri_same' s _ h rfl rfl (by simp [hp])
    · split
      · split
        · exact ri_neutral s _ [(max s.now p.wake, .wrote Gen.opcodePing c.payload)] h (by simp [St.emit])
            (by intro x hx; simp at hx; subst hx; simp [dLive, dPing]) rfl (by simp [St.emit, hp])
        · exact ri_same' s _ h rfl rfl (by simp [hp])
      · exact ri_same' s _ h rfl rfl (by simp [hp])

theorem ri_advance (c : Cfg) : ∀ (n : Nat) (s : St) (t : Nat), RI s → RI (advance c n s t) := by
  intro n
  induction n with
  | zero => intro s t h; rw [advance]; exact ri_same' s _ h rfl rfl rfl
  | succ m ih =>
    intro s t h
    rw [advance]
    split
    · exact ri_same' s _ h rfl rfl rfl
    · rename_i p hp
      split
      · exact ih _ t (ri_pingFire c s p hp h)
      · split
        · split
          · rename_i rest hsc
            exact ih _ t (ri_pingFire c { s with sched := rest } p hp (ri_same' s _ h rfl rfl rfl))
          · exact ri_same' s _ h rfl rfl rfl
          · exact ri_same' s _ h rfl rfl rfl
        · exact ri_same' s _ h rfl rfl rfl

theorem ri_waitUntil (c : Cfg) (s : St) (t : Nat) (h : RI s) : RI (waitUntil c s t).1 := by
  unfold waitUntil
  split
  · exact ri_emit _ .blocked (ri_advance c _ _ _ (ri_same' s { s with sched := [] } h rfl rfl rfl)) rfl rfl
  · exact ri_advance c _ _ _ h

theorem ri_stopPing (s : St) (h : RI s) : RI (stopPing s) := by
  unfold stopPing
  cases hp : s.ping with
  | none => exact ri_same' s _ h rfl rfl (by simp [hp])
  | some p =>
    simp only []
    have h1 : RI (({ s with ping := none } : St).emit .pingStop) :=
      ri_step s _ s.now .pingStop h rfl (by simp [openSock, dLive]) (by simp [hp, b2i, dPing])
    exact ri_same' _ _ h1 rfl rfl rfl

theorem ri_closeTransport (s : St) (h : RI s) : RI (closeTransport s) := by
  unfold closeTransport
  cases hs : s.sock with
  | none => exact h
  | some w =>
    simp only []
    split
    · rename_i ho
      exact ri_step s _ s.now (.sockClosed w.idx) h rfl (by simp [openSock, hs, ho, b2i, dLive]) (by simp [dPing])
    · refine ri_same s _ h rfl ?_ rfl
      simp only [openSock, hs]

theorem ri_dropSock (s : St) (h : RI s) : RI (dropSock s) := by
  unfold dropSock
  cases hs : s.sock with
  | none => exact h
  | some w =>
    simp only []
    split
    · rename_i ho
      exact ri_step s _ s.now (.sockDropped w.idx) h rfl (by simp [openSock, hs, ho, b2i, dLive]) (by simp [dPing])
    · rename_i ho
      refine ri_same s _ h rfl ?_ rfl
      simp only [openSock, hs]
      simp at ho
      try simp [ho]

theorem closeTransport_open (s : St) : openSock (closeTransport s) = false := by
  unfold closeTransport
  cases hs : s.sock with
  | none => simp [openSock, hs]
  | some w => simp only []; split <;> simp_all [openSock, St.emit]

end WS.Lemmas.App

namespace WS.Lemmas.App
open WS WS.Model.App
open WS.Spec.AppTrace (live livePings resourcesBounded)

theorem ri_closeWait (c : Cfg) (start : Nat) : ∀ (evs : List TEv) (s : St), RI s → RI (closeWait c start evs s).1 := by
  intro evs
  induction evs with
  | nil =>
    intro s h
    rw [closeWait]
    split
    · exact ri_waitUntil c s _ h
    · exact h
  | cons e rest ih =>
    intro s h
    rw [closeWait]
    by_cases h1 : s.now - start < secs Gen.closeTimeoutDefault
    · simp only [h1, ↓reduceIte]
      by_cases h2 : s.arr + e.dt ≤ s.now + secs Gen.closeTimeoutDefault
      · simp only [h2, ↓reduceIte]
        have fw := ri_waitUntil c s (s.arr + e.dt) h
        rcases hw : waitUntil c s (s.arr + e.dt) with ⟨s1, ok⟩
        rw [hw] at fw
        simp only [] at fw ⊢
        cases ok with
        | false => simpa using fw
        | true =>
          simp only [Bool.not_true, Bool.false_eq_true, ↓reduceIte]
          have f2 : RI { s1 with evs := rest, arr := s.arr + e.dt } := ri_same' s1 _ fw rfl rfl rfl
          cases e.ev with
          | close b => exact f2
          | eof => exact ri_closeTransport _ f2
          | reset =>
            refine ri_same _ _ f2 rfl ?_ rfl
            simp only [openSock]
            cases s1.sock <;> rfl
          | protoError => exact f2
          | message op p f => exact ih _ f2
          | ping p => exact ih _ f2
          | pong p => exact ih _ f2
          | payloadError => exact ih _ f2
          | part => exact ih _ f2
      · simp only [h2, ↓reduceIte]
        exact ri_waitUntil c s _ h
    · simp only [h1, ↓reduceIte]
      exact h

theorem ri_wsClose (c : Cfg) (s : St) (h : RI s) : RI (wsClose c s).1 := by
  unfold wsClose
  cases hs : s.sock with
  | none => exact h
  | some w =>
    simp only []
    split
    · exact h
    · have f1 : RI { s with sock := some { w with connected := false } } := by
        refine ri_same s _ h rfl ?_ rfl
        simp [openSock, hs]
      split
      · have f2 := ri_emit _ (.wrote Gen.opcodeClose (beN 2 Gen.statusNormal)) f1 rfl rfl
        have f3 := ri_closeWait c
          (({ s with sock := some { w with connected := false } } : St).emit (.wrote Gen.opcodeClose (beN 2 Gen.statusNormal))).now
          (({ s with sock := some { w with connected := false } } : St).emit (.wrote Gen.opcodeClose (beN 2 Gen.statusNormal))).evs
          _ f2
        rcases hcw : closeWait c _ _ _ with ⟨s2, ok⟩
        rw [hcw] at f3
        simp only [] at f3 ⊢
        cases ok with
        | false => exact f3
        | true => exact ri_closeTransport _ f3
      · exact ri_closeTransport _ f1

theorem ri_closeSock (c : Cfg) (s : St) (h : RI s) : RI (closeSock c s).1 := by
  unfold closeSock
  split
  · exact h
  · have f1 := ri_wsClose c s h
    rcases hw : wsClose c s with ⟨s1, ok⟩
    rw [hw] at f1
    simp only [] at f1 ⊢
    cases ok with
    | false => simpa using f1
    | true => simpa using ri_dropSock s1 f1

theorem ri_appClose (c : Cfg) (s : St) (h : RI s) : RI (appClose c s).1 := by
  unfold appClose
  exact ri_closeSock c _ (ri_same' s _ h rfl rfl rfl)

theorem ri_rawCall (c : Cfg) (s : St) (cb : Cb) (args : List Arg) (h : RI s) : RI (rawCall c s cb args).1 := by
  have h1 : RI { s with calls := bump s.calls cb, trace := s.trace ++ [(s.now, .cb cb args)] } :=
    ri_neutral s _ [(s.now, .cb cb args)] h rfl (by intro x hx; simp at hx; subst hx; simp [dLive, dPing]) rfl rfl
  cases ha : c.act cb (s.calls cb) with
  | ok => rw [rawCall_ok c s cb args ha]; exact h1
  | raise => rw [rawCall_raise c s cb args ha]; exact h1
  | ki => rw [rawCall_ki c s cb args ha]; exact h1
  | close => rw [rawCall_close c s cb args ha]; exact ri_appClose c _ h1

theorem ri_callback (c : Cfg) (s : St) (cb : Cb) (args : List Arg) (h : RI s) : RI (callback c s cb args).1 := by
  unfold callback
  split
  · exact h
  · have z1 := ri_rawCall c s cb args h
    split
    · rename_i s1 heq; rw [heq] at z1; exact z1
    · rename_i s1 e hne heq
      rw [heq] at z1
      split
      · exact ri_rawCall c s1 _ _ z1
      · exact z1
    · exact z1

/-- resource accounting plus: once teardown has begun the loop condition is off -/
structure RJ (s : St) : Prop where
  ri : RI s
  hk : s.hasDoneTeardown = true → s.keepRunning = false

theorem rj_of (s s' : St) (h : RJ s) (hdt : s'.hasDoneTeardown = s.hasDoneTeardown)
    (hkr : s'.keepRunning = true → s.keepRunning = true) (hri : RI s') : RJ s' :=
  ⟨hri, fun hd => by
    cases hk : s'.keepRunning with
    | false => rfl
    | true => have := h.hk (by rw [← hdt]; exact hd); rw [hkr hk] at this; cases this⟩

theorem rj_mono (s s' : St) (h : RJ s) (m : Mono s s') (hri : RI s') : RJ s' := rj_of s s' h m.hdt m.kr hri

theorem rj_callback (c : Cfg) (s : St) (cb : Cb) (args : List Arg) (h : RJ s) : RJ (callback c s cb args).1 :=
  rj_mono s _ h (callback_spec c s cb args).1 (ri_callback c s cb args h.ri)

theorem rj_frame (s s' : St) (h : RJ s) (f : Frame s s') (hri : RI s') : RJ s' :=
  rj_mono s s' h f.mono hri

/-- teardown: accounting kept; it returns normally only with the loop condition off; no ping thread afterwards
    if there was none or teardown really ran -/
theorem rj_teardown (c : Cfg) (s : St) (frame : Option Bytes) (h : RJ s) :
    RJ (teardown c s frame).1 ∧ ((teardown c s frame).2 = .ok () → (teardown c s frame).1.keepRunning = false) ∧
    (s.ping = none → (teardown c s frame).1.ping = none) := by
  unfold teardown
  simp only [gen_guard, Bool.true_and, gen_tdStops, ↓reduceIte]
  by_cases hd : s.hasDoneTeardown = true
  · simp only [hd, ↓reduceIte]
    exact ⟨h, fun _ => h.hk hd, id⟩
  · simp only [hd, Bool.false_eq_true, ↓reduceIte]
    have r1 : RI (stopPing { s with hasDoneTeardown := true }) := ri_stopPing _ (ri_same' s _ h.ri rfl rfl rfl)
    have p1 := stopPing_ping { s with hasDoneTeardown := true }
    have k0 : ∀ x : St, x.keepRunning = false → x.hasDoneTeardown = true → RI x → RJ x :=
      fun x hk _ hr => ⟨hr, fun _ => hk⟩
    generalize stopPing { s with hasDoneTeardown := true } = s1 at r1 p1 ⊢
    have r2 := ri_wsClose c { s1 with keepRunning := false } (ri_same' s1 _ r1 rfl rfl rfl)
    have f2 := frame_wsClose c { s1 with keepRunning := false }
    rcases hw : wsClose c { s1 with keepRunning := false } with ⟨s2, ok⟩
    rw [hw] at r2 f2
    simp only [] at r2 f2 ⊢
    cases ok with
    | false =>
      refine ⟨⟨r2, fun _ => by simp only [Bool.not_false, ↓reduceIte]; rw [f2.kr]⟩, by simp,
        fun _ => f2.pn (by simpa using p1)⟩
    | true =>
      simp only [Bool.not_true, Bool.false_eq_true, ↓reduceIte]
      have r3 := ri_dropSock s2 r2
      have f3 := frame_dropSock s2
      have r4 := ri_callback c (dropSock s2) .onClose (closeArgs c frame) r3
      have m4 := (callback_spec c (dropSock s2) .onClose (closeArgs c frame)).1
      have hkr : (callback c (dropSock s2) .onClose (closeArgs c frame)).1.keepRunning = false := by
        cases hk : (callback c (dropSock s2) .onClose (closeArgs c frame)).1.keepRunning with
        | false => rfl
        | true => have := m4.kr hk; rw [f3.kr, f2.kr] at this; simp at this
      exact ⟨⟨r4, fun _ => hkr⟩, fun _ => hkr, fun _ => m4.pn (f3.pn (f2.pn (by simpa using p1)))⟩

end WS.Lemmas.App

namespace WS.Lemmas.App
open WS WS.Model.App
open WS.Spec.AppTrace (live livePings resourcesBounded)

theorem rj_handleDisconnectBody (c : Cfg) (s : St) (e : AExn) (rc : Bool) (h : RJ s) :
    RJ (handleDisconnectBody c s e rc).1 ∧ (handleDisconnectBody c s e rc).1.ping = none := by
  unfold handleDisconnectBody
  simp only [gen_dcErr, gen_dcStops, ↓reduceIte]
  have r1 : RJ (stopPing { s with hasErrored := true }) :=
    rj_of s _ h (frame_stopPing _).hdt (fun hk => by rw [(frame_stopPing _).kr] at hk; exact hk)
      (ri_stopPing _ (ri_same' s _ h.ri rfl rfl rfl))
  have p1 := stopPing_ping { s with hasErrored := true }
  generalize stopPing { s with hasErrored := true } = s1 at r1 p1 ⊢
  have key : ∀ s2 : St, RJ s2 → s2.ping = none → RJ (afterReport c s2 e).1 ∧ (afterReport c s2 e).1.ping = none := by
    intro s2 h2 p2
    unfold afterReport
    obtain ⟨t1, _, t3⟩ := rj_teardown c s2 none h2
    split
    · rcases hx : teardown c s2 none with ⟨s3, r3⟩
      rw [hx] at t1 t3
      cases r3 with
      | ok u => exact ⟨t1, t3 p2⟩
      | exc x => exact ⟨t1, t3 p2⟩
      | halt => exact ⟨t1, t3 p2⟩
    · split
      · exact ⟨h2, p2⟩
      · exact ⟨t1, t3 p2⟩
  cases rc with
  | true =>
    simp only [Bool.not_true, Bool.false_eq_true, ↓reduceIte]
    exact key s1 r1 p1
  | false =>
    simp only [Bool.not_false, ↓reduceIte]
    have r2 := rj_callback c s1 .onError [.exn e] r1
    have m2 := (callback_spec c s1 .onError [.exn e]).1
    rcases hx : callback c s1 .onError [.exn e] with ⟨s2, r⟩
    rw [hx] at r2 m2
    simp only [] at r2 m2 ⊢
    cases r with
    | exc x => exact ⟨r2, m2.pn p1⟩
    | halt => exact ⟨r2, m2.pn p1⟩
    | ok u => cases u; exact key s2 r2 (m2.pn p1)

end WS.Lemmas.App

namespace WS.Lemmas.App
open WS WS.Model.App
open WS.Spec.AppTrace (live livePings resourcesBounded)

/-- for functions that implement `read()`: accounting kept; a falsy return value means the loop condition is off -/
abbrev ReadRJ (x : St × R Bool) : Prop := RJ x.1 ∧ (x.2 = .ok false → x.1.keepRunning = false)


/-- handleDisconnect keeps the resource accounting; when it returns normally with the loop still wanted, the ping thread is
    gone (either the body ran, which stops it first, or — application closed — teardown ran, and then the loop is off). -/
theorem rj_handleDisconnect (c : Cfg) (s : St) (e : AExn) (rc : Bool) (h : RJ s) :
    RJ (handleDisconnect c s e rc).1 ∧
    ((handleDisconnect c s e rc).2 = .ok () → (handleDisconnect c s e rc).1.keepRunning = true →
      (handleDisconnect c s e rc).1.ping = none) := by
  unfold handleDisconnect
  split
  · obtain ⟨t1, t2, _⟩ := rj_teardown c s none h
    refine ⟨t1, fun hok hk => ?_⟩
    rw [t2 hok] at hk; cases hk
  · exact ⟨(rj_handleDisconnectBody c s e rc h).1, fun _ _ => (rj_handleDisconnectBody c s e rc h).2⟩

theorem rj_asRead_true (x : St × R Unit) (h : RJ x.1) : ReadRJ (asRead true x) := by
  refine ⟨by simpa using h, fun hr => ?_⟩
  rw [asRead_ok] at hr
  cases hr.2

theorem rj_deliver (c : Cfg) (s : St) (op : Nat) (p : Bytes) (frag : Bool) (h : RJ s) :
    RJ (deliverMessage c s op p frag).1 := by
  unfold deliverMessage
  simp only [gen_msgOpcode, gen_dataFirst, ↓reduceIte]
  have r1 := rj_callback c s .onData [dataArg op p, .int op, .bool true] h
  rcases hx : callback c s .onData [dataArg op p, .int op, .bool true] with ⟨s1, r⟩
  rw [hx] at r1
  cases r with
  | ok u => cases u; exact rj_callback c s1 _ _ r1
  | exc e => exact r1
  | halt => exact r1

theorem rj_handleEv (c : Cfg) (s : St) (ev : SrvEv) (h : RJ s) : ReadRJ (handleEv c s ev) := by
  cases ev with
  | part => exact ⟨h, by simp [handleEv]⟩
  | message op p frag => exact rj_asRead_true _ (rj_deliver c s op p frag h)
  | ping p =>
    simp only [handleEv]
    refine rj_asRead_true _ (rj_callback c _ _ _ ?_)
    split
    · exact rj_frame s _ h (frame_emit _ _ (by intros; simp)) (ri_emit s _ h.ri rfl rfl)
    · exact h
  | pong p =>
    simp only [handleEv]
    exact rj_asRead_true _ (rj_callback c _ _ _ (rj_of s _ h rfl id (ri_same' s _ h.ri rfl rfl rfl)))
  | close body =>
    simp only [handleEv, gen_closeToTeardown, ↓reduceIte]
    have h1 : RJ { s with sock := s.sock.map fun (w : WSock) => { w with connected := false } } := by
      refine rj_of s _ h rfl id (ri_same s _ h.ri rfl ?_ rfl)
      simp only [openSock]
      cases s.sock <;> rfl
    have h2 : RJ (if ({ s with sock := s.sock.map fun (w : WSock) => { w with connected := false } } : St).writable = true
        then ({ s with sock := s.sock.map fun (w : WSock) => { w with connected := false } } : St).emit
          (.wrote Gen.opcodeClose (beN 2 Gen.statusNormal))
        else { s with sock := s.sock.map fun (w : WSock) => { w with connected := false } }) := by
      split
      · exact rj_frame _ _ h1 (frame_emit _ _ (by intros; simp)) (ri_emit _ _ h1.ri rfl rfl)
      · exact h1
    obtain ⟨t1, t2, _⟩ := rj_teardown c _ (some body) h2
    refine ⟨by simpa using t1, fun hr => ?_⟩
    rw [asRead_ok] at hr
    simpa using t2 hr.1
  | eof =>
    exact ⟨rj_frame s _ h (frame_closeTransport s) (ri_closeTransport s h.ri), by simp [handleEv]⟩
  | reset =>
    refine ⟨rj_of s _ h rfl id (ri_same s _ h.ri rfl ?_ rfl), by simp [handleEv]⟩
    simp only [handleEv, openSock]
    cases s.sock <;> rfl
  | protoError => exact ⟨h, by simp [handleEv]⟩
  | payloadError => exact ⟨h, by simp [handleEv]⟩

theorem rj_readEvents (c : Cfg) : ∀ (evs : List TEv) (s : St), RJ s → ReadRJ (readEvents c evs s) := by
  intro evs
  induction evs with
  | nil =>
    intro s h
    rw [readEvents]
    exact ⟨rj_frame s _ h (frame_waitUntil c s _) (ri_waitUntil c s _ h.ri), by simp⟩
  | cons e rest ih =>
    intro s h
    rw [readEvents]
    simp only []
    have fw : RJ (if s.arr + e.dt ≤ s.now then (s, true) else waitUntil c s (s.arr + e.dt)).1 := by
      split
      · exact h
      · exact rj_frame s _ h (frame_waitUntil c s _) (ri_waitUntil c s _ h.ri)
    rcases hw : (if s.arr + e.dt ≤ s.now then (s, true) else waitUntil c s (s.arr + e.dt)) with ⟨s1, ok⟩
    rw [hw] at fw
    simp only [] at fw ⊢
    cases ok with
    | false => exact ⟨fw, by simp⟩
    | true =>
      simp only [Bool.not_true, Bool.false_eq_true, ↓reduceIte]
      have h2 : RJ { s1 with evs := rest, arr := s.arr + e.dt } := rj_of s1 _ fw rfl id (ri_same' s1 _ fw.ri rfl rfl rfl)
      split
      · exact ih _ h2
      · exact rj_handleEv c _ _ h2

theorem rj_read (c : Cfg) (s : St) (h : RJ s) : ReadRJ (Model.App.read c s) := by
  unfold Model.App.read
  split
  · obtain ⟨t1, t2, _⟩ := rj_teardown c s none h
    refine ⟨by simpa using t1, fun hr => ?_⟩
    rw [asRead_ok] at hr
    simpa using t2 hr.1
  · split
    · exact ⟨h, by simp⟩
    · exact rj_readEvents c s.evs s h

/-- for the dispatcher loop: accounting kept; a normal return means the loop condition is off -/
abbrev LoopRJ (x : St × R Unit) : Prop := RJ x.1 ∧ (x.2 = .ok () → x.1.keepRunning = false)

theorem rj_afterRead (c : Cfg) (k : St → St × R Unit) (x : St × R Bool) (hx : ReadRJ x)
    (hk : ∀ s1, RJ s1 → LoopRJ (k s1)) : LoopRJ (afterRead c k x) := by
  rcases x with ⟨s, r⟩
  obtain ⟨h1, h2⟩ := hx
  unfold afterRead
  cases r with
  | exc e => exact ⟨h1, by simp⟩
  | halt => exact ⟨h1, by simp⟩
  | ok b =>
    cases b with
    | false => exact ⟨h1, fun _ => h2 rfl⟩
    | true =>
      simp only []
      split
      · exact ⟨h1, by simp⟩
      · exact hk s h1

theorem rj_dispLoop (c : Cfg) : ∀ (n : Nat) (s : St), RJ s → LoopRJ (dispLoop c n s) := by
  intro n
  induction n with
  | zero =>
    intro s h
    exact ⟨rj_frame s _ h (frame_emit _ _ (by intros; simp)) (ri_emit s _ h.ri rfl rfl), by simp [dispLoop]⟩
  | succ m ih =>
    intro s h
    rw [dispLoop]
    split
    · rename_i hk
      exact ⟨h, fun _ => by simpa using hk⟩
    · split
      · exact ⟨h, by simp⟩
      · have fs := frame_select c s
        have rs : RI (select c s).1 := by
          unfold select
          split
          · exact h.ri
          · split
            · exact h.ri
            · simp only []
              generalize hw : waitUntil c s _ = x
              have f : RI x.1 := by rw [← hw]; exact ri_waitUntil c s _ h.ri
              rcases x with ⟨s1, ok⟩
              cases ok <;> simpa using f
        rcases hsel : select c s with ⟨s1, rd⟩
        rw [hsel] at fs rs
        simp only [] at fs rs ⊢
        have h1 : RJ s1 := rj_frame s s1 h fs rs
        cases rd with
        | none => exact ⟨h1, by simp⟩
        | some ready =>
          simp only []
          refine rj_afterRead c (dispLoop c m) _ ?_ ih
          cases ready with
          | true => simpa using rj_read c s1 h1
          | false => exact ⟨h1, by simp⟩

end WS.Lemmas.App

namespace WS.Lemmas.App
open WS WS.Model.App
open WS.Spec.AppTrace (live livePings resourcesBounded)

/-- a socket that is opened and closed at once (refused / rejected dial) -/
theorem ri_two (s s' : St) (t i : Nat) (h : RI s) (hno : openSock s = false)
    (htr : s'.trace = s.trace ++ [(t, .dial i), (t, .sockClosed i)]) (ho : openSock s' = false)
    (hp : s'.ping.isSome = s.ping.isSome) : RI s' := by
  have hb : live s.trace = 0 := by rw [h.lv, hno]; rfl
  refine ⟨?_, ?_, ?_⟩
  · rw [htr, rb_append, h.bnd, Bool.true_and, rb_cons, rb_cons, hb]
    have hpg : livePings s.trace ≤ 1 := by rw [h.pg]; unfold b2i; split <;> omega
    simp [resourcesBounded, dLive, dPing, hpg]
  · rw [htr, live_append, live_cons, live_cons, hb, ho]; simp [live, dLive, b2i]
  · rw [htr, livePings_append, livePings_cons, livePings_cons, h.pg, hp]; simp [livePings, dPing]

/-- a dial when no transport is open -/
theorem ri_connect (s : St) (h : RI s) (hno : openSock s = false) : RI (connect s).1 := by
  unfold connect
  cases hdl : s.dials with
  | nil =>
    exact ri_two s _ s.now s.nextIdx h hno (by simp [St.emit]) (by simp [openSock, St.emit]) (by simp [St.emit])
  | cons d ds =>
    cases d with
    | refused =>
      exact ri_two s _ s.now s.nextIdx h hno (by simp [St.emit]) (by simp [openSock, St.emit]) (by simp [St.emit])
    | rejected st =>
      exact ri_two s _ s.now s.nextIdx h hno (by simp [St.emit]) (by simp [openSock, St.emit]) (by simp [St.emit])
    | established evs =>
      refine ri_step s _ s.now (.dial s.nextIdx) h (by simp [St.emit]) ?_ (by simp [dPing, St.emit])
      rw [hno]; simp [openSock, b2i, dLive]

theorem ri_startPing (c : Cfg) (s : St) (h : RI s) (hp : s.ping = none) : RI (startPing c s) := by
  unfold startPing
  exact ri_step s _ s.now .pingStart h (by simp [St.emit]) (by simp [openSock, dLive, St.emit])
    (by simp [hp, b2i, dPing, St.emit])

theorem release_open (s : St) (rc : Bool) (h : rc = false → openSock s = false) : openSock (release s rc) = false := by
  unfold release
  cases rc with
  | false => simpa using h rfl
  | true =>
    simp only [↓reduceIte]
    split
    · exact closeTransport_open s
    · rename_i hs; simp [openSock, hs]

/-- `setSock`: entered without a ping thread (and, for the first call, without a transport): accounting
    kept; it returns normally with the loop condition still on only after the ping thread was stopped -/
theorem rj_setSock (c : Cfg) (s : St) (rc : Bool) (h : RJ s) (hp : s.ping = none)
    (hno : rc = false → openSock s = false) :
    RJ (setSock c s rc).1 ∧
    ((setSock c s rc).2 = .ok () → (setSock c s rc).1.keepRunning = true → (setSock c s rc).1.ping = none) := by
  unfold setSock
  have f0 : Frame s (release s rc) := by
    unfold release
    split
    · split
      · exact frame_closeTransport s
      · exact Frame.refl s
    · exact Frame.refl s
  have r0 : RI (release s rc) := by
    unfold release
    split
    · split
      · exact ri_closeTransport s h.ri
      · exact h.ri
    · exact h.ri
  have o0 := release_open s rc hno
  have j0 : RJ (release s rc) := rj_frame s _ h f0 r0
  have p0 : (release s rc).ping = none := f0.pn hp
  generalize release s rc = s0 at j0 o0 p0 ⊢
  have r1 := ri_connect s0 j0.ri o0
  obtain ⟨k1, _, k3, _, k5, _, _, _⟩ := connect_spec s0
  have j1 : RJ (connect s0).1 := rj_of s0 _ j0 k1 (fun hk => by rw [k3] at hk; exact hk) r1
  rcases hcn : connect s0 with ⟨s1, r⟩
  rw [hcn] at j1 k5
  try simp only [] at j1 k5 ⊢
  have viaHD : ∀ (s2 : St) (e : AExn), RJ s2 →
      RJ (handleDisconnect c s2 e rc).1 ∧
      ((handleDisconnect c s2 e rc).2 = .ok () → (handleDisconnect c s2 e rc).1.keepRunning = true →
        (handleDisconnect c s2 e rc).1.ping = none) := fun s2 e h2 =>
    rj_handleDisconnect c s2 e rc h2
  unfold afterConnect
  cases r with
  | halt => exact ⟨j1, by simp⟩
  | exc e => exact viaHD s1 e j1
  | ok u =>
    cases u
    try simp only []
    have j2 : RJ (if c.iv ≠ 0 then startPing c s1 else s1) := by
      split
      · refine rj_of s1 _ j1 (startPing_spec c s1).1 (fun hk => by rw [(startPing_spec c s1).2.2.1] at hk; exact hk) ?_
        exact ri_startPing c s1 j1.ri (by rw [k5]; exact p0)
      · exact j1
    generalize (if c.iv ≠ 0 then startPing c s1 else s1) = s2 at j2 ⊢
    have j3 := rj_callback c s2 (openCb c rc) [] j2
    rcases hcb : callback c s2 (openCb c rc) [] with ⟨s3, r3⟩
    rw [hcb] at j3
    try simp only [] at j3
    unfold afterOpen
    cases r3 with
    | halt => exact ⟨j3, by simp⟩
    | exc e => exact viaHD s3 e j3
    | ok u =>
      cases u
      try simp only []
      split
      · exact viaHD s3 .attrError j3
      · unfold afterLoop
        obtain ⟨l1, l2⟩ := rj_dispLoop c c.fuel s3 j3
        rcases hdl : dispLoop c c.fuel s3 with ⟨s4, r4⟩
        rw [hdl] at l1 l2
        try simp only [] at l1 l2 ⊢
        cases r4 with
        | halt => exact ⟨l1, by simp⟩
        | exc e => exact viaHD s4 e l1
        | ok u => exact ⟨l1, fun _ hk => by rw [l2 rfl] at hk; cases hk⟩

theorem rj_reconnectLoop (c : Cfg) : ∀ (n : Nat) (s : St), RJ s → (s.keepRunning = true → s.ping = none) →
    RJ (reconnectLoop c n s).1 := by
  intro n
  induction n with
  | zero =>
    intro s h _
    exact rj_frame s _ h (frame_emit _ _ (by intros; simp)) (ri_emit s _ h.ri rfl rfl)
  | succ m ih =>
    intro s h hp
    rw [reconnectLoop]
    by_cases hk : s.keepRunning = true
    · simp only [hk, Bool.not_true, Bool.false_eq_true, ↓reduceIte]
      have f1 := frame_emit s (.sleep c.reconnect) (by intros; simp)
      have j1 : RJ (s.emit (.sleep c.reconnect)) := rj_frame s _ h f1 (ri_emit s _ h.ri rfl rfl)
      have f2 := frame_waitUntil c (s.emit (.sleep c.reconnect)) ((s.emit (.sleep c.reconnect)).now + c.reconnect)
      have r2 := ri_waitUntil c (s.emit (.sleep c.reconnect)) ((s.emit (.sleep c.reconnect)).now + c.reconnect) j1.ri
      rcases hw : waitUntil c (s.emit (.sleep c.reconnect)) ((s.emit (.sleep c.reconnect)).now + c.reconnect) with ⟨s2, ok⟩
      rw [hw] at f2 r2
      try simp only [] at f2 r2 ⊢
      have j2 : RJ s2 := rj_frame _ _ j1 f2 r2
      cases ok with
      | false => exact j2
      | true =>
        simp only [Bool.not_true, Bool.false_eq_true, ↓reduceIte]
        obtain ⟨q1, q2⟩ := rj_setSock c s2 true j2 (f2.pn (f1.pn (hp hk))) (fun hh => by cases hh)
        rcases hss : setSock c s2 true with ⟨s3, r3⟩
        rw [hss] at q1 q2
        try simp only [] at q1 q2
        unfold rlNext
        cases r3 with
        | halt => exact q1
        | exc e => exact q1
        | ok u => cases u; exact ih s3 q1 (q2 rfl)
    · simp only [hk, Bool.not_false, ↓reduceIte]
      exact h

theorem rj_afterBody (c : Cfg) (x : St × R Unit) (h : RJ x.1) : RJ (afterBody c x).1 := by
  rcases x with ⟨s1, r1⟩
  unfold afterBody
  simp only [gen_finally, ↓reduceIte]
  have t := fun s (hs : RJ s) => (rj_teardown c s none hs).1
  cases r1 with
  | halt => exact h
  | ok u => cases u; exact t s1 h
  | exc e =>
    try simp only []
    have t1 := t s1 h
    rcases hx : teardown c s1 none with ⟨s2, r2⟩
    rw [hx] at t1
    try simp only [] at t1 ⊢
    cases r2 with
    | halt => exact t1
    | ok u => cases u; exact t s2 t1
    | exc e2 =>
      try simp only []
      have t2 := t s2 t1
      rcases hy : teardown c s2 none with ⟨s3, r3⟩
      rw [hy] at t2
      cases r3 with
      | halt => exact t2
      | ok u => cases u; exact t2
      | exc e3 => exact t2

theorem rj_runBody (c : Cfg) (s : St) (h : RJ s) (hp : s.ping = none) (hno : openSock s = false) :
    RJ (runBody c s).1 := by
  unfold runBody
  apply rj_afterBody
  unfold firstStage
  obtain ⟨q1, q2⟩ := rj_setSock c s false h hp (fun _ => hno)
  rcases hss : setSock c s false with ⟨s1, r1⟩
  rw [hss] at q1 q2
  try simp only [] at q1 q2 ⊢
  cases r1 with
  | halt => exact q1
  | exc e => exact q1
  | ok u =>
    cases u
    try simp only []
    split
    · exact rj_reconnectLoop c c.fuel s1 q1 (q2 rfl)
    · exact q1

/-- **resources, whole run** — entered with consistent accounting, no socket and no ping thread, every
    call of run_forever leaves a trace in which no prefix has more than one open transport or more than one
    live ping thread, and the accounting is consistent again at the end. -/
theorem ri_runForever (c : Cfg) (s0 : St) (h : RI s0) (hs : s0.sock = none) (hp : s0.ping = none) :
    RI (runForever c s0) := by
  unfold runForever runForeverO
  split
  · exact ri_emit s0 _ h rfl rfl
  · split
    · exact ri_emit s0 _ h rfl rfl
    · have j0 : RJ (prologue s0) := ⟨ri_same' s0 _ h rfl rfl rfl, fun hd => by simp [prologue] at hd⟩
      have jb := rj_runBody c (prologue s0) j0 (by simpa [prologue] using hp) (by simp [openSock, prologue, hs])
      rcases hrb : runBody c (prologue s0) with ⟨s1, r1⟩
      rw [hrb] at jb
      try simp only [] at jb ⊢
      cases r1 with
      | halt => exact jb.ri
      | ok u => cases u; exact ri_emit s1 _ jb.ri rfl rfl
      | exc e => exact ri_emit s1 _ jb.ri rfl rfl

end WS.Lemmas.App
