/-
  WS.Lemmas.Keepalive — lemmas about WS.Model.Keepalive: the ping thread's wake-ups, the select loop.
-/
import WS.Model.Keepalive
namespace WS.Lemmas.Keepalive
open WS.Model.Keepalive

/-- no ping is due before (or at) `t`: the main loop's sleep changes nothing -/
theorem advance_noop (iv n : Nat) (s : St) (t : Nat) (h : t < s.wake) : advance iv n s t = s := by
  cases n with
  | zero => rfl
  | succ m =>
    rw [advance]
    have h1 : ¬ s.wake < t := by omega
    have h2 : ¬ s.wake = t := by omega
    simp [h1, h2]

/-- generated facts: an unanswered ping keeps its time stamp; only the answer to the outstanding ping is timed. -/
@[simp] theorem gen_pingStamp : Gen.appPingStampWhenAnswered = true := by decide
@[simp] theorem gen_pongStamp : Gen.appPongStampWhenOutstanding = true := by decide

/-- what the ping thread leaves alone while a ping is unanswered: both stamps (further pings do not move
    `last_ping_tm`), the main loop's clock and the arrivals. -/
theorem fire_unanswered (iv : Nat) (s : St) (hf : s.first = false) (hu : s.lastPong < s.lastPing) :
    (fire iv s).lastPing = s.lastPing ∧ (fire iv s).lastPong = s.lastPong ∧ (fire iv s).now = s.now ∧
    (fire iv s).arr = s.arr ∧ (fire iv s).first = false := by
  simp [fire, hf, hu]

theorem advance_unanswered (iv : Nat) : ∀ (n : Nat) (s : St) (t : Nat), s.first = false → s.lastPong < s.lastPing →
    (advance iv n s t).lastPing = s.lastPing ∧ (advance iv n s t).lastPong = s.lastPong ∧
    (advance iv n s t).now = s.now ∧ (advance iv n s t).arr = s.arr ∧ (advance iv n s t).first = false := by
  intro n
  induction n with
  | zero => intro s t hf _; exact ⟨rfl, rfl, rfl, rfl, hf⟩
  | succ m ih =>
    intro s t hf hu
    rw [advance]
    split
    · obtain ⟨f1, f2, f3, f4, f5⟩ := fire_unanswered iv s hf hu
      obtain ⟨a1, a2, a3, a4, a5⟩ := ih (fire iv s) t f5 (by rw [f1, f2]; exact hu)
      exact ⟨a1.trans f1, a2.trans f2, a3.trans f3, a4.trans f4, a5⟩
    · split
      · split
        · exact fire_unanswered iv { s with sched := _ } hf hu
        · exact ⟨rfl, rfl, rfl, rfl, hf⟩
        · exact ⟨rfl, rfl, rfl, rfl, hf⟩
      · exact ⟨rfl, rfl, rfl, rfl, hf⟩

theorem target_le (to : Nat) (s : St) : target to s ≤ s.now + to := by
  unfold target
  split
  · split <;> omega
  · omega

theorem target_ge (to : Nat) (s : St) : s.now ≤ target to s := by
  unfold target
  split
  · split <;> omega
  · omega

/-- arrivals are only data frames (the peer has stopped answering) -/
def Silent (arr : List (Nat × Kind)) : Prop := ∀ x ∈ arr, x.2 = .data

theorem consume_silent (s : St) (h : Silent s.arr) :
    (consume s).lastPing = s.lastPing ∧ (consume s).lastPong = s.lastPong ∧ (consume s).now = s.now ∧
    (consume s).wake = s.wake ∧ (consume s).first = s.first ∧ Silent (consume s).arr ∧
    (consume s).arr.length ≤ s.arr.length ∧ (consume s).pings = s.pings := by
  unfold consume
  cases harr : s.arr with
  | nil => exact ⟨rfl, rfl, rfl, rfl, rfl, by rw [harr] at h; simpa [harr] using h, by simp [harr], rfl⟩
  | cons x rest =>
    obtain ⟨a, k⟩ := x
    have hk : k = .data := h (a, k) (by simp [harr])
    have hr : Silent rest := fun y hy => h y (by simp [harr, hy])
    subst hk
    simp only []
    split
    · exact ⟨rfl, rfl, rfl, rfl, rfl, hr, by simp, rfl⟩
    · exact ⟨rfl, rfl, rfl, rfl, rfl, by simpa [harr] using h, by simp [harr], rfl⟩

/-- which arrivals `consume` leaves depends on the arrivals and the clock only -/
theorem consume_arr_congr (s s' : St) (ha : s.arr = s'.arr) (hn : s.now = s'.now) :
    (consume s).arr = (consume s').arr := by
  unfold consume
  rw [← ha, ← hn]
  cases harr : s.arr with
  | nil => simpa [harr] using ha
  | cons x rest =>
    obtain ⟨a, k⟩ := x
    simp only []
    split
    · cases k <;> rfl
    · exact ha

theorem consume_ready_length (s : St) (h : ready s = true) : (consume s).arr.length + 1 = s.arr.length := by
  unfold ready at h
  unfold consume
  cases harr : s.arr with
  | nil => simp [harr] at h
  | cons x rest =>
    obtain ⟨a, k⟩ := x
    simp only [harr, decide_eq_true_eq] at h
    simp only [h, ↓reduceIte]
    cases k <;> simp

end WS.Lemmas.Keepalive

namespace WS.Lemmas.Keepalive
open WS.Model.Keepalive

/-- progress of a blocking iteration inside the window: an arrival is consumed, or a full time-out passes
    that started exactly at `T` -/
theorem step_measure (to T : Nat) (s : St) (hto : 0 < to) (hr : ready s = false) (hlo : T ≤ s.now)
    (hnl : target to s ≤ T + to) :
    (consume { s with now := target to s }).arr.length + (if target to s ≤ T then 1 else 0) <
      s.arr.length + (if s.now ≤ T then 1 else 0) := by
  cases harr : s.arr with
  | nil =>
    have ht : target to s = s.now + to := by simp [target, harr]
    rw [ht] at hnl ⊢
    have hn : s.now = T := by omega
    have h1 : ¬ (s.now + to ≤ T) := by omega
    simp [consume, harr, h1, hn]
    omega
  | cons x rest =>
    obtain ⟨a, k⟩ := x
    have hna : s.now < a := by
      simp only [ready, harr, decide_eq_false_iff_not, Nat.not_le] at hr; exact hr
    by_cases hsoon : a ≤ s.now + to
    · have ht : target to s = a := by
        simp only [target, harr, hsoon, ↓reduceIte]; omega
      rw [ht]
      have h1 : ¬ (a ≤ T) := by omega
      cases k <;> simp [consume, harr, h1] <;> omega
    · have ht : target to s = s.now + to := by simp [target, harr, hsoon]
      rw [ht] at hnl ⊢
      have hn : s.now = T := by omega
      have h1 : ¬ (s.now + to ≤ T) := by omega
      have h2 : ¬ (a ≤ T + to) := by omega
      have h3 : ¬ (T + to ≤ T) := by omega
      subst hn
      simp [consume, harr, h2, h3]

/-- the window after the ping sent at `T` that is not answered: `last_ping_tm = T` (and it stays: the pings that follow do
    not move it), no pong since, the peer is silent -/
structure Window (iv to T : Nat) (s : St) : Prop where
  lp : s.lastPing = T
  tpos : T ≠ 0
  lq : s.lastPong < T
  nf : s.first = false
  lo : T ≤ s.now
  hi : s.now ≤ T + to
  silent : Silent s.arr

/-- **detection inside the window** — from any state in the window after an unanswered ping at `T`, for EVERY interval:
    the loop reports a timeout at some tick in `(T + to, T + 2·to]`. -/
theorem detect_in_window (iv to horizon T : Nat) (hto : 0 < to) (hz : T + 2 * to ≤ horizon) :
    ∀ (fuel : Nat) (s : St), Window iv to T s → s.arr.length + (if s.now ≤ T then 1 else 0) + 1 ≤ fuel →
      ∃ r, (loop iv to horizon fuel s).2 = some r ∧ T + to < r ∧ r ≤ T + 2 * to := by
  intro fuel
  induction fuel with
  | zero => intro s _ hf; omega
  | succ n ih =>
    intro s w hf
    rw [loop]
    have htl := target_le to s
    have htg := target_ge to s
    have hcut : (!ready s && decide (target to s > horizon)) = false := by
      have : ¬ target to s > horizon := by have := w.hi; omega
      simp [this]
    rw [hcut]
    simp only [Bool.false_eq_true, ↓reduceIte]
    by_cases hr : ready s = true
    · -- data is already there: it is read, time does not pass
      have hi : iter iv to s = consume s := by simp [iter, hr]
      rw [hi]
      obtain ⟨c1, c2, c3, c4, c5, c6, _, _⟩ := consume_silent s w.silent
      have hlen := consume_ready_length s hr
      have hnf : checkFails to (consume s) = false := by
        unfold checkFails
        rw [c1, c3, w.lp]
        have : ¬ s.now - T > to := by have := w.hi; omega
        simp [this]
      rw [hnf]
      simp only [Bool.false_eq_true, ↓reduceIte]
      refine ih (consume s) ⟨c1.trans w.lp, w.tpos, by rw [c2]; exact w.lq, c5.trans w.nf,
        by rw [c3]; exact w.lo, by rw [c3]; exact w.hi, c6⟩ ?_
      rw [c3]; omega
    · -- the loop blocks in select until `t`; pings that fall due meanwhile do not move `last_ping_tm`
      have hr' : ready s = false := by simpa using hr
      obtain ⟨a1, a2, a3, a4, a5⟩ := advance_unanswered iv (target to s + 2) s (target to s) w.nf (by rw [w.lp]; exact w.lq)
      generalize hs1 : advance iv (target to s + 2) s (target to s) = s1 at a1 a2 a3 a4 a5
      have hi : iter iv to s = consume { s1 with now := target to s } := by simp [iter, hr', hs1]
      rw [hi]
      have hsil : Silent ({ s1 with now := target to s } : St).arr := by simpa [a4] using w.silent
      obtain ⟨c1, c2, c3, c4, c5, c6, c7, _⟩ := consume_silent { s1 with now := target to s } hsil
      simp only [] at c1 c2 c3 c4 c5 c6 c7
      by_cases hlate : target to s > T + to
      · -- the check fires
        have hcf : checkFails to (consume { s1 with now := target to s }) = true := by
          unfold checkFails
          rw [c1, c2, c3, a1, a2, w.lp]
          have b1 : target to s - T > to := by omega
          have b2 : s.lastPong < T := w.lq
          simp [w.tpos, b1, b2]
        rw [hcf]
        simp only [↓reduceIte]
        exact ⟨_, rfl, by rw [c3]; omega, by rw [c3]; have := w.hi; omega⟩
      · have hcf : checkFails to (consume { s1 with now := target to s }) = false := by
          unfold checkFails
          rw [c1, c3, a1, w.lp]
          have : ¬ target to s - T > to := by omega
          simp [this]
        rw [hcf]
        simp only [Bool.false_eq_true, ↓reduceIte]
        refine ih _ ⟨by rw [c1, a1]; exact w.lp, w.tpos, by rw [c2, a2]; exact w.lq, by rw [c5]; exact a5,
          by rw [c3]; have := w.lo; omega, by rw [c3]; omega, c6⟩ ?_
        rw [c3]
        -- the measure: `consume` of the state with the same arrivals and the new clock
        have hm := step_measure to T s hto hr' w.lo (by omega)
        have hsame : (consume { s1 with now := target to s }).arr.length = (consume { s with now := target to s }).arr.length := by
          rw [consume_arr_congr { s1 with now := target to s } { s with now := target to s } a4 rfl]
        omega

end WS.Lemmas.Keepalive

namespace WS.Lemmas.Keepalive
open WS.Model.Keepalive

/-- the state after `k` iterations of the loop -/
def stepN (iv to : Nat) : Nat → St → St
  | 0, s => s
  | k + 1, s => stepN iv to k (iter iv to s)

/-- the first `k` iterations neither reach the horizon nor report -/
def quietFor (iv to horizon : Nat) : Nat → St → Prop
  | 0, _ => True
  | k + 1, s => (!ready s && decide (target to s > horizon)) = false ∧ checkFails to (iter iv to s) = false ∧
      quietFor iv to horizon k (iter iv to s)

theorem loop_skip (iv to horizon : Nat) : ∀ (k n : Nat) (s : St), quietFor iv to horizon k s →
    loop iv to horizon (k + n) s = loop iv to horizon n (stepN iv to k s) := by
  intro k
  induction k with
  | zero => intro n s _; simp [stepN]
  | succ j ih =>
    intro n s h
    obtain ⟨h1, h2, h3⟩ := h
    have : j + 1 + n = (j + n) + 1 := by omega
    rw [this, loop, h1]
    simp only [Bool.false_eq_true, ↓reduceIte, h2]
    rw [ih n _ h3]
    rfl

/-! ### the ping thread: pings at 2·iv, 3·iv, … -/

def pingTimes (iv n : Nat) : List Nat := (List.range n).map fun k => (k + 2) * iv

structure PInv (iv : Nat) (s : St) : Prop where
  fst : s.first = true → s.pings = [] ∧ s.wake = iv ∧ s.lastPing = 0
  rest : s.first = false → s.wake = (s.pings.length + 2) * iv ∧ s.pings = pingTimes iv s.pings.length ∧
    (s.pings.length = 0 → s.lastPing = 0) ∧ s.lastPing + iv ≤ s.wake

theorem pingTimes_succ (iv n : Nat) : pingTimes iv (n + 1) = pingTimes iv n ++ [(n + 2) * iv] := by
  simp [pingTimes, List.range_succ]

theorem pinv_fire (iv : Nat) (s : St) (h : PInv iv s) : PInv iv (fire iv s) := by
  unfold fire
  by_cases hf : s.first = true
  · obtain ⟨h1, h2, h3⟩ := h.fst hf
    simp only [hf, ↓reduceIte]
    refine ⟨by simp, fun _ => ?_⟩
    simp only [h1, List.length_nil, Nat.zero_add, h2, pingTimes, List.range_zero, List.map_nil, h3, true_and]
    exact ⟨by omega, fun _ => trivial, by omega⟩
  · have hf' : s.first = false := by simpa using hf
    obtain ⟨h1, h2, h3, h4⟩ := h.rest hf'
    simp only [hf', Bool.false_eq_true, ↓reduceIte]
    refine ⟨by simp [hf'], fun _ => ?_⟩
    simp only [List.length_append, List.length_singleton]
    refine ⟨by rw [h1]; simp [Nat.add_mul]; omega, ?_, by omega, ?_⟩
    · rw [pingTimes_succ, ← h2, h1]
    · split <;> omega

theorem pinv_advance (iv : Nat) : ∀ (n : Nat) (s : St) (t : Nat), PInv iv s → PInv iv (advance iv n s t) := by
  intro n
  induction n with
  | zero => intro s t h; exact h
  | succ m ih =>
    intro s t h
    rw [advance]
    split
    · exact ih _ t (pinv_fire iv s h)
    · split
      · split
        · exact pinv_fire iv _ ⟨h.fst, h.rest⟩
        · exact ⟨h.fst, h.rest⟩
        · exact h
      · exact h

theorem pinv_consume (iv : Nat) (s : St) (h : PInv iv s) : PInv iv (consume s) := by
  unfold consume
  split
  · split
    · split <;> exact ⟨h.fst, h.rest⟩
    · exact h
  · exact h

theorem pinv_iter (iv to : Nat) (s : St) (h : PInv iv s) : PInv iv (iter iv to s) := by
  unfold iter
  split
  · exact pinv_consume iv s h
  · exact pinv_consume iv _ (by
      have := pinv_advance iv (target to s + 2) s (target to s) h
      exact ⟨this.fst, this.rest⟩)

theorem pinv_loop (iv to horizon : Nat) : ∀ (n : Nat) (s : St), PInv iv s → PInv iv (loop iv to horizon n s).1 := by
  intro n
  induction n with
  | zero => intro s h; exact h
  | succ m ih =>
    intro s h
    rw [loop]
    split
    · have := pinv_advance iv (horizon + 2) { s with sched := [] } (horizon + 1) ⟨h.fst, h.rest⟩
      exact this
    · simp only []
      split
      · exact pinv_iter iv to s h
      · exact ih _ (pinv_iter iv to s h)

theorem pinv_init (iv : Nat) (arr : List (Nat × Kind)) (sched : List Bool) : PInv iv (init iv arr sched) :=
  ⟨fun _ => ⟨rfl, rfl, rfl⟩, fun h => by simp [init] at h⟩

end WS.Lemmas.Keepalive
