/-
  WS.Lemmas.Keepalive — lemmas about WS.Model.Keepalive: the ping thread's wake-ups, the select loop.
-/
import WS.Model.Keepalive
namespace WS.Lemmas.Keepalive
open WS.Model.Keepalive

/-- no ping is due before (or at) `t`: the main loop's sleep changes nothing -/
theorem advance_noop (iv n : Nat) (s : St) (t : Nat) (h : t < s.wake) : advance iv n s t = s := by
  cases n with
  | zero => rfl
  | succ m =>
    rw [advance]
    have h1 : ¬ s.wake < t := by omega
    have h2 : ¬ s.wake = t := by omega
    simp [h1, h2]

theorem target_le (to : Nat) (s : St) : target to s ≤ s.now + to := by
  unfold target
  split
  · split <;> omega
  · omega

theorem target_ge (to : Nat) (s : St) : s.now ≤ target to s := by
  unfold target
  split
  · split <;> omega
  · omega

/-- arrivals are only data frames (the peer has stopped answering) -/
def Silent (arr : List (Nat × Kind)) : Prop := ∀ x ∈ arr, x.2 = .data

theorem consume_silent (s : St) (h : Silent s.arr) :
    (consume s).lastPing = s.lastPing ∧ (consume s).lastPong = s.lastPong ∧ (consume s).now = s.now ∧
    (consume s).wake = s.wake ∧ (consume s).first = s.first ∧ Silent (consume s).arr ∧
    (consume s).arr.length ≤ s.arr.length ∧ (consume s).pings = s.pings := by
  unfold consume
  cases harr : s.arr with
  | nil => exact ⟨rfl, rfl, rfl, rfl, rfl, by rw [harr] at h; simpa [harr] using h, by simp [harr], rfl⟩
  | cons x rest =>
    obtain ⟨a, k⟩ := x
    have hk : k = .data := h (a, k) (by simp [harr])
    have hr : Silent rest := fun y hy => h y (by simp [harr, hy])
    subst hk
    simp only []
    split
    · exact ⟨rfl, rfl, rfl, rfl, rfl, hr, by simp, rfl⟩
    · exact ⟨rfl, rfl, rfl, rfl, rfl, by simpa [harr] using h, by simp [harr], rfl⟩

theorem consume_ready_length (s : St) (h : ready s = true) : (consume s).arr.length + 1 = s.arr.length := by
  unfold ready at h
  unfold consume
  cases harr : s.arr with
  | nil => simp [harr] at h
  | cons x rest =>
    obtain ⟨a, k⟩ := x
    simp only [harr, decide_eq_true_eq] at h
    simp only [h, ↓reduceIte]
    cases k <;> simp

end WS.Lemmas.Keepalive

namespace WS.Lemmas.Keepalive
open WS.Model.Keepalive

/-- progress of a blocking iteration inside the window: an arrival is consumed, or a full time-out passes
    that started exactly at `T` -/
theorem step_measure (to T : Nat) (s : St) (hto : 0 < to) (hr : ready s = false) (hlo : T ≤ s.now)
    (hnl : target to s ≤ T + to) :
    (consume { s with now := target to s }).arr.length + (if target to s ≤ T then 1 else 0) <
      s.arr.length + (if s.now ≤ T then 1 else 0) := by
  cases harr : s.arr with
  | nil =>
    have ht : target to s = s.now + to := by simp [target, harr]
    rw [ht] at hnl ⊢
    have hn : s.now = T := by omega
    have h1 : ¬ (s.now + to ≤ T) := by omega
    simp [consume, harr, h1, hn]
    omega
  | cons x rest =>
    obtain ⟨a, k⟩ := x
    have hna : s.now < a := by
      simp only [ready, harr, decide_eq_false_iff_not, Nat.not_le] at hr; exact hr
    by_cases hsoon : a ≤ s.now + to
    · have ht : target to s = a := by
        simp only [target, harr, hsoon, ↓reduceIte]; omega
      rw [ht]
      have h1 : ¬ (a ≤ T) := by omega
      cases k <;> simp [consume, harr, h1] <;> omega
    · have ht : target to s = s.now + to := by simp [target, harr, hsoon]
      rw [ht] at hnl ⊢
      have hn : s.now = T := by omega
      have h1 : ¬ (s.now + to ≤ T) := by omega
      have h2 : ¬ (a ≤ T + to) := by omega
      have h3 : ¬ (T + to ≤ T) := by omega
      subst hn
      simp [consume, harr, h2, h3]

/-- the window after the ping sent at `T`: the peer is silent, the next ping is more than 2·to away -/
structure Window (iv to T : Nat) (s : St) : Prop where
  lp : s.lastPing = T
  tpos : T ≠ 0
  lq : s.lastPong < T
  nf : s.first = false
  wk : s.wake = T + iv
  lo : T ≤ s.now
  hi : s.now ≤ T + to
  silent : Silent s.arr

/-- **detection inside the window** — from any state in the window after an unanswered ping at `T`, with
    `iv > 2·to`: the loop reports a timeout at some tick in `(T + to, T + 2·to]`. -/
theorem detect_in_window (iv to horizon T : Nat) (h2 : 2 * to < iv) (hto : 0 < to) (hz : T + 2 * to ≤ horizon) :
    ∀ (fuel : Nat) (s : St), Window iv to T s → s.arr.length + (if s.now ≤ T then 1 else 0) + 1 ≤ fuel →
      ∃ r, (loop iv to horizon fuel s).2 = some r ∧ T + to < r ∧ r ≤ T + 2 * to := by
  intro fuel
  induction fuel with
  | zero => intro s _ hf; omega
  | succ n ih =>
    intro s w hf
    rw [loop]
    have htl := target_le to s
    have htg := target_ge to s
    have hcut : (!ready s && decide (target to s > horizon)) = false := by
      have : ¬ target to s > horizon := by have := w.hi; omega
      simp [this]
    rw [hcut]
    simp only [Bool.false_eq_true, ↓reduceIte]
    by_cases hr : ready s = true
    · -- data is already there: it is read, time does not pass
      have hi : iter iv to s = consume s := by simp [iter, hr]
      rw [hi]
      obtain ⟨c1, c2, c3, c4, c5, c6, _, _⟩ := consume_silent s w.silent
      have hlen := consume_ready_length s hr
      have hnf : checkFails to (consume s) = false := by
        unfold checkFails
        rw [c1, c3, w.lp]
        have : ¬ s.now - T > to := by have := w.hi; omega
        simp [this]
      rw [hnf]
      simp only [Bool.false_eq_true, ↓reduceIte]
      refine ih (consume s) ⟨c1.trans w.lp, w.tpos, by rw [c2]; exact w.lq, c5.trans w.nf, c4.trans w.wk,
        by rw [c3]; exact w.lo, by rw [c3]; exact w.hi, c6⟩ ?_
      rw [c3]; omega
    · -- the loop blocks in select until `t`
      have hr' : ready s = false := by simpa using hr
      have hadv : advance iv (target to s + 2) s (target to s) = s :=
        advance_noop iv _ s _ (by rw [w.wk]; have := w.hi; omega)
      have hi : iter iv to s = consume { s with now := target to s } := by simp [iter, hr', hadv]
      rw [hi]
      obtain ⟨c1, c2, c3, c4, c5, c6, c7, _⟩ := consume_silent { s with now := target to s } w.silent
      simp only [] at c1 c2 c3 c4 c5 c6 c7
      by_cases hlate : target to s > T + to
      · -- the check fires
        have hcf : checkFails to (consume { s with now := target to s }) = true := by
          unfold checkFails
          rw [c1, c2, c3, w.lp]
          have a1 : target to s - T > to := by omega
          have a2 : s.lastPong < T := w.lq
          simp [w.tpos, a1, a2]
        rw [hcf]
        simp only [↓reduceIte]
        exact ⟨_, rfl, by rw [c3]; omega, by rw [c3]; have := w.hi; omega⟩
      · have hcf : checkFails to (consume { s with now := target to s }) = false := by
          unfold checkFails
          rw [c1, c3, w.lp]
          have : ¬ target to s - T > to := by omega
          simp [this]
        rw [hcf]
        simp only [Bool.false_eq_true, ↓reduceIte]
        refine ih _ ⟨c1.trans w.lp, w.tpos, by rw [c2]; exact w.lq, c5.trans w.nf, c4.trans w.wk,
          by rw [c3]; have := w.lo; omega, by rw [c3]; omega, c6⟩ ?_
        rw [c3]
        have := step_measure to T s hto hr' w.lo (by omega)
        omega

end WS.Lemmas.Keepalive

namespace WS.Lemmas.Keepalive
open WS.Model.Keepalive

/-- the state after `k` iterations of the loop -/
def stepN (iv to : Nat) : Nat → St → St
  | 0, s => s
  | k + 1, s => stepN iv to k (iter iv to s)

/-- the first `k` iterations neither reach the horizon nor report -/
def quietFor (iv to horizon : Nat) : Nat → St → Prop
  | 0, _ => True
  | k + 1, s => (!ready s && decide (target to s > horizon)) = false ∧ checkFails to (iter iv to s) = false ∧
      quietFor iv to horizon k (iter iv to s)

theorem loop_skip (iv to horizon : Nat) : ∀ (k n : Nat) (s : St), quietFor iv to horizon k s →
    loop iv to horizon (k + n) s = loop iv to horizon n (stepN iv to k s) := by
  intro k
  induction k with
  | zero => intro n s _; simp [stepN]
  | succ j ih =>
    intro n s h
    obtain ⟨h1, h2, h3⟩ := h
    have : j + 1 + n = (j + n) + 1 := by omega
    rw [this, loop, h1]
    simp only [Bool.false_eq_true, ↓reduceIte, h2]
    rw [ih n _ h3]
    rfl

/-! ### the ping thread: pings at 2·iv, 3·iv, … -/

def pingTimes (iv n : Nat) : List Nat := (List.range n).map fun k => (k + 2) * iv

structure PInv (iv : Nat) (s : St) : Prop where
  fst : s.first = true → s.pings = [] ∧ s.wake = iv ∧ s.lastPing = 0
  rest : s.first = false → s.wake = (s.pings.length + 2) * iv ∧ s.pings = pingTimes iv s.pings.length ∧
    s.lastPing = (if s.pings.length = 0 then 0 else s.wake - iv)

theorem pingTimes_succ (iv n : Nat) : pingTimes iv (n + 1) = pingTimes iv n ++ [(n + 2) * iv] := by
  simp [pingTimes, List.range_succ]

theorem pinv_fire (iv : Nat) (s : St) (h : PInv iv s) : PInv iv (fire iv s) := by
  unfold fire
  by_cases hf : s.first = true
  · obtain ⟨h1, h2, h3⟩ := h.fst hf
    simp only [hf, ↓reduceIte]
    refine ⟨by simp, fun _ => ?_⟩
    simp only [h1, List.length_nil, Nat.zero_add, h2, pingTimes, List.range_zero, List.map_nil, ↓reduceIte, h3,
      true_and]
    exact ⟨by omega, trivial⟩
  · have hf' : s.first = false := by simpa using hf
    obtain ⟨h1, h2, h3⟩ := h.rest hf'
    simp only [hf', Bool.false_eq_true, ↓reduceIte]
    refine ⟨by simp [hf'], fun _ => ?_⟩
    simp only [List.length_append, List.length_singleton]
    refine ⟨by rw [h1]; simp [Nat.add_mul]; omega, ?_, ?_⟩
    · rw [pingTimes_succ, ← h2, h1]
    · simp

theorem pinv_advance (iv : Nat) : ∀ (n : Nat) (s : St) (t : Nat), PInv iv s → PInv iv (advance iv n s t) := by
  intro n
  induction n with
  | zero => intro s t h; exact h
  | succ m ih =>
    intro s t h
    rw [advance]
    split
    · exact ih _ t (pinv_fire iv s h)
    · split
      · split
        · exact pinv_fire iv _ ⟨h.fst, h.rest⟩
        · exact ⟨h.fst, h.rest⟩
        · exact h
      · exact h

theorem pinv_consume (iv : Nat) (s : St) (h : PInv iv s) : PInv iv (consume s) := by
  unfold consume
  split
  · split
    · split <;> exact ⟨h.fst, h.rest⟩
    · exact h
  · exact h

theorem pinv_iter (iv to : Nat) (s : St) (h : PInv iv s) : PInv iv (iter iv to s) := by
  unfold iter
  split
  · exact pinv_consume iv s h
  · exact pinv_consume iv _ (by
      have := pinv_advance iv (target to s + 2) s (target to s) h
      exact ⟨this.fst, this.rest⟩)

theorem pinv_loop (iv to horizon : Nat) : ∀ (n : Nat) (s : St), PInv iv s → PInv iv (loop iv to horizon n s).1 := by
  intro n
  induction n with
  | zero => intro s h; exact h
  | succ m ih =>
    intro s h
    rw [loop]
    split
    · have := pinv_advance iv (horizon + 2) { s with sched := [] } (horizon + 1) ⟨h.fst, h.rest⟩
      exact this
    · simp only []
      split
      · exact pinv_iter iv to s h
      · exact ih _ (pinv_iter iv to s h)

theorem pinv_init (iv : Nat) (arr : List (Nat × Kind)) (sched : List Bool) : PInv iv (init iv arr sched) :=
  ⟨fun _ => ⟨rfl, rfl, rfl⟩, fun h => by simp [init] at h⟩

end WS.Lemmas.Keepalive
