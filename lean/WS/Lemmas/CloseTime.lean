/-
  WS.Lemmas.CloseTime — how long `close()` takes against a silent peer: exactly its timeout.
-/
import WS.Lemmas.Loop
namespace WS.Lemmas.CloseTime
open WS WS.Model WS.Spec WS.Lemmas.RecvStrict WS.Lemmas.Frame WS.Lemmas.Parser WS.Lemmas.ShortWrites WS.Lemmas.Loop

theorem sock_send_clock (s : Sock) (d : Bytes) : (s.send d).2.clock = s.clock ∧ (s.send d).2.timeoutMs = s.timeoutMs := by
  unfold Sock.send
  simp only []
  by_cases hc : s.closed = true
  · simp [hc]
  · cases hf : s.sendFailAt <;> by_cases ha : s.accepts = [] <;> simp [hc, ha] <;> split <;> simp

theorem sockSend_clock (c : Conn) (d : Bytes) : (c.sockSend d).2.sock.clock = c.sock.clock := by
  unfold Conn.sockSend
  split
  · rfl
  · have h := (sock_send_clock c.sock d).1
    generalize c.sock.send d = r at h
    obtain ⟨res, s'⟩ := r
    cases res <;> exact h

theorem sendLoop_clock (fuel : Nat) : ∀ (c : Conn) (d : Bytes), (Conn.sendLoop fuel c d).2.sock.clock = c.sock.clock := by
  induction fuel with
  | zero => intro c d; simp [Conn.sendLoop]
  | succ f ih =>
    intro c d
    unfold Conn.sendLoop
    split
    · rfl
    · have h1 := sockSend_clock c d
      generalize c.sockSend d = r at h1
      obtain ⟨res, c1⟩ := r
      cases res with
      | error e => simpa using h1
      | ok l => simp only []; rw [ih c1 _]; exact h1

theorem send_clock (c : Conn) (p : Bytes) (op : Nat) : (c.send p op).2.sock.clock = c.sock.clock := by
  unfold Conn.send Conn.sendFrame
  simp only []
  cases hf : format (createFrame p op) (c.keys.headD [0, 0, 0, 0]) with
  | error e => rfl
  | ok w =>
    simp only []
    have hm : ((createFrame p op).mask != 0) = true := rfl
    simp only [hm, if_true]
    have := sendLoop_clock (w.length + 1) { c with keys := c.keys.tail, keyDraws := c.keyDraws + 1 } w
    generalize Conn.sendLoop (w.length + 1) _ w = r at this
    obtain ⟨e, c'⟩ := r
    cases e <;> simpa using this

/-- a silent peer: nothing buffered, nothing in flight, the transport only ever times out. -/
structure Silent (c : Conn) : Prop where
  hasSock : c.hasSock = true
  open_ : c.sock.closed = false
  buf : c.buf = []
  inp : c.sock.inp = []
  tail : c.sock.tail = .timeout
  hdr : c.hdr = none

/-- against a silent peer `recv_frame` makes ONE transport read, which takes the socket's timeout, and raises TIMEOUT. -/
theorem recvFrame_silent (c : Conn) (h : Silent c) :
    c.recvFrame = (.error .timeout,
      { c with sock := { c.sock with calls := c.sock.calls + 1, recvSizes := 2 :: c.sock.recvSizes,
                                     clock := c.sock.clock + c.sock.timeoutMs.getD 0 } }) := by
  have hcap : min Gen.recvCap 2 = 2 := by decide
  have hstrict : c.recvStrict 2 = (.error .timeout,
      { c with sock := { c.sock with calls := c.sock.calls + 1, recvSizes := 2 :: c.sock.recvSizes,
                                     clock := c.sock.clock + c.sock.timeoutMs.getD 0 } }) := by
    unfold Conn.recvStrict Sock.size
    simp only [h.inp, List.map_nil, List.sum_nil, List.length_nil]
    unfold Conn.recvStrictLoop
    simp only [h.buf, List.length_nil, hcap]
    simp only [show ¬ ((0 : Nat) ≥ 2) by omega, if_false, Nat.sub_zero, hcap]
    unfold Conn.sockRecv
    simp only [h.hasSock, Bool.not_true, Bool.false_eq_true, if_false, h.inp, List.length_nil]
    unfold Sock.recv
    simp only [h.open_, Bool.false_eq_true, if_false, h.inp, h.tail]
    simp [Conn.mk.injEq, Sock.mk.injEq, h.inp, h.tail, h.open_, h.hasSock, h.buf]
  unfold Conn.recvFrame
  simp only [h.hdr, Option.isNone_none, if_true]
  unfold Conn.recvHeader
  rw [hstrict]
  simp [h.hdr]

end WS.Lemmas.CloseTime
