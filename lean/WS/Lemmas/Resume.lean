/-
  WS.Lemmas.Resume — a receive timeout at any byte position (inside the header, the extended length, the mask
  key or the payload) is resumable: nothing is lost, duplicated or reordered, and the retried call returns what an
  uninterrupted parse of the same bytes returns.
-/
import WS.Lemmas.Staged
import WS.Lemmas.Timeouts
namespace WS.Lemmas.Resume
open WS WS.Model WS.Spec WS.Lemmas.RecvStrict WS.Lemmas.Frame WS.Lemmas.Parser WS.Lemmas.Staged WS.Lemmas.Timeouts

/-- outcome of one `recv_strict(n)` on chunks + timeouts. -/
def StrictRes (c : Conn) (n : Nat) (r : Except Exn Bytes × Conn) : Prop :=
  (r.1 = .ok ((pending c).take n) ∧ n ≤ (pending c).length ∧ pending r.2 = (pending c).drop n ∧ Live r.2 ∧
      Plain r.2.sock.inp ∧ SameStage c r.2) ∨
  (r.1 = .error .timeout ∧ pending r.2 = pending c ∧ Live r.2 ∧ Plain r.2.sock.inp ∧ SameStage c r.2) ∨
  (r.1 = .error .closed)

theorem recvStrict_plain (c : Conn) (n : Nat) (hl : Live c) (hp : Plain c.sock.inp) : StrictRes c n (c.recvStrict n) := by
  have hfu : (bytesOf c.sock.inp).length < c.sock.size + 1 := by
    have := bytesOf_le_size c.sock.inp
    unfold Sock.size; omega
  have h := recvStrictLoop_plain _ c n hl hp hfu
  unfold Conn.recvStrict
  generalize Conn.recvStrictLoop (c.sock.size + 1) c n = r at h
  obtain ⟨e, c1⟩ := r
  rcases h with ⟨a0, a1, a2, a3, a4, a5, _⟩ | ⟨a0, a2, a3, a4, a5, _⟩ | ⟨a0, _, _⟩
  · simp only [] at a0 a1 a2 a3 a4 a5
    subst a0
    simp only []
    refine Or.inl ⟨?_, ?_, ?_, by simpa [Live] using a3, by simpa using a4, by simpa [SameStage] using a5⟩
    · rw [← a2]; simp [pending, List.take_append_of_le_length a1]
    · rw [← a2]; simp [pending]; omega
    · rw [← a2]; simp [pending, List.drop_append_of_le_length a1]
  · simp only [] at a0 a2 a3 a4 a5
    subst a0
    exact Or.inr (Or.inl ⟨rfl, a2, a3, a4, a5⟩)
  · simp only [] at a0
    subst a0
    exact Or.inr (Or.inr rfl)

theorem unbe_lt (v : Bytes) : unbe v < 256 ^ v.length := by
  unfold unbe
  suffices h : ∀ (acc : Nat) (k : Nat), acc < 256 ^ k → List.foldl (fun acc b => acc * 256 + b.toNat) acc v < 256 ^ (k + v.length) by
    simpa using h 0 0 (by simp)
  induction v with
  | nil => intro acc k h; simpa using h
  | cons b rest ih =>
    intro acc k h
    simp only [List.foldl, List.length_cons]
    have hb := b.toNat_lt
    have : acc * 256 + b.toNat < 256 ^ (k + 1) := by
      rw [Nat.pow_succ]
      have : acc + 1 ≤ 256 ^ k := h
      calc acc * 256 + b.toNat < acc * 256 + 256 := by omega
        _ = (acc + 1) * 256 := by rw [Nat.add_mul]
        _ ≤ 256 ^ k * 256 := Nat.mul_le_mul_right _ this
    have := ih _ (k + 1) this
    rw [show k + 1 + rest.length = k + (rest.length + 1) by omega] at this
    exact this

theorem recvHeader_plain (c : Conn) (hl : Live c) (hp : Plain c.sock.inp) :
    (∃ b0 b1 r2 c1, pending c = b0 :: b1 :: r2 ∧ c.recvHeader = (none, c1) ∧ c1.hdr = some (hdrOf b0 b1) ∧
        c1.len = c.len ∧ c1.maskv = c.maskv ∧ pending c1 = r2 ∧ Live c1 ∧ Plain c1.sock.inp) ∨
    (∃ c1, c.recvHeader = (some .timeout, c1) ∧ pending c1 = pending c ∧ Live c1 ∧ Plain c1.sock.inp ∧ SameStage c c1) ∨
    (∃ c1, c.recvHeader = (some .closed, c1)) := by
  have h := recvStrict_plain c 2 hl hp
  unfold Conn.recvHeader
  generalize c.recvStrict 2 = r at h
  obtain ⟨e, c1⟩ := r
  rcases h with ⟨a0, a1, a2, a3, a4, a5⟩ | ⟨a0, a2, a3, a4, a5⟩ | a0
  · simp only [] at a0 a1 a2 a3 a4 a5
    subst a0
    cases hpd : pending c with
    | nil => rw [hpd] at a1; simp at a1
    | cons b0 t =>
      cases t with
      | nil => rw [hpd] at a1; simp at a1
      | cons b1 r2 =>
        left
        have hb0 := byte_bits b0.toNat b0.toNat_lt
        have hb1 := byte_bits b1.toNat b1.toNat_lt
        obtain ⟨x1, x2, x3, x4, x5, _, _⟩ := hb0
        obtain ⟨y1, _, _, _, _, y6, _⟩ := hb1
        refine ⟨b0, b1, r2, _, rfl, rfl, ?_, a5.2.1, a5.2.2.1, ?_, by simpa [Live] using a3, by simpa using a4⟩
        · simp [hdrOf, x1, x2, x3, x4, x5, y1, y6]
        · have : pending c1 = r2 := by rw [a2, hpd]; rfl
          simpa [pending] using this
  · simp only [] at a0 a2 a3 a4 a5
    subst a0
    exact Or.inr (Or.inl ⟨c1, rfl, a2, a3, a4, a5⟩)
  · simp only [] at a0
    subst a0
    exact Or.inr (Or.inr ⟨c1, rfl⟩)

theorem take_append_drop_eq (n : Nat) (l : Bytes) : l.take n ++ l.drop n = l := List.take_append_drop n l

theorem recvLength_plain (c : Conn) (h : Hdr) (hk : HdrOk h) (hl : Live c) (hp : Plain c.sock.inp) :
    (∃ L c2, c.recvLength h = (none, c2) ∧ c2.len = some L ∧ LenOk h L ∧ c2.hdr = c.hdr ∧ c2.maskv = c.maskv ∧
        extBytes h L ++ pending c2 = pending c ∧ Live c2 ∧ Plain c2.sock.inp) ∨
    (∃ c2, c.recvLength h = (some .timeout, c2) ∧ pending c2 = pending c ∧ Live c2 ∧ Plain c2.sock.inp ∧ SameStage c c2) ∨
    (∃ c2, c.recvLength h = (some .closed, c2)) := by
  obtain ⟨_, _, _, _, _, _, a7⟩ := hk
  have hlb : h.lenBits &&& 0x7F = h.lenBits := and7f _ a7
  unfold Conn.recvLength
  simp only [hlb]
  by_cases h126 : h.lenBits = 126
  · simp only [h126, show ((126 : Nat) == 0x7E) = true by decide, if_true]
    have hs := recvStrict_plain c 2 hl hp
    generalize c.recvStrict 2 = r at hs
    obtain ⟨e, c1⟩ := r
    rcases hs with ⟨a0, a1, a2, a3, a4, a5⟩ | ⟨a0, a2, a3, a4, a5⟩ | a0
    · simp only [] at a0 a1 a2 a3 a4 a5
      subst a0
      left
      have hvl : ((pending c).take 2).length = 2 := by simp; omega
      refine ⟨_, _, rfl, rfl, ⟨fun _ => ?_, fun hh => by omega, fun hh => absurd h126 hh⟩, a5.1, a5.2.2.1, ?_, by simpa [Live] using a3, by simpa using a4⟩
      · have := unbe_lt ((pending c).take 2)
        rw [hvl] at this
        simpa using this
      · have : pending c1 = (pending c).drop 2 := a2
        simp only [extBytes, h126, if_true]
        rw [be2_unbe _ hvl]
        have hp' : pending { c1 with len := some (unbe ((pending c).take 2)) } = pending c1 := rfl
        rw [hp', this, List.take_append_drop]
    · simp only [] at a0 a2 a3 a4 a5
      subst a0
      exact Or.inr (Or.inl ⟨c1, rfl, a2, a3, a4, a5⟩)
    · simp only [] at a0
      subst a0
      exact Or.inr (Or.inr ⟨c1, rfl⟩)
  · by_cases h127 : h.lenBits = 127
    · simp only [h127, show ((127 : Nat) == 0x7E) = false by decide, show ((127 : Nat) == 0x7F) = true by decide,
        Bool.false_eq_true, if_false, if_true]
      have hs := recvStrict_plain c 8 hl hp
      generalize c.recvStrict 8 = r at hs
      obtain ⟨e, c1⟩ := r
      rcases hs with ⟨a0, a1, a2, a3, a4, a5⟩ | ⟨a0, a2, a3, a4, a5⟩ | a0
      · simp only [] at a0 a1 a2 a3 a4 a5
        subst a0
        left
        have hvl : ((pending c).take 8).length = 8 := by simp; omega
        refine ⟨_, _, rfl, rfl, ⟨fun hh => by omega, fun _ => ?_, fun _ hh => absurd h127 hh⟩, a5.1, a5.2.2.1, ?_, by simpa [Live] using a3, by simpa using a4⟩
        · have := unbe_lt ((pending c).take 8)
          rw [hvl] at this
          have e : (256 : Nat) ^ 8 = 2 ^ 64 := by decide
          omega
        · have : pending c1 = (pending c).drop 8 := a2
          simp only [extBytes, h127, show ¬ ((127 : Nat) = 126) by omega, if_false, if_true]
          rw [be8_unbe _ hvl]
          have hp' : pending { c1 with len := some (unbe ((pending c).take 8)) } = pending c1 := rfl
          rw [hp', this, List.take_append_drop]
      · simp only [] at a0 a2 a3 a4 a5
        subst a0
        exact Or.inr (Or.inl ⟨c1, rfl, a2, a3, a4, a5⟩)
      · simp only [] at a0
        subst a0
        exact Or.inr (Or.inr ⟨c1, rfl⟩)
    · have e1 : (h.lenBits == 0x7E) = false := by simpa using h126
      have e2 : (h.lenBits == 0x7F) = false := by simpa using h127
      simp only [e1, e2, Bool.false_eq_true, if_false]
      left
      refine ⟨h.lenBits, _, rfl, rfl, ⟨fun hh => absurd hh h126, fun hh => absurd hh h127, fun _ _ => rfl⟩, rfl, rfl, ?_, by simpa [Live] using hl, by simpa using hp⟩
      simp [extBytes, h126, h127, pending]

theorem recvMask_plain (c : Conn) (h : Hdr) (hk : HdrOk h) (hl : Live c) (hp : Plain c.sock.inp) :
    (∃ k c3, c.recvMask h = (none, c3) ∧ c3.maskv = some k ∧ k.length = (if h.hasMask = 1 then 4 else 0) ∧
        c3.hdr = c.hdr ∧ c3.len = c.len ∧ k ++ pending c3 = pending c ∧ Live c3 ∧ Plain c3.sock.inp) ∨
    (∃ c3, c.recvMask h = (some .timeout, c3) ∧ pending c3 = pending c ∧ Live c3 ∧ Plain c3.sock.inp ∧ SameStage c c3) ∨
    (∃ c3, c.recvMask h = (some .closed, c3)) := by
  obtain ⟨_, _, _, _, _, a6, _⟩ := hk
  unfold Conn.recvMask
  by_cases h1 : h.hasMask = 1
  · simp only [h1, show ((1 : Nat) != 0) = true by decide, if_true]
    have hs := recvStrict_plain c 4 hl hp
    generalize c.recvStrict 4 = r at hs
    obtain ⟨e, c1⟩ := r
    rcases hs with ⟨a0, a1, a2, a3, a4, a5⟩ | ⟨a0, a2, a3, a4, a5⟩ | a0
    · simp only [] at a0 a1 a2 a3 a4 a5
      subst a0
      left
      refine ⟨_, _, rfl, rfl, by simp; omega, a5.1, a5.2.1, ?_, by simpa [Live] using a3, by simpa using a4⟩
      have hp' : pending { c1 with maskv := some ((pending c).take 4) } = pending c1 := rfl
      rw [hp', a2, List.take_append_drop]
    · simp only [] at a0 a2 a3 a4 a5
      subst a0
      exact Or.inr (Or.inl ⟨c1, rfl, a2, a3, a4, a5⟩)
    · simp only [] at a0
      subst a0
      exact Or.inr (Or.inr ⟨c1, rfl⟩)
  · have h0 : h.hasMask = 0 := by omega
    simp only [h0, show ((0 : Nat) != 0) = false by decide, Bool.false_eq_true, if_false]
    left
    exact ⟨[], _, rfl, rfl, by simp, rfl, rfl, by simp [pending], by simpa [Live] using hl, by simpa using hp⟩

/-- a `recv_frame` call from a cleared parser that ends in TIMEOUT (at whichever stage): every byte of the
    stream from the start of the frame in progress is still accounted for — encoded in the stage fields or
    still pending — and the stage fields are consistent. -/
theorem recvFrame_timeout_cleared (c : Conn) (hl : Live c) (hp : Plain c.sock.inp) (hclr : Cleared c)
    (c' : Conn) (h : c.recvFrame = (.error .timeout, c')) :
    vpending c' = pending c ∧ WellStaged c' ∧ Live c' ∧ Plain c'.sock.inp := by
  obtain ⟨hh, hln, hmk⟩ := hclr
  unfold Conn.recvFrame at h
  simp only [hh, Option.isNone_none, if_true] at h
  rcases recvHeader_plain c hl hp with ⟨b0, b1, r2, c1, hpd, e1, c1h, c1l, c1m, p1, l1, pl1⟩ | ⟨c1, e1, p1, l1, pl1, ss1⟩ | ⟨c1, e1⟩
  · -- header read
    have hk := hdrOk_hdrOf b0 b1
    have hc1len : c1.len.isNone = true := by simp [c1l, hln]
    simp only [e1, c1h, hc1len, if_true] at h
    rcases recvLength_plain c1 (hdrOf b0 b1) hk l1 pl1 with ⟨L, c2, e2, c2l, lo2, c2h, c2m, p2, l2, pl2⟩ | ⟨c2, e2, p2, l2, pl2, ss2⟩ | ⟨c2, e2⟩
    · have hc2msk : c2.maskv.isNone = true := by simp [c2m, c1m, hmk]
      simp only [e2, hc2msk, if_true] at h
      rcases recvMask_plain c2 (hdrOf b0 b1) hk l2 pl2 with ⟨k, c3, e3, c3m, kl, c3h, c3l, p3, l3, pl3⟩ | ⟨c3, e3, p3, l3, pl3, ss3⟩ | ⟨c3, e3⟩
      · simp only [e3, c2l, Option.getD_some] at h
        have hs := recvStrict_plain c3 L l3 pl3
        generalize c3.recvStrict L = r at hs h
        obtain ⟨e, c4⟩ := r
        rcases hs with ⟨a0, _⟩ | ⟨a0, a2, a3, a4, a5⟩ | a0
        · simp only [] at a0
          subst a0
          simp only [] at h
          split at h
          · rename_i ev hv
            have := WS.Lemmas.Total.validate_benign _ _ _ hv
            subst this
            simp at h
          · simp at h
        · simp only [] at a0 a2 a3 a4 a5
          subst a0
          simp only [] at h
          injection h with _ hc
          subst hc
          refine ⟨?_, ?_, a3, a4⟩
          · -- all three stages are stored
            have s1 : c4.hdr = some (hdrOf b0 b1) := by rw [a5.1, c3h, c2h, c1h]
            have s2 : c4.len = some L := by rw [a5.2.1, c3l, c2l]
            have s3 : c4.maskv = some k := by rw [a5.2.2.1, c3m]
            simp only [vpending, stageBytes, s1, s2, s3, hdrBytes_hdrOf]
            rw [a2, List.append_assoc, List.append_assoc, p3, p2, p1, hpd]
            rfl
          · have s1 : c4.hdr = some (hdrOf b0 b1) := by rw [a5.1, c3h, c2h, c1h]
            have s2 : c4.len = some L := by rw [a5.2.1, c3l, c2l]
            have s3 : c4.maskv = some k := by rw [a5.2.2.1, c3m]
            simp only [WellStaged, s1, s2, s3]
            exact ⟨hk, lo2, kl⟩
        · simp only [] at a0
          subst a0
          simp at h
      · simp only [e3] at h
        injection h with _ hc
        subst hc
        have s1 : c3.hdr = some (hdrOf b0 b1) := by rw [ss3.1, c2h, c1h]
        have s2 : c3.len = some L := by rw [ss3.2.1, c2l]
        have s3 : c3.maskv = none := by rw [ss3.2.2.1, c2m, c1m, hmk]
        refine ⟨?_, ?_, l3, pl3⟩
        · simp only [vpending, stageBytes, s1, s2, s3, hdrBytes_hdrOf, List.append_nil]
          rw [p3, List.append_assoc, p2, p1, hpd]
          rfl
        · simp only [WellStaged, s1, s2, s3]
          exact ⟨hk, lo2, trivial⟩
      · simp only [e3] at h
        simp at h
    · simp only [e2] at h
      injection h with _ hc
      subst hc
      have s1 : c2.hdr = some (hdrOf b0 b1) := by rw [ss2.1, c1h]
      have s2 : c2.len = none := by rw [ss2.2.1, c1l, hln]
      have s3 : c2.maskv = none := by rw [ss2.2.2.1, c1m, hmk]
      refine ⟨?_, ?_, l2, pl2⟩
      · simp only [vpending, stageBytes, s1, s2, hdrBytes_hdrOf, List.append_nil]
        rw [p2, p1, hpd]
        rfl
      · simp only [WellStaged, s1, s2]
        exact ⟨hk, s3⟩
    · simp only [e2] at h
      simp at h
  · -- timed out inside the header
    simp only [e1] at h
    injection h with _ hc
    subst hc
    have s1 : c1.hdr = none := by rw [ss1.1, hh]
    have s2 : c1.len = none := by rw [ss1.2.1, hln]
    have s3 : c1.maskv = none := by rw [ss1.2.2.1, hmk]
    refine ⟨?_, ?_, l1, pl1⟩
    · simp only [vpending, stageBytes, s1, List.nil_append]
      exact p1
    · simp only [WellStaged, s1]
      exact ⟨s2, s3⟩
  · simp only [e1] at h
    simp at h

theorem live_virt (c : Conn) (h : Live c) : Live (virt c) := h
theorem cleared_virt (c : Conn) : Cleared (virt c) := ⟨rfl, rfl, rfl⟩

/-- **a TIMEOUT loses nothing** — from any consistent parser state, over any schedule of chunks and timeouts, a
    `recv_frame` call that raises TIMEOUT leaves the byte stream from the start of the frame in progress
    (`vpending`: stage fields re-encoded ++ buffered ++ still in the transport) exactly as it was. -/
theorem recvFrame_timeout (c : Conn) (hl : Live c) (hp : Plain c.sock.inp) (hws : WellStaged c)
    (c' : Conn) (h : c.recvFrame = (.error .timeout, c')) :
    vpending c' = vpending c ∧ WellStaged c' ∧ Live c' ∧ Plain c'.sock.inp := by
  rw [← recvFrame_virt c hws] at h
  have := recvFrame_timeout_cleared (virt c) (live_virt c hl) hp (cleared_virt c) c' h
  rw [pending_virt] at this
  exact this

/-- **the retried call resumes** — from any consistent parser state with no timeout left in the transport, if
    the stream from the start of the frame in progress holds a complete frame, `recv_frame` returns exactly
    that frame (as the RFC decoder reads it from the ORIGINAL bytes) and leaves exactly what follows it. -/
theorem recvFrame_resume (c : Conn) (hl : Live c) (hch : Chunks c.sock.inp) (hws : WellStaged c)
    (w : WireFrame) (rest : Bytes) (hdec : decode (vpending c) = .frame w rest) :
    ∃ c', c.recvFrame = ((match validate (frameOfWire w) c.skipUtf8 with
                          | some e => .error e
                          | none => .ok (frameOfWire w)), c') ∧ pending c' = rest ∧ Cleared c' := by
  rw [← pending_virt] at hdec
  obtain ⟨c', e, p, clr, _⟩ := recvFrame_decodes (virt c) (live_virt c hl) hch (cleared_virt c) w rest hdec
  rw [recvFrame_virt c hws] at e
  exact ⟨c', e, p, clr⟩

/-- `k` successive `recv_frame` calls that each raise TIMEOUT. -/
inductive TimedOut : Conn → Nat → Conn → Prop
  | zero (c : Conn) : TimedOut c 0 c
  | succ {c c1 c2 : Conn} {k : Nat} : c.recvFrame = (.error .timeout, c1) → TimedOut c1 k c2 → TimedOut c (k + 1) c2

theorem timedOut_preserves {c ck : Conn} {k : Nat} (ht : TimedOut c k ck) :
    Live c → Plain c.sock.inp → WellStaged c →
    vpending ck = vpending c ∧ WellStaged ck ∧ Live ck ∧ Plain ck.sock.inp := by
  induction ht with
  | zero c => intro hl hp hws; exact ⟨rfl, hws, hl, hp⟩
  | succ h _ ih =>
    intro hl hp hws
    obtain ⟨a, b, cc, d⟩ := recvFrame_timeout _ hl hp hws _ h
    obtain ⟨a', b', c', d'⟩ := ih cc d b
    exact ⟨a'.trans a, b', c', d'⟩

end WS.Lemmas.Resume
