/-
  WS.Lemmas.Exact — `recv_strict` / `recv_frame` never take from the transport more than the frame being read:
  after a whole frame the buffer is empty, so everything after the frame is still in the transport.
-/
import WS.Model.Conn
namespace WS.Lemmas.Exact
open WS WS.Model

/-- a socket read never returns more than was asked. -/
theorem sock_recv_len (fuel : Nat) : ∀ (s : Sock) (n : Nat) (d : Bytes) (s' : Sock),
    s.recv fuel n = (.data d, s') → d.length ≤ n := by
  induction fuel with
  | zero => intro s n d s' h; simp [Sock.recv] at h
  | succ f ih =>
    intro s n d s' h
    unfold Sock.recv at h
    simp only [] at h
    repeat' split at h
    all_goals first
      | (cases h; done)
      | (exact ih _ _ _ _ h)
      | (injection h with h1 _; injection h1 with h1; rw [← h1]; simp; try omega)

theorem sockRecv_len (c : Conn) (n : Nat) (d : Bytes) (c' : Conn) (h : c.sockRecv n = (.ok d, c')) :
    d.length ≤ n ∧ c'.buf = c.buf := by
  unfold Conn.sockRecv at h
  split at h
  · cases h
  · cases hr : c.sock.recv (c.sock.inp.length + 1) n with
    | mk res s' =>
      rw [hr] at h
      cases res with
      | data bs =>
        simp only [] at h
        injection h with h1 h2
        injection h1 with h1
        subst h1
        exact ⟨sock_recv_len _ _ _ _ _ hr, by rw [← h2]⟩
      | timedOut => simp at h
      | empty => simp at h
      | resetErr => simp at h
      | badFd => simp at h

/-- **`recv_strict` never over-reads** — the buffer never holds more than the amount being assembled, for every
    transport script; so after a successful `recv_strict(n)` that started with at most `n` buffered bytes the
    buffer is empty again. -/
theorem recvStrictLoop_buf_le (fuel : Nat) : ∀ (c : Conn) (n : Nat), c.buf.length ≤ n →
    (Conn.recvStrictLoop fuel c n).2.buf.length ≤ n := by
  induction fuel with
  | zero => intro c n h; simpa [Conn.recvStrictLoop] using h
  | succ f ih =>
    intro c n hle
    unfold Conn.recvStrictLoop
    split
    · exact hle
    · rename_i hlt
      simp only []
      cases hr : c.sockRecv (min Gen.recvCap (n - c.buf.length)) with
      | mk res c1 =>
        cases res with
        | error e =>
          simp only []
          -- buffer untouched by a failing read
          have : c1.buf = c.buf := by
            unfold Conn.sockRecv at hr
            split at hr
            · injection hr with _ h2; rw [← h2]
            · generalize c.sock.recv (c.sock.inp.length + 1) (min Gen.recvCap (n - c.buf.length)) = r at hr
              obtain ⟨rr, s'⟩ := r
              cases rr <;> simp only [] at hr <;> injection hr with _ h2 <;> rw [← h2]
          rw [this]; exact hle
        | ok bs =>
          simp only []
          obtain ⟨hl, hb⟩ := sockRecv_len c _ bs c1 hr
          apply ih
          simp only [List.length_append, hb]
          omega

theorem recvStrict_exact (c : Conn) (n : Nat) (hle : c.buf.length ≤ n) (d : Bytes) (c' : Conn)
    (h : c.recvStrict n = (.ok d, c')) : c'.buf = [] := by
  unfold Conn.recvStrict at h
  have hb := recvStrictLoop_buf_le (c.sock.size + 1) c n hle
  generalize Conn.recvStrictLoop (c.sock.size + 1) c n = r at h hb
  obtain ⟨e, c1⟩ := r
  cases e with
  | some e => simp at h
  | none =>
    simp only [] at h hb
    injection h with _ h2
    rw [← h2]
    simp only []
    apply List.eq_nil_of_length_eq_zero
    simp; omega

theorem recvHeader_exact (c : Conn) (hb : c.buf = []) (c1 : Conn) (h : c.recvHeader = (none, c1)) : c1.buf = [] := by
  unfold Conn.recvHeader at h
  cases hr : c.recvStrict 2 with
  | mk e c' =>
    rw [hr] at h
    cases e with
    | error e => simp at h
    | ok v =>
      simp only [] at h
      injection h with _ h2
      rw [← h2]
      exact recvStrict_exact c 2 (by simp [hb]) v c' hr

theorem recvLength_exact (c : Conn) (hd : Hdr) (hb : c.buf = []) (c1 : Conn) (h : c.recvLength hd = (none, c1)) : c1.buf = [] := by
  unfold Conn.recvLength at h
  simp only [] at h
  split at h
  · cases hr : c.recvStrict 2 with
    | mk e c' =>
      rw [hr] at h
      cases e with
      | error e => simp at h
      | ok v =>
        simp only [] at h
        injection h with _ h2
        rw [← h2]
        exact recvStrict_exact c 2 (by simp [hb]) v c' hr
  · split at h
    · cases hr : c.recvStrict 8 with
      | mk e c' =>
        rw [hr] at h
        cases e with
        | error e => simp at h
        | ok v =>
          simp only [] at h
          injection h with _ h2
          rw [← h2]
          exact recvStrict_exact c 8 (by simp [hb]) v c' hr
    · injection h with _ h2
      rw [← h2]; exact hb

theorem recvMask_exact (c : Conn) (hd : Hdr) (hb : c.buf = []) (c1 : Conn) (h : c.recvMask hd = (none, c1)) : c1.buf = [] := by
  unfold Conn.recvMask at h
  split at h
  · cases hr : c.recvStrict 4 with
    | mk e c' =>
      rw [hr] at h
      cases e with
      | error e => simp at h
      | ok v =>
        simp only [] at h
        injection h with _ h2
        rw [← h2]
        exact recvStrict_exact c 4 (by simp [hb]) v c' hr
  · injection h with _ h2
    rw [← h2]; exact hb

/-- **exact consumption at the transport** — a `recv_frame` call that starts with an empty buffer and reads a
    whole frame (returning it, or raising the protocol error `validate` finds in it) ends with an empty buffer:
    it has taken from the transport exactly the bytes of that frame and not one byte of what follows — for every
    chunking. -/
theorem recvFrame_exact (c : Conn) (hb : c.buf = []) (f : Frame) (c' : Conn)
    (h : c.recvFrame = (.ok f, c')) : c'.buf = [] := by
  unfold Conn.recvFrame at h
  -- stage 1
  cases h1 : (if c.hdr.isNone then c.recvHeader else (none, c)) with
  | mk e1 c1 =>
    rw [h1] at h
    have hb1 : e1 = none → c1.buf = [] := by
      intro he
      subst he
      split at h1
      · exact recvHeader_exact c hb c1 h1
      · injection h1 with _ h2; rw [← h2]; exact hb
    cases e1 with
    | some e => simp at h
    | none =>
      simp only [] at h
      cases hh : c1.hdr with
      | none => simp [hh] at h
      | some hd =>
        simp only [hh] at h
        cases h2 : (if c1.len.isNone then c1.recvLength hd else (none, c1)) with
        | mk e2 c2 =>
          rw [h2] at h
          have hb2 : e2 = none → c2.buf = [] := by
            intro he
            subst he
            split at h2
            · exact recvLength_exact c1 hd (hb1 rfl) c2 h2
            · injection h2 with _ h2'; rw [← h2']; exact hb1 rfl
          cases e2 with
          | some e => simp at h
          | none =>
            simp only [] at h
            cases h3 : (if c2.maskv.isNone then c2.recvMask hd else (none, c2)) with
            | mk e3 c3 =>
              rw [h3] at h
              have hb3 : e3 = none → c3.buf = [] := by
                intro he
                subst he
                split at h3
                · exact recvMask_exact c2 hd (hb2 rfl) c3 h3
                · injection h3 with _ h3'; rw [← h3']; exact hb2 rfl
              cases e3 with
              | some e => simp at h
              | none =>
                simp only [] at h
                cases h4 : c3.recvStrict (c2.len.getD 0) with
                | mk e4 c4 =>
                  rw [h4] at h
                  cases e4 with
                  | error e => simp at h
                  | ok payload =>
                    simp only [] at h
                    have hb4 := recvStrict_exact c3 _ (by simp [hb3 rfl]) payload c4 h4
                    split at h
                    · simp at h
                    · injection h with _ h5
                      rw [← h5]
                      exact hb4

end WS.Lemmas.Exact
