/-
  WS.Lemmas.Base64 — `decode (encode bs) = some bs` for every byte string, and the length of
  the encoding.  Core Lean only.
-/
import WS.Base.Base64
namespace WS.Lemmas.Base64
open WS WS.Base64

theorem val_char : ∀ n, n < 64 → b64Val (b64Char n) = some n := by decide

theorem char_ne_pad : ∀ n, n < 64 → b64Char n ≠ '=' := by decide

private theorem u8 (a : UInt8) (n : Nat) (h : n = a.toNat) : UInt8.ofNat n = a := by
  subst h; simp

private theorem lt256 (a : UInt8) : a.toNat < 256 := a.toNat_lt

theorem decode_encode (bs : Bytes) : decode (encode bs) = some bs := by
  fun_induction encode bs with
  | case1 => simp [decode]
  | case2 a =>
    have ha := lt256 a
    have h1 := val_char (a.toNat / 4) (by omega)
    have h2 := val_char (a.toNat % 4 * 16) (by omega)
    simp only [decode, h1, h2, and_self, if_true]
    have : a.toNat % 4 * 16 % 16 = 0 := by omega
    simp only [this, if_true]
    congr 2
    exact u8 a _ (by omega)
  | case3 a b =>
    have ha := lt256 a
    have hb := lt256 b
    have h1 := val_char (a.toNat / 4) (by omega)
    have h2 := val_char (a.toNat % 4 * 16 + b.toNat / 16) (by omega)
    have h3 := val_char (b.toNat % 16 * 4) (by omega)
    have hne := char_ne_pad (b.toNat % 16 * 4) (by omega)
    simp only [decode, h1, h2, h3, hne, false_and, if_false, if_true]
    have : b.toNat % 16 * 4 % 4 = 0 := by omega
    simp only [this, if_true]
    congr 2
    · exact u8 a _ (by omega)
    · congr 1
      exact u8 b _ (by omega)
  | case4 a b c rest ih =>
    have ha := lt256 a
    have hb := lt256 b
    have hc := lt256 c
    have h1 := val_char (a.toNat / 4) (by omega)
    have h2 := val_char (a.toNat % 4 * 16 + b.toNat / 16) (by omega)
    have h3 := val_char (b.toNat % 16 * 4 + c.toNat / 64) (by omega)
    have h4 := val_char (c.toNat % 64) (by omega)
    have hne3 := char_ne_pad (b.toNat % 16 * 4 + c.toNat / 64) (by omega)
    have hne4 := char_ne_pad (c.toNat % 64) (by omega)
    have ea : UInt8.ofNat (a.toNat / 4 * 4 + (a.toNat % 4 * 16 + b.toNat / 16) / 16) = a :=
      u8 a _ (by omega)
    have eb : UInt8.ofNat ((a.toNat % 4 * 16 + b.toNat / 16) % 16 * 16
        + (b.toNat % 16 * 4 + c.toNat / 64) / 4) = b := u8 b _ (by omega)
    have ec : UInt8.ofNat ((b.toNat % 16 * 4 + c.toNat / 64) % 4 * 64 + c.toNat % 64) = c :=
      u8 c _ (by omega)
    cases hr : encode rest with
    | nil =>
      rw [hr] at ih
      have : rest = [] := by
        cases rest with
        | nil => rfl
        | cons x xs => cases xs with
          | nil => simp [encode] at hr
          | cons y ys => cases ys <;> simp [encode] at hr
      subst this
      simp only [decode, h1, h2, h3, h4, hne3, hne4, false_and, if_false, ea, eb, ec]
    | cons ch chs =>
      rw [hr] at ih
      simp only [decode, h1, h2, h3, h4, ih, ea, eb, ec]

theorem encode_length (bs : Bytes) : (encode bs).length = 4 * ((bs.length + 2) / 3) := by
  fun_induction encode bs with
  | case1 => rfl
  | case2 a => simp
  | case3 a b => simp
  | case4 a b c rest ih => simp only [List.length_cons, ih]; omega

end WS.Lemmas.Base64
