/-
  WS.Lemmas.Timeouts — `recv_strict` over a transport of byte chunks AND timeouts: the call either completes
  (all pending bytes intact), or raises TIMEOUT having consumed exactly one timeout event with every pending byte
  and the parser-stage fields untouched, or (script exhausted) CLOSED / TIMEOUT according to the tail.
-/
import WS.Lemmas.Total
namespace WS.Lemmas.Timeouts
open WS WS.Model WS.Lemmas.RecvStrict WS.Lemmas.Total

/-- a transport of non-empty chunks and timeouts (what C03 quantifies over). -/
def Plain (inp : List TEv) : Prop := ∀ e ∈ inp, (∃ bs, e = TEv.chunk bs ∧ bs ≠ []) ∨ e = TEv.timeout

def timeoutsOf : List TEv → Nat
  | [] => 0
  | .timeout :: rest => timeoutsOf rest + 1
  | _ :: rest => timeoutsOf rest

/-- the parser-stage fields. -/
def SameStage (c c' : Conn) : Prop :=
  c'.hdr = c.hdr ∧ c'.len = c.len ∧ c'.maskv = c.maskv ∧ c'.sock.tail = c.sock.tail

theorem SameStage.rfl' (c : Conn) : SameStage c c := by simp [SameStage]
theorem SameStage.trans {a b c : Conn} (h1 : SameStage a b) (h2 : SameStage b c) : SameStage a c := by
  unfold SameStage at *
  obtain ⟨a1, a2, a3, a4⟩ := h1
  obtain ⟨b1, b2, b3, b4⟩ := h2
  exact ⟨b1.trans a1, b2.trans a2, b3.trans a3, b4.trans a4⟩

theorem plain_tail {e : TEv} {rest : List TEv} (h : Plain (e :: rest)) : Plain rest :=
  fun x hx => h x (List.mem_cons_of_mem _ hx)

/-- one read whose head event is a non-empty chunk. -/
theorem sockRecv_head_chunk (c : Conn) (n : Nat) (bs : Bytes) (rest : List TEv) (hl : Live c)
    (hinp : c.sock.inp = .chunk bs :: rest) (hbs : bs ≠ []) (hn : 0 < n) :
    ∃ c', c.sockRecv n = (.ok (bs.take n), c') ∧ bs.take n ≠ [] ∧ c'.buf = c.buf ∧ Live c' ∧ SameStage c c' ∧
      c'.sock.inp = (if (bs.drop n).isEmpty then rest else .chunk (bs.drop n) :: rest) := by
  obtain ⟨h1, h2⟩ := hl
  have hemp : bs.isEmpty = false := by
    cases bs with
    | nil => exact absurd rfl hbs
    | cons a b => rfl
  have htake : bs.take n ≠ [] := by
    cases bs with
    | nil => exact absurd rfl hbs
    | cons a b =>
      cases n with
      | zero => omega
      | succ k => simp
  unfold Conn.sockRecv
  simp only [h1, Bool.not_true, Bool.false_eq_true, if_false]
  have hlen : c.sock.inp.length + 1 = rest.length + 1 + 1 := by rw [hinp]; simp
  rw [hlen]
  unfold Sock.recv
  simp only [h2, hinp, hemp, Bool.false_eq_true, if_false]
  refine ⟨_, rfl, htake, rfl, ⟨by simp [h1], by simp [h2]⟩, by simp [SameStage], by simp⟩

/-- one read whose head event is a timeout. -/
theorem sockRecv_head_timeout (c : Conn) (n : Nat) (rest : List TEv) (hl : Live c)
    (hinp : c.sock.inp = .timeout :: rest) :
    ∃ c', c.sockRecv n = (.error .timeout, c') ∧ c'.buf = c.buf ∧ Live c' ∧ SameStage c c' ∧ c'.sock.inp = rest := by
  obtain ⟨h1, h2⟩ := hl
  unfold Conn.sockRecv
  simp only [h1, Bool.not_true, Bool.false_eq_true, if_false]
  have hlen : c.sock.inp.length + 1 = rest.length + 1 + 1 := by rw [hinp]; simp
  rw [hlen]
  unfold Sock.recv
  simp only [h2, hinp, Bool.false_eq_true, if_false]
  exact ⟨_, rfl, rfl, ⟨by simp [h1], by simp [h2]⟩, by simp [SameStage], by simp⟩

theorem bytesOf_timeout (rest : List TEv) : bytesOf (.timeout :: rest) = bytesOf rest := rfl

/-- outcome of the `recv_strict` loop on chunks + timeouts. -/
def StrictOut (c : Conn) (n : Nat) (r : Option Exn × Conn) : Prop :=
  (r.1 = none ∧ n ≤ r.2.buf.length ∧ pending r.2 = pending c ∧ Live r.2 ∧ Plain r.2.sock.inp ∧ SameStage c r.2 ∧
      timeoutsOf r.2.sock.inp = timeoutsOf c.sock.inp) ∨
  (r.1 = some .timeout ∧ pending r.2 = pending c ∧ Live r.2 ∧ Plain r.2.sock.inp ∧ SameStage c r.2 ∧
      (timeoutsOf r.2.sock.inp + 1 = timeoutsOf c.sock.inp ∨
       (r.2.sock.inp = [] ∧ c.sock.tail = .timeout ∧ timeoutsOf c.sock.inp = 0))) ∨
  (r.1 = some .closed ∧ c.sock.tail = .eof ∧ timeoutsOf c.sock.inp = 0)

theorem recvStrictLoop_plain (fuel : Nat) : ∀ (c : Conn) (n : Nat), Live c → Plain c.sock.inp →
    (bytesOf c.sock.inp).length < fuel → StrictOut c n (Conn.recvStrictLoop fuel c n) := by
  induction fuel with
  | zero => intro c n _ _ h; omega
  | succ f ih =>
    intro c n hl hpl hfu
    unfold Conn.recvStrictLoop
    by_cases hb : c.buf.length ≥ n
    · simp only [hb, if_true]
      exact Or.inl ⟨rfl, hb, rfl, hl, hpl, SameStage.rfl' c, rfl⟩
    · simp only [hb, if_false]
      have hcap : 0 < Gen.recvCap := by decide
      have hpos : 0 < min Gen.recvCap (n - c.buf.length) := by omega
      cases hinp : c.sock.inp with
      | nil =>
        -- script exhausted
        rcases conn_sockRecv_empty c (min Gen.recvCap (n - c.buf.length)) hl hinp with ⟨ht, c', e, hs, _⟩ | ⟨ht, c', e, hl', hi', hb', ht', x1, x2, x3⟩
        · simp only [e]
          exact Or.inr (Or.inr ⟨rfl, ht, by rw [hinp]; rfl⟩)
        · simp only [e]
          have hp : pending c' = pending c := by unfold pending; rw [hb', hi', hinp]
          have hpl' : Plain c'.sock.inp := by
            rw [hi']; intro e he; cases he
          have hss' : SameStage c c' := ⟨x1, x2, x3, by rw [ht', ht]⟩
          exact Or.inr (Or.inl ⟨rfl, hp, hl', hpl', hss', Or.inr ⟨hi', ht, by rw [hinp]; rfl⟩⟩)
      | cons e rest =>
        rcases hpl e (by rw [hinp]; exact List.mem_cons_self) with ⟨bs, he, hbs⟩ | he
        · subst he
          obtain ⟨c1, hr, hd, hbuf, hl1, hss, hinp1⟩ := sockRecv_head_chunk c _ bs rest hl hinp hbs hpos
          simp only [hr]
          have hdpos : 0 < (bs.take (min Gen.recvCap (n - c.buf.length))).length := by
            cases h : bs.take (min Gen.recvCap (n - c.buf.length)) with
            | nil => exact absurd h hd
            | cons a b => simp
          have hbytes : bytesOf c.sock.inp = bs.take (min Gen.recvCap (n - c.buf.length)) ++ bytesOf c1.sock.inp := by
            rw [hinp, hinp1]
            by_cases hdr : (bs.drop (min Gen.recvCap (n - c.buf.length))).isEmpty
            · have : bs.drop (min Gen.recvCap (n - c.buf.length)) = [] := by simpa using hdr
              simp only [hdr, if_true, bytesOf]
              conv => lhs; rw [← List.take_append_drop (min Gen.recvCap (n - c.buf.length)) bs, this]
              simp
            · simp only [hdr, Bool.false_eq_true, if_false, bytesOf]
              rw [← List.append_assoc, List.take_append_drop]
          have hpl1 : Plain c1.sock.inp := by
            rw [hinp1]
            rw [hinp] at hpl
            by_cases hdr : (bs.drop (min Gen.recvCap (n - c.buf.length))).isEmpty
            · simp only [hdr, if_true]; exact plain_tail hpl
            · simp only [hdr, Bool.false_eq_true, if_false]
              intro x hx
              simp at hx
              rcases hx with hx | hx
              · exact Or.inl ⟨_, hx, by simpa using hdr⟩
              · exact hpl x (List.mem_cons_of_mem _ hx)
          have hto1 : timeoutsOf c1.sock.inp = timeoutsOf c.sock.inp := by
            rw [hinp1, hinp]
            by_cases hdr : (bs.drop (min Gen.recvCap (n - c.buf.length))).isEmpty <;> simp [hdr, timeoutsOf]
          have hlen : (bytesOf c.sock.inp).length =
              (bs.take (min Gen.recvCap (n - c.buf.length))).length + (bytesOf c1.sock.inp).length := by
            rw [hbytes]; simp
          have hpend : pending { c1 with buf := c1.buf ++ bs.take (min Gen.recvCap (n - c.buf.length)) } = pending c := by
            simp [pending, hbuf, hbytes]
          have hrec := ih { c1 with buf := c1.buf ++ bs.take (min Gen.recvCap (n - c.buf.length)) } n
            (by simpa [Live] using hl1) (by simpa using hpl1) (by simp only []; omega)
          rcases hrec with ⟨a0, a1, a2, a3, a4, a5, a6⟩ | ⟨a0, a2, a3, a4, a5, a6⟩ | ⟨a0, a1, a2⟩
          · exact Or.inl ⟨a0, a1, a2.trans hpend, a3, a4, SameStage.trans hss (by simpa [SameStage] using a5), by simpa [hto1] using a6⟩
          · refine Or.inr (Or.inl ⟨a0, a2.trans hpend, a3, a4, SameStage.trans hss (by simpa [SameStage] using a5), ?_⟩)
            rcases a6 with a6 | ⟨x, y, z⟩
            · left; simpa [hto1] using a6
            · right; exact ⟨x, by simpa [hss.2.2.2] using y, by simpa [hto1] using z⟩
          · exact Or.inr (Or.inr ⟨a0, by simpa [hss.2.2.2] using a1, by simpa [hto1] using a2⟩)
        · subst he
          obtain ⟨c1, hr, hbuf, hl1, hss, hinp1⟩ := sockRecv_head_timeout c (min Gen.recvCap (n - c.buf.length)) rest hl hinp
          rw [hr]
          refine Or.inr (Or.inl ⟨rfl, ?_, hl1, by rw [hinp1]; rw [hinp] at hpl; exact plain_tail hpl, hss, ?_⟩)
          · show pending c1 = pending c
            unfold pending; rw [hbuf, hinp1, hinp]; rfl
          · left; show timeoutsOf c1.sock.inp + 1 = timeoutsOf c.sock.inp
            rw [hinp1, hinp]; rfl

end WS.Lemmas.Timeouts
