/-
  WS.Lemmas.Connect — helper lemmas for C09 / C11 about `handshake`, `_http.connect` and the
  redirect loop of `WebSocket.connect` (WS.Model.Connect).  Core Lean only.
-/
import WS.Lemmas.Handshake
import WS.Model.Connect
namespace WS.Lemmas.Connect
open WS WS.PyH2 WS.H2 WS.Model.Http WS.Model.Handshake WS.Model.Connect WS.Spec.Handshake
open WS.Lemmas.Handshake

/-- what a response returned by the model's `handshake` satisfies: it is a redirect, or it
    establishes the connection for the key of its own request. -/
def HsGood (acceptOf : Str → Str) (o : Opts) (r : HsResp) : Prop :=
  statusIn (some r.status) Gen.redirectStatuses = true ∨
  established acceptOf ⟨some r.status, r.headers⟩ r.key o.subprotocols = true

theorem getRespHeaders_ok {s s' : Sock} {st : Int} {d : Dict} {io : List IoEv}
    (h : getRespHeaders s = (.ok (st, d), s', io)) : statusIn (some st) Gen.successStatuses = true := by
  unfold getRespHeaders at h
  cases hr : readHeaders s with
  | mk r rest =>
    obtain ⟨s2, k⟩ := rest
    rw [hr] at h
    cases r with
    | error e => simp only at h; cases h
    | ok hd =>
      simp only at h
      have hbad : ∀ reads x y z, getRespHeaders.badStatus hd s2 reads ≠ (.ok x, y, z) := by
        intro reads x y z
        unfold getRespHeaders.badStatus
        repeat' split
        all_goals try dsimp only
        all_goals try split
        all_goals (intro hc; cases hc)
      cases hst : hd.status with
      | none => rw [hst] at h; exact absurd h (hbad _ _ _ _)
      | some st' =>
        rw [hst] at h
        simp only at h
        by_cases hin : statusIn (some st') Gen.successStatuses = true
        · rw [if_pos hin] at h
          cases h
          exact hin
        · rw [if_neg hin] at h
          exact absurd h (hbad _ _ _ _)

theorem handshake_sound (acceptOf : Str → Str) (s : Sock) (url : Str) (u : UrlParts) (o : Opts)
    (rand : Bytes) (jar : Str) (r : HsResp) (s' : Sock) (io : List IoEv)
    (h : handshake acceptOf s url u o rand jar = (.ok r, s', io)) :
    HsGood acceptOf o r ∧
    (∃ lines reads, getHandshakeHeaders u.resource url u.host u.port o rand jar = .ok (lines, r.key) ∧
      io = .write (encodeUtf8 (requestText lines)) :: reads) ∧
    (statusIn (some r.status) Gen.redirectStatuses = false →
      dictGetTruthy r.headers "sec-websocket-accept".toList = some (acceptOf r.key)) := by
  unfold handshake at h
  cases hg : getHandshakeHeaders u.resource url u.host u.port o rand jar with
  | error e => rw [hg] at h; simp only at h; cases h
  | ok lk =>
    obtain ⟨lines, key⟩ := lk
    rw [hg] at h
    simp only at h
    cases hsend : send s (encodeUtf8 (requestText lines)) with
    | mk r1 s1 =>
      rw [hsend] at h
      cases r1 with
      | error e => simp only at h; cases h
      | ok _ =>
        simp only at h
        cases hresp : getRespHeaders s1 with
        | mk r3 rest3 =>
          obtain ⟨s3, io3⟩ := rest3
          rw [hresp] at h
          cases r3 with
          | error e => simp only at h; cases h
          | ok sh =>
            obtain ⟨status, hdrs⟩ := sh
            have hsucc := getRespHeaders_ok hresp
            simp only at h
            by_cases hred : statusIn (some status) Gen.redirectStatuses = true
            · rw [if_pos hred] at h
              cases h
              exact ⟨Or.inl hred, ⟨lines, io3, rfl, rfl⟩, fun hf => by rw [hred] at hf; cases hf⟩
            · rw [if_neg hred] at h
              cases hv : validate acceptOf hdrs key o.subprotocols with
              | mk okb sub =>
                rw [hv] at h
                cases okb with
                | false => simp only at h; cases h
                | true =>
                  simp only at h
                  cases h
                  refine ⟨Or.inr ?_, ⟨lines, io3, rfl, rfl⟩, fun _ => validate_accept acceptOf hdrs key o.subprotocols sub hv⟩
                  have h101 : status = 101 := status_101 hsucc (by simpa using hred)
                  obtain ⟨c1, c2, c3, c4⟩ := validate_sound acceptOf (some status) hdrs key o.subprotocols sub hv
                  unfold established
                  rw [c1, c2, c3, c4]
                  simp only [clStatus, h101, Bool.and_true, decide_eq_true_eq]


/-! ### events of one `_http.connect` and one handshake -/

/-- transport `j` was opened (dialled or adopted) somewhere in `ev`. -/
def Opens (ev : List Ev) (j : Nat) : Prop := ∃ u, Ev.dial j u ∈ ev ∨ Ev.adopt j u ∈ ev

/-- every transport opened in `tr`, except possibly `cur`, has been closed in `tr`. -/
def AllClosedBut (tr : List Ev) (cur : Option Nat) : Prop :=
  ∀ j, Opens tr j → (cur = some j ∨ Ev.close j ∈ tr)

theorem opens_append {a b : List Ev} {j : Nat} : Opens (a ++ b) j ↔ Opens a j ∨ Opens b j := by
  unfold Opens
  constructor
  · rintro ⟨u, h | h⟩
    · rcases List.mem_append.mp h with h | h
      · exact Or.inl ⟨u, Or.inl h⟩
      · exact Or.inr ⟨u, Or.inl h⟩
    · rcases List.mem_append.mp h with h | h
      · exact Or.inl ⟨u, Or.inr h⟩
      · exact Or.inr ⟨u, Or.inr h⟩
  · rintro (⟨u, h | h⟩ | ⟨u, h | h⟩)
    · exact ⟨u, Or.inl (List.mem_append.mpr (Or.inl h))⟩
    · exact ⟨u, Or.inr (List.mem_append.mpr (Or.inl h))⟩
    · exact ⟨u, Or.inl (List.mem_append.mpr (Or.inr h))⟩
    · exact ⟨u, Or.inr (List.mem_append.mpr (Or.inr h))⟩

theorem hs_events {env : Env} {d : Dial} {i : Nat} {s s' : Sock} {url : Str} {u : UrlParts} {o : Opts}
    {res : Except HExn HsResp} {ev : List Ev} (h : hs env d i s url u o = (res, s', ev)) :
    ∀ e ∈ ev, ∃ x, e = Ev.io i x := by
  unfold hs at h
  cases hh : handshake env.acceptOf s url u o d.rand d.jar with
  | mk r rest =>
    obtain ⟨s2, io⟩ := rest
    rw [hh] at h
    cases h
    intro e he
    obtain ⟨x, _, hx⟩ := List.mem_map.mp he
    exact ⟨x, hx.symm⟩

theorem hs_no_opens {env : Env} {d : Dial} {i : Nat} {s s' : Sock} {url : Str} {u : UrlParts} {o : Opts}
    {res : Except HExn HsResp} {ev : List Ev} (h : hs env d i s url u o = (res, s', ev)) (j : Nat) :
    ¬ Opens ev j := by
  rintro ⟨u', hm | hm⟩
  · obtain ⟨x, hx⟩ := hs_events h _ hm; cases hx
  · obtain ⟨x, hx⟩ := hs_events h _ hm; cases hx

theorem hs_sound {env : Env} {d : Dial} {i : Nat} {s s' : Sock} {url : Str} {u : UrlParts} {o : Opts}
    {r : HsResp} {ev : List Ev} (h : hs env d i s url u o = (.ok r, s', ev)) :
    HsGood env.acceptOf o r := by
  unfold hs at h
  cases hh : handshake env.acceptOf s url u o d.rand d.jar with
  | mk r0 rest =>
    obtain ⟨s2, io⟩ := rest
    rw [hh] at h
    cases h
    exact (handshake_sound _ _ _ _ _ _ _ _ _ _ hh).1

theorem tunnelStep_events (pd : ProxyDec) (d : Dial) (i : Nat) (u : UrlParts) :
    ∀ e ∈ (tunnelStep pd d i u).2.2, ∃ x, e = Ev.plain i x := by
  unfold tunnelStep
  split
  · intro e he
    obtain ⟨x, _, hx⟩ := List.mem_map.mp he
    exact ⟨x, hx.symm⟩
  · intro e he; cases he

/-- in a block `dial i u :: (plain-text events) ++ (wraps / closes of i)` only `i` is opened. -/
theorem opens_block {i j : Nat} {u : UrlParts} {ev1 tl : List Ev}
    (hp : ∀ e ∈ ev1, ∃ x, e = Ev.plain i x)
    (htl : ∀ e ∈ tl, (∃ p ok, e = Ev.wrap i p ok) ∨ e = Ev.close i)
    (h : Opens (Ev.dial i u :: ev1 ++ tl) j) : j = i := by
  obtain ⟨u', h | h⟩ := h
  · rcases List.mem_cons.mp h with h | h
    · cases h; rfl
    · rcases List.mem_append.mp h with h | h
      · obtain ⟨x, hx⟩ := hp _ h; cases hx
      · rcases htl _ h with ⟨p, ok, hx⟩ | hx <;> cases hx
  · rcases List.mem_cons.mp h with h | h
    · cases h
    · rcases List.mem_append.mp h with h | h
      · obtain ⟨x, hx⟩ := hp _ h; cases hx
      · rcases htl _ h with ⟨p, ok, hx⟩ | hx <;> cases hx

/-- the response `r` answers a request that was written on transport `cur` and carried `r.key`:
    the headers built from the world's random draw for that dial give exactly that key, and the
    request text made of them is a write event of the trace. -/
def Sent (world : Nat → Dial) (o : Opts) (tr : List Ev) (cur : Nat) (r : HsResp) : Prop :=
  ∃ (lines : List Str) (url : Str) (u : UrlParts),
    getHandshakeHeaders u.resource url u.host u.port o (world cur).rand (world cur).jar = .ok (lines, r.key) ∧
    Ev.io cur (.write (encodeUtf8 (requestText lines))) ∈ tr

theorem Sent.mono {world : Nat → Dial} {o : Opts} {tr : List Ev} {cur : Nat} {r : HsResp}
    (h : Sent world o tr cur r) (pre post : List Ev) : Sent world o (pre ++ tr ++ post) cur r := by
  obtain ⟨lines, url, u, h1, h2⟩ := h
  exact ⟨lines, url, u, h1, List.mem_append.mpr (Or.inl (List.mem_append.mpr (Or.inr h2)))⟩

theorem hs_sent {env : Env} {world : Nat → Dial} {i : Nat} {s s' : Sock} {url : Str} {u : UrlParts} {o : Opts}
    {r : HsResp} {ev : List Ev} (h : hs env (world i) i s url u o = (.ok r, s', ev)) :
    Sent world o ev i r := by
  unfold hs at h
  cases hh : handshake env.acceptOf s url u o (world i).rand (world i).jar with
  | mk r0 rest =>
    obtain ⟨s2, io⟩ := rest
    rw [hh] at h
    cases h
    obtain ⟨_, ⟨lines, reads, h1, h2⟩, _⟩ := handshake_sound _ _ _ _ _ _ _ _ _ _ hh
    refine ⟨lines, url, u, h1, ?_⟩
    rw [h2]
    exact List.mem_map.mpr ⟨_, List.mem_cons_self, rfl⟩

/-- the events of a failed `_http.connect`: whatever it opened, it closed. -/
theorem httpConnect_err {env : Env} {d : Dial} {i : Nat} {url : Str} {us : Option Sock} {e : HExn}
    {ev : List Ev} (h : httpConnect env d i url us = (.error e, ev)) :
    ∀ j, Opens ev j → Ev.close j ∈ ev := by
  unfold httpConnect at h
  intro j hj
  cases hp : env.parseUrl url with
  | error e' => rw [hp] at h; simp only at h; cases h; obtain ⟨_, hj | hj⟩ := hj <;> cases hj
  | ok u =>
    rw [hp] at h
    simp only at h
    cases us with
    | some s => simp only at h; cases h
    | none =>
      simp only at h
      cases ha : d.addr with
      | error e' => rw [ha] at h; simp only at h; cases h; obtain ⟨_, hj | hj⟩ := hj <;> cases hj
      | ok _ =>
        rw [ha] at h
        simp only at h
        have hpl := tunnelStep_events (env.proxy u) d i u
        cases ht : tunnelStep (env.proxy u) d i u with
        | mk r1 rest =>
          obtain ⟨s1, ev1⟩ := rest
          rw [ht] at h hpl
          simp only at hpl
          cases r1 with
          | error e1 =>
            simp only at h
            cases h
            have := opens_block (tl := [Ev.close i]) hpl (by intro e he; simp at he; exact Or.inr he) hj
            subst this
            simp
          | ok _ =>
            simp only at h
            split at h
            · cases hs : Model.Tls.sslSocket env.sslopt env.tlsEnv u.host with
              | error e2 =>
                rw [hs] at h
                simp only at h
                cases h
                have := opens_block (tl := [Ev.close i]) hpl (by intro e he; simp at he; exact Or.inr he) hj
                subst this
                simp
              | ok p =>
                rw [hs] at h
                simp only at h
                cases hw : d.wrap with
                | error e3 =>
                  rw [hw] at h
                  simp only at h
                  cases h
                  have := opens_block (tl := [Ev.wrap i p false, Ev.close i]) hpl
                    (by intro e he; simp at he; rcases he with he | he
                        · exact Or.inl ⟨p, false, he⟩
                        · exact Or.inr he) hj
                  subst this
                  simp
                | ok _ => rw [hw] at h; simp only at h; cases h
            · cases h

/-- the events of a successful `_http.connect` open transport `i` and nothing else, close nothing. -/
theorem httpConnect_ok {env : Env} {d : Dial} {i : Nat} {url : Str} {us : Option Sock}
    {su : Sock × UrlParts} {ev : List Ev} (h : httpConnect env d i url us = (.ok su, ev)) :
    (∀ j, Opens ev j → j = i) ∧ (∀ j, Ev.close j ∉ ev) := by
  unfold httpConnect at h
  cases hp : env.parseUrl url with
  | error e' => rw [hp] at h; simp only at h; cases h
  | ok u =>
    rw [hp] at h
    simp only at h
    cases us with
    | some s =>
      simp only at h
      cases h
      constructor
      · rintro j ⟨u', hj | hj⟩
        · simp at hj
        · simp at hj; exact hj.1
      · intro j hj; simp at hj
    | none =>
      simp only at h
      cases ha : d.addr with
      | error e' => rw [ha] at h; simp only at h; cases h
      | ok _ =>
        rw [ha] at h
        simp only at h
        have hpl := tunnelStep_events (env.proxy u) d i u
        cases ht : tunnelStep (env.proxy u) d i u with
        | mk r1 rest =>
          obtain ⟨s1, ev1⟩ := rest
          rw [ht] at h hpl
          simp only at hpl
          cases r1 with
          | error e1 => simp only at h; cases h
          | ok _ =>
            simp only at h
            split at h
            · cases hs : Model.Tls.sslSocket env.sslopt env.tlsEnv u.host with
              | error e2 => rw [hs] at h; simp only at h; cases h
              | ok p =>
                rw [hs] at h
                simp only at h
                cases hw : d.wrap with
                | error e3 => rw [hw] at h; simp only at h; cases h
                | ok _ =>
                  rw [hw] at h
                  simp only at h
                  cases h
                  constructor
                  · intro j hj
                    exact opens_block (tl := [Ev.wrap i p true]) hpl
                      (by intro e he; simp at he; exact Or.inl ⟨p, true, he⟩) hj
                  · intro j hj
                    rcases List.mem_cons.mp hj with hj | hj
                    · cases hj
                    · rcases List.mem_append.mp hj with hj | hj
                      · obtain ⟨x, hx⟩ := hpl _ hj; cases hx
                      · simp at hj
            · cases h
              constructor
              · intro j hj
                have : Opens (Ev.dial i u :: ev1 ++ []) j := by simpa using hj
                exact opens_block (tl := []) hpl (by intro e he; cases he) this
              · intro j hj
                rcases List.mem_cons.mp hj with hj | hj
                · cases hj
                · obtain ⟨x, hx⟩ := hpl _ hj; cases hx


/-! ### the redirect loop -/

theorem acb_append {tr ev : List Ev} {c c' : Option Nat} (h : AllClosedBut tr c)
    (hev : ∀ j, Opens ev j → (c' = some j ∨ Ev.close j ∈ ev))
    (hc : c = c' ∨ c = none ∨ ∃ k, c = some k ∧ Ev.close k ∈ ev) : AllClosedBut (tr ++ ev) c' := by
  intro j hj
  rcases opens_append.mp hj with hj | hj
  · rcases h j hj with h1 | h1
    · rcases hc with hc | hc | ⟨k, hk, hcl⟩
      · left; rw [← hc]; exact h1
      · rw [hc] at h1; cases h1
      · rw [hk] at h1; cases h1
        right; exact List.mem_append.mpr (Or.inr hcl)
    · right; exact List.mem_append.mpr (Or.inl h1)
  · rcases hev j hj with h1 | h1
    · left; exact h1
    · right; exact List.mem_append.mpr (Or.inr h1)

theorem acb_weaken {tr : List Ev} {c : Option Nat} (h : AllClosedBut tr none) : AllClosedBut tr c := by
  intro j hj
  rcases h j hj with h1 | h1
  · cases h1
  · exact Or.inr h1

theorem no_opens_singleton_close (k j : Nat) : ¬ Opens [Ev.close k] j := by
  rintro ⟨u, h | h⟩ <;> (simp at h)

/-- what `connect` guarantees when it leaves through the `except:` clause. -/
structure FailPost (out : Out) : Prop where
  sock_none : out.obj.sock = none
  unconnected : out.obj.connected = false
  closed : AllClosedBut out.trace none

/-- postcondition of the redirect loop started with `i` calls made, `n` iterations left. -/
structure LoopPost (env : Env) (world : Nat → Dial) (o : Opts) (i n : Nat) (out : Out) : Prop where
  dials_le : out.dials ≤ i + n
  dials_ge : i ≤ out.dials
  ok : out.res = .ok () →
    out.obj.connected = true ∧ AllClosedBut out.trace out.obj.sock ∧
    ∃ r cur, out.obj.resp = some r ∧ out.obj.sock = some cur ∧ Sent world o out.trace cur r ∧
      established env.acceptOf ⟨some r.status, r.headers⟩ r.key o.subprotocols = true
  err : ∀ e, out.res = .error e → FailPost out

theorem final_check : Gen.h2RedirectFinalCheck = true := by decide

theorem cleanup_loopPost (env : Env) (world : Nat → Dial) (o : Opts) (i n : Nat) (e : HExn) (obj : Obj) (tr : List Ev) (d : Nat)
    (hconn : obj.connected = false) (hacb : AllClosedBut tr obj.sock) (hd1 : d ≤ i + n) (hd2 : i ≤ d) :
    LoopPost env world o i n (cleanup e obj tr d) := by
  unfold cleanup
  cases hs : obj.sock with
  | none =>
    rw [hs] at hacb
    exact { dials_le := hd1, dials_ge := hd2, ok := (by intro h; cases h),
            err := fun _ _ => { sock_none := hs, unconnected := hconn, closed := hacb } }
  | some k =>
    rw [hs] at hacb
    exact { dials_le := hd1, dials_ge := hd2, ok := (by intro h; cases h),
            err := fun _ _ =>
              { sock_none := rfl, unconnected := hconn,
                closed := acb_append hacb (fun j hj => absurd hj (no_opens_singleton_close k j))
                  (Or.inr (Or.inr ⟨k, rfl, by simp⟩)) } }

theorem loop_post (env : Env) (world : Nat → Dial) (o : Opts) :
    ∀ (n i cur : Nat) (r : HsResp) (obj : Obj) (tr : List Ev),
      HsGood env.acceptOf o r → obj.resp = some r → obj.sock = some cur → obj.connected = false →
      AllClosedBut tr (some cur) → Sent world o tr cur r →
      LoopPost env world o i n (redirectLoop env world o n i cur r obj tr) := by
  intro n
  induction n with
  | zero =>
    intro i cur r obj tr hgood hresp hsock hconn hacb hsent
    unfold redirectLoop
    by_cases hred : statusIn (some r.status) Gen.redirectStatuses = true
    · have hc : (Gen.h2RedirectFinalCheck = true ∧ statusIn (some r.status) Gen.redirectStatuses = true) :=
        ⟨final_check, hred⟩
      rw [if_pos hc]
      exact cleanup_loopPost env world o i 0 _ obj tr i hconn (by rw [hsock]; exact hacb) (by omega) (by omega)
    · have hc : ¬ (Gen.h2RedirectFinalCheck = true ∧ statusIn (some r.status) Gen.redirectStatuses = true) :=
        fun h => hred h.2
      rw [if_neg hc]
      refine ⟨by simp, by simp, ?_, (by intro e h; cases h)⟩
      intro _
      refine ⟨rfl, ?_, r, cur, hresp, hsock, hsent, ?_⟩
      · simp only [hsock]; exact hacb
      · rcases hgood with h | h
        · exact absurd h hred
        · exact h
  | succ n ih =>
    intro i cur r obj tr hgood hresp hsock hconn hacb hsent
    unfold redirectLoop
    by_cases hred : statusIn (some r.status) Gen.redirectStatuses = true
    · rw [if_pos hred]
      simp only
      cases hloc : redirectTarget env r with
      | error e =>
        simp only
        exact cleanup_loopPost env world o i (n + 1) e obj tr i hconn (by rw [hsock]; exact hacb) (by omega) (by omega)
      | ok url =>
        simp only
        have hacb1 : AllClosedBut (tr ++ [Ev.close cur]) none :=
          acb_append hacb (fun j hj => absurd hj (no_opens_singleton_close cur j))
            (Or.inr (Or.inr ⟨cur, rfl, by simp⟩))
        cases hc : httpConnect env (world i) i url none with
        | mk res ev =>
          cases res with
          | error e =>
            simp only
            have hacb2 : AllClosedBut (tr ++ [Ev.close cur] ++ ev) none :=
              acb_append hacb1 (fun j hj => Or.inr (httpConnect_err hc j hj)) (Or.inl rfl)
            exact cleanup_loopPost env world o i (n + 1) e obj (tr ++ [Ev.close cur] ++ ev) (i + 1) hconn
              (acb_weaken hacb2) (by omega) (by omega)
          | ok su =>
            obtain ⟨s, u⟩ := su
            simp only
            obtain ⟨hop, hcl⟩ := httpConnect_ok hc
            have hacb2 : AllClosedBut (tr ++ [Ev.close cur] ++ ev) (some i) :=
              acb_append hacb1 (fun j hj => Or.inl (by rw [hop j hj])) (Or.inr (Or.inl rfl))
            cases hh : hs env (world i) i s url u o with
            | mk res2 rest2 =>
              obtain ⟨s2, ev2⟩ := rest2
              have hacb3 : AllClosedBut (tr ++ [Ev.close cur] ++ ev ++ ev2) (some i) :=
                acb_append hacb2 (fun j hj => absurd hj (hs_no_opens hh j)) (Or.inl rfl)
              cases res2 with
              | error e =>
                simp only
                exact cleanup_loopPost env world o i (n + 1) e { obj with sock := some i }
                  (tr ++ [Ev.close cur] ++ ev ++ ev2) (i + 1) hconn hacb3 (by omega) (by omega)
              | ok r' =>
                simp only
                have hsent' : Sent world o (tr ++ [Ev.close cur] ++ ev ++ ev2) i r' := by
                  have := (hs_sent hh).mono (tr ++ [Ev.close cur] ++ ev) []
                  simpa using this
                have := ih (i + 1) i r' { obj with sock := some i, resp := some r' }
                  (tr ++ [Ev.close cur] ++ ev ++ ev2) (hs_sound hh) rfl rfl hconn hacb3 hsent'
                exact ⟨(by have := this.dials_le; omega), (by have := this.dials_ge; omega), this.ok, this.err⟩
    · rw [if_neg hred]
      have := ih i cur r obj tr hgood hresp hsock hconn hacb hsent
      exact ⟨(by have := this.dials_le; omega), this.dials_ge, this.ok, this.err⟩

/-- `WebSocket.connect` on a fresh object. -/
theorem connect_post (env : Env) (world : Nat → Dial) (url : Str) (o : Opts) (limit : Option Nat)
    (userSock : Option Sock) :
    LoopPost env world o 1 (limit.getD Gen.redirectLimitDefault) (connect env world url o limit userSock {}) := by
  unfold connect
  cases hc : httpConnect env (world 0) 0 url userSock with
  | mk res ev =>
    cases res with
    | error e =>
      simp only
      refine ⟨(by simp), (by simp), (by intro h; cases h), ?_⟩
      intro e' _
      refine ⟨rfl, rfl, ?_⟩
      intro j hj
      exact Or.inr (httpConnect_err hc j hj)
    | ok su =>
      obtain ⟨s, u⟩ := su
      simp only
      obtain ⟨hop, hcl⟩ := httpConnect_ok hc
      have hacb0 : AllClosedBut ev (some 0) := fun j hj => Or.inl (by rw [hop j hj])
      cases hh : hs env (world 0) 0 s url u o with
      | mk res2 rest2 =>
        obtain ⟨s2, ev2⟩ := rest2
        have hacb1 : AllClosedBut (ev ++ ev2) (some 0) :=
          acb_append hacb0 (fun j hj => absurd hj (hs_no_opens hh j)) (Or.inl rfl)
        cases res2 with
        | error e =>
          simp only
          exact cleanup_loopPost env world o 1 _ e { ({} : Obj) with sock := some 0 } (ev ++ ev2) 1 rfl hacb1
            (by omega) (by omega)
        | ok r =>
          simp only
          have hsent : Sent world o (ev ++ ev2) 0 r := by
            have := (hs_sent hh).mono ev []
            simpa using this
          exact loop_post env world o _ 1 0 r _ _ (hs_sound hh) rfl rfl rfl hacb1 hsent

end WS.Lemmas.Connect
