/-
  WS.Lemmas.Frame — masking is the RFC's positional XOR and an involution; big-endian
  round trips; header byte arithmetic.
-/
import WS.Spec.Rfc6455
import WS.Model.Frame
namespace WS.Lemmas.Frame
open WS WS.Spec WS.Model

/-! ### masking -/

theorem unmaskFrom_period (key : Bytes) (p : Bytes) : ∀ i, unmaskFrom key (i + 4) p = unmaskFrom key i p := by
  induction p with
  | nil => intro i; simp [unmaskFrom]
  | cons b rest ih =>
    intro i
    simp only [unmaskFrom, unmaskAt]
    have h : (i + 4) % 4 = i % 4 := by omega
    rw [h]
    have := ih (i + 1)
    rw [show i + 4 + 1 = i + 1 + 4 by omega, this]

theorem maskCyc_eq_unmaskFrom (k0 k1 k2 k3 : UInt8) (p : Bytes) :
    maskCyc [k0, k1, k2, k3] p = unmaskFrom [k0, k1, k2, k3] 0 p ∧
    maskCyc [k1, k2, k3, k0] p = unmaskFrom [k0, k1, k2, k3] 1 p ∧
    maskCyc [k2, k3, k0, k1] p = unmaskFrom [k0, k1, k2, k3] 2 p ∧
    maskCyc [k3, k0, k1, k2] p = unmaskFrom [k0, k1, k2, k3] 3 p := by
  induction p with
  | nil => simp [maskCyc, unmaskFrom]
  | cons b rest ih =>
    obtain ⟨h0, h1, h2, h3⟩ := ih
    refine ⟨?_, ?_, ?_, ?_⟩
    · simp [maskCyc, unmaskFrom, unmaskAt, h1]
    · simp [maskCyc, unmaskFrom, unmaskAt, h2]
    · simp [maskCyc, unmaskFrom, unmaskAt, h3]
    · have := unmaskFrom_period [k0, k1, k2, k3] rest 0
      simp [maskCyc, unmaskFrom, unmaskAt, h0, this]

/-- the code's masking is the RFC's `payload[i] XOR key[i mod 4]`. -/
theorem mask_eq_unmask (key p : Bytes) (hk : key.length = 4) : mask key p = unmask key p := by
  match key, hk with
  | [k0, k1, k2, k3], _ => exact (maskCyc_eq_unmaskFrom k0 k1 k2 k3 p).1

theorem maskCyc_length (p : Bytes) : ∀ k0 k1 k2 k3 : UInt8, (maskCyc [k0, k1, k2, k3] p).length = p.length := by
  induction p with
  | nil => intros; simp [maskCyc]
  | cons b rest ih => intros; simp [maskCyc, ih]

theorem mask_length (key p : Bytes) (hk : key.length = 4) : (mask key p).length = p.length := by
  match key, hk with
  | [k0, k1, k2, k3], _ => exact maskCyc_length p k0 k1 k2 k3

theorem xor_cancel (b k : UInt8) : b ^^^ k ^^^ k = b := by
  rw [UInt8.xor_assoc, UInt8.xor_self]; simp

theorem maskCyc_invol (p : Bytes) : ∀ k0 k1 k2 k3 : UInt8,
    maskCyc [k0, k1, k2, k3] (maskCyc [k0, k1, k2, k3] p) = p := by
  induction p with
  | nil => intros; simp [maskCyc]
  | cons b rest ih => intros; simp [maskCyc, ih, xor_cancel]

/-- masking twice with the same 4-byte key is the identity. -/
theorem mask_invol (key p : Bytes) (hk : key.length = 4) : mask key (mask key p) = p := by
  match key, hk with
  | [k0, k1, k2, k3], _ => exact maskCyc_invol p k0 k1 k2 k3

theorem unmask_mask (key p : Bytes) (hk : key.length = 4) : unmask key (mask key p) = p := by
  rw [← mask_eq_unmask key _ hk, mask_invol key p hk]

/-! ### big-endian round trips -/

theorem toNat_ofNat_lt (n : Nat) (h : n < 256) : (UInt8.ofNat n).toNat = n := by
  simp [UInt8.toNat_ofNat']; omega

theorem unbe_be2 (n : Nat) (h : n < 65536) : unbe (beN 2 n) = n := by
  have h1 : n / 256 < 256 := by omega
  have h2 : n % 256 < 256 := by omega
  simp [beN, unbe, toNat_ofNat_lt _ h1, toNat_ofNat_lt _ h2]
  omega

theorem beN_length (k n : Nat) : (beN k n).length = k := by
  induction k generalizing n with
  | zero => simp [beN]
  | succ k ih => simp [beN, ih]

theorem unbe_be8 (n : Nat) (h : n < 2 ^ 64) : unbe (beN 8 n) = n := by
  have e7 : n / 256 ^ 7 < 256 := by omega
  have e6 : n % 256 ^ 7 / 256 ^ 6 < 256 := by omega
  have e5 : n % 256 ^ 7 % 256 ^ 6 / 256 ^ 5 < 256 := by omega
  have e4 : n % 256 ^ 7 % 256 ^ 6 % 256 ^ 5 / 256 ^ 4 < 256 := by omega
  have e3 : n % 256 ^ 7 % 256 ^ 6 % 256 ^ 5 % 256 ^ 4 / 256 ^ 3 < 256 := by omega
  have e2 : n % 256 ^ 7 % 256 ^ 6 % 256 ^ 5 % 256 ^ 4 % 256 ^ 3 / 256 ^ 2 < 256 := by omega
  have e1 : n % 256 ^ 7 % 256 ^ 6 % 256 ^ 5 % 256 ^ 4 % 256 ^ 3 % 256 ^ 2 / 256 ^ 1 < 256 := by omega
  have e0 : n % 256 ^ 7 % 256 ^ 6 % 256 ^ 5 % 256 ^ 4 % 256 ^ 3 % 256 ^ 2 % 256 ^ 1 / 256 ^ 0 < 256 := by omega
  simp only [beN, unbe, List.foldl, toNat_ofNat_lt _ e7, toNat_ofNat_lt _ e6, toNat_ofNat_lt _ e5,
    toNat_ofNat_lt _ e4, toNat_ofNat_lt _ e3, toNat_ofNat_lt _ e2, toNat_ofNat_lt _ e1, toNat_ofNat_lt _ e0]
  omega

/-! ### header bytes -/

theorem hdr_byte0 : ∀ fin, fin < 2 → ∀ op ∈ Gen.opcodes,
    (UInt8.ofNat (fin <<< 7 ||| 0 <<< 6 ||| 0 <<< 5 ||| 0 <<< 4 ||| op)).toNat = fin * 128 + op := by
  decide

theorem hdr_byte1_small : ∀ n, n < 126 → (UInt8.ofNat (1 <<< 7 ||| n)).toNat = 128 + n := by
  decide

theorem hdr_byte1_16 : (UInt8.ofNat (1 <<< 7 ||| 0x7E)).toNat = 254 := by decide
theorem hdr_byte1_64 : (UInt8.ofNat (1 <<< 7 ||| 0x7F)).toNat = 255 := by decide

theorem opcode_lt_16 : ∀ op ∈ Gen.opcodes, op < 16 := by decide

/-! ### the RFC decoder on explicit header bytes -/

theorem unmask_length (key p : Bytes) : (unmask key p).length = p.length := by
  unfold unmask
  generalize 0 = i
  induction p generalizing i with
  | nil => simp [unmaskFrom]
  | cons b r ih => simp [unmaskFrom, ih]

theorem unmask_invol (key p : Bytes) (hk : key.length = 4) : unmask key (unmask key p) = p := by
  rw [← mask_eq_unmask key p hk, ← mask_eq_unmask key _ hk, mask_invol key p hk]

/-- the frame record the decoder builds from the first header byte. -/
def mkWire (b0 : UInt8) (masked : Bool) (key : Bytes) (form : Nat) (payload : Bytes) : WireFrame :=
  { fin := b0.toNat / 128, rsv1 := b0.toNat / 64 % 2, rsv2 := b0.toNat / 32 % 2,
    rsv3 := b0.toNat / 16 % 2, opcode := b0.toNat % 16, masked := masked, key := key,
    lenForm := form, payload := payload }

theorem decodePayload_masked (b0 : UInt8) (form : Nat) (key body rest : Bytes) (hk : key.length = 4) :
    decodePayload b0 true form body.length (key ++ (body ++ rest)) =
      .frame (mkWire b0 true key form (unmask key body)) rest := by
  simp [decodePayload, hk, mkWire]

theorem decodePayload_plain (b0 : UInt8) (form : Nat) (body rest : Bytes) :
    decodePayload b0 false form body.length (body ++ rest) =
      .frame (mkWire b0 false [] form body) rest := by
  simp [decodePayload, mkWire]

/-- what the decoder does after the two fixed header bytes, in terms of MASK and the length form. -/
theorem decode_cons (b0 b1 : UInt8) (masked : Bool) (form : Nat) (ext key body rest : Bytes)
    (hm : (b1.toNat / 128 == 1) = masked)
    (hform : (form = 7 ∧ b1.toNat % 128 = body.length ∧ body.length < 126 ∧ ext = []) ∨
             (form = 16 ∧ b1.toNat % 128 = 126 ∧ ext.length = 2 ∧ unbe ext = body.length) ∨
             (form = 64 ∧ b1.toNat % 128 = 127 ∧ ext.length = 8 ∧ unbe ext = body.length))
    (hkey : if masked then key.length = 4 else key = []) :
    decode (b0 :: b1 :: (ext ++ (key ++ (body ++ rest)))) =
      .frame (mkWire b0 masked key form (if masked then unmask key body else body)) rest := by
  have hp : decodePayload b0 masked form body.length (key ++ (body ++ rest)) =
      .frame (mkWire b0 masked key form (if masked then unmask key body else body)) rest := by
    cases masked with
    | true => simp only [if_true] at hkey ⊢; exact decodePayload_masked b0 form key body rest hkey
    | false =>
      simp only [Bool.false_eq_true, if_false] at hkey ⊢
      subst hkey
      exact decodePayload_plain b0 form body rest
  simp only [decode, hm]
  rcases hform with ⟨rfl, h7, hlt, rfl⟩ | ⟨rfl, h16, hel, hv⟩ | ⟨rfl, h64, hel, hv⟩
  · have n1 : ¬ body.length = 126 := by omega
    have n2 : ¬ body.length = 127 := by omega
    simp only [decodeLen, h7, n1, n2, if_false, List.nil_append]
    exact hp
  · simp only [decodeLen, h16, if_true]
    have : ¬ (ext ++ (key ++ (body ++ rest))).length < 2 := by simp [hel]
    simp only [this, if_false]
    have ht : (ext ++ (key ++ (body ++ rest))).take 2 = ext := by
      rw [← hel]; simp
    have hd : (ext ++ (key ++ (body ++ rest))).drop 2 = key ++ (body ++ rest) := by
      rw [← hel]; simp
    rw [ht, hd, hv]
    exact hp
  · have n1 : ¬ (127 = 126) := by omega
    simp only [decodeLen, h64, n1, if_false, if_true]
    have : ¬ (ext ++ (key ++ (body ++ rest))).length < 8 := by simp [hel]
    simp only [this, if_false]
    have ht : (ext ++ (key ++ (body ++ rest))).take 8 = ext := by
      rw [← hel]; simp
    have hd : (ext ++ (key ++ (body ++ rest))).drop 8 = key ++ (body ++ rest) := by
      rw [← hel]; simp
    rw [ht, hd, hv]
    exact hp

end WS.Lemmas.Frame
