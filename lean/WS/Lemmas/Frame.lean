/-
  WS.Lemmas.Frame — masking is the RFC's positional XOR and an involution; big-endian
  round trips; header byte arithmetic.
-/
import WS.Spec.Rfc6455
import WS.Model.Frame
namespace WS.Lemmas.Frame
open WS WS.Spec WS.Model

/-! ### masking -/

theorem unmaskFrom_period (key : Bytes) (p : Bytes) : ∀ i, unmaskFrom key (i + 4) p = unmaskFrom key i p := by
  induction p with
  | nil => intro i; simp [unmaskFrom]
  | cons b rest ih =>
    intro i
    simp only [unmaskFrom, unmaskAt]
    have h : (i + 4) % 4 = i % 4 := by omega
    rw [h]
    have := ih (i + 1)
    rw [show i + 4 + 1 = i + 1 + 4 by omega, this]

theorem maskCyc_eq_unmaskFrom (k0 k1 k2 k3 : UInt8) (p : Bytes) :
    maskCyc [k0, k1, k2, k3] p = unmaskFrom [k0, k1, k2, k3] 0 p ∧
    maskCyc [k1, k2, k3, k0] p = unmaskFrom [k0, k1, k2, k3] 1 p ∧
    maskCyc [k2, k3, k0, k1] p = unmaskFrom [k0, k1, k2, k3] 2 p ∧
    maskCyc [k3, k0, k1, k2] p = unmaskFrom [k0, k1, k2, k3] 3 p := by
  induction p with
  | nil => simp [maskCyc, unmaskFrom]
  | cons b rest ih =>
    obtain ⟨h0, h1, h2, h3⟩ := ih
    refine ⟨?_, ?_, ?_, ?_⟩
    · simp [maskCyc, unmaskFrom, unmaskAt, h1]
    · simp [maskCyc, unmaskFrom, unmaskAt, h2]
    · simp [maskCyc, unmaskFrom, unmaskAt, h3]
    · have := unmaskFrom_period [k0, k1, k2, k3] rest 0
      simp [maskCyc, unmaskFrom, unmaskAt, h0, this]

/-- the code's masking is the RFC's `payload[i] XOR key[i mod 4]`. -/
theorem mask_eq_unmask (key p : Bytes) (hk : key.length = 4) : mask key p = unmask key p := by
  match key, hk with
  | [k0, k1, k2, k3], _ => exact (maskCyc_eq_unmaskFrom k0 k1 k2 k3 p).1

theorem maskCyc_length (p : Bytes) : ∀ k0 k1 k2 k3 : UInt8, (maskCyc [k0, k1, k2, k3] p).length = p.length := by
  induction p with
  | nil => intros; simp [maskCyc]
  | cons b rest ih => intros; simp [maskCyc, ih]

theorem mask_length (key p : Bytes) (hk : key.length = 4) : (mask key p).length = p.length := by
  match key, hk with
  | [k0, k1, k2, k3], _ => exact maskCyc_length p k0 k1 k2 k3

theorem xor_cancel (b k : UInt8) : b ^^^ k ^^^ k = b := by
  rw [UInt8.xor_assoc, UInt8.xor_self]; simp

theorem maskCyc_invol (p : Bytes) : ∀ k0 k1 k2 k3 : UInt8,
    maskCyc [k0, k1, k2, k3] (maskCyc [k0, k1, k2, k3] p) = p := by
  induction p with
  | nil => intros; simp [maskCyc]
  | cons b rest ih => intros; simp [maskCyc, ih, xor_cancel]

/-- masking twice with the same 4-byte key is the identity. -/
theorem mask_invol (key p : Bytes) (hk : key.length = 4) : mask key (mask key p) = p := by
  match key, hk with
  | [k0, k1, k2, k3], _ => exact maskCyc_invol p k0 k1 k2 k3

theorem unmask_mask (key p : Bytes) (hk : key.length = 4) : unmask key (mask key p) = p := by
  rw [← mask_eq_unmask key _ hk, mask_invol key p hk]

/-! ### big-endian round trips -/

theorem toNat_ofNat_lt (n : Nat) (h : n < 256) : (UInt8.ofNat n).toNat = n := by
  simp [UInt8.toNat_ofNat']; omega

theorem unbe_be2 (n : Nat) (h : n < 65536) : unbe (beN 2 n) = n := by
  have h1 : n / 256 < 256 := by omega
  have h2 : n % 256 < 256 := by omega
  simp [beN, unbe, toNat_ofNat_lt _ h1, toNat_ofNat_lt _ h2]
  omega

theorem beN_length (k n : Nat) : (beN k n).length = k := by
  induction k generalizing n with
  | zero => simp [beN]
  | succ k ih => simp [beN, ih]

theorem unbe_be8 (n : Nat) (h : n < 2 ^ 64) : unbe (beN 8 n) = n := by
  have e7 : n / 256 ^ 7 < 256 := by omega
  have e6 : n % 256 ^ 7 / 256 ^ 6 < 256 := by omega
  have e5 : n % 256 ^ 7 % 256 ^ 6 / 256 ^ 5 < 256 := by omega
  have e4 : n % 256 ^ 7 % 256 ^ 6 % 256 ^ 5 / 256 ^ 4 < 256 := by omega
  have e3 : n % 256 ^ 7 % 256 ^ 6 % 256 ^ 5 % 256 ^ 4 / 256 ^ 3 < 256 := by omega
  have e2 : n % 256 ^ 7 % 256 ^ 6 % 256 ^ 5 % 256 ^ 4 % 256 ^ 3 / 256 ^ 2 < 256 := by omega
  have e1 : n % 256 ^ 7 % 256 ^ 6 % 256 ^ 5 % 256 ^ 4 % 256 ^ 3 % 256 ^ 2 / 256 ^ 1 < 256 := by omega
  have e0 : n % 256 ^ 7 % 256 ^ 6 % 256 ^ 5 % 256 ^ 4 % 256 ^ 3 % 256 ^ 2 % 256 ^ 1 / 256 ^ 0 < 256 := by omega
  simp only [beN, unbe, List.foldl, toNat_ofNat_lt _ e7, toNat_ofNat_lt _ e6, toNat_ofNat_lt _ e5,
    toNat_ofNat_lt _ e4, toNat_ofNat_lt _ e3, toNat_ofNat_lt _ e2, toNat_ofNat_lt _ e1, toNat_ofNat_lt _ e0]
  omega

/-! ### header bytes -/

theorem hdr_byte0 : ∀ fin, fin < 2 → ∀ op ∈ Gen.opcodes,
    (UInt8.ofNat (fin <<< 7 ||| 0 <<< 6 ||| 0 <<< 5 ||| 0 <<< 4 ||| op)).toNat = fin * 128 + op := by
  decide

theorem hdr_byte1_small : ∀ n, n < 126 → (UInt8.ofNat (1 <<< 7 ||| n)).toNat = 128 + n := by
  decide

theorem hdr_byte1_16 : (UInt8.ofNat (1 <<< 7 ||| 0x7E)).toNat = 254 := by decide
theorem hdr_byte1_64 : (UInt8.ofNat (1 <<< 7 ||| 0x7F)).toNat = 255 := by decide

theorem opcode_lt_16 : ∀ op ∈ Gen.opcodes, op < 16 := by decide

/-! ### the RFC decoder on explicit header bytes -/

theorem unmask_length (key p : Bytes) : (unmask key p).length = p.length := by
  unfold unmask
  generalize 0 = i
  induction p generalizing i with
  | nil => simp [unmaskFrom]
  | cons b r ih => simp [unmaskFrom, ih]

theorem unmask_invol (key p : Bytes) (hk : key.length = 4) : unmask key (unmask key p) = p := by
  rw [← mask_eq_unmask key p hk, ← mask_eq_unmask key _ hk, mask_invol key p hk]

/-- the frame record the decoder builds from the first header byte. -/
def mkWire (b0 : UInt8) (masked : Bool) (key : Bytes) (form : Nat) (payload : Bytes) : WireFrame :=
  { fin := b0.toNat / 128, rsv1 := b0.toNat / 64 % 2, rsv2 := b0.toNat / 32 % 2,
    rsv3 := b0.toNat / 16 % 2, opcode := b0.toNat % 16, masked := masked, key := key,
    lenForm := form, payload := payload }

theorem decodePayload_masked (b0 : UInt8) (form : Nat) (key body rest : Bytes) (hk : key.length = 4) :
    decodePayload b0 true form body.length (key ++ (body ++ rest)) =
      .frame (mkWire b0 true key form (unmask key body)) rest := by
  simp [decodePayload, hk, mkWire]

theorem decodePayload_plain (b0 : UInt8) (form : Nat) (body rest : Bytes) :
    decodePayload b0 false form body.length (body ++ rest) =
      .frame (mkWire b0 false [] form body) rest := by
  simp [decodePayload, mkWire]

/-- what the decoder does after the two fixed header bytes, in terms of MASK and the length form. -/
theorem decode_cons (b0 b1 : UInt8) (masked : Bool) (form : Nat) (ext key body rest : Bytes)
    (hm : (b1.toNat / 128 == 1) = masked)
    (hform : (form = 7 ∧ b1.toNat % 128 = body.length ∧ body.length < 126 ∧ ext = []) ∨
             (form = 16 ∧ b1.toNat % 128 = 126 ∧ ext.length = 2 ∧ unbe ext = body.length) ∨
             (form = 64 ∧ b1.toNat % 128 = 127 ∧ ext.length = 8 ∧ unbe ext = body.length))
    (hkey : if masked then key.length = 4 else key = []) :
    decode (b0 :: b1 :: (ext ++ (key ++ (body ++ rest)))) =
      .frame (mkWire b0 masked key form (if masked then unmask key body else body)) rest := by
  have hp : decodePayload b0 masked form body.length (key ++ (body ++ rest)) =
      .frame (mkWire b0 masked key form (if masked then unmask key body else body)) rest := by
    cases masked with
    | true => simp only [if_true] at hkey ⊢; exact decodePayload_masked b0 form key body rest hkey
    | false =>
      simp only [Bool.false_eq_true, if_false] at hkey ⊢
      subst hkey
      exact decodePayload_plain b0 form body rest
  simp only [decode, hm]
  rcases hform with ⟨rfl, h7, hlt, rfl⟩ | ⟨rfl, h16, hel, hv⟩ | ⟨rfl, h64, hel, hv⟩
  · have n1 : ¬ body.length = 126 := by omega
    have n2 : ¬ body.length = 127 := by omega
    simp only [decodeLen, h7, n1, n2, if_false, List.nil_append]
    exact hp
  · simp only [decodeLen, h16, if_true]
    have : ¬ (ext ++ (key ++ (body ++ rest))).length < 2 := by simp [hel]
    simp only [this, if_false]
    have ht : (ext ++ (key ++ (body ++ rest))).take 2 = ext := by
      rw [← hel]; simp
    have hd : (ext ++ (key ++ (body ++ rest))).drop 2 = key ++ (body ++ rest) := by
      rw [← hel]; simp
    rw [ht, hd, hv]
    exact hp
  · have n1 : ¬ (127 = 126) := by omega
    simp only [decodeLen, h64, n1, if_false, if_true]
    have : ¬ (ext ++ (key ++ (body ++ rest))).length < 8 := by simp [hel]
    simp only [this, if_false]
    have ht : (ext ++ (key ++ (body ++ rest))).take 8 = ext := by
      rw [← hel]; simp
    have hd : (ext ++ (key ++ (body ++ rest))).drop 8 = key ++ (body ++ rest) := by
      rw [← hel]; simp
    rw [ht, hd, hv]
    exact hp

/-! ### decode ∘ encode -/

theorem b0_fields (fin rsv1 rsv2 rsv3 op : Nat)
    (hf : fin < 2) (h1 : rsv1 < 2) (h2 : rsv2 < 2) (h3 : rsv3 < 2) (hop : op < 16) (masked : Bool) (key : Bytes) (form : Nat) (p : Bytes) :
    mkWire (UInt8.ofNat (fin * 128 + rsv1 * 64 + rsv2 * 32 + rsv3 * 16 + op)) masked key form p =
      { fin := fin, rsv1 := rsv1, rsv2 := rsv2, rsv3 := rsv3, opcode := op, masked := masked, key := key,
        lenForm := form, payload := p } := by
  have hb0 : (UInt8.ofNat (fin * 128 + rsv1 * 64 + rsv2 * 32 + rsv3 * 16 + op)).toNat
      = fin * 128 + rsv1 * 64 + rsv2 * 32 + rsv3 * 16 + op := toNat_ofNat_lt _ (by omega)
  simp only [mkWire, hb0]
  have a0 : (fin * 128 + rsv1 * 64 + rsv2 * 32 + rsv3 * 16 + op) / 128 = fin := by omega
  have a1 : (fin * 128 + rsv1 * 64 + rsv2 * 32 + rsv3 * 16 + op) / 64 % 2 = rsv1 := by omega
  have a2 : (fin * 128 + rsv1 * 64 + rsv2 * 32 + rsv3 * 16 + op) / 32 % 2 = rsv2 := by omega
  have a3 : (fin * 128 + rsv1 * 64 + rsv2 * 32 + rsv3 * 16 + op) / 16 % 2 = rsv3 := by omega
  have a4 : (fin * 128 + rsv1 * 64 + rsv2 * 32 + rsv3 * 16 + op) % 16 = op := by omega
  rw [a0, a1, a2, a3, a4]

theorem decode_encode (fin rsv1 rsv2 rsv3 op : Nat) (key : Option Bytes) (form : Nat) (p rest : Bytes)
    (hf : fin < 2) (h1 : rsv1 < 2) (h2 : rsv2 < 2) (h3 : rsv3 < 2) (hop : op < 16)
    (hk : ∀ k, key = some k → k.length = 4)
    (hform : (form = 7 ∧ p.length < 126) ∨ (form = 16 ∧ p.length < 65536) ∨ (form = 64 ∧ p.length < 2 ^ 64)) :
    decode (encode fin rsv1 rsv2 rsv3 op key form p ++ rest) =
      .frame { fin := fin, rsv1 := rsv1, rsv2 := rsv2, rsv3 := rsv3, opcode := op,
               masked := key.isSome, key := key.getD [], lenForm := form, payload := p } rest := by
  cases key with
  | none =>
    have hm : ∀ x, x < 128 → ((UInt8.ofNat (0 + x)).toNat / 128 == 1) = false := by
      intro x hx
      rw [toNat_ofNat_lt _ (by omega)]
      have : (0 + x) / 128 = 0 := by omega
      rw [this]; decide
    rcases hform with ⟨rfl, hn⟩ | ⟨rfl, hn⟩ | ⟨rfl, hn⟩
    · have hd := decode_cons (UInt8.ofNat (fin * 128 + rsv1 * 64 + rsv2 * 32 + rsv3 * 16 + op))
        (UInt8.ofNat (0 + p.length)) false 7 [] [] p rest (hm _ (by omega))
        (Or.inl ⟨rfl, by rw [toNat_ofNat_lt _ (by omega)]; omega, hn, rfl⟩) (by simp)
      simp only [List.nil_append, Bool.false_eq_true, if_false] at hd
      simp only [encode, Option.isSome_none, Bool.false_eq_true, if_false, if_true, List.cons_append, List.nil_append,
        Option.getD_none]
      rw [hd, b0_fields fin rsv1 rsv2 rsv3 op hf h1 h2 h3 hop]
    · have hd := decode_cons (UInt8.ofNat (fin * 128 + rsv1 * 64 + rsv2 * 32 + rsv3 * 16 + op))
        (UInt8.ofNat (0 + 126)) false 16 (beN 2 p.length) [] p rest (hm _ (by omega))
        (Or.inr (Or.inl ⟨rfl, by decide, beN_length 2 _, unbe_be2 _ hn⟩)) (by simp)
      simp only [List.nil_append, Bool.false_eq_true, if_false] at hd
      have n7 : ¬ (16 = 7) := by omega
      simp only [encode, Option.isSome_none, Bool.false_eq_true, if_false, if_true, n7, List.cons_append,
        Option.getD_none, List.append_assoc]
      rw [hd, b0_fields fin rsv1 rsv2 rsv3 op hf h1 h2 h3 hop]
    · have hd := decode_cons (UInt8.ofNat (fin * 128 + rsv1 * 64 + rsv2 * 32 + rsv3 * 16 + op))
        (UInt8.ofNat (0 + 127)) false 64 (beN 8 p.length) [] p rest (hm _ (by omega))
        (Or.inr (Or.inr ⟨rfl, by decide, beN_length 8 _, unbe_be8 _ hn⟩)) (by simp)
      simp only [List.nil_append, Bool.false_eq_true, if_false] at hd
      have n7 : ¬ (64 = 7) := by omega
      have n16 : ¬ (64 = 16) := by omega
      simp only [encode, Option.isSome_none, Bool.false_eq_true, if_false, n7, n16, List.cons_append,
        Option.getD_none, List.append_assoc]
      rw [hd, b0_fields fin rsv1 rsv2 rsv3 op hf h1 h2 h3 hop]
  | some k =>
    have hkl := hk k rfl
    have hul := unmask_length k p
    have hui := unmask_invol k p hkl
    have hm : ∀ x, x < 128 → ((UInt8.ofNat (128 + x)).toNat / 128 == 1) = true := by
      intro x hx
      rw [toNat_ofNat_lt _ (by omega)]
      have : (128 + x) / 128 = 1 := by omega
      rw [this]; decide
    rcases hform with ⟨rfl, hn⟩ | ⟨rfl, hn⟩ | ⟨rfl, hn⟩
    · have hd := decode_cons (UInt8.ofNat (fin * 128 + rsv1 * 64 + rsv2 * 32 + rsv3 * 16 + op))
        (UInt8.ofNat (128 + p.length)) true 7 [] k (unmask k p) rest (hm _ (by omega))
        (Or.inl ⟨rfl, by rw [toNat_ofNat_lt _ (by omega), hul]; omega, by rw [hul]; exact hn, rfl⟩) (by simpa using hkl)
      simp only [List.nil_append, if_true, hui] at hd
      simp only [encode, Option.isSome_some, if_true, List.cons_append, List.nil_append,
        Option.getD_some, List.append_assoc]
      rw [hd, b0_fields fin rsv1 rsv2 rsv3 op hf h1 h2 h3 hop]
    · have hd := decode_cons (UInt8.ofNat (fin * 128 + rsv1 * 64 + rsv2 * 32 + rsv3 * 16 + op))
        (UInt8.ofNat (128 + 126)) true 16 (beN 2 p.length) k (unmask k p) rest (hm _ (by omega))
        (Or.inr (Or.inl ⟨rfl, by decide, beN_length 2 _, by rw [hul]; exact unbe_be2 _ hn⟩)) (by simpa using hkl)
      simp only [if_true, hui] at hd
      have n7 : ¬ (16 = 7) := by omega
      simp only [encode, Option.isSome_some, if_true, if_false, n7, List.cons_append,
        Option.getD_some, List.append_assoc]
      rw [hd, b0_fields fin rsv1 rsv2 rsv3 op hf h1 h2 h3 hop]
    · have hd := decode_cons (UInt8.ofNat (fin * 128 + rsv1 * 64 + rsv2 * 32 + rsv3 * 16 + op))
        (UInt8.ofNat (128 + 127)) true 64 (beN 8 p.length) k (unmask k p) rest (hm _ (by omega))
        (Or.inr (Or.inr ⟨rfl, by decide, beN_length 8 _, by rw [hul]; exact unbe_be8 _ hn⟩)) (by simpa using hkl)
      simp only [if_true, hui] at hd
      have n7 : ¬ (64 = 7) := by omega
      have n16 : ¬ (64 = 16) := by omega
      simp only [encode, Option.isSome_some, if_true, if_false, n7, n16, List.cons_append,
        Option.getD_some, List.append_assoc]
      rw [hd, b0_fields fin rsv1 rsv2 rsv3 op hf h1 h2 h3 hop]

end WS.Lemmas.Frame
