/-
  WS.Lemmas.Loop — the `recv_data_frame` loop over one (possibly fragmented) message with any number
  of pings/pongs interleaved, on the concrete connection model (parser + transport + writes):
  delivers the first fragment's opcode with the in-order concatenation, answers every ping with exactly
  one pong (in order, nothing else written), resets the reassembly state, consumes exactly the message.
-/
import WS.Lemmas.Stream
import WS.Lemmas.ShortWrites
namespace WS.Lemmas.Loop
open WS WS.Model WS.Spec WS.Lemmas.RecvStrict WS.Lemmas.Frame WS.Lemmas.Parser WS.Lemmas.Stream WS.Lemmas.ShortWrites

/-- what a write leaves alone: everything on the receive side. -/
def SameRecv (c c' : Conn) : Prop :=
  c'.buf = c.buf ∧ c'.sock.inp = c.sock.inp ∧ c'.hdr = c.hdr ∧ c'.len = c.len ∧ c'.maskv = c.maskv ∧
  c'.contData = c.contData ∧ c'.recving = c.recving ∧ c'.fireCont = c.fireCont ∧ c'.skipUtf8 = c.skipUtf8 ∧
  c'.connected = c.connected ∧ c'.hasSock = c.hasSock ∧ c'.sock.closed = c.sock.closed ∧ c'.sock.tail = c.sock.tail ∧
  c'.sock.recvSizes = c.sock.recvSizes

theorem SameRecv.rfl' (c : Conn) : SameRecv c c := by simp [SameRecv]

theorem SameRecv.trans {a b c : Conn} (h1 : SameRecv a b) (h2 : SameRecv b c) : SameRecv a c := by
  unfold SameRecv at *
  obtain ⟨a1, a2, a3, a4, a5, a6, a7, a8, a9, a10, a11, a12, a13, a14⟩ := h1
  obtain ⟨b1, b2, b3, b4, b5, b6, b7, b8, b9, b10, b11, b12, b13, b14⟩ := h2
  refine ⟨?_, ?_, ?_, ?_, ?_, ?_, ?_, ?_, ?_, ?_, ?_, ?_, ?_, ?_⟩ <;> simp [*]

theorem sock_send_sameRecv (s : Sock) (d : Bytes) :
    (s.send d).2.inp = s.inp ∧ (s.send d).2.closed = s.closed ∧ (s.send d).2.tail = s.tail ∧
    (s.send d).2.recvSizes = s.recvSizes := by
  unfold Sock.send
  simp only []
  repeat' split
  all_goals simp

theorem sockSend_sameRecv (c : Conn) (d : Bytes) : SameRecv c (c.sockSend d).2 := by
  unfold Conn.sockSend
  split
  · exact SameRecv.rfl' c
  · have := sock_send_sameRecv c.sock d
    generalize c.sock.send d = r at this
    obtain ⟨res, s'⟩ := r
    cases res <;> simpa [SameRecv] using this

theorem sendLoop_sameRecv (fuel : Nat) : ∀ (c : Conn) (d : Bytes), SameRecv c (Conn.sendLoop fuel c d).2 := by
  induction fuel with
  | zero => intro c d; simp [Conn.sendLoop, SameRecv]
  | succ f ih =>
    intro c d
    unfold Conn.sendLoop
    split
    · exact SameRecv.rfl' c
    · have h1 := sockSend_sameRecv c d
      generalize c.sockSend d = r at h1
      obtain ⟨res, c1⟩ := r
      cases res with
      | error e => simpa using h1
      | ok l => exact SameRecv.trans h1 (ih c1 _)

theorem sendFrame_sameRecv (c : Conn) (f : Frame) : SameRecv c (c.sendFrame f).2 := by
  unfold Conn.sendFrame
  simp only []
  split
  · exact SameRecv.rfl' c
  · rename_i data _
    have hb : SameRecv c (if f.mask != 0 then { c with keys := c.keys.tail, keyDraws := c.keyDraws + 1 } else c) := by
      split <;> simp [SameRecv]
    have := sendLoop_sameRecv (data.length + 1) (if f.mask != 0 then { c with keys := c.keys.tail, keyDraws := c.keyDraws + 1 } else c) data
    generalize Conn.sendLoop (data.length + 1) _ data = r at this
    obtain ⟨e, c'⟩ := r
    cases e <;> exact SameRecv.trans hb (by simpa using this)

theorem pending_sameRecv {c c' : Conn} (h : SameRecv c c') : pending c' = pending c := by
  simp [pending, h.1, h.2.1]

theorem live_sameRecv {c c' : Conn} (h : SameRecv c c') (hl : Live c) : Live c' := by
  unfold Live at *
  obtain ⟨_, _, _, _, _, _, _, _, _, _, a11, a12, _, _⟩ := h
  rw [a11, a12]; exact hl

theorem chunks_sameRecv {c c' : Conn} (h : SameRecv c c') (hc : Chunks c.sock.inp) : Chunks c'.sock.inp := by
  rw [h.2.1]; exact hc

theorem cleared_sameRecv {c c' : Conn} (h : SameRecv c c') (hc : Cleared c) : Cleared c' := by
  unfold Cleared at *
  rw [h.2.2.1, h.2.2.2.1, h.2.2.2.2.1]; exact hc

/-- a pong (any control reply) on a writable connection: succeeds, adds exactly its formatted frame to the
    wire, leaves the receive side alone. -/
theorem send_ok (c : Conn) (p : Bytes) (op : Nat) (hw : Writable c) (hop : op ∈ Gen.opcodes) (hlen : p.length < 2 ^ 63) :
    ∃ w c', format (createFrame p op) (c.keys.headD [0, 0, 0, 0]) = .ok w ∧
      c.send p op = (.ok w.length, c') ∧ c'.sock.wire = c.sock.wire ++ w ∧ Writable c' ∧ SameRecv c c' := by
  have hcont : Gen.opcodes.contains op = true := by simpa using hop
  have c63 : Gen.length63 = 2 ^ 63 := by decide
  have hn : ¬ (2 ^ 63 ≤ p.length) := by omega
  have hfmt : ∃ w, format (createFrame p op) (c.keys.headD [0, 0, 0, 0]) = .ok w := by
    simp only [format, createFrame, hcont, bit01, c63]
    simp [hn]
  obtain ⟨w, hw0⟩ := hfmt
  have hsr := sendFrame_sameRecv c (createFrame p op)
  unfold Conn.send
  unfold Conn.sendFrame at hsr ⊢
  simp only [hw0] at hsr ⊢
  have hw' : Writable (if (createFrame p op).mask != 0 then { c with keys := c.keys.tail, keyDraws := c.keyDraws + 1 } else c) := by
    split <;> simpa [Writable] using hw
  obtain ⟨c', h1, h2, h3⟩ := sendLoop_writes_all (w.length + 1) _ w hw' (by omega)
  rw [h1] at hsr ⊢
  refine ⟨w, c', rfl, rfl, ?_, h3, by simpa using hsr⟩
  rw [h2]
  split <;> rfl

/-! ## the receive loop over one (possibly fragmented) message with control frames interleaved -/

def isPing (f : Frame) : Prop := f.opcode = 9 ∧ f.fin = 1 ∧ f.data.length ≤ 125
def isPong (f : Frame) : Prop := f.opcode = 10

/-- the frames that make up (the remainder of) one message: any number of pings/pongs before each
    fragment; a first fragment with opcode 1|2 (when none has been seen), continuation fragments with
    opcode 0; exactly the last fragment has FIN = 1. `started = some op` once the first fragment is in. -/
inductive MsgFrames : Option Nat → List Frame → Prop
  | ping {st f rest} : isPing f → MsgFrames st rest → MsgFrames st (f :: rest)
  | pong {st f rest} : isPong f → MsgFrames st rest → MsgFrames st (f :: rest)
  | firstMore {f rest} : (f.opcode = 1 ∨ f.opcode = 2) → f.fin = 0 → MsgFrames (some f.opcode) rest → MsgFrames none (f :: rest)
  | contMore {op f rest} : f.opcode = 0 → f.fin = 0 → MsgFrames (some op) rest → MsgFrames (some op) (f :: rest)
  | firstLast {f} : (f.opcode = 1 ∨ f.opcode = 2) → f.fin = 1 → MsgFrames none [f]
  | contLast {op f} : f.opcode = 0 → f.fin = 1 → MsgFrames (some op) [f]

/-- Spec: the payload of the message = the fragments' payloads in order. -/
def msgPayload : List Frame → Bytes
  | [] => []
  | f :: rest => if f.opcode = 9 ∨ f.opcode = 10 then msgPayload rest else f.data ++ msgPayload rest

/-- Spec: the pongs owed for the pings of the stream, in order, each formatted with the next key. -/
def pongsWire : List Bytes → List Frame → Bytes
  | _, [] => []
  | keys, f :: rest =>
    if f.opcode = 9 then
      (match format (createFrame f.data Gen.opcodePong) (keys.headD [0, 0, 0, 0]) with
       | .ok w => w | .error _ => []) ++ pongsWire keys.tail rest
    else pongsWire keys rest

def lastFrame : List Frame → Frame
  | [] => default
  | [f] => f
  | _ :: rest => lastFrame rest

/-- Spec: what the call delivers. -/
def deliver (skip : Bool) (op : Nat) (last : Frame) (data : Bytes) : Except Exn (Nat × Frame) :=
  if op == 1 && !skip && !validateUtf8 data then .error .payload else .ok (op, { last with data := data })

theorem consts9 : Gen.opcodeCont = 0 ∧ Gen.opcodeText = 1 ∧ Gen.opcodeBinary = 2 ∧ Gen.opcodeClose = 8 ∧
    Gen.opcodePing = 9 ∧ Gen.opcodePong = 10 ∧ Gen.pingMaxExcl = 126 := by decide

/-- loop-state invariant between frames of a message. -/
def LoopInv (c : Conn) (st : Option Nat) (acc : Bytes) : Prop :=
  c.fireCont = false ∧
  match st with
  | none => c.contData = none ∧ c.recving = none ∧ acc = []
  | some op => c.contData = some (op, acc) ∧ c.recving = some op ∧ (op = 1 ∨ op = 2)

structure Ready (c : Conn) : Prop where
  live : Live c
  chunks : Chunks c.sock.inp
  cleared : Cleared c
  writable : Writable c

theorem decode_frame_len {bs rest : Bytes} {w : WireFrame} (hd : decode bs = .frame w rest) :
    rest.length + 2 ≤ bs.length := by
  cases bs with
  | nil => simp [decode] at hd
  | cons b0 t =>
    cases t with
    | nil => simp [decode] at hd
    | cons b1 r2 =>
      simp only [decode] at hd
      obtain ⟨extN, form, L, _, hpay⟩ := decodeLen_frame _ _ _ _ _ _ hd
      obtain ⟨_, _, hrest⟩ := decodePayload_frame _ _ _ _ _ _ _ hpay
      have : rest.length ≤ r2.length := by
        rw [hrest]; simp
      simp; omega

theorem decodesTo_len {bs : Bytes} {ws : List WireFrame} {tail : Bytes} (h : DecodesTo bs ws tail) :
    2 * ws.length + tail.length ≤ bs.length := by
  induction h with
  | nil t => simp
  | cons hd _ ih =>
    have := decode_frame_len hd
    simp at ih ⊢
    omega

theorem step_recv (c : Conn) (hr : Ready c) (w : WireFrame) (ws : List WireFrame) (tail : Bytes)
    (hd : DecodesTo (pending c) (w :: ws) tail) (hv : validate (frameOfWire w) c.skipUtf8 = none) :
    ∃ c1, c.recvFrame = (.ok (frameOfWire w), c1) ∧ Ready c1 ∧ DecodesTo (pending c1) ws tail ∧ SameLoop c c1 := by
  cases hd with
  | cons hdec hrest =>
    obtain ⟨c1, e1, p1, clr1, g1⟩ := recvFrame_decodes c hr.live hr.chunks hr.cleared w _ hdec
    rw [hv] at e1
    refine ⟨c1, e1, ⟨g1.live, g1.chunks, clr1, ?_⟩, by rw [p1]; exact hrest, g1.same⟩
    obtain ⟨_, h2, h3⟩ := hr.writable
    refine ⟨g1.live.1, g1.live.2, ?_⟩
    rw [g1.same.2.2.2.2.2.2.2.2.2.2.2.1]; exact h3

theorem wire_sameLoop {c c' : Conn} (h : SameLoop c c') : c'.sock.wire = c.sock.wire := by
  simp [Sock.wire, h.2.2.2.2.2.2.2.1]

theorem sockSend_keys (c : Conn) (d : Bytes) : (c.sockSend d).2.keys = c.keys := by
  unfold Conn.sockSend
  split
  · rfl
  · generalize c.sock.send d = r
    obtain ⟨res, s'⟩ := r
    cases res <;> rfl

theorem sendLoop_keys (fuel : Nat) : ∀ (c : Conn) (d : Bytes), (Conn.sendLoop fuel c d).2.keys = c.keys := by
  induction fuel with
  | zero => intro c d; simp [Conn.sendLoop]
  | succ f ih =>
    intro c d
    unfold Conn.sendLoop
    split
    · rfl
    · have h1 := sockSend_keys c d
      generalize c.sockSend d = r at h1
      obtain ⟨res, c1⟩ := r
      cases res with
      | error e => simpa using h1
      | ok l => simp only []; rw [ih c1 _]; exact h1

theorem send_keys (c : Conn) (p : Bytes) (op : Nat) (w : Bytes)
    (hf : format (createFrame p op) (c.keys.headD [0, 0, 0, 0]) = .ok w) : (c.send p op).2.keys = c.keys.tail := by
  unfold Conn.send Conn.sendFrame
  simp only [hf]
  have hm : ((createFrame p op).mask != 0) = true := rfl
  simp only [hm, if_true]
  have := sendLoop_keys (w.length + 1) { c with keys := c.keys.tail, keyDraws := c.keyDraws + 1 } w
  generalize Conn.sendLoop (w.length + 1) _ w = r at this
  obtain ⟨e, c'⟩ := r
  cases e <;> simpa using this

def firstDataOp : List Frame → Nat
  | [] => 0
  | f :: rest => if f.opcode = 9 ∨ f.opcode = 10 then firstDataOp rest else f.opcode

def msgOp (st : Option Nat) (fs : List Frame) : Nat := st.getD (firstDataOp fs)

theorem ready_of_send {c c' : Conn} (hr : Ready c) (hs : SameRecv c c') (hw : Writable c') : Ready c' :=
  ⟨live_sameRecv hs hr.live, chunks_sameRecv hs hr.chunks, cleared_sameRecv hs hr.cleared, hw⟩

theorem loopInv_sameRecv {c c' : Conn} {st : Option Nat} {acc : Bytes} (hs : SameRecv c c') (h : LoopInv c st acc) :
    LoopInv c' st acc := by
  unfold LoopInv at *
  obtain ⟨_, _, _, _, _, a6, a7, a8, _⟩ := hs
  rw [a6, a7, a8]; exact h

theorem loopInv_sameLoop {c c' : Conn} {st : Option Nat} {acc : Bytes} (hs : SameLoop c c') (h : LoopInv c st acc) :
    LoopInv c' st acc := by
  unfold LoopInv at *
  obtain ⟨a1, a2, a3, _⟩ := hs
  rw [a1, a2, a3]; exact h

/-- only the reassembly fields differ. -/
def SameButCont (c c' : Conn) : Prop :=
  c'.sock = c.sock ∧ c'.hasSock = c.hasSock ∧ c'.buf = c.buf ∧ c'.hdr = c.hdr ∧ c'.len = c.len ∧ c'.maskv = c.maskv ∧
  c'.keys = c.keys ∧ c'.skipUtf8 = c.skipUtf8 ∧ c'.fireCont = c.fireCont ∧ c'.connected = c.connected

theorem contAdd_same (c : Conn) (f : Frame) : SameButCont c (c.contAdd f) := by
  unfold Conn.contAdd SameButCont
  simp only []
  split <;> split <;> (try split) <;> simp

theorem contExtract_same (c : Conn) (f : Frame) : SameButCont c (c.contExtract f).2 := by
  unfold Conn.contExtract SameButCont
  split
  · simp
  · simp only []
    split <;> simp

theorem ready_sameButCont {c c' : Conn} (h : SameButCont c c') (hr : Ready c) : Ready c' := by
  obtain ⟨a1, a2, a3, a4, a5, a6, a7, a8, a9, a10⟩ := h
  obtain ⟨⟨l1, l2⟩, hch, ⟨c1, c2, c3⟩, ⟨w1, w2, w3⟩⟩ := hr
  refine ⟨⟨by rw [a2]; exact l1, by rw [a1]; exact l2⟩, by rw [a1]; exact hch, ⟨by rw [a4]; exact c1, by rw [a5]; exact c2, by rw [a6]; exact c3⟩,
    ⟨by rw [a2]; exact w1, by rw [a1]; exact w2, by rw [a1]; exact w3⟩⟩

theorem pending_sameButCont {c c' : Conn} (h : SameButCont c c') : pending c' = pending c := by
  simp [pending, h.1, h.2.2.1]

theorem loop_message (fs : List Frame) (st : Option Nat) (hm : MsgFrames st fs) :
    ∀ (c : Conn) (acc : Bytes) (ws : List WireFrame) (tail : Bytes) (fuel : Nat),
      Ready c → LoopInv c st acc → ws.map frameOfWire = fs →
      (∀ w ∈ ws, validate (frameOfWire w) c.skipUtf8 = none) →
      DecodesTo (pending c) ws tail → fs.length ≤ fuel →
      ∃ c', Conn.recvDataFrameLoop fuel c false =
              (deliver c.skipUtf8 (msgOp st fs) (lastFrame fs) (acc ++ msgPayload fs), c') ∧
        Ready c' ∧ pending c' = tail ∧ LoopInv c' none [] ∧
        c'.sock.wire = c.sock.wire ++ pongsWire c.keys fs ∧ c'.skipUtf8 = c.skipUtf8 := by
  obtain ⟨k0, k1, k2, k8, k9, k10, kmax⟩ := consts9
  induction hm with
  | @ping st f rest hp _ ih =>
    intro c acc ws tail fuel hr hinv hmap hval hd hfu
    cases ws with
    | nil => simp at hmap
    | cons w ws' =>
      simp only [List.map_cons, List.cons.injEq] at hmap
      obtain ⟨hwf, hmap'⟩ := hmap
      obtain ⟨hop, hfin, hlen⟩ := hp
      cases fuel with
      | zero => simp at hfu
      | succ fu =>
        obtain ⟨c1, e1, r1, d1, s1⟩ := step_recv c hr w ws' tail hd (hval w List.mem_cons_self)
        rw [hwf] at e1
        have hop16 : Gen.opcodePong ∈ Gen.opcodes := by decide
        obtain ⟨wp, c2, hfmt, e2, hwire2, hw2, sr2⟩ := send_ok c1 f.data Gen.opcodePong r1.writable hop16 (by omega)
        have hkeys2 := send_keys c1 f.data Gen.opcodePong wp hfmt
        rw [e2] at hkeys2
        simp only [] at hkeys2
        have hskip1 : c1.skipUtf8 = c.skipUtf8 := s1.2.2.2.1
        have hskip2 : c2.skipUtf8 = c.skipUtf8 := by rw [sr2.2.2.2.2.2.2.2.2.1, hskip1]
        obtain ⟨c', e', r', p', inv', wire', sk'⟩ := ih c2 acc ws' tail fu (ready_of_send r1 sr2 hw2)
          (loopInv_sameRecv sr2 (loopInv_sameLoop s1 hinv)) hmap'
          (by intro x hx; rw [hskip2]; exact hval x (List.mem_cons_of_mem _ hx))
          (by rw [pending_sameRecv sr2]; exact d1) (by simp at hfu; omega)
        refine ⟨c', ?_, r', p', inv', ?_, by rw [sk', hskip2]⟩
        · unfold Conn.recvDataFrameLoop
          simp only [e1, hop, k0, k1, k2, k8, k9, k10, kmax]
          simp only [show ((9 : Nat) == 1) = false by decide, show ((9 : Nat) == 2) = false by decide,
            show ((9 : Nat) == 0) = false by decide, show ((9 : Nat) == 8) = false by decide,
            show ((9 : Nat) == 9) = true by decide, Bool.or_false, Bool.false_eq_true, if_false, if_true]
          have hl : f.data.length < 126 := by omega
          simp only [hl, if_true]
          unfold Conn.pong
          rw [e2]
          simp only []
          rw [e', hskip2]
          simp [msgOp, firstDataOp, lastFrame, msgPayload, hop]
          cases rest with
          | nil => cases ‹MsgFrames st []›
          | cons a b => rfl
        · rw [wire', hwire2, wire_sameLoop s1, hkeys2, s1.2.2.2.2.1]
          simp only [pongsWire, hop, if_true]
          rw [← s1.2.2.2.2.1, hfmt, List.append_assoc]
  | @pong st f rest hp hrest ih =>
    intro c acc ws tail fuel hr hinv hmap hval hd hfu
    cases ws with
    | nil => simp at hmap
    | cons w ws' =>
      simp only [List.map_cons, List.cons.injEq] at hmap
      obtain ⟨hwf, hmap'⟩ := hmap
      have hop : f.opcode = 10 := hp
      cases fuel with
      | zero => simp at hfu
      | succ fu =>
        obtain ⟨c1, e1, r1, d1, s1⟩ := step_recv c hr w ws' tail hd (hval w List.mem_cons_self)
        rw [hwf] at e1
        have hskip1 : c1.skipUtf8 = c.skipUtf8 := s1.2.2.2.1
        obtain ⟨c', e', r', p', inv', wire', sk'⟩ := ih c1 acc ws' tail fu r1 (loopInv_sameLoop s1 hinv) hmap'
          (by intro x hx; rw [hskip1]; exact hval x (List.mem_cons_of_mem _ hx)) d1 (by simp at hfu; omega)
        refine ⟨c', ?_, r', p', inv', ?_, by rw [sk', hskip1]⟩
        · unfold Conn.recvDataFrameLoop
          simp only [e1, hop, k0, k1, k2, k8, k9, k10, kmax]
          simp only [show ((10 : Nat) == 1) = false by decide, show ((10 : Nat) == 2) = false by decide,
            show ((10 : Nat) == 0) = false by decide, show ((10 : Nat) == 8) = false by decide,
            show ((10 : Nat) == 9) = false by decide, show ((10 : Nat) == 10) = true by decide,
            Bool.or_false, Bool.false_eq_true, if_false, if_true]
          rw [e', hskip1]
          simp [msgOp, firstDataOp, lastFrame, msgPayload, hop]
          cases rest with
          | nil => cases hrest
          | cons a b => rfl
        · rw [wire', wire_sameLoop s1, s1.2.2.2.2.1]
          simp [pongsWire, hop]
  | @firstMore f rest hop hfin hrest ih =>
    intro c acc ws tail fuel hr hinv hmap hval hd hfu
    cases ws with
    | nil => simp at hmap
    | cons w ws' =>
      simp only [List.map_cons, List.cons.injEq] at hmap
      obtain ⟨hwf, hmap'⟩ := hmap
      cases fuel with
      | zero => simp at hfu
      | succ fu =>
        obtain ⟨c1, e1, r1, d1, s1⟩ := step_recv c hr w ws' tail hd (hval w List.mem_cons_self)
        rw [hwf] at e1
        have hskip1 : c1.skipUtf8 = c.skipUtf8 := s1.2.2.2.1
        obtain ⟨hfc, hcd, hrc, hacc⟩ := loopInv_sameLoop s1 hinv
        subst hacc
        have hsb := contAdd_same c1 f
        have hinv2 : LoopInv (c1.contAdd f) (some f.opcode) f.data := by
          refine ⟨by rw [hsb.2.2.2.2.2.2.2.2.1]; exact hfc, ?_⟩
          unfold Conn.contAdd
          rcases hop with h1 | h2
          · simp [hcd, h1, hfin, k1, k2]
          · simp [hcd, h2, hfin, k1, k2]
        obtain ⟨c', e', r', p', inv', wire', sk'⟩ := ih (c1.contAdd f) f.data ws' tail fu (ready_sameButCont hsb r1) hinv2 hmap'
          (by intro x hx; rw [hsb.2.2.2.2.2.2.2.1, hskip1]; exact hval x (List.mem_cons_of_mem _ hx))
          (by rw [pending_sameButCont hsb]; exact d1) (by simp at hfu; omega)
        have hn9 : ¬ (f.opcode = 9 ∨ f.opcode = 10) := by rcases hop with h | h <;> omega
        refine ⟨c', ?_, r', p', inv', ?_, by rw [sk', hsb.2.2.2.2.2.2.2.1, hskip1]⟩
        · unfold Conn.recvDataFrameLoop
          simp only [e1]
          have hisdata : (f.opcode == Gen.opcodeText || f.opcode == Gen.opcodeBinary || f.opcode == Gen.opcodeCont) = true := by
            rcases hop with h | h <;> simp [h, k0, k1, k2]
          have hcv : c1.contValidate f = none := by
            unfold Conn.contValidate
            rcases hop with h | h <;> simp [hrc, h, k0, k1, k2]
          simp only [hisdata, if_true, hcv, hfin, hsb.2.2.2.2.2.2.2.2.1, hfc]
          simp only [show ((0 : Nat) != 0) = false by decide, Bool.or_false, Bool.false_eq_true, if_false]
          rw [e', hsb.2.2.2.2.2.2.2.1, hskip1]
          simp only [msgOp, Option.getD_some, Option.getD_none, firstDataOp, hn9, if_false, msgPayload, List.nil_append]
          cases rest with
          | nil => cases hrest
          | cons a b => rfl
        · rw [wire', hsb.1, wire_sameLoop s1, hsb.2.2.2.2.2.2.1, s1.2.2.2.2.1]
          have : ¬ f.opcode = 9 := by omega
          simp [pongsWire, this]
  | @contMore op f rest hop hfin hrest ih =>
    intro c acc ws tail fuel hr hinv hmap hval hd hfu
    cases ws with
    | nil => simp at hmap
    | cons w ws' =>
      simp only [List.map_cons, List.cons.injEq] at hmap
      obtain ⟨hwf, hmap'⟩ := hmap
      cases fuel with
      | zero => simp at hfu
      | succ fu =>
        obtain ⟨c1, e1, r1, d1, s1⟩ := step_recv c hr w ws' tail hd (hval w List.mem_cons_self)
        rw [hwf] at e1
        have hskip1 : c1.skipUtf8 = c.skipUtf8 := s1.2.2.2.1
        obtain ⟨hfc, hcd, hrc, hopv⟩ := loopInv_sameLoop s1 hinv
        have hsb := contAdd_same c1 f
        have hinv2 : LoopInv (c1.contAdd f) (some op) (acc ++ f.data) := by
          refine ⟨by rw [hsb.2.2.2.2.2.2.2.2.1]; exact hfc, ?_⟩
          unfold Conn.contAdd
          simp [hcd, hfin, hrc, hopv]
        obtain ⟨c', e', r', p', inv', wire', sk'⟩ := ih (c1.contAdd f) (acc ++ f.data) ws' tail fu (ready_sameButCont hsb r1) hinv2 hmap'
          (by intro x hx; rw [hsb.2.2.2.2.2.2.2.1, hskip1]; exact hval x (List.mem_cons_of_mem _ hx))
          (by rw [pending_sameButCont hsb]; exact d1) (by simp at hfu; omega)
        have hn9 : ¬ (f.opcode = 9 ∨ f.opcode = 10) := by omega
        refine ⟨c', ?_, r', p', inv', ?_, by rw [sk', hsb.2.2.2.2.2.2.2.1, hskip1]⟩
        · unfold Conn.recvDataFrameLoop
          simp only [e1]
          have hisdata : (f.opcode == Gen.opcodeText || f.opcode == Gen.opcodeBinary || f.opcode == Gen.opcodeCont) = true := by
            simp [hop, k0, k1, k2]
          have hcv : c1.contValidate f = none := by
            unfold Conn.contValidate
            rcases hopv with h | h <;> simp [hrc, h, hop, k0, k1, k2]
          simp only [hisdata, if_true, hcv, hfin, hsb.2.2.2.2.2.2.2.2.1, hfc]
          simp only [show ((0 : Nat) != 0) = false by decide, Bool.or_false, Bool.false_eq_true, if_false]
          rw [e', hsb.2.2.2.2.2.2.2.1, hskip1]
          simp only [msgOp, Option.getD_some, msgPayload, hn9, if_false, List.append_assoc]
          cases rest with
          | nil => cases hrest
          | cons a b => rfl
        · rw [wire', hsb.1, wire_sameLoop s1, hsb.2.2.2.2.2.2.1, s1.2.2.2.2.1]
          have : ¬ f.opcode = 9 := by omega
          simp [pongsWire, this]
  | @firstLast f hop hfin =>
    intro c acc ws tail fuel hr hinv hmap hval hd hfu
    cases ws with
    | nil => simp at hmap
    | cons w ws' =>
      simp only [List.map_cons, List.cons.injEq] at hmap
      obtain ⟨hwf, hmap'⟩ := hmap
      have hws' : ws' = [] := by simpa using hmap'
      subst hws'
      cases fuel with
      | zero => simp at hfu
      | succ fu =>
        obtain ⟨c1, e1, r1, d1, s1⟩ := step_recv c hr w [] tail hd (hval w List.mem_cons_self)
        rw [hwf] at e1
        have hp1 : pending c1 = tail := by cases d1; rfl
        have hskip1 : c1.skipUtf8 = c.skipUtf8 := s1.2.2.2.1
        obtain ⟨hfc, hcd, hrc, hacc⟩ := loopInv_sameLoop s1 hinv
        subst hacc
        have hsb := contAdd_same c1 f
        have hsb2 := contExtract_same (c1.contAdd f) f
        have hcdA : (c1.contAdd f).contData = some (f.opcode, f.data) := by
          unfold Conn.contAdd
          rcases hop with h | h <;> simp [hcd, h, hfin, k1, k2]
        have hrcA : (c1.contAdd f).recving = none := by
          unfold Conn.contAdd
          rcases hop with h | h <;> simp [hcd, h, hfin, k1, k2]
        have hn9 : ¬ (f.opcode = 9 ∨ f.opcode = 10) := by rcases hop with h | h <;> omega
        have hisdata : (f.opcode == Gen.opcodeText || f.opcode == Gen.opcodeBinary || f.opcode == Gen.opcodeCont) = true := by
          rcases hop with h | h <;> simp [h, k0, k1, k2]
        have hcv : c1.contValidate f = none := by
          unfold Conn.contValidate
          rcases hop with h | h <;> simp [hrc, h, k0, k1, k2]
        refine ⟨((c1.contAdd f).contExtract f).2, ?_, ready_sameButCont hsb2 (ready_sameButCont hsb r1),
          by rw [pending_sameButCont hsb2, pending_sameButCont hsb, hp1], ?_, ?_,
          by rw [hsb2.2.2.2.2.2.2.2.1, hsb.2.2.2.2.2.2.2.1, hskip1]⟩
        · unfold Conn.recvDataFrameLoop
          simp only [e1, hisdata, if_true, hcv, hfin]
          simp only [show ((1 : Nat) != 0) = true by decide, Bool.true_or, if_true]
          unfold Conn.contExtract
          simp only [hcdA, hsb.2.2.2.2.2.2.2.2.1, hfc, hsb.2.2.2.2.2.2.2.1, hskip1, k1]
          simp only [deliver, msgOp, Option.getD_none, firstDataOp, hn9, if_false, lastFrame, msgPayload,
            List.nil_append, List.append_nil, Bool.not_false, Bool.true_and]
          split <;> rfl
        · refine ⟨by rw [hsb2.2.2.2.2.2.2.2.2.1, hsb.2.2.2.2.2.2.2.2.1]; exact hfc, ?_, ?_, rfl⟩
          · unfold Conn.contExtract
            simp only [hcdA]
            split <;> rfl
          · have : ((c1.contAdd f).contExtract f).2.recving = (c1.contAdd f).recving := by
              unfold Conn.contExtract
              simp only [hcdA]
              split <;> rfl
            rw [this, hrcA]
        · rw [hsb2.1, hsb.1, wire_sameLoop s1]
          have : ¬ f.opcode = 9 := by omega
          simp [pongsWire, this]
  | @contLast op f hop hfin =>
    intro c acc ws tail fuel hr hinv hmap hval hd hfu
    cases ws with
    | nil => simp at hmap
    | cons w ws' =>
      simp only [List.map_cons, List.cons.injEq] at hmap
      obtain ⟨hwf, hmap'⟩ := hmap
      have hws' : ws' = [] := by simpa using hmap'
      subst hws'
      cases fuel with
      | zero => simp at hfu
      | succ fu =>
        obtain ⟨c1, e1, r1, d1, s1⟩ := step_recv c hr w [] tail hd (hval w List.mem_cons_self)
        rw [hwf] at e1
        have hp1 : pending c1 = tail := by cases d1; rfl
        have hskip1 : c1.skipUtf8 = c.skipUtf8 := s1.2.2.2.1
        obtain ⟨hfc, hcd, hrc, hopv⟩ := loopInv_sameLoop s1 hinv
        have hsb := contAdd_same c1 f
        have hsb2 := contExtract_same (c1.contAdd f) f
        have hcdA : (c1.contAdd f).contData = some (op, acc ++ f.data) := by
          unfold Conn.contAdd
          simp [hcd, hfin]
        have hrcA : (c1.contAdd f).recving = none := by
          unfold Conn.contAdd
          simp [hcd, hfin]
        have hn9 : ¬ (f.opcode = 9 ∨ f.opcode = 10) := by omega
        have hisdata : (f.opcode == Gen.opcodeText || f.opcode == Gen.opcodeBinary || f.opcode == Gen.opcodeCont) = true := by
          simp [hop, k0, k1, k2]
        have hcv : c1.contValidate f = none := by
          unfold Conn.contValidate
          rcases hopv with h | h <;> simp [hrc, h, hop, k0, k1, k2]
        refine ⟨((c1.contAdd f).contExtract f).2, ?_, ready_sameButCont hsb2 (ready_sameButCont hsb r1),
          by rw [pending_sameButCont hsb2, pending_sameButCont hsb, hp1], ?_, ?_,
          by rw [hsb2.2.2.2.2.2.2.2.1, hsb.2.2.2.2.2.2.2.1, hskip1]⟩
        · unfold Conn.recvDataFrameLoop
          simp only [e1, hisdata, if_true, hcv, hfin]
          simp only [show ((1 : Nat) != 0) = true by decide, Bool.true_or, if_true]
          unfold Conn.contExtract
          simp only [hcdA, hsb.2.2.2.2.2.2.2.2.1, hfc, hsb.2.2.2.2.2.2.2.1, hskip1, k1]
          simp only [deliver, msgOp, Option.getD_some, lastFrame, msgPayload, hn9, if_false,
            List.append_nil, Bool.not_false, Bool.true_and]
          split <;> rfl
        · refine ⟨by rw [hsb2.2.2.2.2.2.2.2.2.1, hsb.2.2.2.2.2.2.2.2.1]; exact hfc, ?_, ?_, rfl⟩
          · unfold Conn.contExtract
            simp only [hcdA]
            split <;> rfl
          · have : ((c1.contAdd f).contExtract f).2.recving = (c1.contAdd f).recving := by
              unfold Conn.contExtract
              simp only [hcdA]
              split <;> rfl
            rw [this, hrcA]
        · rw [hsb2.1, hsb.1, wire_sameLoop s1]
          have : ¬ f.opcode = 9 := by omega
          simp [pongsWire, this]

end WS.Lemmas.Loop
