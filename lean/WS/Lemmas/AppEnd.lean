/-
  WS.Lemmas.AppEnd — how a run with one established connection ends (quiet plan, keepalive off,
  reconnect off): the loop reaches the terminating event; teardown / handleDisconnect / run_forever's
  finally are then computed explicitly for each kind of ending.
-/
import WS.Lemmas.AppConn
namespace WS.Lemmas.App
open WS WS.Model.App

/-- what `Dispatcher.read` makes of the value `read()` returned when that value is not True -/
def fin (x : St × R Bool) : St × R Unit :=
  match x with
  | (s, .exc e) => (s, .exc e)
  | (s, .halt) => (s, .halt)
  | (s, .ok _) => (s, .ok ())

/-- idle iterations until the next event is within one select timeout -/
theorem dispLoop_idle_until (c : Cfg) (hT : 0 < selectTimeout c) :
    ∀ (n : Nat) (s : St) (e : TEv) (rest : List TEv) (k : Nat), Up s → s.evs = e :: rest →
      s.arr + e.dt ≤ c.horizon → (s.arr + e.dt - s.now) / selectTimeout c + k ≤ n →
      ∃ n' t, k ≤ n' ∧ s.now ≤ t ∧ s.arr + e.dt ≤ t + selectTimeout c ∧ max t (s.arr + e.dt) = max s.now (s.arr + e.dt) ∧
        dispLoop c n s = dispLoop c n' { s with now := t } := by
  intro n
  induction n with
  | zero =>
    intro s e rest k hu hev hz hneed
    have h0 : (s.arr + e.dt - s.now) / selectTimeout c = 0 :=
      Nat.eq_zero_of_le_zero (Nat.le_trans (Nat.le_add_right _ _) hneed)
    have : s.arr + e.dt - s.now < selectTimeout c := by
      rcases Nat.div_eq_zero_iff.mp h0 with h | h
      · omega
      · exact h
    exact ⟨0, s.now, by omega, by omega, by omega, rfl, rfl⟩
  | succ m ih =>
    intro s e rest k hu hev hz hneed
    by_cases hlate : s.now + selectTimeout c < s.arr + e.dt
    · rw [dispLoop_idle c m s e rest hu hev hlate (by omega)]
      have hdiv : (s.arr + e.dt - s.now) / selectTimeout c =
          (s.arr + e.dt - (s.now + selectTimeout c)) / selectTimeout c + 1 := by
        rw [Nat.div_eq_sub_div hT (by omega)]
        congr 2; omega
      obtain ⟨n', t, hk, ht1, ht2, ht3, heq⟩ := ih { s with now := s.now + selectTimeout c } e rest k (up_now hu _)
        (by simpa using hev) hz (by
          simp only []
          generalize (s.arr + e.dt - (s.now + selectTimeout c)) / selectTimeout c = q at hdiv
          omega)
      refine ⟨n', t, hk, by simp only [] at ht1; omega, ht2, ?_, ?_⟩
      · simp only [] at ht3 ht1; omega
      · rw [heq]
    · exact ⟨m + 1, s.now, Nat.le_trans (Nat.le_add_left _ _) hneed, by omega, by omega, rfl, rfl⟩

theorem read_ready (c : Cfg) (s : St) (e : TEv) (rest : List TEv) (w : WSock) (hkr : s.keepRunning = true)
    (hs : s.sock = some w) (h : s.evs = e :: rest) : Model.App.read c s = readEvents c (e :: rest) s := by
  unfold Model.App.read
  simp [hkr, hs, h]

/-- one iteration of the loop on an event that is due within the timeout -/
theorem dispLoop_ready_step (c : Cfg) (n : Nat) (s : St) (e : TEv) (rest : List TEv) (hu : Up s)
    (h : s.evs = e :: rest) (hsoon : s.arr + e.dt ≤ s.now + selectTimeout c) (hz : s.arr + e.dt ≤ c.horizon) :
    dispLoop c (n + 1) s =
      afterRead c (dispLoop c n) (readEvents c (e :: rest) { s with now := max s.now (s.arr + e.dt) }) := by
  rw [dispLoop]
  have h1 : (!s.keepRunning) = false := by simp [hu.kr]
  have h2 : (c.ssl && s.sock.isNone) = false := by simp [up_sock_not_none hu]
  rw [h1, h2]
  simp only [Bool.false_eq_true, ↓reduceIte]
  rw [select_ready c s e rest hu h hsoon hz]
  simp only [↓reduceIte]
  obtain ⟨w, hs, _⟩ := hu.sk
  rw [read_ready c { s with now := max s.now (s.arr + e.dt) } e rest w (by simpa using hu.kr) (by simpa using hs)
    (by simpa using h)]

end WS.Lemmas.App

namespace WS.Lemmas.App
open WS WS.Model.App

/-- the rest of `run_forever` (first connection, reconnect off) once the dispatcher loop has returned -/
def finishRunO (c : Cfg) (x : St × R Unit) : St × Outcome :=
  let y := match x with
    | (s, .exc e) => handleDisconnect c s e false
    | r => r
  let z := match y with
    | (s, .halt) => (s, R.halt)
    | (s, .exc _) =>
      match teardown c s none with
      | (s, .ok ()) => teardown c s none
      | (s, .exc e) => (match teardown c s none with | (s, .ok ()) => (s, .exc e) | r => r)
      | r => r
    | (s, .ok ()) => teardown c s none
  match z with
  | (s, .ok ()) => (s.emit (.returned s.hasErrored), .returned s.hasErrored)
  | (s, .exc e) => (s.emit (.raisedOut e), .raised e)
  | (s, .halt) => (s, .cut)

def finishRun (c : Cfg) (x : St × R Unit) : St := (finishRunO c x).1

/-- state in which the dispatcher loop is entered on the first connection -/
def enterLoop (c : Cfg) (s0 : St) (evs : List TEv) (ds : List Dial) : St :=
  { s0 with hasDoneTeardown := false, keepRunning := true, hasErrored := false,
            dials := ds, nextIdx := s0.nextIdx + 1,
            sock := some { idx := s0.nextIdx, connected := true, isOpen := true, dead := false },
            evs := evs, arr := s0.now,
            calls := cbCalls c s0.calls .onOpen,
            trace := s0.trace ++ [(s0.now, .dial s0.nextIdx)] ++ cbTrace c s0.calls s0.now .onOpen [] }

theorem runForever_reduce (c : Cfg) (hq : Quiet c) (s0 : St) (evs : List TEv) (ds : List Dial)
    (hacc : argsAccepted c.iv c.to = true) (hs : s0.sock = none) (hiv : c.iv = 0) (hrc : c.reconnect = 0)
    (hd : s0.dials = .established evs :: ds) :
    runForever c s0 = finishRun c (dispLoop c c.fuel (enterLoop c s0 evs ds)) := by
  unfold runForever runForeverO
  simp only [hacc, hs, Bool.not_true, Bool.false_eq_true, ↓reduceIte, Option.isSome_none]
  unfold runBody firstStage afterBody setSock afterConnect afterOpen afterLoop release openCb connect prologue
  simp only [hd, hiv, hrc, gen_resets, gen_finally]
  simp only [Bool.false_eq_true, ↓reduceIte, ne_eq, not_true_eq_false, St.emit, Bool.false_and]
  rw [callback_quiet c hq]
  simp only [finishRun, finishRunO, enterLoop]
  simp only [List.append_assoc]
  rcases dispLoop c c.fuel _ with ⟨s, r⟩
  cases r with
  | halt => rfl
  | ok u => cases u; rfl
  | exc e =>
    simp only []
    rcases handleDisconnect c s e false with ⟨s', r'⟩
    cases r' with
    | halt => rfl
    | ok u => cases u; rfl
    | exc e' => rfl

end WS.Lemmas.App

namespace WS.Lemmas.App
open WS WS.Model.App

/-- the loop stands before the terminating event `te`, which has arrived -/
structure AtTerm (s : St) (te : TEv) (w : WSock) : Prop where
  kr : s.keepRunning = true
  sk : s.sock = some w
  wo : w.isOpen = true
  wd : w.dead = false
  wc : w.connected = true
  pg : s.ping = none
  hdt : s.hasDoneTeardown = false
  he : s.hasErrored = false
  evs : s.evs = [te]
  arrived : s.arr + te.dt ≤ s.now

theorem end_eof (c : Cfg) (hq : Quiet c) (hrc : c.reconnect = 0) (s : St) (te : TEv) (w : WSock)
    (h : AtTerm s te w) (hk : te.ev = .eof) :
    (finishRun c (fin (readEvents c [te] s))).trace =
      s.trace ++ [(s.now, .sockClosed w.idx)] ++ cbTrace c s.calls s.now .onError [.exn .closed] ++
        cbTrace c (cbCalls c s.calls .onError) s.now .onClose [.none, .none] ++ [(s.now, .returned true)] := by
  obtain ⟨kr, sk, wo, wd, wc, pg, hdt, he, evs, arrived⟩ := h
  simp only [readEvents, handleEv, asRead, arrived, ↓reduceIte, hk, fin, finishRun, finishRunO, closeTransport, sk, wo, handleDisconnect_running, handleDisconnectBody, kr, afterReport,
    gen_dcErr, gen_dcStops, stopPing, pg, St.emit, Bool.not_false, callback_quiet c hq, hrc, teardown, gen_guard,
    hdt, gen_tdStops, wsClose, dropSock, closeArgs, reduceCtorEq, ne_eq, not_true_eq_false,
    Bool.and_false, Bool.false_eq_true, Bool.not_true]
  simp [List.append_assoc]

end WS.Lemmas.App

namespace WS.Lemmas.App
open WS WS.Model.App

theorem end_close (c : Cfg) (hq : Quiet c) (s : St) (te : TEv) (w : WSock) (body : Bytes)
    (h : AtTerm s te w) (hk : te.ev = .close body) :
    (finishRun c (fin (readEvents c [te] s))).trace =
      s.trace ++ [(s.now, .wrote Gen.opcodeClose (beN 2 Gen.statusNormal)), (s.now, .sockDropped w.idx)] ++
        cbTrace c s.calls s.now .onClose (closeArgs c (some body)) ++ [(s.now, .returned false)] := by
  obtain ⟨kr, sk, wo, wd, wc, pg, hdt, he, evs, arrived⟩ := h
  simp only [readEvents, handleEv, asRead, arrived, ↓reduceIte, hk, fin, finishRun, finishRunO, sk, Option.map_some, St.writable, wo, wd,
    Bool.not_false, Bool.and_self, St.emit, gen_closeToTeardown, teardown, gen_guard, hdt, Bool.and_false,
    Bool.false_eq_true, gen_tdStops, stopPing, pg, wsClose, Bool.not_true, dropSock, callback_quiet c hq, he]
  simp [List.append_assoc]

theorem end_reset (c : Cfg) (hq : Quiet c) (hrc : c.reconnect = 0) (s : St) (te : TEv) (w : WSock)
    (h : AtTerm s te w) (hk : te.ev = .reset) :
    (finishRun c (fin (readEvents c [te] s))).trace =
      s.trace ++ cbTrace c s.calls s.now .onError [.exn .transport] ++ [(s.now, .sockClosed w.idx)] ++
        cbTrace c (cbCalls c s.calls .onError) s.now .onClose [.none, .none] ++ [(s.now, .returned true)] := by
  obtain ⟨kr, sk, wo, wd, wc, pg, hdt, he, evs, arrived⟩ := h
  simp only [readEvents, handleEv, asRead, arrived, ↓reduceIte, hk, fin, finishRun, finishRunO, sk, Option.map_some, handleDisconnect_running, handleDisconnectBody, kr, afterReport,
    gen_dcErr, gen_dcStops, stopPing, pg, St.emit, Bool.not_false, callback_quiet c hq, hrc, teardown, gen_guard,
    hdt, gen_tdStops, wsClose, wc, St.writable, wo, Bool.not_true, Bool.and_false, closeTransport, dropSock,
    closeArgs, reduceCtorEq, ne_eq, not_true_eq_false, Bool.false_eq_true]
  simp [List.append_assoc]

/-- protocol / payload error: the error is reported, teardown sends a close frame and waits the
    close timeout for an answer that never comes -/
theorem end_error (c : Cfg) (hq : Quiet c) (hrc : c.reconnect = 0) (s : St) (te : TEv) (w : WSock) (x : AExn)
    (h : AtTerm s te w) (hk : (te.ev = .protoError ∧ x = .proto) ∨ (te.ev = .payloadError ∧ x = .payload))
    (hz : s.now + secs Gen.closeTimeoutDefault ≤ c.horizon) :
    (finishRun c (fin (readEvents c [te] s))).trace =
      s.trace ++ cbTrace c s.calls s.now .onError [.exn x] ++
        [(s.now, .wrote Gen.opcodeClose (beN 2 Gen.statusNormal)),
         (s.now + secs Gen.closeTimeoutDefault, .sockClosed w.idx)] ++
        cbTrace c (cbCalls c s.calls .onError) (s.now + secs Gen.closeTimeoutDefault) .onClose [.none, .none] ++
        [(s.now + secs Gen.closeTimeoutDefault, .returned true)] := by
  obtain ⟨kr, sk, wo, wd, wc, pg, hdt, he, evs, arrived⟩ := h
  have hpos : 0 < secs Gen.closeTimeoutDefault := by decide
  have hlt : s.now - s.now < secs Gen.closeTimeoutDefault := by omega
  have hm : max s.now (s.now + secs Gen.closeTimeoutDefault) = s.now + secs Gen.closeTimeoutDefault := by omega
  have hxk : x ≠ .ki := by rcases hk with ⟨_, rfl⟩ | ⟨_, rfl⟩ <;> simp
  rcases hk with ⟨hk, rfl⟩ | ⟨hk, rfl⟩ <;>
  · simp only [readEvents, handleEv, asRead, arrived, ↓reduceIte, hk, fin, finishRun, finishRunO, handleDisconnect_running, handleDisconnectBody, kr, afterReport,
      gen_dcErr, gen_dcStops, stopPing, pg, St.emit, Bool.not_false, callback_quiet c hq, hrc, teardown, gen_guard,
      hdt, gen_tdStops, wsClose, sk, wc, St.writable, wo, wd, Bool.not_true, Bool.and_false, Bool.and_self,
      closeWait, hlt, reduceCtorEq, ne_eq, not_true_eq_false, Bool.false_eq_true]
    rw [waitUntil_none c _ _ (by simpa using pg) (by simpa using hz)]
    simp only [hm, Bool.not_true, Bool.false_eq_true, ↓reduceIte, closeTransport, St.emit, dropSock, closeArgs,
      callback_quiet c hq]
    simp [List.append_assoc]

end WS.Lemmas.App

namespace WS.Lemmas.App
open WS WS.Model.App

theorem runForeverO_reduce (c : Cfg) (hq : Quiet c) (s0 : St) (evs : List TEv) (ds : List Dial)
    (hacc : argsAccepted c.iv c.to = true) (hs : s0.sock = none) (hiv : c.iv = 0) (hrc : c.reconnect = 0)
    (hd : s0.dials = .established evs :: ds) :
    runForeverO c s0 = finishRunO c (dispLoop c c.fuel (enterLoop c s0 evs ds)) := by
  unfold runForeverO
  simp only [hacc, hs, Bool.not_true, Bool.false_eq_true, ↓reduceIte, Option.isSome_none]
  unfold runBody firstStage afterBody setSock afterConnect afterOpen afterLoop release openCb connect prologue
  simp only [hd, hiv, hrc, gen_resets, gen_finally]
  simp only [Bool.false_eq_true, ↓reduceIte, ne_eq, not_true_eq_false, St.emit, Bool.false_and]
  rw [callback_quiet c hq]
  simp only [finishRunO, enterLoop]
  simp only [List.append_assoc]
  rcases dispLoop c c.fuel _ with ⟨s, r⟩
  cases r with
  | halt => rfl
  | ok u => cases u; rfl
  | exc e =>
    simp only []
    rcases handleDisconnect c s e false with ⟨s', r'⟩
    cases r' with
    | halt => rfl
    | ok u => cases u; rfl
    | exc e' => rfl

/-- outcome of the run for each kind of terminating event -/
theorem end_outcome (c : Cfg) (hq : Quiet c) (hrc : c.reconnect = 0) (s : St) (te : TEv) (w : WSock)
    (h : AtTerm s te w) (hterm : te.ev = .eof ∨ te.ev = .reset ∨ te.ev = .protoError ∨ te.ev = .payloadError ∨ ∃ b, te.ev = .close b)
    (hz : s.now + secs Gen.closeTimeoutDefault ≤ c.horizon) :
    (finishRunO c (fin (readEvents c [te] s))).2 = .returned (match te.ev with | .close _ => false | _ => true) := by
  obtain ⟨kr, sk, wo, wd, wc, pg, hdt, he, evs, arrived⟩ := h
  have hlt : s.now - s.now < secs Gen.closeTimeoutDefault := by
    have : 0 < secs Gen.closeTimeoutDefault := by decide
    omega
  rcases hterm with hk | hk | hk | hk | ⟨b, hk⟩
  · simp only [readEvents, handleEv, asRead, arrived, ↓reduceIte, hk, fin, finishRunO, closeTransport, sk, wo,
      handleDisconnect_running, handleDisconnectBody, kr, afterReport, gen_dcErr, gen_dcStops, stopPing, pg, St.emit, Bool.not_false,
      callback_quiet c hq, hrc, teardown, gen_guard, hdt, gen_tdStops, wsClose, dropSock, closeArgs, reduceCtorEq,
      ne_eq, not_true_eq_false, Bool.and_false, Bool.false_eq_true, Bool.not_true]
    simp
  · simp only [readEvents, handleEv, asRead, arrived, ↓reduceIte, hk, fin, finishRunO, sk, Option.map_some,
      handleDisconnect_running, handleDisconnectBody, kr, afterReport, gen_dcErr, gen_dcStops, stopPing, pg, St.emit, Bool.not_false,
      callback_quiet c hq, hrc, teardown, gen_guard, hdt, gen_tdStops, wsClose, wc, St.writable, wo, Bool.not_true,
      Bool.and_false, closeTransport, dropSock, closeArgs, reduceCtorEq, ne_eq, not_true_eq_false,
      Bool.false_eq_true]
    simp
  · simp only [readEvents, handleEv, asRead, arrived, ↓reduceIte, hk, fin, finishRunO, handleDisconnect_running, handleDisconnectBody, kr, afterReport,
      gen_dcErr, gen_dcStops, stopPing, pg, St.emit, Bool.not_false, callback_quiet c hq, hrc, teardown, gen_guard,
      hdt, gen_tdStops, wsClose, sk, wc, St.writable, wo, wd, Bool.not_true, Bool.and_false, Bool.and_self,
      closeWait, hlt, reduceCtorEq, ne_eq, not_true_eq_false, Bool.false_eq_true]
    rw [waitUntil_none c _ _ (by simpa using pg) (by simpa using hz)]
    simp only [Bool.not_true, Bool.false_eq_true, ↓reduceIte, closeTransport, St.emit, dropSock, closeArgs,
      callback_quiet c hq]
    simp
  · simp only [readEvents, handleEv, asRead, arrived, ↓reduceIte, hk, fin, finishRunO, handleDisconnect_running, handleDisconnectBody, kr, afterReport,
      gen_dcErr, gen_dcStops, stopPing, pg, St.emit, Bool.not_false, callback_quiet c hq, hrc, teardown, gen_guard,
      hdt, gen_tdStops, wsClose, sk, wc, St.writable, wo, wd, Bool.not_true, Bool.and_false, Bool.and_self,
      closeWait, hlt, reduceCtorEq, ne_eq, not_true_eq_false, Bool.false_eq_true]
    rw [waitUntil_none c _ _ (by simpa using pg) (by simpa using hz)]
    simp only [Bool.not_true, Bool.false_eq_true, ↓reduceIte, closeTransport, St.emit, dropSock, closeArgs,
      callback_quiet c hq]
    simp
  · simp only [readEvents, handleEv, asRead, arrived, ↓reduceIte, hk, fin, finishRunO, sk, Option.map_some,
      St.writable, wo, wd, Bool.not_false, Bool.and_self, St.emit, gen_closeToTeardown, teardown, gen_guard, hdt,
      Bool.and_false, Bool.false_eq_true, gen_tdStops, stopPing, pg, wsClose, Bool.not_true, dropSock,
      callback_quiet c hq, he]

/-- terminating events of a connection, as the property lists them -/
def endsBy (te : TEv) : Prop :=
  te.ev = .eof ∨ te.ev = .reset ∨ te.ev = .protoError ∨ te.ev = .payloadError ∨ ∃ b, te.ev = .close b

theorem endsBy_isTerm {te : TEv} (h : endsBy te) : isTerm te.ev = true := by
  rcases h with h | h | h | h | ⟨b, h⟩ <;> simp [h, isTerm]


end WS.Lemmas.App
