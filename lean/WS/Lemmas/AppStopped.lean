/-
  WS.Lemmas.AppStopped — once `keep_running` is cleared (the application's close(), teardown), whatever remains of the run is
  QUIET: no connection attempt, and nothing reported to on_error but a user callback's own exception or a KeyboardInterrupt.
  `QP n s`: every trace entry from position `n` on is quiet; carried through every continuation of `run_forever`.
-/
import WS.Lemmas.AppHoare
namespace WS.Lemmas.App.Stopped
open WS WS.Model.App WS.Lemmas.App

/-- not a connection attempt, and not the report of an error of the run -/
def QuietEv (e : Ev) : Prop :=
  (∀ i, e ≠ .dial i) ∧ (∀ x, e = .cb .onError [.exn x] → Spec.AppTrace.AExn.isUser x = true ∨ x = .ki)

/-- every trace entry from position `n` on is quiet -/
def QP (n : Nat) (s : St) : Prop := ∀ i te, n ≤ i → s.trace[i]? = some te → QuietEv te.2

theorem qp_init (s : St) : QP s.trace.length s := by
  intro i te hi h
  have : s.trace[i]? = none := List.getElem?_eq_none (by omega)
  rw [this] at h; cases h

theorem qp_emit {n : Nat} {s : St} (e : Ev) (h : QP n s) (he : QuietEv e) : QP n (s.emit e) := by
  intro i te hi hte
  simp only [St.emit] at hte
  by_cases hlt : i < s.trace.length
  · rw [List.getElem?_append_left hlt] at hte; exact h i te hi hte
  · rw [List.getElem?_append_right (by omega)] at hte
    cases hk : i - s.trace.length with
    | zero => rw [hk] at hte; simp at hte; subst hte; exact he
    | succ m => rw [hk] at hte; simp at hte

theorem qp_tr {n : Nat} {s : St} (s' : St) (h : QP n s) (ht : s'.trace = s.trace) : QP n s' := by
  intro i te hi hte; rw [ht] at hte; exact h i te hi hte

theorem q_other (e : Ev) (h1 : ∀ i, e ≠ .dial i) (h2 : ∀ a, e ≠ .cb .onError a) : QuietEv e :=
  ⟨h1, fun x hx => absurd hx (h2 _)⟩

theorem q_pingStop : QuietEv .pingStop := q_other _ (by intro i h; cases h) (by intro a h; cases h)
theorem q_pingStart : QuietEv .pingStart := q_other _ (by intro i h; cases h) (by intro a h; cases h)
theorem q_blocked : QuietEv .blocked := q_other _ (by intro i h; cases h) (by intro a h; cases h)
theorem q_outOfFuel : QuietEv .outOfFuel := q_other _ (by intro i h; cases h) (by intro a h; cases h)
theorem q_wrote (op : Nat) (p : Bytes) : QuietEv (.wrote op p) := q_other _ (by intro i h; cases h) (by intro a h; cases h)
theorem q_sockClosed (i : Nat) : QuietEv (.sockClosed i) := q_other _ (by intro i h; cases h) (by intro a h; cases h)
theorem q_sockDropped (i : Nat) : QuietEv (.sockDropped i) := q_other _ (by intro i h; cases h) (by intro a h; cases h)
theorem q_sleep (d : Nat) : QuietEv (.sleep d) := q_other _ (by intro i h; cases h) (by intro a h; cases h)
theorem q_returned (b : Bool) : QuietEv (.returned b) := q_other _ (by intro i h; cases h) (by intro a h; cases h)
theorem q_raisedOut (e : AExn) : QuietEv (.raisedOut e) := q_other _ (by intro i h; cases h) (by intro a h; cases h)
theorem q_cb (cb : Cb) (a : List Arg) (h : cb ≠ .onError) : QuietEv (.cb cb a) :=
  q_other _ (by intro i h; cases h) (by intro a' h'; injection h' with h1 _; exact h h1)
theorem q_report (e : AExn) (h : Spec.AppTrace.AExn.isUser e = true ∨ e = .ki) : QuietEv (.cb .onError [.exn e]) := by
  refine ⟨?_, ?_⟩
  · intro i h'; cases h'
  · intro x hx
    injection hx with _ h2
    injection h2 with h3 _
    injection h3 with h4
    subst h4; exact h

theorem qp_mem {n : Nat} {s : St} (s' : St) (h : QP n s)
    (ht : ∃ l, s'.trace = s.trace ++ l ∧ ∀ te ∈ l, QuietEv te.2) : QP n s' := by
  obtain ⟨l, hl, hq⟩ := ht
  intro i te hi hte
  rw [hl] at hte
  by_cases hlt : i < s.trace.length
  · rw [List.getElem?_append_left hlt] at hte; exact h i te hi hte
  · rw [List.getElem?_append_right (by omega)] at hte
    exact hq te (List.mem_of_getElem? hte)

theorem qp_pingFire (c : Cfg) (n : Nat) (s : St) (p : PingTh) (h : QP n s) : QP n (pingFire c s p) := by
  refine qp_mem _ h ?_
  unfold pingFire
  simp only []
  split
  · exact ⟨[(max s.now p.wake, .pingStop)], rfl, by intro te hte; simp at hte; subst hte; exact q_pingStop⟩
  · split
    · exact ⟨[], by simp, by simp⟩
    · cases hs : s.sock with
      | none => exact ⟨[], by simp, by simp⟩
      | some w =>
        simp only []
        split
        · exact ⟨[(max s.now p.wake, .wrote Gen.opcodePing c.payload)], rfl,
            by intro te hte; simp at hte; subst hte; exact q_wrote _ _⟩
        · exact ⟨[], by simp, by simp⟩

theorem qp_advance (c : Cfg) (k : Nat) : ∀ (n : Nat) (s : St) (t : Nat), QP k s → QP k (advance c n s t) := by
  intro n
  induction n with
  | zero => intro s t h; rw [advance]; exact qp_tr _ h rfl
  | succ m ih =>
    intro s t h
    rw [advance]
    split
    · exact qp_tr _ h rfl
    · split
      · exact ih _ t (qp_pingFire c k s _ h)
      · split
        · split
          · exact ih _ t (qp_pingFire c k _ _ (qp_tr _ h rfl))
          · exact qp_tr _ h rfl
          · exact qp_tr _ h rfl
        · exact qp_tr _ h rfl

theorem qp_waitUntil (c : Cfg) (k : Nat) (s : St) (t : Nat) (h : QP k s) : QP k (waitUntil c s t).1 := by
  unfold waitUntil
  split
  · exact qp_emit _ (qp_advance c k _ _ _ (qp_tr _ h rfl)) q_blocked
  · exact qp_advance c k _ s t h

theorem qp_stopPing (k : Nat) (s : St) (h : QP k s) : QP k (stopPing s) := by
  unfold stopPing
  split
  · exact qp_tr _ (qp_emit _ (qp_tr _ h rfl) q_pingStop) rfl
  · exact qp_tr _ h rfl

theorem qp_closeTransport (k : Nat) (s : St) (h : QP k s) : QP k (closeTransport s) := by
  unfold closeTransport
  split
  · split
    · exact qp_emit _ (qp_tr _ h rfl) (q_sockClosed _)
    · exact qp_tr _ h rfl
  · exact h

theorem qp_dropSock (k : Nat) (s : St) (h : QP k s) : QP k (dropSock s) := by
  unfold dropSock
  split
  · split
    · exact qp_emit _ (qp_tr _ h rfl) (q_sockDropped _)
    · exact qp_tr _ h rfl
  · exact h

theorem qp_closeWait (c : Cfg) (k : Nat) (start : Nat) : ∀ (evs : List TEv) (s : St), QP k s → QP k (closeWait c start evs s).1 := by
  intro evs
  induction evs with
  | nil =>
    intro s h
    unfold closeWait
    split
    · exact qp_waitUntil c k s _ h
    · exact h
  | cons e rest ih =>
    intro s h
    unfold closeWait
    split
    · simp only []
      split
      · have hw := qp_waitUntil c k s (s.arr + e.dt) h
        rcases hx : waitUntil c s (s.arr + e.dt) with ⟨s1, ok⟩
        rw [hx] at hw
        simp only [] at hw ⊢
        cases ok with
        | false => simpa using hw
        | true =>
          simp only [Bool.not_true, Bool.false_eq_true, ↓reduceIte]
          have h2 : QP k { s1 with evs := rest, arr := s.arr + e.dt } := qp_tr _ hw rfl
          split
          · exact h2
          · exact qp_closeTransport k _ h2
          · exact qp_tr _ h2 rfl
          · exact h2
          · exact ih _ h2
      · exact qp_waitUntil c k s _ h
    · exact h

theorem qp_wsClose (c : Cfg) (k : Nat) (s : St) (h : QP k s) : QP k (wsClose c s).1 := by
  unfold wsClose
  cases hs : s.sock with
  | none => exact h
  | some w =>
    simp only []
    split
    · exact h
    · split
      · have h1 : QP k (({ s with sock := some { w with connected := false } } : St).emit
            (.wrote Gen.opcodeClose (beN 2 Gen.statusNormal))) := qp_emit _ (qp_tr _ h rfl) (q_wrote _ _)
        have h2 := qp_closeWait c k
          (({ s with sock := some { w with connected := false } } : St).emit (.wrote Gen.opcodeClose (beN 2 Gen.statusNormal))).now
          (({ s with sock := some { w with connected := false } } : St).emit (.wrote Gen.opcodeClose (beN 2 Gen.statusNormal))).evs
          _ h1
        rcases hcw : closeWait c _ _ _ with ⟨s2, ok⟩
        rw [hcw] at h2
        simp only [] at h2 ⊢
        cases ok with
        | false => exact h2
        | true => exact qp_closeTransport k _ h2
      · exact qp_closeTransport k _ (qp_tr _ h rfl)

theorem qp_closeSock (c : Cfg) (k : Nat) (s : St) (h : QP k s) : QP k (closeSock c s).1 := by
  unfold closeSock
  split
  · exact h
  · have h1 := qp_wsClose c k s h
    generalize wsClose c s = x at h1 ⊢
    obtain ⟨s1, ok⟩ := x
    cases ok with
    | false => simpa using h1
    | true => simpa using qp_dropSock k s1 h1

theorem qp_appClose (c : Cfg) (k : Nat) (s : St) (h : QP k s) : QP k (appClose c s).1 := by
  unfold appClose
  exact qp_closeSock c k _ (qp_tr _ h rfl)

theorem qp_rawCall (c : Cfg) (k : Nat) (s : St) (cb : Cb) (args : List Arg) (h : QP k s) (hq : QuietEv (.cb cb args)) :
    QP k (rawCall c s cb args).1 := by
  have h1 : QP k (({ s with calls := bump s.calls cb } : St).emit (.cb cb args)) := qp_emit _ (qp_tr _ h rfl) hq
  unfold rawCall
  simp only []
  split
  · exact h1
  · exact h1
  · exact h1
  · have h2 := qp_appClose c k _ h1
    generalize appClose c _ = x at h2 ⊢
    obtain ⟨s2, ok⟩ := x
    cases ok <;> simpa using h2

/-- what `rawCall` can raise: the callback's own exception, or a KeyboardInterrupt -/
theorem rawCall_exc (c : Cfg) (s : St) (cb : Cb) (args : List Arg) (e : AExn) (s1 : St)
    (h : rawCall c s cb args = (s1, .exc e)) : Spec.AppTrace.AExn.isUser e = true ∨ e = .ki := by
  unfold rawCall at h
  simp only [] at h
  split at h
  · cases h
  · injection h with _ h2; injection h2 with h3; subst h3; exact Or.inl rfl
  · injection h with _ h2; injection h2 with h3; subst h3; exact Or.inr rfl
  · generalize appClose c _ = x at h
    obtain ⟨s2, ok⟩ := x
    cases ok <;> simp at h

theorem qp_callback (c : Cfg) (k : Nat) (s : St) (cb : Cb) (args : List Arg) (h : QP k s) (hq : QuietEv (.cb cb args)) :
    QP k (callback c s cb args).1 := by
  unfold callback
  split
  · exact h
  · have z1 := qp_rawCall c k s cb args h hq
    split
    · rename_i s1 heq; rw [heq] at z1; exact z1
    · rename_i s1 e hne heq
      rw [heq] at z1
      split
      · exact qp_rawCall c k s1 _ _ z1 (q_report e (rawCall_exc c s cb args e s1 heq))
      · exact z1
    · exact z1

/-- the loop condition stays off through a callback -/
theorem callback_off (c : Cfg) (s : St) (cb : Cb) (args : List Arg) (hk : s.keepRunning = false) :
    (callback c s cb args).1.keepRunning = false := by
  cases h : (callback c s cb args).1.keepRunning with
  | false => rfl
  | true => have := (callback_spec c s cb args).1.kr h; rw [hk] at this; cases this

/-- quiet + loop condition off -/
def QS (k : Nat) (s : St) : Prop := QP k s ∧ s.keepRunning = false

theorem qs_callback (c : Cfg) (k : Nat) (s : St) (cb : Cb) (args : List Arg) (h : QS k s) (hq : QuietEv (.cb cb args)) :
    QS k (callback c s cb args).1 :=
  ⟨qp_callback c k s cb args h.1 hq, callback_off c s cb args h.2⟩

theorem qs_teardown (c : Cfg) (k : Nat) (s : St) (frame : Option Bytes) (h : QS k s) : QS k (teardown c s frame).1 := by
  unfold teardown
  split
  · exact h
  · simp only []
    have h1 : QS k (if Gen.appTeardownStopsPing = true then stopPing { s with hasDoneTeardown := true }
        else { s with hasDoneTeardown := true }) := by
      split
      · exact ⟨qp_stopPing k _ (qp_tr _ h.1 rfl), by rw [(frame_stopPing _).kr]; exact h.2⟩
      · exact ⟨qp_tr _ h.1 rfl, h.2⟩
    generalize (if Gen.appTeardownStopsPing = true then stopPing { s with hasDoneTeardown := true }
        else { s with hasDoneTeardown := true }) = s1 at h1 ⊢
    have h2 := qp_wsClose c k { s1 with keepRunning := false } (qp_tr _ h1.1 rfl)
    have f2 := frame_wsClose c { s1 with keepRunning := false }
    rcases hw : wsClose c { s1 with keepRunning := false } with ⟨s2, ok⟩
    rw [hw] at h2 f2
    simp only [] at h2 f2 ⊢
    have k2 : s2.keepRunning = false := f2.kr
    cases ok with
    | false => exact ⟨by simpa using h2, by simpa using k2⟩
    | true =>
      simp only [Bool.not_true, Bool.false_eq_true, ↓reduceIte]
      exact qs_callback c k _ _ _ ⟨qp_dropSock k s2 h2, by rw [(frame_dropSock s2).kr]; exact k2⟩
        (q_cb _ _ (by intro h'; cases h'))

theorem qs_afterReport (c : Cfg) (k : Nat) (s : St) (e : AExn) (h : QS k s) : QS k (afterReport c s e).1 := by
  unfold afterReport
  have t1 := qs_teardown c k s none h
  split
  · rcases hx : teardown c s none with ⟨s3, r3⟩
    rw [hx] at t1
    cases r3 with
    | ok u => exact t1
    | exc x => exact t1
    | halt => exact t1
  · split
    · exact h
    · exact t1

theorem qs_handleDisconnectBody (c : Cfg) (k : Nat) (s : St) (e : AExn) (rc : Bool) (h : QS k s)
    (he : Spec.AppTrace.AExn.isUser e = true ∨ e = .ki) : QS k (handleDisconnectBody c s e rc).1 := by
  unfold handleDisconnectBody
  simp only []
  have h1 : QS k (if Gen.appDisconnectSetsErrored = true then { s with hasErrored := true } else s) := by
    split
    · exact ⟨qp_tr _ h.1 rfl, h.2⟩
    · exact h
  generalize (if Gen.appDisconnectSetsErrored = true then { s with hasErrored := true } else s) = s0 at h1 ⊢
  have h2 : QS k (if Gen.appDisconnectStopsPing = true then stopPing s0 else s0) := by
    split
    · exact ⟨qp_stopPing k _ h1.1, by rw [(frame_stopPing _).kr]; exact h1.2⟩
    · exact h1
  generalize (if Gen.appDisconnectStopsPing = true then stopPing s0 else s0) = s1 at h2 ⊢
  cases rc with
  | true =>
    simp only [Bool.not_true, Bool.false_eq_true, ↓reduceIte]
    exact qs_afterReport c k s1 e h2
  | false =>
    simp only [Bool.not_false, ↓reduceIte]
    have r2 := qs_callback c k s1 .onError [.exn e] h2 (q_report e he)
    rcases hx : callback c s1 .onError [.exn e] with ⟨s2, r⟩
    rw [hx] at r2
    simp only [] at r2 ⊢
    cases r with
    | exc x => exact r2
    | halt => exact r2
    | ok u => cases u; exact qs_afterReport c k s2 e r2

theorem gen_closeGuard : Gen.appCloseGuard = true := by decide

/-- **the guard at work**: with the loop condition off, handleDisconnect reports nothing but a KeyboardInterrupt -/
theorem qs_handleDisconnect (c : Cfg) (k : Nat) (s : St) (e : AExn) (rc : Bool) (h : QS k s) :
    QS k (handleDisconnect c s e rc).1 := by
  unfold handleDisconnect
  by_cases hki : e = .ki
  · subst hki
    simp only [bne_self_eq_false, Bool.and_false, Bool.false_eq_true, ↓reduceIte]
    exact qs_handleDisconnectBody c k s .ki rc h (Or.inr rfl)
  · have : (Gen.appCloseGuard && !s.keepRunning && e != .ki) = true := by
      simp [gen_closeGuard, h.2, hki]
    simp only [this, ↓reduceIte]
    exact qs_teardown c k s none h

theorem qs_asRead (v : Bool) (k : Nat) (x : St × R Unit) (h : QS k x.1) : QS k (asRead v x).1 := by
  rcases x with ⟨s, r⟩
  cases r with
  | ok u => cases u; exact h
  | exc e => exact h
  | halt => exact h

theorem qs_read (c : Cfg) (k : Nat) (s : St) (h : QS k s) : QS k (Model.App.read c s).1 := by
  unfold Model.App.read
  simp only [h.2, Bool.not_false, ↓reduceIte]
  exact qs_asRead _ k _ (qs_teardown c k s none h)

theorem qs_dispLoop (c : Cfg) (k : Nat) (n : Nat) (s : St) (h : QS k s) : QS k (dispLoop c n s).1 := by
  cases n with
  | zero => exact ⟨qp_emit _ h.1 q_outOfFuel, h.2⟩
  | succ m => rw [dispLoop]; simp only [h.2, Bool.not_false, ↓reduceIte]; exact h

theorem qs_afterRead (c : Cfg) (k : Nat) (f : St → St × R Unit) (x : St × R Bool) (hx : QS k x.1)
    (hf : ∀ s1, QS k s1 → QS k (f s1).1) : QS k (afterRead c f x).1 := by
  rcases x with ⟨s, r⟩
  unfold afterRead
  cases r with
  | exc e => exact hx
  | halt => exact hx
  | ok b =>
    cases b with
    | false => exact hx
    | true =>
      simp only []
      split
      · exact hx
      · exact hf s hx

theorem qs_afterLoop (c : Cfg) (k : Nat) (rc : Bool) (x : St × R Unit) (h : QS k x.1) : QS k (afterLoop c rc x).1 := by
  rcases x with ⟨s, r⟩
  unfold afterLoop
  cases r with
  | halt => exact h
  | exc e => exact qs_handleDisconnect c k s e rc h
  | ok u => exact h

theorem qs_afterOpen (c : Cfg) (k : Nat) (rc : Bool) (x : St × R Unit) (h : QS k x.1) : QS k (afterOpen c rc x).1 := by
  rcases x with ⟨s, r⟩
  unfold afterOpen
  cases r with
  | halt => exact h
  | exc e => exact qs_handleDisconnect c k s e rc h
  | ok u =>
    cases u
    simp only []
    split
    · exact qs_handleDisconnect c k s _ rc h
    · exact qs_afterLoop c k rc _ (qs_dispLoop c k c.fuel s h)

theorem qs_reconnectLoop (c : Cfg) (k : Nat) (n : Nat) (s : St) (h : QS k s) : QS k (reconnectLoop c n s).1 := by
  cases n with
  | zero => exact ⟨qp_emit _ h.1 q_outOfFuel, h.2⟩
  | succ m => rw [reconnectLoop]; simp only [h.2, Bool.not_false, ↓reduceIte]; exact h

theorem qs_rlNext (c : Cfg) (k : Nat) (n : Nat) (x : St × R Unit) (h : QS k x.1) : QS k (rlNext (reconnectLoop c n) x).1 := by
  rcases x with ⟨s, r⟩
  unfold rlNext
  cases r with
  | halt => exact h
  | exc e => exact h
  | ok u => cases u; exact qs_reconnectLoop c k n s h

theorem qs_afterBody (c : Cfg) (k : Nat) (x : St × R Unit) (h : QS k x.1) : QS k (afterBody c x).1 := by
  rcases x with ⟨s1, r1⟩
  unfold afterBody
  have t : ∀ s, QS k s → QS k (if Gen.appFinallyTeardown = true then teardown c s none else (s, .ok ())).1 := by
    intro s hs
    split
    · exact qs_teardown c k s none hs
    · exact hs
  cases r1 with
  | halt => exact h
  | ok u => cases u; exact t s1 h
  | exc e =>
    simp only []
    have t1 := qs_teardown c k s1 none h
    rcases hx : teardown c s1 none with ⟨s2, r2⟩
    rw [hx] at t1
    simp only [] at t1 ⊢
    cases r2 with
    | halt => exact t1
    | ok u => cases u; exact t s2 t1
    | exc e2 =>
      simp only []
      have t2 := t s2 t1
      rcases hy : (if Gen.appFinallyTeardown = true then teardown c s2 none else (s2, .ok ())) with ⟨s3, r3⟩
      rw [hy] at t2
      cases r3 with
      | halt => exact t2
      | ok u => cases u; exact t2
      | exc e3 => exact t2

end WS.Lemmas.App.Stopped
