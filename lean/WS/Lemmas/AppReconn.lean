/-
  WS.Lemmas.AppReconn — reconnection (built-in dispatcher loop, quiet plan, keepalive off): failed dials are
  retried after the interval until one succeeds; the established connection then delivers its traffic; a
  server close frame ends the run.
-/
import WS.Lemmas.AppRun
namespace WS.Lemmas.App
open WS WS.Model.App

/-- the dispatcher loop on a connection that is up: legal traffic, then the terminating event -/
theorem loop_conn (c : Cfg) (hq : Quiet c) (hT : 0 < selectTimeout c) (s3 : St) (legal : List TEv) (te : TEv) (n : Nat)
    (hu3 : Up s3) (hev : s3.evs = legal ++ [te]) (hna : s3.now = s3.arr)
    (hleg : ∀ e ∈ legal, isLegal e.ev = true) (hterm : isTerm te.ev = true)
    (hfuel : need0 (selectTimeout c) (legal ++ [te]) + 1 ≤ n)
    (hz : endTime s3.arr (legal ++ [te]) ≤ c.horizon) :
    dispLoop c n s3 =
      fin (readEvents c [te] { runLegal c s3 legal with now := endTime s3.arr (legal ++ [te]) }) ∧
    (runLegal c s3 legal).arr + te.dt = endTime s3.arr (legal ++ [te]) := by
  have hend1 : endTime s3.arr legal ≤ c.horizon := by
    rw [endTime_append] at hz; have := endTime_ge (endTime s3.arr legal) [te]; omega
  have hn0 := need0_append (selectTimeout c) legal [te]
  simp only [need0, Nat.add_zero] at hn0
  obtain ⟨n', hk, heq⟩ := dispLoop_prefix c hq hT n s3 legal [te] (te.dt / selectTimeout c + 1) hu3 hev hleg
    (by omega) hend1 (by
      have := need_le_need0 (selectTimeout c) s3.now s3.arr legal (by omega)
      omega)
  obtain ⟨_, _, hnow2, harr2⟩ := runLegal_spec c legal s3 hleg hna
  have hu2 : Up (runLegal c s3 legal) := runLegal_up c legal s3 hu3
  have hevs2 : (runLegal c s3 legal).evs = [te] := runLegal_evs c legal [te] s3 hev
  have hat : (runLegal c s3 legal).arr + te.dt = endTime s3.arr (legal ++ [te]) := by
    rw [endTime_append]; simp only [endTime]; rw [harr2]
  obtain ⟨n'', t, hk2, ht1, ht2, ht3, heq2⟩ := dispLoop_idle_until c hT n' (runLegal c s3 legal) te [] 1 hu2 hevs2
    (by omega) (by
      have : ((runLegal c s3 legal).arr + te.dt - (runLegal c s3 legal).now) = te.dt := by
        rw [hnow2, harr2]; omega
      rw [this]; omega)
  obtain ⟨m, rfl⟩ : ∃ m, n'' = m + 1 := ⟨n'' - 1, by omega⟩
  have hmax : max t ((runLegal c s3 legal).arr + te.dt) = (runLegal c s3 legal).arr + te.dt := by
    have : (runLegal c s3 legal).now = (runLegal c s3 legal).arr := by rw [hnow2, harr2]
    omega
  refine ⟨?_, hat⟩
  rw [heq, heq2, dispLoop_ready_step c m { runLegal c s3 legal with now := t } te [] (up_now hu2 t)
    (by simpa using hevs2) (by simpa using ht2) (by simp only []; omega)]
  simp only [hmax]
  rw [term_not_true c m te [] { runLegal c s3 legal with now := (runLegal c s3 legal).arr + te.dt } hterm (by simp)]
  rw [hat]

end WS.Lemmas.App

namespace WS.Lemmas.App
open WS WS.Model.App

/-- exception of a failed dial -/
def dialExn : Dial → AExn
  | .rejected st => .badstatus st
  | _ => .transport

def isFail : Dial → Bool
  | .refused | .rejected _ => true
  | .established _ => false

/-- the state after the first attempt failed -/
def firstFail (c : Cfg) (s : St) (d : Dial) (ds : List Dial) : St :=
  { s with hasErrored := true, lastPing := 0, lastPong := 0,
           sock := some { idx := s.nextIdx, connected := false, isOpen := false, dead := false },
           dials := ds, nextIdx := s.nextIdx + 1, calls := cbCalls c s.calls .onError,
           trace := s.trace ++ [(s.now, .dial s.nextIdx), (s.now, .sockClosed s.nextIdx)] ++
             cbTrace c s.calls s.now .onError [.exn (dialExn d)] }

/-- the first attempt fails (no socket yet): dial, error report, no teardown because reconnect is on -/
theorem first_fail (c : Cfg) (hq : Quiet c) (hr : c.reconnect ≠ 0) (s : St) (d : Dial) (ds : List Dial)
    (hs : s.sock = none) (hp : s.ping = none) (hd : s.dials = d :: ds) (hf : isFail d = true)
    (hk : s.keepRunning = true) :
    setSock c s false = (firstFail c s d ds, .ok ()) := by
  unfold firstFail
  cases d with
  | established evs => simp [isFail] at hf
  | refused =>
    simp only [setSock, release, afterConnect, connect, hd, St.emit, Bool.false_eq_true, ↓reduceIte, handleDisconnect_running, handleDisconnectBody, hk,
      gen_dcErr, gen_dcStops, stopPing, hp, Bool.not_false, callback_quiet c hq, afterReport, reduceCtorEq, hr, ne_eq,
      not_false_eq_true, dialExn]
    simp [List.append_assoc]
  | rejected st =>
    simp only [setSock, release, afterConnect, connect, hd, St.emit, Bool.false_eq_true, ↓reduceIte, handleDisconnect_running, handleDisconnectBody, hk,
      gen_dcErr, gen_dcStops, stopPing, hp, Bool.not_false, callback_quiet c hq, afterReport, reduceCtorEq, hr, ne_eq,
      not_false_eq_true, dialExn]
    simp [List.append_assoc]

/-- a later attempt fails: the previous (already released) socket is dropped, dial, nothing is reported -/
theorem later_fail (c : Cfg) (hr : c.reconnect ≠ 0) (s : St) (w : WSock) (d : Dial) (ds : List Dial)
    (hs : s.sock = some w) (hw : w.isOpen = false) (hp : s.ping = none) (hd : s.dials = d :: ds)
    (hf : isFail d = true) (hk : s.keepRunning = true) :
    setSock c s true =
      ({ s with hasErrored := true, lastPing := 0, lastPong := 0,
                sock := some { idx := s.nextIdx, connected := false, isOpen := false, dead := false },
                dials := ds, nextIdx := s.nextIdx + 1,
                trace := s.trace ++ [(s.now, .dial s.nextIdx), (s.now, .sockClosed s.nextIdx)] }, .ok ()) := by
  cases d with
  | established evs => simp [isFail] at hf
  | refused =>
    simp only [setSock, release, afterConnect, hs, closeTransport, hw, Bool.false_eq_true, ↓reduceIte, connect, hd,
      St.emit, handleDisconnect_running, handleDisconnectBody, hk, gen_dcErr, gen_dcStops, stopPing, hp, Bool.not_true, afterReport, reduceCtorEq, hr,
      ne_eq, not_false_eq_true]
    simp
  | rejected st =>
    simp only [setSock, release, afterConnect, hs, closeTransport, hw, Bool.false_eq_true, ↓reduceIte, connect, hd,
      St.emit, handleDisconnect_running, handleDisconnectBody, hk, gen_dcErr, gen_dcStops, stopPing, hp, Bool.not_true, afterReport, reduceCtorEq, hr,
      ne_eq, not_false_eq_true]
    simp

/-- state in which the dispatcher loop is entered after a successful dial -/
def enterR (c : Cfg) (s : St) (rc : Bool) (evs : List TEv) (ds : List Dial) : St :=
  { s with dials := ds, nextIdx := s.nextIdx + 1,
           sock := some { idx := s.nextIdx, connected := true, isOpen := true, dead := false },
           evs := evs, arr := s.now,
           calls := cbCalls c s.calls (openCb c rc),
           trace := s.trace ++ [(s.now, .dial s.nextIdx)] ++ cbTrace c s.calls s.now (openCb c rc) [] }

/-- a successful dial when no transport is open: connect, opening callback, dispatcher loop -/
theorem setSock_est (c : Cfg) (hq : Quiet c) (hiv : c.iv = 0) (s : St) (rc : Bool) (evs : List TEv) (ds : List Dial)
    (hd : s.dials = .established evs :: ds)
    (hs : s.sock = none ∨ ∃ w, s.sock = some w ∧ w.isOpen = false) :
    setSock c s rc = afterLoop c rc (dispLoop c c.fuel (enterR c s rc evs ds)) := by
  have key : ∀ s1 : St, s1.dials = .established evs :: ds → s1.trace = s.trace → s1.now = s.now →
      s1.nextIdx = s.nextIdx → s1.calls = s.calls → s1.keepRunning = s.keepRunning →
      s1.hasErrored = s.hasErrored → s1.hasDoneTeardown = s.hasDoneTeardown → s1.ping = s.ping →
      s1.lastPing = s.lastPing → s1.lastPong = s.lastPong → s1.sched = s.sched →
      afterConnect c rc (connect s1) = afterLoop c rc (dispLoop c c.fuel (enterR c s rc evs ds)) := by
    intro s1 h1 h2 h3 h4 h5 h6 h7 h8 h9 h10 h11 h12
    simp only [afterConnect, connect, h1, St.emit, hiv, ne_eq, not_true_eq_false, ↓reduceIte]
    rw [callback_quiet c hq]
    simp only [afterOpen, enterR, h2, h3, h4, h5, h6, h7, h8, h9, h10, h11, h12, List.append_assoc]
  unfold setSock
  rcases hs with hs | ⟨w, hs, hw⟩
  · have e1 : release s rc = s := by unfold release; cases rc <;> simp [hs]
    rw [e1]
    exact key s hd rfl rfl rfl rfl rfl rfl rfl rfl rfl rfl rfl
  · cases rc with
    | false =>
      have e1 : release s false = s := by simp [release]
      rw [e1]
      exact key s hd rfl rfl rfl rfl rfl rfl rfl rfl rfl rfl rfl
    | true =>
      have e1 : release s true = { s with sock := some { w with connected := false } } := by
        simp [release, hs, closeTransport, hw]
      rw [e1]
      exact key _ (by simpa using hd) rfl rfl rfl rfl rfl rfl rfl rfl rfl rfl rfl

end WS.Lemmas.App

namespace WS.Lemmas.App
open WS WS.Model.App

/-- the server's close frame ends the connection: close reply, teardown(frame), on_close(code, reason) -/
theorem close_result (c : Cfg) (hq : Quiet c) (s : St) (te : TEv) (w : WSock) (body : Bytes)
    (kr : s.keepRunning = true) (sk : s.sock = some w) (wo : w.isOpen = true) (wd : w.dead = false)
    (pg : s.ping = none) (hdt : s.hasDoneTeardown = false) (arrived : s.arr + te.dt ≤ s.now)
    (hk : te.ev = .close body) :
    fin (readEvents c [te] s) =
      ({ s with keepRunning := false, hasDoneTeardown := true, lastPing := 0, lastPong := 0, sock := none,
                evs := [], arr := s.arr + te.dt, calls := cbCalls c s.calls .onClose,
                trace := s.trace ++ [(s.now, .wrote Gen.opcodeClose (beN 2 Gen.statusNormal)), (s.now, .sockDropped w.idx)] ++
                  cbTrace c s.calls s.now .onClose (closeArgs c (some body)) }, .ok ()) := by
  simp only [readEvents, handleEv, asRead, arrived, ↓reduceIte, hk, fin, sk, Option.map_some, St.writable, wo, wd,
    Bool.not_false, Bool.and_self, St.emit, gen_closeToTeardown, teardown, gen_guard, hdt, Bool.and_false,
    Bool.false_eq_true, gen_tdStops, stopPing, pg, wsClose, Bool.not_true, dropSock, callback_quiet c hq]
  simp [List.append_assoc]

/-- the state before a later attempt: the reconnect interval has been slept -/
def sleepStep (r : Nat) (s : St) : St :=
  { s with now := s.now + r, trace := s.trace ++ [(s.now, .sleep r)] }

/-- one iteration of the reconnect loop up to the call of setSock(True) -/
theorem rl_step (c : Cfg) (n : Nat) (s : St) (kr : s.keepRunning = true) (pg : s.ping = none)
    (hz : s.now + c.reconnect ≤ c.horizon) :
    reconnectLoop c (n + 1) s = rlNext (reconnectLoop c n) (setSock c (sleepStep c.reconnect s) true) := by
  rw [reconnectLoop]
  simp only [kr, Bool.not_true, Bool.false_eq_true, ↓reduceIte]
  rw [waitUntil_none c _ _ (by simpa using pg) (by simpa using hz)]
  have m : max s.now (s.now + c.reconnect) = s.now + c.reconnect := by omega
  simp only [Bool.not_true, Bool.false_eq_true, ↓reduceIte, St.emit, m, sleepStep]

/-- the state after a later failed attempt -/
def failStep (r : Nat) (s : St) : St :=
  { s with now := s.now + r, hasErrored := true, lastPing := 0, lastPong := 0,
           sock := some { idx := s.nextIdx, connected := false, isOpen := false, dead := false },
           dials := s.dials.tail, nextIdx := s.nextIdx + 1,
           trace := s.trace ++ [(s.now, .sleep r), (s.now + r, .dial s.nextIdx), (s.now + r, .sockClosed s.nextIdx)] }

/-- waiting to reconnect: loop running, no ping thread, the previous socket already released -/
structure Retrying (s : St) : Prop where
  kr : s.keepRunning = true
  pg : s.ping = none
  hdt : s.hasDoneTeardown = false
  lp : s.lastPing = 0
  sk : ∃ w, s.sock = some w ∧ w.isOpen = false

theorem retrying_failStep (r : Nat) (s : St) (h : Retrying s) : Retrying (failStep r s) :=
  ⟨h.kr, h.pg, h.hdt, rfl, ⟨_, rfl, rfl⟩⟩

theorem rl_fail (c : Cfg) (hr : c.reconnect ≠ 0) (n : Nat) (s : St) (d : Dial) (ds : List Dial) (h : Retrying s)
    (hd : s.dials = d :: ds) (hf : isFail d = true) (hz : s.now + c.reconnect ≤ c.horizon) :
    reconnectLoop c (n + 1) s = reconnectLoop c n (failStep c.reconnect s) := by
  obtain ⟨w, hs, hw⟩ := h.sk
  rw [rl_step c n s h.kr h.pg hz]
  rw [later_fail c hr (sleepStep c.reconnect s) w d ds (by simpa [sleepStep] using hs) hw
    (by simpa [sleepStep] using h.pg) (by simpa [sleepStep] using hd) hf (by simpa [sleepStep] using h.kr)]
  simp only [rlNext, sleepStep, failStep, hd, List.tail_cons, List.append_assoc, List.cons_append, List.nil_append]

end WS.Lemmas.App

namespace WS.Lemmas.App
open WS WS.Model.App

/-- the final state of a connection that was entered in `s3`, carried `legal` and was closed by the server -/
def closeState (c : Cfg) (s3 : St) (legal : List TEv) (te : TEv) (body : Bytes) (idx : Nat) : St :=
  let sT : St := { runLegal c s3 legal with now := endTime s3.arr (legal ++ [te]) }
  { sT with keepRunning := false, hasDoneTeardown := true, lastPing := 0, lastPong := 0, sock := none,
            evs := [], arr := sT.arr + te.dt, calls := cbCalls c sT.calls .onClose,
            trace := sT.trace ++ [(sT.now, .wrote Gen.opcodeClose (beN 2 Gen.statusNormal)), (sT.now, .sockDropped idx)] ++
              cbTrace c sT.calls sT.now .onClose (closeArgs c (some body)) }

/-- a successful attempt whose connection the server closes -/
theorem attempt_close (c : Cfg) (hq : Quiet c) (hT : 0 < selectTimeout c) (hiv : c.iv = 0) (s : St) (rc : Bool)
    (legal : List TEv) (te : TEv) (body : Bytes) (ds : List Dial)
    (hd : s.dials = .established (legal ++ [te]) :: ds)
    (hs : s.sock = none ∨ ∃ w, s.sock = some w ∧ w.isOpen = false)
    (kr : s.keepRunning = true) (pg : s.ping = none) (hdt : s.hasDoneTeardown = false) (lp : s.lastPing = 0)
    (hleg : ∀ e ∈ legal, isLegal e.ev = true) (hk : te.ev = .close body)
    (hfuel : need0 (selectTimeout c) (legal ++ [te]) + 1 ≤ c.fuel)
    (hz : endTime s.now (legal ++ [te]) ≤ c.horizon) :
    setSock c s rc = (closeState c (enterR c s rc (legal ++ [te]) ds) legal te body s.nextIdx, .ok ()) := by
  rw [setSock_est c hq hiv s rc (legal ++ [te]) ds hd hs]
  have hu3 : Up (enterR c s rc (legal ++ [te]) ds) := ⟨kr, ⟨_, rfl, rfl, rfl, rfl⟩, pg, lp⟩
  obtain ⟨hl, hat⟩ := loop_conn c hq hT (enterR c s rc (legal ++ [te]) ds) legal te c.fuel hu3 rfl rfl hleg
    (by simp [hk, isTerm]) hfuel hz
  rw [hl]
  have hu2 := runLegal_up c legal _ hu3
  have hsk : (runLegal c (enterR c s rc (legal ++ [te]) ds) legal).sock =
      some { idx := s.nextIdx, connected := true, isOpen := true, dead := false } := by
    rw [runLegal_sock]; rfl
  rw [close_result c hq _ te _ body (by simpa using hu2.kr) (by simpa using hsk) rfl rfl (by simpa using hu2.pg)
    (by simp only []; rw [runLegal_hdt]; exact hdt) (by simp only []; omega) hk]
  rfl

theorem rl_stopped (c : Cfg) (n : Nat) (s : St) (h : s.keepRunning = false) :
    reconnectLoop c (n + 1) s = (s, .ok ()) := by
  rw [reconnectLoop]; simp [h]

theorem rl_success (c : Cfg) (hq : Quiet c) (hT : 0 < selectTimeout c) (hiv : c.iv = 0) (n : Nat) (s : St)
    (legal : List TEv) (te : TEv) (body : Bytes) (ds : List Dial) (h : Retrying s)
    (hd : s.dials = .established (legal ++ [te]) :: ds)
    (hleg : ∀ e ∈ legal, isLegal e.ev = true) (hk : te.ev = .close body)
    (hfuel : need0 (selectTimeout c) (legal ++ [te]) + 1 ≤ c.fuel)
    (hz : endTime (s.now + c.reconnect) (legal ++ [te]) ≤ c.horizon) :
    reconnectLoop c (n + 2) s =
      (closeState c (enterR c (sleepStep c.reconnect s) true (legal ++ [te]) ds) legal te body s.nextIdx, .ok ()) := by
  obtain ⟨w, hs, hw⟩ := h.sk
  have hz1 : s.now + c.reconnect ≤ c.horizon := by
    have := endTime_ge (s.now + c.reconnect) (legal ++ [te]); omega
  rw [rl_step c (n + 1) s h.kr h.pg hz1]
  rw [attempt_close c hq hT hiv (sleepStep c.reconnect s) true legal te body ds (by simpa [sleepStep] using hd)
    (Or.inr ⟨w, by simpa [sleepStep] using hs, hw⟩) (by simpa [sleepStep] using h.kr)
    (by simpa [sleepStep] using h.pg) (by simpa [sleepStep] using h.hdt) (by simpa [sleepStep] using h.lp)
    hleg hk hfuel (by simpa [sleepStep] using hz)]
  simp only [rlNext]
  rw [rl_stopped c n _ rfl]
  rfl

/-- the state after a list of later failed attempts -/
def afterFails (r : Nat) (s : St) (fails : List Dial) : St := fails.foldl (fun s _ => failStep r s) s

theorem afterFails_now (r : Nat) : ∀ (fails : List Dial) (s : St), (afterFails r s fails).now = s.now + fails.length * r := by
  intro fails
  induction fails with
  | nil => intro s; simp [afterFails]
  | cons d ds ih =>
    intro s
    simp only [afterFails, List.foldl_cons, List.length_cons] at ih ⊢
    rw [ih]; simp only [failStep]; rw [Nat.add_mul]; omega

/-- **retry until success**: any number of failed attempts, each after the interval, then the successful one -/
theorem rl_all (c : Cfg) (hq : Quiet c) (hT : 0 < selectTimeout c) (hiv : c.iv = 0) (hr : c.reconnect ≠ 0)
    (legal : List TEv) (te : TEv) (body : Bytes)
    (hleg : ∀ e ∈ legal, isLegal e.ev = true) (hk : te.ev = .close body)
    (hfuel : need0 (selectTimeout c) (legal ++ [te]) + 1 ≤ c.fuel) :
    ∀ (fails : List Dial) (s : St) (n : Nat), Retrying s →
      s.dials = fails ++ [.established (legal ++ [te])] → (∀ d ∈ fails, isFail d = true) →
      fails.length + 2 ≤ n →
      endTime (s.now + (fails.length + 1) * c.reconnect) (legal ++ [te]) ≤ c.horizon →
      reconnectLoop c n s =
        (closeState c (enterR c (sleepStep c.reconnect (afterFails c.reconnect s fails)) true (legal ++ [te]) [])
          legal te body (s.nextIdx + fails.length), .ok ()) := by
  intro fails
  induction fails with
  | nil =>
    intro s n h hd _ hn hz
    obtain ⟨m, rfl⟩ : ∃ m, n = m + 2 := ⟨n - 2, by simp at hn; omega⟩
    have := rl_success c hq hT hiv m s legal te body [] h (by simpa using hd) hleg hk hfuel (by simpa using hz)
    simpa [afterFails] using this
  | cons d ds ih =>
    intro s n h hd hf hn hz
    obtain ⟨m, rfl⟩ : ∃ m, n = m + 1 := ⟨n - 1, by simp at hn; omega⟩
    have hge := endTime_ge (s.now + (ds.length + 1 + 1) * c.reconnect) (legal ++ [te])
    simp only [List.length_cons] at hz hn
    have hz1 : s.now + c.reconnect ≤ c.horizon := by
      have : c.reconnect ≤ (ds.length + 1 + 1) * c.reconnect := Nat.le_mul_of_pos_left _ (by omega)
      omega
    rw [rl_fail c hr m s d (ds ++ [.established (legal ++ [te])]) h (by simpa using hd) (hf d (by simp)) hz1]
    have := ih (failStep c.reconnect s) m (retrying_failStep _ s h) (by simp [failStep, hd])
      (fun x hx => hf x (by simp [hx])) (by omega) (by
        simp only [failStep]
        have e : s.now + c.reconnect + (ds.length + 1) * c.reconnect = s.now + (ds.length + 1 + 1) * c.reconnect := by
          rw [Nat.add_mul (ds.length + 1) 1]; omega
        rw [e]; exact hz)
    rw [this]
    simp only [afterFails, List.foldl_cons, failStep, List.length_cons]
    congr 2
    omega

end WS.Lemmas.App

namespace WS.Lemmas.App
open WS WS.Model.App

/-- the state in which the successful attempt is made, after `d :: ds` failed -/
def beforeSuccess (c : Cfg) (s0 : St) (d : Dial) (ds : List Dial) : St :=
  sleepStep c.reconnect (afterFails c.reconnect (firstFail c (prologue s0) d (ds ++ [])) ds)

theorem afterBody_done (c : Cfg) (s : St) (h : s.hasDoneTeardown = true) : afterBody c (s, .ok ()) = (s, .ok ()) := by
  simp [afterBody, teardown_Q c s none h]
where
  teardown_Q (c : Cfg) (s : St) (frame : Option Bytes) (h : s.hasDoneTeardown = true) :
      teardown c s frame = (s, .ok ()) := by
    unfold teardown; simp [h]

/-- **a whole reconnecting run**: the first attempt and `ds` further ones fail, then a connection is
    established, carries `legal` and is closed by the server. -/
theorem reconnect_run (c : Cfg) (hq : Quiet c) (hacc : argsAccepted c.iv c.to = true) (hiv : c.iv = 0)
    (hr : c.reconnect ≠ 0) (s0 : St) (d : Dial) (ds : List Dial) (legal : List TEv) (te : TEv) (body : Bytes)
    (hs0 : s0.sock = none) (hp0 : s0.ping = none)
    (hd : s0.dials = (d :: ds) ++ [.established (legal ++ [te])])
    (hfails : ∀ x ∈ d :: ds, isFail x = true)
    (hleg : ∀ e ∈ legal, isLegal e.ev = true) (hk : te.ev = .close body)
    (hfuel : need0 (selectTimeout c) (legal ++ [te]) + 1 ≤ c.fuel) (hfuel2 : ds.length + 2 ≤ c.fuel)
    (hz : endTime (s0.now + (ds.length + 1) * c.reconnect) (legal ++ [te]) ≤ c.horizon) :
    runForeverO c s0 =
      ((closeState c (enterR c (sleepStep c.reconnect (afterFails c.reconnect
            (firstFail c (prologue s0) d (ds ++ [.established (legal ++ [te])])) ds)) true (legal ++ [te]) [])
          legal te body (s0.nextIdx + 1 + ds.length)).emit (.returned true), .returned true) := by
  have hT := selectTimeout_pos c hacc
  unfold runForeverO
  simp only [hacc, hs0, Bool.not_true, Bool.false_eq_true, ↓reduceIte, Option.isSome_none]
  unfold runBody firstStage
  have h1 := first_fail c hq hr (prologue s0) d (ds ++ [.established (legal ++ [te])]) (by simpa [prologue] using hs0)
    (by simpa [prologue] using hp0) (by simpa [prologue] using hd) (hfails d (by simp)) (by simp [prologue])
  rw [h1]
  simp only [hr, ne_eq, not_false_eq_true, ↓reduceIte]
  have hret : Retrying (firstFail c (prologue s0) d (ds ++ [.established (legal ++ [te])])) :=
    ⟨rfl, by simpa [firstFail, prologue] using hp0, rfl, rfl, ⟨_, rfl, rfl⟩⟩
  have h2 := rl_all c hq hT hiv hr legal te body hleg hk hfuel ds
    (firstFail c (prologue s0) d (ds ++ [.established (legal ++ [te])])) c.fuel hret rfl
    (fun x hx => hfails x (by simp [hx])) hfuel2 (by simpa [firstFail, prologue] using hz)
  rw [h2]
  rw [afterBody_done c _ rfl]
  have hne : (firstFail c (prologue s0) d (ds ++ [.established (legal ++ [te])])).nextIdx = s0.nextIdx + 1 := rfl
  rw [hne]
  have hhe : (closeState c (enterR c (sleepStep c.reconnect (afterFails c.reconnect
      (firstFail c (prologue s0) d (ds ++ [.established (legal ++ [te])])) ds)) true (legal ++ [te]) [])
      legal te body (s0.nextIdx + 1 + ds.length)).hasErrored = true := by
    simp only [closeState]
    rw [runLegal_he]
    simp only [enterR, sleepStep]
    have : ∀ (l : List Dial) (s : St), s.hasErrored = true → (afterFails c.reconnect s l).hasErrored = true := by
      intro l
      induction l with
      | nil => intro s h; exact h
      | cons x xs ih => intro s _; exact ih _ rfl
    exact this ds _ rfl
  simp only [hhe]

end WS.Lemmas.App

namespace WS.Lemmas.App
open WS WS.Model.App
open WS.Spec.AppTrace (cbOnly)

/-- the network skeleton of a trace: connection attempts, sleeps, transport releases, the return -/
def netOnly (tr : Trace) : Trace :=
  tr.filter fun te => match te.2 with
    | .dial _ | .sleep _ | .sockClosed _ | .sockDropped _ | .returned _ => true
    | _ => false

theorem netOnly_append (a b : Trace) : netOnly (a ++ b) = netOnly a ++ netOnly b := by simp [netOnly]

theorem netOnly_cbTrace (c : Cfg) (calls : Cb → Nat) (t : Nat) (cb : Cb) (args : List Arg) :
    netOnly (cbTrace c calls t cb args) = [] := by
  unfold cbTrace netOnly
  split
  · rfl
  · split <;> simp

/-- retries after the first failed attempt at tick `t`: sleep r, then the next attempt exactly r later -/
def retryTrace (r : Nat) : Nat → Nat → Nat → Trace
  | _, _, 0 => []
  | t, i, n + 1 => [(t, .sleep r), (t + r, .dial i), (t + r, .sockClosed i)] ++ retryTrace r (t + r) (i + 1) n

theorem netOnly_wrote (t op : Nat) (p : Bytes) : netOnly [(t, Ev.wrote op p)] = [] := rfl

theorem applyLegal_net (c : Cfg) (s : St) (e : TEv) : netOnly (applyLegal c s e).trace = netOnly s.trace := by
  unfold applyLegal
  cases e.ev <;> simp only [netOnly_append, netOnly_cbTrace, netOnly_wrote, List.append_nil]

theorem runLegal_net (c : Cfg) : ∀ (l : List TEv) (s : St), netOnly (runLegal c s l).trace = netOnly s.trace := by
  intro l
  induction l with
  | nil => intro s; rfl
  | cons e r ih => intro s; simp only [runLegal, List.foldl_cons] at ih ⊢; rw [ih, applyLegal_net]

theorem afterFails_net (r : Nat) : ∀ (ds : List Dial) (s : St),
    netOnly (afterFails r s ds).trace = netOnly s.trace ++ retryTrace r s.now s.nextIdx ds.length ∧
    (afterFails r s ds).now = s.now + ds.length * r ∧ (afterFails r s ds).nextIdx = s.nextIdx + ds.length ∧
    cbOnly (afterFails r s ds).trace = cbOnly s.trace ∧ (afterFails r s ds).calls = s.calls := by
  intro ds
  induction ds with
  | nil => intro s; simp [afterFails, retryTrace]
  | cons d l ih =>
    intro s
    obtain ⟨h1, h2, h3, h4, h5⟩ := ih (failStep r s)
    simp only [afterFails, List.foldl_cons, List.length_cons] at h1 h2 h3 h4 h5 ⊢
    refine ⟨?_, ?_, ?_, ?_, ?_⟩
    · rw [h1]; simp [failStep, netOnly_append, retryTrace, netOnly]
    · rw [h2]; simp only [failStep]; rw [Nat.add_mul]; omega
    · rw [h3]; simp only [failStep]; omega
    · rw [h4]; simp [failStep, cbOnly]
    · rw [h5]; rfl


end WS.Lemmas.App
