/-
  WS.Lemmas.TlsOrder — helper lemmas for C11's ordering clause: in every trace of `connect`, no
  handshake byte is written on a transport dialled for a secure URL unless a successful wrap with
  the computed policy precedes it; the proxy CONNECT is the only plaintext.  Core Lean only.
-/
import WS.Lemmas.Connect
import WS.Spec.TlsPolicy
namespace WS.Lemmas.TlsOrder
open WS WS.PyH2 WS.H2 WS.Model.Http WS.Model.Handshake WS.Model.Connect WS.Lemmas.Connect

def evIdx : Ev → Nat
  | .dial i _ => i | .adopt i _ => i | .plain i _ => i | .wrap i _ _ => i | .io i _ => i | .close i => i

/-- the condition on one event given everything before it. -/
def okAt (env : Env) (pre : List Ev) : Ev → Prop
  | .io j (.write _) =>
    ∀ u, Ev.dial j u ∈ pre → u.secure = true →
      ∃ p, Ev.wrap j p true ∈ pre ∧ Model.Tls.sslSocket env.sslopt env.tlsEnv u.host = .ok p
  | _ => True

/-- every event of `l` is fine given `pre ++` the events of `l` before it. -/
def Ordered (env : Env) : List Ev → List Ev → Prop
  | _, [] => True
  | pre, e :: rest => okAt env pre e ∧ Ordered env (pre ++ [e]) rest

theorem ordered_append (env : Env) (pre a b : List Ev) :
    Ordered env pre (a ++ b) ↔ Ordered env pre a ∧ Ordered env (pre ++ a) b := by
  induction a generalizing pre with
  | nil => simp [Ordered]
  | cons e rest ih =>
    simp only [List.cons_append, Ordered, ih, List.append_assoc, List.nil_append, and_assoc]

def isIoWrite : Ev → Bool
  | .io _ (.write _) => true
  | _ => false

theorem okAt_of_not_write (env : Env) (pre : List Ev) (e : Ev) (h : isIoWrite e = false) : okAt env pre e := by
  cases e with
  | io j x => cases x with
    | write bs => simp [isIoWrite] at h
    | recv n => trivial
  | _ => trivial

theorem ordered_of_nowrite (env : Env) (pre l : List Ev) (h : ∀ e ∈ l, isIoWrite e = false) :
    Ordered env pre l := by
  induction l generalizing pre with
  | nil => trivial
  | cons e rest ih =>
    exact ⟨okAt_of_not_write env pre e (h e (by simp)), ih _ (fun x hx => h x (by simp [hx]))⟩

/-- handshake events on transport `i` after a prefix in which `i`, if dialled for a secure URL, has
    been wrapped. -/
theorem ordered_ios (env : Env) (i : Nat) (pre l : List Ev)
    (hpre : ∀ u, Ev.dial i u ∈ pre → u.secure = true →
      ∃ p, Ev.wrap i p true ∈ pre ∧ Model.Tls.sslSocket env.sslopt env.tlsEnv u.host = .ok p)
    (hl : ∀ e ∈ l, ∃ x, e = Ev.io i x) : Ordered env pre l := by
  induction l generalizing pre with
  | nil => trivial
  | cons e rest ih =>
    obtain ⟨x, hx⟩ := hl e (by simp)
    subst hx
    refine ⟨?_, ih _ ?_ (fun y hy => hl y (by simp [hy]))⟩
    · cases x with
      | write bs => exact hpre
      | recv n => trivial
    · intro u hu hs
      rcases List.mem_append.mp hu with hu | hu
      · obtain ⟨p, hp, hpol⟩ := hpre u hu hs
        exact ⟨p, List.mem_append.mpr (Or.inl hp), hpol⟩
      · simp at hu

/-! ### shape of the events of `_http.connect` -/

/-- a successful `_http.connect` (no caller socket): dial, only proxy plaintext, then — exactly for a
    secure URL — one successful wrap with the policy `_ssl_socket` computes. -/
theorem httpConnect_ok_shape {env : Env} {d : Dial} {i : Nat} {url : Str} {s : Sock} {u : UrlParts}
    {ev : List Ev} (h : httpConnect env d i url none = (.ok (s, u), ev)) :
    env.parseUrl url = .ok u ∧
    ∃ ev1, (∀ e ∈ ev1, ∃ x, e = Ev.plain i x) ∧
      ((u.secure = true ∧ ∃ p, Model.Tls.sslSocket env.sslopt env.tlsEnv u.host = .ok p ∧
          ev = Ev.dial i u :: ev1 ++ [Ev.wrap i p true]) ∨
       (u.secure = false ∧ ev = Ev.dial i u :: ev1)) := by
  unfold httpConnect at h
  cases hp : env.parseUrl url with
  | error e' => rw [hp] at h; simp only at h; cases h
  | ok u0 =>
    rw [hp] at h
    simp only at h
    cases ha : d.addr with
    | error e' => rw [ha] at h; simp only at h; cases h
    | ok _ =>
      rw [ha] at h
      simp only at h
      have hpl := tunnelStep_events (env.proxy u0) d i u0
      cases ht : tunnelStep (env.proxy u0) d i u0 with
      | mk r1 rest =>
        obtain ⟨s1, ev1⟩ := rest
        rw [ht] at h hpl
        simp only at hpl
        cases r1 with
        | error e1 => simp only at h; cases h
        | ok _ =>
          simp only at h
          by_cases hsec : u0.secure = true
          · rw [if_pos hsec] at h
            cases hs : Model.Tls.sslSocket env.sslopt env.tlsEnv u0.host with
            | error e2 => rw [hs] at h; simp only at h; cases h
            | ok p =>
              rw [hs] at h
              simp only at h
              cases hw : d.wrap with
              | error e3 => rw [hw] at h; simp only at h; cases h
              | ok _ =>
                rw [hw] at h
                simp only at h
                cases h
                exact ⟨rfl, ev1, hpl, Or.inl ⟨hsec, p, hs, rfl⟩⟩
          · rw [if_neg hsec] at h
            cases h
            exact ⟨rfl, ev1, hpl, Or.inr ⟨by simpa using hsec, rfl⟩⟩

/-- all events of one `_http.connect` call carry its index and none is a handshake write. -/
theorem httpConnect_events {env : Env} {d : Dial} {i : Nat} {url : Str} {us : Option Sock}
    {res : Except HExn (Sock × UrlParts)} {ev : List Ev} (h : httpConnect env d i url us = (res, ev)) :
    ∀ e ∈ ev, evIdx e = i ∧ isIoWrite e = false := by
  unfold httpConnect at h
  cases hp : env.parseUrl url with
  | error e' => rw [hp] at h; simp only at h; cases h; intro e he; cases he
  | ok u =>
    rw [hp] at h
    simp only at h
    cases us with
    | some s =>
      simp only at h; cases h
      intro e he; simp at he; subst he; exact ⟨rfl, rfl⟩
    | none =>
      simp only at h
      cases ha : d.addr with
      | error e' => rw [ha] at h; simp only at h; cases h; intro e he; cases he
      | ok _ =>
        rw [ha] at h
        simp only at h
        have hpl := tunnelStep_events (env.proxy u) d i u
        have hplain : ∀ ev1 : List Ev, (∀ e ∈ ev1, ∃ x, e = Ev.plain i x) → ∀ tl : List Ev,
            (∀ e ∈ tl, evIdx e = i ∧ isIoWrite e = false) →
            ∀ e ∈ Ev.dial i u :: ev1 ++ tl, evIdx e = i ∧ isIoWrite e = false := by
          intro ev1 h1 tl h2 e he
          rcases List.mem_cons.mp he with he | he
          · subst he; exact ⟨rfl, rfl⟩
          · rcases List.mem_append.mp he with he | he
            · obtain ⟨x, hx⟩ := h1 e he; subst hx; exact ⟨rfl, rfl⟩
            · exact h2 e he
        cases ht : tunnelStep (env.proxy u) d i u with
        | mk r1 rest =>
          obtain ⟨s1, ev1⟩ := rest
          rw [ht] at h hpl
          simp only at hpl
          cases r1 with
          | error e1 =>
            simp only at h; cases h
            exact hplain ev1 hpl [Ev.close i] (by intro e he; simp at he; subst he; exact ⟨rfl, rfl⟩)
          | ok _ =>
            simp only at h
            split at h
            · cases hs : Model.Tls.sslSocket env.sslopt env.tlsEnv u.host with
              | error e2 =>
                rw [hs] at h; simp only at h; cases h
                exact hplain ev1 hpl [Ev.close i] (by intro e he; simp at he; subst he; exact ⟨rfl, rfl⟩)
              | ok p =>
                rw [hs] at h
                simp only at h
                cases hw : d.wrap with
                | error e3 =>
                  rw [hw] at h; simp only at h; cases h
                  exact hplain ev1 hpl [Ev.wrap i p false, Ev.close i]
                    (by intro e he; simp at he; rcases he with he | he <;> (subst he; exact ⟨rfl, rfl⟩))
                | ok _ =>
                  rw [hw] at h; simp only at h; cases h
                  exact hplain ev1 hpl [Ev.wrap i p true]
                    (by intro e he; simp at he; subst he; exact ⟨rfl, rfl⟩)
            · cases h
              have := hplain ev1 hpl [] (by intro e he; cases he)
              simpa using this


/-! ### the whole trace of `connect` -/

/-- one `_http.connect` + handshake block appended to a trace whose indices are all below `i`. -/
theorem ordered_block {env : Env} {d : Dial} {i : Nat} {url : Str} {us : Option Sock}
    {s s' : Sock} {u : UrlParts} {o : Opts} {ev ev2 tr : List Ev} {res : Except HExn HsResp}
    (hc : httpConnect env d i url us = (.ok (s, u), ev))
    (hh : hs env d i s url u o = (res, s', ev2))
    (hfresh : ∀ e ∈ tr, evIdx e < i) :
    Ordered env tr (ev ++ ev2) := by
  rw [ordered_append]
  refine ⟨ordered_of_nowrite env tr ev (fun e he => (httpConnect_events hc e he).2), ?_⟩
  apply ordered_ios env i (tr ++ ev) ev2 _ (hs_events hh)
  intro u' hu hsec
  rcases List.mem_append.mp hu with hu | hu
  · have := hfresh _ hu
    simp [evIdx] at this
  · cases us with
    | some sk =>
      -- the caller's socket: no dial event
      unfold httpConnect at hc
      cases hp : env.parseUrl url with
      | error e' => rw [hp] at hc; simp only at hc; cases hc
      | ok u0 =>
        rw [hp] at hc
        simp only at hc
        cases hc
        simp at hu
    | none =>
      obtain ⟨_, ev1, hpl, hshape⟩ := httpConnect_ok_shape hc
      rcases hshape with ⟨_, p, hpol, hev⟩ | ⟨hns, hev⟩
      · subst hev
        have hu' : u' = u := by
          rcases List.mem_cons.mp hu with hu | hu
          · cases hu; rfl
          · rcases List.mem_append.mp hu with hu | hu
            · obtain ⟨x, hx⟩ := hpl _ hu; cases hx
            · simp at hu
        subst hu'
        exact ⟨p, List.mem_append.mpr (Or.inr (by simp)), hpol⟩
      · subst hev
        have hu' : u' = u := by
          rcases List.mem_cons.mp hu with hu | hu
          · cases hu; rfl
          · obtain ⟨x, hx⟩ := hpl _ hu; cases hx
        subst hu'
        rw [hns] at hsec; cases hsec

theorem ordered_snoc_close (env : Env) (tr : List Ev) (k : Nat) (h : Ordered env [] tr) :
    Ordered env [] (tr ++ [Ev.close k]) := by
  rw [ordered_append]
  exact ⟨h, trivial, trivial⟩

theorem ordered_cleanup (env : Env) (e : HExn) (obj : Obj) (tr : List Ev) (d : Nat)
    (h : Ordered env [] tr) : Ordered env [] (cleanup e obj tr d).trace := by
  unfold cleanup
  cases obj.sock with
  | none => exact h
  | some k => exact ordered_snoc_close env tr k h

theorem fresh_block {env : Env} {d : Dial} {i : Nat} {url : Str} {us : Option Sock}
    {res1 : Except HExn (Sock × UrlParts)} {ev : List Ev}
    (hc : httpConnect env d i url us = (res1, ev)) : ∀ e ∈ ev, evIdx e < i + 1 := by
  intro e he
  have := (httpConnect_events hc e he).1
  omega

theorem fresh_hs {env : Env} {d : Dial} {i : Nat} {s s' : Sock} {url : Str} {u : UrlParts} {o : Opts}
    {res : Except HExn HsResp} {ev : List Ev} (h : hs env d i s url u o = (res, s', ev)) :
    ∀ e ∈ ev, evIdx e < i + 1 := by
  intro e he
  obtain ⟨x, hx⟩ := hs_events h e he
  subst hx
  simp [evIdx]

theorem loop_ordered (env : Env) (world : Nat → Dial) (o : Opts) :
    ∀ (n i cur : Nat) (r : HsResp) (obj : Obj) (tr : List Ev),
      Ordered env [] tr → (∀ e ∈ tr, evIdx e < i) → cur < i →
      Ordered env [] (redirectLoop env world o n i cur r obj tr).trace := by
  intro n
  induction n with
  | zero =>
    intro i cur r obj tr hord hfresh hcur
    unfold redirectLoop
    split
    · exact ordered_cleanup env _ obj tr i hord
    · exact hord
  | succ n ih =>
    intro i cur r obj tr hord hfresh hcur
    unfold redirectLoop
    split
    · cases hloc : redirectTarget env r with
      | error e => simp only; exact ordered_cleanup env _ obj tr i hord
      | ok url =>
        simp only
        have hord1 := ordered_snoc_close env tr cur hord
        have hfresh1 : ∀ e ∈ tr ++ [Ev.close cur], evIdx e < i := by
          intro e he
          rcases List.mem_append.mp he with he | he
          · exact hfresh e he
          · simp at he; subst he; exact hcur
        cases hc : httpConnect env (world i) i url none with
        | mk res ev =>
          cases res with
          | error e =>
            simp only
            apply ordered_cleanup
            rw [ordered_append]
            exact ⟨hord1, ordered_of_nowrite env _ ev (fun x hx => (httpConnect_events hc x hx).2)⟩
          | ok su =>
            obtain ⟨s, u⟩ := su
            simp only
            cases hh : hs env (world i) i s url u o with
            | mk res2 rest2 =>
              obtain ⟨s2, ev2⟩ := rest2
              have hblock : Ordered env [] (tr ++ [Ev.close cur] ++ ev ++ ev2) := by
                rw [List.append_assoc (tr ++ [Ev.close cur]), ordered_append]
                refine ⟨hord1, ?_⟩
                simpa using ordered_block hc hh hfresh1
              cases res2 with
              | error e =>
                simp only
                exact ordered_cleanup env _ _ _ _ hblock
              | ok r' =>
                simp only
                apply ih (i + 1) i r' _ _ hblock _ (by omega)
                intro e he
                rcases List.mem_append.mp he with he | he
                · rcases List.mem_append.mp he with he | he
                  · have := hfresh1 e he; omega
                  · exact fresh_block hc e he
                · exact fresh_hs hh e he
    · exact ih i cur r obj tr hord hfresh hcur

/-- **ordering over the whole trace of `connect`.** -/
theorem connect_ordered (env : Env) (world : Nat → Dial) (url : Str) (o : Opts) (limit : Option Nat)
    (userSock : Option Sock) :
    Ordered env [] (connect env world url o limit userSock {}).trace := by
  unfold connect
  cases hc : httpConnect env (world 0) 0 url userSock with
  | mk res ev =>
    cases res with
    | error e =>
      simp only
      exact ordered_of_nowrite env [] ev (fun x hx => (httpConnect_events hc x hx).2)
    | ok su =>
      obtain ⟨s, u⟩ := su
      simp only
      cases hh : hs env (world 0) 0 s url u o with
      | mk res2 rest2 =>
        obtain ⟨s2, ev2⟩ := rest2
        have hblock : Ordered env [] (ev ++ ev2) := ordered_block hc hh (by intro e he; cases he)
        cases res2 with
        | error e =>
          simp only
          exact ordered_cleanup env _ _ _ _ hblock
        | ok r =>
          simp only
          apply loop_ordered env world o _ 1 0 r _ _ hblock _ (by omega)
          intro e he
          rcases List.mem_append.mp he with he | he
          · exact fresh_block hc e he
          · exact fresh_hs hh e he

/-- `Ordered` in the "split the trace anywhere" form. -/
theorem ordered_split (env : Env) (pre0 tr : List Ev) (h : Ordered env pre0 tr)
    (pre post : List Ev) (e : Ev) (hs : tr = pre ++ e :: post) : okAt env (pre0 ++ pre) e := by
  subst hs
  rw [ordered_append] at h
  exact h.2.1


/-! ### the executable form of the ordering Spec -/

theorem okAt_imp_okAtB (env : Env) (pol : Str → Option Policy)
    (hpol : ∀ host p, Model.Tls.sslSocket env.sslopt env.tlsEnv host = .ok p → pol host = some p)
    (pre : List Ev) (e : Ev) (h : okAt env pre e) : Spec.Tls.okAtB pol pre e = true := by
  cases e with
  | io j x =>
    cases x with
    | recv n => rfl
    | write bs =>
      simp only [Spec.Tls.okAtB, List.all_eq_true]
      intro e he
      cases e with
      | dial j' u =>
        simp only [Bool.or_eq_true, Bool.not_eq_true', Bool.and_eq_false_imp, beq_iff_eq, List.any_eq_true]
        by_cases hj : j' = j
        · subst hj
          by_cases hs : u.secure = true
          · right
            obtain ⟨p, hp, hsp⟩ := h u he hs
            exact ⟨Ev.wrap j' p true, hp, by simp [hpol _ _ hsp]⟩
          · left; intro _; simpa using hs
        · left; intro hc; exact absurd hc hj
      | _ => rfl
  | _ => rfl

theorem ordered_imp_orderedB (env : Env) (pol : Str → Option Policy)
    (hpol : ∀ host p, Model.Tls.sslSocket env.sslopt env.tlsEnv host = .ok p → pol host = some p)
    (pre l : List Ev) (h : Ordered env pre l) : Spec.Tls.orderedB pol pre l = true := by
  induction l generalizing pre with
  | nil => rfl
  | cons e rest ih =>
    simp only [Spec.Tls.orderedB, Bool.and_eq_true]
    exact ⟨okAt_imp_okAtB env pol hpol pre e h.1, ih _ h.2⟩

end WS.Lemmas.TlsOrder
