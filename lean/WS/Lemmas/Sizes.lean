/-
  WS.Lemmas.Sizes — every amount `recv_strict` / `recv_frame` ask of the transport is at most the
  cap, for every state, script and declared length (no hypothesis at all).
-/
import WS.Lemmas.RecvStrict
namespace WS.Lemmas.Sizes
open WS WS.Model WS.Lemmas.RecvStrict

/-- sizes recorded by one `SimSocket.recv(n)`: at most the one entry `n` is added. -/
theorem sock_recv_sizes (fuel : Nat) : ∀ (s : Sock) (n : Nat),
    ∀ x ∈ (s.recv fuel n).2.recvSizes, x ∈ s.recvSizes ∨ x = n := by
  induction fuel with
  | zero => intro s n x hx; simp [Sock.recv] at hx; exact Or.inl hx
  | succ f ih =>
    intro s n x hx
    unfold Sock.recv at hx
    split at hx
    · simp at hx; rcases hx with h | h
      · exact Or.inr h
      · exact Or.inl h
    · split at hx
      · simp only [] at hx
        split at hx <;> (simp at hx; rcases hx with h | h; exact Or.inr h; exact Or.inl h)
      · split at hx
        · have := ih _ n x hx
          simpa using this
        · simp at hx; rcases hx with h | h
          · exact Or.inr h
          · exact Or.inl h
      · simp at hx; rcases hx with h | h
        · exact Or.inr h
        · exact Or.inl h
      · split at hx
        · split at hx
          · simp at hx; rcases hx with h | h
            · exact Or.inr h
            · exact Or.inl h
          · have := ih _ n x hx
            simpa using this
        · have := ih _ n x hx
          simpa using this
      · simp at hx; rcases hx with h | h
        · exact Or.inr h
        · exact Or.inl h
      · simp at hx; rcases hx with h | h
        · exact Or.inr h
        · exact Or.inl h

theorem sockRecv_sizes (c : Conn) (n : Nat) : ∀ x ∈ (c.sockRecv n).2.sock.recvSizes, x ∈ c.sock.recvSizes ∨ x = n := by
  intro x hx
  unfold Conn.sockRecv at hx
  split at hx
  · exact Or.inl hx
  · have := sock_recv_sizes (c.sock.inp.length + 1) c.sock n
    generalize c.sock.recv (c.sock.inp.length + 1) n = r at this hx
    obtain ⟨res, s'⟩ := r
    cases res <;> simp at hx <;> exact this x (by simpa [Sock.close] using hx)

/-- **request sizes, unconditionally** — for EVERY state, EVERY transport script (chunks, timeouts, waits,
    end of stream, resets) and EVERY requested amount (however large a length the peer declared),
    `recv_strict` only ever asks the transport for at most the cap. -/
theorem recvStrictLoop_sizes (fuel : Nat) : ∀ (c : Conn) (n : Nat), SizesOk c (Conn.recvStrictLoop fuel c n).2 := by
  induction fuel with
  | zero => intro c n; simp [Conn.recvStrictLoop]; exact SizesOk.rfl' c
  | succ f ih =>
    intro c n
    unfold Conn.recvStrictLoop
    split
    · exact SizesOk.rfl' c
    · have h1 := sockRecv_sizes c (min Gen.recvCap (n - c.buf.length))
      simp only []
      generalize c.sockRecv (min Gen.recvCap (n - c.buf.length)) = r at h1 ⊢
      obtain ⟨res, c1⟩ := r
      have hs1 : SizesOk c c1 := by
        intro x hx
        rcases h1 x hx with h | h
        · exact Or.inl h
        · right; rw [h]; omega
      cases res with
      | error e => simpa using hs1
      | ok bs =>
        simp only []
        have := ih { c1 with buf := c1.buf ++ bs } n
        exact SizesOk.trans hs1 (by simpa [SizesOk] using this)

theorem recvStrict_sizes (c : Conn) (n : Nat) : SizesOk c (c.recvStrict n).2 := by
  unfold Conn.recvStrict
  have := recvStrictLoop_sizes (c.sock.size + 1) c n
  generalize Conn.recvStrictLoop (c.sock.size + 1) c n = r at this
  obtain ⟨e, c'⟩ := r
  cases e <;> simpa [SizesOk] using this

theorem recvFrame_sizes (c : Conn) : SizesOk c c.recvFrame.2 := by
  unfold Conn.recvFrame
  have s1 : SizesOk c (if c.hdr.isNone then c.recvHeader else (none, c)).2 := by
    split
    · unfold Conn.recvHeader
      have := recvStrict_sizes c 2
      generalize c.recvStrict 2 = r at this
      obtain ⟨e, c'⟩ := r
      cases e <;> simpa [SizesOk] using this
    · exact SizesOk.rfl' c
  generalize (if c.hdr.isNone then c.recvHeader else (none, c)) = r1 at s1
  obtain ⟨e1, c1⟩ := r1
  simp only []
  cases e1 with
  | some e => simpa using s1
  | none =>
    simp only []
    cases hh : c1.hdr with
    | none => simpa using s1
    | some hd =>
      simp only []
      have s2 : SizesOk c1 (if c1.len.isNone then c1.recvLength hd else (none, c1)).2 := by
        split
        · unfold Conn.recvLength
          simp only []
          split
          · have := recvStrict_sizes c1 2
            generalize c1.recvStrict 2 = r at this
            obtain ⟨e, c'⟩ := r
            cases e <;> simpa [SizesOk] using this
          · split
            · have := recvStrict_sizes c1 8
              generalize c1.recvStrict 8 = r at this
              obtain ⟨e, c'⟩ := r
              cases e <;> simpa [SizesOk] using this
            · simpa [SizesOk] using SizesOk.rfl' c1
        · exact SizesOk.rfl' c1
      generalize (if c1.len.isNone then c1.recvLength hd else (none, c1)) = r2 at s2
      obtain ⟨e2, c2⟩ := r2
      simp only []
      cases e2 with
      | some e => exact SizesOk.trans s1 (by simpa using s2)
      | none =>
        simp only []
        have s3 : SizesOk c2 (if c2.maskv.isNone then c2.recvMask hd else (none, c2)).2 := by
          split
          · unfold Conn.recvMask
            split
            · have := recvStrict_sizes c2 4
              generalize c2.recvStrict 4 = r at this
              obtain ⟨e, c'⟩ := r
              cases e <;> simpa [SizesOk] using this
            · simpa [SizesOk] using SizesOk.rfl' c2
          · exact SizesOk.rfl' c2
        generalize (if c2.maskv.isNone then c2.recvMask hd else (none, c2)) = r3 at s3
        obtain ⟨e3, c3⟩ := r3
        simp only []
        cases e3 with
        | some e => exact SizesOk.trans s1 (SizesOk.trans s2 (by simpa using s3))
        | none =>
          simp only []
          have s4 := recvStrict_sizes c3 (c2.len.getD 0)
          generalize c3.recvStrict (c2.len.getD 0) = r4 at s4
          obtain ⟨e4, c4⟩ := r4
          have s123 := SizesOk.trans s1 (SizesOk.trans s2 s3)
          cases e4 with
          | error e => exact SizesOk.trans s123 (by simpa using s4)
          | ok payload =>
            simp only []
            have : SizesOk c { c4 with hdr := none, len := none, maskv := none } := by
              have := SizesOk.trans s123 s4
              simpa [SizesOk] using this
            split <;> simpa using this

end WS.Lemmas.Sizes
