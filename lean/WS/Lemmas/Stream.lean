/-
  WS.Lemmas.Stream — repeated `recv_frame` calls over a stream of complete frames.
-/
import WS.Lemmas.Parser
namespace WS.Lemmas.Stream
open WS WS.Model WS.Spec WS.Lemmas.RecvStrict WS.Lemmas.Frame WS.Lemmas.Parser

/-- `bs` consists of the complete frames `ws` (as the RFC decoder reads them) followed by `tail`. -/
inductive DecodesTo : Bytes → List WireFrame → Bytes → Prop
  | nil (tail : Bytes) : DecodesTo tail [] tail
  | cons {bs rest tail : Bytes} {w : WireFrame} {ws : List WireFrame} :
      decode bs = .frame w rest → DecodesTo rest ws tail → DecodesTo bs (w :: ws) tail

/-- what one `recv_frame` call reports for a decoded frame. -/
def outcome (skip : Bool) (w : WireFrame) : Except Exn Frame :=
  match validate (frameOfWire w) skip with
  | some e => .error e
  | none => .ok (frameOfWire w)

/-- call `recv_frame` `k` times, collecting the outcomes. -/
def recvFrames : Nat → Conn → List (Except Exn Frame) × Conn
  | 0, c => ([], c)
  | k + 1, c =>
    let (r, c1) := c.recvFrame
    let (rs, c2) := recvFrames k c1
    (r :: rs, c2)

theorem good_skip {c c' : Conn} (g : Good c c') : c'.skipUtf8 = c.skipUtf8 := g.same.2.2.2.1

theorem recvFrames_decodes (ws : List WireFrame) : ∀ (c : Conn) (tail : Bytes), Live c → Chunks c.sock.inp → Cleared c →
    DecodesTo (pending c) ws tail →
    ∃ c', recvFrames ws.length c = (ws.map (outcome c.skipUtf8), c') ∧ pending c' = tail ∧ Cleared c' ∧ Good c c' := by
  induction ws with
  | nil =>
    intro c tail hl hch hclr hd
    cases hd
    exact ⟨c, rfl, rfl, hclr, ⟨hl, hch, SameLoop.rfl' c, SizesOk.rfl' c⟩⟩
  | cons w ws ih =>
    intro c tail hl hch hclr hd
    cases hd with
    | cons hdec hrest =>
      obtain ⟨c1, e1, p1, clr1, g1⟩ := recvFrame_decodes c hl hch hclr w _ hdec
      rw [← p1] at hrest
      obtain ⟨c2, e2, p2, clr2, g2⟩ := ih c1 tail g1.live g1.chunks clr1 hrest
      refine ⟨c2, ?_, p2, clr2, Good.trans g1 g2⟩
      simp only [recvFrames, List.length_cons, e1, e2, List.map_cons, good_skip g1]
      rfl

end WS.Lemmas.Stream
