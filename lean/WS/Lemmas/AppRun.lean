/-
  WS.Lemmas.AppRun — a whole `run_forever` with one established connection (quiet plan, keepalive off,
  reconnect off): legal traffic, then a terminating event.
-/
import WS.Lemmas.AppSpec
namespace WS.Lemmas.App
open WS WS.Model.App

theorem selectTimeout_pos (c : Cfg) (h : argsAccepted c.iv c.to = true) : 0 < selectTimeout c := by
  unfold selectTimeout
  cases hto : c.to with
  | none => decide
  | some t =>
    simp only [argsAccepted, hto, Bool.and_eq_true, Bool.not_eq_true', decide_eq_false_iff_not] at h
    by_cases h0 : t = 0
    · simp [h0]; decide
    · simp only [h0, ↓reduceIte]; omega

@[simp] theorem applyLegal_sock (c : Cfg) (s : St) (e : TEv) : (applyLegal c s e).sock = s.sock := by
  unfold applyLegal; cases e.ev <;> rfl
@[simp] theorem applyLegal_hdt (c : Cfg) (s : St) (e : TEv) : (applyLegal c s e).hasDoneTeardown = s.hasDoneTeardown := by
  unfold applyLegal; cases e.ev <;> rfl
@[simp] theorem applyLegal_he (c : Cfg) (s : St) (e : TEv) : (applyLegal c s e).hasErrored = s.hasErrored := by
  unfold applyLegal; cases e.ev <;> rfl

theorem runLegal_up (c : Cfg) : ∀ (l : List TEv) (s : St), Up s → Up (runLegal c s l) := by
  intro l; induction l with
  | nil => intro s h; exact h
  | cons e r ih => intro s h; exact ih _ (applyLegal_up c s e h)

theorem runLegal_evs (c : Cfg) : ∀ (l rest : List TEv) (s : St), s.evs = l ++ rest → (runLegal c s l).evs = rest := by
  intro l; induction l with
  | nil => intro rest s h; simpa [runLegal] using h
  | cons e r ih => intro rest s h; exact ih rest _ (by simp [h])

theorem runLegal_sock (c : Cfg) : ∀ (l : List TEv) (s : St), (runLegal c s l).sock = s.sock := by
  intro l; induction l with
  | nil => intro s; rfl
  | cons e r ih => intro s; simp only [runLegal, List.foldl_cons] at ih ⊢; rw [ih]; simp

theorem runLegal_hdt (c : Cfg) : ∀ (l : List TEv) (s : St), (runLegal c s l).hasDoneTeardown = s.hasDoneTeardown := by
  intro l; induction l with
  | nil => intro s; rfl
  | cons e r ih => intro s; simp only [runLegal, List.foldl_cons] at ih ⊢; rw [ih]; simp

theorem runLegal_he (c : Cfg) : ∀ (l : List TEv) (s : St), (runLegal c s l).hasErrored = s.hasErrored := by
  intro l; induction l with
  | nil => intro s; rfl
  | cons e r ih => intro s; simp only [runLegal, List.foldl_cons] at ih ⊢; rw [ih]; simp

theorem need0_append (T : Nat) (a b : List TEv) : need0 T (a ++ b) = need0 T a + need0 T b := by
  induction a with
  | nil => simp [need0]
  | cons e r ih => simp only [List.cons_append, need0, ih]; omega

theorem endTime_append (arr : Nat) (a b : List TEv) : endTime arr (a ++ b) = endTime (endTime arr a) b := by
  induction a generalizing arr with
  | nil => rfl
  | cons e r ih => simp only [List.cons_append, endTime, ih]

/-- a terminating event never makes `read()` return True -/
theorem term_not_true (c : Cfg) (n : Nat) (te : TEv) (rest : List TEv) (s : St) (h : isTerm te.ev = true)
    (ha : s.arr + te.dt ≤ s.now) :
    afterRead c (dispLoop c n) (readEvents c (te :: rest) s) =
    fin (readEvents c (te :: rest) s) := by
  have key : (readEvents c (te :: rest) s).2 ≠ .ok true := by
    simp only [readEvents, ha, ↓reduceIte, Bool.not_true, Bool.false_eq_true]
    cases hk : te.ev with
    | message op p f => simp [hk, isTerm] at h
    | ping p => simp [hk, isTerm] at h
    | pong p => simp [hk, isTerm] at h
    | part => simp [hk, isTerm] at h
    | eof => simp [handleEv]
    | reset => simp [handleEv]
    | protoError => simp [handleEv]
    | payloadError => simp [handleEv]
    | close b =>
      simp only [handleEv, gen_closeToTeardown, ↓reduceIte]
      generalize teardown c _ (some b) = x
      rcases x with ⟨s', r⟩
      cases r <;> simp [asRead]
  unfold afterRead
  rcases hx : readEvents c (te :: rest) s with ⟨s', r⟩
  rw [hx] at key
  cases r with
  | exc x => rfl
  | halt => rfl
  | ok b => cases b with
    | false => rfl
    | true => exact absurd rfl key

/-- the dispatcher loop on one connection: "process the legal traffic, then the terminating event" -/
theorem loop_single (c : Cfg) (hq : Quiet c) (hacc : argsAccepted c.iv c.to = true) (hiv : c.iv = 0)
    (hrc : c.reconnect = 0) (s0 : St) (legal : List TEv) (te : TEv)
    (hs : s0.sock = none) (hp : s0.ping = none) (hl : s0.lastPing = 0)
    (hd : s0.dials = [.established (legal ++ [te])])
    (hleg : ∀ e ∈ legal, isLegal e.ev = true) (hterm : isTerm te.ev = true)
    (hfuel : need0 (selectTimeout c) (legal ++ [te]) + 1 ≤ c.fuel)
    (hz : endTime s0.now (legal ++ [te]) ≤ c.horizon) :
    ∃ sT w, AtTerm sT te w ∧ w.idx = s0.nextIdx ∧ sT.now = endTime s0.now (legal ++ [te]) ∧
      sT.trace = (runLegal c (enterLoop c s0 (legal ++ [te]) []) legal).trace ∧
      sT.calls = (runLegal c (enterLoop c s0 (legal ++ [te]) []) legal).calls ∧
      dispLoop c c.fuel (enterLoop c s0 (legal ++ [te]) []) = fin (readEvents c [te] sT) := by
  have hT := selectTimeout_pos c hacc
  let s3 := enterLoop c s0 (legal ++ [te]) []
  have hu3 : Up s3 := ⟨rfl, ⟨_, rfl, rfl, rfl, rfl⟩, hp, hl⟩
  have hend1 : endTime s0.now legal ≤ c.horizon := by
    rw [endTime_append] at hz; have := endTime_ge (endTime s0.now legal) [te]; omega
  have hn0 := need0_append (selectTimeout c) legal [te]
  simp only [need0, Nat.add_zero] at hn0
  obtain ⟨n', hk, heq⟩ := dispLoop_prefix c hq hT c.fuel s3 legal [te] (te.dt / selectTimeout c + 1) hu3 rfl hleg
    (Nat.le_refl _) hend1 (by
      have := need_le_need0 (selectTimeout c) s3.now s3.arr legal (Nat.le_refl _)
      omega)
  have hspec := runLegal_spec c legal s3 hleg rfl
  obtain ⟨_, _, hnow2, harr2⟩ := hspec
  let s2 := runLegal c s3 legal
  have hu2 : Up s2 := runLegal_up c legal s3 hu3
  have hevs2 : s2.evs = [te] := runLegal_evs c legal [te] s3 rfl
  have hat : s2.arr + te.dt = endTime s0.now (legal ++ [te]) := by
    rw [endTime_append]; simp only [endTime]
    show (runLegal c s3 legal).arr + te.dt = _
    rw [harr2]; rfl
  obtain ⟨n'', t, hk2, ht1, ht2, ht3, heq2⟩ := dispLoop_idle_until c hT n' s2 te [] 1 hu2 hevs2 (by omega)
    (by
      have : (s2.arr + te.dt - s2.now) = te.dt := by
        show (runLegal c s3 legal).arr + te.dt - (runLegal c s3 legal).now = te.dt
        rw [hnow2, harr2]; omega
      rw [this]; omega)
  obtain ⟨m, rfl⟩ : ∃ m, n'' = m + 1 := ⟨n'' - 1, by omega⟩
  have hmax : max t (s2.arr + te.dt) = s2.arr + te.dt := by
    have : s2.now = s2.arr := by show (runLegal c s3 legal).now = (runLegal c s3 legal).arr; rw [hnow2, harr2]
    omega
  rw [heq, heq2, dispLoop_ready_step c m { s2 with now := t } te [] (up_now hu2 t) (by simpa using hevs2)
    (by simpa using ht2) (by simp only []; omega)]
  simp only [hmax]
  rw [term_not_true c m te [] { s2 with now := s2.arr + te.dt } hterm (by simp)]
  obtain ⟨w, hsk, ho, hdd, hc⟩ := hu2.sk
  refine ⟨{ s2 with now := s2.arr + te.dt }, w, ⟨hu2.kr, hsk, ho, hdd, hc, hu2.pg, ?_, ?_, hevs2, by simp⟩, ?_, hat, rfl, rfl, rfl⟩
  · show (runLegal c s3 legal).hasDoneTeardown = false
    rw [runLegal_hdt]; rfl
  · show (runLegal c s3 legal).hasErrored = false
    rw [runLegal_he]; rfl
  · have : s2.sock = s3.sock := runLegal_sock c legal s3
    rw [hsk] at this
    have h3 : s3.sock = some { idx := s0.nextIdx, connected := true, isOpen := true, dead := false } := rfl
    rw [h3] at this
    injection this with this
    rw [this]

/-- **one connection, whole run** -/
theorem run_single (c : Cfg) (hq : Quiet c) (hacc : argsAccepted c.iv c.to = true) (hiv : c.iv = 0)
    (hrc : c.reconnect = 0) (s0 : St) (legal : List TEv) (te : TEv)
    (hs : s0.sock = none) (hp : s0.ping = none) (hl : s0.lastPing = 0)
    (hd : s0.dials = [.established (legal ++ [te])])
    (hleg : ∀ e ∈ legal, isLegal e.ev = true) (hterm : isTerm te.ev = true)
    (hfuel : need0 (selectTimeout c) (legal ++ [te]) + 1 ≤ c.fuel)
    (hz : endTime s0.now (legal ++ [te]) ≤ c.horizon) :
    ∃ sT w, AtTerm sT te w ∧ w.idx = s0.nextIdx ∧ sT.now = endTime s0.now (legal ++ [te]) ∧
      sT.trace = (runLegal c (enterLoop c s0 (legal ++ [te]) []) legal).trace ∧
      sT.calls = (runLegal c (enterLoop c s0 (legal ++ [te]) []) legal).calls ∧
      runForever c s0 = finishRun c (fin (readEvents c [te] sT)) ∧
      runForeverO c s0 = finishRunO c (fin (readEvents c [te] sT)) := by
  obtain ⟨sT, w, h1, h2, h3, h4, h5, h6⟩ := loop_single c hq hacc hiv hrc s0 legal te hs hp hl hd hleg hterm hfuel hz
  refine ⟨sT, w, h1, h2, h3, h4, h5, ?_, ?_⟩
  · rw [runForever_reduce c hq s0 (legal ++ [te]) [] hacc hs hiv hrc hd, h6]
  · rw [runForeverO_reduce c hq s0 (legal ++ [te]) [] hacc hs hiv hrc hd, h6]

end WS.Lemmas.App
