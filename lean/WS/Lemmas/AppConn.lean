/-
  WS.Lemmas.AppConn — one established connection under a quiet plan with the keepalive off:
  the select loop (`Dispatcher.read` / `SSLDispatcher.read`) delivers every legal event at its arrival
  time and then meets the terminating event.  Idle `select` time-outs are absorbed by a fuel measure.
-/
import WS.Lemmas.AppBasic
namespace WS.Lemmas.App
open WS WS.Model.App

/-- the connection is up and quiet: loop running, transport open, no ping thread, no ping sent yet -/
structure Up (s : St) : Prop where
  kr : s.keepRunning = true
  sk : ∃ w, s.sock = some w ∧ w.isOpen = true ∧ w.dead = false ∧ w.connected = true
  pg : s.ping = none
  lp : s.lastPing = 0

theorem advance_none (c : Cfg) (n : Nat) (s : St) (t : Nat) (h : s.ping = none) :
    advance c n s t = { s with now := max s.now t } := by
  cases n <;> simp [advance, h]

theorem waitUntil_none (c : Cfg) (s : St) (t : Nat) (h : s.ping = none) (ht : t ≤ c.horizon) :
    waitUntil c s t = ({ s with now := max s.now t }, true) := by
  unfold waitUntil
  have : ¬ t > c.horizon := by omega
  simp [this, advance_none c _ s t h]

theorem checkFails_zero (c : Cfg) (s : St) (h : s.lastPing = 0) : checkFails c s = false := by
  unfold checkFails
  cases c.to <;> simp [h]

theorem writable_up {s : St} (h : Up s) : s.writable = true := by
  obtain ⟨w, hs, ho, hd, _⟩ := h.sk
  simp [St.writable, hs, ho, hd]

/-- readiness as the dispatchers see it = "the next event has arrived" (plain and TLS-style) -/
theorem ready_iff (c : Cfg) (s : St) (e : TEv) (rest : List TEv) (h : s.evs = e :: rest) :
    ((c.ssl && s.pendingTls c) || s.rawReadable c) = decide (s.arr + e.dt ≤ s.now) := by
  simp only [St.pendingTls, St.rawReadable, St.arrived, St.nextAt, h]
  cases c.ssl <;> cases e.burst <;> simp

def isLegal : SrvEv → Bool
  | .message _ _ _ | .ping _ | .pong _ => true
  | _ => false

def isTerm : SrvEv → Bool
  | .close _ | .eof | .reset | .protoError | .payloadError => true
  | _ => false

/-- state after the loop has processed the legal event `e` (at `max now (arr + dt)`) -/
def applyLegal (c : Cfg) (s : St) (e : TEv) : St :=
  let at_ := s.arr + e.dt
  let t := max s.now at_
  let s := { s with now := t, evs := s.evs.tail, arr := at_ }
  match e.ev with
  | .message op p _ =>
    let a1 := [dataArg op p, .int op, .bool true]
    let a2 := [dataArg op p]
    { s with calls := cbCalls c (cbCalls c s.calls .onData) .onMessage,
             trace := s.trace ++ cbTrace c s.calls t .onData a1 ++ cbTrace c (cbCalls c s.calls .onData) t .onMessage a2 }
  | .ping p =>
    { s with calls := cbCalls c s.calls .onPing,
             trace := s.trace ++ [(t, .wrote Gen.opcodePong p)] ++ cbTrace c s.calls t .onPing [.bytes p] }
  | .pong p =>
    -- (no ping is outstanding when keepalive is off: `last_ping_tm = 0`, the pong is not timed)
    { s with calls := cbCalls c s.calls .onPong,
             trace := s.trace ++ cbTrace c s.calls t .onPong [.bytes p] }
  | _ => s

theorem applyLegal_up (c : Cfg) (s : St) (e : TEv) (h : Up s) : Up (applyLegal c s e) := by
  obtain ⟨kr, sk, pg, lp⟩ := h
  unfold applyLegal
  cases e.ev <;> exact ⟨kr, sk, pg, lp⟩

/-- a later start inside the gap before the event does not change the state after it -/
theorem applyLegal_now (c : Cfg) (s : St) (e : TEv) (t : Nat) (h1 : s.now ≤ t) (h2 : t ≤ s.arr + e.dt) :
    applyLegal c { s with now := t } e = applyLegal c s e := by
  unfold applyLegal
  have m1 : max t (s.arr + e.dt) = s.arr + e.dt := by omega
  have m2 : max s.now (s.arr + e.dt) = s.arr + e.dt := by omega
  simp only [m1, m2]

/-- `select` when the next event has not arrived and will not within the timeout: an idle iteration -/
theorem select_idle (c : Cfg) (s : St) (e : TEv) (rest : List TEv) (hu : Up s) (h : s.evs = e :: rest)
    (hlate : s.now + selectTimeout c < s.arr + e.dt) (hz : s.now + selectTimeout c ≤ c.horizon) :
    select c s = ({ s with now := s.now + selectTimeout c }, some false) := by
  have hr := ready_iff c s e rest h
  have hna : ¬ (s.arr + e.dt ≤ s.now) := by omega
  unfold select
  have h1 : (c.ssl && s.pendingTls c) = false := by
    cases hh : (c.ssl && s.pendingTls c) with
    | false => rfl
    | true => rw [hh] at hr; simp [hna] at hr
  have h2 : s.rawReadable c = false := by
    cases hh : s.rawReadable c with
    | false => rfl
    | true => rw [hh] at hr; simp [hna] at hr
  simp only [h1, h2, Bool.false_eq_true, ↓reduceIte, St.nextAt, h]
  have h3 : ¬ (s.arr + e.dt ≤ s.now + selectTimeout c) := by omega
  simp only [h3, ↓reduceIte]
  rw [waitUntil_none c s _ hu.pg hz]
  have m : max s.now (s.now + selectTimeout c) = s.now + selectTimeout c := by omega
  simp only [m]
  -- after the wait: still not arrived
  have hr' := ready_iff c { s with now := s.now + selectTimeout c } e rest (by simpa using h)
  simp only [h3, decide_false] at hr'
  have h4 : ({ s with now := s.now + selectTimeout c } : St).rawReadable c = false := by
    cases hh : ({ s with now := s.now + selectTimeout c } : St).rawReadable c with
    | false => rfl
    | true => rw [hh] at hr'; simp at hr'
  have h5 : ({ s with now := s.now + selectTimeout c } : St).pendingTls c = false := by
    simp only [St.pendingTls, St.arrived, St.nextAt, h, h3, decide_false, Bool.false_and, Bool.and_false]
  simp [h4, h5]
  exact h

/-- `select` when the next event has arrived or arrives within the timeout -/
theorem select_ready (c : Cfg) (s : St) (e : TEv) (rest : List TEv) (hu : Up s) (h : s.evs = e :: rest)
    (hsoon : s.arr + e.dt ≤ s.now + selectTimeout c) (hz : s.arr + e.dt ≤ c.horizon) :
    select c s = ({ s with now := max s.now (s.arr + e.dt) }, some true) := by
  have hr := ready_iff c s e rest h
  unfold select
  by_cases hna : s.arr + e.dt ≤ s.now
  · have m : max s.now (s.arr + e.dt) = s.now := by omega
    simp only [hna, decide_true] at hr
    by_cases h1 : (c.ssl && s.pendingTls c) = true
    · simp [h1, m]
    · have h2 : s.rawReadable c = true := by
        cases hh : s.rawReadable c with
        | true => rfl
        | false => simp [hh] at hr; exact absurd hr (by simpa using h1)
      simp [h1, h2, m]
  · simp only [hna, decide_false] at hr
    have h1 : (c.ssl && s.pendingTls c) = false := by
      cases hh : (c.ssl && s.pendingTls c) with
      | false => rfl
      | true => rw [hh] at hr; simp at hr
    have h2 : s.rawReadable c = false := by
      cases hh : s.rawReadable c with
      | false => rfl
      | true => rw [hh] at hr; simp at hr
    simp only [h1, h2, Bool.false_eq_true, ↓reduceIte, St.nextAt, h, hsoon]
    have m : max (s.arr + e.dt) s.now = s.arr + e.dt := by omega
    rw [m, waitUntil_none c s _ hu.pg hz]
    have hr' := ready_iff c { s with now := max s.now (s.arr + e.dt) } e rest (by simpa using h)
    have h3 : s.arr + e.dt ≤ max s.now (s.arr + e.dt) := by omega
    simp only [h3, decide_true] at hr'
    simp only [↓reduceIte]
    congr 1
    cases hssl : c.ssl with
    | false =>
      simp only [hssl, Bool.false_and, Bool.false_or] at hr'
      simp [hr']
      exact h
    | true =>
      simp only [hssl, Bool.true_and] at hr'
      rw [Bool.or_comm]; simp [hr']
      exact h

end WS.Lemmas.App

namespace WS.Lemmas.App
open WS WS.Model.App

theorem up_sock_not_none {s : St} (h : Up s) : s.sock.isNone = false := by
  obtain ⟨w, hs, _⟩ := h.sk; simp [hs]

/-- an idle iteration of the loop: `select` times out, `check()` finds nothing -/
theorem dispLoop_idle (c : Cfg) (n : Nat) (s : St) (e : TEv) (rest : List TEv) (hu : Up s) (h : s.evs = e :: rest)
    (hlate : s.now + selectTimeout c < s.arr + e.dt) (hz : s.now + selectTimeout c ≤ c.horizon) :
    dispLoop c (n + 1) s = dispLoop c n { s with now := s.now + selectTimeout c } := by
  rw [dispLoop]
  have h1 : (!s.keepRunning) = false := by simp [hu.kr]
  have h2 : (c.ssl && s.sock.isNone) = false := by simp [up_sock_not_none hu]
  rw [h1, h2]
  simp only [Bool.false_eq_true, ↓reduceIte]
  rw [select_idle c s e rest hu h hlate hz]
  simp only [Bool.false_eq_true, ↓reduceIte, afterRead]
  rw [checkFails_zero c _ (by simpa using hu.lp)]
  simp

/-- `read()` on a legal event that has arrived -/
theorem read_legal (c : Cfg) (hq : Quiet c) (s : St) (e : TEv) (rest : List TEv) (hu : Up s)
    (h : s.evs = e :: rest) (hleg : isLegal e.ev = true) (hle : s.arr + e.dt ≤ s.now) :
    Model.App.read c s = (applyLegal c s e, .ok true) := by
  obtain ⟨w, hs, ho, hd, hc⟩ := hu.sk
  have h1 : (!s.keepRunning) = false := by simp [hu.kr]
  have m : max s.now (s.arr + e.dt) = s.now := by omega
  unfold Model.App.read
  rw [h1]
  simp only [Bool.false_eq_true, ↓reduceIte, hs, h]
  unfold readEvents applyLegal
  simp only [hle, ↓reduceIte, m, h, List.tail_cons, Bool.not_true, Bool.false_eq_true]
  cases hev : e.ev with
  | message op p frag =>
    simp only [handleEv, deliverMessage, gen_msgOpcode, gen_dataFirst, ↓reduceIte]
    rw [callback_quiet c hq]
    simp only []
    rw [callback_quiet c hq]
    simp [asRead, List.append_assoc]
  | ping p =>
    have hw : ({ s with evs := rest, arr := s.arr + e.dt } : St).writable = true := by
      simp [St.writable, hs, ho, hd]
    simp only [handleEv, hw, ↓reduceIte]
    rw [callback_quiet c hq]
    simp [asRead, St.emit, List.append_assoc]
  | pong p =>
    have hlp : s.lastPing = 0 := hu.lp
    have hg : Gen.appPongStampWhenOutstanding = true := by decide
    simp only [handleEv, pongStamp, hlp, Nat.not_lt_zero, decide_false, Bool.not_false, Bool.and_true, hg, ↓reduceIte]
    rw [callback_quiet c hq]
    simp [asRead]
  | close b => simp [hev, isLegal] at hleg
  | eof => simp [hev, isLegal] at hleg
  | reset => simp [hev, isLegal] at hleg
  | protoError => simp [hev, isLegal] at hleg
  | payloadError => simp [hev, isLegal] at hleg
  | part => simp [hev, isLegal] at hleg

theorem up_now {s : St} (h : Up s) (t : Nat) : Up { s with now := t } := ⟨h.kr, h.sk, h.pg, h.lp⟩

/-- the loop processes one legal event -/
theorem dispLoop_legal (c : Cfg) (hq : Quiet c) (n : Nat) (s : St) (e : TEv) (rest : List TEv) (hu : Up s)
    (h : s.evs = e :: rest) (hleg : isLegal e.ev = true) (hnow : s.arr ≤ s.now)
    (hsoon : s.arr + e.dt ≤ s.now + selectTimeout c) (hz : s.arr + e.dt ≤ c.horizon) :
    dispLoop c (n + 1) s = dispLoop c n (applyLegal c s e) := by
  rw [dispLoop]
  have h1 : (!s.keepRunning) = false := by simp [hu.kr]
  have h2 : (c.ssl && s.sock.isNone) = false := by simp [up_sock_not_none hu]
  rw [h1, h2]
  simp only [Bool.false_eq_true, ↓reduceIte]
  rw [select_ready c s e rest hu h hsoon hz]
  simp only [↓reduceIte]
  have hu1 := up_now hu (max s.now (s.arr + e.dt))
  rw [read_legal c hq _ e rest hu1 (by simpa using h) hleg (by simp; omega)]
  simp only [afterRead]
  rw [checkFails_zero c _ (applyLegal_up c _ e hu1).lp]
  simp only [Bool.false_eq_true, ↓reduceIte]
  congr 1
  unfold applyLegal
  have m1 : max (max s.now (s.arr + e.dt)) (s.arr + e.dt) = max s.now (s.arr + e.dt) := by omega
  simp only [m1]

end WS.Lemmas.App

namespace WS.Lemmas.App
open WS WS.Model.App

@[simp] theorem applyLegal_evs (c : Cfg) (s : St) (e : TEv) : (applyLegal c s e).evs = s.evs.tail := by
  unfold applyLegal; cases e.ev <;> rfl
@[simp] theorem applyLegal_arr (c : Cfg) (s : St) (e : TEv) : (applyLegal c s e).arr = s.arr + e.dt := by
  unfold applyLegal; cases e.ev <;> rfl
@[simp] theorem applyLegal_nowf (c : Cfg) (s : St) (e : TEv) : (applyLegal c s e).now = max s.now (s.arr + e.dt) := by
  unfold applyLegal; cases e.ev <;> rfl

/-- loop iterations needed for a list of events whose first gap starts at `arr` -/
def need0 (T : Nat) : List TEv → Nat
  | [] => 0
  | e :: r => e.dt / T + 1 + need0 T r

def need (T now arr : Nat) : List TEv → Nat
  | [] => 0
  | e :: r => (arr + e.dt - now) / T + 1 + need0 T r

def endTime : Nat → List TEv → Nat
  | arr, [] => arr
  | arr, e :: r => endTime (arr + e.dt) r

def runLegal (c : Cfg) (s : St) (l : List TEv) : St := l.foldl (applyLegal c) s

theorem endTime_ge (arr : Nat) (l : List TEv) : arr ≤ endTime arr l := by
  induction l generalizing arr with
  | nil => simp [endTime]
  | cons e r ih => simp only [endTime]; have := ih (arr + e.dt); omega

theorem need_le_need0 (T now arr : Nat) (l : List TEv) (h : arr ≤ now) : need T now arr l ≤ need0 T l := by
  cases l with
  | nil => simp [need, need0]
  | cons e r =>
    simp only [need, need0]
    have : (arr + e.dt - now) / T ≤ e.dt / T := Nat.div_le_div_right (by omega)
    omega

/-- the select loop works through a legal prefix of the traffic: every event is processed by
    `applyLegal` (at its arrival time); idle time-outs only use up fuel. -/
theorem dispLoop_prefix (c : Cfg) (hq : Quiet c) (hT : 0 < selectTimeout c) :
    ∀ (n : Nat) (s : St) (legal rest : List TEv) (k : Nat), Up s → s.evs = legal ++ rest →
      (∀ e ∈ legal, isLegal e.ev = true) → s.arr ≤ s.now → endTime s.arr legal ≤ c.horizon →
      need (selectTimeout c) s.now s.arr legal + k ≤ n →
      ∃ n', k ≤ n' ∧ dispLoop c n s = dispLoop c n' (runLegal c s legal) := by
  intro n
  induction n with
  | zero =>
    intro s legal rest k hu hev hleg hnow hend hneed
    cases legal with
    | nil => exact ⟨0, by simp [need] at hneed; omega, rfl⟩
    | cons e l => simp [need] at hneed
  | succ m ih =>
    intro s legal rest k hu hev hleg hnow hend hneed
    cases legal with
    | nil => exact ⟨m + 1, by simp [need] at hneed; omega, rfl⟩
    | cons e l =>
      have hevs : s.evs = e :: (l ++ rest) := by simpa using hev
      have hle : isLegal e.ev = true := hleg e (by simp)
      have hend' : s.arr + e.dt ≤ c.horizon := by
        have := endTime_ge (s.arr + e.dt) l; simp only [endTime] at hend; omega
      simp only [need] at hneed
      by_cases hlate : s.now + selectTimeout c < s.arr + e.dt
      · -- idle iteration
        rw [dispLoop_idle c m s e (l ++ rest) hu hevs hlate (by omega)]
        have hdiv : (s.arr + e.dt - s.now) / selectTimeout c =
            (s.arr + e.dt - (s.now + selectTimeout c)) / selectTimeout c + 1 := by
          rw [Nat.div_eq_sub_div hT (by omega)]
          congr 2; omega
        obtain ⟨n', hk, heq⟩ := ih { s with now := s.now + selectTimeout c } (e :: l) rest k
          (up_now hu _) hev hleg (by simp only []; omega) hend (by simp only [need]; omega)
        refine ⟨n', hk, ?_⟩
        rw [heq]
        simp only [runLegal, List.foldl_cons]
        rw [applyLegal_now c s e _ (by omega) (by omega)]
      · -- the event is processed
        rw [dispLoop_legal c hq m s e (l ++ rest) hu hevs hle hnow (by omega) hend']
        obtain ⟨n', hk, heq⟩ := ih (applyLegal c s e) l rest k (applyLegal_up c s e hu)
          (by simp [hevs]) (fun x hx => hleg x (by simp [hx]))
          (by simp only [applyLegal_arr, applyLegal_nowf]; omega)
          (by simpa [endTime] using hend)
          (by
            have := need_le_need0 (selectTimeout c) (applyLegal c s e).now (applyLegal c s e).arr l
              (by simp only [applyLegal_arr, applyLegal_nowf]; omega)
            generalize (s.arr + e.dt - s.now) / selectTimeout c = q at hneed
            omega)
        exact ⟨n', hk, by rw [heq]; simp [runLegal]⟩

end WS.Lemmas.App
