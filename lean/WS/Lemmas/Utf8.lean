/-
  WS.Lemmas.Utf8 — the generated DFA table simulates the automaton read off Table 3-7,
  and that automaton accepts exactly `Spec.wellFormed`.
-/
import WS.Spec.Unicode
import WS.Model.Utf8
namespace WS.Lemmas.Utf8
open WS WS.Spec WS.Model

/-- automaton state read off Table 3-7: `(n, lo, hi)` = `n` trailing bytes still owed,
    the next one in `[lo,hi]` (meaningless when `n = 0`). -/
abbrev St := Nat × Nat × Nat

def step (st : St) (b : UInt8) : Option St :=
  match st with
  | (0, _, _) => row b
  | (k + 1, lo, hi) => if inR b lo hi then some (k, 0x80, 0xBF) else none

def run : St → Bytes → Option St
  | st, [] => some st
  | st, b :: rest => match step st b with
    | none => none
    | some st' => run st' rest

/-- the numbering the code's table uses for these states. -/
def code (st : St) : Nat :=
  if st.1 = 0 then 0
  else if st = (1, 0x80, 0xBF) then 24
  else if st = (2, 0x80, 0xBF) then 36
  else if st = (3, 0x80, 0xBF) then 84
  else if st = (2, 0xA0, 0xBF) then 48
  else if st = (2, 0x80, 0x9F) then 60
  else if st = (3, 0x90, 0xBF) then 72
  else if st = (3, 0x80, 0x8F) then 96
  else 12

def codeO : Option St → Nat
  | none => 12
  | some st => code st

/-- the reachable states, with a canonical representative for "accepting". -/
def allStates : List St :=
  [(0, 0, 0), (0, 0x80, 0xBF), (1, 0x80, 0xBF), (2, 0x80, 0xBF), (3, 0x80, 0xBF),
   (2, 0xA0, 0xBF), (2, 0x80, 0x9F), (3, 0x90, 0xBF), (3, 0x80, 0x8F)]

/-- **table obligation** (re-checked against the generated table on every build):
    from every reachable state and for every byte, the code's two table look-ups give the
    code of the Table 3-7 automaton's next state (12 = reject). -/
theorem table_simulates :
    ∀ st ∈ allStates, ∀ n, n < 256 →
      utf8Decode (code st) (UInt8.ofNat n) = codeO (step st (UInt8.ofNat n)) := by
  decide +kernel

theorem table_closed :
    ∀ st ∈ allStates, ∀ n, n < 256 →
      ∀ st', step st (UInt8.ofNat n) = some st' → st' ∈ allStates := by
  decide +kernel

theorem table_consts : Gen.utf8Accept = 0 ∧ Gen.utf8Reject = 12 := by decide

theorem code_ne_reject : ∀ st ∈ allStates, code st ≠ 12 := by decide +kernel

theorem code_zero_iff : ∀ st ∈ allStates, (code st = 0 ↔ st.1 = 0) := by decide +kernel

theorem byte_ofNat (b : UInt8) : UInt8.ofNat b.toNat = b := by
  simp

theorem loop_eq_run (bs : Bytes) : ∀ st ∈ allStates,
    utf8Loop (code st) bs = (run st bs).map code := by
  induction bs with
  | nil => intro st _; simp [utf8Loop, run]
  | cons b rest ih =>
    intro st hst
    have hb : b.toNat < 256 := b.toNat_lt
    have h1 := table_simulates st hst b.toNat hb
    have h2 := table_closed st hst b.toNat hb
    rw [byte_ofNat] at h1 h2
    simp only [utf8Loop, run, table_consts.2]
    rw [h1]
    cases hs : step st b with
    | none => simp [codeO]
    | some st' =>
      have hst' := h2 st' hs
      simp only [codeO]
      have hne := code_ne_reject st' hst'
      simp [hne, ih st' hst']

/-- "well-formed from state `st`": what remains to be seen of the current sequence, then
    a well-formed string. -/
def wfFrom (st : St) (bs : Bytes) : Bool :=
  match st with
  | (0, _, _) => wellFormed bs
  | (k + 1, lo, hi) => tailOk (k + 1) lo hi (bs.take (k + 1)) && wellFormed (bs.drop (k + 1))

def accepting : Option St → Bool
  | some (0, _, _) => true
  | _ => false

theorem tailOk_cont (k : Nat) (t : Bytes) :
    tailOk (k + 1) 0x80 0xBF t = (t.length == k + 1 && t.all (fun b => inR b 0x80 0xBF)) := by
  cases t with
  | nil => simp [tailOk]
  | cons a m => simp [tailOk]

theorem run_accepts_iff (bs : Bytes) : ∀ st : St, accepting (run st bs) = wfFrom st bs := by
  induction bs with
  | nil =>
    intro st
    obtain ⟨n, lo, hi⟩ := st
    cases n with
    | zero => simp [run, accepting, wfFrom, wellFormed]
    | succ k => simp [run, accepting, wfFrom, tailOk]
  | cons b rest ih =>
    intro st
    obtain ⟨n, lo, hi⟩ := st
    cases n with
    | zero =>
      simp only [run, step, wfFrom]
      rw [wellFormed]
      cases hr : row b with
      | none => simp [accepting]
      | some r =>
        obtain ⟨n', lo', hi'⟩ := r
        simp only []
        rw [ih]
        cases n' with
        | zero => simp [wfFrom, tailOk]
        | succ k' => simp [wfFrom]
    | succ k =>
      simp only [run, step, wfFrom]
      by_cases hin : inR b lo hi = true
      · simp only [hin, if_true]
        rw [ih]
        cases k with
        | zero => simp [wfFrom, tailOk, hin]
        | succ k' =>
          simp only [wfFrom, tailOk_cont]
          simp [tailOk, hin, List.take_succ_cons, Bool.and_assoc]
      · simp only [hin]
        simp [accepting, tailOk, hin]

theorem run_mem (bs : Bytes) : ∀ st ∈ allStates, ∀ st', run st bs = some st' → st' ∈ allStates := by
  induction bs with
  | nil => intro st hst st' h; simp [run] at h; exact h ▸ hst
  | cons b rest ih =>
    intro st hst st' h
    simp only [run] at h
    cases hs : step st b with
    | none => simp [hs] at h
    | some s1 =>
      simp only [hs] at h
      have h2 := table_closed st hst b.toNat b.toNat_lt
      rw [byte_ofNat] at h2
      exact ih s1 (h2 s1 hs) st' h

end WS.Lemmas.Utf8
