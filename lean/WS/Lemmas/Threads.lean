/-
  WS.Lemmas.Threads — the interleaving invariant of concurrent senders: at every point of every
  schedule the wire is the concatenation of the completed frames (in completion order) followed by
  a prefix of the lock holder's frame; nobody but the holder is inside the write loop.
-/
import WS.Model.Threads
namespace WS.Lemmas.Threads
open WS WS.Model.Threads

structure TInv (n : Nat) (frames : Nat → Bytes) (s : St) : Prop where
  nodup : s.order.Nodup
  bound : ∀ i ∈ s.order, i < n
  doneIff : ∀ i, s.pc i = .done ↔ i ∈ s.order
  free : s.holder = none → s.wire = (s.order.map frames).flatten ∧ ∀ i r, s.pc i ≠ .writing r
  held : ∀ h, s.holder = some h → ∃ pre rest, s.pc h = .writing rest ∧ frames h = pre ++ rest ∧
            s.wire = (s.order.map frames).flatten ++ pre ∧ ∀ j, j ≠ h → ∀ r, s.pc j ≠ .writing r

theorem inv_init (n : Nat) (frames : Nat → Bytes) : TInv n frames (init frames) := by
  constructor <;> simp [init]

theorem inv_step (n : Nat) (frames : Nat → Bytes) (acc : Nat → Nat) (s : St) (i : Nat) (hi : i < n)
    (h : TInv n frames s) : TInv n frames (step true frames acc s i) := by
  unfold step
  cases hpc : s.pc i with
  | start =>
    simp only [if_true]
    cases hh : s.holder with
    | some o => simpa [hh] using h
    | none =>
      simp only []
      obtain ⟨hw, hnw⟩ := h.free hh
      have hnd : i ∉ s.order := by
        intro hm
        have := (h.doneIff i).mpr hm
        rw [hpc] at this
        cases this
      constructor
      · exact h.nodup
      · exact h.bound
      · intro j
        by_cases hj : j = i
        · subst hj
          simp [hnd]
        · simp [upd_other _ _ _ _ hj, h.doneIff j]
      · intro hc; simp at hc
      · intro h' hh'
        simp at hh'
        subst hh'
        refine ⟨[], frames i, by simp, by simp, by simpa using hw, ?_⟩
        intro j hj r
        simp only [upd_other _ _ _ _ hj]
        exact hnw j r
  | done => simpa using h
  | writing rest =>
    simp only []
    -- the writer must be the holder
    have hhold : s.holder = some i := by
      cases hh : s.holder with
      | none => exact absurd hpc ((h.free hh).2 i rest)
      | some o =>
        obtain ⟨pre, r', hpo, _, _, hoth⟩ := h.held o hh
        by_cases ho : i = o
        · subst ho; rfl
        · exact absurd hpc (hoth i ho rest)
    obtain ⟨pre, r', hpi, hfr, hw, hoth⟩ := h.held i hhold
    rw [hpc] at hpi
    injection hpi with hpi
    subst hpi
    have hnd : i ∉ s.order := by
      intro hm
      have := (h.doneIff i).mpr hm
      rw [hpc] at this
      cases this
    by_cases hemp : rest.isEmpty
    · simp only [hemp, if_true]
      have hre : rest = [] := by simpa using hemp
      subst hre
      constructor
      · simp only []
        rw [List.nodup_append]
        refine ⟨h.nodup, by simp, ?_⟩
        intro a ha b hb
        simp at hb
        subst hb
        intro hab
        subst hab
        exact hnd ha
      · intro j hj
        simp at hj
        rcases hj with hj | hj
        · exact h.bound j hj
        · subst hj; exact hi
      · intro j
        by_cases hj : j = i
        · subst hj; simp
        · simp [upd_other _ _ _ _ hj, h.doneIff j, hj]
      · intro _
        refine ⟨?_, ?_⟩
        · simp at hfr
          simp [hw, hfr]
        · intro j r
          by_cases hj : j = i
          · subst hj; simp
          · simp only [upd_other _ _ _ _ hj]; exact hoth j hj r
      · intro h' hh'; simp at hh'
    · simp only [hemp]
      simp only [Bool.false_eq_true, if_false]
      constructor
      · exact h.nodup
      · exact h.bound
      · intro j
        by_cases hj : j = i
        · subst hj; simp [hnd]
        · simp [upd_other _ _ _ _ hj, h.doneIff j]
      · intro hc; simp [hhold] at hc
      · intro h' hh'
        simp [hhold] at hh'
        subst hh'
        refine ⟨pre ++ rest.take (clip acc s.k rest.length), rest.drop (clip acc s.k rest.length), by simp, ?_, ?_, ?_⟩
        · rw [hfr, List.append_assoc, List.take_append_drop]
        · simp [hw, List.append_assoc]
        · intro j hj r
          simp only [upd_other _ _ _ _ hj]
          exact hoth j hj r

theorem inv_run (n : Nat) (frames : Nat → Bytes) (acc : Nat → Nat) (sched : List Nat) (hs : ∀ i ∈ sched, i < n) :
    ∀ s, TInv n frames s → TInv n frames (run true frames acc s sched) := by
  induction sched with
  | nil => intro s h; simpa [run] using h
  | cons i rest ih =>
    intro s h
    simp only [run, List.foldl]
    exact ih (fun j hj => hs j (List.mem_cons_of_mem _ hj)) _ (inv_step n frames acc s i (hs i (List.mem_cons_self)) h)

end WS.Lemmas.Threads
