/-
  WS.Lemmas.Scalars — Table 3-7 (`Spec.wellFormed`) accepts exactly the concatenations of UTF-8 encodings of
  Unicode scalar values (Table 3-6).
-/
import WS.Spec.Unicode
namespace WS.Lemmas.Scalars
open WS WS.Spec

theorem toNat_ofNat_lt' (n : Nat) (h : n < 256) : (UInt8.ofNat n).toNat = n := by
  simp [UInt8.toNat_ofNat']; omega

theorem wf1 (b0 : UInt8) (h : b0.toNat ≤ 0x7F) : wellFormed [b0] = true := by
  rw [wellFormed]
  have : row b0 = some (0, 0, 0) := by simp [row, inR, h]
  simp [this, tailOk, wellFormed]

theorem wf2 (b0 b1 : UInt8) (h0 : 0xC2 ≤ b0.toNat ∧ b0.toNat ≤ 0xDF) (h1 : 0x80 ≤ b1.toNat ∧ b1.toNat ≤ 0xBF) :
    wellFormed [b0, b1] = true := by
  rw [wellFormed]
  have n1 : ¬ b0.toNat ≤ 0x7F := by omega
  have : row b0 = some (1, 0x80, 0xBF) := by simp [row, inR, n1, h0.1, h0.2]
  simp [this, tailOk, inR, h1.1, h1.2, wellFormed]

theorem wf3 (b0 b1 b2 : UInt8) (lo hi : Nat) (hrow : row b0 = some (2, lo, hi))
    (h1 : lo ≤ b1.toNat ∧ b1.toNat ≤ hi) (h2 : 0x80 ≤ b2.toNat ∧ b2.toNat ≤ 0xBF) :
    wellFormed [b0, b1, b2] = true := by
  rw [wellFormed]
  simp [hrow, tailOk, inR, h1.1, h1.2, h2.1, h2.2, wellFormed]

theorem wf4 (b0 b1 b2 b3 : UInt8) (lo hi : Nat) (hrow : row b0 = some (3, lo, hi))
    (h1 : lo ≤ b1.toNat ∧ b1.toNat ≤ hi) (h2 : 0x80 ≤ b2.toNat ∧ b2.toNat ≤ 0xBF) (h3 : 0x80 ≤ b3.toNat ∧ b3.toNat ≤ 0xBF) :
    wellFormed [b0, b1, b2, b3] = true := by
  rw [wellFormed]
  simp [hrow, tailOk, inR, h1.1, h1.2, h2.1, h2.2, h3.1, h3.2, wellFormed]

theorem row_val (b0 : UInt8) (n : Nat) (h : b0.toNat = n) :
    row b0 =
      if n ≤ 0x7F then some (0, 0, 0)
      else if 0xC2 ≤ n ∧ n ≤ 0xDF then some (1, 0x80, 0xBF)
      else if n = 0xE0 then some (2, 0xA0, 0xBF)
      else if 0xE1 ≤ n ∧ n ≤ 0xEC then some (2, 0x80, 0xBF)
      else if n = 0xED then some (2, 0x80, 0x9F)
      else if 0xEE ≤ n ∧ n ≤ 0xEF then some (2, 0x80, 0xBF)
      else if n = 0xF0 then some (3, 0x90, 0xBF)
      else if 0xF1 ≤ n ∧ n ≤ 0xF3 then some (3, 0x80, 0xBF)
      else if n = 0xF4 then some (3, 0x80, 0x8F)
      else none := by
  subst h
  unfold row inR
  simp only [Nat.zero_le, decide_true, Bool.true_and, Bool.and_eq_true, decide_eq_true_eq]
  repeat' split
  all_goals first | rfl | omega

/-- every scalar value's UTF-8 encoding (Table 3-6) is one well-formed sequence of Table 3-7. -/
theorem wellFormed_encodeScalar (c : Nat) (hc : IsScalar c) : wellFormed (encodeScalar c) = true := by
  obtain ⟨hmax, hsur⟩ := hc
  unfold encodeScalar
  by_cases h1 : c < 0x80
  · simp only [h1, if_true]
    exact wf1 _ (by rw [toNat_ofNat_lt' c (by omega)]; omega)
  · simp only [h1, if_false]
    by_cases h2 : c < 0x800
    · simp only [h2, if_true]
      apply wf2
      · rw [toNat_ofNat_lt' _ (by omega)]; omega
      · rw [toNat_ofNat_lt' _ (by omega)]; omega
    · simp only [h2, if_false]
      by_cases h3 : c < 0x10000
      · simp only [h3, if_true]
        have e0 := toNat_ofNat_lt' (0xE0 + c / 4096) (by omega)
        have e1 := toNat_ofNat_lt' (0x80 + c / 64 % 64) (by omega)
        have e2 := toNat_ofNat_lt' (0x80 + c % 64) (by omega)
        have hr := row_val _ _ e0
        by_cases q0 : c / 4096 = 0
        · refine wf3 _ _ _ 0xA0 0xBF ?_ (by rw [e1]; omega) (by rw [e2]; omega)
          rw [hr, q0]; decide
        · by_cases q13 : c / 4096 = 13
          · refine wf3 _ _ _ 0x80 0x9F ?_ (by rw [e1]; omega) (by rw [e2]; omega)
            rw [hr, q13]; decide
          · refine wf3 _ _ _ 0x80 0xBF ?_ (by rw [e1]; omega) (by rw [e2]; omega)
            rw [hr]
            repeat' split
            all_goals first | rfl | omega
      · simp only [h3, if_false]
        have e0 := toNat_ofNat_lt' (0xF0 + c / 262144) (by omega)
        have e1 := toNat_ofNat_lt' (0x80 + c / 4096 % 64) (by omega)
        have e2 := toNat_ofNat_lt' (0x80 + c / 64 % 64) (by omega)
        have e3 := toNat_ofNat_lt' (0x80 + c % 64) (by omega)
        have hr := row_val _ _ e0
        by_cases q0 : c / 262144 = 0
        · refine wf4 _ _ _ _ 0x90 0xBF ?_ (by rw [e1]; omega) (by rw [e2]; omega) (by rw [e3]; omega)
          rw [hr, q0]; decide
        · by_cases q4 : c / 262144 = 4
          · refine wf4 _ _ _ _ 0x80 0x8F ?_ (by rw [e1]; omega) (by rw [e2]; omega) (by rw [e3]; omega)
            rw [hr, q4]; decide
          · refine wf4 _ _ _ _ 0x80 0xBF ?_ (by rw [e1]; omega) (by rw [e2]; omega) (by rw [e3]; omega)
            rw [hr]
            repeat' split
            all_goals first | rfl | omega

theorem wellFormed_append (a : Bytes) : ∀ b : Bytes, wellFormed a = true → wellFormed (a ++ b) = wellFormed b := by
  induction h : a.length using Nat.strongRecOn generalizing a with
  | _ n ih =>
    intro b hwf
    cases a with
    | nil => simp
    | cons b0 rest =>
      rw [wellFormed] at hwf
      simp only [List.cons_append]
      rw [wellFormed]
      cases hr : row b0 with
      | none => simp [hr] at hwf
      | some t =>
        obtain ⟨k, lo, hi⟩ := t
        simp only [hr, Bool.and_eq_true] at hwf
        obtain ⟨ht, hrest⟩ := hwf
        have hlen : k ≤ rest.length := by
          unfold tailOk at ht
          simp only [Bool.and_eq_true, beq_iff_eq] at ht
          have := ht.1
          simp at this
          omega
        simp only []
        rw [List.take_append_of_le_length hlen, List.drop_append_of_le_length hlen, ht, Bool.true_and]
        exact ih (rest.drop k).length (by subst h; simp; omega) (rest.drop k) rfl b hrest

/-- **encoded Unicode text is well-formed** — for every sequence of Unicode scalar values (anything but
    surrogates, up to U+10FFFF) the concatenation of their UTF-8 encodings is accepted by Table 3-7. -/
theorem wellFormed_flatMap_encode (cps : List Nat) (h : ∀ c ∈ cps, IsScalar c) :
    wellFormed (cps.flatMap encodeScalar) = true := by
  induction cps with
  | nil => simp [wellFormed]
  | cons c rest ih =>
    simp only [List.flatMap_cons]
    rw [wellFormed_append _ _ (wellFormed_encodeScalar c (h c List.mem_cons_self))]
    exact ih (fun x hx => h x (List.mem_cons_of_mem _ hx))

theorem ofNat_toNat' (b : UInt8) : UInt8.ofNat b.toNat = b := by simp

theorem row_cases (b0 : UInt8) (n lo hi : Nat) (h : row b0 = some (n, lo, hi)) :
    (b0.toNat ≤ 0x7F ∧ n = 0) ∨
    (0xC2 ≤ b0.toNat ∧ b0.toNat ≤ 0xDF ∧ n = 1 ∧ lo = 0x80 ∧ hi = 0xBF) ∨
    (0xE0 ≤ b0.toNat ∧ b0.toNat ≤ 0xEF ∧ n = 2 ∧ 0x80 ≤ lo ∧ hi ≤ 0xBF ∧ (b0.toNat = 0xE0 → lo = 0xA0) ∧ (b0.toNat = 0xED → hi = 0x9F)) ∨
    (0xF0 ≤ b0.toNat ∧ b0.toNat ≤ 0xF4 ∧ n = 3 ∧ 0x80 ≤ lo ∧ hi ≤ 0xBF ∧ (b0.toNat = 0xF0 → lo = 0x90) ∧ (b0.toNat = 0xF4 → hi = 0x8F)) := by
  have hrv := row_val b0 b0.toNat rfl
  rw [h] at hrv
  have hb0 := b0.toNat_lt
  by_cases a0 : b0.toNat ≤ 0x7F
  · simp only [a0, if_true] at hrv
    injection hrv with hrv; injection hrv with hn _
    exact Or.inl ⟨a0, hn⟩
  · simp only [a0, if_false] at hrv
    by_cases a1 : 0xC2 ≤ b0.toNat ∧ b0.toNat ≤ 0xDF
    · simp only [a1, and_self, if_true] at hrv
      injection hrv with hrv; injection hrv with hn hrv; injection hrv with hlo hhi
      exact Or.inr (Or.inl ⟨a1.1, a1.2, hn, hlo, hhi⟩)
    · simp only [a1, if_false] at hrv
      by_cases a2 : b0.toNat = 0xE0
      · simp only [a2, if_true] at hrv
        injection hrv with hrv; injection hrv with hn hrv; injection hrv with hlo hhi
        exact Or.inr (Or.inr (Or.inl ⟨by omega, by omega, hn, by omega, by omega, fun _ => hlo, fun hh => by omega⟩))
      · simp only [a2, if_false] at hrv
        by_cases a3 : 0xE1 ≤ b0.toNat ∧ b0.toNat ≤ 0xEC
        · simp only [a3, and_self, if_true] at hrv
          injection hrv with hrv; injection hrv with hn hrv; injection hrv with hlo hhi
          exact Or.inr (Or.inr (Or.inl ⟨by omega, by omega, hn, by omega, by omega, fun hh => by omega, fun hh => by omega⟩))
        · simp only [a3, if_false] at hrv
          by_cases a4 : b0.toNat = 0xED
          · simp only [a4, if_true] at hrv
            injection hrv with hrv; injection hrv with hn hrv; injection hrv with hlo hhi
            exact Or.inr (Or.inr (Or.inl ⟨by omega, by omega, hn, by omega, by omega, fun hh => by omega, fun _ => hhi⟩))
          · simp only [a4, if_false] at hrv
            by_cases a5 : 0xEE ≤ b0.toNat ∧ b0.toNat ≤ 0xEF
            · simp only [a5, and_self, if_true] at hrv
              injection hrv with hrv; injection hrv with hn hrv; injection hrv with hlo hhi
              exact Or.inr (Or.inr (Or.inl ⟨by omega, by omega, hn, by omega, by omega, fun hh => by omega, fun hh => by omega⟩))
            · simp only [a5, if_false] at hrv
              by_cases a6 : b0.toNat = 0xF0
              · simp only [a6, if_true] at hrv
                injection hrv with hrv; injection hrv with hn hrv; injection hrv with hlo hhi
                exact Or.inr (Or.inr (Or.inr ⟨by omega, by omega, hn, by omega, by omega, fun _ => hlo, fun hh => by omega⟩))
              · simp only [a6, if_false] at hrv
                by_cases a7 : 0xF1 ≤ b0.toNat ∧ b0.toNat ≤ 0xF3
                · simp only [a7, and_self, if_true] at hrv
                  injection hrv with hrv; injection hrv with hn hrv; injection hrv with hlo hhi
                  exact Or.inr (Or.inr (Or.inr ⟨by omega, by omega, hn, by omega, by omega, fun hh => by omega, fun hh => by omega⟩))
                · simp only [a7, if_false] at hrv
                  by_cases a8 : b0.toNat = 0xF4
                  · simp only [a8, if_true] at hrv
                    injection hrv with hrv; injection hrv with hn hrv; injection hrv with hlo hhi
                    exact Or.inr (Or.inr (Or.inr ⟨by omega, by omega, hn, by omega, by omega, fun hh => by omega, fun _ => hhi⟩))
                  · simp only [a8, if_false] at hrv
                    cases hrv

/-- one well-formed sequence (first byte + its `n` trailing bytes) is the encoding of a scalar value. -/
theorem seq_is_scalar (b0 : UInt8) (n lo hi : Nat) (t : Bytes) (hrow : row b0 = some (n, lo, hi))
    (ht : tailOk n lo hi t = true) : ∃ c, IsScalar c ∧ encodeScalar c = b0 :: t := by
  have hb0 := b0.toNat_lt
  unfold tailOk at ht
  simp only [Bool.and_eq_true, beq_iff_eq] at ht
  obtain ⟨hlen, hcont⟩ := ht
  rcases row_cases b0 n lo hi hrow with ⟨r0, hn⟩ | ⟨r1a, r1b, hn, hlo, hhi⟩ | ⟨r2a, r2b, hn, g1, g2, g3, g4⟩ | ⟨r3a, r3b, hn, g1, g2, g3, g4⟩
  · subst hn
    have : t = [] := by simpa using hlen
    subst this
    refine ⟨b0.toNat, ⟨by omega, by omega⟩, ?_⟩
    have : b0.toNat < 0x80 := by omega
    simp [encodeScalar, this]
  · subst hn; subst hlo; subst hhi
    match t, hlen with
    | [b1], _ =>
      simp only [inR, List.all_nil, Bool.and_true, Bool.and_eq_true, decide_eq_true_eq] at hcont
      have hb1 := b1.toNat_lt
      refine ⟨(b0.toNat - 0xC0) * 64 + (b1.toNat - 0x80), ⟨by omega, by omega⟩, ?_⟩
      have c1 : ¬ ((b0.toNat - 0xC0) * 64 + (b1.toNat - 0x80) < 0x80) := by omega
      have c2 : (b0.toNat - 0xC0) * 64 + (b1.toNat - 0x80) < 0x800 := by omega
      have d0 : 0xC0 + ((b0.toNat - 0xC0) * 64 + (b1.toNat - 0x80)) / 64 = b0.toNat := by omega
      have d1 : 0x80 + ((b0.toNat - 0xC0) * 64 + (b1.toNat - 0x80)) % 64 = b1.toNat := by omega
      simp only [encodeScalar, c1, c2, if_false, if_true, d0, d1, ofNat_toNat']
  · subst hn
    match t, hlen with
    | [b1, b2], _ =>
      simp only [inR, List.all_cons, List.all_nil, Bool.and_true, Bool.and_eq_true, decide_eq_true_eq] at hcont
      have hb1 := b1.toNat_lt
      have hb2 := b2.toNat_lt
      obtain ⟨⟨k1, k2⟩, k3, k4⟩ := hcont
      have q1 : b0.toNat = 0xE0 → 0xA0 ≤ b1.toNat := fun hh => by have := g3 hh; omega
      have q2 : b0.toNat = 0xED → b1.toNat ≤ 0x9F := fun hh => by have := g4 hh; omega
      have q3 : 0x80 ≤ b1.toNat ∧ b1.toNat ≤ 0xBF := by omega
      refine ⟨(b0.toNat - 0xE0) * 4096 + (b1.toNat - 0x80) * 64 + (b2.toNat - 0x80), ⟨by omega, by omega⟩, ?_⟩
      have c1 : ¬ ((b0.toNat - 0xE0) * 4096 + (b1.toNat - 0x80) * 64 + (b2.toNat - 0x80) < 0x80) := by omega
      have c2 : ¬ ((b0.toNat - 0xE0) * 4096 + (b1.toNat - 0x80) * 64 + (b2.toNat - 0x80) < 0x800) := by omega
      have c3 : (b0.toNat - 0xE0) * 4096 + (b1.toNat - 0x80) * 64 + (b2.toNat - 0x80) < 0x10000 := by omega
      have d0 : 0xE0 + ((b0.toNat - 0xE0) * 4096 + (b1.toNat - 0x80) * 64 + (b2.toNat - 0x80)) / 4096 = b0.toNat := by omega
      have d1 : 0x80 + ((b0.toNat - 0xE0) * 4096 + (b1.toNat - 0x80) * 64 + (b2.toNat - 0x80)) / 64 % 64 = b1.toNat := by omega
      have d2 : 0x80 + ((b0.toNat - 0xE0) * 4096 + (b1.toNat - 0x80) * 64 + (b2.toNat - 0x80)) % 64 = b2.toNat := by omega
      simp only [encodeScalar, c1, c2, c3, if_false, if_true, d0, d1, d2, ofNat_toNat']
  · subst hn
    match t, hlen with
    | [b1, b2, b3], _ =>
      simp only [inR, List.all_cons, List.all_nil, Bool.and_true, Bool.and_eq_true, decide_eq_true_eq] at hcont
      have hb1 := b1.toNat_lt
      have hb2 := b2.toNat_lt
      have hb3 := b3.toNat_lt
      obtain ⟨⟨k1, k2⟩, ⟨k3, k4⟩, k5, k6⟩ := hcont
      have q1 : b0.toNat = 0xF0 → 0x90 ≤ b1.toNat := fun hh => by have := g3 hh; omega
      have q2 : b0.toNat = 0xF4 → b1.toNat ≤ 0x8F := fun hh => by have := g4 hh; omega
      have q3 : 0x80 ≤ b1.toNat ∧ b1.toNat ≤ 0xBF := by omega
      refine ⟨(b0.toNat - 0xF0) * 262144 + (b1.toNat - 0x80) * 4096 + (b2.toNat - 0x80) * 64 + (b3.toNat - 0x80), ⟨by omega, by omega⟩, ?_⟩
      have c1 : ¬ ((b0.toNat - 0xF0) * 262144 + (b1.toNat - 0x80) * 4096 + (b2.toNat - 0x80) * 64 + (b3.toNat - 0x80) < 0x80) := by omega
      have c2 : ¬ ((b0.toNat - 0xF0) * 262144 + (b1.toNat - 0x80) * 4096 + (b2.toNat - 0x80) * 64 + (b3.toNat - 0x80) < 0x800) := by omega
      have c3 : ¬ ((b0.toNat - 0xF0) * 262144 + (b1.toNat - 0x80) * 4096 + (b2.toNat - 0x80) * 64 + (b3.toNat - 0x80) < 0x10000) := by omega
      have d0 : 0xF0 + ((b0.toNat - 0xF0) * 262144 + (b1.toNat - 0x80) * 4096 + (b2.toNat - 0x80) * 64 + (b3.toNat - 0x80)) / 262144 = b0.toNat := by omega
      have d1 : 0x80 + ((b0.toNat - 0xF0) * 262144 + (b1.toNat - 0x80) * 4096 + (b2.toNat - 0x80) * 64 + (b3.toNat - 0x80)) / 4096 % 64 = b1.toNat := by omega
      have d2 : 0x80 + ((b0.toNat - 0xF0) * 262144 + (b1.toNat - 0x80) * 4096 + (b2.toNat - 0x80) * 64 + (b3.toNat - 0x80)) / 64 % 64 = b2.toNat := by omega
      have d3 : 0x80 + ((b0.toNat - 0xF0) * 262144 + (b1.toNat - 0x80) * 4096 + (b2.toNat - 0x80) * 64 + (b3.toNat - 0x80)) % 64 = b3.toNat := by omega
      simp only [encodeScalar, c1, c2, c3, if_false, d0, d1, d2, d3, ofNat_toNat']

/-- every well-formed string is a concatenation of scalar encodings. -/
theorem wellFormed_is_scalars (bs : Bytes) : wellFormed bs = true →
    ∃ cps : List Nat, (∀ c ∈ cps, IsScalar c) ∧ bs = cps.flatMap encodeScalar := by
  induction h : bs.length using Nat.strongRecOn generalizing bs with
  | _ n ih =>
    intro hwf
    cases bs with
    | nil => exact ⟨[], by simp, by simp⟩
    | cons b0 rest =>
      rw [wellFormed] at hwf
      cases hr : row b0 with
      | none => simp [hr] at hwf
      | some t =>
        obtain ⟨k, lo, hi⟩ := t
        simp only [hr, Bool.and_eq_true] at hwf
        obtain ⟨ht, hrest⟩ := hwf
        obtain ⟨c, hc, henc⟩ := seq_is_scalar b0 k lo hi (rest.take k) hr ht
        obtain ⟨cps, hcps, hfl⟩ := ih (rest.drop k).length (by subst h; simp; omega) (rest.drop k) rfl hrest
        refine ⟨c :: cps, ?_, ?_⟩
        · intro x hx
          simp at hx
          rcases hx with hx | hx
          · subst hx; exact hc
          · exact hcps x hx
        · simp only [List.flatMap_cons, henc, ← hfl, List.cons_append, List.take_append_drop]

/-- **Table 3-7 = encodings of scalar values** — a byte string is well-formed UTF-8 exactly when it is the
    concatenation of the UTF-8 encodings of Unicode scalar values: code points up to U+10FFFF that are not
    surrogates, each in its shortest form (`encodeScalar` is the shortest form by construction) — i.e. no overlong
    forms, no surrogates, nothing above U+10FFFF, no sequence cut short. -/
theorem wellFormed_iff_scalars (bs : Bytes) :
    wellFormed bs = true ↔ ∃ cps : List Nat, (∀ c ∈ cps, IsScalar c) ∧ bs = cps.flatMap encodeScalar := by
  constructor
  · exact wellFormed_is_scalars bs
  · rintro ⟨cps, h, rfl⟩
    exact wellFormed_flatMap_encode cps h

end WS.Lemmas.Scalars
