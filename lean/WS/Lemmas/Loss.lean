/-
  WS.Lemmas.Loss — "once the connection has been lost, the transport is released":
  * `RelInv`: whenever `sock is None`, `connected` is False and the transport has been closed — kept by every
    operation of the object;
  * a call that raises the connection-closed exception leaves the object released.
-/
import WS.Lemmas.OwnClose
import WS.Lemmas.Total
namespace WS.Lemmas.Loss
open WS WS.Model WS.Lemmas.OwnClose

/-- the released state is consistent: no transport reference ⇒ not connected, transport closed. -/
def RelInv (c : Conn) : Prop := c.hasSock = false → c.connected = false ∧ c.sock.closed = true

/-- one operation: keeps `RelInv`; if it raised CLOSED the object is released afterwards. -/
def Loss (c : Conn) (e : Option Exn) (c' : Conn) : Prop :=
  (RelInv c → RelInv c') ∧ (e = some .closed → c'.hasSock = false)

def errE {α : Type} : Except Exn α → Option Exn
  | .error e => some e
  | .ok _ => none

theorem Loss.ok (c : Conn) : Loss c none c := ⟨id, fun h => by cases h⟩

theorem Loss.seq {a b c : Conn} {e : Option Exn} (h1 : Loss a none b) (h2 : Loss b e c) : Loss a e c :=
  ⟨fun h => h2.1 (h1.1 h), h2.2⟩

theorem Loss.weaken {a b : Conn} {e : Option Exn} (h : Loss a e b) : Loss a none b := ⟨h.1, fun h => by cases h⟩

/-- a field update that touches neither `hasSock`, `connected` nor `sock.closed`. -/
theorem Loss.of_same {a b : Conn} (h1 : b.hasSock = a.hasSock) (h2 : b.connected = a.connected)
    (h3 : b.sock.closed = a.sock.closed) : Loss a none b :=
  ⟨fun h hb => by rw [h2, h3]; exact h (by rw [← h1]; exact hb), fun h => by cases h⟩

theorem format_err_not_closed (f : Frame) (key : Bytes) (e : Exn) (h : format f key = .error e) : e ≠ .closed := by
  unfold format at h
  by_cases h1 : (!(bit01 f.fin && bit01 f.rsv1 && bit01 f.rsv2 && bit01 f.rsv3)) = true
  · simp only [h1, if_true] at h; injection h with h; subst h; simp
  · simp only [h1, if_false] at h
    by_cases h2 : (!(Gen.opcodes.contains f.opcode)) = true
    · simp only [h2, if_true] at h; injection h with h; subst h; simp
    · simp only [h2, if_false] at h
      by_cases h3 : f.data.length ≥ Gen.length63
      · simp only [h3, if_true] at h; injection h with h; subst h; simp
      · simp only [h3, if_false] at h
        by_cases h4 : (!(bit01 f.mask)) = true
        · simp only [h4, if_true] at h; injection h with h; subst h; simp
        · simp only [h4, if_false] at h
          by_cases h5 : (f.mask == 0) = true <;> simp [h5] at h

theorem contValidate_not_closed (c : Conn) (f : Frame) (e : Exn) (h : c.contValidate f = some e) : e = .proto := by
  unfold Conn.contValidate at h
  simp only [] at h
  repeat' split at h
  all_goals first
    | (injection h with h; exact h.symm)
    | cases h

theorem sockRecv_loss (c : Conn) (n : Nat) : Loss c (errE (c.sockRecv n).1) (c.sockRecv n).2 := by
  unfold Conn.sockRecv
  split
  · rename_i h
    exact ⟨id, fun _ => by simpa using h⟩
  · rename_i h
    have hs : c.hasSock = true := by simpa using h
    generalize c.sock.recv (c.sock.inp.length + 1) n = r
    obtain ⟨res, s'⟩ := r
    cases res <;> simp [Loss, errE, RelInv, hs, Sock.close]

theorem recvStrictLoop_loss (fuel : Nat) : ∀ (c : Conn) (n : Nat),
    Loss c (Conn.recvStrictLoop fuel c n).1 (Conn.recvStrictLoop fuel c n).2 := by
  induction fuel with
  | zero => intro c n; simp [Conn.recvStrictLoop, Loss]
  | succ f ih =>
    intro c n
    unfold Conn.recvStrictLoop
    split
    · exact Loss.ok c
    · simp only []
      have h1 := sockRecv_loss c (min Gen.recvCap (n - c.buf.length))
      generalize c.sockRecv (min Gen.recvCap (n - c.buf.length)) = r at h1 ⊢
      obtain ⟨res, c1⟩ := r
      cases res with
      | error e => simpa [errE] using h1
      | ok bs =>
        simp only []
        have h2 : Loss c1 none { c1 with buf := c1.buf ++ bs } := Loss.of_same rfl rfl rfl
        exact Loss.seq (Loss.seq (by simpa [errE] using h1) h2) (ih _ n)

theorem recvStrict_loss (c : Conn) (n : Nat) : Loss c (errE (c.recvStrict n).1) (c.recvStrict n).2 := by
  unfold Conn.recvStrict
  have := recvStrictLoop_loss (c.sock.size + 1) c n
  generalize Conn.recvStrictLoop (c.sock.size + 1) c n = r at this
  obtain ⟨e, c'⟩ := r
  cases e with
  | some e => simpa [errE] using this
  | none =>
    simp only [errE]
    have h1 : Loss c none c' := by simpa using this
    exact Loss.seq h1 (Loss.of_same rfl rfl rfl)

/-- a stage of `recv_frame` that is `recv_strict(k)` followed by a field update. -/
theorem stage_loss (c : Conn) (k : Nat) (upd : Bytes → Conn → Conn)
    (hu : ∀ v c', (upd v c').hasSock = c'.hasSock ∧ (upd v c').connected = c'.connected ∧ (upd v c').sock.closed = c'.sock.closed) :
    Loss c (match c.recvStrict k with | (.error e, _) => some e | (.ok _, _) => none)
      (match c.recvStrict k with | (.error _, c') => c' | (.ok v, c') => upd v c') := by
  have := recvStrict_loss c k
  generalize c.recvStrict k = r at this
  obtain ⟨e, c'⟩ := r
  cases e with
  | error e => simpa [errE] using this
  | ok v =>
    simp only []
    obtain ⟨a, b, d⟩ := hu v c'
    exact Loss.seq (by simpa [errE] using this) (Loss.of_same a b d)

theorem recvHeader_loss (c : Conn) : Loss c c.recvHeader.1 c.recvHeader.2 := by
  unfold Conn.recvHeader
  have := recvStrict_loss c 2
  generalize c.recvStrict 2 = r at this
  obtain ⟨e, c'⟩ := r
  cases e with
  | error e => simpa [errE] using this
  | ok v =>
    have h1 : Loss c none c' := by simpa [errE] using this
    exact Loss.seq h1 (Loss.of_same rfl rfl rfl)

theorem recvLength_loss (c : Conn) (h : Hdr) : Loss c (c.recvLength h).1 (c.recvLength h).2 := by
  unfold Conn.recvLength
  simp only []
  split
  · have := recvStrict_loss c 2
    generalize c.recvStrict 2 = r at this
    obtain ⟨e, c'⟩ := r
    cases e with
    | error e => simpa [errE] using this
    | ok v =>
      have h1 : Loss c none c' := by simpa [errE] using this
      exact Loss.seq h1 (Loss.of_same rfl rfl rfl)
  · split
    · have := recvStrict_loss c 8
      generalize c.recvStrict 8 = r at this
      obtain ⟨e, c'⟩ := r
      cases e with
      | error e => simpa [errE] using this
      | ok v =>
      have h1 : Loss c none c' := by simpa [errE] using this
      exact Loss.seq h1 (Loss.of_same rfl rfl rfl)
    · exact Loss.of_same rfl rfl rfl

theorem recvMask_loss (c : Conn) (h : Hdr) : Loss c (c.recvMask h).1 (c.recvMask h).2 := by
  unfold Conn.recvMask
  split
  · have := recvStrict_loss c 4
    generalize c.recvStrict 4 = r at this
    obtain ⟨e, c'⟩ := r
    cases e with
    | error e => simpa [errE] using this
    | ok v =>
      have h1 : Loss c none c' := by simpa [errE] using this
      exact Loss.seq h1 (Loss.of_same rfl rfl rfl)
  · exact Loss.of_same rfl rfl rfl

theorem recvFrame_loss (c : Conn) : Loss c (errE c.recvFrame.1) c.recvFrame.2 := by
  unfold Conn.recvFrame
  have s1 : Loss c (if c.hdr.isNone then c.recvHeader else (none, c)).1 (if c.hdr.isNone then c.recvHeader else (none, c)).2 := by
    split
    · exact recvHeader_loss c
    · exact Loss.ok c
  generalize (if c.hdr.isNone then c.recvHeader else (none, c)) = r1 at s1
  obtain ⟨e1, c1⟩ := r1
  simp only []
  cases e1 with
  | some e => simpa [errE] using s1
  | none =>
    simp only []
    cases hh : c1.hdr with
    | none => exact ⟨s1.1, fun h => by simp [errE] at h⟩
    | some hd =>
      simp only []
      have s2 : Loss c1 (if c1.len.isNone then c1.recvLength hd else (none, c1)).1 (if c1.len.isNone then c1.recvLength hd else (none, c1)).2 := by
        split
        · exact recvLength_loss c1 hd
        · exact Loss.ok c1
      generalize (if c1.len.isNone then c1.recvLength hd else (none, c1)) = r2 at s2
      obtain ⟨e2, c2⟩ := r2
      simp only []
      cases e2 with
      | some e => exact Loss.seq s1 (by simpa [errE] using s2)
      | none =>
        simp only []
        have s3 : Loss c2 (if c2.maskv.isNone then c2.recvMask hd else (none, c2)).1 (if c2.maskv.isNone then c2.recvMask hd else (none, c2)).2 := by
          split
          · exact recvMask_loss c2 hd
          · exact Loss.ok c2
        generalize (if c2.maskv.isNone then c2.recvMask hd else (none, c2)) = r3 at s3
        obtain ⟨e3, c3⟩ := r3
        simp only []
        have s12 : Loss c none c2 := Loss.seq s1 s2
        cases e3 with
        | some e => exact Loss.seq s12 (by simpa [errE] using s3)
        | none =>
          simp only []
          have s4 := recvStrict_loss c3 (c2.len.getD 0)
          generalize c3.recvStrict (c2.len.getD 0) = r4 at s4
          obtain ⟨e4, c4⟩ := r4
          have s123 : Loss c none c3 := Loss.seq s12 s3
          cases e4 with
          | error e => exact Loss.seq s123 (by simpa [errE] using s4)
          | ok payload =>
            simp only []
            have h4 : Loss c3 none c4 := by simpa [errE] using s4
            have h5 : Loss c none ({ c4 with hdr := none, len := none, maskv := none } : Conn) :=
              Loss.seq (Loss.seq s123 h4) (Loss.of_same rfl rfl rfl)
            split
            · rename_i e hv
              have : e = .proto := WS.Lemmas.Total.validate_benign _ _ e hv
              subst this
              exact ⟨h5.1, fun h => by simp [errE] at h⟩
            · exact ⟨h5.1, fun h => by simp [errE] at h⟩

theorem sockSend_loss (c : Conn) (d : Bytes) : Loss c (errE (c.sockSend d).1) (c.sockSend d).2 := by
  unfold Conn.sockSend
  split
  · rename_i h
    exact ⟨id, fun _ => by simpa using h⟩
  · rename_i h
    have hs : c.hasSock = true := by simpa using h
    generalize c.sock.send d = r
    obtain ⟨res, s'⟩ := r
    cases res <;> simp [Loss, errE, RelInv, hs]

theorem sendLoop_loss (fuel : Nat) : ∀ (c : Conn) (d : Bytes), Loss c (Conn.sendLoop fuel c d).1 (Conn.sendLoop fuel c d).2 := by
  induction fuel with
  | zero => intro c d; simp [Conn.sendLoop, Loss]
  | succ f ih =>
    intro c d
    unfold Conn.sendLoop
    split
    · exact Loss.ok c
    · have h1 := sockSend_loss c d
      generalize c.sockSend d = r at h1 ⊢
      obtain ⟨res, c1⟩ := r
      cases res with
      | error e => simpa [errE] using h1
      | ok l => exact Loss.seq (by simpa [errE] using h1) (ih c1 _)

theorem sendFrame_loss (c : Conn) (f : Frame) : Loss c (errE (c.sendFrame f).1) (c.sendFrame f).2 := by
  unfold Conn.sendFrame
  simp only []
  cases hf : format f (c.keys.headD [0, 0, 0, 0]) with
  | error e =>
    simp only []
    -- the three ValueErrors of format
    refine ⟨id, fun h => ?_⟩
    exfalso
    simp only [errE, Option.some.injEq] at h
    exact format_err_not_closed f _ e hf h
  | ok data =>
    simp only []
    have hb : Loss c none (if f.mask != 0 then { c with keys := c.keys.tail, keyDraws := c.keyDraws + 1 } else c) := by
      split
      · exact Loss.of_same rfl rfl rfl
      · exact Loss.ok c
    have := sendLoop_loss (data.length + 1) (if f.mask != 0 then { c with keys := c.keys.tail, keyDraws := c.keyDraws + 1 } else c) data
    generalize Conn.sendLoop (data.length + 1) _ data = r at this
    obtain ⟨e, c'⟩ := r
    cases e with
    | some e => exact Loss.seq hb (by simpa [errE] using this)
    | none => exact Loss.seq hb (by simpa [errE] using this)

theorem sendClose_loss (c : Conn) (s : Int) (r : Bytes) : Loss c (errE (c.sendClose s r).1) (c.sendClose s r).2 := by
  unfold Conn.sendClose
  split
  · exact ⟨id, fun h => by simp [errE] at h⟩
  · have h0 : Loss c none ({ c with connected := false } : Conn) :=
      ⟨fun h hb => ⟨rfl, (h hb).2⟩, fun h => by cases h⟩
    have := sendFrame_loss ({ c with connected := false } : Conn) (createFrame (beN 2 s.toNat ++ r) Gen.opcodeClose)
    unfold Conn.send
    exact Loss.seq h0 this

theorem contAdd_loss (c : Conn) (f : Frame) : Loss c none (c.contAdd f) := by
  apply Loss.of_same
  · unfold Conn.contAdd; simp only []; split <;> split <;> (try split) <;> rfl
  · unfold Conn.contAdd; simp only []; split <;> split <;> (try split) <;> rfl
  · unfold Conn.contAdd; simp only []; split <;> split <;> (try split) <;> rfl

theorem contExtract_loss (c : Conn) (f : Frame) : Loss c (errE (c.contExtract f).1) (c.contExtract f).2 := by
  unfold Conn.contExtract
  split
  · exact ⟨id, fun h => by simp [errE] at h⟩
  · simp only []
    split
    · exact ⟨(Loss.of_same (a := c) rfl rfl rfl).1, fun h => by simp [errE] at h⟩
    · exact ⟨(Loss.of_same (a := c) rfl rfl rfl).1, fun h => by simp [errE] at h⟩

theorem recvDataFrameLoop_loss (fuel : Nat) (cf : Bool) : ∀ c : Conn,
    Loss c (errE (Conn.recvDataFrameLoop fuel c cf).1) (Conn.recvDataFrameLoop fuel c cf).2 := by
  induction fuel with
  | zero => intro c; simp [Conn.recvDataFrameLoop, Loss, errE]
  | succ n ih =>
    intro c
    unfold Conn.recvDataFrameLoop
    have s1 := recvFrame_loss c
    generalize c.recvFrame = r1 at s1
    obtain ⟨e1, c1⟩ := r1
    cases e1 with
    | error e => simpa [errE] using s1
    | ok f =>
      have s1' : Loss c none c1 := by simpa [errE] using s1
      simp only []
      split
      · split
        · rename_i e hv
          refine ⟨s1'.1, fun h => ?_⟩
          exfalso
          simp only [errE, Option.some.injEq] at h
          have := contValidate_not_closed c1 f e hv
          rw [this] at h
          cases h
        · have hA : Loss c none (c1.contAdd f) := Loss.seq s1' (contAdd_loss c1 f)
          split
          · exact Loss.seq hA (contExtract_loss _ f)
          · exact Loss.seq hA (ih _)
      · split
        · -- close frame
          split
          · exact ⟨s1'.1, fun h => by simp [errE] at h⟩
          · have h0 : Loss c1 none ({ c1 with ownCloses := c1.ownCloses + 1 } : Conn) := Loss.of_same rfl rfl rfl
            have hq := sendClose_loss ({ c1 with ownCloses := c1.ownCloses + 1 } : Conn) ((Gen.statusNormal : Nat) : Int) []
            generalize ({ c1 with ownCloses := c1.ownCloses + 1 } : Conn).sendClose ((Gen.statusNormal : Nat) : Int) [] = r at hq
            obtain ⟨e, c2⟩ := r
            cases e with
            | error e => exact Loss.seq (Loss.seq s1' h0) (by simpa [errE] using hq)
            | ok v => exact ⟨(Loss.seq (Loss.seq s1' h0) (Loss.weaken hq)).1, fun h => by simp [errE] at h⟩
        · split
          · split
            · have hq := sendFrame_loss c1 (createFrame f.data Gen.opcodePong)
              unfold Conn.pong Conn.send
              generalize c1.sendFrame (createFrame f.data Gen.opcodePong) = r at hq
              obtain ⟨e, c2⟩ := r
              cases e with
              | error e => exact Loss.seq s1' (by simpa [errE] using hq)
              | ok v =>
                have h2 : Loss c none c2 := Loss.seq s1' (by simpa [errE] using hq)
                simp only []
                split
                · exact ⟨h2.1, fun h => by simp [errE] at h⟩
                · exact Loss.seq h2 (ih _)
            · exact ⟨s1'.1, fun h => by simp [errE] at h⟩
          · split
            · split
              · exact ⟨s1'.1, fun h => by simp [errE] at h⟩
              · exact Loss.seq s1' (ih _)
            · exact Loss.seq s1' (ih _)

theorem shutdown_rel (c : Conn) : RelInv c → RelInv c.shutdown := by
  unfold Conn.shutdown
  split
  · intro _ _; simp [Sock.close]
  · exact id

theorem closeWait_loss (fuel : Nat) : ∀ (c : Conn) (start : Nat) (t : Option Nat), Loss c none (Conn.closeWait fuel c start t) := by
  induction fuel with
  | zero => intro c s t; exact Loss.ok c
  | succ n ih =>
    intro c s t
    unfold Conn.closeWait
    have body : Loss c none (match c.recvFrame with
        | (.error _, c) => c
        | (.ok f, c) => if f.opcode != Gen.opcodeClose then Conn.closeWait n c s t else c) := by
      have s1 := recvFrame_loss c
      generalize c.recvFrame = r at s1
      obtain ⟨e, c1⟩ := r
      cases e with
      | error e => exact Loss.weaken s1
      | ok f =>
        simp only []
        split
        · exact Loss.seq (by simpa [errE] using s1) (ih c1 s t)
        · exact Loss.weaken s1
    cases t with
    | none =>
      simp only [Bool.not_true, Bool.false_eq_true, if_false]
      exact body
    | some tt =>
      simp only []
      by_cases hlt : c.sock.clock - s < tt
      · simp only [hlt, decide_true, Bool.not_true, Bool.false_eq_true, if_false]
        exact body
      · simp only [hlt, decide_false, Bool.not_false, if_true]
        exact Loss.ok c

theorem close_rel (c : Conn) (s : Int) (r : Bytes) (t : Option Nat) (hi : RelInv c) : RelInv (c.close s r t).2 := by
  unfold Conn.close
  split
  · exact hi
  · split
    · exact hi
    · simp only []
      apply shutdown_rel
      have hbase : RelInv ({ c with connected := false, ownCloses := c.ownCloses + 1 } : Conn) :=
        fun hb => ⟨rfl, (hi hb).2⟩
      have hq := sendFrame_loss ({ c with connected := false, ownCloses := c.ownCloses + 1 } : Conn)
        (createFrame (beN 2 s.toNat ++ r) Gen.opcodeClose)
      unfold Conn.send
      generalize ({ c with connected := false, ownCloses := c.ownCloses + 1 } : Conn).sendFrame
        (createFrame (beN 2 s.toNat ++ r) Gen.opcodeClose) = rr at hq
      obtain ⟨e, c1⟩ := rr
      have hi1 : RelInv c1 := hq.1 hbase
      cases e with
      | error e => simpa using hi1
      | ok v =>
        simp only []
        split
        · exact hi1
        · have hset : Loss c1 none ({ c1 with sock := { c1.sock with timeoutMs := t } } : Conn) := Loss.of_same rfl rfl rfl
          have hw := closeWait_loss (({ c1 with sock := { c1.sock with timeoutMs := t } } : Conn).sock.size +
              ({ c1 with sock := { c1.sock with timeoutMs := t } } : Conn).buf.length + 2)
            ({ c1 with sock := { c1.sock with timeoutMs := t } } : Conn)
            ({ c1 with sock := { c1.sock with timeoutMs := t } } : Conn).sock.clock t
          have hi2 := hw.1 (hset.1 hi1)
          split
          · exact hi2
          · intro hb
            have := hi2 hb
            simpa [Sock.shutdown] using this

theorem runOp_rel (c : Conn) (o : Op) (hi : RelInv c) : RelInv (runOp c o) := by
  cases o with
  | send p op => exact (sendFrame_loss c _).1 hi
  | ping p => exact (sendFrame_loss c _).1 hi
  | pong p => exact (sendFrame_loss c _).1 hi
  | recv => simp only [runOp]; rw [recv_state]; exact (recvDataFrameLoop_loss _ false c).1 hi
  | recvData cf => simp only [runOp]; rw [recvData_state]; exact (recvDataFrameLoop_loss _ cf c).1 hi
  | recvDataFrame cf => exact (recvDataFrameLoop_loss _ cf c).1 hi
  | recvFrame => exact (recvFrame_loss c).1 hi
  | sendClose s r => exact (sendClose_loss c s r).1 hi
  | close s r t => exact close_rel c s r t hi
  | shutdown => exact shutdown_rel c hi
  | abort =>
    simp only [runOp]
    unfold Conn.abort
    split
    · split
      · intro hb
        have := hi hb
        simpa [Sock.shutdown] using this
      · exact hi
    · exact hi

theorem runOps_rel (ops : List Op) : ∀ c : Conn, RelInv c → RelInv (runOps c ops) := by
  induction ops with
  | nil => intro c h; exact h
  | cons o rest ih => intro c h; exact ih _ (runOp_rel c o h)

end WS.Lemmas.Loss
