/-
  WS.Lemmas.LoopTotal — `recv_frame` and the `recv_data_frame` loop on arbitrary bytes: documented outcomes
  only, with progress (every turn consumes at least two bytes or ends the call).
-/
import WS.Lemmas.Total
import WS.Lemmas.Loop
namespace WS.Lemmas.LoopTotal
open WS WS.Model WS.Spec WS.Lemmas.RecvStrict WS.Lemmas.Frame WS.Lemmas.Parser WS.Lemmas.Total WS.Lemmas.Loop WS.Lemmas.ShortWrites

/-- the receive side is ready for the next frame. -/
structure RxReady (c : Conn) : Prop where
  live : Live c
  chunks : Chunks c.sock.inp
  cleared : Cleared c

/-- possible outcomes of one `recv_frame` on arbitrary bytes (any chunking) followed by eof or silence. -/
def FrameOut (c : Conn) (r : Except Exn Frame × Conn) : Prop :=
  (((∃ f, r.1 = .ok f) ∨ r.1 = .error .proto) ∧ RxReady r.2 ∧ (pending r.2).length + 2 ≤ (pending c).length ∧ SameLoop c r.2) ∨
  r.1 = .error .closed ∨ r.1 = .error .timeout

theorem closedOrTimeout {e : Exn} (h : e = .closed ∨ e = .timeout) (c c' : Conn) : FrameOut c (.error e, c') := by
  rcases h with h | h <;> subst h
  · exact Or.inr (Or.inl rfl)
  · exact Or.inr (Or.inr rfl)

theorem recvFrame_outcome (c : Conn) (hr : RxReady c) : FrameOut c c.recvFrame := by
  obtain ⟨hl, hch, ⟨hh, hln, hmk⟩⟩ := hr
  by_cases h2 : 2 ≤ (pending c).length
  · cases hp : pending c with
    | nil => rw [hp] at h2; simp at h2
    | cons b0 t =>
      cases t with
      | nil => rw [hp] at h2; simp at h2
      | cons b1 r2 =>
        obtain ⟨c1, e1, c1h, c1l, c1m, p1, g1⟩ := recvHeader_avail c b0 b1 r2 hl hch hp
        have hc1len : c1.len.isNone = true := by simp [c1l, hln]
        have stage2 : (∃ extN L c2, c1.recvLength (hdrOf b0 b1) = (none, c2) ∧ c2.len = some L ∧ c2.maskv = c1.maskv ∧
              pending c2 = (pending c1).drop extN ∧ Good c1 c2) ∨
            (∃ e2 c2, c1.recvLength (hdrOf b0 b1) = (some e2, c2) ∧ (e2 = .closed ∨ e2 = .timeout)) := by
          by_cases a126 : b1.toNat % 128 = 126
          · by_cases hav : 2 ≤ (pending c1).length
            · obtain ⟨c2, x1, x2, _, x4, x5, x6⟩ := recvLength_avail c1 b0 b1 g1.live g1.chunks 2 _ (Or.inl ⟨a126, rfl, hav, rfl⟩)
              exact Or.inl ⟨2, _, c2, x1, x2, x4, x5, x6⟩
            · obtain ⟨e2, c2, x, y⟩ := recvStrict_short c1 2 g1.live g1.chunks (by omega)
              right
              refine ⟨e2, c2, ?_, y⟩
              have hlb : (hdrOf b0 b1).lenBits &&& 0x7F = b1.toNat % 128 := by
                simp only [hdrOf]; exact and7f _ (by omega)
              unfold Conn.recvLength
              simp only [hlb, a126, show ((126 : Nat) == 0x7E) = true by decide, if_true, x]
          · by_cases a127 : b1.toNat % 128 = 127
            · by_cases hav : 8 ≤ (pending c1).length
              · obtain ⟨c2, x1, x2, _, x4, x5, x6⟩ := recvLength_avail c1 b0 b1 g1.live g1.chunks 8 _ (Or.inr (Or.inl ⟨a127, rfl, hav, rfl⟩))
                exact Or.inl ⟨8, _, c2, x1, x2, x4, x5, x6⟩
              · obtain ⟨e2, c2, x, y⟩ := recvStrict_short c1 8 g1.live g1.chunks (by omega)
                right
                refine ⟨e2, c2, ?_, y⟩
                have hlb : (hdrOf b0 b1).lenBits &&& 0x7F = b1.toNat % 128 := by
                  simp only [hdrOf]; exact and7f _ (by omega)
                unfold Conn.recvLength
                simp only [hlb, a127, show ((127 : Nat) == 0x7E) = false by decide, show ((127 : Nat) == 0x7F) = true by decide,
                  Bool.false_eq_true, if_false, if_true, x]
            · obtain ⟨c2, x1, x2, _, x4, x5, x6⟩ := recvLength_avail c1 b0 b1 g1.live g1.chunks 0 _ (Or.inr (Or.inr ⟨a126, a127, rfl, rfl⟩))
              exact Or.inl ⟨0, _, c2, x1, x2, x4, x5, x6⟩
        unfold Conn.recvFrame
        simp only [hh, Option.isNone_none, if_true, e1, c1h, hc1len]
        rcases stage2 with ⟨extN, L, c2, e2, c2l, c2m, p2, g2⟩ | ⟨e2, c2, e2eq, hb⟩
        · have hc2msk : c2.maskv.isNone = true := by simp [c2m, c1m, hmk]
          simp only [e2, hc2msk, if_true]
          have stage3 : (∃ c3 k, c2.recvMask (hdrOf b0 b1) = (none, c3) ∧ pending c3 = (pending c2).drop k ∧ Good c2 c3) ∨
              (∃ e3 c3, c2.recvMask (hdrOf b0 b1) = (some e3, c3) ∧ (e3 = .closed ∨ e3 = .timeout)) := by
            rcases b1_div b1 with h0 | h1
            · obtain ⟨c3, x1, _, _, _, x5, x6⟩ := recvMask_avail c2 b0 b1 g2.live g2.chunks (Or.inr h0)
              exact Or.inl ⟨c3, _, x1, x5, x6⟩
            · by_cases hav : 4 ≤ (pending c2).length
              · obtain ⟨c3, x1, _, _, _, x5, x6⟩ := recvMask_avail c2 b0 b1 g2.live g2.chunks (Or.inl ⟨h1, hav⟩)
                exact Or.inl ⟨c3, _, x1, x5, x6⟩
              · obtain ⟨e3, c3, x, y⟩ := recvStrict_short c2 4 g2.live g2.chunks (by omega)
                right
                refine ⟨e3, c3, ?_, y⟩
                unfold Conn.recvMask
                simp only [hdrOf, h1, show ((1 : Nat) != 0) = true by decide, if_true, x]
          rcases stage3 with ⟨c3, k, e3, p3, g3⟩ | ⟨e3, c3, e3eq, hb⟩
          · simp only [e3, c2l, Option.getD_some]
            by_cases hav : L ≤ (pending c3).length
            · obtain ⟨c4, e4, p4, l4, ch4, sr4, sz4⟩ := recvStrict_avail c3 L g3.live g3.chunks hav
              simp only [e4]
              have g4 : Good c3 c4 := ⟨l4, ch4, SameLoop.of_rest sr4, sz4⟩
              have g := Good.trans g1 (Good.trans g2 (Good.trans g3 g4))
              have hlen : (pending c4).length + 2 ≤ (pending c).length := by
                rw [p4, p3, p2, p1, hp]
                simp only [List.length_drop, List.length_cons]
                omega
              have hfin : ∀ cc : Conn, cc = { c4 with hdr := none, len := none, maskv := none } →
                  RxReady cc ∧ (pending cc).length + 2 ≤ (pending c).length ∧ SameLoop c cc := by
                intro cc hcc
                subst hcc
                exact ⟨⟨by simpa [Live] using g.live, by simpa using g.chunks, ⟨rfl, rfl, rfl⟩⟩,
                  by simpa [pending] using hlen, by simpa [SameLoop] using g.same⟩
              split
              · rename_i ev hv
                have := validate_benign _ _ _ hv
                subst this
                exact Or.inl ⟨Or.inr rfl, hfin _ rfl⟩
              · exact Or.inl ⟨Or.inl ⟨_, rfl⟩, hfin _ rfl⟩
            · obtain ⟨e4, c4, x, y⟩ := recvStrict_short c3 L g3.live g3.chunks (by omega)
              simp only [x]
              exact closedOrTimeout y _ _
          · simp only [e3eq]
            exact closedOrTimeout hb _ _
        · simp only [e2eq]
          exact closedOrTimeout hb _ _
  · obtain ⟨e1, c1, x, y⟩ := recvStrict_short c 2 hl hch (by omega)
    unfold Conn.recvFrame
    simp only [hh, Option.isNone_none, if_true, Conn.recvHeader, x]
    exact closedOrTimeout y _ _

def LoopBenign (e : Exn) : Prop := e = .proto ∨ e = .payload ∨ e = .closed ∨ e = .timeout ∨ e = .transport

theorem sock_send_accepted_pos (s : Sock) (d : Bytes) (n : Nat) (s' : Sock) (hne : d ≠ [])
    (h : s.send d = (.accepted n, s')) : 1 ≤ n ∧ n ≤ d.length := by
  have hl : 0 < d.length := by
    cases d with
    | nil => exact absurd rfl hne
    | cons a b => simp
  have hemp : d.isEmpty = false := by
    cases d with
    | nil => exact absurd rfl hne
    | cons a b => rfl
  unfold Sock.send at h
  simp only [hemp] at h
  by_cases hc : s.closed = true
  · simp [hc] at h
  · simp only [hc] at h
    have key : ∀ (b : Bool) (x y : SendRes × Sock), (if b = true then x else y) = (SendRes.accepted n, s') →
        x.1 = SendRes.epipe → y = (SendRes.accepted n, s') := by
      intro b x y hxy hx
      cases b with
      | true => simp only [if_true] at hxy; rw [hxy] at hx; cases hx
      | false => simpa using hxy
    by_cases ha : s.accepts.isEmpty = true
    · simp only [ha, if_true, Bool.false_eq_true, if_false] at h
      have := key _ _ _ h rfl
      injection this with h1 _
      injection h1 with h1
      omega
    · simp only [ha, Bool.false_eq_true, if_false] at h
      have := key _ _ _ h rfl
      injection this with h1 _
      injection h1 with h1
      omega

theorem sendLoop_benign (fuel : Nat) : ∀ (c : Conn) (d : Bytes), d.length < fuel →
    (Conn.sendLoop fuel c d).1 = none ∨ (Conn.sendLoop fuel c d).1 = some .closed ∨ (Conn.sendLoop fuel c d).1 = some .transport := by
  induction fuel with
  | zero => intro c d h; omega
  | succ f ih =>
    intro c d hlen
    unfold Conn.sendLoop
    by_cases he : d.isEmpty
    · simp [he]
    · have hne : d ≠ [] := by intro h; subst h; simp at he
      simp only [he]
      unfold Conn.sockSend
      by_cases hs : c.hasSock
      · simp only [hs, Bool.not_true, Bool.false_eq_true, if_false]
        cases hr : c.sock.send d with
        | mk res s' =>
          cases res with
          | accepted n =>
            obtain ⟨h1, h2⟩ := sock_send_accepted_pos c.sock d n s' hne hr
            simp only []
            exact ih _ _ (by simp; omega)
          | epipe => simp
          | badFd => simp
      · simp [hs]

theorem format_pong_ok (p key : Bytes) (hp : p.length < 126) : ∃ w, format (createFrame p Gen.opcodePong) key = .ok w := by
  have c63 : Gen.length63 = 2 ^ 63 := by decide
  have hn : ¬ (2 ^ 63 ≤ p.length) := by omega
  have hcont : Gen.opcodes.contains Gen.opcodePong = true := by decide
  simp only [format, createFrame, hcont, bit01, c63]
  simp [hn]

theorem format_close_ok (key : Bytes) : ∃ w, format (createFrame (beN 2 ((Gen.statusNormal : Nat) : Int).toNat ++ []) Gen.opcodeClose) key = .ok w := by
  have c63 : Gen.length63 = 2 ^ 63 := by decide
  have hcont : Gen.opcodes.contains Gen.opcodeClose = true := by decide
  simp only [format, createFrame, hcont, bit01, c63]
  simp [beN_length]

theorem sendFrame_benign (c : Conn) (f : Frame) (hf : ∀ key, ∃ w, format f key = .ok w) :
    ∀ e, (c.sendFrame f).1 = .error e → e = .closed ∨ e = .transport := by
  intro e he
  unfold Conn.sendFrame at he
  obtain ⟨w, hw⟩ := hf (c.keys.headD [0, 0, 0, 0])
  simp only [hw] at he
  have := sendLoop_benign (w.length + 1) (if f.mask != 0 then { c with keys := c.keys.tail, keyDraws := c.keyDraws + 1 } else c) w (by omega)
  generalize Conn.sendLoop (w.length + 1) _ w = r at this he
  obtain ⟨eo, c'⟩ := r
  cases eo with
  | none => simp at he
  | some e' =>
    simp only [] at he this
    injection he with he
    subst he
    rcases this with h | h | h
    · cases h
    · injection h with h; exact Or.inl h
    · injection h with h; exact Or.inr h

theorem rxReady_sameRecv {c c' : Conn} (h : SameRecv c c') (hr : RxReady c) : RxReady c' :=
  ⟨live_sameRecv h hr.live, chunks_sameRecv h hr.chunks, cleared_sameRecv h hr.cleared⟩

theorem rxReady_sameButCont {c c' : Conn} (h : SameButCont c c') (hr : RxReady c) : RxReady c' := by
  obtain ⟨a1, a2, a3, a4, a5, a6, _⟩ := h
  obtain ⟨⟨l1, l2⟩, hch, ⟨c1, c2, c3⟩⟩ := hr
  exact ⟨⟨by rw [a2]; exact l1, by rw [a1]; exact l2⟩, by rw [a1]; exact hch,
    ⟨by rw [a4]; exact c1, by rw [a5]; exact c2, by rw [a6]; exact c3⟩⟩

theorem contAdd_some (c : Conn) (f : Frame) : ∃ p, (c.contAdd f).contData = some p := by
  unfold Conn.contAdd
  simp only []
  cases hcd : c.contData with
  | some p => obtain ⟨op, d⟩ := p; simp only []; split <;> exact ⟨_, rfl⟩
  | none => simp only []; split <;> split <;> exact ⟨_, rfl⟩

/-- **message-level receive on arbitrary bytes** — whatever bytes the server sends (any chunking), followed by
    end of stream or silence, and whatever the transport does with our replies (accept, short-write, fail),
    `recv_data_frame` returns a value or raises PROTO, PAYLOAD, CLOSED, TIMEOUT or the transport's own error —
    never a Python-level failure, and never "out of fuel": each turn of the loop consumes at least two bytes of
    input or ends the call. -/
theorem recvDataFrameLoop_benign (fuel : Nat) (cf : Bool) : ∀ c : Conn, RxReady c → (pending c).length < 2 * fuel →
    ∀ e, (Conn.recvDataFrameLoop fuel c cf).1 = .error e → LoopBenign e := by
  induction fuel with
  | zero => intro c _ h; omega
  | succ n ih =>
    intro c hr hfu e he
    unfold Conn.recvDataFrameLoop at he
    have ho := recvFrame_outcome c hr
    generalize c.recvFrame = r1 at ho he
    obtain ⟨r, c1⟩ := r1
    rcases ho with ⟨hres, hr1, hlen, _⟩ | hcl | hto
    · simp only [] at hres hr1 hlen
      rcases hres with ⟨f, hf⟩ | hp
      · subst hf
        simp only [] at he
        have hfu1 : (pending c1).length < 2 * n := by omega
        split at he
        · -- data frame
          split at he
          · rename_i ev hv
            simp only [] at he
            injection he with he
            subst he
            have : c1.contValidate f = none ∨ c1.contValidate f = some .proto := by
              unfold Conn.contValidate
              simp only []
              repeat' split
              all_goals first | exact Or.inl rfl | exact Or.inr rfl
            rcases this with h | h
            · rw [h] at hv; cases hv
            · rw [h] at hv; injection hv with hv; rw [← hv]; exact Or.inl rfl
          · have hsb := contAdd_same c1 f
            split at he
            · -- extract
              obtain ⟨p, hp⟩ := contAdd_some c1 f
              unfold Conn.contExtract at he
              simp only [hp] at he
              split at he
              · injection he with he; rw [← he]; exact Or.inr (Or.inl rfl)
              · cases he
            · exact ih _ (rxReady_sameButCont hsb hr1) (by rw [pending_sameButCont hsb]; exact hfu1) e he
        · split at he
          · -- close frame
            split at he
            · cases he
            · have hsf := sendFrame_benign ({ c1 with ownCloses := c1.ownCloses + 1, connected := false } : Conn)
                (createFrame (beN 2 ((Gen.statusNormal : Nat) : Int).toNat ++ []) Gen.opcodeClose) format_close_ok
              unfold Conn.sendClose at he
              have hst : (decide ((((Gen.statusNormal : Nat) : Int)) < 0) || decide ((((Gen.statusNormal : Nat) : Int)) ≥ (Gen.length16 : Int))) = false := by decide
              simp only [hst, Bool.false_eq_true, if_false, Conn.send] at he
              generalize ({ c1 with ownCloses := c1.ownCloses + 1, connected := false } : Conn).sendFrame
                (createFrame (beN 2 ((Gen.statusNormal : Nat) : Int).toNat ++ []) Gen.opcodeClose) = rr at hsf he
              obtain ⟨er, c2⟩ := rr
              cases er with
              | error e2 =>
                simp only [] at he
                injection he with he
                subst he
                rcases hsf _ rfl with h | h
                · rw [h]; exact Or.inr (Or.inr (Or.inl rfl))
                · rw [h]; exact Or.inr (Or.inr (Or.inr (Or.inr rfl)))
              | ok v => simp at he
          · split at he
            · -- ping
              split at he
              · rename_i hlenp
                have hsf := sendFrame_benign c1 (createFrame f.data Gen.opcodePong)
                  (fun key => format_pong_ok f.data key (by
                    have : Gen.pingMaxExcl = 126 := by decide
                    rw [this] at hlenp; exact hlenp))
                have hsr := sendFrame_sameRecv c1 (createFrame f.data Gen.opcodePong)
                unfold Conn.pong Conn.send at he
                generalize c1.sendFrame (createFrame f.data Gen.opcodePong) = rr at hsf hsr he
                obtain ⟨er, c2⟩ := rr
                cases er with
                | error e2 =>
                  simp only [] at he
                  injection he with he
                  subst he
                  rcases hsf _ rfl with h | h
                  · rw [h]; exact Or.inr (Or.inr (Or.inl rfl))
                  · rw [h]; exact Or.inr (Or.inr (Or.inr (Or.inr rfl)))
                | ok v =>
                  simp only [] at he
                  split at he
                  · cases he
                  · exact ih _ (rxReady_sameRecv hsr hr1) (by rw [pending_sameRecv hsr]; exact hfu1) e he
              · injection he with he; rw [← he]; exact Or.inl rfl
            · split at he
              · split at he
                · cases he
                · exact ih _ hr1 hfu1 e he
              · exact ih _ hr1 hfu1 e he
      · subst hp
        simp only [] at he
        injection he with he
        rw [← he]; exact Or.inl rfl
    · subst hcl
      simp only [] at he
      injection he with he
      rw [← he]; exact Or.inr (Or.inr (Or.inl rfl))
    · subst hto
      simp only [] at he
      injection he with he
      rw [← he]; exact Or.inr (Or.inr (Or.inr (Or.inl rfl)))

end WS.Lemmas.LoopTotal
