/-
  WS.Lemmas.Handshake — helper lemmas for C09: what a successful `_validate` / `handshake` of the
  model implies in terms of the Spec's clauses.  Core Lean only.
-/
import WS.Spec.Handshake
import WS.Model.Handshake
namespace WS.Lemmas.Handshake
open WS WS.PyH2 WS.H2 WS.Model.Http WS.Model.Handshake WS.Spec.Handshake

/-- generated tables and shape facts C09 rests on (T): the accept comparison is exact (F7 repaired),
    the headers checked, the status tuples. -/
theorem tables :
    Gen.h2AcceptCaseFold = false ∧
    Gen.headersToCheck = [["upgrade", "websocket"], ["connection", "upgrade"]] ∧
    Gen.redirectStatuses = [301, 302, 303, 307, 308] ∧
    Gen.successStatuses = [301, 302, 303, 307, 308, 101] := by decide

theorem dictGet_mem {d : Dict} {k v : Str} (h : dictGet d k = some v) : (k, v) ∈ d := by
  unfold dictGet at h
  cases hf : d.find? (fun kv => kv.1 = k) with
  | none => simp [hf] at h
  | some kv =>
    simp [hf] at h
    have hm := List.mem_of_find?_eq_some hf
    have hp := List.find?_some hf
    simp at hp
    obtain ⟨a, b⟩ := kv
    simp at hp h
    subst hp; subst h
    exact hm

theorem dictGetTruthy_mem {d : Dict} {k v : Str} (h : dictGetTruthy d k = some v) : (k, v) ∈ d := by
  unfold dictGetTruthy at h
  cases hg : dictGet d k with
  | none => simp [hg] at h
  | some w =>
    simp [hg] at h
    by_cases he : w = []
    · simp [he] at h
    · simp [he] at h
      subst h
      exact dictGet_mem hg

theorem carries_of_mem {st : Option Int} {d : Dict} {name : String} {v : Str} {p : Str → Bool}
    (hm : (name.toList, v) ∈ d) (hp : p v = true) : carries ⟨st, d⟩ name p = true := by
  simp only [carries, List.any_eq_true, Bool.and_eq_true, decide_eq_true_eq]
  exact ⟨(name.toList, v), hm, rfl, hp⟩

theorem carries_of_mem' {st : Option Int} {d : Dict} {name : String} {nm v : Str} {p : Str → Bool}
    (hn : nm = name.toList) (hm : (nm, v) ∈ d) (hp : p v = true) : carries ⟨st, d⟩ name p = true := by
  subst hn; exact carries_of_mem hm hp

/-- the loop over a two-row `_HEADERS_TO_CHECK`, names and tokens abstract. -/
theorem checkHeaders_two (k1 v1 k2 v2 : String) (d : Dict)
    (h : checkHeaders [[k1, v1], [k2, v2]] d = true) :
    (∃ r, dictGetTruthy d k1.toList = some r ∧ (tokens r).contains v1.toList = true) ∧
    (∃ r, dictGetTruthy d k2.toList = some r ∧ (tokens r).contains v2.toList = true) := by
  simp only [checkHeaders] at h
  cases h1 : dictGetTruthy d k1.toList with
  | none => rw [h1] at h; simp only at h; exact absurd h (by decide)
  | some r1 =>
    rw [h1] at h
    simp only at h
    split at h
    · rename_i ht1
      cases h2 : dictGetTruthy d k2.toList with
      | none => rw [h2] at h; simp only at h; exact absurd h (by decide)
      | some r2 =>
        rw [h2] at h
        simp only at h
        split at h
        · rename_i ht2
          exact ⟨⟨r1, rfl, ht1⟩, ⟨r2, rfl, ht2⟩⟩
        · exact absurd h (by decide)
    · exact absurd h (by decide)

/-- `_validate` with the header names abstract (no string literal is unfolded in the proof). -/
theorem validate_core (acceptOf : Str → Str) (d : Dict) (key : Str) (subs : List Str) (sp : Option Str)
    (h : validate acceptOf d key subs = (true, sp)) :
    checkHeaders Gen.headersToCheck d = true ∧
    (subs.isEmpty = true ∨ ∃ v, dictGetTruthy d "sec-websocket-protocol".toList = some v ∧
        (subs.map lower).contains (lower v) = true) ∧
    dictGetTruthy d "sec-websocket-accept".toList = some (acceptOf key) := by
  unfold validate at h
  rw [tables.1] at h
  generalize "sec-websocket-protocol".toList = np at h ⊢
  generalize "sec-websocket-accept".toList = na at h ⊢
  cases hc : checkHeaders Gen.headersToCheck d with
  | false => rw [hc] at h; simp only [Bool.not_false, if_true] at h; first | cases h | (simp only at h; cases h)
  | true =>
    rw [hc] at h
    simp only [Bool.not_true, Bool.false_eq_true, if_false] at h
    refine ⟨rfl, ?_⟩
    cases he : subs.isEmpty with
    | true =>
      rw [he] at h
      simp only [if_true] at h
      refine ⟨Or.inl rfl, ?_⟩
      cases h4 : dictGetTruthy d na with
      | none => rw [h4] at h; first | cases h | (simp only at h; cases h)
      | some result =>
        rw [h4] at h
        simp only at h
        by_cases hacc : acceptOf key = result
        · rw [hacc]
        · rw [if_neg hacc] at h; first | cases h | (simp only at h; cases h)
    | false =>
      rw [he] at h
      simp only [Bool.false_eq_true, if_false] at h
      cases h3 : dictGetTruthy d np with
      | none => rw [h3] at h; first | cases h | (simp only at h; cases h)
      | some spv =>
        rw [h3] at h
        simp only at h
        by_cases hcont : (subs.map lower).contains (lower spv) = true
        · rw [if_pos hcont] at h
          simp only at h
          refine ⟨Or.inr ⟨spv, rfl, hcont⟩, ?_⟩
          cases h4 : dictGetTruthy d na with
          | none => rw [h4] at h; first | cases h | (simp only at h; cases h)
          | some result =>
            rw [h4] at h
            simp only at h
            by_cases hacc : acceptOf key = result
            · rw [hacc]
            · rw [if_neg hacc] at h; first | cases h | (simp only at h; cases h)
        · rw [if_neg hcont] at h; first | cases h | (simp only at h; cases h)

/-- a successful `_validate` establishes the four header clauses of the Spec. -/
theorem validate_sound (acceptOf : Str → Str) (st : Option Int) (d : Dict) (key : Str) (subs : List Str)
    (sp : Option Str) (h : validate acceptOf d key subs = (true, sp)) :
    clUpgrade ⟨st, d⟩ = true ∧ clConnection ⟨st, d⟩ = true ∧ clAccept acceptOf ⟨st, d⟩ key = true ∧
    clSubprotocol ⟨st, d⟩ subs = true := by
  obtain ⟨hc, hsub, hacc⟩ := validate_core acceptOf d key subs sp h
  rw [tables.2.1] at hc
  obtain ⟨⟨r1, h1, t1⟩, ⟨r2, h2, t2⟩⟩ := checkHeaders_two _ _ _ _ d hc
  refine ⟨?_, ?_, ?_, ?_⟩
  · exact carries_of_mem (dictGetTruthy_mem h1) t1
  · exact carries_of_mem (dictGetTruthy_mem h2) t2
  · exact carries_of_mem (dictGetTruthy_mem hacc) (by simp only [decide_eq_true_eq])
  · unfold clSubprotocol
    rcases hsub with he | ⟨v, hv, hcont⟩
    · rw [he]; rfl
    · have : carries ⟨st, d⟩ "sec-websocket-protocol" (fun v => subs.any (fun s => lower s = lower v)) = true := by
        apply carries_of_mem (dictGetTruthy_mem hv)
        simp only [List.contains_eq_mem, List.mem_map, decide_eq_true_eq] at hcont
        obtain ⟨s, hs1, hs2⟩ := hcont
        simp only [List.any_eq_true, decide_eq_true_eq]
        exact ⟨s, hs1, hs2⟩
      rw [this, Bool.or_true]

/-- key binding at the level of `_validate`: the accept header must hold `acceptOf key` itself. -/
theorem validate_accept (acceptOf : Str → Str) (d : Dict) (key : Str) (subs : List Str)
    (sp : Option Str) (h : validate acceptOf d key subs = (true, sp)) :
    dictGetTruthy d "sec-websocket-accept".toList = some (acceptOf key) :=
  (validate_core acceptOf d key subs sp h).2.2

theorem status_101 {st : Int} (h1 : statusIn (some st) Gen.successStatuses = true)
    (h2 : statusIn (some st) Gen.redirectStatuses = false) : st = 101 := by
  rw [tables.2.2.2] at h1
  rw [tables.2.2.1] at h2
  simp [statusIn] at h1 h2
  omega

theorem redirect_iff {st : Int} :
    statusIn (some st) Gen.redirectStatuses = Spec.Handshake.isRedirect (some st) := by
  rw [tables.2.2.1]
  simp only [statusIn, isRedirect, List.any_cons, List.any_nil, Bool.or_false]
  by_cases h1 : st = 301 <;> by_cases h2 : st = 302 <;> by_cases h3 : st = 303 <;>
    by_cases h4 : st = 307 <;> by_cases h5 : st = 308 <;> simp_all <;> omega

end WS.Lemmas.Handshake
