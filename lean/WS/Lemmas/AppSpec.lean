/-
  WS.Lemmas.AppSpec — the model's per-event trace entries, projected to callbacks, are the Spec's
  `reportTrace` of the Spec's `deliver` list.
-/
import WS.Lemmas.AppEnd
import WS.Spec.AppTrace
namespace WS.Lemmas.App
open WS WS.Model.App
open WS.Spec.AppTrace (reportTrace expectedDeliveries deliver cbOnly expectedConn)

/-- invocation counters after a list of due callbacks (Spec side) -/
def specCalls (has : Cb → Bool) (plan : Cb → List Act) : (Cb → Nat) → List (Nat × Cb × List Arg) → (Cb → Nat)
  | cnt, [] => cnt
  | cnt, (_, cb, _) :: rest =>
    let k := cnt cb
    let cnt1 : Cb → Nat := fun x => if x = cb then cnt x + 1 else cnt x
    if Spec.AppTrace.actOf plan cb k = .raise && has .onError then
      specCalls has plan (fun x => if x = .onError then cnt1 x + 1 else cnt1 x) rest
    else specCalls has plan cnt1 rest

theorem reportTrace_append (has : Cb → Bool) (plan : Cb → List Act) (l1 l2 : List (Nat × Cb × List Arg)) :
    ∀ cnt, reportTrace has plan cnt (l1 ++ l2) =
      reportTrace has plan cnt l1 ++ reportTrace has plan (specCalls has plan cnt l1) l2 := by
  induction l1 with
  | nil => intro cnt; simp [reportTrace, specCalls]
  | cons x r ih =>
    intro cnt
    obtain ⟨t, cb, args⟩ := x
    simp only [List.cons_append, reportTrace, specCalls]
    split <;> simp [ih]

theorem specCalls_append (has : Cb → Bool) (plan : Cb → List Act) (l1 l2 : List (Nat × Cb × List Arg)) :
    ∀ cnt, specCalls has plan cnt (l1 ++ l2) = specCalls has plan (specCalls has plan cnt l1) l2 := by
  induction l1 with
  | nil => intro cnt; simp [specCalls]
  | cons x r ih =>
    intro cnt
    obtain ⟨t, cb, args⟩ := x
    simp only [List.cons_append, specCalls]
    split <;> simp [ih]

theorem actOf_eq (c : Cfg) (cb : Cb) (k : Nat) : Spec.AppTrace.actOf c.plan cb k = c.act cb k := rfl

theorem cbOnly_append (a b : Trace) : cbOnly (a ++ b) = cbOnly a ++ cbOnly b := by simp [cbOnly]

theorem cbOnly_cbTrace (c : Cfg) (calls : Cb → Nat) (t : Nat) (cb : Cb) (args : List Arg) :
    cbOnly (cbTrace c calls t cb args) = cbTrace c calls t cb args := by
  unfold cbTrace cbOnly
  split
  · rfl
  · split <;> simp

/-- one due callback: the model's `_callback` entries are the Spec's -/
theorem cbTrace_eq_report (c : Cfg) (calls : Cb → Nat) (t : Nat) (cb : Cb) (args : List Arg) :
    cbTrace c calls t cb args = reportTrace c.has c.plan calls (if c.has cb then [(t, cb, args)] else []) := by
  unfold cbTrace
  by_cases h : c.has cb = true
  · simp only [h, Bool.not_true, Bool.false_eq_true, ↓reduceIte, reportTrace, actOf_eq]
    by_cases hA : c.act cb (calls cb) = Act.raise <;> by_cases hB : c.has Cb.onError = true <;>
      simp [hA, hB]
  · simp [h, reportTrace]

theorem cbCalls_eq_spec (c : Cfg) (calls : Cb → Nat) (t : Nat) (cb : Cb) (args : List Arg) :
    cbCalls c calls cb = specCalls c.has c.plan calls (if c.has cb then [(t, cb, args)] else []) := by
  unfold cbCalls
  by_cases h : c.has cb = true
  · simp only [h, Bool.not_true, Bool.false_eq_true, ↓reduceIte, specCalls, actOf_eq]
    by_cases hA : c.act cb (calls cb) = Act.raise <;> by_cases hB : c.has Cb.onError = true <;>
      simp [hA, hB] <;> rfl
  · simp [h, specCalls]

theorem gen_text : Gen.opcodeText = 1 := by decide

theorem dataArg_eq (op : Nat) (p : Bytes) : Model.App.dataArg op p = Spec.AppTrace.dataArg op p := by
  simp [Model.App.dataArg, Spec.AppTrace.dataArg, gen_text]

/-- a legal event: the callback entries the model adds are the Spec's report of the Spec's `deliver` -/
theorem applyLegal_spec (c : Cfg) (s : St) (e : TEv) (hleg : isLegal e.ev = true) (hnow : s.now = s.arr) :
    cbOnly (applyLegal c s e).trace =
      cbOnly s.trace ++ reportTrace c.has c.plan s.calls (deliver c.has (s.arr + e.dt) e.ev) ∧
    (applyLegal c s e).calls = specCalls c.has c.plan s.calls (deliver c.has (s.arr + e.dt) e.ev) := by
  have m : max s.now (s.arr + e.dt) = s.arr + e.dt := by omega
  unfold applyLegal
  cases hev : e.ev with
  | message op p frag =>
    simp only [m, deliver, cbOnly_append, cbOnly_cbTrace, reportTrace_append, specCalls_append, List.append_assoc]
    rw [cbTrace_eq_report, cbTrace_eq_report, cbCalls_eq_spec c _ (s.arr + e.dt) .onData [Model.App.dataArg op p, .int op, .bool true],
      cbCalls_eq_spec c _ (s.arr + e.dt) .onMessage [Model.App.dataArg op p]]
    simp only [dataArg_eq]
    simp
  | ping p =>
    simp only [m, deliver, cbOnly_append, cbOnly_cbTrace]
    rw [cbTrace_eq_report, cbCalls_eq_spec c _ (s.arr + e.dt) .onPing [.bytes p]]
    simp [cbOnly]
  | pong p =>
    simp only [m, deliver, cbOnly_append, cbOnly_cbTrace]
    rw [cbTrace_eq_report, cbCalls_eq_spec c _ (s.arr + e.dt) .onPong [.bytes p]]
    exact ⟨rfl, rfl⟩
  | close b => simp [hev, isLegal] at hleg
  | eof => simp [hev, isLegal] at hleg
  | reset => simp [hev, isLegal] at hleg
  | protoError => simp [hev, isLegal] at hleg
  | payloadError => simp [hev, isLegal] at hleg
  | part => simp [hev, isLegal] at hleg

theorem legal_not_term {ev : SrvEv} (h : isLegal ev = true) : Spec.AppTrace.isTerminator ev = false := by
  cases ev <;> simp_all [isLegal, Spec.AppTrace.isTerminator]

/-- a legal prefix: callbacks = the Spec's report of the expected deliveries, at the arrival times -/
theorem runLegal_spec (c : Cfg) : ∀ (legal : List TEv) (s : St), (∀ e ∈ legal, isLegal e.ev = true) → s.now = s.arr →
    cbOnly (runLegal c s legal).trace =
      cbOnly s.trace ++ reportTrace c.has c.plan s.calls (expectedDeliveries c.has s.arr legal) ∧
    (runLegal c s legal).calls = specCalls c.has c.plan s.calls (expectedDeliveries c.has s.arr legal) ∧
    (runLegal c s legal).now = endTime s.arr legal ∧ (runLegal c s legal).arr = endTime s.arr legal := by
  intro legal
  induction legal with
  | nil => intro s _ hnow; simp [runLegal, expectedDeliveries, reportTrace, specCalls, endTime, hnow]
  | cons e l ih =>
    intro s hleg hnow
    have hl := hleg e (by simp)
    obtain ⟨h1, h2⟩ := applyLegal_spec c s e hl hnow
    have hnow' : (applyLegal c s e).now = (applyLegal c s e).arr := by
      simp only [applyLegal_nowf, applyLegal_arr]; omega
    obtain ⟨i1, i2, i3, i4⟩ := ih (applyLegal c s e) (fun x hx => hleg x (by simp [hx])) hnow'
    simp only [runLegal, List.foldl_cons] at i1 i2 i3 i4 ⊢
    simp only [expectedDeliveries, legal_not_term hl, Bool.false_eq_true, ↓reduceIte, reportTrace_append,
      specCalls_append, endTime]
    rw [i1, i2, i3, i4, h1, h2]
    simp [List.append_assoc]

theorem cbTrace_mem (c : Cfg) (calls : Cb → Nat) (t : Nat) (cb : Cb) (args : List Arg) (x : Nat × Ev)
    (h : x ∈ cbTrace c calls t cb args) : (∃ a, x.2 = .cb cb a) ∨ (∃ a, x.2 = .cb .onError a) := by
  unfold cbTrace at h
  split at h
  · simp at h
  · split at h
    · simp only [List.mem_cons, List.not_mem_nil, or_false] at h
      rcases h with rfl | rfl
      · exact Or.inl ⟨_, rfl⟩
      · exact Or.inr ⟨_, rfl⟩
    · simp only [List.mem_cons, List.not_mem_nil, or_false] at h
      subst h; exact Or.inl ⟨_, rfl⟩

theorem expectedDeliveries_term (has : Cb → Bool) (t0 : Nat) (legal : List TEv) (te : TEv)
    (hleg : ∀ e ∈ legal, isLegal e.ev = true) (hterm : isTerm te.ev = true) :
    Spec.AppTrace.expectedDeliveries has t0 (legal ++ [te]) = Spec.AppTrace.expectedDeliveries has t0 legal := by
  induction legal generalizing t0 with
  | nil =>
    have : Spec.AppTrace.isTerminator te.ev = true := by
      cases h : te.ev <;> simp_all [isTerm, Spec.AppTrace.isTerminator]
    simp [expectedDeliveries, this]
  | cons e l ih =>
    have hl := hleg e (by simp)
    simp only [List.cons_append, expectedDeliveries, legal_not_term hl, Bool.false_eq_true, ↓reduceIte]
    rw [ih _ (fun x hx => hleg x (by simp [hx]))]

/-- callbacks of the state in which the loop is entered = callbacks so far ++ the opening callback -/
theorem enterLoop_cb (c : Cfg) (s0 : St) (evs : List TEv) (ds : List Dial) :
    cbOnly (enterLoop c s0 evs ds).trace = cbOnly s0.trace ++ cbTrace c s0.calls s0.now .onOpen [] := by
  simp only [enterLoop, cbOnly_append, cbOnly_cbTrace]
  simp [cbOnly]


/-- the Spec trace of a connection starts with the opening callback (when it is set) at the tick of the dial -/
theorem expectedConn_head (has : Cb → Bool) (plan : Cb → List Act) (cnt : Cb → Nat) (t0 : Nat) (first : Cb)
    (evs : List TEv) (h : has first = true) :
    ∃ rest, Spec.AppTrace.expectedConn has plan cnt t0 first evs = (t0, .cb first []) :: rest := by
  simp only [Spec.AppTrace.expectedConn, h, ↓reduceIte, List.singleton_append, Spec.AppTrace.reportTrace]
  split <;> exact ⟨_, rfl⟩


end WS.Lemmas.App
