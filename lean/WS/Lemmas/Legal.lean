/-
  WS.Lemmas.Legal — `ABNF.validate` and `continuous_frame.validate` are exactly the RFC's legality rules.
-/
import WS.Props.C05
import WS.Props.C06
import WS.Model.Conn
namespace WS.Lemmas.Legal
open WS WS.Spec WS.Model

/-- the frame-level part of `Spec.frameLegal` (everything but message sequencing). -/
def frameLevelLegal (f : Frame) : Bool :=
  f.rsv1 == 0 && f.rsv2 == 0 && f.rsv3 == 0 && isKnownOpcode f.opcode &&
  (!isControl f.opcode || (f.fin == 1 && f.data.length ≤ 125)) &&
  (f.opcode != 8 || closeBodyLegal f.data)

theorem frameLegal_split (inMsg : Bool) (f : Frame) :
    frameLegal inMsg f.fin f.rsv1 f.rsv2 f.rsv3 f.opcode f.data =
      (frameLevelLegal f && (f.opcode != 0 || inMsg) && (!(f.opcode == 1 || f.opcode == 2) || !inMsg)) := by
  unfold frameLegal frameLevelLegal
  rfl

theorem consts5 : Gen.opcodes = [0, 1, 2, 8, 9, 10] ∧ Gen.opcodeClose = 8 ∧ Gen.opcodePing = 9 ∧ Gen.opcodePong = 10 ∧
    Gen.length7 = 126 ∧ Gen.closeBodyBadEq = 1 ∧ Gen.closeBodyBadGe = 126 ∧ Gen.opcodeCont = 0 ∧ Gen.opcodeText = 1 ∧
    Gen.opcodeBinary = 2 := by decide

theorem code_of_body (d : Bytes) (h : 2 ≤ d.length) :
    256 * (d.getD 0 0).toNat + (d.getD 1 0).toNat = unbe (d.take 2) := by
  match d, h with
  | a :: b :: r, _ => simp [unbe]; omega

/-- the close-body test of `validate`, as a function. -/
def closeBodyModel (d : Bytes) : Bool :=
  if d.length == 0 then true
  else if d.length == 1 || d.length ≥ 126 then false
  else if d.length > 2 && !validateUtf8 (d.drop 2) then false
  else isValidCloseStatus (256 * (d.getD 0 0).toNat + (d.getD 1 0).toNat)

theorem closeBodyModel_eq (d : Bytes) (hl : d.length ≤ 125) : closeBodyModel d = closeBodyLegal d := by
  unfold closeBodyModel closeBodyLegal
  by_cases h0 : d.length = 0
  · have : d = [] := by simpa using h0
    subst this; rfl
  · by_cases h1 : d.length = 1
    · have hne : d.isEmpty = false := by
        cases d with
        | nil => simp at h1
        | cons a b => rfl
      simp [h1, hne]
    · have h2 : 2 ≤ d.length := by omega
      have hne : d.isEmpty = false := by
        cases d with
        | nil => simp at h0
        | cons a b => rfl
      have hbig : ¬ d.length ≥ 126 := by omega
      rw [code_of_body _ h2, WS.Props.C05.C05_close_codes, WS.Props.C06.C06_validate]
      simp only [h0, h1, hbig, hne, h2, beq_iff_eq, decide_false, decide_true, Bool.or_false, Bool.false_eq_true,
        if_false, Bool.false_or, Bool.true_and]
      by_cases hgt : d.length > 2
      · simp only [hgt, decide_true, Bool.true_and]
        cases hw : wellFormed (d.drop 2) <;> cases hc2 : wireCode (unbe (d.take 2)) <;> simp
      · have : d.drop 2 = [] := by
          apply List.eq_nil_of_length_eq_zero; simp; omega
        simp only [hgt, decide_false, Bool.false_and, Bool.false_eq_true, if_false, this, wellFormed, Bool.and_true]

theorem validate_close (f : Frame) (h8 : f.opcode = 8) (hr : f.rsv1 = 0 ∧ f.rsv2 = 0 ∧ f.rsv3 = 0) (hf : f.fin = 1)
    (hl : f.data.length ≤ 125) : (validate f false).isNone = closeBodyModel f.data := by
  obtain ⟨kops, k8, k9, k10, k7, kb1, kb126, _, _, _⟩ := consts5
  obtain ⟨r1, r2, r3⟩ := hr
  have hn : ¬ f.data.length ≥ 126 := by omega
  unfold validate closeBodyModel
  rw [kops, k8, k9, k10, k7, kb1, kb126]
  simp only [r1, r2, r3, h8, hf]
  simp only [show ((0 : Nat) != 0) = false by decide, Bool.or_false, Bool.false_eq_true, if_false,
    show ([0, 1, 2, 8, 9, 10].contains 8) = true by decide, Bool.not_true,
    show ((8 : Nat) == 8) = true by decide, Bool.true_or, Bool.true_and, show ((1 : Nat) == 0) = false by decide,
    hn, decide_false, if_true, Bool.not_false, Bool.and_true]
  split
  · rfl
  · split
    · rfl
    · split
      · rfl
      · split <;> simp_all

theorem known_cases (op : Nat) (h : isKnownOpcode op = true) : op = 0 ∨ op = 1 ∨ op = 2 ∨ op = 8 ∨ op = 9 ∨ op = 10 := by
  simpa [isKnownOpcode, or_assoc] using h

theorem unknown_contains (op : Nat) (h : isKnownOpcode op = false) :
    ¬ op = 0 ∧ ¬ op = 1 ∧ ¬ op = 2 ∧ ¬ op = 8 ∧ ¬ op = 9 ∧ ¬ op = 10 := by
  simp [isKnownOpcode] at h
  omega

/-- **frame-level legality** — `ABNF.validate` (UTF-8 validation on) accepts a frame exactly when the RFC's
    frame-level rules hold: reserved bits clear, assigned opcode, control frames unfragmented and ≤ 125 bytes,
    close body empty or ≥ 2 bytes with a wire-legal status code and a well-formed UTF-8 reason. -/
theorem validate_iff_legal (f : Frame) (hfin : f.fin < 2) :
    (validate f false).isNone = frameLevelLegal f := by
  obtain ⟨kops, k8, k9, k10, k7, kb1, kb126, _, _, _⟩ := consts5
  by_cases hr : f.rsv1 = 0 ∧ f.rsv2 = 0 ∧ f.rsv3 = 0
  · obtain ⟨r1, r2, r3⟩ := hr
    cases hk : isKnownOpcode f.opcode with
    | false =>
      have := unknown_contains _ hk
      unfold validate frameLevelLegal
      rw [kops]
      simp [r1, r2, r3, hk]
      rw [if_pos this]; rfl
    | true =>
      have hfc : f.fin = 0 ∨ f.fin = 1 := by omega
      rcases known_cases _ hk with h | h | h | h | h | h
      · unfold validate frameLevelLegal
        rw [kops, k8, k9, k10]
        simp [r1, r2, r3, h, isKnownOpcode, isControl]
      · unfold validate frameLevelLegal
        rw [kops, k8, k9, k10]
        simp [r1, r2, r3, h, isKnownOpcode, isControl]
      · unfold validate frameLevelLegal
        rw [kops, k8, k9, k10]
        simp [r1, r2, r3, h, isKnownOpcode, isControl]
      · -- close
        by_cases hok : f.fin = 1 ∧ f.data.length ≤ 125
        · rw [validate_close f h ⟨r1, r2, r3⟩ hok.1 hok.2, closeBodyModel_eq _ hok.2]
          unfold frameLevelLegal
          simp [r1, r2, r3, h, isKnownOpcode, isControl, hok.1, hok.2]
        · unfold validate frameLevelLegal
          rw [kops, k8, k9, k10, k7]
          rcases hfc with h0 | h1
          · simp [r1, r2, r3, h, isKnownOpcode, isControl, h0]
          · have hl : ¬ f.data.length ≤ 125 := fun hh => hok ⟨h1, hh⟩
            have hl2 : f.data.length ≥ 126 := by omega
            simp [r1, r2, r3, h, isKnownOpcode, isControl, h1, hl, hl2]
      · unfold validate frameLevelLegal
        rw [kops, k8, k9, k10, k7]
        rcases hfc with h0 | h1
        · simp [r1, r2, r3, h, isKnownOpcode, isControl, h0]
        · by_cases hl : f.data.length ≤ 125
          · have : ¬ f.data.length ≥ 126 := by omega
            simp [r1, r2, r3, h, isKnownOpcode, isControl, h1, hl, this]
          · have : f.data.length ≥ 126 := by omega
            simp [r1, r2, r3, h, isKnownOpcode, isControl, h1, hl, this]
      · unfold validate frameLevelLegal
        rw [kops, k8, k9, k10, k7]
        rcases hfc with h0 | h1
        · simp [r1, r2, r3, h, isKnownOpcode, isControl, h0]
        · by_cases hl : f.data.length ≤ 125
          · have : ¬ f.data.length ≥ 126 := by omega
            simp [r1, r2, r3, h, isKnownOpcode, isControl, h1, hl, this]
          · have : f.data.length ≥ 126 := by omega
            simp [r1, r2, r3, h, isKnownOpcode, isControl, h1, hl, this]
  · have hv : validate f false = some .proto := by
      unfold validate
      have : (f.rsv1 != 0 || f.rsv2 != 0 || f.rsv3 != 0) = true := by
        by_cases a : f.rsv1 = 0 <;> by_cases b : f.rsv2 = 0 <;> by_cases c : f.rsv3 = 0 <;> simp_all
      simp [this]
    rw [hv]
    unfold frameLevelLegal
    by_cases a : f.rsv1 = 0 <;> by_cases b : f.rsv2 = 0 <;> by_cases c : f.rsv3 = 0 <;> simp_all

/-- Python truthiness of `recving_frames`. -/
def recvingTruthy (c : Conn) : Bool := match c.recving with | some n => n != 0 | none => false

/-- the sequencing part of `Spec.frameLegal`. -/
def seqLegal (inMsg : Bool) (op : Nat) : Bool := (op != 0 || inMsg) && (!(op == 1 || op == 2) || !inMsg)

/-- **sequencing check** — `continuous_frame.validate` accepts a data frame exactly when the RFC's
    sequencing rule holds for the current message-in-progress flag. -/
theorem contValidate_iff (c : Conn) (f : Frame) :
    (c.contValidate f).isNone = seqLegal (recvingTruthy c) f.opcode := by
  obtain ⟨_, _, _, _, _, _, _, k0, k1, k2⟩ := consts5
  unfold Conn.contValidate seqLegal
  rw [k0, k1, k2]
  unfold recvingTruthy
  cases hr : c.recving with
  | none =>
    by_cases h0 : f.opcode = 0 <;> by_cases h1 : f.opcode = 1 <;> by_cases h2 : f.opcode = 2 <;> simp_all
  | some n =>
    by_cases hn : n = 0 <;>
      by_cases h0 : f.opcode = 0 <;> by_cases h1 : f.opcode = 1 <;> by_cases h2 : f.opcode = 2 <;> simp_all

/-- **C05_seq step** — after a sequencing-legal data frame has been added, the code's in-message flag is the
    Spec's: in a message iff the frame was not final. (Invariant: buffered fragments imply the flag.) -/
theorem contAdd_flag (c : Conn) (f : Frame) (hdata : f.opcode = 0 ∨ f.opcode = 1 ∨ f.opcode = 2)
    (hinv : c.contData.isSome = true → recvingTruthy c = true)
    (hleg : seqLegal (recvingTruthy c) f.opcode = true) :
    recvingTruthy (c.contAdd f) = inMessageAfter (recvingTruthy c) f.fin f.opcode := by
  obtain ⟨_, _, _, _, _, _, _, k0, k1, k2⟩ := consts5
  have hnc : isControl f.opcode = false := by
    rcases hdata with h | h | h <;> simp [isControl, h]
  unfold inMessageAfter
  simp only [hnc, Bool.false_eq_true, if_false]
  unfold seqLegal at hleg
  unfold Conn.contAdd
  rw [k1, k2]
  by_cases hfin : f.fin = 0
  · -- not final: the flag must be set afterwards
    simp only [hfin, show ((0 : Nat) != 0) = false by decide, Bool.false_eq_true, if_false,
      show ((0 : Nat) == 0) = true by decide]
    cases hcd : c.contData with
    | some p =>
      obtain ⟨op, d⟩ := p
      have ht := hinv (by simp [hcd])
      simp only []
      simpa [recvingTruthy] using ht
    | none =>
      simp only []
      rcases hdata with h | h | h
      · -- continuation with nothing buffered: legal only in a message (fire mode)
        have ht : recvingTruthy c = true := by simpa [h] using hleg
        simp only [h, show ((0 : Nat) == 1) = false by decide, show ((0 : Nat) == 2) = false by decide,
          Bool.or_false, Bool.false_eq_true, if_false]
        simpa [recvingTruthy] using ht
      · simp [h, recvingTruthy]
      · simp [h, recvingTruthy]
  · have hne : (f.fin != 0) = true := by simpa using hfin
    have hfz : (f.fin == 0) = false := by simpa using hfin
    simp only [hne, if_true, hfz]
    cases hcd : c.contData <;> simp [recvingTruthy] <;> split <;> simp [recvingTruthy]

end WS.Lemmas.Legal
