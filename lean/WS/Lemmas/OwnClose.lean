/-
  WS.Lemmas.OwnClose — the ghost counter `ownCloses` (close frames written by `close()` or by the automatic
  reply) never exceeds 1 along any history of client calls and server events: both writers require
  `connected = true`, both clear it before writing, and nothing ever sets it again.
-/
import WS.Model.Conn
namespace WS.Lemmas.OwnClose
open WS WS.Model

/-- at most one close frame on the client's own initiative, and none while still connected. -/
def OwnInv (c : Conn) : Prop := c.ownCloses ≤ 1 ∧ (c.connected = true → c.ownCloses = 0)

/-- an operation that writes no own-initiative close frame and never re-connects. -/
def Quiet (c c' : Conn) : Prop := c'.ownCloses = c.ownCloses ∧ (c.connected = false → c'.connected = false)

theorem Quiet.rfl' (c : Conn) : Quiet c c := ⟨rfl, id⟩
theorem Quiet.trans {a b c : Conn} (h1 : Quiet a b) (h2 : Quiet b c) : Quiet a c :=
  ⟨h2.1.trans h1.1, fun h => h2.2 (h1.2 h)⟩

theorem OwnInv.of_quiet {c c' : Conn} (hi : OwnInv c) (hq : Quiet c c') : OwnInv c' := by
  obtain ⟨a, b⟩ := hi
  obtain ⟨q1, q2⟩ := hq
  refine ⟨by rw [q1]; exact a, fun ht => ?_⟩
  rw [q1]
  apply b
  cases hc : c.connected with
  | true => rfl
  | false => rw [q2 hc] at ht; cases ht

theorem sockRecv_quiet (c : Conn) (n : Nat) : Quiet c (c.sockRecv n).2 := by
  unfold Conn.sockRecv
  split
  · exact Quiet.rfl' c
  · generalize c.sock.recv (c.sock.inp.length + 1) n = r
    obtain ⟨res, s'⟩ := r
    cases res <;> simp [Quiet]

theorem recvStrictLoop_quiet (fuel : Nat) : ∀ (c : Conn) (n : Nat), Quiet c (Conn.recvStrictLoop fuel c n).2 := by
  induction fuel with
  | zero => intro c n; simp [Conn.recvStrictLoop]; exact Quiet.rfl' c
  | succ f ih =>
    intro c n
    unfold Conn.recvStrictLoop
    split
    · exact Quiet.rfl' c
    · simp only []
      have h1 := sockRecv_quiet c (min Gen.recvCap (n - c.buf.length))
      generalize c.sockRecv (min Gen.recvCap (n - c.buf.length)) = r at h1 ⊢
      obtain ⟨res, c1⟩ := r
      cases res with
      | error e => simpa using h1
      | ok bs =>
        simp only []
        have := ih { c1 with buf := c1.buf ++ bs } n
        exact Quiet.trans h1 (by simpa [Quiet] using this)

theorem recvStrict_quiet (c : Conn) (n : Nat) : Quiet c (c.recvStrict n).2 := by
  unfold Conn.recvStrict
  have := recvStrictLoop_quiet (c.sock.size + 1) c n
  generalize Conn.recvStrictLoop (c.sock.size + 1) c n = r at this
  obtain ⟨e, c'⟩ := r
  cases e <;> simpa [Quiet] using this

theorem recvFrame_quiet (c : Conn) : Quiet c c.recvFrame.2 := by
  unfold Conn.recvFrame
  have s1 : Quiet c (if c.hdr.isNone then c.recvHeader else (none, c)).2 := by
    split
    · unfold Conn.recvHeader
      have := recvStrict_quiet c 2
      generalize c.recvStrict 2 = r at this
      obtain ⟨e, c'⟩ := r
      cases e <;> simpa [Quiet] using this
    · exact Quiet.rfl' c
  generalize (if c.hdr.isNone then c.recvHeader else (none, c)) = r1 at s1
  obtain ⟨e1, c1⟩ := r1
  simp only []
  cases e1 with
  | some e => simpa using s1
  | none =>
    simp only []
    cases hh : c1.hdr with
    | none => simpa using s1
    | some hd =>
      simp only []
      have s2 : Quiet c1 (if c1.len.isNone then c1.recvLength hd else (none, c1)).2 := by
        split
        · unfold Conn.recvLength
          simp only []
          split
          · have := recvStrict_quiet c1 2
            generalize c1.recvStrict 2 = r at this
            obtain ⟨e, c'⟩ := r
            cases e <;> simpa [Quiet] using this
          · split
            · have := recvStrict_quiet c1 8
              generalize c1.recvStrict 8 = r at this
              obtain ⟨e, c'⟩ := r
              cases e <;> simpa [Quiet] using this
            · simpa [Quiet] using Quiet.rfl' c1
        · exact Quiet.rfl' c1
      generalize (if c1.len.isNone then c1.recvLength hd else (none, c1)) = r2 at s2
      obtain ⟨e2, c2⟩ := r2
      simp only []
      cases e2 with
      | some e => exact Quiet.trans s1 (by simpa using s2)
      | none =>
        simp only []
        have s3 : Quiet c2 (if c2.maskv.isNone then c2.recvMask hd else (none, c2)).2 := by
          split
          · unfold Conn.recvMask
            split
            · have := recvStrict_quiet c2 4
              generalize c2.recvStrict 4 = r at this
              obtain ⟨e, c'⟩ := r
              cases e <;> simpa [Quiet] using this
            · simpa [Quiet] using Quiet.rfl' c2
          · exact Quiet.rfl' c2
        generalize (if c2.maskv.isNone then c2.recvMask hd else (none, c2)) = r3 at s3
        obtain ⟨e3, c3⟩ := r3
        simp only []
        cases e3 with
        | some e => exact Quiet.trans s1 (Quiet.trans s2 (by simpa using s3))
        | none =>
          simp only []
          have s4 := recvStrict_quiet c3 (c2.len.getD 0)
          generalize c3.recvStrict (c2.len.getD 0) = r4 at s4
          obtain ⟨e4, c4⟩ := r4
          have s123 := Quiet.trans s1 (Quiet.trans s2 s3)
          cases e4 with
          | error e => exact Quiet.trans s123 (by simpa using s4)
          | ok payload =>
            simp only []
            have : Quiet c { c4 with hdr := none, len := none, maskv := none } := by
              have := Quiet.trans s123 s4
              simpa [Quiet] using this
            split <;> simpa using this

theorem sockSend_quiet (c : Conn) (d : Bytes) : Quiet c (c.sockSend d).2 := by
  unfold Conn.sockSend
  split
  · exact Quiet.rfl' c
  · generalize c.sock.send d = r
    obtain ⟨res, s'⟩ := r
    cases res <;> simp [Quiet]

theorem sendLoop_quiet (fuel : Nat) : ∀ (c : Conn) (d : Bytes), Quiet c (Conn.sendLoop fuel c d).2 := by
  induction fuel with
  | zero => intro c d; simp [Conn.sendLoop]; exact Quiet.rfl' c
  | succ f ih =>
    intro c d
    unfold Conn.sendLoop
    split
    · exact Quiet.rfl' c
    · have h1 := sockSend_quiet c d
      generalize c.sockSend d = r at h1 ⊢
      obtain ⟨res, c1⟩ := r
      cases res with
      | error e => simpa using h1
      | ok l => exact Quiet.trans h1 (ih c1 _)

theorem sendFrame_quiet (c : Conn) (f : Frame) : Quiet c (c.sendFrame f).2 := by
  unfold Conn.sendFrame
  simp only []
  split
  · exact Quiet.rfl' c
  · rename_i data _
    have hb : Quiet c (if f.mask != 0 then { c with keys := c.keys.tail, keyDraws := c.keyDraws + 1 } else c) := by
      split <;> simp [Quiet]
    have := sendLoop_quiet (data.length + 1) (if f.mask != 0 then { c with keys := c.keys.tail, keyDraws := c.keyDraws + 1 } else c) data
    generalize Conn.sendLoop (data.length + 1) _ data = r at this
    obtain ⟨e, c'⟩ := r
    cases e <;> exact Quiet.trans hb (by simpa using this)

theorem sendClose_quiet (c : Conn) (s : Int) (r : Bytes) : Quiet c (c.sendClose s r).2 := by
  unfold Conn.sendClose
  split
  · exact Quiet.rfl' c
  · have := sendFrame_quiet { c with connected := false } (createFrame (beN 2 s.toNat ++ r) Gen.opcodeClose)
    unfold Conn.send
    exact ⟨this.1, fun _ => this.2 rfl⟩

theorem sendClose_disconnects (c : Conn) (s : Int) (r : Bytes) (hs : ¬ (s < 0 ∨ s ≥ (Gen.length16 : Int))) :
    (c.sendClose s r).2.connected = false := by
  unfold Conn.sendClose
  have : (decide (s < 0) || decide (s ≥ (Gen.length16 : Int))) = false := by
    simp; omega
  simp only [this, Bool.false_eq_true, if_false]
  have := sendFrame_quiet { c with connected := false } (createFrame (beN 2 s.toNat ++ r) Gen.opcodeClose)
  unfold Conn.send
  exact this.2 rfl

theorem contAdd_quiet (c : Conn) (f : Frame) : Quiet c (c.contAdd f) := by
  unfold Conn.contAdd Quiet
  simp only []
  split <;> split <;> (try split) <;> simp

theorem contExtract_quiet (c : Conn) (f : Frame) : Quiet c (c.contExtract f).2 := by
  unfold Conn.contExtract Quiet
  split
  · simp
  · simp only []
    split <;> simp

theorem statusNormal_ok : ¬ ((((Gen.statusNormal : Nat) : Int) < 0) ∨ (((Gen.statusNormal : Nat) : Int) ≥ (Gen.length16 : Int))) := by
  decide

/-- the receive loop keeps the invariant: the automatic reply is written only while connected, and
    disconnects. -/
theorem recvDataFrameLoop_own (fuel : Nat) (cf : Bool) : ∀ c : Conn, OwnInv c →
    OwnInv (Conn.recvDataFrameLoop fuel c cf).2 := by
  induction fuel with
  | zero => intro c h; simpa [Conn.recvDataFrameLoop] using h
  | succ n ih =>
    intro c hi
    unfold Conn.recvDataFrameLoop
    have s1 := recvFrame_quiet c
    generalize c.recvFrame = r1 at s1
    obtain ⟨e1, c1⟩ := r1
    have hi1 : OwnInv c1 := hi.of_quiet s1
    cases e1 with
    | error e => simpa using hi1
    | ok f =>
      simp only []
      split
      · split
        · simpa using hi1
        · have hA : OwnInv (c1.contAdd f) := hi1.of_quiet (contAdd_quiet c1 f)
          split
          · exact hA.of_quiet (contExtract_quiet _ f)
          · exact ih _ hA
      · split
        · -- close frame
          split
          · simpa using hi1
          · rename_i hconn
            have hc : c1.connected = true := by simpa using hconn
            have h0 : c1.ownCloses = 0 := hi1.2 hc
            have hq := sendClose_quiet ({ c1 with ownCloses := c1.ownCloses + 1 } : Conn) ((Gen.statusNormal : Nat) : Int) []
            have hd := sendClose_disconnects ({ c1 with ownCloses := c1.ownCloses + 1 } : Conn) ((Gen.statusNormal : Nat) : Int) [] statusNormal_ok
            generalize ({ c1 with ownCloses := c1.ownCloses + 1 } : Conn).sendClose ((Gen.statusNormal : Nat) : Int) [] = r at hq hd
            obtain ⟨e, c2⟩ := r
            have : OwnInv c2 := by
              refine ⟨?_, fun ht => ?_⟩
              · rw [hq.1]; simp [h0]
              · simp only [] at hd; rw [hd] at ht; cases ht
            cases e <;> simpa using this
        · split
          · split
            · have hq := sendFrame_quiet c1 (createFrame f.data Gen.opcodePong)
              unfold Conn.pong Conn.send
              generalize c1.sendFrame (createFrame f.data Gen.opcodePong) = r at hq
              obtain ⟨e, c2⟩ := r
              have hi2 : OwnInv c2 := hi1.of_quiet hq
              cases e with
              | error e => simpa using hi2
              | ok v =>
                simp only []
                split
                · simpa using hi2
                · exact ih _ hi2
            · simpa using hi1
          · split
            · split
              · simpa using hi1
              · exact ih _ hi1
            · exact ih _ hi1

theorem closeWait_body_quiet (n : Nat) (ih : ∀ (c : Conn) (start : Nat) (t : Option Nat), Quiet c (Conn.closeWait n c start t))
    (c : Conn) (s : Nat) (t : Option Nat) :
    Quiet c (match c.recvFrame with
      | (.error _, c) => c
      | (.ok f, c) => if f.opcode != Gen.opcodeClose then Conn.closeWait n c s t else c) := by
  have s1 := recvFrame_quiet c
  generalize c.recvFrame = r at s1
  obtain ⟨e, c1⟩ := r
  cases e with
  | error e => simpa using s1
  | ok f =>
    simp only []
    split
    · exact Quiet.trans s1 (ih c1 s t)
    · exact s1

theorem closeWait_quiet (fuel : Nat) : ∀ (c : Conn) (start : Nat) (t : Option Nat), Quiet c (Conn.closeWait fuel c start t) := by
  induction fuel with
  | zero => intro c s t; exact Quiet.rfl' c
  | succ n ih =>
    intro c s t
    unfold Conn.closeWait
    cases t with
    | none =>
      simp only [Bool.not_true, Bool.false_eq_true, if_false]
      exact closeWait_body_quiet n ih c s none
    | some tt =>
      simp only []
      by_cases hlt : c.sock.clock - s < tt
      · simp only [hlt, decide_true, Bool.not_true, Bool.false_eq_true, if_false]
        exact closeWait_body_quiet n ih c s (some tt)
      · simp only [hlt, decide_false, Bool.not_false, if_true]
        exact Quiet.rfl' c

theorem shutdown_quiet (c : Conn) : Quiet c c.shutdown := by
  unfold Conn.shutdown Quiet
  split <;> simp

theorem close_own (c : Conn) (s : Int) (r : Bytes) (t : Option Nat) (hi : OwnInv c) : OwnInv (c.close s r t).2 := by
  unfold Conn.close
  split
  · exact hi
  · rename_i hconn
    have hc : c.connected = true := by simpa using hconn
    have h0 : c.ownCloses = 0 := hi.2 hc
    split
    · exact hi
    · simp only []
      -- after `connected := false; ownCloses += 1` everything else is quiet
      have hbase : OwnInv ({ c with connected := false, ownCloses := c.ownCloses + 1 } : Conn) :=
        ⟨by simp [h0], fun ht => by simp at ht⟩
      apply OwnInv.of_quiet _ (shutdown_quiet _)
      have hq := sendFrame_quiet ({ c with connected := false, ownCloses := c.ownCloses + 1 } : Conn)
        (createFrame (beN 2 s.toNat ++ r) Gen.opcodeClose)
      unfold Conn.send
      generalize ({ c with connected := false, ownCloses := c.ownCloses + 1 } : Conn).sendFrame
        (createFrame (beN 2 s.toNat ++ r) Gen.opcodeClose) = rr at hq
      obtain ⟨e, c1⟩ := rr
      have hi1 : OwnInv c1 := hbase.of_quiet hq
      cases e with
      | error e => simpa using hi1
      | ok v =>
        simp only []
        split
        · exact hi1
        · have hset : Quiet c1 ({ c1 with sock := { c1.sock with timeoutMs := t } } : Conn) := by simp [Quiet]
          have hw := closeWait_quiet (({ c1 with sock := { c1.sock with timeoutMs := t } } : Conn).sock.size +
              ({ c1 with sock := { c1.sock with timeoutMs := t } } : Conn).buf.length + 2)
            ({ c1 with sock := { c1.sock with timeoutMs := t } } : Conn)
            ({ c1 with sock := { c1.sock with timeoutMs := t } } : Conn).sock.clock t
          have hi2 := (hi1.of_quiet hset).of_quiet hw
          split
          · exact hi2
          · apply hi2.of_quiet
            simp [Quiet, Sock.shutdown]

/-- the client calls of C08's histories. -/
inductive Op where
  | send (p : Bytes) (op : Nat)
  | ping (p : Bytes)
  | pong (p : Bytes)
  | recv
  | recvData (cf : Bool)
  | recvDataFrame (cf : Bool)
  | recvFrame
  | sendClose (s : Int) (r : Bytes)
  | close (s : Int) (r : Bytes) (t : Option Nat)
  | shutdown
  | abort

def runOp (c : Conn) : Op → Conn
  | .send p op => (c.send p op).2
  | .ping p => (c.ping p).2
  | .pong p => (c.pong p).2
  | .recv => c.recv.2
  | .recvData cf => (c.recvData cf).2
  | .recvDataFrame cf => (c.recvDataFrame cf).2
  | .recvFrame => c.recvFrame.2
  | .sendClose s r => (c.sendClose s r).2
  | .close s r t => (c.close s r t).2
  | .shutdown => c.shutdown
  | .abort => c.abort.2

def runOps (c : Conn) (ops : List Op) : Conn := ops.foldl runOp c

theorem recvData_state (c : Conn) (cf : Bool) : (c.recvData cf).2 = (c.recvDataFrame cf).2 := by
  unfold Conn.recvData
  generalize c.recvDataFrame cf = r
  obtain ⟨e, c'⟩ := r
  cases e with
  | error e => rfl
  | ok v => obtain ⟨op, f⟩ := v; rfl

theorem recv_state (c : Conn) : c.recv.2 = (c.recvDataFrame false).2 := by
  unfold Conn.recv
  rw [← recvData_state]
  generalize c.recvData false = r
  obtain ⟨e, c'⟩ := r
  cases e with
  | error e => rfl
  | ok v =>
    obtain ⟨op, d⟩ := v
    simp only []
    split
    · split <;> rfl
    · split <;> rfl

theorem runOp_own (c : Conn) (o : Op) (hi : OwnInv c) : OwnInv (runOp c o) := by
  cases o with
  | send p op => exact hi.of_quiet (sendFrame_quiet c _)
  | ping p => exact hi.of_quiet (sendFrame_quiet c _)
  | pong p => exact hi.of_quiet (sendFrame_quiet c _)
  | recv => simp only [runOp]; rw [recv_state]; exact recvDataFrameLoop_own _ false c hi
  | recvData cf => simp only [runOp]; rw [recvData_state]; exact recvDataFrameLoop_own _ cf c hi
  | recvDataFrame cf => exact recvDataFrameLoop_own _ cf c hi
  | recvFrame => exact hi.of_quiet (recvFrame_quiet c)
  | sendClose s r => exact hi.of_quiet (sendClose_quiet c s r)
  | close s r t => exact close_own c s r t hi
  | shutdown => exact hi.of_quiet (shutdown_quiet c)
  | abort =>
    simp only [runOp]
    apply hi.of_quiet
    unfold Conn.abort Quiet
    split
    · split <;> simp
    · simp

theorem runOps_own (ops : List Op) : ∀ c : Conn, OwnInv c → OwnInv (runOps c ops) := by
  induction ops with
  | nil => intro c h; exact h
  | cons o rest ih => intro c h; exact ih _ (runOp_own c o h)

end WS.Lemmas.OwnClose
