/-
  WS.Lemmas.Staged — the parser's stage fields are a lossless encoding of the bytes already consumed:
  `recv_frame` from any well-staged state = `recv_frame` from the cleared state with those bytes put back.
-/
import WS.Lemmas.Parser
namespace WS.Lemmas.Staged
open WS WS.Model WS.Spec WS.Lemmas.RecvStrict WS.Lemmas.Frame WS.Lemmas.Parser

/-- the two header bytes a stored header tuple came from. -/
def hdrBytes (h : Hdr) : Bytes :=
  [UInt8.ofNat (h.fin * 128 + h.rsv1 * 64 + h.rsv2 * 32 + h.rsv3 * 16 + h.opcode), UInt8.ofNat (h.hasMask * 128 + h.lenBits)]

/-- the extended-length bytes a stored length came from. -/
def extBytes (h : Hdr) (L : Nat) : Bytes :=
  if h.lenBits = 126 then beN 2 L else if h.lenBits = 127 then beN 8 L else []

/-- the bytes already consumed by the completed stages of the frame in progress. -/
def stageBytes (c : Conn) : Bytes :=
  match c.hdr with
  | none => []
  | some h => hdrBytes h ++
    match c.len with
    | none => []
    | some L => extBytes h L ++
      match c.maskv with
      | none => []
      | some k => k

/-- all bytes of the stream from the start of the frame in progress. -/
def vpending (c : Conn) : Bytes := stageBytes c ++ pending c

def HdrOk (h : Hdr) : Prop :=
  h.fin < 2 ∧ h.rsv1 < 2 ∧ h.rsv2 < 2 ∧ h.rsv3 < 2 ∧ h.opcode < 16 ∧ h.hasMask < 2 ∧ h.lenBits < 128

def LenOk (h : Hdr) (L : Nat) : Prop :=
  (h.lenBits = 126 → L < 65536) ∧ (h.lenBits = 127 → L < 2 ^ 64) ∧ (h.lenBits ≠ 126 → h.lenBits ≠ 127 → L = h.lenBits)

/-- the stage fields are mutually consistent (what `recv_frame` maintains between calls). -/
def WellStaged (c : Conn) : Prop :=
  match c.hdr with
  | none => c.len = none ∧ c.maskv = none
  | some h => HdrOk h ∧
    match c.len with
    | none => c.maskv = none
    | some L => LenOk h L ∧
      match c.maskv with
      | none => True
      | some k => k.length = (if h.hasMask = 1 then 4 else 0)

theorem hdrBytes_hdrOf (b0 b1 : UInt8) : hdrBytes (hdrOf b0 b1) = [b0, b1] := by
  have h0 := b0.toNat_lt
  have h1 := b1.toNat_lt
  have e0 : b0.toNat / 128 * 128 + b0.toNat / 64 % 2 * 64 + b0.toNat / 32 % 2 * 32 + b0.toNat / 16 % 2 * 16 + b0.toNat % 16 = b0.toNat := by omega
  have e1 : b1.toNat / 128 * 128 + b1.toNat % 128 = b1.toNat := by omega
  simp only [hdrBytes, hdrOf, e0, e1, UInt8.ofNat_toNat]

theorem hdrOk_hdrOf (b0 b1 : UInt8) : HdrOk (hdrOf b0 b1) := by
  have h0 := b0.toNat_lt
  have h1 := b1.toNat_lt
  simp only [HdrOk, hdrOf]
  refine ⟨?_, ?_, ?_, ?_, ?_, ?_, ?_⟩ <;> omega

theorem hdrOf_hdrBytes (h : Hdr) (hk : HdrOk h) :
    hdrOf (UInt8.ofNat (h.fin * 128 + h.rsv1 * 64 + h.rsv2 * 32 + h.rsv3 * 16 + h.opcode)) (UInt8.ofNat (h.hasMask * 128 + h.lenBits)) = h := by
  obtain ⟨a1, a2, a3, a4, a5, a6, a7⟩ := hk
  have e0 := toNat_ofNat_lt (h.fin * 128 + h.rsv1 * 64 + h.rsv2 * 32 + h.rsv3 * 16 + h.opcode) (by omega)
  have e1 := toNat_ofNat_lt (h.hasMask * 128 + h.lenBits) (by omega)
  cases h with
  | mk fin r1 r2 r3 op hm lb =>
    simp only [hdrOf, e0, e1] at *
    simp only [Hdr.mk.injEq]
    refine ⟨?_, ?_, ?_, ?_, ?_, ?_, ?_⟩ <;> omega

theorem be2_unbe (v : Bytes) (hv : v.length = 2) : beN 2 (unbe v) = v := by
  match v, hv with
  | [a, b], _ =>
    have ha := a.toNat_lt
    have hb := b.toNat_lt
    simp only [unbe, List.foldl, beN]
    have e1 : ((0 * 256 + a.toNat) * 256 + b.toNat) / 256 ^ 1 = a.toNat := by omega
    have e2 : ((0 * 256 + a.toNat) * 256 + b.toNat) % 256 ^ 1 / 256 ^ 0 = b.toNat := by omega
    rw [e1, e2]
    simp

/-- `recv_strict(n)` with `n` bytes already buffered: no transport call at all. -/
theorem recvStrict_buffered (c : Conn) (n : Nat) (h : n ≤ c.buf.length) :
    c.recvStrict n = (.ok (c.buf.take n), { c with buf := c.buf.drop n }) := by
  unfold Conn.recvStrict Conn.recvStrictLoop
  simp [h]

theorem be8_unbe (v : Bytes) (hv : v.length = 8) : beN 8 (unbe v) = v := by
  match v, hv with
  | [a, b, c, d, e, f, g, h], _ =>
    have ha := a.toNat_lt
    have hb := b.toNat_lt
    have hc := c.toNat_lt
    have hd := d.toNat_lt
    have he := e.toNat_lt
    have hf := f.toNat_lt
    have hg := g.toNat_lt
    have hh := h.toNat_lt
    simp only [unbe, List.foldl, beN]
    generalize hN : (((((((0 * 256 + a.toNat) * 256 + b.toNat) * 256 + c.toNat) * 256 + d.toNat) * 256 + e.toNat) * 256 + f.toNat) * 256 + g.toNat) * 256 + h.toNat = N
    have e7 : N / 256 ^ 7 = a.toNat := by omega
    have e6 : N % 256 ^ 7 / 256 ^ 6 = b.toNat := by omega
    have e5 : N % 256 ^ 7 % 256 ^ 6 / 256 ^ 5 = c.toNat := by omega
    have e4 : N % 256 ^ 7 % 256 ^ 6 % 256 ^ 5 / 256 ^ 4 = d.toNat := by omega
    have e3 : N % 256 ^ 7 % 256 ^ 6 % 256 ^ 5 % 256 ^ 4 / 256 ^ 3 = e.toNat := by omega
    have e2 : N % 256 ^ 7 % 256 ^ 6 % 256 ^ 5 % 256 ^ 4 % 256 ^ 3 / 256 ^ 2 = f.toNat := by omega
    have e1 : N % 256 ^ 7 % 256 ^ 6 % 256 ^ 5 % 256 ^ 4 % 256 ^ 3 % 256 ^ 2 / 256 ^ 1 = g.toNat := by omega
    have e0 : N % 256 ^ 7 % 256 ^ 6 % 256 ^ 5 % 256 ^ 4 % 256 ^ 3 % 256 ^ 2 % 256 ^ 1 / 256 ^ 0 = h.toNat := by omega
    rw [e7, e6, e5, e4, e3, e2, e1, e0]
    simp

def rew1 (c : Conn) (hb : Bytes) : Conn := { c with hdr := none, buf := hb ++ c.buf }
def rew2 (c : Conn) (ext : Bytes) : Conn := { c with len := none, buf := ext ++ c.buf }
def rew3 (c : Conn) (k : Bytes) : Conn := { c with maskv := none, buf := k ++ c.buf }

theorem conn_eta_buf (c : Conn) : ({ c with buf := c.buf } : Conn) = c := rfl

theorem L1 (c : Conn) (h : Hdr) (hh : c.hdr = some h) (hk : HdrOk h) :
    (rew1 c (hdrBytes h)).recvHeader = (none, c) := by
  unfold Conn.recvHeader
  rw [recvStrict_buffered _ 2 (by simp [rew1, hdrBytes])]
  simp only [rew1, hdrBytes, List.cons_append, List.nil_append, List.take, List.drop]
  have hb0 := byte_bits (UInt8.ofNat (h.fin * 128 + h.rsv1 * 64 + h.rsv2 * 32 + h.rsv3 * 16 + h.opcode)).toNat (UInt8.toNat_lt _)
  have hb1 := byte_bits (UInt8.ofNat (h.hasMask * 128 + h.lenBits)).toNat (UInt8.toNat_lt _)
  obtain ⟨x1, x2, x3, x4, x5, _, _⟩ := hb0
  obtain ⟨y1, _, _, _, _, y6, _⟩ := hb1
  have hrt := hdrOf_hdrBytes h hk
  simp only [hdrOf] at hrt
  simp only [List.getD_cons_zero, List.getD_cons_succ, x1, x2, x3, x4, x5, y1, y6, hrt]
  cases c
  simp_all

theorem L2 (c : Conn) (h : Hdr) (L : Nat) (hl : c.len = some L) (hk : HdrOk h) (hlo : LenOk h L) :
    (rew2 c (extBytes h L)).recvLength h = (none, c) := by
  obtain ⟨_, _, _, _, _, _, a7⟩ := hk
  obtain ⟨l1, l2, l3⟩ := hlo
  have hlb : h.lenBits &&& 0x7F = h.lenBits := and7f _ a7
  unfold Conn.recvLength
  simp only [hlb]
  by_cases h126 : h.lenBits = 126
  · have hbuf : 2 ≤ (rew2 c (extBytes h L)).buf.length := by simp [rew2, extBytes, h126, beN_length]
    simp only [h126, show ((126 : Nat) == 0x7E) = true by decide, if_true]
    rw [recvStrict_buffered _ 2 hbuf]
    have ht : (rew2 c (extBytes h L)).buf.take 2 = beN 2 L := by
      simp [rew2, extBytes, h126, List.take_append_of_le_length, beN_length]
    have hd : (rew2 c (extBytes h L)).buf.drop 2 = c.buf := by
      have := beN_length 2 L
      simp [rew2, extBytes, h126, List.drop_append_of_le_length, this]
    simp only [ht, hd, unbe_be2 L (l1 h126)]
    cases c
    simp_all [rew2]
  · by_cases h127 : h.lenBits = 127
    · have hbuf : 8 ≤ (rew2 c (extBytes h L)).buf.length := by simp [rew2, extBytes, h126, h127, beN_length]
      simp only [h127, show ((127 : Nat) == 0x7E) = false by decide, show ((127 : Nat) == 0x7F) = true by decide,
        Bool.false_eq_true, if_false, if_true]
      rw [recvStrict_buffered _ 8 hbuf]
      have ht : (rew2 c (extBytes h L)).buf.take 8 = beN 8 L := by
        simp [rew2, extBytes, h127, List.take_append_of_le_length, beN_length]
      have hd : (rew2 c (extBytes h L)).buf.drop 8 = c.buf := by
        have := beN_length 8 L
        simp [rew2, extBytes, h127, List.drop_append_of_le_length, this]
      simp only [ht, hd, unbe_be8 L (l2 h127)]
      cases c
      simp_all [rew2]
    · have e1 : (h.lenBits == 0x7E) = false := by simpa using h126
      have e2 : (h.lenBits == 0x7F) = false := by simpa using h127
      simp only [e1, e2, Bool.false_eq_true, if_false]
      have : extBytes h L = [] := by simp [extBytes, h126, h127]
      rw [this, ← l3 h126 h127]
      cases c
      simp_all [rew2]

theorem L3 (c : Conn) (h : Hdr) (k : Bytes) (hm : c.maskv = some k) (hk : HdrOk h)
    (hkl : k.length = (if h.hasMask = 1 then 4 else 0)) :
    (rew3 c k).recvMask h = (none, c) := by
  obtain ⟨_, _, _, _, _, a6, _⟩ := hk
  unfold Conn.recvMask
  by_cases h1 : h.hasMask = 1
  · simp only [h1, if_true] at hkl
    have hbuf : 4 ≤ (rew3 c k).buf.length := by simp [rew3, hkl]
    simp only [h1, show ((1 : Nat) != 0) = true by decide, if_true]
    rw [recvStrict_buffered _ 4 hbuf]
    have ht : (rew3 c k).buf.take 4 = k := by
      simp [rew3, List.take_append_of_le_length, hkl]
    have hd : (rew3 c k).buf.drop 4 = c.buf := by
      simp [rew3, List.drop_append_of_le_length, hkl]
    simp only [ht, hd]
    cases c
    simp_all [rew3]
  · have h0 : h.hasMask = 0 := by omega
    simp only [h0, show ¬ ((0 : Nat) = 1) by omega, if_false] at hkl
    have hk0 : k = [] := by simpa using hkl
    simp only [h0, show ((0 : Nat) != 0) = false by decide, Bool.false_eq_true, if_false]
    subst hk0
    cases c
    simp_all [rew3]

/-- the same connection with the frame in progress "un-read": parser cleared, the consumed stage bytes put back
    in front of the buffer. -/
def virt (c : Conn) : Conn := { c with hdr := none, len := none, maskv := none, buf := stageBytes c ++ c.buf }

theorem pending_virt (c : Conn) : pending (virt c) = vpending c := by
  simp [pending, vpending, virt, List.append_assoc]

/-- **resumption = replay** — a `recv_frame` call on a parser that stopped after some stages behaves exactly
    (same result, same final state) like a call on the cleared parser with the consumed bytes put back: the
    stored header tuple, length and mask key are a lossless encoding of the bytes they were read from. -/
theorem recvFrame_virt (c : Conn) (hws : WellStaged c) : (virt c).recvFrame = c.recvFrame := by
  unfold WellStaged at hws
  cases hh : c.hdr with
  | none =>
    simp only [hh] at hws
    have : virt c = c := by
      unfold virt stageBytes
      cases c
      simp_all
    rw [this]
  | some h =>
    simp only [hh] at hws
    obtain ⟨hk, hws⟩ := hws
    cases hl : c.len with
    | none =>
      simp only [hl] at hws
      -- only the header was read
      have hv : virt c = rew1 c (hdrBytes h) := by
        unfold virt rew1 stageBytes
        cases c
        simp_all
      have e1 := L1 c h hh hk
      rw [hv]
      conv => lhs; unfold Conn.recvFrame
      conv => rhs; unfold Conn.recvFrame
      simp only [show (rew1 c (hdrBytes h)).hdr = none from rfl, Option.isNone_none, if_true, e1, hh,
        Option.isNone_some, Bool.false_eq_true, if_false]
    | some L =>
      simp only [hl] at hws
      obtain ⟨hlo, hws⟩ := hws
      cases hm : c.maskv with
      | none =>
        have hv : virt c = rew1 (rew2 c (extBytes h L)) (hdrBytes h) := by
          unfold virt rew1 rew2 stageBytes
          cases c
          simp_all
        have e1 := L1 (rew2 c (extBytes h L)) h (by simp [rew2, hh]) hk
        have e2 := L2 c h L hl hk hlo
        rw [hv]
        conv => lhs; unfold Conn.recvFrame
        conv => rhs; unfold Conn.recvFrame
        simp only [show (rew1 (rew2 c (extBytes h L)) (hdrBytes h)).hdr = none from rfl, Option.isNone_none, if_true, e1,
          show (rew2 c (extBytes h L)).hdr = some h by simp [rew2, hh],
          show (rew2 c (extBytes h L)).len = none from rfl, e2, hh, hl,
          Option.isNone_some, Bool.false_eq_true, if_false]
      | some k =>
        simp only [hm] at hws
        have hv : virt c = rew1 (rew2 (rew3 c k) (extBytes h L)) (hdrBytes h) := by
          unfold virt rew1 rew2 rew3 stageBytes
          cases c
          simp_all
        have e1 := L1 (rew2 (rew3 c k) (extBytes h L)) h (by simp [rew2, rew3, hh]) hk
        have e2 := L2 (rew3 c k) h L (by simp [rew3, hl]) hk hlo
        have e3 := L3 c h k hm hk hws
        rw [hv]
        conv => lhs; unfold Conn.recvFrame
        conv => rhs; unfold Conn.recvFrame
        simp only [show (rew1 (rew2 (rew3 c k) (extBytes h L)) (hdrBytes h)).hdr = none from rfl, Option.isNone_none, if_true, e1,
          show (rew2 (rew3 c k) (extBytes h L)).hdr = some h by simp [rew2, rew3, hh],
          show (rew2 (rew3 c k) (extBytes h L)).len = none from rfl, e2,
          show (rew3 c k).maskv = none from rfl, show (rew3 c k).len = some L by simp [rew3, hl], e3, hh, hl, hm,
          Option.isNone_some, Bool.false_eq_true, if_false]

end WS.Lemmas.Staged
