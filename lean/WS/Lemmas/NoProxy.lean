/-
  WS.Lemmas.NoProxy — helper lemmas for C19: 32-bit mask arithmetic, the guards of
  `_is_no_proxy_host`, `mapM` over `Except`.
-/
import WS.Lemmas.Py
import WS.Spec.NoProxy
import WS.Model.NoProxy
namespace WS.Lemmas.NoProxy
open WS WS.Py WS.Lemmas.Py

/-! ### the netmask -/

theorem testBit_high {h i : Nat} (hh : h < 2 ^ 32) (hi : 32 ≤ i) : h.testBit i = false := by
  apply Nat.testBit_lt_two_pow
  exact Nat.lt_of_lt_of_le hh (Nat.pow_le_pow_right (by decide) hi)

/-- `ip & ((0xFFFFFFFF << k) & 0xFFFFFFFF)` clears the low `k` bits of a 32-bit value. -/
theorem and_mask (h k : Nat) (hh : h < 2 ^ 32) (_hk : k ≤ 32) :
    h &&& ((0xFFFFFFFF <<< k) &&& 0xFFFFFFFF) = h / 2 ^ k * 2 ^ k := by
  apply Nat.eq_of_testBit_eq
  intro i
  have e : (0xFFFFFFFF : Nat) = 2 ^ 32 - 1 := by decide
  rw [e]
  simp only [Nat.testBit_and, Nat.testBit_shiftLeft, Nat.testBit_two_pow_sub_one,
    Nat.testBit_mul_two_pow, Nat.testBit_div_two_pow]
  by_cases hik : k ≤ i
  · have : i - k + k = i := by omega
    by_cases hi : i < 32
    · have : i - k < 32 := by omega
      simp [*]
    · have := testBit_high hh (Nat.le_of_not_lt hi)
      simp [*]
  · simp [hik]

/-- clearing the low bits gives `a` iff `a` has no low bits and agrees on the high ones. -/
theorem div_mul_eq_iff (h a m : Nat) (hm : 0 < m) :
    h / m * m = a ↔ (a % m = 0 ∧ h / m = a / m) := by
  constructor
  · intro e
    subst e
    exact ⟨Nat.mul_mod_left _ _, (Nat.mul_div_cancel _ hm).symm⟩
  · rintro ⟨h0, h1⟩
    rw [h1]
    have := Nat.div_add_mod a m
    rw [h0, Nat.add_zero, Nat.mul_comm] at this
    exact this

/-! ### `mapM` in `Except` -/

theorem mapM_ok {α β : Type} (f : α → Except Exn β) (g : α → β) (l : List α)
    (h : ∀ x ∈ l, f x = .ok (g x)) : l.mapM f = .ok (l.map g) := by
  induction l with
  | nil => rfl
  | cons x xs ih =>
    have hx := h x (by simp)
    have hxs := ih (fun y hy => h y (by simp [hy]))
    simp [List.mapM_cons, hx, hxs, bind, Except.bind, pure, Except.pure]

end WS.Lemmas.NoProxy
