/-
  WS.Lemmas.Readers — the interleaving invariant of concurrent receivers: at every point of every schedule
  the messages delivered so far are exactly the first messages of the stream, each reassembled, each to a
  different task; the unread stream is the remaining messages (minus what the lock holder has taken of the
  message it is assembling); nobody but the lock holder is inside the loop.
-/
import WS.Model.Readers
import WS.Lemmas.Loop
namespace WS.Lemmas.Readers
open WS WS.Model WS.Model.Readers WS.Lemmas.Loop

/-- Spec: what a whole message delivers — the opcode of its first fragment, the fragments' payloads in order. -/
def deliverOf (fs : List Frame) : Nat × Bytes := (firstDataOp fs, msgPayload fs)

def ContOK (cont : Option (Nat × Bytes)) (st : Option Nat) (acc : Bytes) : Prop :=
  match st with
  | none => cont = none ∧ acc = []
  | some op => cont = some (op, acc)

/-- what the holder `h` has in hand. -/
def Held (s : St) (h : Nat) (rm : List (List Frame)) : Prop :=
  (rm = [] ∧ s.stream = [] ∧ s.cont = none ∧ s.pc h = .reading) ∨
  ∃ st acc suf cur rt, rm = cur :: rt ∧ MsgFrames st suf ∧ ContOK s.cont st acc ∧
    (msgOp st suf, acc ++ msgPayload suf) = deliverOf cur ∧
    ((s.pc h = .reading ∧ s.stream = suf ++ rt.flatten) ∨
     ∃ f suf', s.pc h = .got f ∧ suf = f :: suf' ∧ s.stream = suf' ++ rt.flatten)

structure RInv (msgs : List (List Frame)) (s : St) : Prop where
  split : ∃ dm rm, msgs = dm ++ rm ∧ s.delivered.map (·.2) = dm.map deliverOf ∧
    (match s.holder with
     | none => s.stream = rm.flatten ∧ s.cont = none ∧ ∀ i, s.pc i = .start ∨ s.pc i = .done
     | some h => (∀ i, i ≠ h → s.pc i = .start ∨ s.pc i = .done) ∧ Held s h rm)
  nodup : (s.delivered.map (·.1)).Nodup
  doneIff : ∀ i, s.pc i = .done ↔ i ∈ s.delivered.map (·.1)

theorem inv_init (msgs : List (List Frame)) : RInv msgs (init msgs.flatten) := by
  refine ⟨⟨[], msgs, by simp, by simp [init], ?_⟩, by simp [init], by simp [init]⟩
  simp [init]

theorem msgFrames_ne_nil {st : Option Nat} {fs : List Frame} (h : MsgFrames st fs) : fs ≠ [] := by
  cases h <;> simp

theorem inv_step (msgs : List (List Frame)) (hm : ∀ fs ∈ msgs, MsgFrames none fs) (s : St) (i : Nat)
    (h : RInv msgs s) : RInv msgs (step true s i) := by
  obtain ⟨k0, k1, k2, k8, k9, k10, kmax⟩ := consts9
  obtain ⟨⟨dm, rm, hsplit, hdel, hcase⟩, hnd, hdone⟩ := h
  unfold step
  cases hpc : s.pc i with
  | done => exact ⟨⟨dm, rm, hsplit, hdel, hcase⟩, hnd, hdone⟩
  | start =>
    simp only [if_true]
    cases hh : s.holder with
    | some o => simp only []; exact ⟨⟨dm, rm, hsplit, hdel, hcase⟩, hnd, hdone⟩
    | none =>
      simp only []
      rw [hh] at hcase
      obtain ⟨hstream, hcont, hpcs⟩ := hcase
      refine ⟨⟨dm, rm, hsplit, hdel, ?_⟩, hnd, ?_⟩
      · simp only []
        refine ⟨fun j hj => by simp only [upd_other _ _ _ _ hj]; exact hpcs j, ?_⟩
        cases rm with
        | nil => exact Or.inl ⟨rfl, by simpa using hstream, hcont, by simp⟩
        | cons cur rt =>
          refine Or.inr ⟨none, [], cur, cur, rt, rfl, hm cur (by rw [hsplit]; simp), ⟨hcont, rfl⟩, by simp [deliverOf, msgOp],
            Or.inl ⟨by simp, by simpa using hstream⟩⟩
      · intro j
        by_cases hj : j = i
        · subst hj
          have : ¬ j ∈ s.delivered.map (·.1) := by
            intro hmem
            have := (hdone j).mpr hmem
            rw [hpc] at this; cases this
          simp [this]
        · simp only [upd_other _ _ _ _ hj]; exact hdone j
  | reading =>
    simp only []
    -- the reader must be the holder
    cases hh : s.holder with
    | none =>
      rw [hh] at hcase
      rcases hcase.2.2 i with h1 | h1 <;> (rw [hpc] at h1; cases h1)
    | some o =>
      rw [hh] at hcase
      obtain ⟨hoth, hheld⟩ := hcase
      have hio : i = o := by
        by_cases hio : i = o
        · exact hio
        · rcases hoth i hio with h1 | h1 <;> (rw [hpc] at h1; cases h1)
      subst hio
      cases hs : s.stream with
      | nil => simp only []; exact ⟨⟨dm, rm, hsplit, hdel, by rw [hh]; exact ⟨hoth, hheld⟩⟩, hnd, hdone⟩
      | cons f rest =>
        simp only []
        rcases hheld with ⟨_, hsn, _, _⟩ | ⟨st, acc, suf, cur, rt, hrm, hmf, hco, hres, hloc⟩
        · rw [hs] at hsn; cases hsn
        · rcases hloc with ⟨_, hst⟩ | ⟨g, suf', hg, _, _⟩
          · -- take the head of `suf`
            have hne := msgFrames_ne_nil hmf
            cases suf with
            | nil => exact absurd rfl hne
            | cons f' suf' =>
              rw [hs] at hst
              simp only [List.cons_append, List.cons.injEq] at hst
              obtain ⟨hff, hrest⟩ := hst
              subst hff
              refine ⟨⟨dm, rm, hsplit, hdel, ?_⟩, hnd, ?_⟩
              · simp only [hh]
                refine ⟨fun j hj => by simp only [upd_other _ _ _ _ hj]; exact hoth j hj, ?_⟩
                exact Or.inr ⟨st, acc, f :: suf', cur, rt, hrm, hmf, hco, hres, Or.inr ⟨f, suf', by simp, rfl, hrest⟩⟩
              · intro j
                by_cases hj : j = i
                · subst hj
                  have : ¬ j ∈ s.delivered.map (·.1) := by
                    intro hmem
                    have := (hdone j).mpr hmem
                    rw [hpc] at this; cases this
                  simp [this]
                · simp only [upd_other _ _ _ _ hj]; exact hdone j
          · rw [hpc] at hg; cases hg
  | got f =>
    simp only []
    cases hh : s.holder with
    | none =>
      rw [hh] at hcase
      rcases hcase.2.2 i with h1 | h1 <;> (rw [hpc] at h1; cases h1)
    | some o =>
      rw [hh] at hcase
      obtain ⟨hoth, hheld⟩ := hcase
      have hio : i = o := by
        by_cases hio : i = o
        · exact hio
        · rcases hoth i hio with h1 | h1 <;> (rw [hpc] at h1; cases h1)
      subst hio
      have hnotdone : ¬ i ∈ s.delivered.map (·.1) := by
        intro hmem
        have := (hdone i).mpr hmem
        rw [hpc] at this; cases this
      have hdone' : ∀ (v : Pc), v ≠ .done → ∀ j, upd s.pc i v j = .done ↔ j ∈ s.delivered.map (·.1) := by
        intro v hv j
        by_cases hj : j = i
        · subst hj
          simp [hnotdone, hv]
        · simp only [upd_other _ _ _ _ hj]; exact hdone j
      rcases hheld with ⟨_, _, _, hr⟩ | ⟨st, acc, suf, cur, rt, hrm, hmf, hco, hres, hloc⟩
      · rw [hpc] at hr; cases hr
      · rcases hloc with ⟨hr, _⟩ | ⟨g, suf', hg, hsuf, hstream⟩
        · rw [hpc] at hr; cases hr
        · rw [hpc] at hg
          injection hg with hg
          subst hg
          subst hsuf
          rw [k9, k10]
          cases hmf with
          | ping hp hrest =>
            have hop : f.opcode = 9 := hp.1
            simp only [hop, show ((9 : Nat) == 9) = true by decide, Bool.true_or, if_true]
            refine ⟨⟨dm, rm, hsplit, hdel, ?_⟩, hnd, hdone' _ (by simp)⟩
            simp only [hh]
            refine ⟨fun j hj => by simp only [upd_other _ _ _ _ hj]; exact hoth j hj, ?_⟩
            refine Or.inr ⟨st, acc, suf', cur, rt, hrm, hrest, hco, ?_, Or.inl ⟨by simp, hstream⟩⟩
            rw [← hres]
            simp [msgOp, firstDataOp, msgPayload, hop]
          | pong hp hrest =>
            have hop : f.opcode = 10 := hp
            simp only [hop, show ((10 : Nat) == 9) = false by decide, show ((10 : Nat) == 10) = true by decide,
              Bool.false_or, if_true]
            refine ⟨⟨dm, rm, hsplit, hdel, ?_⟩, hnd, hdone' _ (by simp)⟩
            simp only [hh]
            refine ⟨fun j hj => by simp only [upd_other _ _ _ _ hj]; exact hoth j hj, ?_⟩
            refine Or.inr ⟨st, acc, suf', cur, rt, hrm, hrest, hco, ?_, Or.inl ⟨by simp, hstream⟩⟩
            rw [← hres]
            simp [msgOp, firstDataOp, msgPayload, hop]
          | firstMore hop hfin hrest =>
            obtain ⟨hc1, hc2⟩ := hco
            subst hc2
            have hn : (f.opcode == 9 || f.opcode == 10) = false := by rcases hop with h | h <;> simp [h]
            simp only [hn, Bool.false_eq_true, if_false, hfin, show ((0 : Nat) != 0) = false by decide]
            refine ⟨⟨dm, rm, hsplit, hdel, ?_⟩, hnd, hdone' _ (by simp)⟩
            simp only [hh]
            refine ⟨fun j hj => by simp only [upd_other _ _ _ _ hj]; exact hoth j hj, ?_⟩
            refine Or.inr ⟨some f.opcode, f.data, suf', cur, rt, hrm, hrest, by simp [ContOK, contAdd, hc1], ?_,
              Or.inl ⟨by simp, hstream⟩⟩
            rw [← hres]
            have hn9 : ¬ (f.opcode = 9 ∨ f.opcode = 10) := by rcases hop with h | h <;> omega
            simp [msgOp, firstDataOp, msgPayload, hn9]
          | contMore hop hfin hrest =>
            rename_i op
            have hc1 : s.cont = some (op, acc) := hco
            have hn : (f.opcode == 9 || f.opcode == 10) = false := by simp [hop]
            simp only [hn, Bool.false_eq_true, if_false, hfin, show ((0 : Nat) != 0) = false by decide]
            refine ⟨⟨dm, rm, hsplit, hdel, ?_⟩, hnd, hdone' _ (by simp)⟩
            simp only [hh]
            refine ⟨fun j hj => by simp only [upd_other _ _ _ _ hj]; exact hoth j hj, ?_⟩
            refine Or.inr ⟨some op, acc ++ f.data, suf', cur, rt, hrm, hrest, by simp [ContOK, contAdd, hc1], ?_,
              Or.inl ⟨by simp, hstream⟩⟩
            rw [← hres]
            have hn9 : ¬ (f.opcode = 9 ∨ f.opcode = 10) := by omega
            simp [msgOp, msgPayload, hn9]
          | firstLast hop hfin =>
            obtain ⟨hc1, hc2⟩ := hco
            subst hc2
            have hn : (f.opcode == 9 || f.opcode == 10) = false := by rcases hop with h | h <;> simp [h]
            simp only [hn, Bool.false_eq_true, if_false, hfin, show ((1 : Nat) != 0) = true by decide, if_true]
            have hn9 : ¬ (f.opcode = 9 ∨ f.opcode = 10) := by rcases hop with h | h <;> omega
            have hres' : deliverOf cur = (f.opcode, f.data) := by
              rw [← hres]; simp [msgOp, firstDataOp, msgPayload, hn9]
            refine ⟨⟨dm ++ [cur], rt, by rw [hsplit, hrm]; simp, ?_, ?_⟩, ?_, ?_⟩
            · simp [hdel, hres', contAdd, hc1]
            · simp only []
              refine ⟨by simpa using hstream, by first | rfl | trivial, ?_⟩
              intro j
              by_cases hj : j = i
              · subst hj; simp
              · simp only [upd_other _ _ _ _ hj]; exact hoth j hj
            · simp only [List.map_append, List.map_cons, List.map_nil]
              rw [List.nodup_append]
              refine ⟨hnd, by simp, ?_⟩
              intro a ha b hb
              simp at hb
              subst hb
              intro hab
              subst hab
              exact hnotdone ha
            · intro j
              by_cases hj : j = i
              · subst hj; simp
              · simp only [upd_other _ _ _ _ hj]
                simp only [List.map_append, List.map_cons, List.map_nil, List.mem_append, List.mem_singleton]
                rw [hdone j]
                constructor
                · intro hx; exact Or.inl hx
                · intro hx
                  rcases hx with hx | hx
                  · exact hx
                  · exact absurd hx hj
          | contLast hop hfin =>
            rename_i op
            have hc1 : s.cont = some (op, acc) := hco
            have hn : (f.opcode == 9 || f.opcode == 10) = false := by simp [hop]
            simp only [hn, Bool.false_eq_true, if_false, hfin, show ((1 : Nat) != 0) = true by decide, if_true]
            have hn9 : ¬ (f.opcode = 9 ∨ f.opcode = 10) := by omega
            have hres' : deliverOf cur = (op, acc ++ f.data) := by
              rw [← hres]; simp [msgOp, msgPayload, hn9]
            refine ⟨⟨dm ++ [cur], rt, by rw [hsplit, hrm]; simp, ?_, ?_⟩, ?_, ?_⟩
            · simp [hdel, hres', contAdd, hc1]
            · simp only []
              refine ⟨by simpa using hstream, by first | rfl | trivial, ?_⟩
              intro j
              by_cases hj : j = i
              · subst hj; simp
              · simp only [upd_other _ _ _ _ hj]; exact hoth j hj
            · simp only [List.map_append, List.map_cons, List.map_nil]
              rw [List.nodup_append]
              refine ⟨hnd, by simp, ?_⟩
              intro a ha b hb
              simp at hb
              subst hb
              intro hab
              subst hab
              exact hnotdone ha
            · intro j
              by_cases hj : j = i
              · subst hj; simp
              · simp only [upd_other _ _ _ _ hj]
                simp only [List.map_append, List.map_cons, List.map_nil, List.mem_append, List.mem_singleton]
                rw [hdone j]
                constructor
                · intro hx; exact Or.inl hx
                · intro hx
                  rcases hx with hx | hx
                  · exact hx
                  · exact absurd hx hj

theorem inv_run (msgs : List (List Frame)) (hm : ∀ fs ∈ msgs, MsgFrames none fs) (sched : List Nat) :
    ∀ s, RInv msgs s → RInv msgs (run true s sched) := by
  induction sched with
  | nil => intro s h; simpa [run] using h
  | cons a rest ih =>
    intro s h
    simp only [run, List.foldl]
    exact ih _ (inv_step msgs hm s a h)

end WS.Lemmas.Readers
