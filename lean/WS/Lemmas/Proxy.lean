/-
  WS.Lemmas.Proxy — helper lemmas for C19 beyond WS.Lemmas.NoProxy: the guards of
  `_is_no_proxy_host`, CRLF lines, decimal rendering, and `connect()` in closed form.
-/
import WS.Lemmas.NoProxy
import WS.Lemmas.B64
import WS.Model.Proxy
namespace WS.Lemmas.Proxy
open WS WS.Py WS.Lemmas.Py WS.Lemmas.NoProxy
open WS.Model.NoProxy

theorem gen_mask_bound : Gen.subnetMaskStrict = false ∧ Gen.subnetMaskBound = 32 := by decide

theorem inetAton_lt {s : Str} {n : Nat} (h : inetAton s = some n) : n < 2 ^ 32 := by
  unfold inetAton at h
  split at h
  · next a b c d _ =>
    cases ha : octet a <;> cases hb : octet b <;> cases hc : octet c <;> cases hd : octet d <;>
      simp [ha, hb, hc, hd] at h
    next va vb vc vd =>
    have bound : ∀ (s : Str) (v : Nat), octet s = some v → v ≤ 255 := by
      intro s v hv
      unfold octet at hv
      split at hv
      · split at hv
        · next hle => simp at hv; simp at hle; omega
        · simp at hv
      · simp at hv
    have := bound a va ha; have := bound b vb hb; have := bound c vc hc; have := bound d vd hd
    omega
  · simp at h

/-- `_is_subnet_address` recognises exactly the entries the Spec reads as `a/p`, `p ≤ 32`. -/
theorem isSubnet_eq_cidr (e : Str) : isSubnetAddress e = (Spec.NoProxy.cidr? e).isSome := by
  unfold isSubnetAddress Spec.NoProxy.cidr? isIpAddress maskInRange
  rw [gen_mask_bound.1, gen_mask_bound.2]
  generalize splitOn '/' e = l
  rcases l with _ | ⟨a, _ | ⟨p, _ | ⟨q, r⟩⟩⟩ <;> simp
  cases inetAton a <;> cases pyInt p <;> simp
  next n => by_cases h : n ≤ 32 <;> simp [h]

theorem cidr_mask (a p h : Nat) (hp : p ≤ 32) (hh : h < 2 ^ 32) :
    (h &&& ((0xFFFFFFFF <<< (32 - p)) &&& 0xFFFFFFFF) == a) = Spec.NoProxy.blockContains a p h := by
  rw [and_mask h (32 - p) hh (by omega)]
  unfold Spec.NoProxy.blockContains
  rw [Bool.eq_iff_iff]
  simp only [beq_iff_eq, Bool.and_eq_true]
  exact div_mul_eq_iff h a (2 ^ (32 - p)) (Nat.pow_pos (by decide))

/-- under the guards of `_is_no_proxy_host` the network test cannot fail. -/
theorem inNetwork_ok (host e : Str) (h a p : Nat) (hh : inetAton host = some h)
    (he : Spec.NoProxy.cidr? e = some (a, p)) :
    isAddressInNetwork host e = .ok (Spec.NoProxy.blockContains a p h) := by
  unfold Spec.NoProxy.cidr? at he
  unfold isAddressInNetwork
  rw [hh]
  generalize splitOn '/' e = l at he ⊢
  rcases l with _ | ⟨sa, _ | ⟨sp, _ | ⟨q, r⟩⟩⟩ <;> simp at he
  cases ha : inetAton sa <;> cases hq : pyInt sp <;> simp [ha, hq] at he
  next va vp =>
  obtain ⟨hle, rfl, rfl⟩ := he
  simp only [ha, hq, show ¬ vp > 32 by omega, if_false]
  rw [cidr_mask va vp h hle (inetAton_lt hh)]

theorem crlfLines_append (a b : Str) (h : '\r' ∉ a) :
    Spec.NoProxy.crlfLines (a ++ '\r' :: '\n' :: b) = a :: Spec.NoProxy.crlfLines b := by
  induction a with
  | nil => simp [Spec.NoProxy.crlfLines]
  | cons x xs ih =>
    have hx : x ≠ '\r' := fun e => h (by simp [e])
    have hxs : '\r' ∉ xs := fun e => h (by simp [e])
    rw [List.cons_append, Spec.NoProxy.crlfLines]
    · rw [ih hxs]; rfl
    · intros; simp_all

theorem splitOn_notin (c : Char) (s : Str) (h : c ∉ s) : splitOn c s = [s] := by
  induction s with
  | nil => rfl
  | cons x xs ih =>
    have hx : x ≠ c := fun e => h (by simp [e])
    have hxs : c ∉ xs := fun e => h (by simp [e])
    simp [splitOn, hx, ih hxs, consHead]

theorem natStr_digits (n : Nat) : ∀ c ∈ natStr n, c.isDigit = true := by
  intro c hc
  unfold natStr at hc
  rw [Nat.toList_repr] at hc
  exact Nat.isDigit_of_mem_toDigits (by decide) (by decide) hc

open WS.Model.Proxy in
/-- the whole of `connect()` once the URL parsed, a decision was taken and a socket was opened. -/
theorem connect_eq (v6ok : Str → Bool) (url : Str) (timeout : Nat) (sockopt : List String)
    (p : ProxyInfo) (env : Env) (w : World) (t : Net.Target) (c : Choice) (o : Net.Outcome)
    (outs : List Net.Outcome) (i : Nat) (evs : List Net.Ev)
    (hp : Model.Url.parseUrl v6ok url = .ok t) (hc : getProxyInfo v6ok t.host t.secure p env = .ok c)
    (ha : w.addrs = some (o :: outs))
    (hd : Model.OpenSocket.openSocket timeout sockopt (o :: outs) = (.ok i, evs)) :
    connect v6ok url timeout sockopt p env w =
      let tgt := addrTarget t.host t.port c
      let tr := CEv.resolve tgt.1 tgt.2.1 :: evs.map .sock
      if tgt.2.2 then
        match tunnel w.proxyReply with
        | .error e => (.error e, tr ++ [.send i (tunnelRequest t.host t.port c.auth)] ++ [.sock (.close i)])
        | .ok () =>
          (.ok (i, t), tr ++ [.send i (tunnelRequest t.host t.port c.auth)]
            ++ (if t.secure then [.tls i t.host] else []))
      else (.ok (i, t), tr ++ (if t.secure then [.tls i t.host] else [])) := by
  unfold connect
  simp only [hp, hc, ha, hd]
  rcases hat : addrTarget t.host t.port c with ⟨rh, rp, nt⟩
  cases nt
  · cases hs : t.secure <;> simp
  · simp only [if_true]
    cases ht : tunnel w.proxyReply with
    | error e => simp
    | ok u => cases hs : t.secure <;> simp

end WS.Lemmas.Proxy
