/-
  WS.Lemmas.ShortWrites — the `while data: l = self._send(data); data = data[l:]` loop puts exactly
  `data` on the wire, for every short-write pattern.
-/
import WS.Model.Conn
namespace WS.Lemmas.ShortWrites
open WS WS.Model

/-- a socket that is open and whose writes do not fail (short writes allowed). -/
def Writable (c : Conn) : Prop := c.hasSock = true ∧ c.sock.closed = false ∧ c.sock.sendFailAt = none

theorem sock_send_ok (s : Sock) (data : Bytes) (h2 : s.closed = false) (h3 : s.sendFailAt = none) (hne : data ≠ []) :
    ∃ n s', s.send data = (.accepted n, s') ∧ 1 ≤ n ∧ n ≤ data.length ∧
      s'.wire = s.wire ++ data.take n ∧ s'.closed = false ∧ s'.sendFailAt = none := by
  have hl : 0 < data.length := by
    cases data with
    | nil => exact absurd rfl hne
    | cons a b => simp
  have hemp : data.isEmpty = false := by
    cases data with
    | nil => exact absurd rfl hne
    | cons a b => rfl
  unfold Sock.send
  simp only [h2, h3, hemp]
  by_cases ha : s.accepts.isEmpty = true
  · simp only [ha]
    exact ⟨_, _, rfl, by simp; omega, by simp, by simp [Sock.wire], by simp [h2], by simp [h3]⟩
  · simp only [ha]
    exact ⟨_, _, rfl, by simp; omega, by simp; omega, by simp [Sock.wire], by simp [h2], by simp [h3]⟩

theorem sockSend_writable (c : Conn) (data : Bytes) (hw : Writable c) (hne : data ≠ []) :
    ∃ n c', c.sockSend data = (.ok n, c') ∧ 1 ≤ n ∧ n ≤ data.length ∧
      c'.sock.wire = c.sock.wire ++ data.take n ∧ Writable c' := by
  obtain ⟨h1, h2, h3⟩ := hw
  obtain ⟨n, s', hs, a, b, cc, d, e⟩ := sock_send_ok c.sock data h2 h3 hne
  unfold Conn.sockSend
  simp only [h1, hs]
  exact ⟨n, _, rfl, a, b, cc, by simp [Writable, h1, d, e]⟩

theorem sendLoop_writes_all (fuel : Nat) : ∀ (c : Conn) (data : Bytes), Writable c → data.length < fuel →
    ∃ c', Conn.sendLoop fuel c data = (none, c') ∧ c'.sock.wire = c.sock.wire ++ data ∧ Writable c' := by
  induction fuel with
  | zero => intro c data _ h; omega
  | succ f ih =>
    intro c data hw hlen
    unfold Conn.sendLoop
    by_cases he : data.isEmpty
    · have : data = [] := by simpa using he
      subst this
      exact ⟨c, by simp, by simp, hw⟩
    · have hne : data ≠ [] := by
        intro h; subst h; simp at he
      obtain ⟨n, c1, hs, hn1, hn2, hwire, hw1⟩ := sockSend_writable c data hw hne
      simp only [he, hs]
      have hdl : (data.drop n).length < f := by simp; omega
      obtain ⟨c2, h2, hwire2, hw2⟩ := ih c1 (data.drop n) hw1 hdl
      refine ⟨c2, by simpa using h2, ?_, hw2⟩
      rw [hwire2, hwire, List.append_assoc, List.take_append_drop]

end WS.Lemmas.ShortWrites
