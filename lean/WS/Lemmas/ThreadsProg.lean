/-
  WS.Lemmas.ThreadsProg — the interleaving invariant of threads that each send a sequence of frames.
-/
import WS.Model.ThreadsProg
namespace WS.Lemmas.ThreadsProg
open WS WS.Model.ThreadsProg

theorem played_snoc (prog : Nat → List Bytes) (order : List Nat) (i : Nat) :
    played prog (order ++ [i]) = consume (played prog order) i := by
  simp [played, List.foldl_append]

theorem foldl_consume_left (order : List Nat) (i : Nat) :
    ∀ (rem : Nat → List Bytes) (out : List Bytes),
      (order.foldl consume (rem, out)).1 i = (rem i).drop (order.count i) := by
  induction order with
  | nil => intro rem out; simp
  | cons a rest ih =>
    intro rem out
    simp only [List.foldl]
    by_cases hia : a = i
    · subst hia
      simp only [List.count_cons_self]
      cases hl : rem a with
      | nil =>
        have : consume (rem, out) a = (rem, out) := by simp [consume, hl]
        rw [this, ih, hl]; simp
      | cons f fs =>
        have : consume (rem, out) a = (upd rem a fs, out ++ [f]) := by simp [consume, hl]
        rw [this, ih]; simp
    · have hc : (a :: rest).count i = rest.count i := by simp [List.count_cons, hia]
      rw [hc]
      cases hl : rem a with
      | nil =>
        have : consume (rem, out) a = (rem, out) := by simp [consume, hl]
        rw [this, ih]
      | cons f fs =>
        have : consume (rem, out) a = (upd rem a fs, out ++ [f]) := by simp [consume, hl]
        rw [this, ih, upd_other _ _ _ _ (Ne.symm hia)]

/-- what a thread still has to send after `order` is its program minus as many frames as it completed. -/
theorem played_left (prog : Nat → List Bytes) (order : List Nat) (i : Nat) :
    (played prog order).1 i = (prog i).drop (order.count i) :=
  foldl_consume_left order i prog []

structure PInv (prog : Nat → List Bytes) (s : St) : Prop where
  leftOk : s.left = (played prog s.order).1
  free : s.holder = none → s.wire = (played prog s.order).2.flatten ∧ ∀ i r, s.pc i ≠ .writing r
  held : ∀ h, s.holder = some h → ∃ f fs pre rest, s.left h = f :: fs ∧ s.pc h = .writing rest ∧ f = pre ++ rest ∧
            s.wire = (played prog s.order).2.flatten ++ pre ∧ ∀ j, j ≠ h → ∀ r, s.pc j ≠ .writing r

theorem inv_init (prog : Nat → List Bytes) : PInv prog (init prog) := by
  constructor
  · simp [init, played]
  · intro _
    refine ⟨by simp [init, played], ?_⟩
    intro i r
    simp only [init]
    split <;> simp
  · intro h hh; simp [init] at hh

theorem inv_step (prog : Nat → List Bytes) (acc : Nat → Nat) (s : St) (i : Nat)
    (h : PInv prog s) : PInv prog (step true acc s i) := by
  unfold step
  cases hpc : s.pc i with
  | done => simpa using h
  | released =>
    simp only []
    refine ⟨h.leftOk, ?_, ?_⟩
    · intro hh
      obtain ⟨hw, hnw⟩ := h.free hh
      refine ⟨hw, ?_⟩
      intro j r
      by_cases hj : j = i
      · subst hj; simp only [upd_same]; split <;> simp
      · simp only [upd_other _ _ _ _ hj]; exact hnw j r
    · intro o ho
      obtain ⟨f, fs, pre, rest, hl, hp, hf, hw, hoth⟩ := h.held o ho
      have hoi : o ≠ i := by
        intro e; subst e; rw [hpc] at hp; cases hp
      refine ⟨f, fs, pre, rest, hl, ?_, hf, hw, ?_⟩
      · simp only [upd_other _ _ _ _ hoi]; exact hp
      · intro j hj r
        by_cases hji : j = i
        · subst hji; simp only [upd_same]; split <;> simp
        · simp only [upd_other _ _ _ _ hji]; exact hoth j hj r
  | ready =>
    simp only []
    cases hl : s.left i with
    | nil => simpa using h
    | cons f fs =>
      simp only [if_true]
      cases hh : s.holder with
      | some o => simpa [hh] using h
      | none =>
        simp only []
        obtain ⟨hw, hnw⟩ := h.free hh
        refine ⟨h.leftOk, ?_, ?_⟩
        · intro hc; simp at hc
        · intro o ho
          simp at ho
          subst ho
          refine ⟨f, fs, [], f, hl, by simp, by simp, by simpa using hw, ?_⟩
          intro j hj r
          simp only [upd_other _ _ _ _ hj]
          exact hnw j r
  | writing rest =>
    simp only []
    have hhold : s.holder = some i := by
      cases hh : s.holder with
      | none => exact absurd hpc ((h.free hh).2 i rest)
      | some o =>
        obtain ⟨_, _, _, _, _, _, _, _, hoth⟩ := h.held o hh
        by_cases ho : i = o
        · subst ho; rfl
        · exact absurd hpc (hoth i ho rest)
    obtain ⟨f, fs, pre, r', hl, hpi, hfr, hw, hoth⟩ := h.held i hhold
    rw [hpc] at hpi
    injection hpi with hpi
    subst hpi
    by_cases hemp : rest.isEmpty
    · simp only [hemp, if_true]
      have hre : rest = [] := by simpa using hemp
      subst hre
      have hpl : (played prog s.order).1 i = f :: fs := by rw [← h.leftOk]; exact hl
      have hsn : played prog (s.order ++ [i]) = (upd (played prog s.order).1 i fs, (played prog s.order).2 ++ [f]) := by
        rw [played_snoc]; unfold consume; rw [hpl]
      refine ⟨?_, ?_, ?_⟩
      · simp only []
        rw [hsn, hl, h.leftOk]
        rfl
      · intro _
        refine ⟨?_, ?_⟩
        · simp only []
          rw [hsn]
          simp at hfr
          simp [hw, hfr]
        · intro j r
          by_cases hj : j = i
          · subst hj; simp
          · simp only [upd_other _ _ _ _ hj]; exact hoth j hj r
      · intro o ho; simp at ho
    · simp only [hemp]
      simp only [Bool.false_eq_true, if_false]
      refine ⟨h.leftOk, ?_, ?_⟩
      · intro hc; simp [hhold] at hc
      · intro o ho
        simp [hhold] at ho
        subst ho
        refine ⟨f, fs, pre ++ rest.take (clip acc s.k rest.length), rest.drop (clip acc s.k rest.length), hl, by simp, ?_, ?_, ?_⟩
        · rw [hfr, List.append_assoc, List.take_append_drop]
        · simp [hw, List.append_assoc]
        · intro j hj r
          simp only [upd_other _ _ _ _ hj]
          exact hoth j hj r

theorem inv_run (prog : Nat → List Bytes) (acc : Nat → Nat) (sched : List Nat) :
    ∀ s, PInv prog s → PInv prog (run true acc s sched) := by
  induction sched with
  | nil => intro s h; simpa [run] using h
  | cons i rest ih =>
    intro s h
    simp only [run, List.foldl]
    exact ih _ (inv_step prog acc s i h)

end WS.Lemmas.ThreadsProg
