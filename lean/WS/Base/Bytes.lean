/-
  WS.Base.Bytes — byte strings, hex, big-endian integers, payload generator, FNV hash.
  No Mathlib. Everything total and computable.
-/
namespace WS

abbrev Bytes := List UInt8

/-- canonical exception classes (DESIGN §3.2). `internal k` = a Python-level failure
    (IndexError, KeyError, ValueError, UnicodeDecodeError, struct.error, AttributeError …). -/
inductive Exn where
  | proto | payload | closed | timeout | badstatus (n : Nat) | wsgeneric | proxy | address
  | valueError | transport | internal (k : String)
  deriving Repr, DecidableEq, Inhabited

def Exn.toStr : Exn → String
  | .proto => "PROTO" | .payload => "PAYLOAD" | .closed => "CLOSED" | .timeout => "TIMEOUT"
  | .badstatus n => s!"BADSTATUS({n})" | .wsgeneric => "WSGENERIC" | .proxy => "PROXY"
  | .address => "ADDRESS" | .valueError => "VALUEERROR" | .transport => "TRANSPORT"
  | .internal k => s!"INTERNAL({k})"

/-! ### hex -/

def hexDigit (n : Nat) : Char :=
  if n < 10 then Char.ofNat (48 + n) else Char.ofNat (87 + n)

def hexOfByte (b : UInt8) : List Char :=
  [hexDigit (b.toNat / 16), hexDigit (b.toNat % 16)]

def toHex (bs : Bytes) : String :=
  String.ofList (bs.flatMap hexOfByte)

def hexVal (c : Char) : Option Nat :=
  if '0' ≤ c ∧ c ≤ '9' then some (c.toNat - 48)
  else if 'a' ≤ c ∧ c ≤ 'f' then some (c.toNat - 87)
  else if 'A' ≤ c ∧ c ≤ 'F' then some (c.toNat - 55)
  else none

def ofHexChars : List Char → Option Bytes
  | [] => some []
  | [_] => none
  | a :: b :: rest =>
    match hexVal a, hexVal b, ofHexChars rest with
    | some x, some y, some r => some (UInt8.ofNat (16 * x + y) :: r)
    | _, _, _ => none

def ofHex (s : String) : Option Bytes := ofHexChars s.toList

/-! ### big-endian -/

/-- `k`-byte big-endian encoding of `n` (truncating, like `struct.pack` after its range check). -/
def beN : Nat → Nat → Bytes
  | 0, _ => []
  | k + 1, n => UInt8.ofNat (n / 256 ^ k) :: beN k (n % 256 ^ k)

/-- big-endian value of a byte string (`struct.unpack("!H"/"!Q")`, `int.from_bytes(…, "big")`). -/
def unbe (bs : Bytes) : Nat := bs.foldl (fun acc b => acc * 256 + b.toNat) 0

/-! ### deterministic payload generator shared with the Python harness
    `b[i] = (31·seed + 131·i + ⌊i/256⌋) mod 256` -/

def genByte (seed i : Nat) : UInt8 := UInt8.ofNat ((31 * seed + 131 * i + i / 256) % 256)

def genBytes (len seed : Nat) : Bytes := (List.range len).map (genByte seed)

/-! ### 64-bit FNV-1a, for comparing long outputs -/

def fnv1a (bs : Bytes) : Nat :=
  bs.foldl (fun h b => ((h ^^^ b.toNat) * 1099511628211) % 18446744073709551616) 14695981039346656037

/-- canonical short rendering of a possibly long byte string:
    full hex up to 64 bytes, else `len:fnv:first32:last32`. -/
def summarize (bs : Bytes) : String :=
  if bs.length ≤ 64 then "h" ++ toHex bs
  else s!"L{bs.length}:{fnv1a bs}:{toHex (bs.take 32)}:{toHex (bs.drop (bs.length - 32))}"

end WS
