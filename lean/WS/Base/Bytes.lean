/-
  WS.Base.Bytes — byte strings, hex, big-endian integers, payload generator, FNV hash.
  No Mathlib. Everything total and computable.
-/
namespace WS

abbrev Bytes := List UInt8

/-- canonical exception classes (DESIGN §3.2). `internal k` = a Python-level failure
    (IndexError, KeyError, ValueError, UnicodeDecodeError, struct.error, AttributeError …). -/
inductive Exn where
  | proto | payload | closed | timeout | badstatus (n : Nat) | wsgeneric | proxy | address
  | valueError | transport | internal (k : String)
  deriving Repr, DecidableEq, Inhabited

def Exn.toStr : Exn → String
  | .proto => "PROTO" | .payload => "PAYLOAD" | .closed => "CLOSED" | .timeout => "TIMEOUT"
  | .badstatus n => s!"BADSTATUS({n})" | .wsgeneric => "WSGENERIC" | .proxy => "PROXY"
  | .address => "ADDRESS" | .valueError => "VALUEERROR" | .transport => "TRANSPORT"
  | .internal k => s!"INTERNAL({k})"

/-! ### hex -/

def hexDigit (n : Nat) : Char :=
  if n < 10 then Char.ofNat (48 + n) else Char.ofNat (87 + n)

def hexOfByte (b : UInt8) : List Char :=
  [hexDigit (b.toNat / 16), hexDigit (b.toNat % 16)]

def toHex (bs : Bytes) : String :=
  String.ofList (bs.flatMap hexOfByte)

def hexVal (c : Char) : Option Nat :=
  if '0' ≤ c ∧ c ≤ '9' then some (c.toNat - 48)
  else if 'a' ≤ c ∧ c ≤ 'f' then some (c.toNat - 87)
  else if 'A' ≤ c ∧ c ≤ 'F' then some (c.toNat - 55)
  else none

def ofHexChars : List Char → Option Bytes
  | [] => some []
  | [_] => none
  | a :: b :: rest =>
    match hexVal a, hexVal b, ofHexChars rest with
    | some x, some y, some r => some (UInt8.ofNat (16 * x + y) :: r)
    | _, _, _ => none

def hexValB (c : UInt8) : Option UInt8 :=
  if 48 ≤ c && c ≤ 57 then some (c - 48)
  else if 97 ≤ c && c ≤ 102 then some (c - 87)
  else if 65 ≤ c && c ≤ 70 then some (c - 55)
  else none

/-- fast hex parser (works on the UTF-8 bytes, builds the list from the end). -/
def ofHexFast (s : String) : Option Bytes :=
  let ba := s.toUTF8
  if ba.size % 2 != 0 then none else
  let rec go (i : Nat) (acc : Bytes) : Option Bytes :=
    match i with
    | 0 => some acc
    | k + 1 =>
      match hexValB (ba.get! (2 * k)), hexValB (ba.get! (2 * k + 1)) with
      | some x, some y => go k ((x * 16 + y) :: acc)
      | _, _ => none
  go (ba.size / 2) []

def ofHex (s : String) : Option Bytes := ofHexFast s

/-! ### big-endian -/

/-- `k`-byte big-endian encoding of `n` (truncating, like `struct.pack` after its range check). -/
def beN : Nat → Nat → Bytes
  | 0, _ => []
  | k + 1, n => UInt8.ofNat (n / 256 ^ k) :: beN k (n % 256 ^ k)

/-- big-endian value of a byte string (`struct.unpack("!H"/"!Q")`, `int.from_bytes(…, "big")`). -/
def unbe (bs : Bytes) : Nat := bs.foldl (fun acc b => acc * 256 + b.toNat) 0

/-! ### deterministic payload generator shared with the Python harness
    `b[i] = (31·seed + 131·i + ⌊i/256⌋) mod 256` -/

def genByte (seed i : Nat) : UInt8 := UInt8.ofNat ((31 * seed + 131 * i + i / 256) % 256)

def genBytes (len seed : Nat) : Bytes := (List.range len).map (genByte seed)

/-! ### CRC-32 (IEEE, as `zlib.crc32`), for comparing long outputs -/

def crcTableEntry (n : Nat) : UInt32 :=
  (List.range 8).foldl (fun (c : UInt32) _ => if c &&& 1 == 1 then (c >>> 1) ^^^ 0xEDB88320 else c >>> 1) (UInt32.ofNat n)

def crcTable : Array UInt32 := (Array.range 256).map crcTableEntry

def crc32 (bs : Bytes) : Nat :=
  ((bs.foldl (fun (c : UInt32) b => crcTable[((c ^^^ b.toUInt32) &&& 0xFF).toNat]! ^^^ (c >>> 8)) 0xFFFFFFFF) ^^^ 0xFFFFFFFF).toNat

/-- canonical short rendering of a possibly long byte string:
    full hex up to 64 bytes, else `len:crc32:first32:last32`. -/
def summarize (bs : Bytes) : String :=
  if bs.length ≤ 64 then "h" ++ toHex bs
  else s!"L{bs.length}:{crc32 bs}:{toHex (bs.take 32)}:{toHex (bs.drop (bs.length - 32))}"

end WS
