/-
  WS.Base.Base64 — RFC 4648 §4 base64 (standard alphabet, `=` padding, no line breaks),
  written in Lean; equality with Python's `base64` is tested by the harness on every run,
  `decode (encode bs) = some bs` is proved for all `bs` in WS.Lemmas.Base64.
  No Mathlib.
-/
import WS.Base.Bytes
namespace WS.Base64

/-- the alphabet: value (0…63) → character. -/
def b64Char (n : Nat) : Char :=
  if n < 26 then Char.ofNat (65 + n)
  else if n < 52 then Char.ofNat (71 + n)        -- 'a' = 97 = 71 + 26
  else if n < 62 then Char.ofNat (n - 4)         -- '0' = 48 = 52 - 4
  else if n = 62 then '+' else '/'

/-- character → value. -/
def b64Val (c : Char) : Option Nat :=
  let n := c.toNat
  if 65 ≤ n ∧ n ≤ 90 then some (n - 65)
  else if 97 ≤ n ∧ n ≤ 122 then some (n - 71)
  else if 48 ≤ n ∧ n ≤ 57 then some (n + 4)
  else if c = '+' then some 62
  else if c = '/' then some 63
  else none

/-- `base64.b64encode` -/
def encode : Bytes → List Char
  | [] => []
  | [a] => [b64Char (a.toNat / 4), b64Char (a.toNat % 4 * 16), '=', '=']
  | [a, b] => [b64Char (a.toNat / 4), b64Char (a.toNat % 4 * 16 + b.toNat / 16),
               b64Char (b.toNat % 16 * 4), '=']
  | a :: b :: c :: rest =>
    b64Char (a.toNat / 4) :: b64Char (a.toNat % 4 * 16 + b.toNat / 16) ::
    b64Char (b.toNat % 16 * 4 + c.toNat / 64) :: b64Char (c.toNat % 64) :: encode rest

/-- strict decoder: groups of four, padding only in the last group, canonical padding bits. -/
def decode : List Char → Option Bytes
  | [] => some []
  | [w, x, y, z] =>
    if y = '=' ∧ z = '=' then
      match b64Val w, b64Val x with
      | some p, some q => if q % 16 = 0 then some [UInt8.ofNat (p * 4 + q / 16)] else none
      | _, _ => none
    else if z = '=' then
      match b64Val w, b64Val x, b64Val y with
      | some p, some q, some r =>
        if r % 4 = 0 then some [UInt8.ofNat (p * 4 + q / 16), UInt8.ofNat (q % 16 * 16 + r / 4)]
        else none
      | _, _, _ => none
    else
      match b64Val w, b64Val x, b64Val y, b64Val z with
      | some p, some q, some r, some s =>
        some [UInt8.ofNat (p * 4 + q / 16), UInt8.ofNat (q % 16 * 16 + r / 4),
              UInt8.ofNat (r % 4 * 64 + s)]
      | _, _, _, _ => none
  | w :: x :: y :: z :: rest =>
    match b64Val w, b64Val x, b64Val y, b64Val z, decode rest with
    | some p, some q, some r, some s, some tl =>
      some (UInt8.ofNat (p * 4 + q / 16) :: UInt8.ofNat (q % 16 * 16 + r / 4) ::
            UInt8.ofNat (r % 4 * 64 + s) :: tl)
    | _, _, _, _, _ => none
  | _ => none

end WS.Base64
