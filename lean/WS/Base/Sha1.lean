/-
  WS.Base.Sha1 — SHA-1 (FIPS 180-4) written in Lean, used by the driver to instantiate the
  `acceptOf` parameter of the handshake model.  Equality with `hashlib.sha1` is tested by the
  harness on every run (not proved); no theorem depends on the digest function beyond
  what is stated as a hypothesis (C09_key_binding: injectivity on the keys drawn).
  No Mathlib.
-/
import WS.Base.Bytes
namespace WS.Sha1

def rotl (x : UInt32) (n : UInt32) : UInt32 := (x <<< n) ||| (x >>> (32 - n))

/-- message ++ 0x80 ++ zeros ++ 64-bit big-endian bit length, a multiple of 64 bytes. -/
def pad (msg : Bytes) : Bytes :=
  let l := msg.length
  let k := (119 - l % 64) % 64          -- zeros so that l + 1 + k ≡ 56 (mod 64)
  msg ++ [0x80] ++ List.replicate k 0 ++ beN 8 (8 * l)

def word (a b c d : UInt8) : UInt32 :=
  (a.toUInt32 <<< 24) ||| (b.toUInt32 <<< 16) ||| (c.toUInt32 <<< 8) ||| d.toUInt32

def wordsOf : Bytes → List UInt32
  | a :: b :: c :: d :: rest => word a b c d :: wordsOf rest
  | _ => []

/-- extend 16 words to 80: `w[t] = rotl1 (w[t-3] ^ w[t-8] ^ w[t-14] ^ w[t-16])`.
    `ws` holds the schedule so far in reverse order. -/
def extend : Nat → List UInt32 → List UInt32
  | 0, ws => ws
  | n + 1, ws =>
    let g (i : Nat) : UInt32 := ws.getD i 0
    extend n (rotl (g 2 ^^^ g 7 ^^^ g 13 ^^^ g 15) 1 :: ws)

structure St where
  a : UInt32
  b : UInt32
  c : UInt32
  d : UInt32
  e : UInt32

def round (t : Nat) (s : St) (w : UInt32) : St :=
  let (f, k) :=
    if t < 20 then ((s.b &&& s.c) ||| ((~~~ s.b) &&& s.d), (0x5A827999 : UInt32))
    else if t < 40 then (s.b ^^^ s.c ^^^ s.d, (0x6ED9EBA1 : UInt32))
    else if t < 60 then ((s.b &&& s.c) ||| (s.b &&& s.d) ||| (s.c &&& s.d), (0x8F1BBCDC : UInt32))
    else (s.b ^^^ s.c ^^^ s.d, (0xCA62C1D6 : UInt32))
  ⟨rotl s.a 5 + f + s.e + k + w, s.a, rotl s.b 30, s.c, s.d⟩

def rounds : Nat → St → List UInt32 → St
  | _, s, [] => s
  | t, s, w :: ws => rounds (t + 1) (round t s w) ws

def block (h : St) (blk : List UInt32) : St :=
  let sched := (extend 64 blk.reverse).reverse
  let r := rounds 0 h sched
  ⟨h.a + r.a, h.b + r.b, h.c + r.c, h.d + r.d, h.e + r.e⟩

def blocks : Nat → St → List UInt32 → St
  | 0, h, _ => h
  | n + 1, h, ws => blocks n (block h (ws.take 16)) (ws.drop 16)

def bytesOfWord (w : UInt32) : Bytes :=
  [(w >>> 24).toUInt8, (w >>> 16).toUInt8, (w >>> 8).toUInt8, w.toUInt8]

/-- `hashlib.sha1(msg).digest()` -/
def sha1 (msg : Bytes) : Bytes :=
  let ws := wordsOf (pad msg)
  let h := blocks (ws.length / 16) ⟨0x67452301, 0xEFCDAB89, 0x98BADCFE, 0x10325476, 0xC3D2E1F0⟩ ws
  bytesOfWord h.a ++ bytesOfWord h.b ++ bytesOfWord h.c ++ bytesOfWord h.d ++ bytesOfWord h.e

end WS.Sha1
