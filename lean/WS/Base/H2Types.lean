/-
  WS.Base.H2Types — the vocabulary shared by the Specs and the Models of the handshake side:
  the caller's options (what `connect(url, **options)` and `sslopt` may contain), the parts of
  a URL, the verification policy of a TLS context.  Types only.
-/
import WS.Base.PyH2
import WS.Base.Bytes
namespace WS.H2
open WS WS.PyH2

/-- result of `parse_url` -/
structure UrlParts where
  host : Str
  port : Nat
  resource : Str
  secure : Bool
  deriving Repr, DecidableEq, Inhabited

/-- the `header` option: absent/None, a list of ready-made lines, or a dict (values may be None). -/
inductive HeaderOpt where
  | absent
  | list (l : List Str)
  | dict (d : List (Str × Option Str))
  deriving Repr, DecidableEq, Inhabited

/-- handshake-relevant keyword options of `WebSocket.connect`. `none` = absent or `None`. -/
structure Opts where
  host : Option Str := none
  origin : Option Str := none
  suppressOrigin : Bool := false
  header : HeaderOpt := .absent
  connection : Option Str := none
  subprotocols : List Str := []
  cookie : Option Str := none
  deriving Repr, DecidableEq, Inhabited

/-- `ssl.CERT_NONE / CERT_OPTIONAL / CERT_REQUIRED` -/
inductive CertReqs where
  | none | optional | required
  deriving Repr, DecidableEq, Inhabited

/-- the documented `sslopt` keys that bear on authentication. `none` = key absent (or None). -/
structure SslOpt where
  certReqs : Option CertReqs := none
  checkHostname : Option Bool := none
  caCerts : Option Str := none
  caCertPath : Option Str := none
  serverHostname : Option Str := none
  context : Option Nat := none          -- an `ssl.SSLContext` made by the caller (opaque)
  legacy : Bool := false                -- `ssl_version` names a protocol constant other than PROTOCOL_TLS_CLIENT
  deriving Repr, DecidableEq, Inhabited

/-- `WEBSOCKET_CLIENT_CA_BUNDLE` and what the file system says about it. -/
structure TlsEnv where
  bundle : Option Str := none
  isFile : Bool := false
  isDir : Bool := false
  deriving Repr, DecidableEq, Inhabited

/-- where the trust anchors of a context come from. -/
inductive CaSource where
  | unset                                   -- nothing loaded (no verification requested)
  | default                                 -- `load_default_certs(SERVER_AUTH)`
  | locations (cafile capath : Option Str)  -- `load_verify_locations`
  deriving Repr, DecidableEq, Inhabited

/-- the authentication policy a connection ends up with. -/
inductive Policy where
  | fresh (verify : CertReqs) (checkHostname : Bool) (ca : CaSource) (sni : Str)
  | user (ctx : Nat) (sni : Str)            -- the caller's context, used as it is
  deriving Repr, DecidableEq, Inhabited

/-- reads and writes on one transport, in order. -/
inductive IoEv where
  | write (bs : Bytes)
  | recv (n : Nat)            -- size asked of the transport
  deriving Repr, DecidableEq, Inhabited

/-- the transport-level actions of one `WebSocket.connect`, on one timeline; `i` numbers the
    `_http.connect` calls. -/
inductive Ev where
  | dial (i : Nat) (u : UrlParts)        -- a TCP connection was opened (for the URL with parts `u`)
  | adopt (i : Nat) (u : UrlParts)       -- the caller's pre-initialised socket is used
  | plain (i : Nat) (e : IoEv)           -- CONNECT exchange with the proxy
  | wrap (i : Nat) (p : Policy) (ok : Bool)
  | io (i : Nat) (e : IoEv)              -- the WebSocket handshake
  | close (i : Nat)
  deriving Repr, DecidableEq, Inhabited

end WS.H2
