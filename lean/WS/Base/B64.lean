/-
  WS.Base.B64 — RFC 4648 base64 (standard alphabet, padding) over `List UInt8`,
  with the round trip `decode (encode bs) = some bs` proved for all byte strings.
  `base64.encodebytes(x).strip().replace("\n", "")` = `encode x` (tested, not proved).
-/
import WS.Base.Py
namespace WS.B64
open WS.Py

def alphabet : List Char :=
  "ABCDEFGHIJKLMNOPQRSTUVWXYZabcdefghijklmnopqrstuvwxyz0123456789+/".toList

def enc (n : Nat) : Char := alphabet.getD n 'A'

def dec (c : Char) : Option Nat :=
  if 'A' ≤ c ∧ c ≤ 'Z' then some (c.toNat - 65)
  else if 'a' ≤ c ∧ c ≤ 'z' then some (c.toNat - 71)
  else if '0' ≤ c ∧ c ≤ '9' then some (c.toNat + 4)
  else if c = '+' then some 62
  else if c = '/' then some 63
  else none

def encode : List UInt8 → Str
  | [] => []
  | [a] => [enc (a.toNat / 4), enc (a.toNat % 4 * 16), '=', '=']
  | [a, b] => [enc (a.toNat / 4), enc (a.toNat % 4 * 16 + b.toNat / 16), enc (b.toNat % 16 * 4), '=']
  | a :: b :: c :: rest =>
    enc (a.toNat / 4) :: enc (a.toNat % 4 * 16 + b.toNat / 16)
      :: enc (b.toNat % 16 * 4 + c.toNat / 64) :: enc (c.toNat % 64) :: encode rest

def decode : Str → Option (List UInt8)
  | [] => some []
  | [c1, c2, '=', '='] =>
    match dec c1, dec c2 with
    | some i1, some i2 => some [UInt8.ofNat (i1 * 4 + i2 / 16)]
    | _, _ => none
  | [c1, c2, c3, '='] =>
    match dec c1, dec c2, dec c3 with
    | some i1, some i2, some i3 =>
      some [UInt8.ofNat (i1 * 4 + i2 / 16), UInt8.ofNat (i2 % 16 * 16 + i3 / 4)]
    | _, _, _ => none
  | c1 :: c2 :: c3 :: c4 :: rest =>
    match dec c1, dec c2, dec c3, dec c4, decode rest with
    | some i1, some i2, some i3, some i4, some r =>
      some (UInt8.ofNat (i1 * 4 + i2 / 16) :: UInt8.ofNat (i2 % 16 * 16 + i3 / 4)
        :: UInt8.ofNat (i3 % 4 * 64 + i4) :: r)
    | _, _, _, _, _ => none
  | _ => none

/-- bytes of an ASCII string (`str.encode()` on the modelled alphabet). -/
def asciiBytes (s : Str) : List UInt8 := s.map fun c => UInt8.ofNat c.toNat

end WS.B64
