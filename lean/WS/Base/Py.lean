/-
  WS.Base.Py — the Python `str` operations the handshake-side code uses, over `List Char`.
  No Mathlib.  Everything total, structural and computable (the driver links it).

  Trusted reading of CPython (exercised by the correspondence runs only):
    s.split(c)         = splitOn c s            (single-character separator)
    s.partition(c)     = partition c s
    s.rpartition(c)    = rpartition c s
    c.join(parts)      = joinWith c parts
    s.lower()          = lower s                (ASCII letters only — the modelled alphabet is ASCII)
    s.startswith(p)    = p.isPrefixOf s         s.endswith(p) = p.isSuffixOf s
    s.lstrip('.')      = lstripChar '.' s       s.replace(" ", "") = removeChar ' ' s
    int(s)             = pyInt s                (non-empty ASCII digit strings only; signs, `_`,
                                                 blanks, non-ASCII digits are outside the alphabet)
    s.strip()          = strip s                (ASCII white space)
    socket.inet_aton   = inetAton               (canonical dotted quads only, see `inetModelled`)
-/
namespace WS.Py

abbrev Str := List Char

def ofS (s : String) : Str := s.toList
def toS (s : Str) : String := String.ofList s

/-! ### splitting and joining -/

/-- put `x` in front of the first piece. -/
def consHead (x : Char) : List Str → List Str
  | [] => [[x]]
  | p :: ps => (x :: p) :: ps

/-- `s.split(c)`: never empty; `"".split(c) = [""]`. -/
def splitOn (c : Char) : Str → List Str
  | [] => [[]]
  | x :: xs => if x = c then [] :: splitOn c xs else consHead x (splitOn c xs)

/-- `c.join(parts)` -/
def joinWith (c : Char) : List Str → Str
  | [] => []
  | [p] => p
  | p :: q :: r => p ++ c :: joinWith c (q :: r)

/-- `sep.join(parts)` for a string separator. -/
def joinStr (sep : Str) : List Str → Str
  | [] => []
  | [p] => p
  | p :: q :: r => p ++ sep ++ joinStr sep (q :: r)

/-- `s.partition(c)` → (before, separator found, after). -/
def partition (c : Char) (s : Str) : Str × Bool × Str :=
  let a := s.takeWhile (· != c)
  match s.dropWhile (· != c) with
  | [] => (a, false, [])
  | _ :: b => (a, true, b)

/-- `s.rpartition(c)` → (before, separator found, after); not found = ("", false, s). -/
def rpartition (c : Char) (s : Str) : Str × Bool × Str :=
  let (b', f, a') := partition c s.reverse
  if f then (a'.reverse, true, b'.reverse) else ([], false, s)

/-- `s.split(c, 1)` → (head, some tail) or (s, none). -/
def split1 (c : Char) (s : Str) : Str × Option Str :=
  match partition c s with
  | (a, true, b) => (a, some b)
  | (a, false, _) => (a, none)

/-! ### characters -/

def isUpperC (c : Char) : Bool := 'A' ≤ c && c ≤ 'Z'
def isLowerC (c : Char) : Bool := 'a' ≤ c && c ≤ 'z'
def isDigitC (c : Char) : Bool := '0' ≤ c && c ≤ '9'
def isAlphaC (c : Char) : Bool := isUpperC c || isLowerC c
def isHexC (c : Char) : Bool := isDigitC c || ('a' ≤ c && c ≤ 'f') || ('A' ≤ c && c ≤ 'F')

def lowerC (c : Char) : Char := if isUpperC c then Char.ofNat (c.toNat + 32) else c

/-- `s.lower()` on ASCII. -/
def lower (s : Str) : Str := s.map lowerC

def lstripChar (c : Char) (s : Str) : Str := s.dropWhile (· == c)
def removeChar (c : Char) (s : Str) : Str := s.filter (· != c)

/-- ASCII white space as `str.strip()` sees it. -/
def isSpaceC (c : Char) : Bool :=
  c == ' ' || c == '\t' || c == '\n' || c == '\r' || c.toNat == 11 || c.toNat == 12
    || (28 ≤ c.toNat && c.toNat ≤ 31)

def lstrip (s : Str) : Str := s.dropWhile isSpaceC
def rstrip (s : Str) : Str := (s.reverse.dropWhile isSpaceC).reverse
def strip (s : Str) : Str := rstrip (lstrip s)

/-! ### numbers -/

def digitVal (c : Char) : Nat := c.toNat - 48

/-- value of a digit string, most significant first. -/
def digitsVal (s : Str) : Nat := s.foldl (fun acc c => acc * 10 + digitVal c) 0

/-- `int(s)` on the modelled alphabet: `some n` for a non-empty ASCII digit string,
    `none` = ValueError. -/
def pyInt (s : Str) : Option Nat :=
  if s != [] && s.all isDigitC then some (digitsVal s) else none

/-- decimal rendering (`str(n)` / f-string of an int ≥ 0). -/
def natStr (n : Nat) : Str := (Nat.repr n).toList

/-! ### dotted quads -/

/-- one decimal octet in canonical form: digits, no leading zero (except "0"), ≤ 255. -/
def octet (s : Str) : Option Nat :=
  match pyInt s with
  | some n => if n ≤ 255 && (s.length == 1 || s.head? != some '0') then some n else none
  | none => none

/-- canonical dotted quad → 32-bit value (`struct.unpack("!I", inet_aton(s))[0]`). -/
def inetAton (s : Str) : Option Nat :=
  match splitOn '.' s with
  | [a, b, c, d] =>
    match octet a, octet b, octet c, octet d with
    | some a, some b, some c, some d => some (((a * 256 + b) * 256 + c) * 256 + d)
    | _, _, _, _ => none
  | _ => none

/-- a decimal number in canonical form (no sign, no leading zero). -/
def canonDec (s : Str) : Bool :=
  s != [] && s.all isDigitC && (s.length == 1 || s.head? != some '0')

/-- inputs on which the model of `inet_aton` is faithful: four canonical decimal groups
    (accepted iff every group ≤ 255), and strings glibc certainly refuses — empty, not
    starting with a digit, or containing a character that no C number can contain.  Legacy
    forms ("1.2.3", "0x7f.1", "010.0.0.1") are outside (the driver answers `unmodelled`). -/
def inetModelled (s : Str) : Bool :=
  (match splitOn '.' s with
   | [a, b, c, d] => canonDec a && canonDec b && canonDec c && canonDec d
   | _ => false) ||
  match s with
  | [] => true
  | c :: _ => !isDigitC c || s.any (fun c => !(isHexC c || c == 'x' || c == 'X' || c == '.'))

end WS.Py
