/-
  WS.Base.NetTypes — observation vocabulary shared by the Spec and the Model of the
  connection set-up (C18/C19): what `parse_url` returns, what a connect attempt does, what
  is seen on the sockets.
-/
import WS.Base.Py
namespace WS.Net
open WS.Py

/-- the tuple `(hostname, port, resource, is_secure)` -/
structure Target where
  host : Str
  port : Nat
  resource : Str
  secure : Bool
  deriving DecidableEq, Repr

/-- what `sock.connect(address)` does at one resolved address. -/
inductive Outcome where
  | accept
  | refused        -- ECONNREFUSED
  | unreachable    -- ENETUNREACH
  | other (code : Nat)   -- any other OSError (errno; 0 = none, e.g. a timeout)
  deriving DecidableEq, Repr

def Outcome.skippable : Outcome → Bool
  | .refused | .unreachable => true
  | _ => false

/-- what is seen on socket number `i` (the one created for the `i`-th address). -/
inductive Ev where
  | create (i : Nat)
  | settimeout (i : Nat) (t : Nat)
  | setsockopt (i : Nat) (opt : String)
  | connect (i : Nat)
  | close (i : Nat)
  deriving DecidableEq, Repr

end WS.Net
