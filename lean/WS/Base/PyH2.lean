/-
  WS.Base.PyH2 — the CPython string operations used by the handshake side (`_http.py`,
  `_handshake.py`, `_core.connect`), over `List Char`, for the ASCII range.
  (group H2's own helpers; a shared WS.Base.Py may exist beside it.)

  `str.strip()`, `str.lower()`, `str.split(sep, n)`, `int(str)`, `bytes.decode("utf-8")`.
  Non-ASCII behaviour of strip/lower/int (Unicode white space, case mapping, Unicode digits) is
  NOT modelled: the driver answers `unmodelled` when a decoded line contains a non-ASCII
  character, and those cases are judged by the oracle only (DESIGN §6 C17).
  No Mathlib. Everything total and computable.
-/
import WS.Base.Bytes
namespace WS.PyH2

abbrev Str := List Char

instance instDecEqExcept {ε α : Type} [DecidableEq ε] [DecidableEq α] : DecidableEq (Except ε α)
  | .ok a, .ok b => if h : a = b then isTrue (by rw [h]) else isFalse (by intro h'; cases h'; exact h rfl)
  | .error a, .error b =>
    if h : a = b then isTrue (by rw [h]) else isFalse (by intro h'; cases h'; exact h rfl)
  | .ok _, .error _ => isFalse (by intro h; cases h)
  | .error _, .ok _ => isFalse (by intro h; cases h)

/-- `str.isspace()` on ASCII: TAB LF VT FF CR, FS GS RS US, SPACE. -/
def isPySpace (c : Char) : Bool :=
  let n := c.toNat
  (9 ≤ n && n ≤ 13) || (28 ≤ n && n ≤ 32)

/-- C `isspace` (what `int()` skips on an ASCII string): TAB LF VT FF CR SPACE. -/
def isCSpace (c : Char) : Bool :=
  let n := c.toNat
  (9 ≤ n && n ≤ 13) || n == 32

def rstripBy (p : Char → Bool) (s : Str) : Str := (s.reverse.dropWhile p).reverse
def stripBy (p : Char → Bool) (s : Str) : Str := rstripBy p (s.dropWhile p)

/-- `s.strip()` -/
def strip (s : Str) : Str := stripBy isPySpace s

def lowerChar (c : Char) : Char :=
  if 65 ≤ c.toNat ∧ c.toNat ≤ 90 then Char.ofNat (c.toNat + 32) else c

/-- `s.lower()` (ASCII) -/
def lower (s : Str) : Str := s.map lowerChar

/-- `s.split(sep)` for a one-character separator: all fields. -/
def splitAll (sep : Char) : Str → List Str
  | [] => [[]]
  | c :: cs =>
    if c = sep then [] :: splitAll sep cs
    else match splitAll sep cs with
      | [] => [[c]]            -- unreachable (splitAll never returns [])
      | f :: fs => (c :: f) :: fs

/-- `s.split(sep, n)`: at most `n` splits, `n + 1` fields. -/
def splitN (sep : Char) : Nat → Str → List Str
  | 0, s => [s]
  | _ + 1, [] => [[]]
  | n + 1, c :: cs =>
    if c = sep then [] :: splitN sep n cs
    else match splitN sep (n + 1) cs with
      | [] => [[c]]
      | f :: fs => (c :: f) :: fs

/-- `sep in s` for a one-character `sep`. -/
def hasChar (sep : Char) (s : Str) : Bool := s.contains sep

def isDigit (c : Char) : Bool := 48 ≤ c.toNat && c.toNat ≤ 57

/-- value of a digit string with single underscores allowed between digits
    (`none` = not of that shape). Returns (value, number of digits). -/
def digitsVal : Str → Nat → Nat → Bool → Option (Nat × Nat)
  -- acc, count, `prevDigit` = the previous character was a digit
  | [], acc, cnt, prev => if prev then some (acc, cnt) else none
  | c :: cs, acc, cnt, prev =>
    if isDigit c then digitsVal cs (acc * 10 + (c.toNat - 48)) (cnt + 1) true
    else if c = '_' ∧ prev then
      match cs with
      | d :: _ => if isDigit d then digitsVal cs acc cnt false else none
      | [] => none
    else none

/-- CPython's default `sys.get_int_max_str_digits()`. -/
def intMaxStrDigits : Nat := 4300

/-- `int(s)` for an ASCII `str` (`none` = ValueError). -/
def pyInt (s : Str) : Option Int :=
  let t := stripBy isCSpace s
  let (neg, body) := match t with
    | '-' :: r => (true, r)
    | '+' :: r => (false, r)
    | r => (false, r)
  match digitsVal body 0 0 false with
  | some (v, cnt) =>
    if cnt > intMaxStrDigits then none
    else some (if neg then - (Int.ofNat v) else Int.ofNat v)
  | none => none

/-- decimal rendering of an `int` (`str(n)`, f-string). -/
def natRepr (n : Nat) : Str := (toString n).toList
def intRepr (i : Int) : Str := (toString i).toList

/-! ### UTF-8 (strict, Unicode Table 3-7) -/

private def cont (b : UInt8) : Bool := 0x80 ≤ b.toNat && b.toNat ≤ 0xBF

/-- `bs.decode("utf-8")`: `none` = UnicodeDecodeError. -/
def decodeUtf8 : Bytes → Option Str
  | [] => some []
  | b0 :: rest =>
    let n0 := b0.toNat
    if n0 < 0x80 then (decodeUtf8 rest).map (Char.ofNat n0 :: ·)
    else if 0xC2 ≤ n0 ∧ n0 ≤ 0xDF then
      match rest with
      | b1 :: r1 =>
        if cont b1 then (decodeUtf8 r1).map (Char.ofNat ((n0 - 0xC0) * 64 + (b1.toNat - 0x80)) :: ·)
        else none
      | _ => none
    else if 0xE0 ≤ n0 ∧ n0 ≤ 0xEF then
      match rest with
      | b1 :: b2 :: r2 =>
        let lo := if n0 = 0xE0 then 0xA0 else 0x80
        let hi := if n0 = 0xED then 0x9F else 0xBF
        if lo ≤ b1.toNat ∧ b1.toNat ≤ hi ∧ cont b2 then
          (decodeUtf8 r2).map
            (Char.ofNat ((n0 - 0xE0) * 4096 + (b1.toNat - 0x80) * 64 + (b2.toNat - 0x80)) :: ·)
        else none
      | _ => none
    else if 0xF0 ≤ n0 ∧ n0 ≤ 0xF4 then
      match rest with
      | b1 :: b2 :: b3 :: r3 =>
        let lo := if n0 = 0xF0 then 0x90 else 0x80
        let hi := if n0 = 0xF4 then 0x8F else 0xBF
        if lo ≤ b1.toNat ∧ b1.toNat ≤ hi ∧ cont b2 ∧ cont b3 then
          (decodeUtf8 r3).map
            (Char.ofNat ((n0 - 0xF0) * 262144 + (b1.toNat - 0x80) * 4096 + (b2.toNat - 0x80) * 64
              + (b3.toNat - 0x80)) :: ·)
        else none
      | _ => none
    else none

def encodeChar (c : Char) : Bytes :=
  let n := c.toNat
  if n < 0x80 then [UInt8.ofNat n]
  else if n < 0x800 then [UInt8.ofNat (0xC0 + n / 64), UInt8.ofNat (0x80 + n % 64)]
  else if n < 0x10000 then
    [UInt8.ofNat (0xE0 + n / 4096), UInt8.ofNat (0x80 + n / 64 % 64), UInt8.ofNat (0x80 + n % 64)]
  else
    [UInt8.ofNat (0xF0 + n / 262144), UInt8.ofNat (0x80 + n / 4096 % 64), UInt8.ofNat (0x80 + n / 64 % 64),
     UInt8.ofNat (0x80 + n % 64)]

/-- `s.encode("utf-8")` -/
def encodeUtf8 (s : Str) : Bytes := s.flatMap encodeChar

def isAscii (s : Str) : Bool := s.all (fun c => c.toNat < 128)

/-! ### Python `dict` with `str` keys, insertion ordered -/

abbrev Dict := List (Str × Str)

def dictGet (d : Dict) (k : Str) : Option Str :=
  match d.find? (fun kv => kv.1 = k) with
  | some kv => some kv.2
  | none => none

/-- `d[k] = v` (an existing key keeps its position). -/
def dictSet : Dict → Str → Str → Dict
  | [], k, v => [(k, v)]
  | (k', v') :: rest, k, v => if k' = k then (k, v) :: rest else (k', v') :: dictSet rest k v

/-- Python truthiness of `d.get(k)`: present and non-empty. -/
def dictGetTruthy (d : Dict) (k : Str) : Option Str :=
  match dictGet d k with
  | some v => if v.isEmpty then none else some v
  | none => none

/-- `sep.join(parts)` -/
def join (sep : Str) : List Str → Str
  | [] => []
  | [x] => x
  | x :: y :: rest => x ++ sep ++ join sep (y :: rest)

end WS.PyH2
