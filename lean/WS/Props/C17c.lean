/-
  WS.Props.C17c — the transport glue (`_socket.recv` / `_socket.send`): whatever the transport object does, the
  library-level call returns, raises one of the two documented exceptions, or passes the transport's OWN exception through.
-/
import WS.Model.SocketGlue
import WS.Gen.Tables
namespace WS.Props.C17c
open WS WS.Model.Glue

theorem recvHandler_ok {r : RawR} {v : Option Bytes} (h : recvHandler r = .ok v) : ∃ bs, r = .data bs ∧ v = some bs := by
  cases r with
  | data bs => exact ⟨bs, rfl, by simpa [recvHandler] using h.symm⟩
  | sslErr b => cases b <;> simp [recvHandler] at h
  | _ => simp [recvHandler] at h

theorem recvHandler_own {r r' : RawR} (h : recvHandler r = .own r') :
    r' = r ∧ (∀ bs, r' ≠ .data bs) ∧ r' ≠ .timeoutErr ∧ r' ≠ .sslErr true := by
  cases r with
  | sslErr b => cases b <;> simp [recvHandler] at h; subst h; simp
  | data bs => simp [recvHandler] at h
  | timeoutErr => simp [recvHandler] at h
  | _ => simp [recvHandler] at h; subst h; simp

/-- what the stage before the emptiness test yields, with where it came from. -/
def recvStage (nb : Bool) (r1 : RawR) (ready : Bool) (r2 : RawR) : Out (Option Bytes) :=
  if nb then recvHandler r1 else recvInner r1 ready r2

theorem recv_eq (nb : Bool) (r1 : RawR) (ready : Bool) (r2 : RawR) :
    recv nb r1 ready r2 = recvPost (recvStage nb r1 ready r2) := rfl

theorem recvPost_ok {x : Out (Option Bytes)} {bs : Bytes} (h : recvPost x = .ok bs) : bs ≠ [] ∧ x = .ok (some bs) := by
  cases x with
  | ok v =>
    cases v with
    | none => simp [recvPost] at h
    | some l =>
      cases l with
      | nil => simp [recvPost] at h
      | cons b t => simp [recvPost] at h; subst h; simp
  | _ => simp [recvPost] at h

theorem recvPost_own {x : Out (Option Bytes)} {r : RawR} (h : recvPost x = .own r) : x = .own r := by
  cases x with
  | ok v =>
    cases v with
    | none => simp [recvPost] at h
    | some l => cases l <;> simp [recvPost] at h
  | own r' => simpa [recvPost] using h
  | _ => simp [recvPost] at h

/-- the stage result is the handler applied to the outcome that counted: the first one, or — blocking mode, first read
    would block, transport ready — the second one; or None when the wait expired. -/
theorem recvStage_cases (nb : Bool) (r1 : RawR) (ready : Bool) (r2 : RawR) :
    recvStage nb r1 ready r2 = recvHandler r1 ∨
    ((r1 = .wantRead ∨ r1 = .again) ∧ nb = false ∧ ready = true ∧ recvStage nb r1 ready r2 = recvHandler r2) ∨
    ((r1 = .wantRead ∨ r1 = .again) ∧ nb = false ∧ ready = false ∧ recvStage nb r1 ready r2 = .ok none) := by
  cases nb
  · cases r1 <;> cases ready <;> simp [recvStage, recvInner]
  · simp [recvStage]

/-- **C17_glue_recv** — for every world of a `_socket.recv` call (blocking or not, every first outcome, ready or not, every
    second outcome): bytes are returned exactly when the transport returned a non-empty string; end of stream (`b""`) is
    CLOSED in EVERY mode — it is never handed up as an empty read, which is what would make the frame reader spin; every
    timeout spelling is TIMEOUT; anything else raised is an exception the transport itself raised in this call. -/
theorem C17_glue_recv (nb : Bool) (r1 : RawR) (ready : Bool) (r2 : RawR) :
    (∀ bs, recv nb r1 ready r2 = .ok bs → bs ≠ [] ∧ (r1 = .data bs ∨ ((r1 = .wantRead ∨ r1 = .again) ∧ nb = false ∧ ready = true ∧ r2 = .data bs))) ∧
    (r1 = .data [] → recv nb r1 ready r2 = .closed) ∧
    (r1 = .timeoutErr ∨ r1 = .sslErr true → recv nb r1 ready r2 = .timeout) ∧
    (∀ r, recv nb r1 ready r2 = .own r → (r = r1 ∨ r = r2) ∧ (∀ bs, r ≠ .data bs) ∧ r ≠ .timeoutErr ∧ r ≠ .sslErr true) := by
  have hc := recvStage_cases nb r1 ready r2
  refine ⟨?_, ?_, ?_, ?_⟩
  · intro bs h
    rw [recv_eq] at h
    obtain ⟨hne, hx⟩ := recvPost_ok h
    refine ⟨hne, ?_⟩
    rw [hx] at hc
    rcases hc with hc | ⟨h1, h2, h3, hc⟩ | ⟨_, _, _, hc⟩
    · obtain ⟨bs', e, e2⟩ := recvHandler_ok hc.symm; simp at e2; subst e2; exact Or.inl e
    · obtain ⟨bs', e, e2⟩ := recvHandler_ok hc.symm; simp at e2; subst e2; exact Or.inr ⟨h1, h2, h3, e⟩
    · simp at hc
  · intro h; subst h; cases nb <;> simp [recv, recvPost, recvInner, recvHandler]
  · intro h; rcases h with h | h <;> subst h <;> cases nb <;> simp [recv, recvPost, recvInner, recvHandler]
  · intro r h
    rw [recv_eq] at h
    have hx := recvPost_own h
    rw [hx] at hc
    rcases hc with hc | ⟨_, _, _, hc⟩ | ⟨_, _, _, hc⟩
    · obtain ⟨e, rest⟩ := recvHandler_own hc.symm; exact ⟨Or.inl e, rest⟩
    · obtain ⟨e, rest⟩ := recvHandler_own hc.symm; exact ⟨Or.inr e, rest⟩
    · simp at hc

theorem sendHandler_ok {r : RawS} {v : Option Nat} (h : sendHandler r = .ok v) : ∃ n, r = .accepted n ∧ v = some n := by
  cases r with
  | accepted n => exact ⟨n, rfl, by simpa [sendHandler] using h.symm⟩
  | noCode b => cases b <;> simp [sendHandler] at h
  | _ => simp [sendHandler] at h

theorem sendHandler_own {r r' : RawS} (h : sendHandler r = .own r') : r' = r ∧ ∀ n, r' ≠ .accepted n := by
  cases r with
  | accepted n => simp [sendHandler] at h
  | timeoutErr => simp [sendHandler] at h
  | noCode b => cases b <;> simp [sendHandler] at h; subst h; simp
  | _ => simp [sendHandler] at h; subst h; simp

theorem send_cases (nb : Bool) (r1 : RawS) (ready : Bool) (r2 : RawS) :
    (send nb r1 ready r2 = sendHandler r1 ∧ (nb = true ∨ (r1 ≠ .sslEof ∧ r1 ≠ .wantWrite ∧ r1 ≠ .again))) ∨
    (r1 = .sslEof ∧ nb = false ∧ send nb r1 ready r2 = .closed) ∨
    ((r1 = .wantWrite ∨ r1 = .again) ∧ nb = false ∧ ready = true ∧ send nb r1 ready r2 = sendHandler r2) ∨
    ((r1 = .wantWrite ∨ r1 = .again) ∧ nb = false ∧ ready = false ∧ send nb r1 ready r2 = .ok none) := by
  cases nb
  · cases r1 <;> cases ready <;> simp [send, sendInner]
  · simp [send]

/-- **C17_glue_send** — likewise for `_socket.send`: a count is returned exactly when the transport accepted that many
    bytes in this call (`none`: the wait for writability expired, nothing was written, the caller's loop tries again);
    otherwise TIMEOUT, CLOSED (TLS end of stream on the first write) or the transport's own exception. -/
theorem C17_glue_send (nb : Bool) (r1 : RawS) (ready : Bool) (r2 : RawS) :
    (∀ n, send nb r1 ready r2 = .ok (some n) → r1 = .accepted n ∨ ((r1 = .wantWrite ∨ r1 = .again) ∧ nb = false ∧ ready = true ∧ r2 = .accepted n)) ∧
    (send nb r1 ready r2 = .ok none → (r1 = .wantWrite ∨ r1 = .again) ∧ nb = false ∧ ready = false) ∧
    (∀ r, send nb r1 ready r2 = .own r → (r = r1 ∨ r = r2) ∧ ∀ n, r ≠ .accepted n) := by
  have hc := send_cases nb r1 ready r2
  refine ⟨?_, ?_, ?_⟩
  · intro n h
    rcases hc with ⟨hc, _⟩ | ⟨_, _, hc⟩ | ⟨h1, h2, h3, hc⟩ | ⟨_, _, _, hc⟩
    · rw [h] at hc; obtain ⟨m, e, e2⟩ := sendHandler_ok hc.symm; simp at e2; subst e2; exact Or.inl e
    · rw [h] at hc; simp at hc
    · rw [h] at hc; obtain ⟨m, e, e2⟩ := sendHandler_ok hc.symm; simp at e2; subst e2; exact Or.inr ⟨h1, h2, h3, e⟩
    · rw [h] at hc; simp at hc
  · intro h
    rcases hc with ⟨hc, _⟩ | ⟨_, _, hc⟩ | ⟨_, _, _, hc⟩ | ⟨h1, h2, h3, _⟩
    · rw [h] at hc; obtain ⟨m, _, e2⟩ := sendHandler_ok hc.symm; simp at e2
    · rw [h] at hc; simp at hc
    · rw [h] at hc; obtain ⟨m, _, e2⟩ := sendHandler_ok hc.symm; simp at e2
    · exact ⟨h1, h2, h3⟩
  · intro r h
    rcases hc with ⟨hc, _⟩ | ⟨_, _, hc⟩ | ⟨_, _, _, hc⟩ | ⟨_, _, _, hc⟩
    · rw [h] at hc; obtain ⟨e, rest⟩ := sendHandler_own hc.symm; exact ⟨Or.inl e, rest⟩
    · rw [h] at hc; simp at hc
    · rw [h] at hc; obtain ⟨e, rest⟩ := sendHandler_own hc.symm; exact ⟨Or.inr e, rest⟩
    · rw [h] at hc; simp at hc

/-- non-vacuity: a non-blocking socket at end of stream is CLOSED; a blocking one whose first read would block and whose
    `select` comes back ready returns the second read. -/
example : recv true (.data []) false .osErr = .closed ∧ recv false .wantRead true (.data [1]) = Out.ok [1] := by decide

/-- generated fact: the handlers of the inner `_recv()` come in this order — want-read (wait, read again) BEFORE the errno
    test of `socket.error`; `SSLWantReadError` IS an OSError, so the other order would re-raise it (`recvInner` reads the
    want-read case first). -/
theorem glue_recv_handler_order : Gen.glueRecvHandlers = ["SSLWantReadError", "error"] := by decide

end WS.Props.C17c
