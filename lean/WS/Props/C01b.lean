/-
  WS.Props.C01b — C01 at the level of the `send` call: one draw, the drawn key on the wire, return value.
-/
import WS.Props.C01
import WS.Lemmas.Loop
namespace WS.Props.C01b
open WS WS.Spec WS.Model WS.Lemmas.Frame WS.Lemmas.ShortWrites WS.Lemmas.Loop

theorem sockSend_keyDraws (c : Conn) (d : Bytes) : (c.sockSend d).2.keyDraws = c.keyDraws := by
  unfold Conn.sockSend
  split
  · rfl
  · generalize c.sock.send d = r
    obtain ⟨res, s'⟩ := r
    cases res <;> rfl

theorem sendLoop_keyDraws (fuel : Nat) : ∀ (c : Conn) (d : Bytes), (Conn.sendLoop fuel c d).2.keyDraws = c.keyDraws := by
  induction fuel with
  | zero => intro c d; simp [Conn.sendLoop]
  | succ f ih =>
    intro c d
    unfold Conn.sendLoop
    split
    · rfl
    · have h1 := sockSend_keyDraws c d
      generalize c.sockSend d = r at h1
      obtain ⟨res, c1⟩ := r
      cases res with
      | error e => simpa using h1
      | ok l => simp only []; rw [ih c1 _]; exact h1

/-- **C01_send** — one `send(payload, opcode)` on a writable connection, whatever the short-write pattern:
    exactly ONE key is drawn from the key source; the bytes added to the wire are one frame that the RFC decoder
    reads as FIN=1, reserved bits clear, that opcode, MASK set, THAT drawn key, the minimal length form and
    exactly the caller's payload, with nothing left over; and the call returns the number of bytes written. -/
theorem C01_send (c : Conn) (p : Bytes) (op : Nat) (k : Bytes) (ks : List Bytes)
    (hw : Writable c) (hop : op ∈ Gen.opcodes) (hlen : p.length < 2 ^ 63)
    (hkeys : c.keys = k :: ks) (hk : k.length = 4) :
    ∃ w c', c.send p op = (.ok w.length, c') ∧ c'.sock.wire = c.sock.wire ++ w ∧
      decode w = .frame { fin := 1, rsv1 := 0, rsv2 := 0, rsv3 := 0, opcode := op, masked := true, key := k,
                          lenForm := minimalForm p.length, payload := p } [] ∧
      c'.keyDraws = c.keyDraws + 1 ∧ c'.keys = ks := by
  obtain ⟨w, c', hfmt, hsend, hwire, _, _⟩ := send_ok c p op hw hop hlen
  have hkd : (c.keys.headD [0, 0, 0, 0]) = k := by simp [hkeys]
  rw [hkd] at hfmt
  obtain ⟨w', hf', hdec, _⟩ := WS.Props.C01.C01_wire 1 op k p (by omega) hop hk hlen
  have hww : w' = w := by
    rw [hf'] at hfmt; injection hfmt
  subst hww
  have hkeys' := send_keys c p op w' (by rw [hkd]; exact hf')
  rw [hsend] at hkeys'
  refine ⟨w', c', hsend, hwire, hdec, ?_, by rw [hkeys', hkeys]; rfl⟩
  -- the draw counter
  have : (c.send p op).2.keyDraws = c.keyDraws + 1 := by
    unfold Conn.send Conn.sendFrame
    rw [hkd]
    simp only [hf']
    have hm : ((createFrame p op).mask != 0) = true := rfl
    simp only [hm, if_true]
    have := sendLoop_keyDraws (w'.length + 1) { c with keys := c.keys.tail, keyDraws := c.keyDraws + 1 } w'
    generalize Conn.sendLoop (w'.length + 1) _ w' = r at this
    obtain ⟨e, c2⟩ := r
    cases e <;> simpa using this
  rw [hsend] at this
  exact this

end WS.Props.C01b
