/-
  WS.Props.C08 — closing handshake and connection state follow one consistent state machine.
-/
import WS.Lemmas.Released
import WS.Lemmas.OwnClose
import WS.Props.C01
namespace WS.Props.C08
open WS WS.Model WS.Lemmas.Released WS.Lemmas.OwnClose

/-- **C08_status_range (send_close)** — a status outside 0..65535 is refused with ValueError and the
    state (wire included) is untouched, whatever the state. -/
theorem C08_status_range_sendClose (c : Conn) (s : Int) (r : Bytes) (h : s < 0 ∨ s ≥ 65536) :
    c.sendClose s r = (.error .valueError, c) := by
  have h16 : (Gen.length16 : Int) = 65536 := by decide
  unfold Conn.sendClose
  rw [h16]
  rcases h with h | h
  · have : (decide (s < 0) || decide (s ≥ 65536)) = true := by simp [h]
    simp [this]
  · have : (decide (s < 0) || decide (s ≥ 65536)) = true := by simp [h]
    simp [this]

/-- **C08_status_range (close)** — on a connected object an out-of-range status raises ValueError with
    the state untouched; on an unconnected one close() returns at once, again touching nothing. -/
theorem C08_status_range_close (c : Conn) (s : Int) (r : Bytes) (t : Option Nat) (h : s < 0 ∨ s ≥ 65536) :
    c.close s r t = (if c.connected then some .valueError else none, c) := by
  have h16 : (Gen.length16 : Int) = 65536 := by decide
  unfold Conn.close
  rw [h16]
  cases hc : c.connected with
  | false => simp
  | true =>
    rcases h with h | h
    · have : (decide (s < 0) || decide (s ≥ 65536)) = true := by simp [h]
      simp [this]
    · have : (decide (s < 0) || decide (s ≥ 65536)) = true := by simp [h]
      simp [this]

/-- **C08_inert (receive)** — once the socket has been released (`sock is None`, after a connected
    `close()` or a loss), `recv_frame`, and every message-level receive built on it, make **zero transport
    calls**: the socket record (script, call counter, bytes written, clock) is unchanged, for every state
    and every fuel. -/
theorem C08_inert_recvFrame (c : Conn) (h : c.hasSock = false) :
    c.recvFrame.2.sock = c.sock ∧ c.recvFrame.2.hasSock = false :=
  recvFrame_released c h

theorem C08_inert_recvDataFrame (c : Conn) (cf : Bool) (h : c.hasSock = false) :
    (c.recvDataFrame cf).2.sock = c.sock ∧ (c.recvDataFrame cf).2.hasSock = false :=
  recvDataFrameLoop_released _ cf c h

theorem format_ok_nonempty (f : Frame) (key w : Bytes) (h : format f key = .ok w) : w ≠ [] := by
  unfold format at h
  simp only [] at h
  repeat' split at h
  all_goals first
    | (injection h with h; subst h; simp)
    | (exact absurd h (by simp))

theorem format_createFrame_ok (p : Bytes) (op : Nat) (key : Bytes) (hop : op ∈ Gen.opcodes) (hlen : p.length < 2 ^ 63) :
    ∃ w, format (createFrame p op) key = .ok w := by
  have hcont : Gen.opcodes.contains op = true := by simpa using hop
  have c63 : Gen.length63 = 2 ^ 63 := by decide
  have hn : ¬ (2 ^ 63 ≤ p.length) := by omega
  simp only [format, createFrame, hcont, bit01, c63]
  simp [hn]

/-- **C08_inert (send)** — on a released object every send of a frame that formats raises the
    connection-closed exception and touches no transport. -/
theorem C08_inert_send (c : Conn) (p : Bytes) (op : Nat) (h : c.hasSock = false)
    (hop : op ∈ Gen.opcodes) (hlen : p.length < 2 ^ 63) :
    (c.send p op).1 = .error .closed ∧ (c.send p op).2.sock = c.sock := by
  refine ⟨?_, (sendFrame_released c (createFrame p op) h).1⟩
  apply send_released_closed c p op h
  intro key
  obtain ⟨w, hw⟩ := format_createFrame_ok p op key hop hlen
  exact ⟨w, hw, format_ok_nonempty _ _ _ hw⟩

theorem shutdown_released (c : Conn) : c.shutdown.hasSock = false ∧ c.shutdown.connected = (c.connected && !c.hasSock) := by
  unfold Conn.shutdown
  cases h : c.hasSock <;> simp [h]

/-- **C08_close_releases** — whatever the peer does (answers, keeps sending, stays silent, ends the stream,
    or the write of the close frame fails), `close()` on a connected object returns normally and leaves
    the object released and unconnected-by-construction (`shutdown()` ran last). -/
theorem C08_close_releases (c : Conn) (s : Int) (r : Bytes) (t : Option Nat)
    (hs : 0 ≤ s ∧ s < 65536) (hc : c.connected = true) :
    ∃ c', c.close s r t = (none, Conn.shutdown c') := by
  have h16 : (Gen.length16 : Int) = 65536 := by decide
  unfold Conn.close
  rw [h16]
  have : (decide (s < 0) || decide (s ≥ 65536)) = false := by
    simp; omega
  simp only [hc, this]
  simp only [Bool.not_true, Bool.false_eq_true, if_false]
  exact ⟨_, rfl⟩

theorem C08_close_released (c : Conn) (s : Int) (r : Bytes) (t : Option Nat)
    (hs : 0 ≤ s ∧ s < 65536) (hc : c.connected = true) :
    (c.close s r t).1 = none ∧ (c.close s r t).2.hasSock = false := by
  obtain ⟨c', h⟩ := C08_close_releases c s r t hs hc
  rw [h]
  exact ⟨rfl, (shutdown_released c').1⟩

/-- **C08_own_close_once** — over EVERY sequence of client calls (send, ping, pong, recv, recv_data,
    recv_data_frame, recv_frame, send_close, close, shutdown, abort — any arguments) interleaved with EVERY server
    script (the transport inside the state: data, pings, close frames, end of stream, silence, resets, in any
    chunking and timing), starting from a connection that has written no close frame: the number of close frames
    the client writes on its own initiative — by `close()` or as the automatic reply to the server's close
    (`ownCloses` is a ghost counter incremented exactly at those two writes) — never exceeds ONE, and is zero as
    long as the object is connected. -/
theorem C08_own_close_once (c : Conn) (h0 : c.ownCloses = 0) (ops : List Op) :
    (runOps c ops).ownCloses ≤ 1 ∧ ((runOps c ops).connected = true → (runOps c ops).ownCloses = 0) :=
  runOps_own ops c ⟨by omega, fun _ => h0⟩

/-- the two writers really are counted: a connected `close()` and the reply to a server close frame. -/
example : ((({ sock := { inp := [.chunk [0x88, 0x00]] } } : Conn).recvDataFrame true).2.ownCloses = 1) ∧
    ((({ } : Conn).close 1000 [] (some 10)).2.ownCloses = 1) := by decide

end WS.Props.C08
