/-
  WS.Props.C01 — every frame the client writes is one well-formed masked RFC 6455 frame.
-/
import WS.Lemmas.Frame
namespace WS.Props.C01
open WS WS.Spec WS.Model WS.Lemmas.Frame

theorem consts : Gen.length7 = 126 ∧ Gen.length16 = 65536 ∧ Gen.length63 = 2 ^ 63 ∧
    Gen.opcodes = [0, 1, 2, 8, 9, 10] := by decide

/-- **C01_wire** — for every payload (any length below 2^63), FIN ∈ {0,1}, every opcode of the
    code's table and every 4-byte key, `ABNF.format` on the frame `create_frame` builds succeeds,
    and the RFC decoder reads its output back as exactly: that FIN, reserved bits clear, that
    opcode, MASK set, that key, the *minimal* length form, the caller's payload, nothing left
    over; and the number of bytes is header + 4 + payload. -/
theorem C01_wire (fin op : Nat) (key p : Bytes) (hfin : fin ≤ 1) (hop : op ∈ Gen.opcodes)
    (hkey : key.length = 4) (hlen : p.length < 2 ^ 63) :
    ∃ w, format (createFrame p op fin) key = .ok w ∧
      decode w = .frame { fin := fin, rsv1 := 0, rsv2 := 0, rsv3 := 0, opcode := op, masked := true,
                          key := key, lenForm := minimalForm p.length, payload := p } [] ∧
      w.length = hdrLen p.length + 4 + p.length := by
  have hfin2 : fin < 2 := by omega
  have hb0 := hdr_byte0 fin hfin2 op hop
  have hop16 := opcode_lt_16 op hop
  have hbit : bit01 fin = true := by
    unfold bit01; rcases Nat.lt_or_ge fin 1 with h | h
    · have : fin = 0 := by omega
      simp [this]
    · have : fin = 1 := by omega
      simp [this]
  have hcont : Gen.opcodes.contains op = true := by simpa using hop
  have hml := mask_length key p hkey
  have hum := unmask_mask key p hkey
  obtain ⟨c7, c16, c63, _⟩ := consts
  have hn63 : ¬ (2 ^ 63 ≤ p.length) := by omega
  -- the decoded record, field by field
  have hrec : ∀ form, mkWire (UInt8.ofNat (fin <<< 7 ||| 0 <<< 6 ||| 0 <<< 5 ||| 0 <<< 4 ||| op)) true key form
        (if true then unmask key (mask key p) else mask key p) =
      { fin := fin, rsv1 := 0, rsv2 := 0, rsv3 := 0, opcode := op, masked := true, key := key,
        lenForm := form, payload := p } := by
    intro form
    simp only [mkWire, hb0, hum, if_true]
    have a0 : (fin * 128 + op) / 128 = fin := by omega
    have a1 : (fin * 128 + op) / 64 % 2 = 0 := by omega
    have a2 : (fin * 128 + op) / 32 % 2 = 0 := by omega
    have a3 : (fin * 128 + op) / 16 % 2 = 0 := by omega
    have a4 : (fin * 128 + op) % 16 = op := by omega
    rw [a0, a1, a2, a3, a4]
  by_cases h1 : p.length < 126
  · -- 7-bit form
    have hb1 := hdr_byte1_small p.length h1
    refine ⟨UInt8.ofNat (fin <<< 7 ||| 0 <<< 6 ||| 0 <<< 5 ||| 0 <<< 4 ||| op) ::
             UInt8.ofNat (1 <<< 7 ||| p.length) :: ([] ++ (key ++ (mask key p ++ []))), ?_, ?_, ?_⟩
    · simp only [format, createFrame, hcont, bit01, c7, c16, c63]
      simp [h1, hn63]
      omega
    · have hd := decode_cons (UInt8.ofNat (fin <<< 7 ||| 0 <<< 6 ||| 0 <<< 5 ||| 0 <<< 4 ||| op))
        (UInt8.ofNat (1 <<< 7 ||| p.length)) true 7 [] key (mask key p) []
        (by rw [hb1]; have : (128 + p.length) / 128 = 1 := by omega
            simp [this])
        (Or.inl ⟨rfl, by rw [hb1, hml]; omega, by rw [hml]; exact h1, rfl⟩)
        (by simpa using hkey)
      rw [hd, hrec]
      have : minimalForm p.length = 7 := by unfold minimalForm; rw [if_pos (by omega)]
      rw [this]
    · have hle : p.length ≤ 125 := by omega
      simp [hkey, hml, hdrLen, hle]
      omega
  · by_cases h2 : p.length < 65536
    · -- 16-bit form
      refine ⟨UInt8.ofNat (fin <<< 7 ||| 0 <<< 6 ||| 0 <<< 5 ||| 0 <<< 4 ||| op) ::
               UInt8.ofNat (1 <<< 7 ||| 0x7E) :: (beN 2 p.length ++ (key ++ (mask key p ++ []))), ?_, ?_, ?_⟩
      · simp only [format, createFrame, hcont, bit01, c7, c16, c63]
        simp [h1, h2, hn63]
        omega
      · have hd := decode_cons (UInt8.ofNat (fin <<< 7 ||| 0 <<< 6 ||| 0 <<< 5 ||| 0 <<< 4 ||| op))
          (UInt8.ofNat (1 <<< 7 ||| 0x7E)) true 16 (beN 2 p.length) key (mask key p) []
          (by rw [hdr_byte1_16]; decide)
          (Or.inr (Or.inl ⟨rfl, by rw [hdr_byte1_16], beN_length 2 _, by rw [hml]; exact unbe_be2 _ h2⟩))
          (by simpa using hkey)
        rw [hd, hrec]
        have : minimalForm p.length = 16 := by unfold minimalForm; rw [if_neg (by omega), if_pos (by omega)]
        rw [this]
      · have hle : ¬ p.length ≤ 125 := by omega
        have hle2 : p.length ≤ 65535 := by omega
        simp [hkey, hml, hdrLen, beN_length, hle, hle2]
        omega
    · -- 64-bit form
      refine ⟨UInt8.ofNat (fin <<< 7 ||| 0 <<< 6 ||| 0 <<< 5 ||| 0 <<< 4 ||| op) ::
               UInt8.ofNat (1 <<< 7 ||| 0x7F) :: (beN 8 p.length ++ (key ++ (mask key p ++ []))), ?_, ?_, ?_⟩
      · simp only [format, createFrame, hcont, bit01, c7, c16, c63]
        simp [h1, h2, hn63]
        omega
      · have hd := decode_cons (UInt8.ofNat (fin <<< 7 ||| 0 <<< 6 ||| 0 <<< 5 ||| 0 <<< 4 ||| op))
          (UInt8.ofNat (1 <<< 7 ||| 0x7F)) true 64 (beN 8 p.length) key (mask key p) []
          (by rw [hdr_byte1_64]; decide)
          (Or.inr (Or.inr ⟨rfl, by rw [hdr_byte1_64], beN_length 8 _, by rw [hml]; exact unbe_be8 _ (by omega)⟩))
          (by simpa using hkey)
        rw [hd, hrec]
        have : minimalForm p.length = 64 := by unfold minimalForm; rw [if_neg (by omega), if_neg (by omega)]
        rw [this]
      · have hle : ¬ p.length ≤ 125 := by omega
        have hle2 : ¬ p.length ≤ 65535 := by omega
        simp [hkey, hml, hdrLen, beN_length, hle, hle2]
        omega

end WS.Props.C01
