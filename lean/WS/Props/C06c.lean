/-
  WS.Props.C06c — C06 in the words of the property: no overlong forms, no surrogates, nothing above U+10FFFF,
  no sequence cut short.
-/
import WS.Lemmas.Scalars
import WS.Props.C06
namespace WS.Props.C06c
open WS WS.Spec WS.Model WS.Lemmas.Scalars

/-- **C06_validate_scalars** — the code's validator accepts a byte string exactly when it is the
    concatenation of the (shortest-form) UTF-8 encodings of Unicode scalar values: code points ≤ U+10FFFF that
    are not surrogates. Every overlong form, every surrogate, everything above U+10FFFF and every sequence cut
    short at the end is therefore rejected, and every encodable Unicode text (C01: text is sent as its UTF-8
    bytes) is accepted. -/
theorem C06_validate_scalars (bs : Bytes) :
    validateUtf8 bs = true ↔ ∃ cps : List Nat, (∀ c ∈ cps, IsScalar c) ∧ bs = cps.flatMap encodeScalar := by
  rw [WS.Props.C06.C06_validate]
  exact wellFormed_iff_scalars bs

/-- concrete members: "é€😀" is accepted; the overlong C0 80, the surrogate ED A0 80, F4 90 80 80 (> U+10FFFF)
    and the truncated E2 82 are not encodings of scalar sequences. -/
example : validateUtf8 ([0xE9, 0x20AC, 0x1F600].flatMap encodeScalar) = true := by decide

end WS.Props.C06c
