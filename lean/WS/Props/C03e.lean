/-
  WS.Props.C03e — nothing is ever parked where `select` cannot see it: a receive call that returns has taken from the
  transport exactly the bytes it consumed, at the frame level and at the message level.
-/
import WS.Lemmas.Exact
import WS.Lemmas.Loop
namespace WS.Props.C03e
open WS WS.Model WS.Lemmas.Exact WS.Lemmas.Loop

theorem send_buf (c : Conn) (p : Bytes) (op : Nat) : (c.send p op).2.buf = c.buf := by
  unfold Conn.send
  exact (sendFrame_sameRecv c _).1

theorem sendClose_buf (c : Conn) (st : Int) (r : Bytes) : (c.sendClose st r).2.buf = c.buf := by
  unfold Conn.sendClose
  split
  · rfl
  · exact send_buf _ _ _

/-- the message-level loop hands the library buffer back empty whenever it returns a value. -/
theorem loop_nothing_parked (fuel : Nat) : ∀ (c : Conn) (cf : Bool), c.buf = [] →
    ∀ (r : Nat × Frame) (c' : Conn), Conn.recvDataFrameLoop fuel c cf = (.ok r, c') → c'.buf = [] := by
  induction fuel with
  | zero => intro c cf _ r c' h; simp [Conn.recvDataFrameLoop] at h
  | succ n ih =>
    intro c cf hb r c' h
    unfold Conn.recvDataFrameLoop at h
    cases hrf : c.recvFrame with
    | mk res c1 =>
      rw [hrf] at h
      cases res with
      | error e => simp at h
      | ok f =>
        have hb1 : c1.buf = [] := recvFrame_exact c hb f c1 hrf
        simp only [] at h
        split at h
        · -- data frame
          split at h
          · simp at h
          · have hadd : (c1.contAdd f).buf = [] := by rw [(contAdd_same c1 f).2.2.1]; exact hb1
            split at h
            · have := (contExtract_same (c1.contAdd f) f).2.2.1
              rw [h] at this
              simpa [hadd] using this
            · exact ih _ cf hadd r c' h
        · split at h
          · -- close
            split at h
            · injection h with _ h2; rw [← h2]; exact hb1
            · have hsc := sendClose_buf ({ c1 with ownCloses := c1.ownCloses + 1 } : Conn) ((Gen.statusNormal : Nat) : Int) []
              generalize ({ c1 with ownCloses := c1.ownCloses + 1 } : Conn).sendClose ((Gen.statusNormal : Nat) : Int) [] = x at h hsc
              obtain ⟨xr, xc⟩ := x
              cases xr with
              | error e => simp at h
              | ok v =>
                simp only [] at h
                injection h with _ h2
                rw [← h2]; simpa [hb1] using hsc
          · split at h
            · -- ping
              split at h
              · have hp := send_buf c1 f.data Gen.opcodePong
                unfold Conn.pong at h
                generalize c1.send f.data Gen.opcodePong = x at h hp
                obtain ⟨xr, xc⟩ := x
                cases xr with
                | error e => simp at h
                | ok v =>
                  simp only [] at h hp
                  have hxb : xc.buf = [] := by rw [hp]; exact hb1
                  split at h
                  · injection h with _ h2; rw [← h2]; exact hxb
                  · exact ih _ cf hxb r c' h
              · simp at h
            · split at h
              · split at h
                · injection h with _ h2; rw [← h2]; exact hb1
                · exact ih _ cf hb1 r c' h
              · exact ih _ cf hb1 r c' h

/-- **C03_nothing_parked** — a receive call that returns a value has taken from the transport EXACTLY the bytes it
    consumed, for every chunking: `recv_frame()` (a frame), and `recv_data_frame()` / `recv_data()` / `recv()` (a message,
    a reported control frame, or — per-fragment delivery — a fragment, with every ping answered on the way): the
    library's own buffer, which `select` cannot see, is empty again. So what a select-driven caller observes does not
    depend on the segmentation either. -/
theorem C03_nothing_parked (c : Conn) (hb : c.buf = []) :
    (∀ f c', c.recvFrame = (.ok f, c') → c'.buf = []) ∧
    (∀ cf r c', c.recvDataFrame cf = (.ok r, c') → c'.buf = []) ∧
    (∀ cf r c', c.recvData cf = (.ok r, c') → c'.buf = []) := by
  refine ⟨fun f c' h => recvFrame_exact c hb f c' h, fun cf r c' h => loop_nothing_parked _ c cf hb r c' h, ?_⟩
  intro cf r c' h
  unfold Conn.recvData at h
  cases hx : c.recvDataFrame cf with
  | mk res c1 =>
    rw [hx] at h
    cases res with
    | error e => simp at h
    | ok v =>
      obtain ⟨op, f⟩ := v
      simp only [] at h
      injection h with _ h2
      rw [← h2]
      exact loop_nothing_parked _ c cf hb (op, f) c1 hx

/-- non-vacuity, executed: two frames in one chunk; after the first message the second frame is still in the TRANSPORT. -/
example :
    let c : Conn := { sock := { inp := [.chunk [0x81, 0x01, 0x61, 0x82, 0x01, 0x62]], tail := .timeout } }
    (c.recvData false).2.buf = [] ∧ (c.recvData false).2.sock.inp = [.chunk [0x82, 0x01, 0x62]] := by decide +kernel

end WS.Props.C03e
