/- WS.Props.C14 — property theorems (placeholder during construction) -/
import WS.Model.App
import WS.Spec.AppTrace
namespace WS.Props.C14
end WS.Props.C14
