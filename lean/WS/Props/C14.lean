/-
  WS.Props.C14 — property theorems for C14 (run_forever terminates; on_close once, last, with the close
  reason; resources gone; return value; re-run).
  The invariants (`WS.Lemmas.AppHoare`) hold for ALL worlds (dial outcomes, server event histories, timings),
  ALL callback plans (each callback may return, raise, call close() or raise KeyboardInterrupt at each
  invocation), ALL schedules of the ping thread, keepalive and reconnect on or off, plain and TLS-style.
  Not in the model: close() from a second thread (the harness runs it on the real code only; F13).
-/
import WS.Lemmas.AppHoare
import WS.Lemmas.AppRun
namespace WS.Props.C14
open WS WS.Model.App WS.Lemmas.App

/-- generated facts: teardown is guarded by `has_done_teardown`, stops the ping thread, calls on_close
    last; `run_forever` resets `has_errored` (F3 repaired) and has `finally: teardown()`; `read()` routes a
    close frame to `teardown(frame)` (F2 repaired). -/
theorem source_shape :
    Gen.appTeardownGuard = true ∧ Gen.appTeardownStopsPing = true ∧ Gen.appOnCloseLast = true ∧
    Gen.appResetsHasErrored = true ∧ Gen.appFinallyTeardown = true ∧ Gen.appCloseFrameToTeardown = true ∧
    Gen.appDisconnectSetsErrored = true ∧ Gen.appDisconnectStopsPing = true := by decide

/-- **C14_once_last** — however the run ends (every world, every callback plan in which the on_close
    handler itself does not fail, every schedule, any settings): if run_forever returns, on_close has been
    called exactly once during the run and no callback of any kind comes after it. -/
theorem C14_once_last (c : Cfg) (hco : CloseOk c) (hoc : c.has .onClose = true) (s0 : St) (b : Bool)
    (h : (runForeverO c s0).2 = .returned b) :
    ∃ δ1 a, cbs (runForever c s0) = cbs s0 ++ δ1 ++ [(.onClose, a)] ∧ closesIn δ1 = 0 := by
  obtain ⟨_, htr, _, δ1, a, hc, hcl, _⟩ := returned_spec c hco s0 b h
  refine ⟨δ1, a, ?_, hcl⟩
  have : cbs (runForever c s0) = cbs (runBody c (prologue s0)).1 := by
    simp only [cbs, htr, cbsOf_append]
    simp [cbsOf]
  rw [this, hc]
  simp [onCloseEv, hoc]

/-- **C14_return_value** — with an on_error handler that does not itself fail: the value run_forever
    returns is True exactly when an error of the run (anything other than a user callback's own exception)
    was reported to on_error during *this* run; in particular it is False for a run in which nothing was
    reported (ended by the server's close frame or by the application's close()). -/
theorem C14_return_value (c : Cfg) (hco : CloseOk c) (heo : ErrOk c) (s0 : St) (b : Bool)
    (h : (runForeverO c s0).2 = .returned b) :
    ∃ δ, cbs (runForever c s0) = cbs s0 ++ δ ∧ b = errsIn δ := by
  obtain ⟨_, htr, hb, δ1, a, hc, _, hl⟩ := returned_spec c hco s0 b h
  refine ⟨δ1 ++ onCloseEv c a, ?_, ?_⟩
  · have : cbs (runForever c s0) = cbs (runBody c (prologue s0)).1 := by
      simp only [cbs, htr, cbsOf_append]
      simp [cbsOf]
    rw [this, hc, List.append_assoc]
  · rw [hb, hl heo, errsIn_append, errsIn_onCloseEv, Bool.or_false]

/-- **C14_clean** — when run_forever returns, the loop is stopped, no socket is referenced any more, the
    ping thread is gone and the keepalive clocks are reset. -/
theorem C14_clean (c : Cfg) (hco : CloseOk c) (s0 : St) (b : Bool) (h : (runForeverO c s0).2 = .returned b) :
    (runForever c s0).sock = none ∧ (runForever c s0).ping = none ∧ (runForever c s0).keepRunning = false ∧
    (runForever c s0).lastPing = 0 ∧ (runForever c s0).lastPong = 0 :=
  returned_clean c hco s0 b h

/-- the fields of the app object that `run_forever` and its helpers read -/
def control (s : St) : Bool × Option WSock × Bool × Bool × Option PingTh × Nat × Nat :=
  (s.keepRunning, s.sock, s.hasErrored, s.hasDoneTeardown, s.ping, s.lastPing, s.lastPong)

/-- **C14_rerun** — after a run that returned, the same object is accepted by run_forever again
    (`sock` is None) and, after the prologue of the next call, every field the run reads is what it is on a
    freshly constructed object: a second run behaves like a first. -/
theorem C14_rerun (c : Cfg) (hco : CloseOk c) (s0 : St) (b : Bool) (h : (runForeverO c s0).2 = .returned b) :
    (runForever c s0).sock.isSome = false ∧
    control (prologue (runForever c s0)) = control (prologue ({} : St)) := by
  obtain ⟨h1, h2, _, h4, h5⟩ := C14_clean c hco s0 b h
  refine ⟨by simp [h1], ?_⟩
  simp [control, prologue, h1, h2, h4, h5]

/-- **C14_rerun_settings** — the keepalive settings are arguments of each `run_forever` call (`runManyK`): whatever settings
    a run had and whatever it left unanswered, after it returned the object is — in every field a run reads — a fresh one for
    the next call, whose own settings then apply. (An instance of `C14_rerun`: its conclusion does not mention the settings.) -/
theorem C14_rerun_settings (c : Cfg) (hco : CloseOk c) (iv : Int) (to : Option Int) (s0 : St) (b : Bool)
    (h : (runForeverO { c with iv := iv, to := to } s0).2 = .returned b) :
    (runForever { c with iv := iv, to := to } s0).sock.isSome = false ∧
    control (prologue (runForever { c with iv := iv, to := to } s0)) = control (prologue ({} : St)) :=
  C14_rerun { c with iv := iv, to := to } hco s0 b h

theorem runManyK_cons (c : Cfg) (iv : Int) (to : Option Int) (w : List Dial) (ws : List ((Int × Option Int) × List Dial)) (s : St) :
    runManyK c (((iv, to), w) :: ws) s = runManyK c ws (runForever { c with iv := iv, to := to } { s with dials := w }) := rfl

/-- **C14_terminates** (one connection) — for every legal traffic history followed by a terminating event
    (close frame with or without body, end of stream, reset, protocol or payload error), callbacks that
    return or raise, any subset of callbacks: run_forever returns -- True after an error, False after the
    server's close frame.  The fuel and horizon hypotheses only say that the model is not cut before the
    script's end; the progress argument is the measure `need0` on the script (each loop iteration either
    consumes an event or lets one select timeout pass). -/
theorem C14_terminates (c : Cfg) (hq : Quiet c) (hacc : argsAccepted c.iv c.to = true) (hiv : c.iv = 0)
    (hrc : c.reconnect = 0) (s0 : St) (legal : List TEv) (te : TEv)
    (hs : s0.sock = none) (hp : s0.ping = none) (hl : s0.lastPing = 0)
    (hd : s0.dials = [.established (legal ++ [te])])
    (hleg : ∀ e ∈ legal, isLegal e.ev = true) (hterm : endsBy te)
    (hfuel : need0 (selectTimeout c) (legal ++ [te]) + 1 ≤ c.fuel)
    (hz : endTime s0.now (legal ++ [te]) + secs Gen.closeTimeoutDefault ≤ c.horizon) :
    (runForeverO c s0).2 = .returned (match te.ev with | .close _ => false | _ => true) := by
  obtain ⟨sT, w, hat, _, hnow, _, _, _, hrun⟩ :=
    run_single c hq hacc hiv hrc s0 legal te hs hp hl hd hleg (endsBy_isTerm hterm) hfuel (by omega)
  rw [hrun]
  exact end_outcome c hq hrc sT te w hat hterm (by omega)

/-- **C14_close_args** (one connection) — a run ended by the server's close frame calls
    on_close(code, reason) with `code = be16 body[0:2]`, `reason = body[2:]` when the body has at least two
    bytes and on_close(None, None) otherwise; no on_error is called; the value returned is False. -/
theorem C14_close_args (c : Cfg) (hq : Quiet c) (hacc : argsAccepted c.iv c.to = true) (hiv : c.iv = 0)
    (hrc : c.reconnect = 0) (s0 : St) (legal : List TEv) (te : TEv) (body : Bytes)
    (hs : s0.sock = none) (hp : s0.ping = none) (hl : s0.lastPing = 0)
    (hd : s0.dials = [.established (legal ++ [te])])
    (hleg : ∀ e ∈ legal, isLegal e.ev = true) (hk : te.ev = .close body) (hoc : c.has .onClose = true)
    (hfuel : need0 (selectTimeout c) (legal ++ [te]) + 1 ≤ c.fuel)
    (hz : endTime s0.now (legal ++ [te]) ≤ c.horizon) :
    ∃ pre t, (runForever c s0).trace = pre ++
        [(t, .wrote Gen.opcodeClose (beN 2 Gen.statusNormal)), (t, .sockDropped s0.nextIdx),
         (t, .cb .onClose (Spec.AppTrace.closeArgsOf body)), (t, .returned false)] ∧
      t = endTime s0.now (legal ++ [te]) := by
  obtain ⟨sT, w, hat, hw, hnow, _, _, hrun, _⟩ :=
    run_single c hq hacc hiv hrc s0 legal te hs hp hl hd hleg (by simp [hk, isTerm]) hfuel hz
  refine ⟨sT.trace, sT.now, ?_, hnow⟩
  rw [hrun, end_close c hq sT te w body hat hk]
  have hact : act c .onClose (sT.calls .onClose) = .ok := hq.2.2 _
  simp only [cbTrace, hoc, Bool.not_true, Bool.false_eq_true, ↓reduceIte, hact, reduceCtorEq, decide_false,
    Bool.false_and, closeArgs, Spec.AppTrace.closeArgsOf, hw]
  simp

/-- other endings: on_close(None, None) (here: end of stream; the error is reported first) -/
theorem C14_close_args_eof (c : Cfg) (hq : Quiet c) (hacc : argsAccepted c.iv c.to = true) (hiv : c.iv = 0)
    (hrc : c.reconnect = 0) (s0 : St) (legal : List TEv) (te : TEv)
    (hs : s0.sock = none) (hp : s0.ping = none) (hl : s0.lastPing = 0)
    (hd : s0.dials = [.established (legal ++ [te])])
    (hleg : ∀ e ∈ legal, isLegal e.ev = true) (hk : te.ev = .eof) (hoc : c.has .onClose = true)
    (hoe : c.has .onError = true)
    (hfuel : need0 (selectTimeout c) (legal ++ [te]) + 1 ≤ c.fuel)
    (hz : endTime s0.now (legal ++ [te]) ≤ c.horizon) :
    ∃ pre t, (runForever c s0).trace = pre ++
        [(t, .sockClosed s0.nextIdx), (t, .cb .onError [.exn .closed]), (t, .cb .onClose [.none, .none]),
         (t, .returned true)] := by
  obtain ⟨sT, w, hat, hw, hnow, _, _, hrun, _⟩ :=
    run_single c hq hacc hiv hrc s0 legal te hs hp hl hd hleg (by simp [hk, isTerm]) hfuel hz
  refine ⟨sT.trace, sT.now, ?_⟩
  rw [hrun, end_eof c hq hrc sT te w hat hk]
  have hact : act c .onClose ((cbCalls c sT.calls .onError) .onClose) = .ok := hq.2.2 _
  have hact2 : act c .onError (sT.calls .onError) = .ok := hq.2.1 _
  simp only [cbTrace, hoc, hoe, Bool.not_true, Bool.false_eq_true, ↓reduceIte, hact, hact2, reduceCtorEq,
    decide_false, Bool.false_and, hw]
  simp

/-- non-vacuity and the defects' fixed points, on concrete worlds (evaluated by the kernel):
    server close frame 1001 "bye" → on_close(1001, "bye"), no on_error, returns False (F2);
    run 1 ends by a refused dial (True), run 2 on the same object by the application's close() → False (F3). -/
example :
    let c : Cfg := { has := fun _ => true, plan := fun _ => [], iv := 0, to := none, payload := [],
                     reconnect := 0, ssl := false, horizon := 100000, fuel := 50 }
    (runForeverO c { dials := [.established [⟨50, false, .close [0x03, 0xE9, 0x62, 0x79, 0x65]⟩]] }).2 = .returned false ∧
    (cbs (runForever c { dials := [.established [⟨50, false, .close [0x03, 0xE9, 0x62, 0x79, 0x65]⟩]] })) =
      [(.onOpen, []), (.onClose, [.int 1001, .str [0x62, 0x79, 0x65]])] := by
  decide

example :
    let c : Cfg := { has := fun _ => true, plan := fun cb => if cb = .onMessage then [.close] else [], iv := 0,
                     to := none, payload := [], reconnect := 0, ssl := false, horizon := 100000, fuel := 50 }
    let s1 := runForever c { dials := [.refused] }
    (runForeverO c { dials := [.refused] }).2 = .returned true ∧
    (runForeverO c { s1 with dials := [.established [⟨10, false, .message 1 [0x61] false⟩, ⟨10, false, .eof⟩]] }).2 = .returned false := by
  decide

/-- non-vacuity of the general theorems: a plan in which on_message calls close(), on_ping raises
    KeyboardInterrupt and on_data raises satisfies `CloseOk` and `ErrOk`; on a concrete world the run
    returns, so `C14_once_last` / `C14_return_value` / `C14_clean` / `C14_rerun` apply to it. -/
example :
    let c : Cfg := { has := fun _ => true,
                     plan := fun cb => if cb = .onMessage then [.ok, .close] else if cb = .onPing then [.ki]
                                       else if cb = .onData then [.raise] else [],
                     iv := 300, to := some 200, payload := [1], reconnect := 0, ssl := true, horizon := 100000, fuel := 60 }
    CloseOk c ∧ ErrOk c ∧
    (runForeverO c { dials := [.established [⟨100, false, .message 1 [0x61] false⟩, ⟨50, false, .message 2 [7] true⟩,
        ⟨700, false, .ping []⟩]], sched := [true] }).2 = .returned false := by
  refine ⟨fun k => Or.inl ?_, ⟨rfl, fun k => Or.inl ?_⟩, by decide⟩ <;> simp [Cfg.act]

/-- generated fact: `handleDisconnect` begins with `if not self.keep_running and not isinstance(e, (KeyboardInterrupt,
    SystemExit)): teardown(); return` (repair of F13 / F17). -/
theorem close_guard_in_source : Gen.appCloseGuard = true := by decide

/-- **C14_closing_is_not_an_error** — once the application has closed the connection (`keep_running` is False) any
    exception the loop trips over on its way out — the AttributeError of `self.sock.sock` after close() in on_open, the
    closed transport under a receive, a reset while the closing handshake is awaited — goes to teardown: nothing is reported
    to on_error, `has_errored` is not touched, and (first teardown of the run, on_close not failing) on_close is called
    last with the resources released. KeyboardInterrupt still propagates. For every state, exception and configuration. -/
theorem C14_closing_is_not_an_error (c : Cfg) (s : St) (e : AExn) (rc : Bool)
    (hk : s.keepRunning = false) (he : e ≠ .ki) :
    handleDisconnect c s e rc = teardown c s none := by
  simp [handleDisconnect, close_guard_in_source, hk, he]

/-- F13's scenario after the repair, executed: close() inside on_open — no error report, on_close(None, None), False. -/
example :
    let c : Cfg := { has := fun _ => true, plan := fun cb => if cb = .onOpen then [.close] else [], iv := 0,
                     to := none, payload := [], reconnect := 0, ssl := false, horizon := 100000, fuel := 50 }
    let w : St := { dials := [.established [⟨100, false, .message 1 [0x68, 0x69] false⟩]] }
    (runForeverO c w).2 = .returned false ∧
    cbs (runForever c w) = [(.onOpen, []), (.onClose, [.none, .none])] := by
  decide

/-- generated fact: `WebSocketApp.close()` clears `keep_running` FIRST, before the closing handshake (whose wait for the
    server's reply lets the ping thread and other threads run) — as `Model.App.appClose` does. -/
theorem close_clears_first_in_source : Gen.appCloseClearsFirst = true := by decide

end WS.Props.C14
