/-
  WS.Props.C12b — C12, concurrent receivers.
-/
import WS.Lemmas.Readers
import WS.Props.C12
namespace WS.Props.C12b
open WS WS.Model WS.Model.Readers WS.Lemmas.Readers WS.Lemmas.Loop

/-- **C12_receivers** — for ANY number of concurrent `recv()` calls (tasks), ANY sequence of messages (each with
    any fragmentation, any pings/pongs interleaved) and **every schedule**: at every point of the run

    * the messages delivered so far are exactly the FIRST `k` messages of the stream, in order, each INTACT
      (opcode of its first fragment, in-order concatenation of its fragments — `deliverOf`), never a mixture of
      two messages' fragments, none lost, none duplicated;
    * each was delivered to a DIFFERENT call (`Nodup`), and a call is finished iff it received one;
    * whenever the read lock is free the unread stream is exactly the remaining messages and the shared
      reassembly state is idle — so the next call starts on a message boundary.

    The lock scope is the generated fact `Gen.recvUnderReadlock` (`C12.lock_scopes`). -/
theorem C12_receivers (msgs : List (List Frame)) (hm : ∀ fs ∈ msgs, MsgFrames none fs) (sched : List Nat) :
    let s := run Gen.recvUnderReadlock (init msgs.flatten) sched
    ∃ k, k ≤ msgs.length ∧ s.delivered.map (·.2) = (msgs.take k).map deliverOf ∧
      (s.delivered.map (·.1)).Nodup ∧ (∀ i, s.pc i = .done ↔ i ∈ s.delivered.map (·.1)) ∧
      (s.holder = none → s.stream = (msgs.drop k).flatten ∧ s.cont = none) := by
  rw [WS.Props.C12.lock_scopes.2.1]
  intro s
  obtain ⟨⟨dm, rm, hsplit, hdel, hcase⟩, hnd, hdone⟩ := inv_run msgs hm sched (init msgs.flatten) (inv_init msgs)
  refine ⟨dm.length, by rw [hsplit]; simp, ?_, hnd, hdone, ?_⟩
  · rw [hsplit]; simpa using hdel
  · intro hh
    have hcase' := hcase
    simp only [show (run true (init msgs.flatten) sched).holder = none from hh] at hcase'
    rw [hsplit]
    simpa using ⟨hcase'.1, hcase'.2.1⟩

/-- when `n ≤ msgs.length` calls have all finished, exactly the first `n` messages were delivered, one per call. -/
theorem C12_receivers_all_done (n : Nat) (msgs : List (List Frame)) (hm : ∀ fs ∈ msgs, MsgFrames none fs)
    (sched : List Nat) (hs : ∀ i ∈ sched, i < n)
    (hdone : ∀ i, i < n → (run Gen.recvUnderReadlock (init msgs.flatten) sched).pc i = .done) :
    let s := run Gen.recvUnderReadlock (init msgs.flatten) sched
    n ≤ s.delivered.length ∧ s.delivered.map (·.2) = (msgs.take s.delivered.length).map deliverOf ∧
      (s.delivered.map (·.1)).Nodup := by
  intro s
  obtain ⟨k, hk, hdel, hnd, hiff, _⟩ := C12_receivers msgs hm sched
  have hlen : s.delivered.length = k := by
    have := congrArg List.length hdel
    rw [List.length_map, List.length_map, List.length_take, Nat.min_eq_left hk] at this
    exact this
  refine ⟨?_, by rw [hlen]; exact hdel, hnd⟩
  -- the n finished tasks are n distinct members of the delivered list
  have hsub : ∀ i ∈ List.range n, i ∈ s.delivered.map (·.1) := by
    intro i hi
    exact (hiff i).mp (hdone i (List.mem_range.mp hi))
  have := List.Nodup.length_le_of_subset (l₁ := List.range n) (l₂ := s.delivered.map (·.1)) List.nodup_range (fun i hi => hsub i hi)
  simpa using this

/-- non-vacuity: two messages (one fragmented around a ping), two tasks, an interleaved schedule. -/
example :
    let m1 : List Frame := [{ fin := 0, rsv1 := 0, rsv2 := 0, rsv3 := 0, opcode := 2, mask := 0, data := [1] },
                            { fin := 1, rsv1 := 0, rsv2 := 0, rsv3 := 0, opcode := 9, mask := 0, data := [] },
                            { fin := 1, rsv1 := 0, rsv2 := 0, rsv3 := 0, opcode := 0, mask := 0, data := [2] }]
    let m2 : List Frame := [{ fin := 1, rsv1 := 0, rsv2 := 0, rsv3 := 0, opcode := 2, mask := 0, data := [3] }]
    (run true (init (m1 ++ m2)) [0, 1, 0, 1, 0, 0, 1, 0, 0, 0, 1, 1, 1]).delivered = [(0, 2, [1, 2]), (1, 2, [3])] := by
  decide

end WS.Props.C12b
