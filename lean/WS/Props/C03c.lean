/-
  WS.Props.C03c — C03, "including frames that arrive in the same segment as the handshake response".
-/
import WS.Lemmas.HeadBoundary
import WS.Props.C03
namespace WS.Props.C03c
open WS WS.PyH2 WS.H2 WS.Model.Http WS.Lemmas.HeadBoundary

/-- **C03_head_boundary** — the reader of the handshake response takes from the transport EXACTLY the response head:
    whenever `read_headers` returns, the bytes it has consumed are a prefix `pre` of the byte stream that ends with the
    line feed of the blank line, it made exactly `pre.length` transport reads (one byte each — the generated fact
    `Gen.h2HeadRecvSize = 1`), and everything the server sent after the head — frames in the same segment included — is
    still in the transport, untouched and in order, for the frame parser (`C02_stream`, `C03_segmentation`) to read from
    its true start. For every byte stream, every placement of timeouts/resets after the head, either tail behaviour. -/
theorem C03_head_boundary (s : Sock) (h : Head) (s' : Sock) (n : Nat) (hok : readHeaders s = (.ok h, s', n)) :
    ∃ pre : Bytes, s.inp = pre.map .byte ++ s'.inp ∧ n = pre.length ∧ pre.getLast? = some 10 ∧ s'.tail = s.tail ∧
      Gen.h2HeadRecvSize = 1 := by
  unfold readHeaders at hok
  obtain ⟨pre, p1, p2, p3, _, p5⟩ := readLoop_ok _ s Head.empty 0 h s' n hok
  exact ⟨pre, p1, by omega, p5, p3, by decide⟩

/-- non-vacuity: the head `H 101\r\n\r\n` immediately followed by a text frame `81 01 61` in the same segment. -/
example :
    let head : Bytes := [72, 32, 49, 48, 49, 13, 10, 13, 10]
    let frame : Bytes := [0x81, 0x01, 0x61]
    (readHeaders { inp := (head ++ frame).map .byte, tail := .timeout }).2.1.inp = frame.map .byte := by
  decide +kernel

end WS.Props.C03c
