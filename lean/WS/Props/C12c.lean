/-
  WS.Props.C12c — threads that each send a SEQUENCE of frames (data, pings, the pongs a receiving thread writes, close):
  every schedule yields whole frames in a serial order that keeps each thread's own order.
-/
import WS.Lemmas.ThreadsProg
import WS.Props.C12
namespace WS.Props.C12c
open WS WS.Model.ThreadsProg WS.Lemmas.ThreadsProg

/-- **C12_programs** — any number of threads, each with any program (list) of frames, any short-write pattern, EVERY
    schedule, at the granularity of every yield point: whenever the lock is free the wire is exactly the concatenation of
    the frames completed so far, where the k-th completed frame is the next unsent frame of the thread `order[k]`
    (`played`): whole frames, in a serial order that preserves every thread's program order; while a thread holds the lock
    the wire is that plus a prefix of the frame it is writing; and every thread has completed exactly the first
    `count` frames of its program. A receiving thread answering pings is one such thread (its program: the pongs). -/
theorem C12_programs (prog : Nat → List Bytes) (acc : Nat → Nat) (sched : List Nat) :
    let s := run Gen.sendLoopUnderLock acc (init prog) sched
    (∀ i, s.left i = (prog i).drop (s.order.count i)) ∧
    (s.holder = none → s.wire = (played prog s.order).2.flatten) ∧
    (∀ h, s.holder = some h → ∃ f fs pre rest, s.left h = f :: fs ∧ f = pre ++ rest ∧
      s.wire = (played prog s.order).2.flatten ++ pre) := by
  rw [WS.Props.C12.lock_scopes.1]
  intro s
  have hinv := inv_run prog acc sched (init prog) (inv_init prog)
  refine ⟨?_, fun h => (hinv.free h).1, ?_⟩
  · intro i
    have := hinv.leftOk
    show s.left i = _
    rw [this, played_left]
  · intro h hh
    obtain ⟨f, fs, pre, rest, hl, _, hf, hw, _⟩ := hinv.held h hh
    exact ⟨f, fs, pre, rest, hl, hf, hw⟩

/-- when nobody holds the lock and every thread below `n` has nothing left, the wire holds every frame of every program:
    each thread completed at least as many frames as its program has. -/
theorem C12_programs_all_sent (prog : Nat → List Bytes) (acc : Nat → Nat) (sched : List Nat) (n : Nat)
    (hfree : (run Gen.sendLoopUnderLock acc (init prog) sched).holder = none)
    (hleft : ∀ i, i < n → (run Gen.sendLoopUnderLock acc (init prog) sched).left i = []) :
    let s := run Gen.sendLoopUnderLock acc (init prog) sched
    s.wire = (played prog s.order).2.flatten ∧ ∀ i, i < n → (prog i).length ≤ s.order.count i := by
  intro s
  obtain ⟨hl, hf, _⟩ := C12_programs prog acc sched
  refine ⟨hf hfree, ?_⟩
  intro i hi
  have h1 := hl i
  have h2 : s.left i = [] := hleft i hi
  rw [h2] at h1
  have := congrArg List.length h1
  simp at this
  show (prog i).length ≤ List.count i (run Gen.sendLoopUnderLock acc (init prog) sched).order
  omega

/-- non-vacuity, executed: two threads, programs [AB, C] and [DE]; thread 1 gets the lock between thread 0's frames. -/
example :
    let prog : Nat → List Bytes := fun i => if i = 0 then [[0x41, 0x42], [0x43]] else if i = 1 then [[0x44, 0x45]] else []
    let s := run true (fun _ => 1) (init prog) [0, 0, 1, 0, 0, 1, 1, 1, 1, 0, 0, 0, 0, 0]
    s.wire = [0x41, 0x42, 0x44, 0x45, 0x43] ∧ s.order = [0, 1, 0] ∧ s.holder = none := by decide

end WS.Props.C12c
