/-
  WS.Props.C02 — received frames decode exactly as RFC 6455 prescribes.
-/
import WS.Lemmas.Stream
namespace WS.Props.C02
open WS WS.Spec WS.Model WS.Lemmas.Frame WS.Lemmas.RecvStrict WS.Lemmas.Parser WS.Lemmas.Stream

/-- **Spec round trip** — the RFC decoder inverts the RFC encoder for every header (FIN, RSV1-3,
    opcode < 16), every permitted length form (minimal or not), masked with any 4-byte key or
    unmasked, every payload, and leaves exactly the bytes that follow the frame. This pins the
    meaning of "what an independent decoder extracts" for all frames at once. -/
theorem spec_decode_encode (fin rsv1 rsv2 rsv3 op : Nat) (key : Option Bytes) (form : Nat) (p rest : Bytes)
    (hf : fin < 2) (h1 : rsv1 < 2) (h2 : rsv2 < 2) (h3 : rsv3 < 2) (hop : op < 16)
    (hk : ∀ k, key = some k → k.length = 4)
    (hform : (form = 7 ∧ p.length < 126) ∨ (form = 16 ∧ p.length < 65536) ∨ (form = 64 ∧ p.length < 2 ^ 64)) :
    decode (encode fin rsv1 rsv2 rsv3 op key form p ++ rest) =
      .frame { fin := fin, rsv1 := rsv1, rsv2 := rsv2, rsv3 := rsv3, opcode := op,
               masked := key.isSome, key := key.getD [], lenForm := form, payload := p } rest :=
  decode_encode fin rsv1 rsv2 rsv3 op key form p rest hf h1 h2 h3 hop hk hform

/-- **C02_decode** — the staged parser (`frame_buffer.recv_frame`, mirrored stage by stage) equals the
    RFC decoder: for every state of a live connection with a cleared parser and **every chunking** of the
    pending bytes, if those bytes start with a complete frame `w` (any header byte, any of the three length
    forms, masked or not, any payload), `recv_frame` returns exactly `w`'s FIN/RSV/opcode/unmasked payload
    (or the protocol error `validate` raises for it) and what remains pending is exactly the bytes after the
    frame — so the next frame is parsed from its true start. -/
theorem C02_decode (c : Conn) (hl : Live c) (hch : Chunks c.sock.inp) (hclr : Cleared c)
    (w : WireFrame) (rest : Bytes) (hdec : decode (pending c) = .frame w rest) :
    ∃ c', c.recvFrame = (outcome c.skipUtf8 w, c') ∧ pending c' = rest ∧ Cleared c' ∧ Good c c' :=
  recvFrame_decodes c hl hch hclr w rest hdec

/-- **C02_stream** — for every sequence of back-to-back frames (of any number and any encodings) followed
    by arbitrary bytes, successive `recv_frame` calls yield the decoder's frames in order and consume
    exactly those frames (the tail is what remains pending). Induction on the sequence — no bound. -/
theorem C02_stream (ws : List WireFrame) (c : Conn) (tail : Bytes) (hl : Live c) (hch : Chunks c.sock.inp)
    (hclr : Cleared c) (hd : DecodesTo (pending c) ws tail) :
    ∃ c', recvFrames ws.length c = (ws.map (outcome c.skipUtf8), c') ∧ pending c' = tail ∧ Cleared c' ∧ Good c c' :=
  recvFrames_decodes ws c tail hl hch hclr hd

/-- non-vacuity: a concrete two-chunk transport holding one masked text frame "Hi" and one ping. -/
example : ∃ c : Conn, Live c ∧ Chunks c.sock.inp ∧ Cleared c ∧
    decode (pending c) = .frame { fin := 1, rsv1 := 0, rsv2 := 0, rsv3 := 0, opcode := 1, masked := true,
                                  key := [1, 2, 3, 4], lenForm := 7, payload := [0x48, 0x69] } [0x89, 0x00] :=
  ⟨{ sock := { inp := [.chunk [0x81, 0x82, 1], .chunk [2, 3, 4, 0x49, 0x6b, 0x89, 0x00]] } },
   ⟨rfl, rfl⟩, by intro e he; simp at he; rcases he with rfl | rfl <;> exact ⟨_, rfl, by simp⟩, ⟨rfl, rfl, rfl⟩,
   by decide⟩

/-- generated fact: iteration is receiving — `__iter__` is exactly `while True: yield self.recv()`, `__next__` is
    `return self.recv()`, `next` is `return self.__next__()`; the model's one receive operation stands for all of them (the
    correspondence runs every other session through these spellings). -/
theorem iteration_is_recv : Gen.iterationIsRecv = true := by decide

end WS.Props.C02
