/-
  WS.Props.C02 — received frames decode exactly as RFC 6455 prescribes.
-/
import WS.Lemmas.Frame
namespace WS.Props.C02
open WS WS.Spec WS.Model WS.Lemmas.Frame

/-- **Spec round trip** — the RFC decoder inverts the RFC encoder for every header (FIN, RSV1-3,
    opcode < 16), every permitted length form (minimal or not), masked with any 4-byte key or
    unmasked, every payload, and leaves exactly the bytes that follow the frame. This pins the
    meaning of "what an independent decoder extracts" for all frames at once. -/
theorem spec_decode_encode (fin rsv1 rsv2 rsv3 op : Nat) (key : Option Bytes) (form : Nat) (p rest : Bytes)
    (hf : fin < 2) (h1 : rsv1 < 2) (h2 : rsv2 < 2) (h3 : rsv3 < 2) (hop : op < 16)
    (hk : ∀ k, key = some k → k.length = 4)
    (hform : (form = 7 ∧ p.length < 126) ∨ (form = 16 ∧ p.length < 65536) ∨ (form = 64 ∧ p.length < 2 ^ 64)) :
    decode (encode fin rsv1 rsv2 rsv3 op key form p ++ rest) =
      .frame { fin := fin, rsv1 := rsv1, rsv2 := rsv2, rsv3 := rsv3, opcode := op,
               masked := key.isSome, key := key.getD [], lenForm := form, payload := p } rest :=
  decode_encode fin rsv1 rsv2 rsv3 op key form p rest hf h1 h2 h3 hop hk hform

end WS.Props.C02
