/-
  WS.Props.C17 — arbitrary server bytes: documented exceptions only, progress, bounded requests.
  Frame phase: WS.Lemmas.{Total,Sizes}; handshake phase: WS.Lemmas.Http (head-phase models).
-/
import WS.Lemmas.Total
import WS.Lemmas.Sizes
import WS.Lemmas.LoopTotal
import WS.Lemmas.Http
namespace WS.Props.C17
open WS WS.Model WS.Lemmas.RecvStrict WS.Lemmas.Parser WS.Lemmas.Total WS.Lemmas.Sizes WS.Lemmas.LoopTotal

theorem cap_value : Gen.recvCap = 16384 := by decide

/-- **C17_frame_no_internal** — frame phase: whatever bytes the server sends (ANY byte string, in ANY
    chunking), followed by end of stream or silence, a `recv_frame` call from a cleared parser returns a
    frame or raises PROTO, CLOSED or TIMEOUT: never IndexError/struct.error/TypeError/…, and never runs out
    of fuel — i.e. it cannot spin without consuming input. -/
theorem C17_frame_no_internal (c : Conn) (hl : Live c) (hch : Chunks c.sock.inp) (hclr : Cleared c)
    (e : Exn) (he : c.recvFrame.1 = .error e) : e = .proto ∨ e = .closed ∨ e = .timeout :=
  recvFrame_benign c hl hch hclr e he

/-- **C17_message_no_internal** — message level: whatever bytes the server sends (any byte string, any
    chunking) followed by end of stream or silence, and however the transport treats the automatic replies,
    `recv_data_frame` returns a value or raises PROTO, PAYLOAD, CLOSED, TIMEOUT or the transport's own error;
    never an internal error; the fuel the model passes is always enough, i.e. the loop never spins: every turn
    consumes at least two bytes of input or ends the call. -/
theorem C17_message_no_internal (c : Conn) (cf : Bool) (hr : RxReady c) (e : Exn)
    (he : (c.recvDataFrame cf).1 = .error e) :
    e = .proto ∨ e = .payload ∨ e = .closed ∨ e = .timeout ∨ e = .transport := by
  apply recvDataFrameLoop_benign _ cf c hr _ e he
  have := bytesOf_le_size c.sock.inp
  simp only [pending, List.length_append]
  unfold Sock.size
  omega

/-- **C17_request_sizes** — for EVERY state, EVERY transport script (chunks, timeouts, waits, eof, reset)
    and EVERY length the peer declares (up to 2^64-1), each size `recv_frame` passes to the transport's
    `recv` is at most 16384: the request is never driven by a length the peer merely declared. -/
theorem C17_request_sizes (c : Conn) :
    ∀ x ∈ c.recvFrame.2.sock.recvSizes, x ∈ c.sock.recvSizes ∨ x ≤ 16384 := by
  intro x hx
  have := recvFrame_sizes c x hx
  rwa [cap_value] at this

/-- non-vacuity: a header declaring 2^63-1 bytes with a 5-byte body: the model asks for 16384, never more,
    and ends in CLOSED. -/
example :
    let c : Conn := { sock := { inp := [.chunk ([0x82, 0x7F, 0x7F, 0xFF, 0xFF, 0xFF, 0xFF, 0xFF, 0xFF, 0xFF] ++ [1, 2, 3, 4, 5])] } }
    c.recvFrame.1 = .error .closed ∧ c.recvFrame.2.sock.recvSizes.foldl max 0 = 16384 := by
  decide

open WS.Lemmas.Http WS.Model.Http WS.Model.Handshake WS.H2 in
/-- **C17_head_no_internal** — handshake phase: for every transport script, `read_headers` ends in a
    documented exception or returns; `_get_resp_headers` likewise, and every size it asks of the transport is
    1 (head) or at most 16384 (error body), whatever Content-Length says. (Proved over the head-phase models
    in WS.Lemmas.Http; the repaired guards are generated facts.) -/
theorem C17_head_no_internal (s : WS.Model.Http.Sock) :
    (∀ e s' k, readHeaders s = (.error e, s', k) → Documented e) ∧
    (∀ e s' io, getRespHeaders s = (.error e, s', io) → Documented e) ∧
    (∀ r s' io, getRespHeaders s = (r, s', io) → ∀ ev ∈ io, ∃ n, ev = IoEv.recv n ∧ n ≤ 16384) := by
  refine ⟨fun e s' k h => readHeaders_err s e s' k h, (getRespHeaders_err_sizes s).1, ?_⟩
  intro r s' io h ev hev
  obtain ⟨n, h1, h2⟩ := (getRespHeaders_err_sizes s).2 r s' io h ev hev
  exact ⟨n, h1, by rw [guards.2.2.2.2.1] at h2; exact h2⟩

end WS.Props.C17
