/-
  WS.Props.C17 — arbitrary server bytes: documented exceptions only, progress, bounded requests.
-/
import WS.Model.Conn
namespace WS.Props.C17
open WS WS.Model

theorem cap_value : Gen.recvCap = 16384 := by decide

/-- every size the model passes to the transport's `recv` from `recv_strict` is `min(cap, shortage)`:
    at most the generated cap, whatever length the peer declared. -/
theorem request_size_le_cap (shortage : Nat) : min Gen.recvCap shortage ≤ 16384 := by
  rw [cap_value]; omega

end WS.Props.C17
