/-
  WS.Props.C18 — property theorems for C18 (URL → target; address loop; dispatcher).
  Helper lemmas live in WS.Lemmas.Url.
-/
import WS.Lemmas.Url
import WS.Lemmas.Dial
import WS.Model.Proxy
namespace WS.Props.C18
open WS WS.Py WS.Net
open WS.Model.OpenSocket
open WS.Lemmas.Url WS.Lemmas.Dial

/-! ### the URL -/

/-- generated facts (T): `parse_url` tests for "//" after the scheme and splits with
    `urlsplit` (each false of a tree without the corresponding repair). -/
theorem code_shape : Gen.parseUrlRequiresSlashes = true ∧ Gen.parseUrlUsesUrlsplit = true := url_shape

/-- generated fact (T): the default ports in `parse_url`. -/
theorem default_ports : Gen.defaultPortWs = 80 ∧ Gen.defaultPortWss = 443 := by decide

/-- **C18_parse** — for every string the Spec's grammar accepts as a ws/wss URL (any host form,
    any port 1…65535 or none, any path, query, user-info, fragment; any IP-literal
    recogniser), `parse_url` returns exactly the Spec's target: lower-cased host without
    brackets, explicit port or 80/443, path-or-"/" plus "?"query, TLS flag iff wss. -/
theorem C18_parse (v6ok : Str → Bool) (u : Str) (t : Target)
    (h : Spec.Url.classify v6ok u = .target t) : Model.Url.parseUrl v6ok u = .ok t := by
  unfold Spec.Url.classify at h
  split at h
  · cases h
  next hcon =>
  have hc : ':' ∈ u := by simpa using hcon
  dsimp only at h
  split at h
  · cases h
  next hsch =>
  split at h
  · next body hr =>
    rw [parseUrl_hier v6ok u body hc hr, ← isDelim_eq]
    simp only [Bool.not_eq_true', Bool.not_eq_false, Bool.or_eq_true] at hsch
    rcases hsch with hws | hwss
    · have e : u.takeWhile (· != ':') = "ws".toList := by simpa [Spec.Url.isWs] using hws
      have hh := hier_target v6ok _ _ _ t h
      rw [e] at hh ⊢
      simpa [Spec.Url.isWss, default_ports.1] using hh
    · have e : u.takeWhile (· != ':') = "wss".toList := by simpa [Spec.Url.isWss] using hwss
      have hh := hier_target v6ok _ _ _ t h
      rw [e] at hh ⊢
      simpa [Spec.Url.isWss, default_ports.2] using hh
  · cases h

/-- **C18_reject** — no ":" at all, a scheme other than ws/wss, no "//" after the scheme, or an
    authority without a host: `parse_url` raises ValueError.  (`C18_no_network` below: nothing
    has touched the resolver or a socket at that point.) -/
theorem C18_reject (v6ok : Str → Bool) (u : Str)
    (h : Spec.Url.classify v6ok u = .refuse) : Model.Url.parseUrl v6ok u = .error .valueError := by
  unfold Spec.Url.classify at h
  split at h
  · next hcon =>
    unfold Model.Url.parseUrl
    simp only [hcon, if_true]
  next hcon =>
  have hc : ':' ∈ u := by simpa using hcon
  dsimp only at h
  split at h
  · next hsch =>
    simp only [Bool.not_eq_true', Bool.or_eq_false_iff, Spec.Url.isWs, Spec.Url.isWss] at hsch
    by_cases hp : ("//".toList).isPrefixOf ((u.dropWhile (· != ':')).drop 1) = true
    · match hr : (u.dropWhile (· != ':')).drop 1, hp with
      | [], hp => simp at hp
      | [c], hp => simp [List.isPrefixOf] at hp
      | c :: d :: body, hp =>
        simp at hp
        obtain ⟨rfl, rfl⟩ := hp
        rw [parseUrl_hier v6ok u body hc hr]
        simp only [hsch.1, hsch.2, if_false, Bool.false_eq_true]
    · exact parseUrl_noslashes v6ok u ((Bool.not_eq_true _).mp hp)
  next hsch =>
  split at h
  · next body hr =>
    rw [parseUrl_hier v6ok u body hc hr, ← isDelim_eq]
    have := hier_refuse v6ok _ Gen.defaultPortWs _ _ h
    have := hier_refuse v6ok _ Gen.defaultPortWss _ _ h
    split
    · simp_all [Spec.Url.isWss]
    · split
      · simp_all [Spec.Url.isWss]
      · rfl
  · next hno => exact parseUrl_noslashes v6ok u (prefix_slashes _ hno)

/-- **C18_total** — whatever the string, `parse_url` either returns a target or raises
    ValueError: no other exception, no internal error. -/
theorem C18_total (v6ok : Str → Bool) (u : Str) (e : Exn)
    (h : Model.Url.parseUrl v6ok u = .error e) : e = .valueError := by
  by_cases hc : ':' ∈ u
  · by_cases hp : ("//".toList).isPrefixOf ((u.dropWhile (· != ':')).drop 1) = true
    · have key : ∀ body, (u.dropWhile (· != ':')).drop 1 = '/' :: '/' :: body → e = .valueError := by
        intro body hr
        rw [parseUrl_hier v6ok u body hc hr] at h
        split at h
        · exact parseHier_error _ _ _ _ _ _ h
        · split at h
          · exact parseHier_error _ _ _ _ _ _ h
          · cases h; rfl
      match hr : (u.dropWhile (· != ':')).drop 1, hp with
      | [], hp => simp at hp
      | [c], hp => simp [List.isPrefixOf] at hp
      | c :: d :: body, hp =>
        simp at hp
        obtain ⟨rfl, rfl⟩ := hp
        exact key body hr
    · rw [parseUrl_noslashes v6ok u ((Bool.not_eq_true _).mp hp)] at h
      cases h; rfl
  · unfold Model.Url.parseUrl at h
    have hcon : u.contains ':' = false := by simpa using hc
    simp only [hcon, Bool.not_false, if_true] at h
    cases h; rfl

/-- **C18_no_network** — when `parse_url` refuses the URL, `connect()` ends with that
    ValueError and the trace of resolver and socket activity is empty.  With `C18_reject`:
    no ":" / foreign scheme / no "//" / no host ⇒ ValueError before any network activity. -/
theorem C18_no_network (v6ok : Str → Bool) (url : Str) (timeout : Nat) (sockopt : List String)
    (p : Model.Proxy.ProxyInfo) (env : Model.NoProxy.Env) (w : Model.Proxy.World) (e : Exn)
    (h : Model.Url.parseUrl v6ok url = .error e) :
    Model.Proxy.connect v6ok url timeout sockopt p env w = (.error .valueError, []) := by
  have := C18_total v6ok url e h
  subst this
  unfold Model.Proxy.connect
  rw [h]

/-- **C18_target** — with no proxy in play, the name and port handed to the resolver are the
    parsed URL's host and port, TLS is requested exactly for wss and with that host name,
    and the tuple handed to the handshake is the parsed (host, port, resource). -/
theorem C18_target (v6ok : Str → Bool) (url : Str) (timeout : Nat) (sockopt : List String)
    (p : Model.Proxy.ProxyInfo) (env : Model.NoProxy.Env) (w : Model.Proxy.World) (t : Target)
    (o : Outcome) (outs : List Outcome) (i : Nat) (evs : List Ev)
    (hp : Model.Url.parseUrl v6ok url = .ok t)
    (hc : Model.Proxy.getProxyInfo v6ok t.host t.secure p env = .ok Model.Proxy.direct)
    (ha : w.addrs = some (o :: outs))
    (hd : openSocket timeout sockopt (o :: outs) = (.ok i, evs)) :
    Model.Proxy.connect v6ok url timeout sockopt p env w =
      (.ok (i, t), Model.Proxy.CEv.resolve t.host t.port :: evs.map .sock
        ++ (if t.secure then [.tls i t.host] else [])) := by
  unfold Model.Proxy.connect
  simp only [hp, hc, ha, hd]
  cases hs : t.secure <;> simp [Model.Proxy.addrTarget, Model.Proxy.direct]

/-- non-vacuity: the grammar accepts the usual forms, refuses the malformed ones, and the
    `;params` case keeps its parameters (F14 repaired). -/
example :
    Spec.Url.classify Model.Url.bracketOk "wss://u:p@Ex.Com:8443/a;b/c?d=1#f".toList =
      .target ⟨"ex.com".toList, 8443, "/a;b/c?d=1".toList, true⟩ ∧
    Spec.Url.classify Model.Url.bracketOk "ws://[::1]?q".toList =
      .target ⟨"::1".toList, 80, "/?q".toList, false⟩ ∧
    Spec.Url.classify Model.Url.bracketOk "ws:abc://h/".toList = .refuse ∧
    Spec.Url.classify Model.Url.bracketOk "http://h/".toList = .refuse ∧
    Spec.Url.classify Model.Url.bracketOk "ws://:80/".toList = .refuse ∧
    Spec.Url.classify Model.Url.bracketOk "ws://h:0/".toList = .unconstrained := by decide

/-! ### the address loop -/

/-- **C18_dial** — for every non-empty address list of any length and every pattern of
    outcomes, `_open_socket` tries the addresses in order, goes past every refused or
    unreachable one, stops at the first other outcome (connected, or that error raised at
    once), raises the last error when all were refused/unreachable; and on every socket tried
    the calls are exactly: create, settimeout(timeout), the default options, the user's
    options, connect, and close iff the connect failed. -/
theorem C18_dial (timeout : Nat) (user : List String) (outs : List Outcome) (hne : outs ≠ []) :
    (toDial (openSocket timeout user outs).1, (openSocket timeout user outs).2) =
      Spec.Url.dialSpec timeout Gen.defaultSockOpts user outs := by
  unfold openSocket Spec.Url.dialSpec
  rw [openFrom_spec]
  refine Prod.ext ?_ (by simp [evsFrom])
  simp only [resFrom, Nat.zero_add]
  generalize hd : List.dropWhile Outcome.skippable outs = rest
  match rest with
  | .accept :: _ => simp [toDial]
  | .refused :: _ => simp [toDial]
  | .unreachable :: _ => simp [toDial]
  | .other c :: _ => simp [toDial]
  | [] =>
    cases hl : (List.takeWhile Outcome.skippable outs).getLast? with
    | some o => simp [toDial]
    | none =>
      exfalso
      have h1 : List.takeWhile Outcome.skippable outs = [] := List.getLast?_eq_none_iff.mp hl
      have := List.takeWhile_append_dropWhile (p := Outcome.skippable) (l := outs)
      rw [h1, hd] at this
      exact hne this.symm

example : (openSocket 5 ["o"] [.refused, .unreachable, .accept, .refused]).1 = .ok 2 ∧
    (openSocket 5 [] [.refused, .other 110, .accept]).1 = .raised (.other 110) ∧
    (openSocket 5 [] [.refused, .unreachable]).1 = .raised .unreachable := by decide

/-- **C18_options** — corollary on the trace itself: whenever a socket is connected, the
    events immediately before it on that socket are its creation, `settimeout(timeout)`, every
    default option and every user option, in this order (all sockets tried, any list). -/
theorem C18_options (timeout : Nat) (user : List String) (outs : List Outcome) (hne : outs ≠ [])
    (i : Nat) (o : Outcome)
    (hi : (o, i) ∈ ((outs.takeWhile Outcome.skippable ++ (outs.dropWhile Outcome.skippable).take 1).zipIdx 0)) :
    ([Ev.create i, .settimeout i timeout] ++ Gen.defaultSockOpts.map (Ev.setsockopt i)
        ++ user.map (Ev.setsockopt i) ++ [.connect i]) <:+: (openSocket timeout user outs).2 := by
  have h := congrArg Prod.snd (C18_dial timeout user outs hne)
  simp only [Spec.Url.dialSpec] at h
  rw [h]
  have hb : Spec.Url.block timeout Gen.defaultSockOpts user i o ∈
      (((outs.takeWhile Outcome.skippable ++ (outs.dropWhile Outcome.skippable).take 1).zipIdx).map
        fun (o, j) => Spec.Url.block timeout Gen.defaultSockOpts user j o) :=
    List.mem_map.mpr ⟨(o, i), hi, rfl⟩
  have hsub := List.infix_of_mem_flatten hb
  refine List.IsInfix.trans ?_ hsub
  unfold Spec.Url.block
  exact ⟨[], if o == .accept then [] else [.close i], by simp⟩

/-- generated fact (T): the default options start with TCP_NODELAY and enable keep-alive. -/
theorem default_options :
    Gen.defaultSockOpts.head? = some "socket.SOL_TCP|socket.TCP_NODELAY|1" ∧
    "socket.SOL_SOCKET|socket.SO_KEEPALIVE|1" ∈ Gen.defaultSockOpts := by decide

/-! ### dispatcher -/

/-- **C18_dispatcher** — without a custom dispatcher, the TLS-aware dispatcher is chosen
    exactly when the URL's security flag is set, with time-out `ping_timeout or 10`. -/
theorem C18_dispatcher (pt : Option Nat) (secure : Bool) :
    (∃ t, createDispatcher pt false secure = .ssl t) ↔ secure = true := by
  unfold createDispatcher
  cases secure <;> simp

theorem dispatcher_timeout : createDispatcher none false true = .ssl 10 ∧
    createDispatcher (some 0) false false = .plain 10 ∧
    createDispatcher (some 7) false true = .ssl 7 := by decide

end WS.Props.C18
